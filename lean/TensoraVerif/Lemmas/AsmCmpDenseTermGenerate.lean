import TensoraVerif.Lemmas.DenseTermGenerate
import TensoraVerif.Lemmas.AsmCmpDenseGenerate

/-!
C04 for all dense single-term contractions (class `DenseTerm`), part 1: what `lower` / `generateIr` emit for
the kinds `.assemble` and `.compute`.

* `.assemble`: `lower` returns at the first node with an EMPTY commented block (`asmSB`); the kernel only
  allocates `vals` (`kernelA`);
* `.compute`: `lower` emits exactly `DenseTerm.termNest` — INCLUDING the "Bucket initialization" block
  (`bucketDeclarations` is emitted under `k.isCompute`), which re-zeroes the slab before accumulating
  (`lowerC_eq`); "Output initialization" and "Assembling output tensor" are EMPTY blocks (`kernelC`).
-/
namespace TV.AsmCmpDenseTerm
open TV.IR TV.Gen TV.Graph TV.Growth TV.DenseTerm
open TV.Dense1 (leaves)
open TV.DenseN (ptrDecl storeStmt getD_dense getElem?_getD_dense generateSubgraphs_eq)
set_option linter.unusedSectionVars false
set_option linter.unusedSimpArgs false
variable {F : Type}

/-! ### `lower … .assemble` : no loops -/

/-- the (empty) builder `lower … .assemble` returns for the graph of the class -/
def asmSB : List Level → SB F
  | [] => ⟨some "*** Computation of expression ***", []⟩
  | p :: _ => ⟨some ("*** Iteration over " ++ p.1 ++ " ***"), []⟩

theorem asmSB_comment (lv : List Level) :
    ∃ c, (asmSB lv : SB F).comment = some c ∧ (asmSB lv : SB F).lines = [] := by
  cases lv with
  | nil => exact ⟨_, rfl, rfl⟩
  | cons p r => exact ⟨_, rfl, rfl⟩

/-- **`lower … .assemble` emits no loop**: for the graph of the class the result is an empty commented block. -/
theorem lowerA_eq (ofRat : Rat → F) (k : Nat) (lv : List Level) (outT : TensorId) (e : IdExpr)
    (hom : outT.modes.all (· == Mode.dense) = true) :
    lower ofRat (k + 1) (graph lv outT e) (.append outT 0) .assemble = .ok (asmSB lv) := by
  cases lv with
  | nil =>
    simp only [graph, nest]
    unfold lower
    simp [Kind.isCompute, AsmCmpDense.writtenFlags_dense outT 0 hom, SB.mk', asmSB, pure, Except.pure]
  | cons p rest =>
    obtain ⟨x, o⟩ := p
    cases o <;>
    · simp only [graph, nest]
      unfold lower
      simp [Kind.isCompute, AsmCmpDense.hasSparseLayer_dense outT 0 hom, SB.mk', asmSB, pure, Except.pure]

/-! ### `lower … .compute` : the nest of `evaluate`, bucket initialisation included -/

theorem lowerC_terminal_app (ofRat : Rat → F) (n : Nat) (outT : TensorId) (e : IdExpr)
    (hm : outT.modes.all (· == Mode.dense) = true) :
    lower ofRat (n + 1) (.terminal e) (.append outT outT.indexes.length) .compute =
      .ok ⟨some "*** Computation of expression ***", [storeStmt ofRat outT e]⟩ :=
  AsmCmpDense.lowerC_terminal_eq ofRat n outT e hm

theorem lowerC_terminal_bkt (ofRat : Rat → F) (n : Nat) (outT : TensorId) (e : IdExpr) (n0 : Nat)
    (hm : outT.modes.all (· == Mode.dense) = true) :
    lower ofRat (n + 1) (.terminal e) (.bucket outT (bucketLayers outT n0)) .compute =
      .ok ⟨some "*** Computation of expression ***", [accStmt ofRat outT e n0]⟩ := by
  unfold lower
  have hw := writtenFlags_dense (.bucket outT (bucketLayers outT n0)) hm
  simp [Kind.isCompute, hw, Output.writeAssignment, SB.mk', SB.append, SB.add, SB.empty,
    accStmt, bind, Except.bind, pure, Except.pure]

/-! ### the main induction -/

theorem bucketC_next (outT : TensorId) (n : Nat) (hm : outT.modes.all (· == Mode.dense) = true) :
    ((Output.append outT n).next none Kind.compute : Except GenErr (Output × SB F)) =
      .ok (.bucket outT (bucketLayers outT n),
        bucketDeclarations outT (bucketLayers outT n) (bucketPtrE outT n)) := by
  have hd : (outT.modes.drop n).all (· == Mode.dense) = true := by
    rw [List.all_eq_true] at hm ⊢
    intro y hy
    exact hm y (List.mem_of_mem_drop hy)
  simp [Output.next, hd, Kind.isCompute, bucketLayers, bucketPtrE]

/-- **T1, generalised over the level and the output state.** -/
theorem lowerC_nest_eq (ofRat : Rat → F) (outT : TensorId) (e : IdExpr) (full : List Level)
    (ho : isOut full outT = true) (he : isExpr (idxs full) e = true) (hnd : (idxs full).Nodup)
    (hz : ∀ p ∈ full, p.2 = false → zeroish e = false) :
    ∀ (rest pre : List Level) (m : OMode) (k : Nat), full = pre ++ rest → ModeOK m pre →
      lower ofRat (rest.length + 1 + k) (nest outT e (outIdxs pre).length rest) (m.out outT) .compute =
        .ok (termSB ofRat outT e m rest) := by
  obtain ⟨hoi, hom, hol⟩ := (isOut_iff full outT).1 ho
  intro rest
  induction rest with
  | nil =>
    intro pre m k hfull hmode
    simp only [nest, termSB, List.length_nil, Nat.zero_add]
    rw [Nat.add_comm 1 k]
    cases m with
    | bkt n0 => exact lowerC_terminal_bkt ofRat k outT e n0 hom
    | app n =>
      obtain ⟨h1, h2⟩ := hmode
      have hl : n = outT.indexes.length := by
        rw [hoi, hfull, List.append_nil, outIdxs_of_all h2, h1]; simp [idxs]
      simp only [OMode.out, termStmt]
      rw [hl]
      exact lowerC_terminal_app ofRat k outT e hom
  | cons p rest ih =>
    obtain ⟨x, o⟩ := p
    intro pre m k hfull hmode
    have hnd0 := hnd
    rw [hfull, idxs_append] at hnd0
    have hidx0 : idxs ((x, o) :: rest) = x :: idxs rest := rfl
    rw [hidx0] at hnd0
    have hctx := extractContext_eq (idxs full) e x he
    have hIH := ih (pre ++ [(x, o)]) (m.next o) k (by rw [hfull]; simp) (hmode.next x o)
    have hzx : o = false → zeroish e = false := fun h => hz (x, o) (by rw [hfull]; simp) h
    -- the leaves of the context
    have hleaves : ∀ lf ∈ ctxLeaves x (leaves e),
        layersToWrite lf x (x :: idxs rest) = [lf] ∧ lf.tensor.indexes.getD lf.layer "" = x := by
      intro lf hlf
      obtain ⟨h1, h2⟩ := mem_ctxLeaves hlf
      have := isExpr_mem he _ h1
      rw [hfull, idxs_append, hidx0] at this
      exact layersToWrite_eq (idxs pre) (idxs rest) x lf.tensor lf.layer this hnd0 h2
    rw [show ((x, o) :: rest).length + 1 + k = (rest.length + 1 + k) + 1 by simp; omega]
    obtain ⟨c, hc⟩ := termSB_comment ofRat outT e (m.next o) rest
    cases o with
    | true =>
      have hlen1 : (outIdxs (pre ++ [(x, true)])).length = (outIdxs pre).length + 1 := by
        simp [outIdxs]
      rw [hlen1] at hIH
      simp only [nest]
      generalize hnx : nest outT e ((outIdxs pre).length + 1) rest = nx at hIH
      have hnc : nodeContext (IGraph.iter x (some ⟨outT, (outIdxs pre).length⟩) nx) =
          extractContext e x := by
        simp [nodeContext, ← hnx, nest_context]
      have hcd : compressedDims (IGraph.iter x (some ⟨outT, (outIdxs pre).length⟩) nx) = [] := by
        simp [compressedDims, hnc, hctx.1, dedupStr]
      have hsub := generateSubgraphs_eq _ hcd
      have hlater : (IGraph.iter x (some ⟨outT, (outIdxs pre).length⟩) nx).laterIndexes =
          x :: idxs rest := by
        simp [IGraph.laterIndexes, ← hnx, nest_laterIndexes]
      have hmode' : ({ tensor := outT, layer := (outIdxs pre).length } : Leaf).mode = Mode.dense := by
        simp [Leaf.mode, getElem?_getD_dense hom]
      have hso : isSparseOutput (IGraph.iter x (some ⟨outT, (outIdxs pre).length⟩) nx) = false := by
        simp [isSparseOutput, hmode']
      cases m with
      | app n =>
        obtain ⟨h1, h2⟩ := hmode
        have hn : n = (outIdxs pre).length := by rw [outIdxs_of_all h2, h1]; simp [idxs]
        subst hn
        have hnext : ((Output.append outT (outIdxs pre).length).next (some (outIdxs pre).length)
            Kind.compute : Except GenErr (Output × SB F)) =
            .ok (.append outT ((outIdxs pre).length + 1), SB.empty) := by simp [Output.next]
        -- the output cursor
        have hoL : layersToWrite ⟨outT, (outIdxs pre).length⟩ x (x :: idxs rest) =
            [⟨outT, (outIdxs pre).length⟩] ∧ outT.indexes.getD (outIdxs pre).length "" = x := by
          have hlf : isLeaf (idxs pre ++ x :: idxs rest) outT = true := by
            have := isLeaf_of_isOut ho
            rwa [hfull, idxs_append] at this
          apply layersToWrite_eq (idxs pre) (idxs rest) x outT _ hlf hnd0
          rw [hoi, hfull, outIdxs_append]
          have hxp : x ∉ outIdxs pre := fun h =>
            (List.nodup_append.1 hnd0).2.2 x ((outIdxs_sublist pre).subset h) x (by simp) rfl
          have hf1 : (outIdxs pre).findIdx? (· == x) = none := by
            rw [List.findIdx?_eq_none_iff]
            intro y hy
            exact beq_eq_false_iff_ne.2 (fun e => hxp (e ▸ hy))
          rw [List.findIdx?_append, hf1]
          simp [outIdxs, List.findIdx?_cons]
        simp only [OMode.out, OMode.next] at hIH hc ⊢
        unfold lower
        simp only [Kind.isCompute, Kind.isAssemble, Bool.not_true, Bool.false_and, Bool.false_eq_true, if_false]
        simp only [hso, hmode', Option.map_some, hnext, hsub, hnc, hctx.1, hctx.2.1, hlater, hIH,
          Bool.and_false, Bool.or_false, Bool.false_and, Bool.false_eq_true, if_false, if_true,
          List.foldlM_cons, List.foldlM_nil, bind, Except.bind, pure, Except.pure,
          List.isEmpty_nil, Bool.not_true, Option.isNone_some, Bool.not_false, List.foldl_nil,
          beq_self_eq_true, List.map_nil, List.nil_append]
        have hfold := foldl_ptrDecls (F := F) x (x :: idxs rest)
          (⟨outT, (outIdxs pre).length⟩ :: ctxLeaves x (leaves e)) (by
            intro lf hlf
            rcases List.mem_cons.1 hlf with rfl | hlf
            · exact hoL
            · exact hleaves lf hlf) SB.empty
        rw [List.singleton_append, hfold, List.map_cons, ctxLeaves_map]
        simp [SB.mk', SB.append, SB.empty, SB.add, SB.loop, SB.finalize, branchJoin, andJoin,
          joinWith, hc, termSB, OMode.next, initDecl, outDecl]
      | bkt n0 =>
        have hnext : ((Output.bucket outT (bucketLayers outT n0)).next (some (outIdxs pre).length)
            Kind.compute : Except GenErr (Output × SB F)) =
            .ok (.bucket outT (bucketLayers outT n0), SB.empty) := by simp [Output.next]
        simp only [OMode.out, OMode.next] at hIH hc ⊢
        unfold lower
        simp only [Kind.isCompute, Kind.isAssemble, Bool.not_true, Bool.false_and, Bool.false_eq_true, if_false]
        simp only [hso, hmode', Option.map_some, hnext, hsub, hnc, hctx.1, hctx.2.1, hlater, hIH,
          Bool.and_false, Bool.or_false, Bool.false_and, Bool.false_eq_true, if_false, if_true,
          List.foldlM_cons, List.foldlM_nil, bind, Except.bind, pure, Except.pure,
          List.isEmpty_nil, Bool.not_true, Option.isNone_some, Bool.not_false, List.foldl_nil,
          beq_self_eq_true, List.map_nil, List.nil_append]
        have hfold := foldl_ptrDecls (F := F) x (x :: idxs rest) (ctxLeaves x (leaves e)) hleaves SB.empty
        rw [hfold, ctxLeaves_map]
        simp [SB.mk', SB.append, SB.empty, SB.add, SB.loop, SB.finalize, branchJoin, andJoin,
          joinWith, hc, termSB, OMode.next, initDecl, outDecl]
    | false =>
      have hlen1 : (outIdxs (pre ++ [(x, false)])).length = (outIdxs pre).length := by
        simp [outIdxs]
      rw [hlen1] at hIH
      simp only [nest]
      generalize hnx : nest outT e (outIdxs pre).length rest = nx at hIH
      have hnc : nodeContext (IGraph.iter x none nx) = extractContext e x := by
        simp [nodeContext, ← hnx, nest_context]
      have hcd : compressedDims (IGraph.iter x none nx) = [] := by
        simp [compressedDims, hnc, hctx.1, dedupStr]
      have hsub := generateSubgraphs_eq _ hcd
      have hlater : (IGraph.iter x none nx).laterIndexes = x :: idxs rest := by
        simp [IGraph.laterIndexes, ← hnx, nest_laterIndexes]
      have hso : isSparseOutput (IGraph.iter x none nx) = false := by
        simp [isSparseOutput]
      have hsp : (extractContext e x).isSparse = false := by rw [hctx.2.2]; exact hzx rfl
      have hfold := foldl_ptrDecls (F := F) x (x :: idxs rest) (ctxLeaves x (leaves e)) hleaves SB.empty
      cases m with
      | app n =>
        have hnext := bucketC_next (F := F) outT n hom
        simp only [OMode.out, OMode.next] at hIH hc ⊢
        unfold lower
        simp only [Kind.isCompute, Kind.isAssemble, Bool.not_true, Bool.false_and, Bool.false_eq_true, if_false]
        simp only [hso, Option.map_none, hnext, hsub, hnc, hctx.1, hctx.2.1, hsp, hlater, hIH,
          Bool.and_false, Bool.or_false, Bool.false_and, Bool.false_eq_true, if_false, if_true,
          List.foldlM_cons, List.foldlM_nil, bind, Except.bind, pure, Except.pure,
          List.isEmpty_nil, Bool.not_true, Option.isNone_none, Bool.not_false, List.foldl_nil,
          beq_self_eq_true, List.map_nil, List.nil_append]
        rw [hfold, ctxLeaves_map]
        simp [SB.mk', SB.append, SB.empty, SB.add, SB.loop, SB.finalize, branchJoin, andJoin,
          joinWith, hc, termSB, OMode.next, initDecl, outDecl, bucketInit, bucketDeclarations]
      | bkt n0 =>
        have hnext : ((Output.bucket outT (bucketLayers outT n0)).next none
            Kind.compute : Except GenErr (Output × SB F)) =
            .ok (.bucket outT (bucketLayers outT n0), SB.empty) := by simp [Output.next]
        simp only [OMode.out, OMode.next] at hIH hc ⊢
        unfold lower
        simp only [Kind.isCompute, Kind.isAssemble, Bool.not_true, Bool.false_and, Bool.false_eq_true, if_false]
        simp only [hso, Option.map_none, hnext, hsub, hnc, hctx.1, hctx.2.1, hsp, hlater, hIH,
          Bool.and_false, Bool.or_false, Bool.false_and, Bool.false_eq_true, if_false, if_true,
          List.foldlM_cons, List.foldlM_nil, bind, Except.bind, pure, Except.pure,
          List.isEmpty_nil, Bool.not_true, Option.isNone_none, Bool.not_false, List.foldl_nil,
          beq_self_eq_true, List.map_nil, List.nil_append]
        rw [hfold, ctxLeaves_map]
        simp [SB.mk', SB.append, SB.empty, SB.add, SB.loop, SB.finalize, branchJoin, andJoin,
          joinWith, hc, termSB, OMode.next, initDecl, outDecl]

/-- **T1.** What `lower` emits for the graph of the class: `termNest`. -/
theorem lowerC_eq (ofRat : Rat → F) (k : Nat) (lv : List Level) (outT : TensorId) (e : IdExpr)
    (ho : isOut lv outT = true) (he : isExpr (idxs lv) e = true) (hnd : (idxs lv).Nodup)
    (hz : ∀ p ∈ lv, p.2 = false → zeroish e = false) :
    lower ofRat (lv.length + 1 + k) (graph lv outT e) (.append outT 0) .compute =
      .ok (termNest ofRat lv outT e) :=
  lowerC_nest_eq ofRat outT e lv ho he hnd hz lv [] (.app 0) k rfl ⟨rfl, fun _ h => by cases h⟩


/-! ### the kernels -/

/-- the statements of the `assemble` kernel of the class, before `return 0`: NO loop -/
def kernelAStmts (formats : Formats) (srcs : List (String × String × Nat))
    (lv : List Level) (outT : TensorId) : List (Stmt F) :=
  [.block (DenseTerm.dimDecls srcs) (some "Extract dimensions"),
   .block (formats.map fun f => declAssignE (valsName f.1) (.ptr .float) (.attr (.var f.1) "vals"))
      (some "Unpack tensors"),
   .block [declAssignE (valsCapName outT.name) .int (DenseN.capExpr outT.indexes.length outT.name),
      .assign (.var (valsName outT.name)) (.alloc .float (.var (valsCapName outT.name)))]
      (some "Output initialization"),
   (asmSB lv).finalize,
   .block [.assign (.attr (.var outT.name) "vals") (.var (valsName outT.name))]
      (some ("Assembling output tensor " ++ outT.name))]

/-- the `assemble` kernel of the class -/
def kernelA (formats : Formats) (srcs : List (String × String × Nat))
    (lv : List Level) (outT : TensorId) : Func F :=
  ⟨"assemble", formats.map fun f => (f.1, .ptr .tensor), .int,
    .block (kernelAStmts formats srcs lv outT ++ [.ret (.intLit 0)]) none⟩

/-- the statements of the `compute` kernel of the class, before `return 0` -/
def kernelCStmts (ofRat : Rat → F) (formats : Formats) (srcs : List (String × String × Nat))
    (lv : List Level) (outT : TensorId) (e : IdExpr) : List (Stmt F) :=
  [.block (DenseTerm.dimDecls srcs) (some "Extract dimensions"),
   .block (formats.map fun f => declAssignE (valsName f.1) (.ptr .float) (.attr (.var f.1) "vals"))
      (some "Unpack tensors"),
   .block [] (some "Output initialization"),
   (termNest ofRat lv outT e).finalize,
   .block [] (some ("Assembling output tensor " ++ outT.name))]

/-- the `compute` kernel of the class -/
def kernelC (ofRat : Rat → F) (formats : Formats) (srcs : List (String × String × Nat))
    (lv : List Level) (outT : TensorId) (e : IdExpr) : Func F :=
  ⟨"compute", formats.map fun f => (f.1, .ptr .tensor), .int,
    .block (kernelCStmts ofRat formats srcs lv outT e ++ [.ret (.intLit 0)]) none⟩

/-- **What `generateIr … .assemble` produces on the class.** -/
theorem generateIr_eqA [FloatOps F] (ofRat : Rat → F) (cap : Option Int) (a : Alg.DAssign)
    (formats : Formats) (srcs : List (String × String × Nat)) (lv : List Level) (outT : TensorId)
    (e : IdExpr) (hout : tensorId 0 a.tname formats a.tidx = some outT) (hname : outT.name = a.tname)
    (ho : isOut lv outT = true)
    (hf : Dense2.denseFormats formats = true) (hd : indexDimensions a = srcs) :
    generateIr ofRat cap a formats (graph lv outT e) .assemble =
      .ok (kernelA formats srcs lv outT) := by
  obtain ⟨hoi, hom, hol⟩ := (isOut_iff lv outT).1 ho
  have hsz : 4 * (graph lv outT e).size + 8 = (4 * lv.length + 11) + 1 := by
    rw [graph, nest_size]; omega
  have hu := Dense2.unpackDecls_eq (F := F) formats hf
  unfold unpackDecls at hu
  obtain ⟨c, hc, hl⟩ := asmSB_comment (F := F) lv
  unfold generateIr
  simp only [hout, Option.getD_some, hsz, lowerA_eq ofRat _ lv outT e hom, hd,
    AsmCmpDense.appendDeclarationsA_eq cap outT hom, AsmCmpDense.appendCleanupA_eq outT hom, hu]
  simp [bind, Except.bind, pure, Except.pure, kernelA, kernelAStmts, SB.add, SB.append, SB.empty,
    SB.finalize, Kind.name, hname, hc, hl, DenseTerm.dimDecls, DenseN.capExpr]

/-- **What `generateIr … .compute` produces on the class.** -/
theorem generateIr_eqC [FloatOps F] (ofRat : Rat → F) (cap : Option Int) (a : Alg.DAssign)
    (formats : Formats) (srcs : List (String × String × Nat)) (lv : List Level) (outT : TensorId)
    (e : IdExpr) (hout : tensorId 0 a.tname formats a.tidx = some outT) (hname : outT.name = a.tname)
    (ho : isOut lv outT = true) (he : isExpr (idxs lv) e = true) (hnd : (idxs lv).Nodup)
    (hz : ∀ p ∈ lv, p.2 = false → zeroish e = false)
    (hf : Dense2.denseFormats formats = true) (hd : indexDimensions a = srcs) :
    generateIr ofRat cap a formats (graph lv outT e) .compute =
      .ok (kernelC ofRat formats srcs lv outT e) := by
  obtain ⟨hoi, hom, hol⟩ := (isOut_iff lv outT).1 ho
  have hsz : 4 * (graph lv outT e).size + 8 = lv.length + 1 + (3 * lv.length + 11) := by
    rw [graph, nest_size]; omega
  have hu := Dense2.unpackDecls_eq (F := F) formats hf
  unfold unpackDecls at hu
  obtain ⟨c, hc⟩ := termSB_comment ofRat outT e (.app 0) lv
  unfold generateIr
  simp only [hout, Option.getD_some, hsz, lowerC_eq ofRat _ lv outT e ho he hnd hz, hd,
    AsmCmpDense.appendDeclarationsC_eq cap outT hom, AsmCmpDense.appendCleanupC_eq outT, hu]
  simp [bind, Except.bind, pure, Except.pure, kernelC, kernelCStmts, SB.add, SB.append, SB.empty,
    SB.finalize, Kind.name, hname, hc, DenseTerm.dimDecls, termNest]

end TV.AsmCmpDenseTerm
