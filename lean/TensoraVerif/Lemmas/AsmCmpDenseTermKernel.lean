import TensoraVerif.Lemmas.AsmCmpDenseTermGenerate
import TensoraVerif.Lemmas.DenseTermKernel

/-!
C04 for all dense single-term contractions, part 2: the `assemble` and the `compute` kernel on the machine.

* `kernelA_runs`: from a kernel-call state (`DenseTerm.Init`) the assembling kernel returns `0` after ZERO loop
  iterations; the output record's `vals` points to a fresh, live, output-owned float block of exactly `C.N`
  uninitialised cells (`KernelPostA`);
* `InitC`: a kernel-call state in which the output record's `vals` points to a live output-owned float block
  `C.ob` of at least `C.N` cells, ARBITRARY contents; `kernelC_runs`: the computing kernel returns `0`, allocates
  nothing, changes no record, and leaves `cellF … J` in the cell of every output multi-index `J` — the "Bucket
  initialization" loop it emits re-zeroes every slab before accumulating, which is why the previous contents of
  the block do not matter (`KernelPostC`).
-/
namespace TV.AsmCmpDenseTerm
open TV.IR TV.Gen TV.Graph TV.Growth TV.DenseTerm
open TV.Dense1 (leaves valueF allFinite RunsI RunsLI TensorVar)
open TV.DenseN (prod lin Fits Below)
set_option linter.unusedSectionVars false
set_option linter.unusedSimpArgs false
set_option linter.unusedVariables false
variable {F : Type} [FloatOps F]

/-- final state of the assembling kernel: the output record `k` points to the fresh block `σ.heap.length`, a
live output-owned float block of exactly `n` UNINITIALISED cells; nothing else changed -/
structure KernelPostA (n : Nat) (k : Nat) (σ σ' : State F) : Prop where
  outRec : ∃ tr, σ.tensors[k]? = some tr ∧ σ'.tensors[k]? = some { tr with vals := .ptr σ.heap.length 0 }
  otherRecs : ∀ k', k' ≠ k → σ'.tensors[k']? = σ.tensors[k']?
  tlen : σ'.tensors.length = σ.tensors.length
  blk : σ'.heap[σ.heap.length]? = some ⟨.float, List.replicate n none, .output, true⟩
  heap : ∀ b, b < σ.heap.length → σ'.heap[b]? = σ.heap[b]?
  heapLen : σ'.heap.length = σ.heap.length + 1

theorem kernelA_runs (formats : Formats) (srcs : List (String × String × Nat))
    (C : Ctx F) (ok : KernelOK formats srcs C) {tix : String → Nat} {σ : State F}
    (hinit : Init formats srcs C tix σ) (fuel : Nat) :
    ∃ o, exec fuel (kernelA (F := F) formats srcs C.full C.outT).body σ = .ok o ∧
      o.ret = some (.int 0) ∧ o.iters = 0 ∧
      KernelPostA C.N (tix C.outT.name) σ o.st := by
  have S := ok.static
  obtain ⟨hparams, hfresh, hrecs, hdims, ⟨otr, dblk, hotr, hown, hdb, hdlive, hdty, hdc⟩, hins⟩ := hinit
  have hgen : ∀ x, '_' ∈ x.toList → x ∉ formats.map (·.1) := by
    intro x hx hm
    obtain ⟨f, hf, rfl⟩ := List.mem_map.1 hm
    exact ok.tensors f hf hx
  have hNne : ∀ f ∈ formats, ∀ x, '_' ∈ x.toList → f.1 ≠ x :=
    fun f hf x hx => ne_of_underscore (ok.tensors f hf) hx
  obtain ⟨fo, hfo, hfoe⟩ := List.mem_map.1 ok.out
  have hfoe : fo.1 = C.outT.name := hfoe
  have houtus : '_' ∉ C.outT.name.toList := by rw [← hfoe]; exact ok.tensors fo hfo
  have hTout : TensorVar σ C.outT.name (tix C.outT.name) := by rw [← hfoe]; exact hparams fo hfo
  have hfitO : Fits 1 (C.outT.indexes.map C.dimOf) := S.fits C.outT (by simp [Ctx.ts])
  have hN : C.N = prod (C.outT.indexes.map C.dimOf) := by unfold Ctx.N; rw [outDims_full S]
  have hP31 : C.N < 2147483648 := by rw [hN]; simpa using fits_prod_lt hfitO
  -- A: the dimension variables
  obtain ⟨σA, rA, hhA, htA, hoA, hdimA⟩ := dimDecls_runs fuel tix C.dimOf srcs σ
    (by
      intro p hp
      obtain ⟨h1, h2, h3⟩ := ok.srcIdx p hp
      obtain ⟨f, hf, hfe⟩ := List.mem_map.1 h2
      have hfe : f.1 = p.2.1 := hfe
      obtain ⟨tr, blk, e1, e2, e3, e4, e5⟩ := hdims p hp
      exact ⟨hfe ▸ hparams f hf, tr, blk, e1, e2, e3, e4, e5, h3, S.d31 _ h1⟩)
    ok.srcNodup (fun p _ => hfresh _ (hgen _ (Dense1.mem_us_dimName _)))
    (by
      intro p hp q _
      obtain ⟨_, h2, _⟩ := ok.srcIdx p hp
      obtain ⟨f, hf, hfe⟩ := List.mem_map.1 h2
      have hfe : f.1 = p.2.1 := hfe
      rw [← hfe]
      exact hNne f hf _ (Dense1.mem_us_dimName _))
  have hA_of : ∀ y, (∀ i, y ≠ dimName i) → lookupVar σA.vars y = lookupVar σ.vars y :=
    fun y hy => hoA y (fun p _ => hy _)
  -- B: unpack
  obtain ⟨σB, rB, hhB, htB, hoB, hpB⟩ := Dense1.unpack_runs fuel tix formats σA
    (fun f hf => ⟨(hparams f hf).congr (hA_of _ (fun i => hNne f hf _ (Dense1.mem_us_dimName i))),
      by rw [htA]; exact hrecs f hf⟩)
    (fun f hf r hr => by
      rw [hA_of _ (fun i => (Dense1.dimName_ne_valsName i f.1).symm),
        hfresh _ (hgen _ (Dense1.mem_us_valsName f.1))] at hr; cases hr)
    (fun f hf g _ => hNne f hf _ (Dense1.mem_us_valsName g.1))
  have hB_of : ∀ y, (∀ s, y ≠ valsName s) → lookupVar σB.vars y = lookupVar σA.vars y := by
    intro y hy
    apply hoB
    intro hm
    obtain ⟨f, _, hf⟩ := List.mem_map.1 hm
    exact hy f.1 hf.symm
  -- C1: int out_vals_capacity = 1 * out->dimensions[0] * …
  have hToutB : TensorVar σB C.outT.name (tix C.outT.name) := by
    refine hTout.congr ?_
    rw [hB_of _ (fun s => by rw [← hfoe]; exact hNne fo hfo _ (Dense1.mem_us_valsName s)),
      hA_of _ (fun i => by rw [← hfoe]; exact hNne fo hfo _ (Dense1.mem_us_dimName i))]
  have hlenD : (C.outT.indexes.map C.dimOf).length = C.outT.indexes.length := by simp
  have hdk : ∀ k, k < C.outT.indexes.length → (C.outT.indexes.map C.dimOf).getD k 0 < 2147483648 := by
    intro k hk
    have : (C.outT.indexes.map C.dimOf).getD k 0 = C.dimOf (C.outT.indexes[k]) := by
      simp [List.getD_eq_getElem?_getD, hk]
    rw [this]
    exact S.d31 _ ((S.sub (by simp [Ctx.ts])).subset (List.getElem_mem hk))
  have eC : evalE σB (DenseN.capExpr C.outT.indexes.length C.outT.name : Expr F) =
      .ok (.int (C.N : Int)) := by
    rw [hN, ← hlenD]
    exact DenseN.evalE_capExpr (C.outT.indexes.map C.dimOf) hToutB (by rw [htB, htA]; exact hotr)
      (by rw [hhB, hhA]; exact hdb) hdlive hdty (by rw [hlenD]; exact hdc) (by rw [hlenD]; exact hdk)
      (by rw [hlenD]; exact ok.order31) hfitO
  obtain ⟨σC1, rC1, hhC1, htC1, hcapC1, hoC1⟩ := Dense1.runsI_declAssign (fuel := fuel)
    (x := valsCapName C.outT.name) (t := .int) (val' := .int (C.N : Int))
    (by
      rw [hB_of _ (fun s => (Dense1.valsName_ne_valsCapName' s C.outT.name).symm),
        hA_of _ (fun i => (Dense1.dimName_ne_valsCapName i C.outT.name).symm),
        hfresh _ (hgen _ (Dense1.mem_us_valsCapName _))]
      intro r h; cases h) eC rfl
  have hcapC1 : IntVar σC1 (valsCapName C.outT.name) (C.N : Int) := hcapC1
  -- C2: out_vals = malloc(out_vals_capacity)
  obtain ⟨ro, tro, hro1, hro2, _, _⟩ := hpB fo hfo
  rw [hfoe] at hro1
  obtain ⟨σC, rC2, htC, hhC, houtC, hoC⟩ := Dense1.runsI_alloc (fuel := fuel) (ty := .float) (ety := .float)
    (ha := (hoC1 _ (Dense1.valsName_ne_valsCapName' C.outT.name C.outT.name)).trans hro1) hro2 hcapC1
    (by omega) (by omega) rfl
  have hlenC1 : σC1.heap.length = σ.heap.length := by rw [hhC1, hhB, hhA]
  rw [hlenC1] at houtC
  have hheapC : σC.heap = σ.heap ++ [⟨.float, List.replicate C.N none, .output, true⟩] := by
    rw [hhC, hhC1, hhB, hhA]
    simp
  have hC_of : ∀ y, (∀ i, y ≠ dimName i) → (∀ s, y ≠ valsName s) → y ≠ valsCapName C.outT.name →
      lookupVar σC.vars y = lookupVar σ.vars y := by
    intro y h1 h2 h3
    rw [hoC y (h2 _), hoC1 y h3, hB_of y h2, hA_of y h1]
  -- E: out->vals = out_vals
  have hToutC : TensorVar σC C.outT.name (tix C.outT.name) := by
    refine hTout.congr ?_
    rw [hC_of _ (fun i => by rw [← hfoe]; exact hNne fo hfo _ (Dense1.mem_us_dimName i))
        (fun s => by rw [← hfoe]; exact hNne fo hfo _ (Dense1.mem_us_valsName s))
        (by rw [← hfoe]; exact hNne fo hfo _ (Dense1.mem_us_valsCapName _))]
  have htC' : σC.tensors = σ.tensors := by rw [htC, htC1, htB, htA]
  have rE := Dense1.runsI_storeVals (fuel := fuel) hToutC houtC (by rw [htC']; exact hotr) hown
  obtain ⟨c, hc, hl⟩ := asmSB_comment (F := F) C.full
  have rD : RunsI fuel (asmSB (F := F) C.full).finalize σC σC 0 := by
    rw [SB.finalize, hl]
    exact Dense1.RunsI.block (Dense1.RunsLI.nil _ _)
  have rAll := Dense1.RunsLI.cons (Dense1.RunsI.block (c := some "Extract dimensions") rA)
    (Dense1.RunsLI.cons (Dense1.RunsI.block (c := some "Unpack tensors") rB)
      (Dense1.RunsLI.cons (Dense1.RunsI.block (c := some "Output initialization")
          (Dense1.RunsLI.cons rC1 (Dense1.RunsLI.cons rC2 (Dense1.RunsLI.nil _ _))))
        (Dense1.RunsLI.cons rD
          (Dense1.RunsLI.cons (Dense1.RunsI.block (c := some ("Assembling output tensor " ++ C.outT.name))
              (Dense1.RunsLI.cons rE (Dense1.RunsLI.nil _ _))) (Dense1.RunsLI.nil _ _)))))
  obtain ⟨o, eo, hret, hst, hit⟩ := Dense1.execL_ret (e := .intLit 0) (v := .int 0) rAll
    (evalE_intLit (by omega) (by omega))
  refine ⟨o, ?_, hret, by rw [hit], ?_⟩
  · show exec fuel (.block (kernelAStmts formats srcs C.full C.outT ++ [.ret (.intLit 0)]) none) σ = _
    rw [exec.eq_5]
    exact eo
  · rw [hst]
    have hklt : tix C.outT.name < σ.tensors.length := lt_length_of_getElem? hotr
    refine ⟨⟨otr, hotr, ?_⟩, ?_, ?_, ?_, ?_, ?_⟩
    · show (σC.tensors.set _ _)[_]? = _
      rw [htC', List.getElem?_set_self hklt]
    · intro k' hk'
      show (σC.tensors.set _ _)[_]? = _
      rw [htC', List.getElem?_set_ne (Ne.symm hk')]
    · show (σC.tensors.set _ _).length = _
      rw [List.length_set, htC']
    · show σC.heap[_]? = _
      rw [hheapC]; simp
    · intro b hb
      show σC.heap[b]? = _
      rw [hheapC, List.getElem?_append_left hb]
    · show σC.heap.length = _
      rw [hheapC]; simp

/-! ### the computing kernel -/

/-- **Initial machine state of a `compute` call**: as `DenseTerm.Init`, except that the output record's `vals`
is the base address of block `C.ob`, a live, output-owned float block of AT LEAST `C.N` cells with ARBITRARY
contents, different from the inputs' blocks. -/
structure InitC (formats : Formats) (srcs : List (String × String × Nat)) (C : Ctx F)
    (tix : String → Nat) (σ : State F) : Prop where
  params : ∀ f ∈ formats, TensorVar σ f.1 (tix f.1)
  fresh : ∀ x, x ∉ formats.map (·.1) → lookupVar σ.vars x = none
  recs : ∀ f ∈ formats, ∃ tr, σ.tensors[tix f.1]? = some tr ∧ isPtrVal tr.vals = true
  dims : ∀ p ∈ srcs, ∃ tr blk, σ.tensors[tix p.2.1]? = some tr ∧
    σ.heap[tr.dimsBlk]? = some blk ∧ blk.live = true ∧ blk.ty = .int ∧
    blk.cells[p.2.2]? = some (some (.int (C.dimOf p.1)))
  out : ∃ tr, σ.tensors[tix C.outT.name]? = some tr ∧ tr.vals = .ptr C.ob 0
  outBlk : ∃ blk, σ.heap[C.ob]? = some blk ∧ blk.live = true ∧ blk.owner = .output ∧
    blk.ty = .float ∧ C.N ≤ blk.cells.length
  ins : ∀ t ∈ leaves C.e, C.blkOf t.name ≠ C.ob ∧ ∃ tr blk, σ.tensors[tix t.name]? = some tr ∧
    tr.vals = .ptr (C.blkOf t.name) 0 ∧
    σ.heap[C.blkOf t.name]? = some blk ∧ blk.live = true ∧ blk.ty = .float ∧
    ∀ c, c < prod (t.indexes.map C.dimOf) → blk.cells[c]? = some (some (.flt (C.cellsOf t.name c)))

/-- final state of the computing kernel: no record changed, no allocation, only block `C.ob` changed, and only
in its first `C.N` cells: the cell of every output multi-index `J` holds `cellF … J` -/
structure KernelPostC (ofRat : Rat → F) (C : Ctx F) (σ σ' : State F) : Prop where
  tensors : σ'.tensors = σ.tensors
  heapLen : σ'.heap.length = σ.heap.length
  other : ∀ b, b ≠ C.ob → σ'.heap[b]? = σ.heap[b]?
  vals : ∃ blk0 blk, σ.heap[C.ob]? = some blk0 ∧ σ'.heap[C.ob]? = some blk ∧ blk.ty = blk0.ty ∧
    blk.owner = blk0.owner ∧ blk.live = blk0.live ∧ blk.cells.length = blk0.cells.length ∧
    (∀ J, Below J (outDims C.dimOf C.full) →
      blk.cells[lin 0 (outDims C.dimOf C.full) J]? =
        some (some (.flt (cellF ofRat C.dimOf C.cellsOf C.e C.full J)))) ∧
    (∀ c, C.N ≤ c → blk.cells[c]? = blk0.cells[c]?)

theorem kernelC_runs (ofRat : Rat → F) (formats : Formats) (srcs : List (String × String × Nat))
    (C : Ctx F) (ok : KernelOK formats srcs C) {tix : String → Nat} {σ : State F}
    (hok : ∀ J, Below J (outDims C.dimOf C.full) → cellOK ofRat C.dimOf C.cellsOf C.e C.full J)
    (hinit : InitC formats srcs C tix σ) (fuel : Nat) (hfuel : fuelNeed C.dimOf false C.full ≤ fuel) :
    ∃ o, exec fuel (kernelC ofRat formats srcs C.full C.outT C.e).body σ = .ok o ∧
      o.ret = some (.int 0) ∧ o.iters = iters C.dimOf false C.full ∧
      KernelPostC ofRat C σ o.st := by
  have S := ok.static
  obtain ⟨hparams, hfresh, hrecs, hdims, ⟨otr, hotr, hovals⟩, houtBlk, hins⟩ := hinit
  have hgen : ∀ x, '_' ∈ x.toList → x ∉ formats.map (·.1) := by
    intro x hx hm
    obtain ⟨f, hf, rfl⟩ := List.mem_map.1 hm
    exact ok.tensors f hf hx
  have hNne : ∀ f ∈ formats, ∀ x, '_' ∈ x.toList → f.1 ≠ x :=
    fun f hf x hx => ne_of_underscore (ok.tensors f hf) hx
  obtain ⟨fo, hfo, hfoe⟩ := List.mem_map.1 ok.out
  have hfoe : fo.1 = C.outT.name := hfoe
  have houtus : '_' ∉ C.outT.name.toList := by rw [← hfoe]; exact ok.tensors fo hfo
  have hTout : TensorVar σ C.outT.name (tix C.outT.name) := by rw [← hfoe]; exact hparams fo hfo
  have hfitO : Fits 1 (C.outT.indexes.map C.dimOf) := S.fits C.outT (by simp [Ctx.ts])
  have hN : C.N = prod (C.outT.indexes.map C.dimOf) := by unfold Ctx.N; rw [outDims_full S]
  have hP31 : C.N < 2147483648 := by rw [hN]; simpa using fits_prod_lt hfitO
  -- A: the dimension variables
  obtain ⟨σA, rA, hhA, htA, hoA, hdimA⟩ := dimDecls_runs fuel tix C.dimOf srcs σ
    (by
      intro p hp
      obtain ⟨h1, h2, h3⟩ := ok.srcIdx p hp
      obtain ⟨f, hf, hfe⟩ := List.mem_map.1 h2
      have hfe : f.1 = p.2.1 := hfe
      obtain ⟨tr, blk, e1, e2, e3, e4, e5⟩ := hdims p hp
      exact ⟨hfe ▸ hparams f hf, tr, blk, e1, e2, e3, e4, e5, h3, S.d31 _ h1⟩)
    ok.srcNodup (fun p _ => hfresh _ (hgen _ (Dense1.mem_us_dimName _)))
    (by
      intro p hp q _
      obtain ⟨_, h2, _⟩ := ok.srcIdx p hp
      obtain ⟨f, hf, hfe⟩ := List.mem_map.1 h2
      have hfe : f.1 = p.2.1 := hfe
      rw [← hfe]
      exact hNne f hf _ (Dense1.mem_us_dimName _))
  have hA_of : ∀ y, (∀ i, y ≠ dimName i) → lookupVar σA.vars y = lookupVar σ.vars y :=
    fun y hy => hoA y (fun p _ => hy _)
  -- B: unpack
  obtain ⟨σB, rB, hhB, htB, hoB, hpB⟩ := Dense1.unpack_runs fuel tix formats σA
    (fun f hf => ⟨(hparams f hf).congr (hA_of _ (fun i => hNne f hf _ (Dense1.mem_us_dimName i))),
      by rw [htA]; exact hrecs f hf⟩)
    (fun f hf r hr => by
      rw [hA_of _ (fun i => (Dense1.dimName_ne_valsName i f.1).symm),
        hfresh _ (hgen _ (Dense1.mem_us_valsName f.1))] at hr; cases hr)
    (fun f hf g _ => hNne f hf _ (Dense1.mem_us_valsName g.1))
  have hB_of : ∀ y, (∀ s, y ≠ valsName s) → lookupVar σB.vars y = lookupVar σA.vars y := by
    intro y hy
    apply hoB
    intro hm
    obtain ⟨f, _, hf⟩ := List.mem_map.1 hm
    exact hy f.1 hf.symm
  have hB_all : ∀ y, (∀ i, y ≠ dimName i) → (∀ s, y ≠ valsName s) →
      lookupVar σB.vars y = lookupVar σ.vars y := by
    intro y h1 h2
    rw [hB_of y h2, hA_of y h1]
  have hheapB : σB.heap = σ.heap := by rw [hhB, hhA]
  -- the environment of the nest
  have hfull0 : C.full = [] ++ C.full := rfl
  have henv : Env C σB := by
    refine ⟨?_, ?_, ?_, ?_, ?_⟩
    · intro x hx
      obtain ⟨p, hp, rfl⟩ := List.mem_map.1 (ok.srcAll x hx)
      refine (hdimA p hp).congr ?_
      rw [hB_of _ (fun s => Dense1.dimName_ne_valsName _ s)]
    · obtain ⟨r, tr', hr1, hr2, hr3, hr4⟩ := hpB fo hfo
      rw [hfoe] at hr1 hr3
      rw [htA, hotr] at hr3; cases hr3
      exact ⟨r, .float, hr1, hr2, by rw [hr4, hovals]⟩
    · obtain ⟨blk, hb, h1, h2, h3, h4⟩ := houtBlk
      exact ⟨blk, by rw [hheapB]; exact hb, h1, h2, h3, h4⟩
    · intro t ht
      obtain ⟨hne, tr, blk, htr, hv, hb, rest⟩ := hins t ht
      obtain ⟨f, hf, hfe⟩ := List.mem_map.1 (ok.ins t ht).1
      have hfe : f.1 = t.name := hfe
      obtain ⟨r, tr', hr1, hr2, hr3, hr4⟩ := hpB f hf
      rw [hfe] at hr1 hr3
      rw [htA, htr] at hr3; cases hr3
      exact ⟨⟨r, .float, hr1, hr2, by rw [hr4, hv]⟩, hne, blk, by rw [hheapB]; exact hb, rest⟩
    · intro y hy r hr
      exfalso
      have hnd : ∀ i, y ≠ dimName i := by
        intro i e
        by_cases hi : i ∈ idxs C.full
        · exact notWr_dim S hfull0 hi (e ▸ hy)
        · rw [e, hB_of _ (fun s => Dense1.dimName_ne_valsName _ s),
            hoA _ (fun p hp e' => hi (by rw [DenseN.dimName_inj e']; exact (ok.srcIdx p hp).1)),
            hfresh _ (hgen _ (Dense1.mem_us_dimName _))] at hr
          cases hr
      have hnv : ∀ s, y ≠ valsName s := by
        intro s e
        by_cases hs : '_' ∈ s.toList
        · have hsn : s ∉ formats.map (·.1) := hgen s hs
          rw [e, hoB _ (fun hm => by
              obtain ⟨f, hf, hfe⟩ := List.mem_map.1 hm
              have : f.1 = s := Dense1.valsName_inj hfe
              exact hsn (List.mem_map.2 ⟨f, hf, this⟩)),
            hA_of _ (fun i => (Dense1.dimName_ne_valsName i s).symm),
            hfresh _ (hgen _ (Dense1.mem_us_valsName _))] at hr
          cases hr
        · exact notWr_read S hfull0 (readName_vals hs) (e ▸ hy)
      have hyN : y ∉ formats.map (·.1) := by
        rcases hy with h | ⟨t, _, k, a, _, _, rfl⟩ | ⟨_, rfl | rfl⟩
        · exact ok.idxTensor y h
        · exact hgen _ (Dense2.mem_us_lp t.id k)
        · exact hgen _ (mem_us_bucketName _ _)
        · exact hgen _ (mem_us_bucketLoopName _ _)
      rw [hB_all y hnd hnv, hfresh y hyN] at hr
      cases hr
  -- D: the loop nest
  obtain ⟨σD, rD, hfrD, hcD⟩ := nest_top ofRat S henv hok fuel hfuel
  have rAll := Dense1.RunsLI.cons (Dense1.RunsI.block (c := some "Extract dimensions") rA)
    (Dense1.RunsLI.cons (Dense1.RunsI.block (c := some "Unpack tensors") rB)
      (Dense1.RunsLI.cons (Dense1.RunsI.block (c := some "Output initialization") (Dense1.RunsLI.nil fuel σB))
        (Dense1.RunsLI.cons rD
          (Dense1.RunsLI.cons (Dense1.RunsI.block (c := some ("Assembling output tensor " ++ C.outT.name))
              (Dense1.RunsLI.nil fuel σD)) (Dense1.RunsLI.nil _ _)))))
  obtain ⟨o, eo, hret, hst, hit⟩ := Dense1.execL_ret (e := .intLit 0) (v := .int 0) rAll
    (evalE_intLit (by omega) (by omega))
  refine ⟨o, ?_, hret, by rw [hit]; omega, ?_⟩
  · show exec fuel (.block (kernelCStmts ofRat formats srcs C.full C.outT C.e ++ [.ret (.intLit 0)]) none) σ = _
    rw [exec.eq_5]
    exact eo
  · rw [hst]
    obtain ⟨blk, blk', hb, hb', hlive, hown', hty, hlen, hc2⟩ := hfrD.outBlk
    refine ⟨by rw [hfrD.tensors, htB, htA], by rw [hfrD.heapLen, hheapB], ?_, ?_⟩
    · intro b hb
      rw [hfrD.heap b hb, hheapB]
    · refine ⟨blk, blk', by rw [← hheapB]; exact hb, hb', hty, hown', hlive, hlen, ?_,
        fun c hc => hc2 c (Or.inr hc)⟩
      intro J hJ
      obtain ⟨blk2, h1, h2⟩ := hcD J hJ
      have : blk2 = blk' := by
        have := h1.symm.trans hb'
        cases this; rfl
      rw [← this]; exact h2

/-! ### composing calls -/

/-- **After `assemble`, `compute` may be called.** -/
theorem initC_after_assemble {formats : Formats} {srcs : List (String × String × Nat)} {C : Ctx F}
    {tix : String → Nat} {σ σ' : State F}
    (init : Init formats srcs C tix σ) (hob : C.ob = σ.heap.length)
    (hrec : ∀ t ∈ leaves C.e, tix t.name ≠ tix C.outT.name)
    (post : KernelPostA C.N (tix C.outT.name) σ σ') :
    InitC formats srcs C tix ⟨σ.vars, σ'.heap, σ'.tensors⟩ := by
  obtain ⟨hparams, hfresh, hrecs, hdims, ⟨otr, dblk, hotr, hown, hdb, hdlive, hdty, hdc⟩, hins⟩ := init
  obtain ⟨⟨otr', hotr', hrec'⟩, hother, _, hblk, hheap, hlen⟩ := post
  rw [hotr] at hotr'; cases hotr'
  refine ⟨hparams, hfresh, ?_, ?_, ?_, ?_, ?_⟩
  · intro f hf
    obtain ⟨tr, htr, hp⟩ := hrecs f hf
    by_cases hk : tix f.1 = tix C.outT.name
    · exact ⟨_, by show σ'.tensors[_]? = _; rw [hk]; exact hrec', rfl⟩
    · exact ⟨tr, by show σ'.tensors[_]? = _; rw [hother _ hk]; exact htr, hp⟩
  · intro p hp
    obtain ⟨tr, blk, htr, hb, rest⟩ := hdims p hp
    have hlt : tr.dimsBlk < σ.heap.length := lt_length_of_getElem? hb
    by_cases hk : tix p.2.1 = tix C.outT.name
    · rw [hk, hotr] at htr; cases htr
      exact ⟨_, blk, by show σ'.tensors[_]? = _; rw [hk]; exact hrec',
        by show σ'.heap[_]? = _; rw [hheap _ hlt]; exact hb, rest⟩
    · exact ⟨tr, blk, by show σ'.tensors[_]? = _; rw [hother _ hk]; exact htr,
        by show σ'.heap[_]? = _; rw [hheap _ hlt]; exact hb, rest⟩
  · exact ⟨_, hrec', by rw [hob]⟩
  · rw [hob]; exact ⟨_, hblk, rfl, rfl, rfl, by simp⟩
  · intro t ht
    obtain ⟨tr, blk, htr, hv, hb, rest⟩ := hins t ht
    have hlt : C.blkOf t.name < σ.heap.length := lt_length_of_getElem? hb
    exact ⟨by omega, tr, blk, by show σ'.tensors[_]? = _; rw [hother _ (hrec t ht)]; exact htr, hv,
      by show σ'.heap[_]? = _; rw [hheap _ hlt]; exact hb, rest⟩

/-- `InitC` survives a change of the input VALUES and of the CONTENTS of the output block. -/
theorem InitC.transport {formats : Formats} {srcs : List (String × String × Nat)} {C : Ctx F}
    {cellsOf' : String → Nat → F} {tix : String → Nat} {σ σ2 : State F}
    (init : InitC formats srcs C tix σ)
    (hv : σ2.vars = σ.vars) (ht : σ2.tensors = σ.tensors)
    (hheap : ∀ k, k ≠ C.ob → (∀ t ∈ leaves C.e, k ≠ C.blkOf t.name) → σ2.heap[k]? = σ.heap[k]?)
    (hob : ∃ blk, σ2.heap[C.ob]? = some blk ∧ blk.live = true ∧ blk.owner = .output ∧ blk.ty = .float ∧
      C.N ≤ blk.cells.length)
    (hvals : ∀ t ∈ leaves C.e, ∃ blk, σ2.heap[C.blkOf t.name]? = some blk ∧ blk.live = true ∧
      blk.ty = .float ∧
      ∀ c, c < prod (t.indexes.map C.dimOf) → blk.cells[c]? = some (some (.flt (cellsOf' t.name c)))) :
    InitC formats srcs { C with cellsOf := cellsOf' } tix σ2 := by
  obtain ⟨hparams, hfresh, hrecs, hdims, ⟨otr, hotr, hovals⟩, houtBlk, hins⟩ := init
  refine ⟨?_, ?_, ?_, ?_, ⟨otr, by rw [ht]; exact hotr, hovals⟩, hob, ?_⟩
  · intro f hf
    obtain ⟨r, h1, h2, h3⟩ := hparams f hf
    exact ⟨r, by rw [hv]; exact h1, h2, h3⟩
  · intro x hx; rw [hv]; exact hfresh x hx
  · intro f hf; rw [ht]; exact hrecs f hf
  · intro p hp
    obtain ⟨tr, blk, htr, hb, hlive, hty, hc⟩ := hdims p hp
    refine ⟨tr, blk, by rw [ht]; exact htr, ?_, hlive, hty, hc⟩
    rw [hheap tr.dimsBlk]
    · exact hb
    · intro h
      obtain ⟨blk', hb', _, _, hty', _⟩ := houtBlk
      rw [h, hb'] at hb; cases hb
      rw [hty'] at hty; cases hty
    · intro t htl h
      obtain ⟨_, _, blk', _, _, hb', _, hty', _⟩ := hins t htl
      rw [h, hb'] at hb; cases hb
      rw [hty'] at hty; cases hty
  · intro t htl
    obtain ⟨hne, tr, blk, htr, hv', hb, _⟩ := hins t htl
    obtain ⟨blk2, hb2, h1, h2, h3⟩ := hvals t htl
    exact ⟨hne, tr, blk2, by rw [ht]; exact htr, hv', hb2, h1, h2, h3⟩

end TV.AsmCmpDenseTerm
