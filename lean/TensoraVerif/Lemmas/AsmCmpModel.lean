import TensoraVerif.Lemmas.Sparse1Generate

/-!
C04 for the sparse vector copy/scale kernels (`Sparse1` class), part 1: what `lower` / `generateIr` emit for
the kinds `.assemble` and `.compute`, written out.

* assemble: as `evaluate`, except that the terminal block is only `written = true;` (no store into `vals`);
* compute: no allocation check, no `crd`/`pos` assembly, no output initialisation other than `int p_a = 0;`,
  an EMPTY "Assembling output tensor" block.
-/
namespace TV.AsmCmp
open TV.IR TV.Gen TV.Graph TV.Merge TV.Sparse1
set_option linter.unusedSectionVars false
variable {F : Type} [FloatOps F]

/-! ### assemble -/

/-- the terminal block of the assembling kernel: `written = true;` -/
def termBlockA (outT : TensorId) : Stmt F :=
  .block [.assign (.var (writtenName outT.name 0)) (.boolLit true)] (some "*** Computation of expression ***")

/-- the statements of the branch taken at every stored coordinate (assemble) -/
def branchBodyA (outT : TensorId) : List (Stmt F) :=
  [(writePosAllocation (outLeaf outT)).finalize,
   declAssignE (writtenName outT.name 0) .bool (.boolLit false),
   termBlockA outT,
   .branch (.var (writtenName outT.name 0))
     (.block [(writeCrdAssembly (outLeaf outT)).finalize,
        increment (.var (layerPointer outT.id 0)) (.intLit 1)] none)
     (.block [] none)]

/-- `if (i_b == i) { vals allocation; bool written = false; { written = true; } if (written) { crd assembly;
p_a++ } }` -/
def midStmtA (i : String) (outT bT : TensorId) : Stmt F :=
  .branch (.bin .and (.boolLit true) (.bin .eq (.var (valueFromCrd bT.id 0)) (.var i)))
    (.block (branchBodyA outT) none) (.block [] none)

/-- the lines of the "Iteration over i" block of the assembling kernel -/
def loopLinesA (i : String) (outT bT : TensorId) : List (Stmt F) :=
  (writeSparseInit (inLeaf bT)).lines ++
  [mergeLoopL [inLeaf bT] i [midStmtA i outT bT],
   (writePosAssembly (outLeaf outT)).finalize]

/-! ### compute -/

/-- the statements of the branch taken at every stored coordinate (compute) -/
def branchBodyC (ofRat : Rat → F) (outT : TensorId) (e : IdExpr) : List (Stmt F) :=
  [declAssignE (writtenName outT.name 0) .bool (.boolLit false),
   termBlock ofRat outT e,
   .branch (.var (writtenName outT.name 0))
     (.block [increment (.var (layerPointer outT.id 0)) (.intLit 1)] none)
     (.block [] none)]

/-- `if (i_b == i) { bool written = false; { written = true; a_vals[p_a] = <e>; } if (written) { p_a++ } }` -/
def midStmtC (ofRat : Rat → F) (i : String) (outT bT : TensorId) (e : IdExpr) : Stmt F :=
  .branch (.bin .and (.boolLit true) (.bin .eq (.var (valueFromCrd bT.id 0)) (.var i)))
    (.block (branchBodyC ofRat outT e) none) (.block [] none)

/-- the lines of the "Iteration over i" block of the computing kernel -/
def loopLinesC (ofRat : Rat → F) (i : String) (outT bT : TensorId) (e : IdExpr) : List (Stmt F) :=
  (writeSparseInit (inLeaf bT)).lines ++ [mergeLoopL [inLeaf bT] i [midStmtC ofRat i outT bT e]]

/-! ### `lower` -/

theorem lower_terminal_eqA (ofRat : Rat → F) (n : Nat) (outT : TensorId) (e : IdExpr)
    (hm : outT.modes = [.compressed]) (hne : e ≠ .int 0) :
    lower ofRat (n + 1) (.terminal e) (.append outT 1) .assemble =
      .ok ⟨some "*** Computation of expression ***",
        [.assign (.var (writtenName outT.name 0)) (.boolLit true)]⟩ := by
  rw [ToIr.lower_terminal_eq_assemble ofRat .assemble rfl n e (.append outT 1), ToIr.activeFlags_ne _ hne]
  have hfl : (Output.append outT 1).writtenFlags = [writtenName outT.name 0] := by
    simp [Output.writtenFlags, Output.tensor, hm, List.range, List.range.loop]
  simp [hfl, ToIr.flagStmt]

theorem lower_terminal_eqC (ofRat : Rat → F) (n : Nat) (outT : TensorId) (e : IdExpr)
    (hm : outT.modes = [.compressed]) (hi : outT.indexes.length = 1) (hne : e ≠ .int 0) :
    lower ofRat (n + 1) (.terminal e) (.append outT 1) .compute =
      .ok ⟨some "*** Computation of expression ***", (termBlockLines ofRat outT e)⟩ := by
  have hw := ToIr.writeAssignment_append_eq (F := F) outT (toIrWith ofRat e)
  rw [hi] at hw
  rw [ToIr.lower_terminal_eq ofRat .compute rfl n e (.append outT 1) _ hw, ToIr.activeFlags_ne _ hne]
  have hfl : (Output.append outT 1).writtenFlags = [writtenName outT.name 0] := by
    simp [Output.writtenFlags, Output.tensor, hm, List.range, List.range.loop]
  simp [hfl, termBlockLines, ToIr.flagStmt, prevLayerPointer]

/-- **What `lower` emits on the class for the assembling kernel.** -/
theorem lower_eqA (ofRat : Rat → F) (n : Nat) (i : String) (outT bT : TensorId) (e : IdExpr)
    (ho : isSp i outT = true) (he : isExpr i bT e = true) :
    lower ofRat (n + 2) (graph i outT e) (.append outT 0) .assemble =
      .ok ⟨some ("*** Iteration over " ++ i ++ " ***"), loopLinesA i outT bT⟩ := by
  have ho' := (isSp_iff i outT).1 ho
  have hctx := ctx_eq i bT e he
  have hsub := generateSubgraphs_eq i outT bT e he
  have hcd1 := compressedDims_graph i outT bT e he
  have hcd2 := compressedDims_exhausted i outT bT e he
  have hne : e ≠ .int 0 := by
    intro h; have := ((isExpr_iff i bT e).1 he).1; rw [h] at this; simp [ToIr.leaves] at this
  unfold graph at hsub hcd1 hcd2 ⊢
  unfold lower
  have hsl : (Output.append outT 0).hasSparseLayer = true := by
    simp [Output.hasSparseLayer, Output.tensor, ho'.2]
  simp only [Kind.isCompute, hsl, Bool.not_true, Bool.not_false, Bool.and_false, Bool.false_eq_true, if_false]
  have hso : isSparseOutput (IGraph.iter i (some { tensor := outT, layer := 0 }) (IGraph.terminal e)) = true := by
    simp [isSparseOutput, Leaf.mode, ho'.2]
  have hnext : ((Output.append outT 0).next (some 0) Kind.assemble : Except GenErr (Output × SB F)) =
      .ok (.append outT 1, SB.empty) := by simp [Output.next]
  have hnc : nodeContext (IGraph.iter i (some { tensor := outT, layer := 0 }) (IGraph.terminal e)) =
      extractContext e i := by
    simp [nodeContext, IGraph.context]
  have hlater : (IGraph.iter i (some { tensor := outT, layer := 0 }) (IGraph.terminal e)).laterIndexes = [i] := by
    simp [IGraph.laterIndexes]
  have hterm := lower_terminal_eqA ofRat n outT e ho'.2 hne
  have hmode : ({ tensor := outT, layer := 0 } : Leaf).mode = Mode.compressed := by simp [Leaf.mode, ho'.2]
  simp only [hso, hmode, Option.map_some, hnext, hsub, hnc, hctx.1, hctx.2.1, hctx.2.2, hlater, hterm, hcd1, hcd2,
    Bool.or_true, Bool.true_and, Bool.and_self, if_true,
    List.foldlM_cons, List.foldlM_nil, bind, Except.bind, pure, Except.pure,
    List.isEmpty_nil, List.isEmpty_cons, Bool.not_true, Bool.not_false, Option.isNone_some, Bool.false_eq_true,
    if_false, List.foldl_nil, List.foldl_cons,
    List.map_nil, List.map_cons, List.nil_append, Kind.isAssemble]
  rw [append_commented _ _ _ (writePosAllocation_comment _),
    append_commented _ (writeCrdAssembly _) "crd assembly" rfl,
    append_commented _ (writePosAssembly _) "pos assembly" rfl,
    append_plain _ (writeSparseInit _) rfl]
  simp [SB.mk', SB.append, SB.empty, SB.add, SB.loop, SB.branch, SB.finalize, branchJoin, andJoin, joinWith,
    minJoin, loopLinesA, midStmtA, branchBodyA, termBlockA, mergeLoopL, mergeBodyL, mergeCond,
    mergeLoads, mergeMin, mergeIncs, inLeaf, outLeaf, Leaf.ptr, writePosAllocation_comment]
  exact ⟨rfl, rfl⟩

/-- **What `lower` emits on the class for the computing kernel.** -/
theorem lower_eqC (ofRat : Rat → F) (n : Nat) (i : String) (outT bT : TensorId) (e : IdExpr)
    (ho : isSp i outT = true) (he : isExpr i bT e = true) :
    lower ofRat (n + 2) (graph i outT e) (.append outT 0) .compute =
      .ok ⟨some ("*** Iteration over " ++ i ++ " ***"), loopLinesC ofRat i outT bT e⟩ := by
  have ho' := (isSp_iff i outT).1 ho
  have hctx := ctx_eq i bT e he
  have hsub := generateSubgraphs_eq i outT bT e he
  have hcd1 := compressedDims_graph i outT bT e he
  have hcd2 := compressedDims_exhausted i outT bT e he
  have hne : e ≠ .int 0 := by
    intro h; have := ((isExpr_iff i bT e).1 he).1; rw [h] at this; simp [ToIr.leaves] at this
  unfold graph at hsub hcd1 hcd2 ⊢
  unfold lower
  simp only [Kind.isCompute, Bool.not_true, Bool.false_and, Bool.false_eq_true, if_false]
  have hso : isSparseOutput (IGraph.iter i (some { tensor := outT, layer := 0 }) (IGraph.terminal e)) = true := by
    simp [isSparseOutput, Leaf.mode, ho'.2]
  have hnext : ((Output.append outT 0).next (some 0) Kind.compute : Except GenErr (Output × SB F)) =
      .ok (.append outT 1, SB.empty) := by simp [Output.next]
  have hnc : nodeContext (IGraph.iter i (some { tensor := outT, layer := 0 }) (IGraph.terminal e)) =
      extractContext e i := by
    simp [nodeContext, IGraph.context]
  have hlater : (IGraph.iter i (some { tensor := outT, layer := 0 }) (IGraph.terminal e)).laterIndexes = [i] := by
    simp [IGraph.laterIndexes]
  have hterm := lower_terminal_eqC ofRat n outT e ho'.2 (by rw [ho'.1]; rfl) hne
  have hmode : ({ tensor := outT, layer := 0 } : Leaf).mode = Mode.compressed := by simp [Leaf.mode, ho'.2]
  simp only [hso, hmode, Option.map_some, hnext, hsub, hnc, hctx.1, hctx.2.1, hctx.2.2, hlater, hterm, hcd1, hcd2,
    Bool.or_true, Bool.true_and, Bool.and_self, if_true,
    List.foldlM_cons, List.foldlM_nil, bind, Except.bind, pure, Except.pure,
    List.isEmpty_nil, List.isEmpty_cons, Bool.not_true, Bool.not_false, Option.isNone_some, Bool.false_eq_true,
    if_false, List.foldl_nil, List.foldl_cons, Bool.false_and,
    List.map_nil, List.map_cons, List.nil_append, Kind.isAssemble]
  rw [append_plain _ (writeSparseInit _) rfl]
  simp [SB.mk', SB.append, SB.empty, SB.add, SB.loop, SB.branch, SB.finalize, branchJoin, andJoin, joinWith,
    minJoin, loopLinesC, midStmtC, branchBodyC, termBlock, mergeLoopL, mergeBodyL, mergeCond,
    mergeLoads, mergeMin, mergeIncs, inLeaf, Leaf.ptr]

/-! ### `generateIr` -/

theorem appendDeclarations_eqA (cap : Option Int) (outT : TensorId) (hm : outT.modes = [.compressed]) :
    (appendDeclarations cap outT .assemble : SB F) = ⟨some "Output initialization", outInit cap outT⟩ := by
  simp [appendDeclarations, hm, List.range, List.range.loop, Kind.isAssemble, SB.mk', SB.add,
    mulJoin, joinWith, outInit]

/-- the "Output initialization" block of the computing kernel: `int p_a = 0;` -/
def outInitC (outT : TensorId) : List (Stmt F) := [declAssignE (layerPointer outT.id 0) .int (.intLit 0)]

theorem appendDeclarations_eqC (cap : Option Int) (outT : TensorId) (hm : outT.modes = [.compressed]) :
    (appendDeclarations cap outT .compute : SB F) = ⟨some "Output initialization", outInitC outT⟩ := by
  simp [appendDeclarations, hm, List.range, List.range.loop, Kind.isAssemble, SB.mk', SB.add, outInitC]

theorem appendCleanup_eqA (outT : TensorId) (hm : outT.modes = [.compressed]) :
    (appendCleanup outT .assemble : SB F) =
      ⟨some ("Assembling output tensor " ++ outT.name), cleanupLines outT⟩ := by
  simp [appendCleanup, hm, List.range, List.range.loop, Kind.isAssemble, SB.mk', SB.add, cleanupLines]

theorem appendCleanup_eqC (outT : TensorId) :
    (appendCleanup outT .compute : SB F) = ⟨some ("Assembling output tensor " ++ outT.name), []⟩ := by
  simp [appendCleanup, Kind.isAssemble, SB.mk']

/-- the statements of the `assemble` kernel of the class, before `return 0` -/
def kernelStmtsA (cap : Option Int) (formats : Formats) (i : String) (outT bT : TensorId) : List (Stmt F) :=
  [.block [declAssignE (dimName i) .int (.idx (.attr (.var outT.name) "dimensions") (.intLit 0))]
      (some "Extract dimensions"),
   .block (formats.flatMap fun f => unpackStmts f.1) (some "Unpack tensors"),
   .block (outInit cap outT) (some "Output initialization"),
   .block (loopLinesA i outT bT) (some ("*** Iteration over " ++ i ++ " ***")),
   .block (cleanupLines outT) (some ("Assembling output tensor " ++ outT.name))]

/-- the `assemble` kernel of the class -/
def kernelA (cap : Option Int) (formats : Formats) (i : String) (outT bT : TensorId) : Func F :=
  ⟨"assemble", formats.map fun f => (f.1, .ptr .tensor), .int,
    .block (kernelStmtsA cap formats i outT bT ++ [.ret (.intLit 0)]) none⟩

/-- the statements of the `compute` kernel of the class, before `return 0` -/
def kernelStmtsC (ofRat : Rat → F) (formats : Formats) (i : String) (outT bT : TensorId)
    (e : IdExpr) : List (Stmt F) :=
  [.block [declAssignE (dimName i) .int (.idx (.attr (.var outT.name) "dimensions") (.intLit 0))]
      (some "Extract dimensions"),
   .block (formats.flatMap fun f => unpackStmts f.1) (some "Unpack tensors"),
   .block (outInitC outT) (some "Output initialization"),
   .block (loopLinesC ofRat i outT bT e) (some ("*** Iteration over " ++ i ++ " ***")),
   .block [] (some ("Assembling output tensor " ++ outT.name))]

/-- the `compute` kernel of the class -/
def kernelC (ofRat : Rat → F) (formats : Formats) (i : String) (outT bT : TensorId) (e : IdExpr) : Func F :=
  ⟨"compute", formats.map fun f => (f.1, .ptr .tensor), .int,
    .block (kernelStmtsC ofRat formats i outT bT e ++ [.ret (.intLit 0)]) none⟩

/-- **What `generateIr` produces on the class for `.assemble`.** -/
theorem generateIr_eqA (ofRat : Rat → F) (cap : Option Int) (a : Alg.DAssign) (formats : Formats)
    (i : String) (outT bT : TensorId) (e : IdExpr)
    (hout : tensorId 0 a.tname formats a.tidx = some outT) (hname : outT.name = a.tname)
    (ho : isSp i outT = true) (he : isExpr i bT e = true) (hf : sparseFormats formats = true)
    (hd : indexDimensions a = [(i, a.tname, 0)]) :
    generateIr ofRat cap a formats (graph i outT e) .assemble =
      .ok (kernelA cap formats i outT bT) := by
  have ho' := (isSp_iff i outT).1 ho
  have hsz : 4 * (graph i outT e).size + 8 = 14 + 2 := by simp [graph, IGraph.size]
  have hu := unpackDecls_eq (F := F) formats hf
  unfold unpackDecls at hu
  unfold generateIr
  simp only [hout, Option.getD_some, hsz, lower_eqA ofRat 14 i outT bT e ho he, hd,
    appendDeclarations_eqA cap outT ho'.2, appendCleanup_eqA outT ho'.2, hu]
  simp [bind, Except.bind, pure, Except.pure, kernelA, kernelStmtsA, SB.add, SB.append, SB.empty,
    SB.finalize, Kind.name, hname]

/-- **What `generateIr` produces on the class for `.compute`.** -/
theorem generateIr_eqC (ofRat : Rat → F) (cap : Option Int) (a : Alg.DAssign) (formats : Formats)
    (i : String) (outT bT : TensorId) (e : IdExpr)
    (hout : tensorId 0 a.tname formats a.tidx = some outT) (hname : outT.name = a.tname)
    (ho : isSp i outT = true) (he : isExpr i bT e = true) (hf : sparseFormats formats = true)
    (hd : indexDimensions a = [(i, a.tname, 0)]) :
    generateIr ofRat cap a formats (graph i outT e) .compute =
      .ok (kernelC ofRat formats i outT bT e) := by
  have ho' := (isSp_iff i outT).1 ho
  have hsz : 4 * (graph i outT e).size + 8 = 14 + 2 := by simp [graph, IGraph.size]
  have hu := unpackDecls_eq (F := F) formats hf
  unfold unpackDecls at hu
  unfold generateIr
  simp only [hout, Option.getD_some, hsz, lower_eqC ofRat 14 i outT bT e ho he, hd,
    appendDeclarations_eqC cap outT ho'.2, appendCleanup_eqC outT, hu]
  simp [bind, Except.bind, pure, Except.pure, kernelC, kernelStmtsC, SB.add, SB.append, SB.empty,
    SB.finalize, Kind.name, hname]

end TV.AsmCmp
