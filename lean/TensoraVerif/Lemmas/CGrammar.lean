import TensoraVerif.Lemmas.CParse

/-! the recursive-descent parser is sound for the left-recursive textbook grammar `CDerives` -/
namespace TV.IR

variable {F : Type} {rn : String → Expr F}

theorem opTok_of_binOpOf {t : CTok} {op : BinOp} (h : binOpOf t = some op) : t = opTok op := by
  cases t <;> simp [binOpOf] at h <;> subst h <;> rfl

/-- what a successful call in mode `m` means in terms of the grammar: the consumed prefix derives the
result (for the two loops: extends the derivation of the tree built so far) -/
def PSound (rn : String → Expr F) (m : PMode F) (ts : List CTok) (res : Expr F × List CTok) : Prop :=
  match m with
  | .lvl n => n ≤ 6 → ∃ pre, ts = pre ++ res.2 ∧ CDerives rn n pre res.1
  | .rest n lhs => n ≤ 5 → ∀ pre0, CDerives rn n pre0 lhs →
      ∃ pre, ts = pre ++ res.2 ∧ CDerives rn n (pre0 ++ pre) res.1
  | .prim => ∃ pre, ts = pre ++ res.2 ∧ CDerives rn 8 pre res.1
  | .post lhs => ∀ pre0, CDerives rn 7 pre0 lhs →
      ∃ pre, ts = pre ++ res.2 ∧ CDerives rn 7 (pre0 ++ pre) res.1

theorem cStep_sound {r : PMode F → List CTok → Option (Expr F × List CTok)}
    (h : ∀ m ts res, r m ts = some res → PSound rn m ts res) (m : PMode F) (ts : List CTok)
    (res : Expr F × List CTok) (hs : cStep rn r m ts = some res) : PSound rn m ts res := by
  rw [cStep.eq_def] at hs
  cases m with
  | lvl n =>
    simp only at hs
    intro hn6
    split at hs
    · rename_i hn
      split at hs
      · rename_i l ts' h1
        obtain ⟨pre1, e1, d1⟩ := h _ _ _ h1 (by omega)
        obtain ⟨pre, e2, d2⟩ := h _ _ _ hs (by omega) pre1 (CDerives.up (by omega) d1)
        exact ⟨pre1 ++ pre, by rw [e1, e2, List.append_assoc], d2⟩
      · simp at hs
    · rename_i hn
      have hn : n = 6 := by omega
      subst hn
      split at hs
      · split at hs
        · rename_i e r' h1
          obtain ⟨pre1, e1, d1⟩ := h _ _ _ h1 (by omega)
          cases hs
          exact ⟨.cast :: pre1, by simp [e1], CDerives.cast d1⟩
        · simp at hs
      · split at hs
        · rename_i e r1 h1
          obtain ⟨pre1, e1, d1⟩ := h _ _ _ h1
          obtain ⟨pre, e2, d2⟩ := h _ _ _ hs pre1 (CDerives.up (by omega) d1)
          exact ⟨pre1 ++ pre, by rw [e1, e2, List.append_assoc], CDerives.up (by omega) d2⟩
        · simp at hs
  | rest n lhs =>
    simp only at hs
    intro hn5 pre0 d0
    split at hs
    · cases hs
      exact ⟨[], rfl, by simpa using d0⟩
    · rename_i t ts'
      split at hs
      · rename_i op hop
        split at hs
        · rename_i hl
          split at hs
          · rename_i rr ts'' h1
            obtain ⟨pre1, e1, d1⟩ := h _ _ _ h1 (by omega)
            have hb : CDerives rn n (pre0 ++ opTok op :: pre1) (.bin op lhs rr) :=
              CDerives.binop hl hn5 d0 d1
            obtain ⟨pre, e2, d2⟩ := h _ _ _ hs hn5 _ hb
            refine ⟨t :: pre1 ++ pre, by simp [e1, e2], ?_⟩
            rw [opTok_of_binOpOf hop]
            simpa using d2
          · simp at hs
        · cases hs
          exact ⟨[], rfl, by simpa using d0⟩
      · cases hs
        exact ⟨[], rfl, by simpa using d0⟩
  | prim =>
    simp only at hs
    split at hs
    · cases hs; exact ⟨[_], rfl, CDerives.ident⟩
    · cases hs; exact ⟨[_], rfl, CDerives.num⟩
    · cases hs; exact ⟨[_], rfl, CDerives.ktrue⟩
    · cases hs; exact ⟨[_], rfl, CDerives.kfalse⟩
    · split at hs
      · rename_i e r' h1
        obtain ⟨pre1, e1, d1⟩ := h _ _ _ h1 (by omega)
        cases hs
        exact ⟨.lpar :: pre1 ++ [.rpar], by simp [e1], CDerives.paren d1⟩
      · simp at hs
    · split at hs
      · rename_i a r' h1
        obtain ⟨pre1, e1, d1⟩ := h _ _ _ h1 (by omega)
        split at hs
        · rename_i b r'' h2
          obtain ⟨pre2, e2, d2⟩ := h _ _ _ h2 (by omega)
          cases hs
          exact ⟨.tmax :: .lpar :: pre1 ++ .comma :: pre2 ++ [.rpar], by simp [e1, e2],
            CDerives.tmax d1 d2⟩
        · simp at hs
      · simp at hs
    · split at hs
      · rename_i a r' h1
        obtain ⟨pre1, e1, d1⟩ := h _ _ _ h1 (by omega)
        split at hs
        · rename_i b r'' h2
          obtain ⟨pre2, e2, d2⟩ := h _ _ _ h2 (by omega)
          cases hs
          exact ⟨.tmin :: .lpar :: pre1 ++ .comma :: pre2 ++ [.rpar], by simp [e1, e2],
            CDerives.tmin d1 d2⟩
        · simp at hs
      · simp at hs
    · simp at hs
  | post lhs =>
    simp only at hs
    intro pre0 d0
    split at hs
    · rename_i a r'
      obtain ⟨pre, e2, d2⟩ := h _ _ _ hs _ (CDerives.arrow (a := a) d0)
      exact ⟨.arrow :: .id a :: pre, by simp [e2], by simpa using d2⟩
    · split at hs
      · rename_i i r' h1
        obtain ⟨pre1, e1, d1⟩ := h _ _ _ h1 (by omega)
        obtain ⟨pre, e2, d2⟩ := h _ _ _ hs _ (CDerives.index d0 d1)
        exact ⟨.lbrack :: pre1 ++ .rbrack :: pre, by simp [e1, e2], by simpa using d2⟩
      · simp at hs
    · cases hs
      exact ⟨[], rfl, by simpa using d0⟩

theorem cP_sound : ∀ (f : Nat) (m : PMode F) (ts : List CTok) (res : Expr F × List CTok),
    cP rn f m ts = some res → PSound rn m ts res := by
  intro f
  induction f with
  | zero => intro m ts res h; simp [cP] at h
  | succ f ih => intro m ts res h; exact cStep_sound ih m ts res h

/-- a complete parse is a derivation of the start symbol in the textbook grammar -/
theorem cParse_sound {fuel : Nat} {ts : List CTok} {e : Expr F}
    (h : cParse rn fuel ts = some (e, [])) : CDerives rn 0 ts e := by
  obtain ⟨pre, e1, d⟩ := cP_sound fuel (.lvl 0) ts (e, []) h (by omega)
  simp at e1
  subst e1
  exact d

end TV.IR
