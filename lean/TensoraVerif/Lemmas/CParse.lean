import TensoraVerif.Model.CTokens

/-! the C parser on the printer's tokens: fuel monotonicity, big-step rules -/
namespace TV.IR

variable {F : Type} {rn : String → Expr F}

theorem cStep_mono {r r' : PMode F → List CTok → Option (Expr F × List CTok)}
    (h : ∀ m ts res, r m ts = some res → r' m ts = some res) (m : PMode F) (ts : List CTok)
    (res : Expr F × List CTok) (hs : cStep rn r m ts = some res) : cStep rn r' m ts = some res := by
  rw [cStep.eq_def] at hs ⊢
  cases m with
  | lvl n =>
    simp only at hs ⊢
    split
    · rename_i hn
      simp only [hn, if_true] at hs
      split at hs
      · rename_i l ts' h1
        rw [h _ _ _ h1]; exact h _ _ _ hs
      · simp at hs
    · rename_i hn
      simp only [hn, if_false] at hs
      split at hs
      · split at hs
        · rename_i e r h1
          rw [h _ _ _ h1]; exact hs
        · simp at hs
      · split at hs
        · rename_i e r h1
          rw [h _ _ _ h1]; exact h _ _ _ hs
        · simp at hs
  | rest n lhs =>
    simp only at hs ⊢
    split at hs
    · exact hs
    · rename_i t ts'
      try simp only
      split at hs
      · rename_i op hop
        try simp only [hop]
        split at hs
        · rename_i hl
          simp only [hl, if_true]
          split at hs
          · rename_i e r h1
            rw [h _ _ _ h1]; exact h _ _ _ hs
          · simp at hs
        · rename_i hl
          simp only [hl, if_false]
          exact hs
      · rename_i hop
        try simp only [hop]
        exact hs
  | prim =>
    simp only at hs ⊢
    split at hs
    · exact hs
    · exact hs
    · exact hs
    · exact hs
    · try simp only
      split at hs
      · rename_i e r' h1
        rw [h _ _ _ h1]; exact hs
      · simp at hs
    · try simp only
      split at hs
      · rename_i a r' h1
        rw [h _ _ _ h1]
        split at hs
        · rename_i b r'' h2
          try simp only
          rw [h _ _ _ h2]; exact hs
        · simp at hs
      · simp at hs
    · try simp only
      split at hs
      · rename_i a r' h1
        rw [h _ _ _ h1]
        split at hs
        · rename_i b r'' h2
          try simp only
          rw [h _ _ _ h2]; exact hs
        · simp at hs
      · simp at hs
    · simp at hs
  | post lhs =>
    simp only at hs ⊢
    split at hs
    · exact h _ _ _ hs
    · try simp only
      split at hs
      · rename_i i r' h1
        rw [h _ _ _ h1]; exact h _ _ _ hs
      · simp at hs
    · exact hs

theorem cP_mono_succ : ∀ (f : Nat) (m : PMode F) (ts : List CTok) (res : Expr F × List CTok),
    cP rn f m ts = some res → cP rn (f + 1) m ts = some res := by
  intro f
  induction f with
  | zero => intro m ts res h; simp [cP] at h
  | succ f ih =>
    intro m ts res h
    exact cStep_mono (rn := rn) (r := cP rn f) (r' := cP rn (f + 1)) ih m ts res h

theorem cP_mono {f f' : Nat} {m : PMode F} {ts : List CTok} {res : Expr F × List CTok}
    (h : cP rn f m ts = some res) (hle : f ≤ f') : cP rn f' m ts = some res := by
  induction hle with
  | refl => exact h
  | step _ ih => exact cP_mono_succ _ _ _ _ ih

/-- big-step reading of the parser: some amount of fuel suffices -/
def Parses (rn : String → Expr F) (m : PMode F) (ts : List CTok) (res : Expr F × List CTok) : Prop :=
  ∃ f, cP rn f m ts = some res

theorem cP_succ (f : Nat) (m : PMode F) (ts : List CTok) :
    cP rn (f + 1) m ts = cStep rn (cP rn f) m ts := rfl

namespace Parses

theorem lvl {n : Nat} {ts ts' : List CTok} {l : Expr F} {res} (hn : n < 6)
    (h1 : Parses rn (.lvl (n + 1)) ts (l, ts')) (h2 : Parses rn (.rest n l) ts' res) :
    Parses rn (.lvl n) ts res := by
  obtain ⟨f1, h1⟩ := h1
  obtain ⟨f2, h2⟩ := h2
  refine ⟨max f1 f2 + 1, ?_⟩
  have h1' := cP_mono h1 (Nat.le_max_left f1 f2)
  have h2' := cP_mono h2 (Nat.le_max_right f1 f2)
  rw [cP_succ, cStep.eq_def]
  simp [hn, h1', h2']

theorem cast {ts r : List CTok} {e : Expr F} (h1 : Parses rn (.lvl 6) ts (e, r)) :
    Parses rn (.lvl 6) (.cast :: ts) (.b2i e, r) := by
  obtain ⟨f1, h1⟩ := h1
  refine ⟨f1 + 1, ?_⟩
  rw [cP_succ, cStep.eq_def]
  simp [h1]

theorem unary {ts r : List CTok} {e : Expr F} {res} (hc : ∀ ts', ts ≠ .cast :: ts')
    (h1 : Parses rn .prim ts (e, r)) (h2 : Parses rn (.post e) r res) :
    Parses rn (.lvl 6) ts res := by
  obtain ⟨f1, h1⟩ := h1
  obtain ⟨f2, h2⟩ := h2
  refine ⟨max f1 f2 + 1, ?_⟩
  have h1' := cP_mono h1 (Nat.le_max_left f1 f2)
  have h2' := cP_mono h2 (Nat.le_max_right f1 f2)
  rw [cP_succ, cStep.eq_def]
  cases ts with
  | nil => simp [h1', h2']
  | cons t ts' =>
    cases t <;> first | exact absurd rfl (hc ts') | simp [h1', h2']

theorem restNil {n : Nat} {lhs : Expr F} : Parses rn (.rest n lhs) [] (lhs, []) :=
  ⟨1, by rw [cP_succ, cStep.eq_def]⟩

theorem restStop {n : Nat} {lhs : Expr F} {t : CTok} {ts : List CTok}
    (h : ∀ op, binOpOf t = some op → opLvl op ≠ n) : Parses rn (.rest n lhs) (t :: ts) (lhs, t :: ts) := by
  refine ⟨1, ?_⟩
  rw [cP_succ, cStep.eq_def]
  simp only
  split
  · rename_i op hop
    simp [h op hop]
  · rfl

theorem restStep {n : Nat} {lhs r : Expr F} {t : CTok} {op : BinOp} {ts ts' : List CTok} {res}
    (hop : binOpOf t = some op) (hl : opLvl op = n) (h1 : Parses rn (.lvl (n + 1)) ts (r, ts'))
    (h2 : Parses rn (.rest n (.bin op lhs r)) ts' res) : Parses rn (.rest n lhs) (t :: ts) res := by
  obtain ⟨f1, h1⟩ := h1
  obtain ⟨f2, h2⟩ := h2
  refine ⟨max f1 f2 + 1, ?_⟩
  have h1' := cP_mono h1 (Nat.le_max_left f1 f2)
  have h2' := cP_mono h2 (Nat.le_max_right f1 f2)
  rw [cP_succ, cStep.eq_def]
  simp [hop, hl, h1', h2']

theorem id {s : String} {r : List CTok} : Parses rn .prim (.id s :: r) (.var s, r) :=
  ⟨1, by rw [cP_succ, cStep.eq_def]⟩

theorem num {s : String} {r : List CTok} : Parses rn .prim (.num s :: r) (rn s, r) :=
  ⟨1, by rw [cP_succ, cStep.eq_def]⟩

theorem ktrue {r : List CTok} : Parses rn .prim (.ktrue :: r) (.boolLit true, r) :=
  ⟨1, by rw [cP_succ, cStep.eq_def]⟩

theorem kfalse {r : List CTok} : Parses rn .prim (.kfalse :: r) (.boolLit false, r) :=
  ⟨1, by rw [cP_succ, cStep.eq_def]⟩

theorem paren {r r' : List CTok} {e : Expr F} (h1 : Parses rn (.lvl 0) r (e, .rpar :: r')) :
    Parses rn .prim (.lpar :: r) (e, r') := by
  obtain ⟨f1, h1⟩ := h1
  refine ⟨f1 + 1, ?_⟩
  rw [cP_succ, cStep.eq_def]
  simp [h1]

theorem tmax {r r' r'' : List CTok} {a b : Expr F} (h1 : Parses rn (.lvl 0) r (a, .comma :: r'))
    (h2 : Parses rn (.lvl 0) r' (b, .rpar :: r'')) :
    Parses rn .prim (.tmax :: .lpar :: r) (.bin .max a b, r'') := by
  obtain ⟨f1, h1⟩ := h1
  obtain ⟨f2, h2⟩ := h2
  refine ⟨max f1 f2 + 1, ?_⟩
  have h1' := cP_mono h1 (Nat.le_max_left f1 f2)
  have h2' := cP_mono h2 (Nat.le_max_right f1 f2)
  rw [cP_succ, cStep.eq_def]
  simp [h1', h2']

theorem tmin {r r' r'' : List CTok} {a b : Expr F} (h1 : Parses rn (.lvl 0) r (a, .comma :: r'))
    (h2 : Parses rn (.lvl 0) r' (b, .rpar :: r'')) :
    Parses rn .prim (.tmin :: .lpar :: r) (.bin .min a b, r'') := by
  obtain ⟨f1, h1⟩ := h1
  obtain ⟨f2, h2⟩ := h2
  refine ⟨max f1 f2 + 1, ?_⟩
  have h1' := cP_mono h1 (Nat.le_max_left f1 f2)
  have h2' := cP_mono h2 (Nat.le_max_right f1 f2)
  rw [cP_succ, cStep.eq_def]
  simp [h1', h2']

theorem arrow {lhs : Expr F} {a : String} {r : List CTok} {res}
    (h : Parses rn (.post (.attr lhs a)) r res) : Parses rn (.post lhs) (.arrow :: .id a :: r) res := by
  obtain ⟨f1, h1⟩ := h
  refine ⟨f1 + 1, ?_⟩
  rw [cP_succ, cStep.eq_def]
  simp [h1]

theorem brack {lhs i : Expr F} {r r' : List CTok} {res} (h1 : Parses rn (.lvl 0) r (i, .rbrack :: r'))
    (h2 : Parses rn (.post (.idx lhs i)) r' res) : Parses rn (.post lhs) (.lbrack :: r) res := by
  obtain ⟨f1, h1⟩ := h1
  obtain ⟨f2, h2⟩ := h2
  refine ⟨max f1 f2 + 1, ?_⟩
  have h1' := cP_mono h1 (Nat.le_max_left f1 f2)
  have h2' := cP_mono h2 (Nat.le_max_right f1 f2)
  rw [cP_succ, cStep.eq_def]
  simp [h1', h2']

theorem postStop {lhs : Expr F} {ts : List CTok} (h1 : ∀ a r, ts ≠ .arrow :: .id a :: r)
    (h2 : ∀ r, ts ≠ .lbrack :: r) : Parses rn (.post lhs) ts (lhs, ts) := by
  refine ⟨1, ?_⟩
  rw [cP_succ, cStep.eq_def]
  simp only

end Parses

end TV.IR
