import TensoraVerif.Lemmas.CParse

/-! parsing the printer's tokens of a `Layered` tree yields `leftAssoc` of the tree -/
namespace TV.IR

variable {F : Type}

/-! ### algebra of `graft` / `leftAssoc` -/

theorem graft_lvl (op : BinOp) (x r : Expr F) : (graft op x r).lvl = opLvl op := by
  induction r generalizing x with
  | bin o a b iha ihb =>
    simp only [graft]
    split
    · rename_i h; simp [Expr.lvl, h]
    · simp [Expr.lvl]
  | _ => simp [graft, Expr.lvl]

theorem mkBin_lvl (op : BinOp) (x r : Expr F) : (mkBin op x r).lvl = opLvl op := by
  cases op <;> simp [mkBin, graft_lvl] <;> simp [Expr.lvl]

theorem leftAssoc_lvl (e : Expr F) : (leftAssoc e).lvl = e.lvl := by
  cases e <;> simp only [leftAssoc, mkBin_lvl] <;> simp [Expr.lvl]

theorem graft_of_lvl_ne (op : BinOp) (x r : Expr F) (h : r.lvl ≠ opLvl op) :
    graft op x r = .bin op x r := by
  cases r <;> simp [graft]
  rename_i o a b
  intro h'; exact absurd h' h

theorem graft_assoc (op op0 : BinOp) (x y z : Expr F) (h : opLvl op = opLvl op0) :
    graft op (graft op0 x y) z = graft op0 x (graft op y z) := by
  induction z generalizing x y with
  | bin o a b iha ihb =>
    by_cases ho : opLvl o = opLvl op
    · have ho0 : opLvl o = opLvl op0 := ho.trans h
      simp only [graft, if_pos ho, if_pos ho0, iha]
    · simp only [graft, if_neg ho, if_pos h]
  | _ => simp only [graft, if_pos h]

theorem mkBin_graft (op op0 : BinOp) (x y z : Expr F) (h : opLvl op = opLvl op0) (h5 : opLvl op ≤ 5) :
    mkBin op (graft op0 x y) z = graft op0 x (mkBin op y z) := by
  cases op <;> simp [mkBin, graft_assoc, h] <;> first | simp [graft, h] | simp [opLvl] at h5

/-! ### tokens that cannot extend an expression -/

/-- the head of `ts` is neither a postfix operator nor an infix operator of level `≥ n` -/
def Stop (n : Nat) : List CTok → Prop
  | [] => True
  | t :: _ => t ≠ .arrow ∧ t ≠ .lbrack ∧ ∀ op, binOpOf t = some op → opLvl op < n

theorem Stop.mono {n k : Nat} {ts : List CTok} (h : Stop n ts) (hk : n ≤ k) : Stop k ts := by
  cases ts with
  | nil => trivial
  | cons t ts => exact ⟨h.1, h.2.1, fun op ho => Nat.lt_of_lt_of_le (h.2.2 op ho) hk⟩

theorem Stop.rpar (n : Nat) (ts : List CTok) : Stop n (.rpar :: ts) := by simp [Stop, binOpOf]
theorem Stop.comma (n : Nat) (ts : List CTok) : Stop n (.comma :: ts) := by simp [Stop, binOpOf]
theorem Stop.rbrack (n : Nat) (ts : List CTok) : Stop n (.rbrack :: ts) := by simp [Stop, binOpOf]

theorem binOpOf_opTok (op : BinOp) (h : opLvl op ≤ 5) : binOpOf (opTok op) = some op := by
  cases op <;> simp [opLvl] at h <;> rfl

theorem Stop.op {n : Nat} (op : BinOp) (ts : List CTok) (h5 : opLvl op ≤ 5) (h : opLvl op < n) :
    Stop n (opTok op :: ts) := by
  refine ⟨?_, ?_, ?_⟩
  · cases op <;> simp [opTok]
  · cases op <;> simp [opTok]
  · intro o ho
    rw [binOpOf_opTok op h5] at ho
    cases ho; exact h

variable {rn : String → Expr F}

theorem Parses.restStop' {n : Nat} {x : Expr F} {ts : List CTok} (h : Stop n ts) :
    Parses rn (.rest n x) ts (x, ts) := by
  cases ts with
  | nil => exact Parses.restNil
  | cons t ts => exact Parses.restStop (fun op ho => Nat.ne_of_lt (h.2.2 op ho))

theorem Parses.postStop' {n : Nat} {x : Expr F} {ts : List CTok} (h : Stop n ts) :
    Parses rn (.post x) ts (x, ts) := by
  cases ts with
  | nil => exact Parses.postStop (by simp) (by simp)
  | cons t ts =>
    refine Parses.postStop ?_ ?_
    · intro a r he; cases he; exact h.1 rfl
    · intro r he; cases he; exact h.2.1 rfl

/-- a cast-level parse that stops at `rest` is also a level-`n` parse -/
theorem Parses.climb {ts rest : List CTok} {x : Expr F} :
    ∀ (d k n : Nat), k = n + d → k ≤ 6 → Parses rn (.lvl k) ts (x, rest) → Stop n rest →
      Parses rn (.lvl n) ts (x, rest) := by
  intro d
  induction d with
  | zero => intro k n hk _ h _; subst hk; exact h
  | succ d ih =>
    intro k n hk h6 h hs
    have h1 : Parses rn (.lvl (n + 1)) ts (x, rest) :=
      ih k (n + 1) (by omega) h6 h (hs.mono (Nat.le_succ n))
    exact Parses.lvl (by omega) h1 (Parses.restStop' hs)

/-! ### the invariant of the structural induction -/

variable (rn) (showF : F → String)

/-- what is known about the printed tokens of `e`, followed by arbitrary tokens `rest` -/
structure Good (e : Expr F) : Prop where
  /-- a level-`n` parse (`n` at most the level of `e`) reads exactly `e` when `rest` cannot extend it -/
  direct : ∀ n, n ≤ e.lvl → n ≤ 6 → ∀ rest, Stop n rest →
    Parses rn (.lvl n) (cToks showF e ++ rest) (leftAssoc e, rest)
  /-- a level-`n` parse reads `e` and continues with the level-`n` operator loop -/
  chain : ∀ n, n ≤ e.lvl → n ≤ 5 → ∀ rest res, Stop (n + 1) rest →
    Parses rn (.rest n (leftAssoc e)) rest res → Parses rn (.lvl n) (cToks showF e ++ rest) res
  /-- a postfix-level `e` is read and the postfix loop continues -/
  postf : 7 ≤ e.lvl → ∀ rest res, Parses rn (.post (leftAssoc e)) rest res →
    Parses rn (.lvl 6) (cToks showF e ++ rest) res
  /-- `e` as the right operand of `op` (parenthesised iff `p`), entered from the operator loop with
  tree `lhs`: the loop continues with `lhs` grafted onto `e`'s same-level left spine -/
  operand : ∀ (op : BinOp) (p : Bool) (lhs : Expr F) rest res, opLvl op ≤ 5 →
    (p = true ∨ (opLvl op ≤ e.lvl ∧ (opLvl op = e.lvl → op ≠ .sub))) → Stop (opLvl op + 1) rest →
    Parses rn (.rest (opLvl op) (if p then .bin op lhs (leftAssoc e) else graft op lhs (leftAssoc e)))
      rest res →
    Parses rn (.rest (opLvl op) lhs) (opTok op :: wrapP p (cToks showF e) ++ rest) res

variable {rn} {showF}

/-- `( e )` read as a level-`n` expression -/
theorem paren_direct {e : Expr F}
    (hd : ∀ rest, Stop 0 rest → Parses rn (.lvl 0) (cToks showF e ++ rest) (leftAssoc e, rest))
    (n : Nat) (hn : n ≤ 6) (rest : List CTok) (hs : Stop n rest) :
    Parses rn (.lvl n) (.lpar :: cToks showF e ++ .rpar :: rest) (leftAssoc e, rest) := by
  have h0 := hd (.rpar :: rest) (Stop.rpar 0 rest)
  have h6 : Parses rn (.lvl 6) (.lpar :: cToks showF e ++ .rpar :: rest) (leftAssoc e, rest) :=
    Parses.unary (by intro ts' h; cases h) (Parses.paren h0) (Parses.postStop' hs)
  exact Parses.climb (6 - n) 6 n (by omega) (by omega) h6 hs

theorem Good.of_core {e : Expr F}
    (h6 : 6 ≤ e.lvl → ∀ rest, Stop 6 rest →
      Parses rn (.lvl 6) (cToks showF e ++ rest) (leftAssoc e, rest))
    (hchain : e.lvl ≤ 5 → ∀ rest res, Stop (e.lvl + 1) rest →
      Parses rn (.rest e.lvl (leftAssoc e)) rest res → Parses rn (.lvl e.lvl) (cToks showF e ++ rest) res)
    (hpost : 7 ≤ e.lvl → ∀ rest res, Parses rn (.post (leftAssoc e)) rest res →
      Parses rn (.lvl 6) (cToks showF e ++ rest) res)
    (hop : ∀ (op : BinOp) (lhs : Expr F) rest res, opLvl op = e.lvl → e.lvl ≤ 5 → op ≠ .sub →
      Stop (e.lvl + 1) rest → Parses rn (.rest e.lvl (graft op lhs (leftAssoc e))) rest res →
      Parses rn (.rest e.lvl lhs) (opTok op :: cToks showF e ++ rest) res) :
    Good rn showF e := by
  have direct : ∀ n, n ≤ e.lvl → n ≤ 6 → ∀ rest, Stop n rest →
      Parses rn (.lvl n) (cToks showF e ++ rest) (leftAssoc e, rest) := by
    intro n hn hn6 rest hs
    by_cases hl : 6 ≤ e.lvl
    · exact Parses.climb (6 - n) 6 n (by omega) (by omega) (h6 hl rest (hs.mono hn6)) hs
    · have hl5 : e.lvl ≤ 5 := by omega
      have htop : Parses rn (.lvl e.lvl) (cToks showF e ++ rest) (leftAssoc e, rest) :=
        hchain hl5 rest _ (hs.mono (by omega)) (Parses.restStop' (hs.mono hn))
      exact Parses.climb (e.lvl - n) e.lvl n (by omega) (by omega) htop hs
  have chain : ∀ n, n ≤ e.lvl → n ≤ 5 → ∀ rest res, Stop (n + 1) rest →
      Parses rn (.rest n (leftAssoc e)) rest res → Parses rn (.lvl n) (cToks showF e ++ rest) res := by
    intro n hn hn5 rest res hs hr
    by_cases hl : n + 1 ≤ e.lvl
    · exact Parses.lvl (by omega) (direct (n + 1) hl (by omega) rest hs) hr
    · have hnl : n = e.lvl := by omega
      subst hnl
      exact hchain hn5 rest res hs hr
  refine ⟨direct, chain, hpost, ?_⟩
  intro op p lhs rest res h5 hc hs hr
  cases p with
  | true =>
    simp only [if_true] at hr
    have hp := paren_direct (rn := rn) (showF := showF) (e := e)
      (fun rest hs0 => direct 0 (Nat.zero_le _) (by omega) rest hs0) (opLvl op + 1) (by omega) rest hs
    have : opTok op :: wrapP true (cToks showF e) ++ rest
        = opTok op :: (.lpar :: cToks showF e ++ .rpar :: rest) := by simp [wrapP]
    rw [this]
    exact Parses.restStep (binOpOf_opTok op h5) rfl hp hr
  | false =>
    simp only [Bool.false_eq_true, if_false] at hr
    have hc' : opLvl op ≤ e.lvl ∧ (opLvl op = e.lvl → op ≠ .sub) := by
      cases hc with
      | inl h => cases h
      | inr h => exact h
    simp only [wrapP, Bool.false_eq_true, if_false]
    by_cases hl : opLvl op + 1 ≤ e.lvl
    · have hg : graft op lhs (leftAssoc e) = .bin op lhs (leftAssoc e) :=
        graft_of_lvl_ne op lhs (leftAssoc e) (by rw [leftAssoc_lvl]; omega)
      rw [hg] at hr
      exact Parses.restStep (binOpOf_opTok op h5) rfl (direct (opLvl op + 1) hl (by omega) rest hs) hr
    · have heq : opLvl op = e.lvl := by omega
      have := hop op lhs rest res heq (by omega) (hc'.2 heq) (by rw [← heq]; exact hs)
        (by rw [← heq]; exact hr)
      rw [← heq] at this
      exact this

theorem Good.of_postf {e : Expr F} (hl : 7 ≤ e.lvl)
    (hpost : ∀ rest res, Parses rn (.post (leftAssoc e)) rest res →
      Parses rn (.lvl 6) (cToks showF e ++ rest) res) : Good rn showF e :=
  Good.of_core (fun _ rest hs => hpost rest _ (Parses.postStop' hs)) (fun h => by omega)
    (fun _ => hpost) (fun _ _ _ _ _ h => by omega)

/-! ### facts about levels and parenthesisation -/

theorem isAddSub_iff_lvl (e : Expr F) : e.isAddSub = true ↔ e.lvl = 4 := by
  cases e <;> simp [Expr.isAddSub, Expr.lvl]
  rename_i op _ _
  cases op <;> simp [opLvl]

theorem isOr_iff_lvl (e : Expr F) : e.isOr = true ↔ e.lvl = 0 := by
  cases e <;> simp [Expr.isOr, Expr.lvl]
  rename_i op _ _
  cases op <;> simp [opLvl]

theorem parenL_lvl (op : BinOp) (l : Expr F) (h : parenL op l = true) : l.lvl ≠ opLvl op := by
  cases op <;> simp [parenL] at h
  · rw [isAddSub_iff_lvl] at h; simp [h, opLvl]
  · rw [isOr_iff_lvl] at h; simp [h, opLvl]

theorem parenR_lvl (op : BinOp) (r : Expr F) (h : parenR op r = true) :
    op = .sub ∨ r.lvl ≠ opLvl op := by
  cases op <;> simp [parenR] at h
  · exact Or.inl rfl
  · rw [isAddSub_iff_lvl] at h; simp [h, opLvl]
  · rw [isOr_iff_lvl] at h; simp [h, opLvl]

theorem parenR_sub (r : Expr F) (h : r.lvl = 4) : parenR .sub r = true := by
  simp [parenR, isAddSub_iff_lvl, h]

/-- the loop's result for a right operand is `mkBin` -/
theorem mk_eq (op : BinOp) (r x : Expr F) (h5 : opLvl op ≤ 5) :
    (if parenR op r = true then Expr.bin op x (leftAssoc r) else graft op x (leftAssoc r))
      = mkBin op x (leftAssoc r) := by
  by_cases hp : parenR op r = true
  · rw [if_pos hp]
    cases parenR_lvl op r hp with
    | inl h => subst h; rfl
    | inr h =>
      have hg := graft_of_lvl_ne op x (leftAssoc r) (by rw [leftAssoc_lvl]; exact h)
      cases op <;> first | exact hg.symm | rfl | simp [opLvl] at h5
  · rw [if_neg hp]
    cases op <;> first | rfl | simp [opLvl] at h5 | skip
    -- `sub` with a bare right operand: the operand is not `+` / `-`
    have hl : r.lvl ≠ 4 := fun h => hp (parenR_sub r h)
    exact graft_of_lvl_ne .sub x (leftAssoc r) (by rw [leftAssoc_lvl]; simpa [opLvl] using hl)

theorem cToks_infix (op : BinOp) (l r : Expr F) (h5 : opLvl op ≤ 5) :
    cToks showF (.bin op l r)
      = wrapP (parenL op l) (cToks showF l) ++ opTok op :: wrapP (parenR op r) (cToks showF r) := by
  cases op <;> first | rfl | simp [opLvl] at h5

theorem Layered_infix (op : BinOp) (l r : Expr F) (h5 : opLvl op ≤ 5)
    (h : Layered (.bin op l r) = true) :
    Layered l = true ∧ Layered r = true ∧ (parenL op l = true ∨ opLvl op ≤ l.lvl) ∧
      (parenR op r = true ∨ opLvl op ≤ r.lvl) := by
  cases op <;> first | (simp [opLvl] at h5; done) | (simp [Layered] at h; simp [h])

/-- the left operand of an infix operator of level `m`, then the level-`m` loop -/
theorem left_operand {l : Expr F} (gl : Good rn showF l) (p : Bool) (m : Nat) (hm : m ≤ 5)
    (hc : p = true ∨ m ≤ l.lvl) (rest : List CTok) (res : Expr F × List CTok) (hs : Stop (m + 1) rest)
    (h : Parses rn (.rest m (leftAssoc l)) rest res) :
    Parses rn (.lvl m) (wrapP p (cToks showF l) ++ rest) res := by
  cases p with
  | true =>
    have hp := paren_direct (rn := rn) (showF := showF) (e := l)
      (fun rest hs0 => gl.direct 0 (Nat.zero_le _) (by omega) rest hs0) (m + 1) (by omega) rest hs
    have : wrapP true (cToks showF l) ++ rest = .lpar :: cToks showF l ++ .rpar :: rest := by
      simp [wrapP]
    rw [this]
    exact Parses.lvl (by omega) hp h
  | false =>
    have hc' : m ≤ l.lvl := by
      cases hc with
      | inl h => cases h
      | inr h => exact h
    simp only [wrapP, Bool.false_eq_true, if_false]
    exact gl.chain m hc' hm rest res hs h

theorem Good.infix {op : BinOp} {l r : Expr F} (h5 : opLvl op ≤ 5) (gl : Good rn showF l)
    (gr : Good rn showF r) (hL : parenL op l = true ∨ opLvl op ≤ l.lvl)
    (hR : parenR op r = true ∨ opLvl op ≤ r.lvl) : Good rn showF (.bin op l r) := by
  have hRc : parenR op r = true ∨ (opLvl op ≤ r.lvl ∧ (opLvl op = r.lvl → op ≠ .sub)) := by
    cases hR with
    | inl h => exact Or.inl h
    | inr h =>
      by_cases hp : parenR op r = true
      · exact Or.inl hp
      · refine Or.inr ⟨h, fun heq hs => ?_⟩
        subst hs
        exact hp (parenR_sub r (by simpa [opLvl] using heq.symm))
  have hlvl : (Expr.bin op l r).lvl = opLvl op := rfl
  have hla : leftAssoc (Expr.bin op l r) = mkBin op (leftAssoc l) (leftAssoc r) := rfl
  apply Good.of_core
  · intro h; rw [hlvl] at h; omega
  · intro _ rest res hs hr
    rw [hlvl] at hs hr ⊢
    rw [hla] at hr
    rw [cToks_infix op l r h5, List.append_assoc, List.cons_append]
    refine left_operand gl _ _ h5 hL _ res (Stop.op op _ h5 (Nat.lt_succ_self _)) ?_
    refine gr.operand op (parenR op r) (leftAssoc l) rest res h5 hRc hs ?_
    rw [mk_eq op r _ h5]; exact hr
  · intro h; rw [hlvl] at h; omega
  · intro op0 lhs rest res heq _ hne hs hr
    rw [hlvl] at hs hr ⊢
    rw [hlvl] at heq
    rw [hla] at hr
    rw [cToks_infix op l r h5]
    have hlist : opTok op0 :: (wrapP (parenL op l) (cToks showF l) ++
          opTok op :: wrapP (parenR op r) (cToks showF r)) ++ rest
        = opTok op0 :: wrapP (parenL op l) (cToks showF l) ++
          (opTok op :: wrapP (parenR op r) (cToks showF r) ++ rest) := by simp
    rw [hlist]
    have h50 : opLvl op0 ≤ 5 := by omega
    have hLc : parenL op l = true ∨ (opLvl op0 ≤ l.lvl ∧ (opLvl op0 = l.lvl → op0 ≠ .sub)) := by
      cases hL with
      | inl h => exact Or.inl h
      | inr h => exact Or.inr ⟨by omega, fun _ => hne⟩
    have hGy : (if parenL op l = true then Expr.bin op0 lhs (leftAssoc l)
        else graft op0 lhs (leftAssoc l)) = graft op0 lhs (leftAssoc l) := by
      by_cases hp : parenL op l = true
      · rw [if_pos hp]
        exact (graft_of_lvl_ne op0 lhs (leftAssoc l)
          (by rw [leftAssoc_lvl, heq]; exact parenL_lvl op l hp)).symm
      · rw [if_neg hp]
    have key := gl.operand op0 (parenL op l) lhs (opTok op :: wrapP (parenR op r) (cToks showF r) ++ rest)
      res h50 hLc (by rw [heq]; exact Stop.op op _ h5 (Nat.lt_succ_self _))
    rw [heq] at key
    apply key
    rw [hGy]
    refine gr.operand op (parenR op r) _ rest res h5 hRc hs ?_
    rw [mk_eq op r _ h5, mkBin_graft op op0 lhs _ _ heq.symm h5]
    exact hr

/-! ### the other constructors -/

theorem Good.var (n : String) : Good rn showF (.var n : Expr F) :=
  Good.of_postf (by simp [Expr.lvl]) fun rest res h =>
    Parses.unary (by intro ts' h; cases h) Parses.id h

theorem Good.intLit (v : Int) (hv : rn (toString v) = .intLit v) : Good rn showF (.intLit v : Expr F) :=
  Good.of_postf (by simp [Expr.lvl]) fun rest res h =>
    Parses.unary (by intro ts' h; cases h)
      (by have := Parses.num (rn := rn) (s := toString v) (r := rest); rw [hv] at this; exact this) h

theorem Good.floatLit (v : F) (hv : rn (showF v) = .floatLit v) : Good rn showF (.floatLit v) :=
  Good.of_postf (by simp [Expr.lvl]) fun rest res h =>
    Parses.unary (by intro ts' h; cases h)
      (by have := Parses.num (rn := rn) (s := showF v) (r := rest); rw [hv] at this; exact this) h

theorem Good.boolLit (b : Bool) : Good rn showF (.boolLit b : Expr F) :=
  Good.of_postf (by simp [Expr.lvl]) fun rest res h => by
    cases b
    · exact Parses.unary (by intro ts' h; cases h) Parses.kfalse h
    · exact Parses.unary (by intro ts' h; cases h) Parses.ktrue h

theorem isPostfixTarget_lvl (t : Expr F) (h : t.isPostfixTarget = true) : 7 ≤ t.lvl := by
  cases t <;> simp [Expr.isPostfixTarget] at h <;> simp [Expr.lvl]

theorem Good.attr {t : Expr F} (a : String) (gt : Good rn showF t) (ht : t.isPostfixTarget = true) :
    Good rn showF (.attr t a) :=
  Good.of_postf (by simp [Expr.lvl]) fun rest res h => by
    have : cToks showF (.attr t a) ++ rest = cToks showF t ++ (.arrow :: .id a :: rest) := by
      simp [cToks]
    rw [this]
    exact gt.postf (isPostfixTarget_lvl t ht) _ res (Parses.arrow h)

theorem Good.idx {t i : Expr F} (gt : Good rn showF t) (gi : Good rn showF i)
    (ht : t.isPostfixTarget = true) : Good rn showF (.idx t i) :=
  Good.of_postf (by simp [Expr.lvl]) fun rest res h => by
    have : cToks showF (.idx t i) ++ rest
        = cToks showF t ++ (.lbrack :: (cToks showF i ++ .rbrack :: rest)) := by
      simp [cToks]
    rw [this]
    exact gt.postf (isPostfixTarget_lvl t ht) _ res
      (Parses.brack (gi.direct 0 (Nat.zero_le _) (by omega) _ (Stop.rbrack 0 rest)) h)

theorem Good.max {l r : Expr F} (gl : Good rn showF l) (gr : Good rn showF r) :
    Good rn showF (.bin .max l r) :=
  Good.of_postf (by simp [Expr.lvl, opLvl]) fun rest res h => by
    have : cToks showF (.bin .max l r) ++ rest
        = .tmax :: .lpar :: (cToks showF l ++ .comma :: (cToks showF r ++ .rpar :: rest)) := by
      simp [cToks]
    rw [this]
    exact Parses.unary (by intro ts' h; cases h)
      (Parses.tmax (gl.direct 0 (Nat.zero_le _) (by omega) _ (Stop.comma 0 _))
        (gr.direct 0 (Nat.zero_le _) (by omega) _ (Stop.rpar 0 rest))) h

theorem Good.min {l r : Expr F} (gl : Good rn showF l) (gr : Good rn showF r) :
    Good rn showF (.bin .min l r) :=
  Good.of_postf (by simp [Expr.lvl, opLvl]) fun rest res h => by
    have : cToks showF (.bin .min l r) ++ rest
        = .tmin :: .lpar :: (cToks showF l ++ .comma :: (cToks showF r ++ .rpar :: rest)) := by
      simp [cToks]
    rw [this]
    exact Parses.unary (by intro ts' h; cases h)
      (Parses.tmin (gl.direct 0 (Nat.zero_le _) (by omega) _ (Stop.comma 0 _))
        (gr.direct 0 (Nat.zero_le _) (by omega) _ (Stop.rpar 0 rest))) h

theorem Good.b2i {e : Expr F} (ge : Good rn showF e) : Good rn showF (.b2i e) := by
  apply Good.of_core
  · intro _ rest hs
    have : cToks showF (.b2i e) ++ rest = .cast :: (.lpar :: cToks showF e ++ .rpar :: rest) := by
      simp [cToks]
    rw [this]
    exact Parses.cast (paren_direct (fun rest hs0 => ge.direct 0 (Nat.zero_le _) (by omega) rest hs0)
      6 (Nat.le_refl _) rest hs)
  · intro h; simp [Expr.lvl] at h
  · intro h; simp [Expr.lvl] at h
  · intro _ _ _ _ _ h; simp [Expr.lvl] at h

/-- the structural induction -/
theorem good_of_layered (e : Expr F) (h : Layered e = true) (hnum : LitsOk rn showF e) :
    Good rn showF e := by
  induction e with
  | var n => exact Good.var n
  | attr t a ih =>
    simp [Layered] at h
    exact Good.attr a (ih h.2 hnum) h.1
  | idx t i iht ihi =>
    simp [Layered] at h
    exact Good.idx (iht h.1.2 hnum.1) (ihi h.2 hnum.2) h.1.1
  | intLit v => exact Good.intLit v hnum
  | floatLit v => exact Good.floatLit v hnum
  | boolLit b => exact Good.boolLit b
  | bin op l r ihl ihr =>
    by_cases h5 : opLvl op ≤ 5
    · obtain ⟨hl, hr, hL, hR⟩ := Layered_infix op l r h5 h
      exact Good.infix h5 (ihl hl hnum.1) (ihr hr hnum.2) hL hR
    · cases op <;> first | (simp [opLvl] at h5; done) | skip
      · simp [Layered] at h
        exact Good.max (ihl h.1 hnum.1) (ihr h.2 hnum.2)
      · simp [Layered] at h
        exact Good.min (ihl h.1 hnum.1) (ihr h.2 hnum.2)
  | b2i e ih =>
    simp [Layered] at h
    exact Good.b2i (ih h hnum)
  | alloc t n ih => simp [Layered] at h
  | realloc o t n iho ihn => simp [Layered] at h

/-- parsing the printed tokens of a layered tree yields `leftAssoc` of the tree, and all tokens
are consumed -/
theorem cParse_cToks (e : Expr F) (h : Layered e = true) (hnum : LitsOk rn showF e) :
    ∃ fuel, cParse rn fuel (cToks showF e) = some (leftAssoc e, []) := by
  have g := good_of_layered (rn := rn) (showF := showF) e h hnum
  have := g.direct 0 (Nat.zero_le _) (by omega) [] trivial
  rw [List.append_nil] at this
  exact this

end TV.IR
