import TensoraVerif.Model.CTokens

/-! the token view renders to exactly the string the (validated) printer produces -/
namespace TV.IR

variable {F : Type}

theorem renderC_append (a b : List CTok) : renderC (a ++ b) = renderC a ++ renderC b := by
  induction a with
  | nil => simp [renderC]
  | cons t ts ih => simp [renderC, ih, String.append_assoc]

theorem renderC_wrapP (p : Bool) (ts : List CTok) :
    renderC (wrapP p ts) = if p then "(" ++ renderC ts ++ ")" else renderC ts := by
  cases p <;> simp [wrapP, renderC, renderC_append, CTok.str, String.append_assoc]

private theorem lit_cast (s : String) : "(int32_t)(" ++ s = "(int32_t)" ++ ("(" ++ s) := by
  rw [← String.append_assoc]; rfl
private theorem lit_max (s : String) : "TACO_MAX(" ++ s = "TACO_MAX" ++ ("(" ++ s) := by
  rw [← String.append_assoc]; rfl
private theorem lit_min (s : String) : "TACO_MIN(" ++ s = "TACO_MIN" ++ ("(" ++ s) := by
  rw [← String.append_assoc]; rfl
private theorem lit_malloc (s : String) :
    "malloc(sizeof(" ++ s = "malloc" ++ ("(" ++ ("sizeof" ++ ("(" ++ s))) := by
  simp only [← String.append_assoc]; rfl
private theorem lit_realloc (s : String) : "realloc(" ++ s = "realloc" ++ ("(" ++ s) := by
  rw [← String.append_assoc]; rfl
private theorem lit_sizeof (s : String) : ", sizeof(" ++ s = ", " ++ ("sizeof" ++ ("(" ++ s)) := by
  simp only [← String.append_assoc]; rfl
private theorem lit_times (s : String) : ") * " ++ s = ")" ++ (" * " ++ s) := by
  rw [← String.append_assoc]; rfl

theorem cExpr_eq_render (showF : F → String) (e : Expr F) :
    cExpr showF e = renderC (cToks showF e) := by
  induction e with
  | var n => simp [cExpr, cToks, renderC, CTok.str]
  | attr t a ih => simp [cExpr, cToks, renderC, renderC_append, CTok.str, ih, String.append_assoc]
  | idx t i iht ihi =>
    simp [cExpr, cToks, renderC, renderC_append, CTok.str, iht, ihi, String.append_assoc]
  | intLit v => simp [cExpr, cToks, renderC, CTok.str]
  | floatLit v => simp [cExpr, cToks, renderC, CTok.str]
  | boolLit b => cases b <;> simp [cExpr, cToks, renderC, CTok.str]
  | bin op l r ihl ihr =>
    cases op <;>
      simp [cExpr, cToks, renderC, renderC_append, renderC_wrapP, CTok.str, opTok, opSym, parenL, parenR,
        ihl, ihr, lit_max, lit_min, String.append_assoc]
  | b2i e ih =>
    simp [cExpr, cToks, renderC, renderC_append, CTok.str, ih, lit_cast, String.append_assoc]
  | alloc t n ih =>
    simp [cExpr, cToks, renderC, renderC_append, renderC_wrapP, CTok.str, ih,
      lit_malloc, lit_times, String.append_assoc]
  | realloc o t n iho ihn =>
    simp [cExpr, cToks, renderC, renderC_append, renderC_wrapP, CTok.str, iho, ihn,
      lit_realloc, lit_sizeof, lit_times, String.append_assoc]

end TV.IR
