import TensoraVerif.Model.GenerateIR
import TensoraVerif.Lemmas.GrowthFrag

/-!
C02 / C05 ("final realloc of pos/crd/vals to their exact sizes", `AppendOutput.write_cleanup`),
part 1: the shape of `appendCleanup`. The fold over the levels carries
`(builder, allDense, prevSize, padded)`; it is decomposed into

* `cleanAcc t l`  — the triple `(allDense, prevSize, padded)` BEFORE level `l`,
* `levelStmts t l` — the statements emitted FOR level `l`,
* `valsStmts t`   — the statements emitted after the fold,

so that `(appendCleanup t k).lines = flatMap levelStmts (range n) ++ valsStmts`.
-/
namespace TV.Cleanup
open TV.IR TV.Gen TV.Graph

set_option linter.unusedSectionVars false
variable {F : Type} [FloatOps F]

/-- the step function of the fold in `appendCleanup` -/
def cleanStep (t : TensorId) (acc : SB F × Bool × Expr F × Expr F) (i : Nat) :
    SB F × Bool × Expr F × Expr F :=
  let (b, allDense, prevSize, padded) := acc
  match t.modes.getD i .dense with
  | .dense =>
    let d : Expr F := .var (dimName (t.indexes.getD i ""))
    (b, allDense, times prevSize d, times padded d)
  | .compressed =>
    let posArr : Expr F := .var (posName t.name i)
    let b := if !allDense then b.add (.assign posArr (.realloc posArr .int (plus prevSize (.intLit 1)))) else b
    let crdArr : Expr F := .var (crdName t.name i)
    let final : Expr F := .var (layerPointer t.id i)
    let b := b.add (.assign crdArr (.realloc crdArr .int final))
    let b := b.add (.assign (.idx (.idx (.attr (.var t.name) "indices") (.intLit i)) (.intLit 0)) posArr)
    let b := b.add (.assign (.idx (.idx (.attr (.var t.name) "indices") (.intLit i)) (.intLit 1)) crdArr)
    (b, false, final, plus final (.intLit 1))

def cleanInit (t : TensorId) : SB F × Bool × Expr F × Expr F :=
  (SB.mk' (some ("Assembling output tensor " ++ t.name)), true, (.intLit 1 : Expr F), (.intLit 1 : Expr F))

theorem appendCleanup_eq (t : TensorId) (k : Kind) :
    (appendCleanup t k : SB F) =
      if !k.isAssemble then SB.mk' (some ("Assembling output tensor " ++ t.name)) else
        let step := (List.range t.modes.length).foldl (cleanStep t) (cleanInit t)
        let b := if !step.2.1 then
            step.1.add (.assign (.var (valsName t.name)) (.realloc (.var (valsName t.name)) .float step.2.2.2))
          else step.1
        b.add (.assign (.attr (.var t.name) "vals") (.var (valsName t.name))) := rfl

/-! ### decomposition of the fold -/

/-- the `(allDense, prevSize, padded)` part of `cleanStep` -/
def accStep (t : TensorId) (a : Bool × Expr F × Expr F) (i : Nat) : Bool × Expr F × Expr F :=
  match t.modes.getD i .dense with
  | .dense =>
    (a.1, times a.2.1 (.var (dimName (t.indexes.getD i ""))), times a.2.2 (.var (dimName (t.indexes.getD i ""))))
  | .compressed =>
    (false, .var (layerPointer t.id i), plus (.var (layerPointer t.id i)) (.intLit 1))

/-- `pos_<l> = realloc(pos_<l>, prevSize + 1)` -/
def posRealloc (t : TensorId) (prev : Expr F) (i : Nat) : Stmt F :=
  .assign (.var (posName t.name i)) (.realloc (.var (posName t.name i)) .int (plus prev (.intLit 1)))
/-- `crd_<l> = realloc(crd_<l>, p_<id>_<l>)` -/
def crdRealloc (t : TensorId) (i : Nat) : Stmt F :=
  .assign (.var (crdName t.name i)) (.realloc (.var (crdName t.name i)) .int (.var (layerPointer t.id i)))
/-- `t->indices[l][0] = pos_<l>` -/
def posHandOver (t : TensorId) (i : Nat) : Stmt F :=
  .assign (.idx (.idx (.attr (.var t.name) "indices") (.intLit i)) (.intLit 0)) (.var (posName t.name i))
/-- `t->indices[l][1] = crd_<l>` -/
def crdHandOver (t : TensorId) (i : Nat) : Stmt F :=
  .assign (.idx (.idx (.attr (.var t.name) "indices") (.intLit i)) (.intLit 1)) (.var (crdName t.name i))
/-- `vals = realloc(vals, padded)` -/
def valsRealloc (t : TensorId) (padded : Expr F) : Stmt F :=
  .assign (.var (valsName t.name)) (.realloc (.var (valsName t.name)) .float padded)
/-- `t->vals = vals` -/
def valsHandOver (t : TensorId) : Stmt F :=
  .assign (.attr (.var t.name) "vals") (.var (valsName t.name))

/-- the statements `appendCleanup` emits for level `i` when the fold state before it is `a` -/
def levelStmts (t : TensorId) (a : Bool × Expr F × Expr F) (i : Nat) : List (Stmt F) :=
  match t.modes.getD i .dense with
  | .dense => []
  | .compressed =>
    (if !a.1 then [posRealloc t a.2.1 i] else []) ++ [crdRealloc t i, posHandOver t i, crdHandOver t i]

/-- the statements `appendCleanup` emits after the fold -/
def valsStmts (t : TensorId) (a : Bool × Expr F × Expr F) : List (Stmt F) :=
  (if !a.1 then [valsRealloc t a.2.2] else []) ++ [valsHandOver t]

theorem cleanStep_eq (t : TensorId) (b : SB F) (a : Bool × Expr F × Expr F) (i : Nat) :
    cleanStep t (b, a) i = (⟨b.comment, b.lines ++ levelStmts t a i⟩, accStep t a i) := by
  obtain ⟨ad, prev, pad⟩ := a
  unfold cleanStep levelStmts accStep
  cases t.modes.getD i .dense
  · simp
  · cases ad <;> simp [SB.add, posRealloc, crdRealloc, posHandOver, crdHandOver]

def stmtsFrom (t : TensorId) : Bool × Expr F × Expr F → List Nat → List (Stmt F)
  | _, [] => []
  | a, i :: xs => levelStmts t a i ++ stmtsFrom t (accStep t a i) xs

theorem foldl_cleanStep (t : TensorId) (xs : List Nat) (b : SB F) (a : Bool × Expr F × Expr F) :
    xs.foldl (cleanStep t) (b, a) = (⟨b.comment, b.lines ++ stmtsFrom t a xs⟩, xs.foldl (accStep t) a) := by
  induction xs generalizing b a with
  | nil => simp [stmtsFrom]
  | cons i xs ih =>
    rw [List.foldl_cons, cleanStep_eq, ih]
    simp [stmtsFrom]

theorem stmtsFrom_append (t : TensorId) (xs ys : List Nat) (a : Bool × Expr F × Expr F) :
    stmtsFrom t a (xs ++ ys) = stmtsFrom t a xs ++ stmtsFrom t (xs.foldl (accStep t) a) ys := by
  induction xs generalizing a with
  | nil => simp [stmtsFrom]
  | cons i xs ih => simp [stmtsFrom, ih]

def accInit : Bool × Expr F × Expr F := (true, .intLit 1, .intLit 1)

/-- the fold state `(allDense, prevSize, padded)` before level `l` (after the levels `< l`) -/
def cleanAcc (t : TensorId) (l : Nat) : Bool × Expr F × Expr F := (List.range l).foldl (accStep t) accInit

/-- the statements emitted for the levels `< l` -/
def cleanLines (t : TensorId) (l : Nat) : List (Stmt F) := stmtsFrom t accInit (List.range l)

theorem cleanAcc_zero (t : TensorId) : (cleanAcc t 0 : Bool × Expr F × Expr F) = accInit := rfl

theorem cleanAcc_succ (t : TensorId) (l : Nat) :
    (cleanAcc t (l + 1) : Bool × Expr F × Expr F) = accStep t (cleanAcc t l) l := by
  simp [cleanAcc, List.range_succ]

theorem cleanLines_zero (t : TensorId) : (cleanLines t 0 : List (Stmt F)) = [] := rfl

theorem cleanLines_succ (t : TensorId) (l : Nat) :
    (cleanLines t (l + 1) : List (Stmt F)) = cleanLines t l ++ levelStmts t (cleanAcc t l) l := by
  simp [cleanLines, cleanAcc, List.range_succ, stmtsFrom_append, stmtsFrom]

/-- **shape.** In an assembling kernel `appendCleanup` is the concatenation of the per-level
statements followed by the `vals` statements. -/
theorem appendCleanup_lines (t : TensorId) (k : Kind) (hk : k.isAssemble = true) :
    (appendCleanup t k : SB F).lines =
      cleanLines t t.modes.length ++ valsStmts t (cleanAcc t t.modes.length) := by
  rw [appendCleanup_eq]
  simp only [hk, Bool.not_true, Bool.false_eq_true, if_false, cleanInit, foldl_cleanStep]
  unfold valsStmts cleanLines cleanAcc accInit
  cases ((List.range t.modes.length).foldl (accStep (F := F) t) (true, .intLit 1, .intLit 1)).1 <;>
    simp [SB.add, SB.mk', valsRealloc, valsHandOver]

theorem appendCleanup_comment (t : TensorId) (k : Kind) :
    (appendCleanup t k : SB F).comment = some ("Assembling output tensor " ++ t.name) := by
  rw [appendCleanup_eq]
  split
  · rfl
  · simp only [cleanInit, foldl_cleanStep]
    split <;> rfl

/-- **K3.** In a compute kernel the cleanup has no statements. -/
theorem appendCleanup_compute_lines (t : TensorId) (k : Kind) (hk : k.isAssemble = false) :
    (appendCleanup t k : SB F).lines = [] := by
  rw [appendCleanup_eq]; simp [hk, SB.mk']

end TV.Cleanup
