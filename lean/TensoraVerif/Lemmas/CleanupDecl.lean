import TensoraVerif.Lemmas.CleanupSizes
import TensoraVerif.Lemmas.CleanupNames
import TensoraVerif.Lemmas.LoweringParts

/-!
C02 cleanup, part 8 (K1, continued): which statements `appendCleanup` contains, the size of every
`realloc` in it, and the allocation `appendDeclarations` emits for the `pos` array of a compressed
level whose prefix is all dense (the one `appendCleanup` does NOT reallocate).
-/
namespace TV.Cleanup
open TV.IR TV.Gen TV.Graph TV.Growth

set_option linter.unusedSectionVars false
variable {F : Type} [FloatOps F]

theorem mem_cleanLines (t : TensorId) (l : Nat) (s : Stmt F) :
    s ∈ cleanLines t l ↔ ∃ i, i < l ∧ s ∈ levelStmts t (cleanAcc t i) i := by
  induction l with
  | zero => simp [cleanLines_zero]
  | succ l ih =>
    rw [cleanLines_succ, List.mem_append, ih]
    constructor
    · rintro (⟨i, hi, h⟩ | h)
      · exact ⟨i, by omega, h⟩
      · exact ⟨l, by omega, h⟩
    · rintro ⟨i, hi, h⟩
      rcases Nat.lt_succ_iff_lt_or_eq.mp hi with hi | rfl
      · exact Or.inl ⟨i, hi, h⟩
      · exact Or.inr h

/-- the statements of `appendCleanup`, level by level -/
theorem mem_appendCleanup (t : TensorId) (k : Kind) (hk : k.isAssemble = true) (s : Stmt F) :
    s ∈ (appendCleanup t k : SB F).lines ↔
      (∃ i, i < t.modes.length ∧ s ∈ levelStmts t (cleanAcc t i) i) ∨
      s ∈ valsStmts t (cleanAcc t t.modes.length) := by
  rw [appendCleanup_lines t k hk, List.mem_append, mem_cleanLines]

theorem mem_levelStmts (t : TensorId) (a : Bool × Expr F × Expr F) (i : Nat) (s : Stmt F) :
    s ∈ levelStmts t a i ↔ t.modes.getD i .dense = .compressed ∧
      ((a.1 = false ∧ s = posRealloc t a.2.1 i) ∨ s = crdRealloc t i ∨ s = posHandOver t i ∨
        s = crdHandOver t i) := by
  unfold levelStmts
  cases t.modes.getD i .dense
  · simp
  · cases a.1 <;> simp

theorem mem_valsStmts (t : TensorId) (a : Bool × Expr F × Expr F) (s : Stmt F) :
    s ∈ valsStmts t a ↔ (a.1 = false ∧ s = valsRealloc t a.2.2) ∨ s = valsHandOver t := by
  unfold valsStmts
  cases a.1 <;> simp

/-- while all levels are dense, `prevSize` is the product of the dimension variables — the very
expression `appendDeclarations` uses for the size of the first `pos` array -/
theorem cleanAcc_allDense (t : TensorId) (i : Nat) (h : allDenseUpTo t.modes i = true) :
    (cleanAcc (F := F) t i).2.1 =
      mulJoin ((List.range i).map fun j => (.var (dimName (t.indexes.getD j "")) : Expr F)) := by
  induction i with
  | zero => rfl
  | succ i ih =>
    have hm := (allDenseUpTo_iff t.modes (i + 1)).mp h i (by omega)
    have h' := allDenseUpTo_mono t.modes (Nat.le_succ i) h
    rw [cleanAcc_succ]
    unfold accStep
    rw [hm]
    simp only [ih h', List.range_succ, List.map_append, List.map_cons, List.map_nil, mulJoin, joinWith,
      List.foldl_append, List.foldl_cons, List.foldl_nil, times]

/-- the `allDense` flag of the fold before level `l`, syntactically -/
theorem cleanAcc_flag (t : TensorId) (l : Nat) :
    (cleanAcc (F := F) t l).1 = allDenseUpTo t.modes l := by
  induction l with
  | zero => rfl
  | succ l ih =>
    rw [cleanAcc_succ]
    unfold accStep
    cases hm : t.modes.getD l .dense
    · rw [allDenseUpTo_dense hm]; exact ih
    · rw [allDenseUpTo_comp hm]

/-- **the reallocs of `appendCleanup`, syntactically**: every statement `x = realloc(o, ty, e)` in it
is the `pos` realloc of a compressed level with a compressed level above it, the `crd` realloc of a
compressed level, or the `vals` realloc of a tensor with a compressed level. -/
theorem cleanup_realloc_form (t : TensorId) (k : Kind) (hk : k.isAssemble = true) (x : String)
    (o : Expr F) (ty : Ty) (e : Expr F)
    (hmem : Stmt.assign (.var x) (.realloc o ty e) ∈ (appendCleanup t k : SB F).lines) :
    (∃ l, l < t.modes.length ∧ t.modes.getD l .dense = .compressed ∧ allDenseUpTo t.modes l = false ∧
      x = posName t.name l ∧ o = .var x ∧ ty = .int ∧ e = plus (cleanAcc t l).2.1 (.intLit 1)) ∨
    (∃ l, l < t.modes.length ∧ t.modes.getD l .dense = .compressed ∧
      x = crdName t.name l ∧ o = .var x ∧ ty = .int ∧ e = .var (layerPointer t.id l)) ∨
    (allDenseUpTo t.modes t.modes.length = false ∧ x = valsName t.name ∧ o = .var x ∧ ty = .float ∧
      e = (cleanAcc t t.modes.length).2.2) := by
  rw [mem_appendCleanup t k hk] at hmem
  rcases hmem with ⟨l, hl, h⟩ | h
  · rw [mem_levelStmts] at h
    obtain ⟨hm, h⟩ := h
    rcases h with ⟨hf, h⟩ | h | h | h
    · rw [cleanAcc_flag] at hf
      simp only [posRealloc, Stmt.assign.injEq, Expr.var.injEq, Expr.realloc.injEq] at h
      obtain ⟨rfl, rfl, rfl, rfl⟩ := h
      exact Or.inl ⟨l, hl, hm, hf, rfl, rfl, rfl, rfl⟩
    · simp only [crdRealloc, Stmt.assign.injEq, Expr.var.injEq, Expr.realloc.injEq] at h
      obtain ⟨rfl, rfl, rfl, rfl⟩ := h
      exact Or.inr (Or.inl ⟨l, hl, hm, rfl, rfl, rfl, rfl⟩)
    · simp [posHandOver] at h
    · simp [crdHandOver] at h
  · rw [mem_valsStmts] at h
    rcases h with ⟨hf, h⟩ | h
    · rw [cleanAcc_flag] at hf
      simp only [valsRealloc, Stmt.assign.injEq, Expr.var.injEq, Expr.realloc.injEq] at h
      obtain ⟨rfl, rfl, rfl, rfl⟩ := h
      exact Or.inr (Or.inr ⟨hf, rfl, rfl, rfl, rfl⟩)
    · simp [valsHandOver] at h

/-! ### `appendDeclarations` -/

theorem declStep_lines_append (cap : Option Int) (t : TensorId) (k : Kind) (xs : List Nat)
    (acc : SB F × Bool) :
    ∃ tail, (xs.foldl (declStep cap t k) acc).1.lines = acc.1.lines ++ tail := by
  induction xs generalizing acc with
  | nil => exact ⟨[], by simp⟩
  | cons x xs ih =>
    obtain ⟨tail, h⟩ := ih (declStep cap t k acc x)
    rw [List.foldl_cons, h]
    have : ∃ tl, (declStep cap t k acc x).1.lines = acc.1.lines ++ tl := by
      unfold declStep
      split
      · exact ⟨[], by simp⟩
      · split
        · exact ⟨_, by simp only [SB.add, List.append_assoc]; rfl⟩
        · exact ⟨_, by simp only [SB.add]; rfl⟩
    obtain ⟨tl, h2⟩ := this
    exact ⟨tl ++ tail, by rw [h2, List.append_assoc]⟩

theorem declStep_flag_range (cap : Option Int) (t : TensorId) (k : Kind) (i : Nat) (b : SB F) :
    ((List.range i).foldl (declStep (F := F) cap t k) (b, true)).2 = allDenseUpTo t.modes i := by
  rw [declStep_flag]
  rw [Bool.true_and, Bool.eq_iff_iff, allDenseUpTo_iff]
  simp only [List.all_eq_true, List.mem_range, beq_iff_eq]

/-- **K1 (the `pos` array that is not reallocated).** In an assembling kernel, for a compressed
level `i` above which every level is dense, `appendDeclarations` contains, consecutively,
`int32_t <pos>_capacity = d_0 * … * d_{i-1} + 1; <pos> = malloc(<pos>_capacity)`, where the product
is the expression `prevSize` of `appendCleanup` before level `i`. -/
theorem appendDeclarations_pos_alloc (cap : Option Int) (t : TensorId) (k : Kind)
    (hk : k.isAssemble = true) (i : Nat) (hi : i < t.modes.length)
    (hm : t.modes.getD i .dense = .compressed) (had : allDenseUpTo t.modes i = true) :
    [declAssignE (posCapName t.name i) .int (plus (cleanAcc (F := F) t i).2.1 (.intLit 1)),
      .assign (.var (posName t.name i)) (.alloc .int (.var (posCapName t.name i)))] <:+:
      (appendDeclarations cap t k : SB F).lines := by
  rw [appendDeclarations_eq]
  simp only [hk, if_true, SB.add]
  have hsplit : List.range t.modes.length =
      List.range i ++ i :: (List.range (t.modes.length - (i + 1))).map (i + 1 + ·) := by
    have h1 : t.modes.length = (i + 1) + (t.modes.length - (i + 1)) := by omega
    conv => lhs; rw [h1, List.range_add, List.range_succ]
    simp
  rw [hsplit, List.foldl_append, List.foldl_cons]
  generalize hacc : (List.range i).foldl (declStep (F := F) cap t k) (SB.mk' (some "Output initialization"), true) = acc
  have hflag : acc.2 = true := by
    rw [← hacc, declStep_flag_range]; exact had
  obtain ⟨tail, htail⟩ := declStep_lines_append (F := F) cap t k
    ((List.range (t.modes.length - (i + 1))).map (i + 1 + ·)) (declStep cap t k acc i)
  rw [htail]
  have hstep : ∃ rest, (declStep (F := F) cap t k acc i).1.lines = acc.1.lines ++
      ([declAssignE (posCapName t.name i) .int (plus (cleanAcc (F := F) t i).2.1 (.intLit 1)),
        .assign (.var (posName t.name i)) (.alloc .int (.var (posCapName t.name i)))] ++ rest) := by
    unfold declStep
    rw [hm]
    simp only [hk, if_true, hflag, SB.add, cleanAcc_allDense t i had, List.append_assoc]
    exact ⟨_, rfl⟩
  obtain ⟨rest, hrest⟩ := hstep
  rw [hrest]
  refine List.IsInfix.trans ?_ (List.prefix_append _ _).isInfix
  refine List.IsInfix.trans ?_ (List.prefix_append _ _).isInfix
  refine List.IsInfix.trans ?_ (List.prefix_append _ _).isInfix
  exact ⟨acc.1.lines, rest, by simp only [List.append_assoc]⟩

/-- … and that size evaluates to `positions (i-1) + 1` -/
theorem declPosSize_eval (t : TensorId) (d n : Nat → Int) (σ : State F) (henv : SizeEnv t d n σ)
    (hok : SizesOK t.modes d n) (i : Nat) (hi : i ≤ t.modes.length) :
    evalE σ (plus (cleanAcc t i).2.1 (.intLit 1)) = .ok (.int (posUpTo t.modes d n i + 1)) := by
  obtain ⟨_, h2, _⟩ := cleanAcc_eval t d n σ henv hok i hi
  have := posUpTo_nonneg hok hi
  exact evalE_add h2 (evalE_intLit (by omega) (by omega)) (by omega) (hok.pos i hi)

end TV.Cleanup
