import TensoraVerif.Lemmas.CleanupSafe
import TensoraVerif.Model.FloatLaws

/-!
A concrete output tensor `C(i,j,k)` of format `[s,d,s]` with dimensions `(3,2,3)` and final cursors
`(2, 3)` over the exact carrier `F := Int`, for the non-vacuity examples of `Props/C02Cleanup.lean`.
Level 0 has 2 entries, level 1 is dense of dimension 2 — so level 2 has `2 * 2 = 4` parent
positions and its `pos` array `2 * 2 + 1 = 5` cells — and level 2 has 3 entries.
-/
namespace TV.Cleanup.Ex
open TV.IR TV.Gen TV.Graph TV.Growth TV.Cleanup

def tC : TensorId := ⟨"0_C", "C", ["i", "j", "k"], [.compressed, .dense, .compressed]⟩
def dC : Nat → Int := fun l => [3, 2, 3].getD l 0
def nC : Nat → Int := fun l => [2, 0, 3].getD l 0

/-- the state before the cleanup: `C_0_pos` has exactly 2 cells (it was allocated so), the other
arrays have guessed capacities 4, 8, 4 and 8; block 5 is the (input-owned) dimensions array -/
def σC : State Int :=
  ⟨[⟨"C", .ptr .tensor, some (.tensor 0)⟩,
    ⟨"i_dim", .int, some (.int 3)⟩, ⟨"j_dim", .int, some (.int 2)⟩, ⟨"k_dim", .int, some (.int 3)⟩,
    ⟨"p_0_C_0", .int, some (.int 2)⟩, ⟨"p_0_C_2", .int, some (.int 3)⟩,
    ⟨"C_0_pos", .ptr .int, some (.ptr 0 0)⟩, ⟨"C_0_crd", .ptr .int, some (.ptr 1 0)⟩,
    ⟨"C_2_pos", .ptr .int, some (.ptr 2 0)⟩, ⟨"C_2_crd", .ptr .int, some (.ptr 3 0)⟩,
    ⟨"C_vals", .ptr .float, some (.ptr 4 0)⟩],
   [⟨.int, [some (.int 0), some (.int 2)], .output, true⟩,
    ⟨.int, [some (.int 0), some (.int 2), none, none], .output, true⟩,
    ⟨.int, [some (.int 0), some (.int 1), some (.int 1), some (.int 3), some (.int 3), none, none, none],
      .output, true⟩,
    ⟨.int, [some (.int 1), some (.int 0), some (.int 2), none], .output, true⟩,
    ⟨.float, [some (.flt 5), some (.flt 6), some (.flt 7), none, none, none, none, none], .output, true⟩,
    ⟨.int, [some (.int 3), some (.int 2), some (.int 3)], .input, true⟩],
   [⟨3, 5, [some (.null, .null), none, some (.null, .null)], .null, .output⟩]⟩

def trC : TensorRec Int := ⟨3, 5, [some (.null, .null), none, some (.null, .null)], .null, .output⟩

/-- `pos` of level `l` is block `l`, `crd` of level `l` is block `l + 1`, `vals` is block 4 -/
def AC : Arrays Int :=
  ⟨fun l => l, fun l => l + 1, 4,
   fun l => (σC.heap.getD l default).cells, fun l => (σC.heap.getD (l + 1) default).cells,
   (σC.heap.getD 4 default).cells⟩

theorem tC_len : tC.modes.length = 3 := rfl

theorem comp_cases {l : Nat} (h : Comp tC l) : l = 0 ∨ l = 2 := by
  obtain ⟨h1, h2⟩ := h
  rw [tC_len] at h1
  have : l = 0 ∨ l = 1 ∨ l = 2 := by omega
  rcases this with rfl | rfl | rfl
  · exact Or.inl rfl
  · exact absurd h2 (by decide)
  · exact Or.inr rfl

theorem comp0 : Comp tC 0 := ⟨by decide, rfl⟩
theorem comp2 : Comp tC 2 := ⟨by decide, rfl⟩

theorem sizeEnvC : SizeEnv tC dC nC σC := by
  constructor
  · intro l hl hm
    rw [tC_len] at hl
    have : l = 0 ∨ l = 1 ∨ l = 2 := by omega
    rcases this with rfl | rfl | rfl
    · exact absurd hm (by decide)
    · exact ⟨_, rfl, rfl, rfl⟩
    · exact absurd hm (by decide)
  · intro l hl hm
    rcases comp_cases ⟨hl, hm⟩ with rfl | rfl <;> exact ⟨_, rfl, rfl, rfl⟩

theorem sizesOKC : SizesOK tC.modes dC nC := by
  constructor
  · intro l hl hm
    rw [tC_len] at hl
    have : l = 0 ∨ l = 1 ∨ l = 2 := by omega
    rcases this with rfl | rfl | rfl <;> decide
  · intro l hl hm
    rcases comp_cases ⟨hl, hm⟩ with rfl | rfl <;> decide
  · intro k hk
    rw [tC_len] at hk
    have : k = 0 ∨ k = 1 ∨ k = 2 ∨ k = 3 := by omega
    rcases this with rfl | rfl | rfl | rfl <;> decide
  · intro k hk
    rw [tC_len] at hk
    have : k = 0 ∨ k = 1 ∨ k = 2 ∨ k = 3 := by omega
    rcases this with rfl | rfl | rfl | rfl <;> decide

/-- the sizes of the example: `pos` of level 2 gets `2 * 2 + 1 = 5` cells, `vals` gets `3 + 1 = 4` -/
theorem sizesC : parentPositions tC.modes dC nC 2 + 1 = 5 ∧ positions tC.modes dC nC 2 = 3 ∧
    padUpTo tC.modes dC nC 3 = 4 := by decide

theorem cleanPreC : CleanPre tC dC nC AC 0 trC σC where
  env := sizeEnvC
  tvar := ⟨_, rfl, rfl, rfl⟩
  trec := rfl
  owner := rfl
  order := rfl
  slots := by intro l h; rcases comp_cases h with rfl | rfl <;> exact ⟨_, rfl⟩
  posVar := by intro l h; rcases comp_cases h with rfl | rfl <;> exact ⟨_, _, rfl, rfl, rfl⟩
  posBlk := by intro l h; rcases comp_cases h with rfl | rfl <;> rfl
  posLen := by intro l h; rcases comp_cases h with rfl | rfl <;> decide
  posExact := by intro l h; rcases comp_cases h with rfl | rfl <;> decide
  crdVar := by intro l h; rcases comp_cases h with rfl | rfl <;> exact ⟨_, _, rfl, rfl, rfl⟩
  crdBlk := by intro l h; rcases comp_cases h with rfl | rfl <;> rfl
  crdLen := by intro l h; rcases comp_cases h with rfl | rfl <;> decide
  valsVar := ⟨_, _, rfl, rfl, rfl⟩
  valsBlk := rfl
  valsLen := by decide
  valsExact := by decide
  pp := fun _ _ _ _ e => e
  cc := fun _ _ _ _ e => Nat.add_right_cancel e
  pc := by
    intro l l' h h'
    rcases comp_cases h with rfl | rfl <;> rcases comp_cases h' with rfl | rfl <;> decide
  pv := by intro l h; rcases comp_cases h with rfl | rfl <;> decide
  cv := by intro l h; rcases comp_cases h with rfl | rfl <;> decide

end TV.Cleanup.Ex
