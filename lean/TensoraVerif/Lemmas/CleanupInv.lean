import TensoraVerif.Lemmas.CleanupRun

/-!
C02 cleanup, part 5: the precondition `CleanPre`, the loop invariant `Mid` of the fold over the
levels, and its preservation by the statements emitted for one level.
-/
namespace TV.Cleanup
open TV.IR TV.Gen TV.Graph TV.Growth

set_option linter.unusedSectionVars false
variable {F : Type} [FloatOps F]

/-- level `l` exists and is compressed -/
def Comp (t : TensorId) (l : Nat) : Prop := l < t.modes.length ∧ t.modes.getD l .dense = .compressed

/-- ghost description of the output's arrays before the cleanup: the heap blocks of the `pos` and
`crd` arrays of each level and of `vals`, and their contents -/
structure Arrays (F : Type) where
  pb : Nat → Nat
  cb : Nat → Nat
  vb : Nat
  pc : Nat → List (Option (Val F))
  cc : Nat → List (Option (Val F))
  vc : List (Option (Val F))

/-- The state before `appendCleanup`: dimension and cursor variables hold `d`/`n`; the variable
`t.name` holds tensor number `ti`, whose record `tr` is output-owned, has order = number of levels
and a slot pair at every compressed level; for every compressed level the variables `pos`/`crd`
point to live output `int` blocks with contents `pc l`/`cc l`, at least as long as the sizes of K1
(`pos` EXACTLY that long when every level above is dense: it was allocated so and is not
reallocated); likewise `vals` (a `float` block); all these blocks are pairwise distinct. -/
structure CleanPre (t : TensorId) (d n : Nat → Int) (A : Arrays F) (ti : Nat) (tr : TensorRec F)
    (σ : State F) : Prop where
  env : SizeEnv t d n σ
  tvar : TensorVar σ t.name ti
  trec : σ.tensors[ti]? = some tr
  owner : tr.owner = .output
  order : tr.order = t.modes.length
  slots : ∀ l, Comp t l → ∃ s, tr.slots[l]? = some (some s)
  posVar : ∀ l, Comp t l → PtrVar σ (posName t.name l) (A.pb l)
  posBlk : ∀ l, Comp t l → σ.heap[A.pb l]? = some ⟨.int, A.pc l, .output, true⟩
  posLen : ∀ l, Comp t l → posUpTo t.modes d n l + 1 ≤ (A.pc l).length
  posExact : ∀ l, Comp t l → allDenseUpTo t.modes l = true →
    ((A.pc l).length : Int) = posUpTo t.modes d n l + 1
  crdVar : ∀ l, Comp t l → PtrVar σ (crdName t.name l) (A.cb l)
  crdBlk : ∀ l, Comp t l → σ.heap[A.cb l]? = some ⟨.int, A.cc l, .output, true⟩
  crdLen : ∀ l, Comp t l → n l ≤ (A.cc l).length
  valsVar : PtrVar σ (valsName t.name) A.vb
  valsBlk : σ.heap[A.vb]? = some ⟨.float, A.vc, .output, true⟩
  valsLen : padUpTo t.modes d n t.modes.length ≤ A.vc.length
  valsExact : allDenseUpTo t.modes t.modes.length = true →
    (A.vc.length : Int) = padUpTo t.modes d n t.modes.length
  pp : ∀ l l', Comp t l → Comp t l' → A.pb l = A.pb l' → l = l'
  cc : ∀ l l', Comp t l → Comp t l' → A.cb l = A.cb l' → l = l'
  pc : ∀ l l', Comp t l → Comp t l' → A.pb l ≠ A.cb l'
  pv : ∀ l, Comp t l → A.pb l ≠ A.vb
  cv : ∀ l, Comp t l → A.cb l ≠ A.vb

/-- level `j` has been handed over: its slot pair holds the base addresses of two live output `int`
blocks whose contents are the prefixes of the old arrays of exactly the K1 sizes -/
def DoneLevel (t : TensorId) (d n : Nat → Int) (A : Arrays F) (N0 : Nat) (σ : State F)
    (tr' : TensorRec F) (j : Nat) : Prop :=
  ∃ p c, tr'.slots[j]? = some (some (.ptr p 0, .ptr c 0)) ∧ (p = A.pb j ∨ N0 ≤ p) ∧ N0 ≤ c ∧
    σ.heap[p]? = some ⟨.int, (A.pc j).take (posUpTo t.modes d n j + 1).toNat, .output, true⟩ ∧
    σ.heap[c]? = some ⟨.int, (A.cc j).take (n j).toNat, .output, true⟩

/-- The loop invariant after the statements of the levels `< l`, between the initial state `σ0` and
the current state `σ`. -/
structure Mid (t : TensorId) (d n : Nat → Int) (A : Arrays F) (ti : Nat) (tr : TensorRec F)
    (σ0 σ : State F) (l : Nat) : Prop where
  vars : ∀ x, (∀ j, j < l → Comp t j → x ≠ posName t.name j ∧ x ≠ crdName t.name j) →
    lookupVar σ.vars x = lookupVar σ0.vars x
  len : σ0.heap.length ≤ σ.heap.length
  heap : ∀ k blk, σ0.heap[k]? = some blk → σ.heap[k]? = some blk ∨
    (σ.heap[k]? = some { blk with live := false } ∧ ∃ j, j < l ∧ Comp t j ∧ (k = A.pb j ∨ k = A.cb j))
  tlen : σ.tensors.length = σ0.tensors.length
  tother : ∀ j, j ≠ ti → σ.tensors[j]? = σ0.tensors[j]?
  trec : ∃ tr', σ.tensors[ti]? = some tr' ∧ tr'.order = tr.order ∧ tr'.dimsBlk = tr.dimsBlk ∧
    tr'.owner = tr.owner ∧ tr'.vals = tr.vals ∧ tr'.slots.length = tr.slots.length ∧
    (∀ j, (l ≤ j ∨ ¬ Comp t j) → tr'.slots[j]? = tr.slots[j]?) ∧
    (∀ j, j < l → Comp t j → DoneLevel t d n A σ0.heap.length σ tr' j)

theorem SizeEnv.congr {t : TensorId} {d n : Nat → Int} {σ σ' : State F} (h : SizeEnv t d n σ)
    (e : ∀ x, ¬ IsArrName t x → lookupVar σ'.vars x = lookupVar σ.vars x) : SizeEnv t d n σ' :=
  ⟨fun l hl hm => (h.dims l hl hm).congr (e _ (dimName_not_arr t _)),
   fun l hl hm => (h.curs l hl hm).congr (e _ (layerPointer_not_arr t _ _))⟩

section
variable {t : TensorId} {d n : Nat → Int} {A : Arrays F} {ti : Nat} {tr : TensorRec F} {σ0 σ : State F}

theorem Mid.init (hpre : CleanPre t d n A ti tr σ0) : Mid t d n A ti tr σ0 σ0 0 where
  vars := fun _ _ => rfl
  len := Nat.le_refl _
  heap := fun _ _ e => Or.inl e
  tlen := rfl
  tother := fun _ _ => rfl
  trec := ⟨tr, hpre.trec, rfl, rfl, rfl, rfl, rfl, fun _ _ => rfl, fun _ hj => absurd hj (Nat.not_lt_zero _)⟩

/-- variables that are not array names are untouched -/
theorem Mid.vars_na {l : Nat} (h : Mid t d n A ti tr σ0 σ l) (x : String) (hx : ¬ IsArrName t x) :
    lookupVar σ.vars x = lookupVar σ0.vars x :=
  h.vars x (fun j _ _ => ⟨fun e => hx (Or.inl ⟨j, e⟩), fun e => hx (Or.inr (Or.inl ⟨j, e⟩))⟩)

/-- a dense level emits nothing -/
theorem Mid.step_dense {l : Nat} (h : Mid t d n A ti tr σ0 σ l) (hm : ¬ Comp t l) :
    Mid t d n A ti tr σ0 σ (l + 1) where
  vars := fun x hx => h.vars x (fun j hj hc => hx j (by omega) hc)
  len := h.len
  heap := by
    intro k blk e
    rcases h.heap k blk e with h1 | ⟨h1, j, hj, hc, h2⟩
    · exact Or.inl h1
    · exact Or.inr ⟨h1, j, by omega, hc, h2⟩
  tlen := h.tlen
  tother := h.tother
  trec := by
    obtain ⟨tr', h1, h2, h3, h4, h5, h6, h7, h8⟩ := h.trec
    refine ⟨tr', h1, h2, h3, h4, h5, h6, ?_, ?_⟩
    · intro j hj
      rcases hj with hj | hj
      · exact h7 j (Or.inl (by omega))
      · exact h7 j (Or.inr hj)
    · intro j hj hc
      have : j ≠ l := by rintro rfl; exact hm hc
      exact h8 j (by omega) hc

end

end TV.Cleanup
