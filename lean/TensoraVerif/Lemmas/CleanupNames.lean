import Std.Data.String.ToNat
import TensoraVerif.Lemmas.CleanupBasic
import TensoraVerif.Lemmas.GrowthNames

/-!
C02 cleanup, part 3: the variable names `appendCleanup` uses are distinct, for ALL tensors — by
string reasoning on the naming scheme of `TV.Gen`: array names end in `"_pos"`, `"_crd"`, `"_vals"`;
`pos`/`crd` names of different levels differ because the decimal representation of naturals is
injective; dimension variables end in `'m'`, cursors in a digit, and the tensor variable is strictly
shorter than every array name.
-/
namespace TV.Cleanup
open TV.IR TV.Gen TV.Graph TV.Growth

theorem toString_nat_inj {i j : Nat} (h : toString i = toString j) : i = j :=
  Nat.repr_injective h

theorem posName_inj {t : String} {i j : Nat} (h : posName t i = posName t j) : i = j := by
  simp only [posName, String.append_left_inj, String.append_right_inj] at h
  exact toString_nat_inj h

theorem crdName_inj {t : String} {i j : Nat} (h : crdName t i = crdName t j) : i = j := by
  simp only [crdName, String.append_left_inj, String.append_right_inj] at h
  exact toString_nat_inj h

theorem posName_getLast? (t : String) (i : Nat) : (posName t i).toList.getLast? = some 's' := by
  simp only [posName, String.toList_append, List.getLast?_append]; rfl

theorem crdName_getLast? (t : String) (i : Nat) : (crdName t i).toList.getLast? = some 'd' := by
  simp only [crdName, String.toList_append, List.getLast?_append]; rfl

theorem valsName_getLast? (t : String) : (valsName t).toList.getLast? = some 's' := by
  simp only [valsName, String.toList_append, List.getLast?_append]; rfl

theorem dimName_getLast? (x : String) : (dimName x).toList.getLast? = some 'm' := by
  simp only [dimName, String.toList_append, List.getLast?_append]; rfl

theorem posName_ne_crdName (t : String) (i j : Nat) : posName t i ≠ crdName t j := by
  apply ne_of_getLast?_ne
  rw [posName_getLast?, crdName_getLast?]; decide

theorem crdName_ne_valsName (t : String) (i : Nat) : crdName t i ≠ valsName t := by
  apply ne_of_getLast?_ne
  rw [crdName_getLast?, valsName_getLast?]; decide

theorem toString_nat_length_pos (i : Nat) : 1 ≤ (toString i).length := by
  obtain ⟨ch, h, _⟩ := getLast?_toString_nat i
  rw [← String.length_toList]
  cases hl : (toString i).toList with
  | nil => rw [hl] at h; cases h
  | cons _ _ => simp

theorem posName_ne_valsName (t : String) (i : Nat) : posName t i ≠ valsName t := by
  apply ne_of_length_ne
  simp only [posName, valsName, String.length_append]
  have h1 : "_pos".length = 4 := by decide
  have h2 : "_vals".length = 5 := by decide
  have h3 : "_".length = 1 := by decide
  have := toString_nat_length_pos i
  omega

theorem dimName_ne_posName (x t : String) (i : Nat) : dimName x ≠ posName t i := by
  apply ne_of_getLast?_ne
  rw [posName_getLast?, dimName_getLast?]; decide

theorem dimName_ne_crdName (x t : String) (i : Nat) : dimName x ≠ crdName t i := by
  apply ne_of_getLast?_ne
  rw [crdName_getLast?, dimName_getLast?]; decide

theorem dimName_ne_valsName (x t : String) : dimName x ≠ valsName t := by
  apply ne_of_getLast?_ne
  rw [valsName_getLast?, dimName_getLast?]; decide

theorem layerPointer_ne_posName (ref t : String) (l k : Nat) : layerPointer ref l ≠ posName t k := by
  obtain ⟨ch, h, hd⟩ := layerPointer_getLast? ref l
  apply ne_of_getLast?_ne
  rw [h, posName_getLast?]
  intro e; cases e; revert hd; decide

theorem layerPointer_ne_valsName (ref t : String) (l : Nat) : layerPointer ref l ≠ valsName t := by
  obtain ⟨ch, h, hd⟩ := layerPointer_getLast? ref l
  apply ne_of_getLast?_ne
  rw [h, valsName_getLast?]
  intro e; cases e; revert hd; decide

theorem name_ne_posName (t : String) (i : Nat) : t ≠ posName t i := by
  apply ne_of_length_ne
  simp only [posName, String.length_append]
  have h1 : "_pos".length = 4 := by decide
  omega

theorem name_ne_crdName (t : String) (i : Nat) : t ≠ crdName t i := by
  apply ne_of_length_ne
  simp only [crdName, String.length_append]
  have h1 : "_crd".length = 4 := by decide
  omega

theorem name_ne_valsName (t : String) : t ≠ valsName t := by
  apply ne_of_length_ne
  simp only [valsName, String.length_append]
  have h1 : "_vals".length = 5 := by decide
  omega

/-- the array variables `appendCleanup` assigns -/
def IsArrName (t : TensorId) (x : String) : Prop :=
  (∃ i, x = posName t.name i) ∨ (∃ i, x = crdName t.name i) ∨ x = valsName t.name

theorem dimName_not_arr (t : TensorId) (x : String) : ¬ IsArrName t (dimName x) := by
  rintro (⟨i, h⟩ | ⟨i, h⟩ | h)
  · exact dimName_ne_posName _ _ _ h
  · exact dimName_ne_crdName _ _ _ h
  · exact dimName_ne_valsName _ _ h

theorem layerPointer_not_arr (t : TensorId) (ref : String) (l : Nat) : ¬ IsArrName t (layerPointer ref l) := by
  rintro (⟨i, h⟩ | ⟨i, h⟩ | h)
  · exact layerPointer_ne_posName _ _ _ _ h
  · exact layerPointer_ne_crdName _ _ _ _ h
  · exact layerPointer_ne_valsName _ _ _ h

theorem name_not_arr (t : TensorId) : ¬ IsArrName t t.name := by
  rintro (⟨i, h⟩ | ⟨i, h⟩ | h)
  · exact name_ne_posName _ _ h
  · exact name_ne_crdName _ _ h
  · exact name_ne_valsName _ h

end TV.Cleanup
