import TensoraVerif.Lemmas.CleanupSizes
import TensoraVerif.Lemmas.CleanupNames

/-!
C02 cleanup, part 4: the primitive statements of `appendCleanup` on the machine —
`arr = realloc(arr, e)`, `t->indices[l][j] = arr`, `t->vals = arr` — with the explicit states they
produce, and the relation `Shrunk` summarising what a (possibly omitted) shrinking realloc does.
-/
namespace TV.Cleanup
open TV.IR TV.Gen TV.Graph TV.Growth

set_option linter.unusedSectionVars false
variable {F : Type} [FloatOps F]

theorem RunsL.append {fuel : Nat} {xs ys : List (Stmt F)} {σ σ1 σ2 : State F}
    (h1 : RunsL fuel xs σ σ1) (h2 : RunsL fuel ys σ1 σ2) : RunsL fuel (xs ++ ys) σ σ2 := by
  induction xs generalizing σ with
  | nil =>
    obtain ⟨o, e, _, s⟩ := h1
    rw [execL.eq_1] at e; cases e
    cases s; exact h2
  | cons x xs ih =>
    obtain ⟨o, e, r, s⟩ := h1
    rw [execL.eq_2] at e
    cases hx : exec fuel x σ with
    | error err => rw [hx] at e; cases e
    | ok o1 =>
      rw [hx] at e
      simp only [bind, Except.bind] at e
      cases hr : o1.ret with
      | some v =>
        rw [hr] at e; simp only at e; cases e
        rw [hr] at r; cases r
      | none =>
        rw [hr] at e; simp only at e
        cases hxs : execL fuel xs o1.st with
        | error err => rw [hxs] at e; cases e
        | ok o2 =>
          rw [hxs] at e; simp only at e; cases e
          exact RunsL.cons ⟨o1, hx, hr, rfl⟩ (ih ⟨o2, hxs, r, s⟩)

/-- the variable `x` is declared `taco_tensor_t*` and holds tensor number `ti` -/
def TensorVar (σ : State F) (x : String) (ti : Nat) : Prop :=
  ∃ r, lookupVar σ.vars x = some r ∧ r.ty = .ptr .tensor ∧ r.val = some (.tensor ti)

theorem TensorVar.congr {σ σ' : State F} {x : String} {ti : Nat} (h : TensorVar σ x ti)
    (e : lookupVar σ'.vars x = lookupVar σ.vars x) : TensorVar σ' x ti := by
  obtain ⟨r, h1, h2, h3⟩ := h; exact ⟨r, e.trans h1, h2, h3⟩

theorem evalE_var_tensor {σ : State F} {x : String} {ti : Nat} (h : TensorVar σ x ti) :
    evalE σ (.var x) = .ok (.tensor ti) := by
  obtain ⟨r, e1, e2, e3⟩ := h
  simp [evalE, e1, e2, e3, hasTy, chkVal]

/-! ### realloc with an arbitrary size expression -/

/-- the state after `arr = realloc(arr, sizeof(ety) * k)` when `arr` pointed to block `b` (whose
contents were `blk`) -/
def reallocState (σ : State F) (arr : String) (b : Nat) (blk : Block F) (ety : ElemTy) (k : Int) : State F :=
  { vars := setVar σ.vars arr (.ptr σ.heap.length 0),
    heap := σ.heap.set b { blk with live := false } ++
      [⟨ety, blk.cells.take k.toNat ++ List.replicate (k.toNat - blk.cells.length) none, .output, true⟩],
    tensors := σ.tensors }

theorem runs_realloc {fuel : Nat} {σ : State F} {arr : String} {ty : Ty} {ety : ElemTy} {b : Nat}
    {k : Int} {blk : Block F} {e : Expr F} (ha : PtrVar σ arr b) (he : evalE σ e = .ok (.int k))
    (h0 : 0 ≤ k) (hty : elemOf ty = .ok ety) (hb : σ.heap[b]? = some blk)
    (hlive : blk.live = true) (hown : blk.owner = .output) (hbt : blk.ty = ety) :
    Runs fuel (.assign (.var arr) (.realloc (.var arr) ty e)) σ (reallocState σ arr b blk ety k) := by
  have ea := evalE_var_ptr ha
  obtain ⟨ra, ta, ea1, ea2, _⟩ := ha
  refine ⟨⟨_, none, 0, 1⟩, ?_, rfl, rfl⟩
  rw [exec.eq_3]
  have hneg : ¬ k < 0 := by omega
  simp [evalRhs, ea, he, bind, Except.bind, doRealloc, hty, hneg, hb, hlive, hown, hbt, evalLoc, store,
    ea1, ea2, convTo]

/-- What a shrinking realloc of the array `arr` (block `b`) — or its omission, when the array
already has its exact size — guarantees between the state `σ` before and `σ'` after: `arr` points
to the live output block `p` with element type `ety` and cells `cells'`; `p` is `b` itself or a
fresh block; every other variable, every other block of the old heap and the tensor records are
unchanged; the old block is unchanged or has been killed. -/
structure Shrunk (σ σ' : State F) (arr : String) (b p : Nat) (ety : ElemTy)
    (cells' : List (Option (Val F))) : Prop where
  ptr : PtrVar σ' arr p
  blk : σ'.heap[p]? = some ⟨ety, cells', .output, true⟩
  fresh : p = b ∨ σ.heap.length ≤ p
  vars : ∀ x, x ≠ arr → lookupVar σ'.vars x = lookupVar σ.vars x
  len : σ.heap.length ≤ σ'.heap.length
  heap : ∀ k blk, k ≠ b → σ.heap[k]? = some blk → σ'.heap[k]? = some blk
  old : ∀ blk, σ.heap[b]? = some blk →
    σ'.heap[b]? = some blk ∨ σ'.heap[b]? = some { blk with live := false }
  tensors : σ'.tensors = σ.tensors

theorem Shrunk.refl {σ : State F} {arr : String} {b : Nat} {ety : ElemTy} {cells : List (Option (Val F))}
    (ha : PtrVar σ arr b) (hb : σ.heap[b]? = some ⟨ety, cells, .output, true⟩) :
    Shrunk σ σ arr b b ety cells :=
  ⟨ha, hb, Or.inl rfl, fun _ _ => rfl, Nat.le_refl _, fun _ _ _ e => e, fun _ e => Or.inl e, rfl⟩

theorem Shrunk.realloc {σ : State F} {arr : String} {b : Nat} {ety : ElemTy} {cells : List (Option (Val F))}
    {k : Int} (ha : PtrVar σ arr b) (hb : σ.heap[b]? = some ⟨ety, cells, .output, true⟩)
    (hk : k.toNat ≤ cells.length) :
    Shrunk σ (reallocState σ arr b ⟨ety, cells, .output, true⟩ ety k) arr b σ.heap.length ety
      (cells.take k.toNat) := by
  have hbl := lt_length_of_getElem? hb
  obtain ⟨ra, ta, ea1, ea2, ea3⟩ := ha
  refine ⟨⟨_, ta, lookupVar_setVar_same _ ea1, ea2, rfl⟩, ?_, Or.inr (Nat.le_refl _), ?_, ?_, ?_, ?_, rfl⟩
  · have : k.toNat - cells.length = 0 := by omega
    simp [reallocState, this]
  · intro x hx
    exact lookupVar_setVar_other _ hx
  · simp [reallocState]
  · intro j blk hj e
    have hjl := lt_length_of_getElem? e
    show (σ.heap.set b _ ++ _)[j]? = _
    rw [List.getElem?_append_left (by simpa using hjl), List.getElem?_set_ne (Ne.symm hj)]
    exact e
  · intro blk e
    rw [hb] at e; cases e
    refine Or.inr ?_
    show (σ.heap.set b _ ++ _)[b]? = _
    rw [List.getElem?_append_left (by simpa using hbl), List.getElem?_set_self hbl]

/-! ### handing the arrays over to the tensor record -/

/-- the state after `t->indices[l][j] = v` -/
def slotState (σ : State F) (ti : Nat) (tr : TensorRec F) (l : Nat) (s : Val F × Val F) : State F :=
  { σ with tensors := σ.tensors.set ti { tr with slots := tr.slots.set l (some s) } }

theorem indices_ne_dimensions : (("indices" : String) == "dimensions") = false := by decide
theorem indices_eq_indices : (("indices" : String) == "indices") = true := by decide

theorem evalE_attr_indices {σ : State F} {x : String} {ti : Nat} {tr : TensorRec F}
    (ht : TensorVar σ x ti) (htr : σ.tensors[ti]? = some tr) :
    evalE σ (.attr (.var x) "indices") = .ok (.indices ti) := by
  rw [evalE.eq_2, evalE_var_tensor ht]
  simp only [bind, Except.bind, htr, indices_ne_dimensions, indices_eq_indices, Bool.false_eq_true,
    if_false, if_true]

theorem evalE_idx_level {σ : State F} {ti : Nat} {tr : TensorRec F} {l : Nat} {e1 e2 : Expr F}
    (htr : σ.tensors[ti]? = some tr) (hl : l < tr.order)
    (h1 : evalE σ e1 = .ok (.indices ti)) (h2 : evalE σ e2 = .ok (.int l)) :
    evalE σ (.idx e1 e2) = .ok (.level ti l) := by
  have hl' : (l : Int) < (tr.order : Int) := by omega
  rw [evalE.eq_3]
  simp [h1, h2, bind, Except.bind, htr, hl']

theorem evalE_level {σ : State F} {x : String} {ti : Nat} {tr : TensorRec F} {l : Nat}
    (ht : TensorVar σ x ti) (htr : σ.tensors[ti]? = some tr) (hl : l < tr.order)
    (hl32 : (l : Int) < 2147483648) :
    evalE σ (.idx (.attr (.var x) "indices") (.intLit l)) = .ok (.level ti l) :=
  evalE_idx_level htr hl (evalE_attr_indices ht htr) (evalE_intLit (by omega) hl32)

theorem runs_slot {fuel : Nat} {σ : State F} {x arr : String} {ti : Nat} {tr : TensorRec F} {l : Nat}
    {p : Nat} {s : Val F × Val F} {j : Int} (hj : j = 0 ∨ j = 1)
    (ht : TensorVar σ x ti) (htr : σ.tensors[ti]? = some tr) (hown : tr.owner = .output)
    (hl : l < tr.order) (hl32 : (l : Int) < 2147483648) (hs : tr.slots[l]? = some (some s))
    (ha : PtrVar σ arr p) :
    Runs fuel (.assign (.idx (.idx (.attr (.var x) "indices") (.intLit l)) (.intLit j)) (.var arr)) σ
      (slotState σ ti tr l (if j = 0 then (.ptr p 0, s.2) else (s.1, .ptr p 0))) := by
  have ea := evalE_var_ptr ha
  have elv := evalE_level ht htr hl hl32
  have ej : evalE σ (.intLit j) = .ok (.int j) := evalE_intLit (by omega) (by omega)
  refine ⟨⟨_, none, 0, 1⟩, ?_, rfl, rfl⟩
  rw [exec.eq_3, evalRhs_of_ok ea]
  obtain ⟨s1, s2⟩ := s
  rcases hj with rfl | rfl <;>
    simp [bind, Except.bind, evalLoc, elv, ej, store, htr, hown, isPtrVal, hs] <;> rfl

/-- the state after `t->vals = v` -/
def valsState (σ : State F) (ti : Nat) (tr : TensorRec F) (v : Val F) : State F :=
  { σ with tensors := σ.tensors.set ti { tr with vals := v } }

theorem runs_vals {fuel : Nat} {σ : State F} {x arr : String} {ti : Nat} {tr : TensorRec F} {p : Nat}
    (ht : TensorVar σ x ti) (htr : σ.tensors[ti]? = some tr) (hown : tr.owner = .output)
    (ha : PtrVar σ arr p) :
    Runs fuel (.assign (.attr (.var x) "vals") (.var arr)) σ (valsState σ ti tr (.ptr p 0)) := by
  have ea := evalE_var_ptr ha
  have e1 := evalE_var_tensor ht
  refine ⟨⟨_, none, 0, 1⟩, ?_, rfl, rfl⟩
  rw [exec.eq_3, evalRhs_of_ok ea]
  simp [bind, Except.bind, evalLoc, e1, store, htr, hown, isPtrVal]

end TV.Cleanup
