import TensoraVerif.Lemmas.CleanupStep

/-!
C02 cleanup, part 7: the fold over all levels, the `vals` phase, and the postcondition `CleanPost`
of the whole of `appendCleanup`.
-/
namespace TV.Cleanup
open TV.IR TV.Gen TV.Graph TV.Growth

set_option linter.unusedSectionVars false
variable {F : Type} [FloatOps F]

variable {t : TensorId} {d n : Nat → Int} {A : Arrays F} {ti : Nat} {tr : TensorRec F} {σ0 σ : State F}

theorem levelStmts_dense {l : Nat} (hl : l < t.modes.length) (hc : ¬ Comp t l)
    (a : Bool × Expr F × Expr F) : levelStmts t a l = [] := by
  unfold levelStmts
  cases hm : t.modes.getD l .dense
  · rfl
  · exact absurd ⟨hl, hm⟩ hc

/-- the statements of the levels `< l` run without error and establish the invariant -/
theorem Mid.all (fuel : Nat) (hpre : CleanPre t d n A ti tr σ0) (hok : SizesOK t.modes d n)
    (h32 : (t.modes.length : Int) ≤ 2147483648) (l : Nat) (hl : l ≤ t.modes.length) :
    ∃ σ, RunsL fuel (cleanLines t l) σ0 σ ∧ Mid t d n A ti tr σ0 σ l := by
  induction l with
  | zero => exact ⟨σ0, RunsL.nil _ _, Mid.init hpre⟩
  | succ l ih =>
    obtain ⟨σ, hr, hm⟩ := ih (by omega)
    rw [cleanLines_succ]
    by_cases hc : Comp t l
    · obtain ⟨σ', hr', hm'⟩ := hm.step_comp fuel hpre hok h32 hc
      exact ⟨σ', RunsL.append hr hr', hm'⟩
    · rw [levelStmts_dense (by omega) hc, List.append_nil]
      exact ⟨σ, hr, hm.step_dense hc⟩

/-- The state after `appendCleanup`, relative to the state `σ0` before it.
* `vars`: every variable that is not one of the array variables `pos`/`crd`/`vals` is unchanged;
* `heap`/`len`: the heap only grows; every old block is unchanged, except that the old `pos`/`crd`
  blocks of compressed levels and the old `vals` block may have been killed by `realloc` (same
  contents, `live = false`) — in particular no input block changes;
* `tlen`/`tother`: every other tensor record is unchanged;
* `trec`: the output record keeps its order, dimensions block, owner and number of slots; the slots
  of the dense levels are unchanged; at every compressed level `j` the slot pair holds the base
  addresses of two live output `int` blocks whose cells are the first `posUpTo j + 1`
  (`= positions (j-1) + 1`) cells of the old `pos` array and the first `n j` cells of the old `crd`
  array; `vals` holds the base address of a live output `float` block whose cells are the first
  `padUpTo n` cells of the old `vals` array. -/
structure CleanPost (t : TensorId) (d n : Nat → Int) (A : Arrays F) (ti : Nat) (tr : TensorRec F)
    (σ0 σ' : State F) : Prop where
  vars : ∀ x, ¬ IsArrName t x → lookupVar σ'.vars x = lookupVar σ0.vars x
  len : σ0.heap.length ≤ σ'.heap.length
  heap : ∀ k blk, σ0.heap[k]? = some blk → σ'.heap[k]? = some blk ∨
    (σ'.heap[k]? = some { blk with live := false } ∧
      ((∃ j, Comp t j ∧ (k = A.pb j ∨ k = A.cb j)) ∨ k = A.vb))
  tlen : σ'.tensors.length = σ0.tensors.length
  tother : ∀ j, j ≠ ti → σ'.tensors[j]? = σ0.tensors[j]?
  trec : ∃ tr', σ'.tensors[ti]? = some tr' ∧ tr'.order = tr.order ∧ tr'.dimsBlk = tr.dimsBlk ∧
    tr'.owner = tr.owner ∧ tr'.slots.length = tr.slots.length ∧
    (∀ j, ¬ Comp t j → tr'.slots[j]? = tr.slots[j]?) ∧
    (∀ j, Comp t j → ∃ p c, tr'.slots[j]? = some (some (.ptr p 0, .ptr c 0)) ∧
      σ'.heap[p]? = some ⟨.int, (A.pc j).take (posUpTo t.modes d n j + 1).toNat, .output, true⟩ ∧
      σ'.heap[c]? = some ⟨.int, (A.cc j).take (n j).toNat, .output, true⟩) ∧
    (∃ v, tr'.vals = .ptr v 0 ∧
      σ'.heap[v]? = some ⟨.float, A.vc.take (padUpTo t.modes d n t.modes.length).toNat, .output, true⟩)

/-- the `vals` phase: from the invariant after all levels to the postcondition -/
theorem Mid.finish (fuel : Nat) (hpre : CleanPre t d n A ti tr σ0) (hok : SizesOK t.modes d n)
    (h : Mid t d n A ti tr σ0 σ t.modes.length) :
    ∃ σ', RunsL fuel (valsStmts t (cleanAcc t t.modes.length)) σ σ' ∧ CleanPost t d n A ti tr σ0 σ' := by
  have henv : SizeEnv t d n σ := hpre.env.congr h.vars_na
  obtain ⟨hflag, _, hpad⟩ := cleanAcc_eval t d n σ henv hok t.modes.length (Nat.le_refl _)
  obtain ⟨hvv, hvb⟩ := h.todo_vals hpre
  have hq0 := padUpTo_nonneg hok (Nat.le_refl t.modes.length)
  have hphase : ∃ σ1 v, RunsL fuel
        (if !(cleanAcc (F := F) t t.modes.length).1 then
          [valsRealloc t (cleanAcc t t.modes.length).2.2] else []) σ σ1 ∧
      Shrunk σ σ1 (valsName t.name) A.vb v .float
        (A.vc.take (padUpTo t.modes d n t.modes.length).toNat) := by
    rw [hflag]
    cases had : allDenseUpTo t.modes t.modes.length
    · have hlen := hpre.valsLen
      exact ⟨_, _, RunsL.cons (runs_realloc hvv hpad hq0 rfl hvb rfl rfl rfl) (RunsL.nil _ _),
        Shrunk.realloc hvv hvb (by omega)⟩
    · have hex := hpre.valsExact had
      refine ⟨σ, A.vb, RunsL.nil _ _, ?_⟩
      rw [List.take_of_length_le (by omega)]
      exact Shrunk.refl hvv hvb
  obtain ⟨σ1, v, hrun1, sh1⟩ := hphase
  obtain ⟨tr', htr', hord, hdb, hown, hvals, hslen, hsl, hdone⟩ := h.trec
  have htv1 : TensorVar σ1 t.name ti :=
    (hpre.tvar.congr (h.vars_na _ (name_not_arr t))).congr (sh1.vars _ (name_ne_valsName _))
  have htr1 : σ1.tensors[ti]? = some tr' := by rw [sh1.tensors]; exact htr'
  have htl := lt_length_of_getElem? htr1
  have hrun2 := runs_vals (fuel := fuel) htv1 htr1 (hown.trans hpre.owner) sh1.ptr
  have hrunAll := RunsL.append hrun1 (RunsL.cons hrun2 (RunsL.nil _ _))
  refine ⟨_, hrunAll, ?_, ?_, ?_, ?_, ?_, ?_⟩
  · intro x hx
    show lookupVar σ1.vars x = _
    rw [sh1.vars x (fun e => hx (Or.inr (Or.inr e)))]
    exact h.vars_na x hx
  · exact Nat.le_trans h.len sh1.len
  · intro k blk e
    show σ1.heap[k]? = _ ∨ (σ1.heap[k]? = _ ∧ _)
    rcases h.heap k blk e with h1 | ⟨h1, j, _, hcj, h2⟩
    · by_cases hkv : k = A.vb
      · subst hkv
        rcases sh1.old blk h1 with h3 | h3
        · exact Or.inl h3
        · exact Or.inr ⟨h3, Or.inr rfl⟩
      · exact Or.inl (sh1.heap k blk hkv h1)
    · have hkv : k ≠ A.vb := by
        rcases h2 with rfl | rfl
        · exact hpre.pv j hcj
        · exact hpre.cv j hcj
      exact Or.inr ⟨sh1.heap _ _ hkv h1, Or.inl ⟨j, hcj, h2⟩⟩
  · show (σ1.tensors.set ti _).length = _
    rw [List.length_set, sh1.tensors]; exact h.tlen
  · intro j hj
    show (σ1.tensors.set ti _)[j]? = _
    rw [List.getElem?_set_ne (Ne.symm hj), sh1.tensors]
    exact h.tother j hj
  · refine ⟨{ tr' with vals := .ptr v 0 }, ?_, hord, hdb, hown, hslen, ?_, ?_, ?_⟩
    · show (σ1.tensors.set ti _)[ti]? = _
      rw [List.getElem?_set_self htl]
    · intro j hj; exact hsl j (Or.inr hj)
    · intro j hcj
      obtain ⟨pj, cj, e1, e2, e3, e4, e5⟩ := hdone j hcj.1 hcj
      have hv := lt_length_of_getElem? hpre.valsBlk
      have hne1 : pj ≠ A.vb := by
        rcases e2 with rfl | e2
        · exact hpre.pv j hcj
        · omega
      exact ⟨pj, cj, e1, sh1.heap _ _ hne1 e4, sh1.heap _ _ (by omega) e5⟩
    · exact ⟨v, rfl, sh1.blk⟩

/-- **K2 (core).** In an assembling kernel, from every state satisfying `CleanPre`,
`appendCleanup` runs without error and without returning, for every fuel, and ends in a state
satisfying `CleanPost`. -/
theorem appendCleanup_runs (fuel : Nat) (k : Kind) (hk : k.isAssemble = true)
    (hpre : CleanPre t d n A ti tr σ0) (hok : SizesOK t.modes d n)
    (h32 : (t.modes.length : Int) ≤ 2147483648) :
    ∃ o, exec fuel (appendCleanup (F := F) t k).finalize σ0 = .ok o ∧ o.ret = none ∧
      CleanPost t d n A ti tr σ0 o.st := by
  obtain ⟨σ, hr, hm⟩ := Mid.all fuel hpre hok h32 t.modes.length (Nat.le_refl _)
  obtain ⟨σ', hr', hpost⟩ := hm.finish fuel hpre hok
  have hrun := Runs.block (c := (appendCleanup (F := F) t k).comment) (RunsL.append hr hr')
  rw [← appendCleanup_lines t k hk] at hrun
  obtain ⟨o, e, r, s⟩ := hrun
  exact ⟨o, e, r, by rw [s]; exact hpost⟩

end TV.Cleanup
