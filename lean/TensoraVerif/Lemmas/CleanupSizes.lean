import TensoraVerif.Lemmas.CleanupBasic

/-!
C02 cleanup, part 2 (K1): the intended sizes as plain functions on numbers, and the evaluation of
the size expressions `appendCleanup` builds.
-/
namespace TV.Cleanup
open TV.IR TV.Gen TV.Graph TV.Growth

set_option linter.unusedSectionVars false
variable {F : Type} [FloatOps F]

/-! ### sizes as numbers -/

/-- `posUpTo ms d n k` = number of positions of level `k - 1`, i.e. after the first `k` levels
(`1` for `k = 0`): a dense level multiplies by its dimension `d l`, a compressed level replaces it
by the number `n l` of entries appended at that level. -/
def posUpTo (ms : List Mode) (d n : Nat → Int) : Nat → Int
  | 0 => 1
  | k + 1 =>
    match ms.getD k .dense with
    | .dense => posUpTo ms d n k * d k
    | .compressed => n k

/-- number of positions of level `l` -/
def positions (ms : List Mode) (d n : Nat → Int) (l : Nat) : Int := posUpTo ms d n (l + 1)

/-- number of positions of the parent of level `l` (`positions (l-1)`, with `positions (-1) = 1`) -/
def parentPositions (ms : List Mode) (d n : Nat → Int) (l : Nat) : Int := posUpTo ms d n l

/-- the value of the `padded` component of the fold after the first `k` levels: the same recurrence
as `posUpTo`, except that a compressed level contributes `n l + 1` -/
def padUpTo (ms : List Mode) (d n : Nat → Int) : Nat → Int
  | 0 => 1
  | k + 1 =>
    match ms.getD k .dense with
    | .dense => padUpTo ms d n k * d k
    | .compressed => n k + 1

/-- the scratch space: `0` while all levels are dense, otherwise the product of the dimensions of the
dense levels after the last compressed one among the first `k` levels -/
def scratch (ms : List Mode) (d : Nat → Int) : Nat → Int
  | 0 => 0
  | k + 1 =>
    match ms.getD k .dense with
    | .dense => scratch ms d k * d k
    | .compressed => 1

/-- all of the first `k` levels are dense -/
def allDenseUpTo (ms : List Mode) : Nat → Bool
  | 0 => true
  | k + 1 =>
    match ms.getD k .dense with
    | .dense => allDenseUpTo ms k
    | .compressed => false

section eqns
variable {ms : List Mode} {d n : Nat → Int} {k : Nat}
theorem posUpTo_dense (h : ms.getD k .dense = .dense) :
    posUpTo ms d n (k + 1) = posUpTo ms d n k * d k := by rw [posUpTo, h]
theorem posUpTo_comp (h : ms.getD k .dense = .compressed) : posUpTo ms d n (k + 1) = n k := by
  rw [posUpTo, h]
theorem padUpTo_dense (h : ms.getD k .dense = .dense) :
    padUpTo ms d n (k + 1) = padUpTo ms d n k * d k := by rw [padUpTo, h]
theorem padUpTo_comp (h : ms.getD k .dense = .compressed) : padUpTo ms d n (k + 1) = n k + 1 := by
  rw [padUpTo, h]
theorem scratch_dense (h : ms.getD k .dense = .dense) : scratch ms d (k + 1) = scratch ms d k * d k := by
  rw [scratch, h]
theorem scratch_comp (h : ms.getD k .dense = .compressed) : scratch ms d (k + 1) = 1 := by
  rw [scratch, h]
theorem allDenseUpTo_dense (h : ms.getD k .dense = .dense) :
    allDenseUpTo ms (k + 1) = allDenseUpTo ms k := by rw [allDenseUpTo, h]
theorem allDenseUpTo_comp (h : ms.getD k .dense = .compressed) : allDenseUpTo ms (k + 1) = false := by
  rw [allDenseUpTo, h]
end eqns

/-- `padded = positions + scratch`: the `vals` array is shrunk to the number of stored positions
PLUS one extra run of the trailing dense levels. -/
theorem padUpTo_eq (ms : List Mode) (d n : Nat → Int) (k : Nat) :
    padUpTo ms d n k = posUpTo ms d n k + (if allDenseUpTo ms k then 0 else scratch ms d k) := by
  induction k with
  | zero => simp [padUpTo, posUpTo, allDenseUpTo]
  | succ k ih =>
    unfold padUpTo posUpTo allDenseUpTo scratch
    cases ms.getD k .dense
    · simp only [ih]
      split
      · simp
      · rw [Int.add_mul]
    · simp

theorem allDenseUpTo_iff (ms : List Mode) (k : Nat) :
    allDenseUpTo ms k = true ↔ ∀ j, j < k → ms.getD j .dense = .dense := by
  induction k with
  | zero => simp [allDenseUpTo]
  | succ k ih =>
    unfold allDenseUpTo
    cases h : ms.getD k .dense
    · simp only [ih]
      constructor
      · intro hh j hj
        rcases Nat.lt_succ_iff_lt_or_eq.mp hj with hj | rfl
        · exact hh j hj
        · exact h
      · intro hh j hj; exact hh j (by omega)
    · simp only [Bool.false_eq_true, false_iff]
      intro hh
      have := hh k (by omega)
      rw [h] at this; cases this

theorem allDenseUpTo_mono (ms : List Mode) {j k : Nat} (hjk : j ≤ k) (h : allDenseUpTo ms k = true) :
    allDenseUpTo ms j = true := by
  rw [allDenseUpTo_iff] at h ⊢
  intro i hi; exact h i (by omega)

/-- while every level is dense the number of positions is the product of the dimensions -/
theorem posUpTo_allDense (ms : List Mode) (d n : Nat → Int) (k : Nat) (h : allDenseUpTo ms k = true) :
    posUpTo ms d n k = prodFrom 1 ((List.range k).map d) := by
  induction k with
  | zero => rfl
  | succ k ih =>
    have hk := (allDenseUpTo_iff ms (k + 1)).mp h k (by omega)
    have h' := allDenseUpTo_mono ms (Nat.le_succ k) h
    unfold posUpTo
    rw [hk]
    simp only [ih h', List.range_succ, List.map_append, List.map_cons, List.map_nil, prodFrom,
      List.foldl_append, List.foldl_cons, List.foldl_nil]

/-- Side conditions on the numbers: dimensions are non-negative int32, cursors are non-negative, and
every size (and `positions + 1`) fits in int32. -/
structure SizesOK (ms : List Mode) (d n : Nat → Int) : Prop where
  dim : ∀ l, l < ms.length → ms.getD l .dense = .dense → 0 ≤ d l ∧ d l < 2147483648
  cur : ∀ l, l < ms.length → ms.getD l .dense = .compressed → 0 ≤ n l
  pos : ∀ k, k ≤ ms.length → posUpTo ms d n k + 1 < 2147483648
  pad : ∀ k, k ≤ ms.length → padUpTo ms d n k < 2147483648

theorem posUpTo_nonneg {ms : List Mode} {d n : Nat → Int} (h : SizesOK ms d n) {k : Nat}
    (hk : k ≤ ms.length) : 0 ≤ posUpTo ms d n k := by
  induction k with
  | zero => simp [posUpTo]
  | succ k ih =>
    unfold posUpTo
    cases hm : ms.getD k .dense
    · exact Int.mul_nonneg (ih (by omega)) (h.dim k (by omega) hm).1
    · exact h.cur k (by omega) hm

theorem padUpTo_nonneg {ms : List Mode} {d n : Nat → Int} (h : SizesOK ms d n) {k : Nat}
    (hk : k ≤ ms.length) : 0 ≤ padUpTo ms d n k := by
  induction k with
  | zero => simp [padUpTo]
  | succ k ih =>
    unfold padUpTo
    cases hm : ms.getD k .dense
    · exact Int.mul_nonneg (ih (by omega)) (h.dim k (by omega) hm).1
    · have := h.cur k (by omega) hm; simp only []; omega

theorem scratch_nonneg {ms : List Mode} {d n : Nat → Int} (h : SizesOK ms d n) {k : Nat}
    (hk : k ≤ ms.length) : 0 ≤ scratch ms d k := by
  induction k with
  | zero => simp [scratch]
  | succ k ih =>
    unfold scratch
    cases hm : ms.getD k .dense
    · exact Int.mul_nonneg (ih (by omega)) (h.dim k (by omega) hm).1
    · simp

/-- the `vals` array keeps at least one cell per stored position -/
theorem posUpTo_le_padUpTo {ms : List Mode} {d n : Nat → Int} (h : SizesOK ms d n) {k : Nat}
    (hk : k ≤ ms.length) : posUpTo ms d n k ≤ padUpTo ms d n k := by
  rw [padUpTo_eq]
  have := scratch_nonneg h hk
  split <;> omega

/-- with positive dimensions the scratch space is never empty once a level is compressed; in
particular the `vals` array is never reallocated to size 0 -/
theorem scratch_pos {ms : List Mode} {d : Nat → Int} {k : Nat}
    (hd : ∀ l, l < k → ms.getD l .dense = .dense → 1 ≤ d l) (hc : allDenseUpTo ms k = false) :
    1 ≤ scratch ms d k := by
  induction k with
  | zero => simp [allDenseUpTo] at hc
  | succ k ih =>
    unfold scratch
    unfold allDenseUpTo at hc
    cases hm : ms.getD k .dense
    · rw [hm] at hc
      have h1 := ih (fun l hl => hd l (by omega)) hc
      have h2 := hd k (by omega) hm
      have := Int.mul_le_mul h1 h2 (by omega) (by omega)
      simp only []; omega
    · simp

/-! ### the environment -/

/-- the dimension variables `<i>_dim` of the dense levels hold `d l`, the cursor variables
`p_<id>_<l>` of the compressed levels hold `n l` -/
structure SizeEnv (t : TensorId) (d n : Nat → Int) (σ : State F) : Prop where
  dims : ∀ l, l < t.modes.length → t.modes.getD l .dense = .dense →
    IntVar σ (dimName (t.indexes.getD l "")) (d l)
  curs : ∀ l, l < t.modes.length → t.modes.getD l .dense = .compressed →
    IntVar σ (layerPointer t.id l) (n l)

/-- **K1 (core).** Before level `l ≤ n` the three components of the fold state are: the flag
"all levels so far are dense", an expression evaluating to `posUpTo l` (= `positions (l-1)`), and an
expression evaluating to `padUpTo l`. -/
theorem cleanAcc_eval (t : TensorId) (d n : Nat → Int) (σ : State F) (henv : SizeEnv t d n σ)
    (hok : SizesOK t.modes d n) (l : Nat) (hl : l ≤ t.modes.length) :
    (cleanAcc (F := F) t l).1 = allDenseUpTo t.modes l ∧
    evalE σ (cleanAcc t l).2.1 = .ok (.int (posUpTo t.modes d n l)) ∧
    evalE σ (cleanAcc t l).2.2 = .ok (.int (padUpTo t.modes d n l)) := by
  induction l with
  | zero =>
    refine ⟨rfl, ?_, ?_⟩ <;> exact evalE_intLit (by omega) (by omega)
  | succ l ih =>
    obtain ⟨h1, h2, h3⟩ := ih (by omega)
    have hp := hok.pos (l + 1) hl
    have hq := hok.pad (l + 1) hl
    have hp0 := posUpTo_nonneg hok hl
    have hq0 := padUpTo_nonneg hok hl
    rw [cleanAcc_succ]
    unfold accStep
    cases hm : t.modes.getD l .dense
    · rw [posUpTo_dense hm] at hp hp0
      rw [padUpTo_dense hm] at hq hq0
      rw [posUpTo_dense hm, padUpTo_dense hm, allDenseUpTo_dense hm]
      obtain ⟨hd0, hd1⟩ := hok.dim l (by omega) hm
      have ed := evalE_var_int (henv.dims l (by omega) hm) (by omega) hd1
      exact ⟨h1, evalE_mul h2 ed (by omega) (by omega), evalE_mul h3 ed (by omega) (by omega)⟩
    · rw [posUpTo_comp hm] at hp hp0
      rw [posUpTo_comp hm, padUpTo_comp hm, allDenseUpTo_comp hm]
      have ec := evalE_var_int (henv.curs l (by omega) hm) (by omega) (by omega)
      exact ⟨rfl, ec, evalE_add ec (evalE_intLit (by omega) (by omega)) (by omega) (by omega)⟩

end TV.Cleanup
