import TensoraVerif.Lemmas.CleanupInv

/-!
C02 cleanup, part 6: the statements emitted for one compressed level preserve the loop invariant.
-/
namespace TV.Cleanup
open TV.IR TV.Gen TV.Graph TV.Growth

set_option linter.unusedSectionVars false
variable {F : Type} [FloatOps F]

variable {t : TensorId} {d n : Nat → Int} {A : Arrays F} {ti : Nat} {tr : TensorRec F} {σ0 σ : State F}

/-- in the current state the `pos` array of a level not yet processed is as it was -/
theorem Mid.todo_pos {l : Nat} (hpre : CleanPre t d n A ti tr σ0) (h : Mid t d n A ti tr σ0 σ l)
    {j : Nat} (hlj : l ≤ j) (hc : Comp t j) :
    PtrVar σ (posName t.name j) (A.pb j) ∧ σ.heap[A.pb j]? = some ⟨.int, A.pc j, .output, true⟩ := by
  refine ⟨(hpre.posVar j hc).congr (h.vars _ (fun i hi _ => ⟨fun e => ?_, posName_ne_crdName _ _ _⟩)), ?_⟩
  · have := posName_inj e; omega
  · rcases h.heap _ _ (hpre.posBlk j hc) with h1 | ⟨_, i, hi, hci, h2 | h2⟩
    · exact h1
    · have := hpre.pp j i hc hci h2; omega
    · exact absurd h2 (hpre.pc j i hc hci)

theorem Mid.todo_crd {l : Nat} (hpre : CleanPre t d n A ti tr σ0) (h : Mid t d n A ti tr σ0 σ l)
    {j : Nat} (hlj : l ≤ j) (hc : Comp t j) :
    PtrVar σ (crdName t.name j) (A.cb j) ∧ σ.heap[A.cb j]? = some ⟨.int, A.cc j, .output, true⟩ := by
  refine ⟨(hpre.crdVar j hc).congr (h.vars _ (fun i hi _ => ⟨(posName_ne_crdName _ _ _).symm, fun e => ?_⟩)), ?_⟩
  · have := crdName_inj e; omega
  · rcases h.heap _ _ (hpre.crdBlk j hc) with h1 | ⟨_, i, hi, hci, h2 | h2⟩
    · exact h1
    · exact absurd h2.symm (hpre.pc i j hci hc)
    · have := hpre.cc j i hc hci h2; omega

theorem Mid.todo_vals {l : Nat} (hpre : CleanPre t d n A ti tr σ0) (h : Mid t d n A ti tr σ0 σ l) :
    PtrVar σ (valsName t.name) A.vb ∧ σ.heap[A.vb]? = some ⟨.float, A.vc, .output, true⟩ := by
  refine ⟨hpre.valsVar.congr (h.vars _ (fun i _ _ =>
    ⟨(posName_ne_valsName _ _).symm, (crdName_ne_valsName _ _).symm⟩)), ?_⟩
  rcases h.heap _ _ hpre.valsBlk with h1 | ⟨_, i, hi, hci, h2 | h2⟩
  · exact h1
  · exact absurd h2.symm (hpre.pv i hci)
  · exact absurd h2.symm (hpre.cv i hci)

/-- a block handed over earlier is none of the old blocks of a level `l ≥` the levels done -/
theorem done_ne {p j l : Nat} (hpre : CleanPre t d n A ti tr σ0) (hj : Comp t j) (hl : Comp t l)
    (hjl : j ≠ l) (hp : p = A.pb j ∨ σ0.heap.length ≤ p) : p ≠ A.pb l ∧ p ≠ A.cb l ∧ p ≠ A.vb := by
  have h1 := lt_length_of_getElem? (hpre.posBlk l hl)
  have h2 := lt_length_of_getElem? (hpre.crdBlk l hl)
  have h3 := lt_length_of_getElem? hpre.valsBlk
  rcases hp with rfl | hp
  · exact ⟨fun e => hjl (hpre.pp j l hj hl e), hpre.pc j l hj hl, hpre.pv j hj⟩
  · exact ⟨by omega, by omega, by omega⟩

/-- **the step.** From the invariant before a compressed level `l`, the statements emitted for
it run without error and establish the invariant after it. -/
theorem Mid.step_comp {l : Nat} (fuel : Nat) (hpre : CleanPre t d n A ti tr σ0)
    (hok : SizesOK t.modes d n) (h32 : (t.modes.length : Int) ≤ 2147483648)
    (h : Mid t d n A ti tr σ0 σ l) (hc : Comp t l) :
    ∃ σ', RunsL fuel (levelStmts t (cleanAcc t l) l) σ σ' ∧ Mid t d n A ti tr σ0 σ' (l + 1) := by
  obtain ⟨hl, hm⟩ := hc
  have hc : Comp t l := ⟨hl, hm⟩
  have henv : SizeEnv t d n σ := hpre.env.congr h.vars_na
  obtain ⟨hflag, hprev, _⟩ := cleanAcc_eval t d n σ henv hok l (by omega)
  obtain ⟨hpv, hpb⟩ := h.todo_pos hpre (Nat.le_refl l) hc
  obtain ⟨hcv, hcb⟩ := h.todo_crd hpre (Nat.le_refl l) hc
  have hp0 := posUpTo_nonneg hok (Nat.le_of_lt hl)
  have hp1 := hok.pos l (Nat.le_of_lt hl)
  -- the `pos` phase
  have hpos : ∃ σ1 p, RunsL fuel
        (if !(cleanAcc (F := F) t l).1 then [posRealloc t (cleanAcc t l).2.1 l] else []) σ σ1 ∧
      Shrunk σ σ1 (posName t.name l) (A.pb l) p .int
        ((A.pc l).take (posUpTo t.modes d n l + 1).toNat) := by
    rw [hflag]
    cases had : allDenseUpTo t.modes l
    · have hsz : evalE σ (plus (cleanAcc t l).2.1 (.intLit 1)) = .ok (.int (posUpTo t.modes d n l + 1)) :=
        evalE_add hprev (evalE_intLit (by omega) (by omega)) (by omega) hp1
      have hlen := hpre.posLen l hc
      exact ⟨_, _, RunsL.cons (runs_realloc hpv hsz (by omega) rfl hpb rfl rfl rfl) (RunsL.nil _ _),
        Shrunk.realloc hpv hpb (by omega)⟩
    · have hex := hpre.posExact l hc had
      refine ⟨σ, A.pb l, RunsL.nil _ _, ?_⟩
      rw [List.take_of_length_le (by omega)]
      exact Shrunk.refl hpv hpb
  obtain ⟨σ1, p, hrun1, sh1⟩ := hpos
  -- the `crd` phase
  have hcv1 : PtrVar σ1 (crdName t.name l) (A.cb l) :=
    hcv.congr (sh1.vars _ (posName_ne_crdName _ _ _).symm)
  have hcb1 : σ1.heap[A.cb l]? = some ⟨.int, A.cc l, .output, true⟩ :=
    sh1.heap _ _ (hpre.pc l l hc hc).symm hcb
  have henv1 : SizeEnv t d n σ1 := henv.congr (fun x hx => sh1.vars x (fun e => hx (Or.inl ⟨l, e⟩)))
  have hn0 := hok.cur l hl hm
  have hn1 : n l + 1 < 2147483648 := by have := hok.pos (l + 1) hl; rwa [posUpTo_comp hm] at this
  have hn : evalE σ1 (.var (layerPointer t.id l)) = .ok (.int (n l)) :=
    evalE_var_int (henv1.curs l hl hm) (by omega) (by omega)
  have hrun2 := runs_realloc (fuel := fuel) (ty := .int) hcv1 hn hn0 rfl hcb1 rfl rfl rfl
  have hclen := hpre.crdLen l hc
  have sh2 := Shrunk.realloc (k := n l) hcv1 hcb1 (by omega)
  generalize reallocState σ1 (crdName t.name l) (A.cb l) ⟨.int, A.cc l, .output, true⟩ .int (n l) = σ2
    at hrun2 sh2
  -- handing over
  obtain ⟨tr', htr', hord, hdb, hown, hvals, hslen, hsl, hdone⟩ := h.trec
  obtain ⟨s, hs⟩ := hpre.slots l hc
  have hs' : tr'.slots[l]? = some (some s) := (hsl l (Or.inl (Nat.le_refl _))).trans hs
  have htv2 : TensorVar σ2 t.name ti :=
    ((hpre.tvar.congr (h.vars_na _ (name_not_arr t))).congr (sh1.vars _ (name_ne_posName _ _))).congr
      (sh2.vars _ (name_ne_crdName _ _))
  have htr2 : σ2.tensors[ti]? = some tr' := by rw [sh2.tensors, sh1.tensors]; exact htr'
  have hpv2 : PtrVar σ2 (posName t.name l) p := sh1.ptr.congr (sh2.vars _ (posName_ne_crdName _ _ _))
  have hlo : l < tr'.order := by rw [hord, hpre.order]; exact hl
  have hrun3 := runs_slot (fuel := fuel) (j := 0) (Or.inl rfl) htv2 htr2 (hown.trans hpre.owner) hlo
    (by omega) hs' hpv2
  simp only [if_true] at hrun3
  have htl := lt_length_of_getElem? htr2
  have hsll := lt_length_of_getElem? hs'
  have hrun4 := runs_slot (fuel := fuel) (σ := slotState σ2 ti tr' l (.ptr p 0, s.2)) (x := t.name)
    (arr := crdName t.name l) (ti := ti)
    (tr := { tr' with slots := tr'.slots.set l (some (.ptr p 0, s.2)) }) (l := l)
    (p := σ1.heap.length) (s := (.ptr p 0, s.2)) (j := 1) (Or.inr rfl) htv2
    (by show (σ2.tensors.set ti _)[ti]? = _; rw [List.getElem?_set_self htl])
    (hown.trans hpre.owner) hlo (by omega)
    (by show (tr'.slots.set l _)[l]? = _; rw [List.getElem?_set_self hsll]) sh2.ptr
  simp only [show ((1 : Int) = 0) = False by decide, if_false] at hrun4
  have hrunAll := RunsL.append hrun1
      (RunsL.cons hrun2 (RunsL.cons hrun3 (RunsL.cons hrun4 (RunsL.nil _ _))))
  have hshape : levelStmts (F := F) t (cleanAcc t l) l =
      (if !(cleanAcc (F := F) t l).1 then [posRealloc t (cleanAcc t l).2.1 l] else []) ++
        [crdRealloc t l, posHandOver t l, crdHandOver t l] := by
    unfold levelStmts; rw [hm]
  rw [hshape]
  refine ⟨_, hrunAll, ?_⟩
  · have hN1 : σ0.heap.length ≤ σ1.heap.length := Nat.le_trans h.len sh1.len
    have hpbl := lt_length_of_getElem? hpb
    have hcbl := lt_length_of_getElem? hcb1
    refine ⟨?_, ?_, ?_, ?_, ?_, ?_⟩
    · -- vars
      intro x hx
      show lookupVar σ2.vars x = _
      rw [sh2.vars x (hx l (by omega) hc).2, sh1.vars x (hx l (by omega) hc).1]
      exact h.vars x (fun j hj hcj => hx j (by omega) hcj)
    · exact Nat.le_trans hN1 sh2.len
    · -- heap
      intro k blk e
      show σ2.heap[k]? = _ ∨ (σ2.heap[k]? = _ ∧ _)
      rcases h.heap k blk e with h1 | ⟨h1, j, hj, hcj, h2⟩
      · by_cases hkp : k = A.pb l
        · subst hkp
          rcases sh1.old blk h1 with h3 | h3
          · exact Or.inl (sh2.heap _ _ (hpre.pc l l hc hc) h3)
          · exact Or.inr ⟨sh2.heap _ _ (hpre.pc l l hc hc) h3, l, by omega, hc, Or.inl rfl⟩
        · have h3 := sh1.heap k blk hkp h1
          by_cases hkc : k = A.cb l
          · subst hkc
            rcases sh2.old blk h3 with h4 | h4
            · exact Or.inl h4
            · exact Or.inr ⟨h4, l, by omega, hc, Or.inr rfl⟩
          · exact Or.inl (sh2.heap k blk hkc h3)
      · have hjl : j ≠ l := by omega
        have hkp : k ≠ A.pb l := by
          rcases h2 with rfl | rfl
          · exact fun e => hjl (hpre.pp j l hcj hc e)
          · exact (hpre.pc l j hc hcj).symm
        have hkc : k ≠ A.cb l := by
          rcases h2 with rfl | rfl
          · exact hpre.pc j l hcj hc
          · exact fun e => hjl (hpre.cc j l hcj hc e)
        exact Or.inr ⟨sh2.heap _ _ hkc (sh1.heap _ _ hkp h1), j, by omega, hcj, h2⟩
    · -- tlen
      show ((σ2.tensors.set ti _).set ti _).length = _
      rw [List.length_set, List.length_set, sh2.tensors, sh1.tensors]; exact h.tlen
    · -- other tensors
      intro j hj
      show ((σ2.tensors.set ti _).set ti _)[j]? = _
      rw [List.getElem?_set_ne (Ne.symm hj), List.getElem?_set_ne (Ne.symm hj), sh2.tensors, sh1.tensors]
      exact h.tother j hj
    · -- the record
      refine ⟨{ tr' with slots :=
          (tr'.slots.set l (some (.ptr p 0, s.2))).set l (some (.ptr p 0, .ptr σ1.heap.length 0)) }, ?_, hord, hdb, hown, hvals, ?_, ?_, ?_⟩
      · show ((σ2.tensors.set ti _).set ti _)[ti]? = _
        rw [List.getElem?_set_self (by rw [List.length_set]; exact htl)]
      · show ((tr'.slots.set l _).set l _).length = _
        rw [List.length_set, List.length_set]; exact hslen
      · intro j hj
        have hjl : j ≠ l := by
          rcases hj with hj | hj
          · omega
          · rintro rfl; exact hj hc
        show ((tr'.slots.set l _).set l _)[j]? = _
        rw [List.getElem?_set_ne (Ne.symm hjl), List.getElem?_set_ne (Ne.symm hjl)]
        exact hsl j (by rcases hj with hj | hj; exact Or.inl (by omega); exact Or.inr hj)
      · intro j hj hcj
        by_cases hjl : j = l
        · subst hjl
          refine ⟨p, σ1.heap.length, ?_, ?_, hN1, ?_, sh2.blk⟩
          · show ((tr'.slots.set j _).set j _)[j]? = _
            rw [List.getElem?_set_self (by rw [List.length_set]; exact hsll)]
          · rcases sh1.fresh with h1 | h1
            · exact Or.inl h1
            · exact Or.inr (Nat.le_trans h.len h1)
          · show σ2.heap[p]? = _
            refine sh2.heap _ _ ?_ sh1.blk
            rcases sh1.fresh with h1 | h1
            · rw [h1]; exact hpre.pc j j hc hc
            · have := lt_length_of_getElem? hcb; omega
        · obtain ⟨pj, cj, e1, e2, e3, e4, e5⟩ := hdone j (by omega) hcj
          have hne1 := done_ne hpre hcj hc hjl e2
          have hne2 := done_ne hpre hcj hc hjl (Or.inr e3 : cj = A.pb j ∨ _)
          refine ⟨pj, cj, ?_, e2, e3, ?_, ?_⟩
          · show ((tr'.slots.set l _).set l _)[j]? = _
            rw [List.getElem?_set_ne (Ne.symm hjl), List.getElem?_set_ne (Ne.symm hjl)]
            exact e1
          · exact sh2.heap _ _ hne1.2.1 (sh1.heap _ _ hne1.1 e4)
          · exact sh2.heap _ _ hne2.2.1 (sh1.heap _ _ hne2.1 e5)

end TV.Cleanup
