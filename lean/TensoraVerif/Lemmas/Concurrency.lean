import TensoraVerif.Model.Concurrency

/-!
Helpers for C14 (`Model/Concurrency.lean`): the system invariant `SInv` preserved by every atomic
step of every thread, and the progress measure `Phase.rem`.
-/
namespace TV.Conc

/-- the cache only ever maps a key to the kernel compiled for that key -/
def CacheOK (compile : Nat → Nat) (cache : List (Nat × Nat)) : Prop :=
  ∀ k v, cacheGet cache k = some v → v = compile k

/-! ### cache facts -/

theorem cacheGet_cons (k v : Nat) (cache : List (Nat × Nat)) (k' : Nat) :
    cacheGet ((k, v) :: cache) k' = if k = k' then some v else cacheGet cache k' := by
  unfold cacheGet
  rw [List.find?_cons]
  by_cases h : k = k'
  · simp [h]
  · have : ((k, v).1 == k') = false := by simpa using h
    simp [this, h]

theorem cacheGet_filter_ne (k : Nat) (cache : List (Nat × Nat)) (k' : Nat) :
    cacheGet (cache.filter (·.1 != k)) k' = if k' = k then none else cacheGet cache k' := by
  induction cache with
  | nil => simp [cacheGet]
  | cons e es ih =>
    obtain ⟨ek, ev⟩ := e
    rw [List.filter_cons]
    by_cases hek : ek = k
    · subst hek
      simp only [bne_self_eq_false, Bool.false_eq_true, ↓reduceIte]
      rw [ih, cacheGet_cons]
      by_cases h : k' = ek
      · simp [h]
      · have : ¬ ek = k' := fun e => h e.symm
        simp [h, this]
    · have : ((ek, ev).1 != k) = true := by simpa using hek
      simp only [this, ↓reduceIte]
      rw [cacheGet_cons, cacheGet_cons, ih]
      by_cases h : ek = k'
      · subst h; simp [hek]
      · simp [h]

theorem CacheOK.insert {compile : Nat → Nat} {cache : List (Nat × Nat)} (h : CacheOK compile cache)
    (k : Nat) : CacheOK compile ((k, compile k) :: cache.filter (·.1 != k)) := by
  intro k' v hv
  rw [cacheGet_cons] at hv
  by_cases hk : k = k'
  · subst hk
    simp at hv
    exact hv.symm
  · simp only [hk, ↓reduceIte] at hv
    rw [cacheGet_filter_ne] at hv
    have : ¬ k' = k := fun e => hk e.symm
    simp only [this, ↓reduceIte] at hv
    exact h k' v hv

/-! ### the invariant -/

variable (compile : Nat → Nat) (exec : Nat → Nat → Nat)

/-- what a phase may carry: the kernel compiled for the call's key, a slot already handed out, the
output of that kernel on the call's own input -/
def PhaseOK (c : Call) (n : Nat) : Phase → Prop
  | .start => True
  | .missed => True
  | .compiled k => k = compile c.key
  | .ready k => k = compile c.key
  | .allocated k slot => k = compile c.key ∧ slot < n
  | .ran k slot out => k = compile c.key ∧ slot < n ∧ out = exec (compile c.key) c.input
  | .done out => out = exec (compile c.key) c.input

theorem PhaseOK.mono {c : Call} {n n' : Nat} (hn : n ≤ n') {ph : Phase}
    (h : PhaseOK compile exec c n ph) : PhaseOK compile exec c n' ph := by
  cases ph <;> simp only [PhaseOK] at h ⊢
  all_goals first | exact h | (refine ⟨h.1, ?_⟩; omega) | (refine ⟨h.1, ?_, h.2.2⟩; omega)

structure SInv (calls : List Call) (s : Sys) : Prop where
  thread_ok : ∀ (t : Nat) (c : Call) (ph : Phase), s.threads[t]? = some (c, ph) →
    calls[t]? = some c ∧ PhaseOK compile exec c s.shared.nextSlot ph
  cache_ok : CacheOK compile s.shared.cache
  table_bound : ∀ x ∈ s.shared.table.map (·.1), x < s.shared.nextSlot
  table_nodup : (s.shared.table.map (·.1)).Nodup

theorem SInv.init (calls : List Call) (warm : List (Nat × Nat)) (hw : CacheOK compile warm) :
    SInv compile exec calls (Sys.init calls warm) where
  thread_ok := by
    intro t c ph h
    simp only [Sys.init, List.getElem?_map] at h
    cases hc : calls[t]? with
    | none => simp [hc] at h
    | some c' =>
      simp [hc] at h
      obtain ⟨rfl, rfl⟩ := h
      exact ⟨rfl, trivial⟩
  cache_ok := hw
  table_bound := by intro x hx; cases hx
  table_nodup := List.nodup_nil

/-- updating thread `t` (which runs call `c`) to an admissible phase keeps all threads admissible -/
theorem threads_set_ok {calls : List Call} {s : Sys} (h : SInv compile exec calls s) {n' : Nat}
    (hn : s.shared.nextSlot ≤ n') {t : Nat} {c : Call} (hc : calls[t]? = some c) {ph' : Phase}
    (hph : PhaseOK compile exec c n' ph') :
    ∀ (t' : Nat) (c' : Call) (ph'' : Phase), (s.threads.set t (c, ph'))[t']? = some (c', ph'') →
      calls[t']? = some c' ∧ PhaseOK compile exec c' n' ph'' := by
  intro t' c' ph'' hget
  rw [List.getElem?_set] at hget
  split at hget
  · rename_i htt
    subst htt
    split at hget
    · simp only [Option.some.injEq, Prod.mk.injEq] at hget
      obtain ⟨rfl, rfl⟩ := hget
      exact ⟨hc, hph⟩
    · cases hget
  · obtain ⟨h1, h2⟩ := h.thread_ok t' c' ph'' hget
    exact ⟨h1, h2.mono compile exec hn⟩

theorem table_map_fst_update (table : List (Nat × Nat × Bool)) (slot : Nat) :
    (table.map fun e => if e.1 == slot then (e.1, e.2.1, true) else e).map (·.1) = table.map (·.1) := by
  rw [List.map_map]
  apply List.map_congr_left
  intro e _
  simp only [Function.comp]
  split <;> rfl

theorem SInv.step {calls : List Call} {s : Sys} (h : SInv compile exec calls s) (t : Nat) :
    SInv compile exec calls (step compile exec s t) := by
  unfold TV.Conc.step
  split
  · exact h
  · rename_i c ph heq
    obtain ⟨hc, hph⟩ := h.thread_ok t c ph heq
    cases ph with
    | start =>
      simp only []
      split
      · rename_i k hk
        exact ⟨threads_set_ok compile exec h (Nat.le_refl _) hc (h.cache_ok _ _ hk),
          h.cache_ok, h.table_bound, h.table_nodup⟩
      · exact ⟨threads_set_ok compile exec h (Nat.le_refl _) hc trivial,
          h.cache_ok, h.table_bound, h.table_nodup⟩
    | missed =>
      exact ⟨threads_set_ok compile exec h (Nat.le_refl _) hc rfl,
        h.cache_ok, h.table_bound, h.table_nodup⟩
    | compiled k =>
      have hk : k = compile c.key := hph
      subst hk
      exact ⟨threads_set_ok compile exec h (Nat.le_refl _) hc rfl,
        h.cache_ok.insert c.key, h.table_bound, h.table_nodup⟩
    | ready k =>
      have hk : k = compile c.key := hph
      refine ⟨threads_set_ok compile exec h (Nat.le_succ _) hc ⟨hk, Nat.lt_succ_self _⟩,
        h.cache_ok, ?_, ?_⟩
      · intro x hx
        simp only [List.map_cons, List.mem_cons] at hx
        rcases hx with rfl | hx
        · exact Nat.lt_succ_self _
        · exact Nat.lt_succ_of_lt (h.table_bound x hx)
      · simp only [List.map_cons]
        refine List.nodup_cons.2 ⟨fun hm => ?_, h.table_nodup⟩
        exact Nat.lt_irrefl _ (h.table_bound _ hm)
    | allocated k slot =>
      obtain ⟨hk, hs⟩ := hph
      subst hk
      exact ⟨threads_set_ok compile exec h (Nat.le_refl _) hc ⟨rfl, hs, rfl⟩,
        h.cache_ok, h.table_bound, h.table_nodup⟩
    | ran k slot out =>
      obtain ⟨hk, hs, ho⟩ := hph
      refine ⟨threads_set_ok compile exec h (Nat.le_refl _) hc ho, h.cache_ok, ?_, ?_⟩
      · simp only [table_map_fst_update]; exact h.table_bound
      · simp only [table_map_fst_update]; exact h.table_nodup
    | done out => exact h

/-- the table part of the invariant is preserved by a step on its own (no cache hypothesis) -/
theorem step_table (s : Sys) (t : Nat)
    (hb : ∀ x ∈ s.shared.table.map (·.1), x < s.shared.nextSlot)
    (hn : (s.shared.table.map (·.1)).Nodup) :
    (∀ x ∈ (step compile exec s t).shared.table.map (·.1), x < (step compile exec s t).shared.nextSlot) ∧
    ((step compile exec s t).shared.table.map (·.1)).Nodup := by
  unfold TV.Conc.step
  split
  · exact ⟨hb, hn⟩
  · rename_i c ph heq
    cases ph with
    | start => simp only []; split <;> exact ⟨hb, hn⟩
    | missed => exact ⟨hb, hn⟩
    | compiled k => exact ⟨hb, hn⟩
    | ready k =>
      refine ⟨?_, ?_⟩
      · intro x hx
        simp only [List.map_cons, List.mem_cons] at hx
        rcases hx with rfl | hx
        · exact Nat.lt_succ_self _
        · exact Nat.lt_succ_of_lt (hb x hx)
      · simp only [List.map_cons]
        exact List.nodup_cons.2 ⟨fun hm => Nat.lt_irrefl _ (hb _ hm), hn⟩
    | allocated k slot => exact ⟨hb, hn⟩
    | ran k slot out => simp only [table_map_fst_update]; exact ⟨hb, hn⟩
    | done out => exact ⟨hb, hn⟩

theorem runSched_cons (s : Sys) (t : Nat) (sched : List Nat) :
    runSched compile exec s (t :: sched) = runSched compile exec (step compile exec s t) sched := rfl

theorem SInv.run {calls : List Call} {s : Sys} (h : SInv compile exec calls s) (sched : List Nat) :
    SInv compile exec calls (runSched compile exec s sched) := by
  induction sched generalizing s with
  | nil => exact h
  | cons t sched ih => rw [runSched_cons]; exact ih (h.step compile exec t)

/-! ### progress -/

/-- an upper bound on the number of atomic steps a thread in this phase still needs -/
def Phase.rem : Phase → Nat
  | .start => 6
  | .missed => 5
  | .compiled _ => 4
  | .ready _ => 3
  | .allocated _ _ => 2
  | .ran _ _ _ => 1
  | .done _ => 0

theorem Phase.rem_eq_zero {ph : Phase} (h : ph.rem = 0) : ∃ out, ph = .done out := by
  cases ph <;> simp [Phase.rem] at h
  exact ⟨_, rfl⟩

/-- a step of thread `t` only rewrites thread `t`'s phase, and strictly advances it (unless done) -/
theorem step_shape (s : Sys) (t : Nat) (c : Call) (ph : Phase) (h : s.threads[t]? = some (c, ph)) :
    ∃ ph' sh', step compile exec s t = ⟨s.threads.set t (c, ph'), sh'⟩ ∧ ph'.rem ≤ ph.rem - 1 := by
  unfold TV.Conc.step
  rw [h]
  cases ph with
  | start =>
    simp only []
    split
    · exact ⟨_, _, rfl, by simp [Phase.rem]⟩
    · exact ⟨_, _, rfl, by simp [Phase.rem]⟩
  | missed => exact ⟨_, _, rfl, by simp [Phase.rem]⟩
  | compiled k => exact ⟨_, _, rfl, by simp [Phase.rem]⟩
  | ready k => exact ⟨_, _, rfl, by simp [Phase.rem]⟩
  | allocated k slot => exact ⟨_, _, rfl, by simp [Phase.rem]⟩
  | ran k slot out => exact ⟨_, _, rfl, by simp [Phase.rem]⟩
  | done out =>
    refine ⟨.done out, s.shared, ?_, by simp [Phase.rem]⟩
    obtain ⟨hlt, hget⟩ := List.getElem?_eq_some_iff.1 h
    have : s.threads.set t (c, .done out) = s.threads := by
      rw [← hget]; exact List.set_getElem_self hlt
    rw [this]

/-- threads other than the stepping one are untouched -/
theorem step_other (s : Sys) (t t' : Nat) (hne : t' ≠ t) :
    (step compile exec s t).threads[t']? = s.threads[t']? := by
  cases hs : s.threads[t]? with
  | none => unfold TV.Conc.step; rw [hs]
  | some cp =>
    obtain ⟨c, ph⟩ := cp
    obtain ⟨ph', sh', he, _⟩ := step_shape compile exec s t c ph hs
    rw [he]
    simp only [List.getElem?_set]
    have : ¬ t = t' := fun e => hne e.symm
    simp [this]

theorem step_self (s : Sys) (t : Nat) (c : Call) (ph : Phase) (h : s.threads[t]? = some (c, ph)) :
    ∃ ph', (step compile exec s t).threads[t]? = some (c, ph') ∧ ph'.rem ≤ ph.rem - 1 := by
  obtain ⟨ph', sh', he, hr⟩ := step_shape compile exec s t c ph h
  refine ⟨ph', ?_, hr⟩
  rw [he]
  obtain ⟨hlt, _⟩ := List.getElem?_eq_some_iff.1 h
  simp [hlt]

theorem run_rem (sched : List Nat) (s : Sys) (t : Nat) (c : Call) (ph : Phase)
    (h : s.threads[t]? = some (c, ph)) :
    ∃ ph', (runSched compile exec s sched).threads[t]? = some (c, ph') ∧
      ph'.rem ≤ ph.rem - sched.count t := by
  induction sched generalizing s ph with
  | nil => exact ⟨ph, h, by simp⟩
  | cons u sched ih =>
    rw [runSched_cons]
    by_cases hu : u = t
    · subst hu
      obtain ⟨ph1, h1, hr1⟩ := step_self compile exec s u c ph h
      obtain ⟨ph', h', hr'⟩ := ih (step compile exec s u) ph1 h1
      refine ⟨ph', h', ?_⟩
      simp only [List.count_cons_self]
      omega
    · have h1 : (step compile exec s u).threads[t]? = some (c, ph) := by
        rw [step_other compile exec s u t (fun e => hu e.symm)]; exact h
      obtain ⟨ph', h', hr'⟩ := ih (step compile exec s u) ph h1
      refine ⟨ph', h', ?_⟩
      rw [List.count_cons_of_ne hu]
      exact hr'

end TV.Conc
