import TensoraVerif.Lemmas.ConvLoop
import TensoraVerif.Lemmas.ConvPrologue
import TensoraVerif.Lemmas.Sparse1Block

/-!
C01 for the format-conversion kernels, part 7: the iteration block of dense → compressed on the machine —
`int i = 0`, the dense loop (`d2s_while_runs`), `pos assembly` (C05 G3) — from the state at its entry
(`D2SEntry`) to the state before the cleanup (`Sparse1.AfterLoop` with the coordinates `0, 1, …, n-1`).
-/
namespace TV.Conv
open TV.IR TV.Gen TV.Graph TV.Growth TV.Merge TV.Dense1 TV.Sparse1
set_option linter.unusedSectionVars false
set_option linter.unusedVariables false
variable {F : Type} [FloatOps F]

set_option maxHeartbeats 1000000 in
/-- **(A) the iteration block of dense → compressed** -/
theorem d2s_iterBlock_runs {ofRat : Rat → F} {i : String} {outT bT : TensorId}
    (N : KNames i outT bT) (ho : isSp i outT = true) (hb : isLeaf i bT = true)
    {k : Int} (hk0 : 1 ≤ k) (hk1 : k < 2147483648)
    {ta tb : Nat} {atr btr : TensorRec F} {n bvb : Nat} {cellsB : Nat → F} {σ0 σC : State F}
    (init : D2SInit outT bT ta tb atr btr n bvb cellsB σ0)
    (entry : D2SEntry i outT bT k n bvb σ0 σC)
    (hn : n ≤ 1073741824)
    (hfin : ∀ q, q < n → ToIr.AllFinite ofRat (fun _ => cellsB q) (.tensor bT))
    (fuel : Nat) (hfuel : n + 1 ≤ fuel) :
    ∃ σF, RunsLI fuel (d2sLoopLines ofRat i outT bT) σC σF n ∧
      AfterLoop ofRat outT (.tensor bT) ta n idCrd cellsB σ0 σF := by
  obtain ⟨ho1, ho2⟩ := (isSp_iff i outT).1 ho
  have hfresh : ∀ x, nameClass x ≠ 0 → x ∉ proWD i outT bT → lookupVar σC.vars x = none := by
    intro x hx hw
    rw [entry.frame x hw]
    refine init.fresh x ?_ ?_
    · intro h; rw [h, N.a0] at hx; exact hx rfl
    · intro h; rw [h, N.b0] at hx; exact hx rfl
  obtain ⟨vblk0, hvb, hvlive, hvty, hvcells⟩ := init.bval
  have hbvbl : bvb < σ0.heap.length := lt_length_of_getElem? hvb
  have hCold : ∀ j, j < σ0.heap.length → σC.heap[j]? = σ0.heap[j]? := by
    intro j hj; rw [entry.heap, List.getElem?_append_left hj]
  have hWp : layerPointer bT.id 0 ∉ proWD i outT bT := by
    simp only [proWD, List.mem_cons, List.not_mem_nil, or_false, not_or]; and_intros <;> nm N
  have hWw : writtenName outT.name 0 ∉ proWD i outT bT := by
    simp only [proWD, List.mem_cons, List.not_mem_nil, or_false, not_or]; and_intros <;> nm N
  have hWi : i ∉ proWD i outT bT := by
    simp only [proWD, List.mem_cons, List.not_mem_nil, or_false, not_or]; and_intros <;> nm N
  -- D: int i = 0
  obtain ⟨σD, runD, hhD, htD, vD, frD⟩ := declFresh (fuel := fuel) (x := i) (t := .int) (σ := σC)
    (val' := .int 0) (by rw [entry.frame _ hWi]; exact init.fresh _ N.ia N.ib)
    (evalE_intLit (by omega) (by omega)) rfl
  have hiD : IntVar σD i ((0 : Nat) : Int) := vD
  have hDold : ∀ j, j < σ0.heap.length → σD.heap[j]? = σ0.heap[j]? := by
    intro j hj; rw [hhD]; exact hCold j hj
  -- E: the loop
  have hlenD : σD.heap.length = σ0.heap.length + 3 := by rw [hhD, entry.heap]; simp
  have pre : LoopPre ofRat bT (.tensor bT) n bvb cellsB idCrd (denseAt cellsB) (σ0.heap.length + 1)
      (σ0.heap.length + 2) σD :=
    { bvals := entry.bvals.congr (frD _ (by nm N))
      bblk := ⟨vblk0, by rw [hDold _ hbvbl]; exact hvb, hvlive, hvty, hvcells⟩
      bne := ⟨by omega, by omega⟩
      cvne := by omega
      fin := hfin
      bAt := fun q _ => by simp [denseAt, idCrd]
      small := hn }
  have hkk : ((List.replicate k.toNat (none : Option (Val F))).length : Int) = k := by
    simp; omega
  have hcD : σD.heap[σ0.heap.length + 1]? =
      some (⟨.int, List.replicate k.toNat none, .output, true⟩ : Block F) := by
    rw [hhD, entry.heap]; simp
  have hvD : σD.heap[σ0.heap.length + 2]? =
      some (⟨.float, List.replicate k.toNat none, .output, true⟩ : Block F) := by
    rw [hhD, entry.heap]; simp
  have hP : D2SInv ofRat i outT bT cellsB (σ0.heap.length + 1) (σ0.heap.length + 2) σD 0 σD := by
    refine ⟨⟨σ0.heap.length + 1, k, σ0.heap.length + 2, k, ?_⟩, hiD, ?_⟩
    · refine
        { tensors := rfl, len := Nat.le_refl _, old := fun _ _ _ _ h => h, vars := fun _ _ => rfl,
          crd := ⟨entry.acrd.congr (frD _ (by nm N)), entry.acrdCap.congr (frD _ (by nm N)),
            ⟨_, hcD, rfl, rfl, rfl, hkk⟩, hk0, hk1⟩,
          vals := ⟨entry.avals.congr (frD _ (by nm N)),
            entry.avalsCap.congr (frD _ (by nm N)),
            ⟨_, hvD, rfl, rfl, rfl, hkk⟩, hk0, hk1⟩,
          hcb := .inl rfl, hvb := .inl rfl, hne := by omega,
          ptr := entry.ptr.congr (frD _ (by nm N)),
          lec := by simp; omega, lev := by simp; omega,
          crdCells := ⟨_, hcD, fun j h => absurd h (by simp)⟩,
          valsCells := ⟨_, hvD, fun j h => absurd h (by simp)⟩,
          flag := ?_ }
      intro r hr
      rw [frD _ (by nm N), hfresh _ (by simp [nc_wr]) hWw] at hr
      cases hr
    · intro r hr
      rw [frD _ (by nm N), hfresh _ (by simp [nc_ptr]) hWp] at hr
      cases hr
  obtain ⟨σE, runE, ⟨⟨cb, cc, vb, vc, hinv⟩, _, _⟩⟩ := d2s_while_runs N ho hb pre
    (entry.dim.congr (frD _ (by nm N))) n 0 σD fuel (by omega) hP hfuel
  have hlenm : ((List.map idCrd (List.range n)).length : Int) = n := by simp
  -- facts in σE
  have hposE : σE.heap[σ0.heap.length]? = some ⟨.int, [some (.int 0), none], .output, true⟩ :=
    hinv.old _ _ (by omega) (by omega) (by rw [hhD, entry.heap]; simp)
  have hTa : outT.name ∉ touched i outT bT := by
    simp only [touched, midW, List.mem_cons, List.mem_append, List.not_mem_nil, or_false, not_or]
    and_intros <;> nm N
  have hTp : posName outT.name 0 ∉ touched i outT bT := by
    simp only [touched, midW, List.mem_cons, List.mem_append, List.not_mem_nil, or_false, not_or]
    and_intros <;> nm N
  have hTc : posCapName outT.name 0 ∉ touched i outT bT := by
    simp only [touched, midW, List.mem_cons, List.mem_append, List.not_mem_nil, or_false, not_or]
    and_intros <;> nm N
  have haposE : PtrVar σE (posName outT.name 0) σ0.heap.length :=
    entry.apos.congr (by rw [hinv.vars _ hTp, frD _ (by nm N)])
  have hacapE : IntVar σE (posCapName outT.name 0) 2 :=
    entry.aposCap.congr (by rw [hinv.vars _ hTc, frD _ (by nm N)])
  have hWa : outT.name ∉ proWD i outT bT := by
    simp only [proWD, List.mem_cons, List.not_mem_nil, or_false, not_or]; and_intros <;> nm N
  have havarE : TensorVar σE outT.name ta :=
    init.avar.congr (by rw [hinv.vars _ hTa, frD _ (by nm N), entry.frame _ hWa])
  have hptrE : IntVar σE (layerPointer outT.id 0) n := by
    have := hinv.ptr; rw [hlenm] at this; exact this
  -- F: pos assembly
  obtain ⟨oF, eF, rF, sF, _⟩ := writePosAssembly_safe (outLeaf outT) fuel σE σ0.heap.length 2 n 0
    ⟨.int, [some (.int 0), none], .output, true⟩
    ⟨haposE, hacapE, ⟨_, hposE, rfl, rfl, rfl, rfl⟩, by omega, by omega⟩ hposE
    (by simp [PrevIs, outLeaf]) (by omega) (by omega) hptrE (by omega) (by omega)
  have runF : RunsI fuel (writePosAssembly (outLeaf outT)).finalize σE oF.st 0 :=
    ⟨oF, eF, rF, rfl, exec_noLoop_iters fuel _ σE (noLoop_writePosAssembly _) oF eF⟩
  generalize oF.st = σF at *
  have hlE : σ0.heap.length < σE.heap.length := by have := hinv.len; omega
  refine ⟨σF, ?_, ?_⟩
  · have := RunsLI.cons runD (RunsLI.cons runE (RunsLI.cons runF (RunsLI.nil _ _)))
    simpa [d2sLoopLines, declAssignE] using this
  · obtain ⟨cblk, hcblk, hclive', hcown', hcty', hclen'⟩ := hinv.crd.blk
    obtain ⟨vblk, hvblk, hvlive', hvown', hvty', hvlen'⟩ := hinv.vals.blk
    obtain ⟨cblk', hcblk', hccells'⟩ := hinv.crdCells
    obtain ⟨vblk', hvblk', hvcells'⟩ := hinv.valsCells
    rw [hcblk] at hcblk'; cases hcblk'
    rw [hvblk] at hvblk'; cases hvblk'
    have hcbH : σ0.heap.length < cb := by rcases hinv.hcb with h | h <;> omega
    have hvbH : σ0.heap.length < vb := by rcases hinv.hvb with h | h <;> omega
    have hlec := hinv.lec
    have hlev := hinv.lev
    rw [hlenm] at hlec hlev
    subst sF
    refine
      { tensors := by show σE.tensors = _; rw [hinv.tensors, htD, entry.tensors],
        old := ?_, pos := ?_, apos := haposE, avar := havarE, ptr := hptrE, arrs := ?_ }
    · intro j hj
      show (σE.heap.set _ _)[j]? = _
      rw [List.getElem?_set_ne (by omega)]
      cases hj' : σ0.heap[j]? with
      | none => rw [List.getElem?_eq_none_iff] at hj'; omega
      | some blk =>
        rw [← hj', hj']
        exact hinv.old j blk (by omega) (by omega) (by rw [hDold j hj]; exact hj')
    · show (σE.heap.set _ _)[_]? = _
      rw [List.getElem?_set_self hlE]
      rfl
    · refine ⟨cb, vb, cblk, vblk, hinv.crd.arr, hinv.vals.arr, hcbH, hvbH, hinv.hne, ?_, hclive', hcown', hcty',
        by omega, ?_, ?_, hvlive', hvown', hvty', by omega, ?_⟩
      · show (σE.heap.set _ _)[cb]? = _
        rw [List.getElem?_set_ne (by omega)]; exact hcblk
      · intro j hj
        have := hccells' j (by simpa using hj)
        simpa using this
      · show (σE.heap.set _ _)[vb]? = _
        rw [List.getElem?_set_ne (by omega)]; exact hvblk
      · intro j hj
        have := hvcells' j (by simpa using hj)
        simp only [List.getElem_map, List.getElem_range] at this
        rw [this]
        simp [denseAt, idCrd]

end TV.Conv
