import TensoraVerif.Lemmas.Sparse1Body
import TensoraVerif.Lemmas.ConvModel

/-!
C01 for the format-conversion kernels, part 4: the append branch of `Sparse1` for a right-hand side whose
tensor occurrence need not be compressed (`branch_step`: the proof of `Sparse1.mid_step`, with the class
hypothesis replaced by the two facts it uses).
-/
namespace TV.Conv
open TV.IR TV.Gen TV.Graph TV.Growth TV.Merge TV.Sparse1
set_option linter.unusedSectionVars false
set_option linter.unusedVariables false
variable {F : Type} [FloatOps F]

section step
variable {ofRat : Rat → F} {i : String} {outT bT : TensorId} {e : IdExpr} {m bvb : Nat}
  {cellsB : Nat → F} {crdB : Nat → Int} {bAt : Int → F} {cb0 vb0 : Nat} {σ0 : State F}

/-- **The append branch**, for any right-hand side `e` whose one tensor occurrence is `bT` (an order-1 tensor —
dense or compressed — whose cursor `p_b` holds the position `q < m`): from a state satisfying `Sparse1.Inv`
after the history `tr`, in which the index `i` holds `crdB q`, the block `{ vals allocation; written = false;
terminal block; if (written) { crd assembly; p_a++ } }` runs without error (any fuel) and re-establishes the
invariant for `tr ++ [crdB q]`; it writes only the variables `midW` and no block of the old heap other than the
two output arrays. (`Sparse1.mid_step` with the class hypothesis replaced by what the proof uses.) -/
theorem branch_step (N : KNames i outT bT) (ho : isSp i outT = true)
    (hl : ToIr.leaves e = [bT]) (hblen : bT.indexes.length = 1)
    (pre : LoopPre ofRat bT e m bvb cellsB crdB bAt cb0 vb0 σ0)
    (fuel : Nat) (σ : State F) (tr : List Int) (cb : Nat) (cc : Int) (vb : Nat) (vc : Int) (q : Nat)
    (hq : q < m) (htr : tr.length < m)
    (hinv : Inv ofRat i outT bT e bAt cb0 vb0 σ0 cb cc vb vc tr σ)
    (hpB : IntVar σ (layerPointer bT.id 0) q) (hi : IntVar σ i (crdB q))
    (hr0 : -2147483648 ≤ crdB q) (hr1 : crdB q < 2147483648) :
    ∃ σ' cb' cc' vb' vc', Runs fuel (.block (branchBody ofRat outT e) none) σ σ' ∧
      Inv ofRat i outT bT e bAt cb0 vb0 σ0 cb' cc' vb' vc' (tr ++ [crdB q]) σ' ∧
      (∀ y, y ∉ midW outT → lookupVar σ'.vars y = lookupVar σ.vars y) ∧
      (∀ k blk, k ≠ cb → k ≠ vb → σ.heap[k]? = some blk → σ'.heap[k]? = some blk) := by
  obtain ⟨ho1, ho2⟩ := (isSp_iff i outT).1 ho
  obtain ⟨hdb, hArr, hCap, hEty, hBon, hidx⟩ := outLeaf_facts ho
  have hsmall := pre.small
  have hne0 : e ≠ .int 0 := by
    intro h; rw [h] at hl; simp [ToIr.leaves] at hl
  have holen : outT.indexes.length = 1 := by rw [ho1]; rfl
  -- abbreviations
  obtain ⟨p, hp⟩ : ∃ p : Int, p = tr.length := ⟨_, rfl⟩
  have hp0 : 0 ≤ p := by omega
  have hpm : p < m := by omega
  have hptr : IntVar σ (layerPointer outT.id 0) p := by rw [hp]; exact hinv.ptr
  have hlec : p ≤ cc := by rw [hp]; exact hinv.lec
  have hlev : p ≤ vc := by rw [hp]; exact hinv.lev
  -- 1. vals allocation
  obtain ⟨o1, vb1, vc1, e1, r1, g1, hvc1, hroom1⟩ := writePosAllocation_nodense_safe (outLeaf outT) fuel σ
    vb vc p hdb (by rw [hArr, hCap, hEty]; exact hinv.vals) hptr hp0 (by rw [hBon]; omega)
    (by rw [hBon]; intro h; omega)
  rw [hArr, hCap, hEty] at g1
  rw [hBon] at hroom1
  have hpv1 : p < vc1 := by have := hroom1 (by omega); omega
  have run1 : Runs fuel (writePosAllocation (outLeaf outT)).finalize σ o1.st := ⟨o1, e1, r1, rfl⟩
  have f1 : ∀ y, y ≠ valsName outT.name → y ≠ valsCapName outT.name →
      lookupVar o1.st.vars y = lookupVar σ.vars y := g1.vars
  -- block indices are valid
  obtain ⟨cblk, hcblk, hclive, hcown, hcty, hclen⟩ := hinv.crd.blk
  obtain ⟨vblk, hvblk, hvlive, hvown, hvty, hvlen⟩ := hinv.vals.blk
  have hcbl : cb < σ.heap.length := lt_length_of_getElem? hcblk
  have hvbl : vb < σ.heap.length := lt_length_of_getElem? hvblk
  have hvb1 : vb1 = vb ∨ vb1 = σ.heap.length := by
    rcases g1.old with ⟨h, _⟩ | ⟨h, _⟩
    · exact .inl h
    · exact .inr h
  have hcv1 : cb ≠ vb1 := by
    rcases hvb1 with h | h
    · rw [h]; exact hinv.hne
    · omega
  -- 2. bool written = false
  obtain ⟨σ2, r2, hh2, ht2, ⟨rw2, hrw1, hrw2, _⟩, f2⟩ := Dense1.runsI_declAssign (fuel := fuel)
    (x := writtenName outT.name 0) (t := .bool) (e := (.boolLit false : Expr F)) (σ := o1.st)
    (val := .bool false) (val' := .bool false)
    (by rw [f1 _ (by nm N) (by nm N)]; exact hinv.flag) (by simp [evalE]) rfl
  have run2 : Runs fuel (declAssignE (writtenName outT.name 0) .bool (.boolLit false)) o1.st σ2 := by
    obtain ⟨o, e, r, s, _⟩ := r2; exact ⟨o, e, r, s⟩
  -- 3. the terminal block
  have hbv2 : PtrVar σ2 (valsName bT.name) bvb := pre.bvals.congr (by
    rw [f2 _ (by nm N), f1 _ (by nm N) (by nm N), hinv.vars _ (by
      simp only [touched, midW, List.mem_cons, List.mem_append, List.not_mem_nil, or_false, not_or]
      and_intros <;> nm N)])
  have hpB2 : IntVar σ2 (layerPointer bT.id 0) q := hpB.congr (by
    rw [f2 _ (by nm N), f1 _ (by nm N) (by nm N)])
  have hpA2 : IntVar σ2 (layerPointer outT.id 0) p := hptr.congr (by
    rw [f2 _ (by nm N), f1 _ (by nm N) (by nm N)])
  obtain ⟨bblk, hbblk, hblive, hbty, hbcells⟩ := pre.bblk
  have hbl0 : bvb < σ0.heap.length := lt_length_of_getElem? hbblk
  have hbvb_ne : bvb ≠ vb ∧ bvb ≠ cb := by
    constructor
    · rcases hinv.hvb with h | h
      · rw [h]; exact pre.bne.2
      · omega
    · rcases hinv.hcb with h | h
      · rw [h]; exact pre.bne.1
      · omega
  have hbσ : σ.heap[bvb]? = some bblk := hinv.old bvb bblk pre.bne.1 pre.bne.2 hbblk
  have hbh2 : σ2.heap[bvb]? = some bblk := by rw [hh2]; exact g1.heap bvb bblk hbvb_ne.1 hbσ
  have hleaf : ∀ t ∈ ToIr.leaves e, ToIr.LeafOK σ2 (fun _ => cellsB q) t := by
    intro t ht
    rw [hl] at ht
    simp only [List.mem_cons, List.not_mem_nil, or_false] at ht
    subst ht
    refine ToIr.LeafOK.intro (p := q) hbv2 ?_ (by omega) (by omega)
      ⟨bblk, hbh2, hblive, hbty, by omega, by simpa using hbcells q hq⟩
    simp only [ToIr.CursorIs, hblen]
    exact hpB2
  obtain ⟨vblk1, hvblk1, hv1live, hv1own, hv1ty, hv1len⟩ := g1.inv.blk
  have hvb1l : vb1 < o1.st.heap.length := lt_length_of_getElem? hvblk1
  have hcell : ToIr.OutCell σ2 vb1 (0 + p) :=
    ⟨vblk1, by rw [hh2]; exact hvblk1, hv1live, hv1own, hv1ty, by omega, by omega⟩
  obtain ⟨tb, o3, htb, e3, r3, _, hheap3, ht3, _, hflag3, _, f3⟩ :=
    ToIr.terminal_append_sound ofRat (fun _ => cellsB q) σ2 e outT .evaluate rfl 0 fuel vb1 0 p hleaf
      (pre.fin q hq)
      (ToIr.PtrAt.of_ptrVar (g1.inv.arr.congr (f2 _ (by nm N))))
      (by
        rw [holen]
        exact evalE_var_int hpA2 (by omega) (by omega))
      hcell
      (by
        intro f hf
        rw [ToIr.activeFlags_ne _ hne0, holen, writtenFlags_eq outT ho2] at hf
        simp only [List.mem_cons, List.not_mem_nil, or_false] at hf
        subst hf
        exact ⟨rw2, hrw1, hrw2⟩)
  rw [holen, lower_terminal_eq ofRat 0 outT e ho2 holen hne0] at htb
  cases htb
  rw [holen, writtenFlags_eq outT ho2] at hflag3 f3
  have run3 : Runs fuel (termBlock ofRat outT e) σ2 o3.st := ⟨o3, e3, r3, rfl⟩
  have hcp := ToIr.writeCell_post hcell (.flt (ToIr.valueF ofRat (fun _ => cellsB q) e))
  have hlen3 : o3.st.heap.length = σ2.heap.length := by rw [hheap3]; exact hcp.len
  have hother3 : ∀ b', b' ≠ vb1 → o3.st.heap[b']? = σ2.heap[b']? := by
    intro b' hb'; rw [hheap3]; exact hcp.other b' hb'
  obtain ⟨vblk2, vblk3, hvblk2, hvblk3, hv3ty, hv3own, hv3live, hv3len, hv3cell, hv3cells⟩ := hcp.blk
  rw [← hheap3] at hvblk3
  rw [hh2, hvblk1] at hvblk2
  cases hvblk2
  have hfl3 : ToIr.FlagTrue o3.st (writtenName outT.name 0) := hflag3 hne0 _ (by simp)
  have f3' : ∀ y, y ≠ writtenName outT.name 0 → lookupVar o3.st.vars y = lookupVar σ2.vars y := by
    intro y hy; exact f3 y (by simpa using hy)
  -- 4. crd assembly
  have hcb3 : o3.st.heap[cb]? = some cblk := by
    rw [hother3 cb hcv1, hh2]; exact g1.heap cb cblk hinv.hne hcblk
  have hcrd3 : ArrInv o3.st (crdName outT.name 0) (crdCapName outT.name 0) .int cb cc :=
    ⟨hinv.crd.arr.congr (by rw [f3' _ (by nm N), f2 _ (by nm N), f1 _ (by nm N) (by nm N)]),
     hinv.crd.cap.congr (by rw [f3' _ (by nm N), f2 _ (by nm N), f1 _ (by nm N) (by nm N)]),
     ⟨cblk, hcb3, hclive, hcown, hcty, hclen⟩, hinv.crd.pos, hinv.crd.lt⟩
  have hpA3 : IntVar o3.st (layerPointer outT.id 0) p := hpA2.congr (f3' _ (by nm N))
  have hi3 : IntVar o3.st (outLeaf outT).index (crdB q) := by
    rw [hidx]
    exact hi.congr (by rw [f3' _ (by nm N), f2 _ (by nm N), f1 _ (by nm N) (by nm N)])
  obtain ⟨σ4, cb4, cc4, run4, sp, hpA4, hi4⟩ := crdAssembly_runs (outLeaf outT) fuel o3.st cb cc p (crdB q)
    hcrd3 hpA3 hp0 hlec hi3 hr0 hr1 (by intro h; omega)
    (namesDistinct_of_index _ (by rw [hidx]; exact N.iu))
  have f4 : ∀ y, y ≠ crdName outT.name 0 → y ≠ crdCapName outT.name 0 →
      lookupVar σ4.vars y = lookupVar o3.st.vars y := sp.vars
  -- 5. p_a++
  have hpA4' : IntVar σ4 (layerPointer outT.id 0) p := hpA4
  have run5 := Runs.assign_int (fuel := fuel) hpA4'
    (evalE_add (evalE_var_int hpA4' (by omega) (by omega))
      (evalE_intLit (σ := σ4) (v := 1) (by omega) (by omega)) (by omega) (by omega))
  generalize hσ5 : ({ σ4 with vars := setVar σ4.vars (layerPointer outT.id 0) (.int (p + 1)) } : State F) = σ5
    at run5
  have f5 : ∀ y, y ≠ layerPointer outT.id 0 → lookupVar σ5.vars y = lookupVar σ4.vars y := by
    intro y hy; rw [← hσ5]; exact lookupVar_setVar_other _ hy
  have hh5 : σ5.heap = σ4.heap := by rw [← hσ5]
  have ht5 : σ5.tensors = σ4.tensors := by rw [← hσ5]
  have hpA5 : IntVar σ5 (layerPointer outT.id 0) (p + 1) := by
    obtain ⟨r, e1, e2, _⟩ := hpA4'
    rw [← hσ5]
    exact ⟨_, lookupVar_setVar_same _ e1, e2, rfl⟩
  -- the run
  have hrun : Runs fuel (.block (branchBody ofRat outT e) none) σ σ5 :=
    Runs.block (RunsL.cons run1 (RunsL.cons run2 (RunsL.cons run3
      (RunsL.cons (Runs.branch_true (evalE_var_flag hfl3)
        (Runs.block (RunsL.cons run4 (RunsL.cons run5 (RunsL.nil _ _))))) (RunsL.nil _ _)))))
  -- frames
  have fvars : ∀ y, y ∉ midW outT → lookupVar σ5.vars y = lookupVar σ.vars y := by
    intro y hy
    simp only [midW, List.mem_cons, List.not_mem_nil, or_false, not_or] at hy
    obtain ⟨y1, y2, y3, y4, y5, y6⟩ := hy
    rw [f5 y y6, f4 y y4 y5, f3' y y3, f2 y y3, f1 y y1 y2]
  have fheap : ∀ k blk, k ≠ cb → k ≠ vb → σ.heap[k]? = some blk → σ5.heap[k]? = some blk := by
    intro k blk hk1 hk2 hk
    have hkl : k < σ.heap.length := lt_length_of_getElem? hk
    have hk3 : k ≠ vb1 := by rcases hvb1 with h | h <;> omega
    rw [hh5]
    apply sp.heap k blk hk1
    rw [hother3 k hk3, hh2]
    exact g1.heap k blk hk2 hk
  have hlen5 : σ.heap.length ≤ σ5.heap.length := by
    rw [hh5]
    refine Nat.le_trans ?_ sp.len
    rw [hlen3, hh2]; exact g1.len
  have hcb4 : cb4 = cb ∨ cb4 = o3.st.heap.length := by
    rcases sp.old with h | ⟨h, _⟩
    · exact .inl h
    · exact .inr h
  have hl13 : o3.st.heap.length = o1.st.heap.length := by rw [hlen3, hh2]
  -- the vals block in the final state
  have hv5 : σ5.heap[vb1]? = some vblk3 := by
    rw [hh5]; exact sp.heap vb1 vblk3 (Ne.symm hcv1) hvblk3
  obtain ⟨cblk4, hcblk4, hc4cell⟩ := sp.cell
  refine ⟨σ5, cb4, cc4, vb1, vc1, hrun, ?_, fvars, fheap⟩
  have hlenapp : ((tr ++ [crdB q]).length : Int) = p + 1 := by
    simp only [List.length_append, List.length_cons, List.length_nil]; omega
  have hlenNat : tr.length = p.toNat := by omega
  refine
    { tensors := ?_, len := Nat.le_trans hinv.len hlen5, old := ?_, vars := ?_, crd := ?_, vals := ?_,
      hcb := ?_, hvb := ?_, hne := ?_, ptr := ?_, lec := ?_, lev := ?_, crdCells := ?_, valsCells := ?_,
      flag := ?_ }
  · rw [ht5, sp.tensors, ht3, ht2, g1.tensors, hinv.tensors]
  · intro k blk hk1 hk2 hk
    have hkl : k < σ0.heap.length := lt_length_of_getElem? hk
    refine fheap k blk ?_ ?_ (hinv.old k blk hk1 hk2 hk)
    · rcases hinv.hcb with h | h <;> omega
    · rcases hinv.hvb with h | h <;> omega
  · intro y hy
    rw [fvars y (by
      intro hm; apply hy; simp only [touched, List.mem_append]; exact .inl hm), hinv.vars y hy]
  · exact sp.inv.congr hh5 (f5 (crdName outT.name 0) (by nm N)) (f5 (crdCapName outT.name 0) (by nm N))
  · refine ⟨g1.inv.arr.congr ?_, g1.inv.cap.congr ?_, ⟨vblk3, hv5, ?_, ?_, ?_, ?_⟩, g1.inv.pos, g1.inv.lt⟩
    · rw [f5 _ (by nm N), f4 _ (by nm N) (by nm N), f3' _ (by nm N), f2 _ (by nm N)]
    · rw [f5 _ (by nm N), f4 _ (by nm N) (by nm N), f3' _ (by nm N), f2 _ (by nm N)]
    · rw [hv3live]; exact hv1live
    · rw [hv3own]; exact hv1own
    · rw [hv3ty]; exact hv1ty
    · rw [hv3len]; exact hv1len
  · rcases hcb4 with h | h
    · rw [h]; exact hinv.hcb
    · right; rw [h, hl13]; exact Nat.le_trans hinv.len g1.len
  · rcases hvb1 with h | h
    · rw [h]; exact hinv.hvb
    · right; rw [h]; exact hinv.len
  · rcases hcb4 with h | h
    · rw [h]; exact hcv1
    · rw [h, hl13]; omega
  · rw [hlenapp]; exact hpA5
  · rw [hlenapp]; have := sp.bound; omega
  · rw [hlenapp]; omega
  · refine ⟨cblk4, by rw [hh5]; exact hcblk4, ?_⟩
    intro j hj
    simp only [List.length_append, List.length_cons, List.length_nil] at hj
    by_cases hjp : j < tr.length
    · obtain ⟨cb', hcb', hcells'⟩ := hinv.crdCells
      rw [hcblk] at hcb'; cases hcb'
      rw [List.getElem_append_left hjp]
      rw [sp.cells cblk cblk4 hcb3 hcblk4 j (by omega) (by omega)]
      exact hcells' j hjp
    · have hje : j = tr.length := by omega
      subst hje
      rw [List.getElem_append_right (Nat.le_refl _)]
      simp only [Nat.sub_self, List.getElem_cons_zero]
      rw [hlenNat]; exact hc4cell
  · refine ⟨vblk3, hv5, ?_⟩
    intro j hj
    simp only [List.length_append, List.length_cons, List.length_nil] at hj
    by_cases hjp : j < tr.length
    · obtain ⟨vb', hvb', hcells'⟩ := hinv.valsCells
      rw [hvblk] at hvb'; cases hvb'
      rw [List.getElem_append_left hjp]
      rw [hv3cells j (by omega), g1.cells vblk vblk1 hvblk hvblk1 j (by omega)]
      exact hcells' j hjp
    · have hje : j = tr.length := by omega
      subst hje
      rw [List.getElem_append_right (Nat.le_refl _)]
      simp only [Nat.sub_self, List.getElem_cons_zero]
      rw [pre.bAt q hq, hlenNat]
      simpa using hv3cell
  · intro r hr
    obtain ⟨r', e1, e2, _⟩ := hfl3
    rw [f5 _ (by nm N), f4 _ (by nm N) (by nm N), e1] at hr
    cases hr; exact e2

end step

end TV.Conv
