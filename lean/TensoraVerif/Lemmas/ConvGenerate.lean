import TensoraVerif.Lemmas.ConvLower
import TensoraVerif.Lemmas.Sparse1Generate

/-!
C01 for the format-conversion kernels, part 3: what `generateIr` produces for `a(i) = b(i)`, `a: s`, `b: d` —
the whole `evaluate` function, written out (`d2sKernel`, `d2s_generateIr`).
-/
namespace TV.Conv
open TV.IR TV.Gen TV.Graph TV.Merge
set_option linter.unusedSectionVars false
variable {F : Type} [FloatOps F]

/-- the format table: the compressed output first, then the dense input -/
def d2sFormats (formats : Formats) (outT bT : TensorId) : Prop :=
  formats.map (fun f => (f.1, f.2.1)) = [(outT.name, [Mode.compressed]), (bT.name, [Mode.dense])]

/-- `double* b_vals = b->vals;` -/
def unpackDense (name : String) : List (Stmt F) :=
  [declAssignE (valsName name) (.ptr .float) (.attr (.var name) "vals")]

theorem d2s_unpackDecls (formats : Formats) (outT bT : TensorId) (h : d2sFormats formats outT bT) :
    (unpackDecls formats : List (Stmt F)) = Sparse1.unpackStmts outT.name ++ unpackDense bT.name := by
  match formats, h with
  | [(n1, m1, o1), (n2, m2, o2)], h =>
    simp only [d2sFormats, List.map_cons, List.map_nil, List.cons.injEq, Prod.mk.injEq, and_true] at h
    obtain ⟨⟨rfl, rfl⟩, rfl, rfl⟩ := h
    simp [unpackDecls, List.range, List.range.loop, Sparse1.unpackStmts, unpackDense]

/-- the statements of the `evaluate` kernel, before `return 0` -/
def d2sKernelStmts (ofRat : Rat → F) (cap : Option Int) (i : String) (outT bT : TensorId) : List (Stmt F) :=
  [.block [declAssignE (dimName i) .int (.idx (.attr (.var outT.name) "dimensions") (.intLit 0))]
      (some "Extract dimensions"),
   .block (Sparse1.unpackStmts outT.name ++ unpackDense bT.name) (some "Unpack tensors"),
   .block (Sparse1.outInit cap outT) (some "Output initialization"),
   .block (d2sLoopLines ofRat i outT bT) (some ("*** Iteration over " ++ i ++ " ***")),
   .block (Sparse1.cleanupLines outT) (some ("Assembling output tensor " ++ outT.name))]

/-- the `evaluate` kernel of dense → compressed -/
def d2sKernel (ofRat : Rat → F) (cap : Option Int) (formats : Formats) (i : String) (outT bT : TensorId) :
    Func F :=
  ⟨"evaluate", formats.map fun f => (f.1, .ptr .tensor), .int,
    .block (d2sKernelStmts ofRat cap i outT bT ++ [.ret (.intLit 0)]) none⟩

/-- **(A) What `generateIr` produces for dense → compressed.** -/
theorem d2s_generateIr (ofRat : Rat → F) (cap : Option Int) (a : Alg.DAssign) (formats : Formats)
    (i : String) (outT bT : TensorId)
    (hout : tensorId 0 a.tname formats a.tidx = some outT) (hname : outT.name = a.tname)
    (ho : Sparse1.isSp i outT = true) (hb : Dense1.isLeaf i bT = true) (hf : d2sFormats formats outT bT)
    (hd : indexDimensions a = [(i, a.tname, 0)]) :
    generateIr ofRat cap a formats (graph i outT bT) .evaluate =
      .ok (d2sKernel ofRat cap formats i outT bT) := by
  have ho' := (Sparse1.isSp_iff i outT).1 ho
  have hsz : 4 * (graph i outT bT).size + 8 = 14 + 2 := by simp [graph, IGraph.size]
  have hu := d2s_unpackDecls (F := F) formats outT bT hf
  unfold unpackDecls at hu
  unfold generateIr
  simp only [hout, Option.getD_some, hsz, d2s_lower ofRat 14 i outT bT ho hb, hd,
    Sparse1.appendDeclarations_eq1 cap outT ho'.2, Sparse1.appendCleanup_eq1 outT ho'.2, hu]
  simp [bind, Except.bind, pure, Except.pure, d2sKernel, d2sKernelStmts, SB.add, SB.append, SB.empty,
    SB.finalize, Kind.name, hname]

end TV.Conv
