import TensoraVerif.Lemmas.ConvBlock
import TensoraVerif.Lemmas.Sparse1Kernel

/-!
C01 for the format-conversion kernels, part 8: the cleanup of dense → compressed (`Sparse1.cleanup_runs` for
the initial state `D2SInit`) and the whole `evaluate` function on the machine (`d2s_kernel_runs`), from
`D2SInit` to `Sparse1.KernelPost` with the coordinates `0, 1, …, n-1`.
-/
namespace TV.Conv
open TV.IR TV.Gen TV.Graph TV.Growth TV.Merge TV.Dense1 TV.Sparse1
set_option linter.unusedSectionVars false
set_option linter.unusedVariables false
variable {F : Type} [FloatOps F]

set_option maxHeartbeats 1000000 in
/-- **the cleanup**: the final reallocs and the hand-over to the output record (the proof of
`Sparse1.cleanup_runs`; of the initial state only the output record is used) -/
theorem d2s_cleanup_runs {ofRat : Rat → F} {i : String} {outT bT : TensorId} {e : IdExpr}
    (N : KNames i outT bT)
    {ta tb : Nat} {atr btr : TensorRec F} {n m bvb : Nat} {crdB : Nat → Int}
    {cellsB cellsB' : Nat → F} {σ0 σF : State F}
    (init : D2SInit outT bT ta tb atr btr n bvb cellsB' σ0)
    (al : AfterLoop ofRat outT e ta m crdB cellsB σ0 σF) (hm : m ≤ 1073741824) (fuel : Nat) :
    ∃ σG, RunsLI fuel (cleanupLines outT) σF σG 0 ∧ KernelPost ofRat e ta atr m crdB cellsB σ0 σG := by
  obtain ⟨cb, vb, cblk, vblk, hcv, hvv, hcbH, hvbH, hcvne, hcblk, hclive, hcown, hcty, hclen, hccells,
    hvblk, hvlive, hvown, hvty, hvlen, hvcells⟩ := al.arrs
  obtain ⟨ap, ac, hasl, _, _⟩ := init.aslot
  have hcbL : cb < σF.heap.length := lt_length_of_getElem? hcblk
  have hvbL : vb < σF.heap.length := lt_length_of_getElem? hvblk
  have hHL : σ0.heap.length < σF.heap.length := lt_length_of_getElem? al.pos
  have htaL : ta < σF.tensors.length := by rw [al.tensors]; exact lt_length_of_getElem? init.arec
  have hsl0 : 0 < atr.slots.length := lt_length_of_getElem? hasl
  have ept : evalE σF (.var (layerPointer outT.id 0)) = .ok (.int m) :=
    evalE_var_int al.ptr (by omega) (by omega)
  -- G1
  have r1 := Cleanup.runs_realloc (fuel := fuel) (ty := .int) (ety := .int) hcv ept (by omega) rfl hcblk hclive
    hcown hcty
  generalize hσ1 : Cleanup.reallocState σF (crdName outT.name 0) cb cblk .int m = σ1 at r1
  have hv1 : σ1.vars = setVar σF.vars (crdName outT.name 0) (.ptr σF.heap.length 0) := by rw [← hσ1]; rfl
  have hh1 : σ1.heap = σF.heap.set cb { cblk with live := false } ++
      [⟨.int, cblk.cells.take (m : Int).toNat ++ List.replicate ((m : Int).toNat - cblk.cells.length) none,
        .output, true⟩] := by rw [← hσ1]; rfl
  have ht1 : σ1.tensors = σF.tensors := by rw [← hσ1]; rfl
  have f1 : ∀ y, y ≠ crdName outT.name 0 → lookupVar σ1.vars y = lookupVar σF.vars y := by
    intro y hy; rw [hv1]; exact lookupVar_setVar_other _ hy
  have hcrd1 : PtrVar σ1 (crdName outT.name 0) σF.heap.length := by
    obtain ⟨r, t, e1, e2, _⟩ := hcv
    exact ⟨{ r with val := some (.ptr σF.heap.length 0) }, t,
      by rw [hv1]; exact lookupVar_setVar_same _ e1, e2, rfl⟩
  have hl1 : σ1.heap.length = σF.heap.length + 1 := by rw [hh1]; simp
  -- G2
  have r2 := Cleanup.runs_slot (fuel := fuel) (x := outT.name) (arr := posName outT.name 0) (ti := ta)
    (tr := atr) (l := 0) (s := (ap, ac)) (j := 0) (.inl rfl) (al.avar.congr (f1 _ (by nm N)))
    (by rw [ht1, al.tensors]; exact init.arec) init.aown init.aord (by omega) hasl
    (al.apos.congr (f1 _ (by nm N)))
  simp only [if_true] at r2
  generalize hσ2 : Cleanup.slotState σ1 ta atr 0 (.ptr σ0.heap.length 0, ac) = σ2 at r2
  have hv2 : σ2.vars = σ1.vars := by rw [← hσ2]; rfl
  have hh2 : σ2.heap = σ1.heap := by rw [← hσ2]; rfl
  have ht2 : σ2.tensors = σF.tensors.set ta
      { atr with slots := atr.slots.set 0 (some (.ptr σ0.heap.length 0, ac)) } := by
    rw [← hσ2, ← ht1]; rfl
  -- G3
  have r3 := Cleanup.runs_slot (fuel := fuel) (σ := σ2) (x := outT.name) (arr := crdName outT.name 0) (ti := ta)
    (tr := { atr with slots := atr.slots.set 0 (some (.ptr σ0.heap.length 0, ac)) }) (l := 0)
    (s := (.ptr σ0.heap.length 0, ac)) (j := 1) (p := σF.heap.length) (.inr rfl)
    (al.avar.congr (by rw [hv2, f1 _ (by nm N)]))
    (by rw [ht2, List.getElem?_set_self htaL]) init.aown init.aord (by omega)
    (by simp [hsl0]) (hcrd1.congr (by rw [hv2]))
  simp only [show ¬ ((1 : Int) = 0) by omega, if_false] at r3
  generalize hσ3 : Cleanup.slotState σ2 ta
    { atr with slots := atr.slots.set 0 (some (.ptr σ0.heap.length 0, ac)) } 0
    (.ptr σ0.heap.length 0, .ptr σF.heap.length 0) = σ3 at r3
  have hv3 : σ3.vars = σ1.vars := by rw [← hσ3, ← hv2]; rfl
  have hh3 : σ3.heap = σ1.heap := by rw [← hσ3, ← hh2]; rfl
  have ht3 : σ3.tensors = σF.tensors.set ta
      { atr with slots := atr.slots.set 0 (some (.ptr σ0.heap.length 0, .ptr σF.heap.length 0)) } := by
    rw [← hσ3]
    show σ2.tensors.set ta _ = _
    rw [ht2, List.set_set]
    simp
  -- G4
  have hvb3 : σ3.heap[vb]? = some vblk := by
    rw [hh3, hh1, List.getElem?_append_left (by simpa using hvbL), List.getElem?_set_ne (by omega)]
    exact hvblk
  have ept3 : evalE σ3 (plus (.var (layerPointer outT.id 0)) (.intLit 1)) = .ok (.int ((m : Int) + 1)) :=
    evalE_add (evalE_var_int (al.ptr.congr (by rw [hv3, f1 _ (by nm N)])) (by omega) (by omega))
      (evalE_intLit (by omega) (by omega)) (by omega) (by omega)
  have r4 := Cleanup.runs_realloc (fuel := fuel) (σ := σ3) (ty := .float) (ety := .float)
    (hvv.congr (by rw [hv3, f1 _ (by nm N)])) ept3 (by omega) rfl hvb3 hvlive hvown hvty
  generalize hσ4 : Cleanup.reallocState σ3 (valsName outT.name) vb vblk .float ((m : Int) + 1) = σ4 at r4
  have hv4 : σ4.vars = setVar σ3.vars (valsName outT.name) (.ptr σ3.heap.length 0) := by rw [← hσ4]; rfl
  have hh4 : σ4.heap = σ3.heap.set vb { vblk with live := false } ++
      [⟨.float, vblk.cells.take ((m : Int) + 1).toNat ++
        List.replicate (((m : Int) + 1).toNat - vblk.cells.length) none, .output, true⟩] := by
    rw [← hσ4]; rfl
  have ht4 : σ4.tensors = σ3.tensors := by rw [← hσ4]; rfl
  have hvals4 : PtrVar σ4 (valsName outT.name) (σF.heap.length + 1) := by
    obtain ⟨r, t, e1, e2, _⟩ := hvv
    refine ⟨{ r with val := some (.ptr (σF.heap.length + 1) 0) }, t, ?_, e2, rfl⟩
    rw [hv4, hh3, hl1]
    exact lookupVar_setVar_same _ (by rw [hv3, f1 _ (by nm N)]; exact e1)
  -- G5
  have r5 := Cleanup.runs_vals (fuel := fuel) (σ := σ4) (x := outT.name) (arr := valsName outT.name) (ti := ta)
    (tr := { atr with slots := atr.slots.set 0 (some (.ptr σ0.heap.length 0, .ptr σF.heap.length 0)) })
    (p := σF.heap.length + 1)
    (al.avar.congr (by rw [hv4, lookupVar_setVar_other _ (by nm N), hv3, f1 _ (by nm N)]))
    (by rw [ht4, ht3, List.getElem?_set_self htaL]) init.aown hvals4
  generalize hσ5 : Cleanup.valsState σ4 ta
    { atr with slots := atr.slots.set 0 (some (.ptr σ0.heap.length 0, .ptr σF.heap.length 0)) }
    (.ptr (σF.heap.length + 1) 0) = σ5 at r5
  have hh5 : σ5.heap = σ4.heap := by rw [← hσ5]; rfl
  have ht5 : σ5.tensors = σ4.tensors.set ta
      { atr with slots := atr.slots.set 0 (some (.ptr σ0.heap.length 0, .ptr σF.heap.length 0)),
                 vals := .ptr (σF.heap.length + 1) 0 } := by rw [← hσ5]; rfl
  refine ⟨σ5, RunsLI.cons (RunsI.of_assign r1) (RunsLI.cons (RunsI.of_assign r2) (RunsLI.cons (RunsI.of_assign r3)
    (RunsLI.cons (RunsI.of_assign r4) (RunsLI.cons (RunsI.of_assign r5) (RunsLI.nil _ _))))), ?_⟩
  -- the final heap
  have hfin : ∀ k blk, k < σF.heap.length → k ≠ cb → k ≠ vb → σF.heap[k]? = some blk →
      σ5.heap[k]? = some blk := by
    intro k blk hk h1 h2 hkb
    rw [hh5, hh4, List.getElem?_append_left (by rw [List.length_set, hh3, hl1]; omega),
      List.getElem?_set_ne (Ne.symm h2), hh3, hh1, List.getElem?_append_left (by simpa using hk),
      List.getElem?_set_ne (Ne.symm h1)]
    exact hkb
  have hm' : (m : Int).toNat = m := by omega
  have hm1 : ((m : Int) + 1).toNat = m + 1 := by omega
  have hcF : σ5.heap[σF.heap.length]? = some
      ⟨.int, (List.range m).map (fun j => some (.int (crdB j))), .output, true⟩ := by
    rw [hh5, hh4, List.getElem?_append_left (by rw [List.length_set, hh3, hl1]; omega),
      List.getElem?_set_ne (by omega), hh3, hh1]
    have : (σF.heap.set cb { cblk with live := false }).length = σF.heap.length := by simp
    rw [List.getElem?_append_right (by omega), this]
    simp only [Nat.sub_self, List.getElem?_cons_zero, Option.some.injEq, Block.mk.injEq, and_true, true_and]
    apply List.ext_getElem?
    intro j
    rw [hm', show m - cblk.cells.length = 0 by omega]
    simp only [List.replicate_zero, List.append_nil]
    by_cases hj : j < m
    · rw [List.getElem?_take_of_lt hj, hccells j hj]; simp [hj]
    · rw [List.getElem?_eq_none (by simp; omega), List.getElem?_eq_none (by simp; omega)]
  have hvF : ∃ vblk', σ5.heap[σF.heap.length + 1]? = some vblk' ∧ vblk'.live = true ∧ vblk'.owner = .output ∧
      vblk'.ty = .float ∧ vblk'.cells.length = m + 1 ∧
      ∀ j, j < m → vblk'.cells[j]? = some (some (.flt (ToIr.valueF ofRat (fun _ => cellsB j) e))) := by
    refine ⟨⟨.float, vblk.cells.take ((m : Int) + 1).toNat ++
        List.replicate (((m : Int) + 1).toNat - vblk.cells.length) none, .output, true⟩, ?_, rfl, rfl, rfl, ?_, ?_⟩
    · rw [hh5, hh4]
      have : (σ3.heap.set vb { vblk with live := false }).length = σF.heap.length + 1 := by
        rw [List.length_set, hh3, hl1]
      rw [List.getElem?_append_right (by omega), this]
      simp
    · simp only [List.length_append, List.length_take, List.length_replicate, hm1]
      omega
    · intro j hj
      simp only [hm1]
      rw [List.getElem?_append_left (by simp; omega), List.getElem?_take_of_lt (by omega)]
      exact hvcells j hj
  obtain ⟨vblk', hv1', hv2', hv3', hv4', hv5', hv6'⟩ := hvF
  refine
    { outRec := ⟨{ atr with
          slots := atr.slots.set 0 (some (.ptr σ0.heap.length 0, .ptr σF.heap.length 0)),
          vals := .ptr (σF.heap.length + 1) 0 }, σ0.heap.length, σF.heap.length, σF.heap.length + 1, vblk', ?_, init.aown, rfl, rfl, rfl, rfl,
        Nat.le_refl _, by omega, by omega, by omega, by omega, by omega, ?_, hcF, hv1', hv2', hv3', hv4', hv5',
        hv6'⟩,
      otherRecs := ?_, tlen := ?_, heap := ?_ }
  · rw [ht5, List.getElem?_set_self (by rw [ht4, ht3]; simpa using htaL)]
  · exact hfin _ _ hHL (by omega) (by omega) al.pos
  · intro k hk
    rw [ht5, List.getElem?_set_ne (Ne.symm hk), ht4, ht3, List.getElem?_set_ne (Ne.symm hk), al.tensors]
  · rw [ht5, List.length_set, ht4, ht3, List.length_set, al.tensors]
  · intro k hk
    cases hk' : σ0.heap[k]? with
    | none => rw [List.getElem?_eq_none_iff] at hk'; omega
    | some blk =>
      exact hfin k blk (by omega) (by omega) (by omega) (by rw [al.old k hk]; exact hk')


/-- static side conditions of the kernel theorem: the names (`Sparse1.KNames`) and the format table (the
compressed output first, then the dense input) -/
structure D2SOK (formats : Formats) (i : String) (outT bT : TensorId) : Prop where
  names : KNames i outT bT
  fmt : d2sFormats formats outT bT

/-- **(A) the whole `evaluate` function of dense → compressed on the machine** -/
theorem d2s_kernel_runs (ofRat : Rat → F) (cap : Option Int) (formats : Formats) (i : String) (outT bT : TensorId)
    (ho : isSp i outT = true) (hb : isLeaf i bT = true) (N : KNames i outT bT)
    (hk0 : 1 ≤ capVal cap) (hk1 : capVal cap < 2147483648)
    {ta tb : Nat} {atr btr : TensorRec F} {n bvb : Nat} {cellsB : Nat → F} {σ : State F}
    (init : D2SInit outT bT ta tb atr btr n bvb cellsB σ)
    (hn : n ≤ 1073741824)
    (hfin : ∀ q, q < n → ToIr.AllFinite ofRat (fun _ => cellsB q) (.tensor bT))
    (fuel : Nat) (hfuel : n + 1 ≤ fuel) :
    ∃ o, exec fuel (d2sKernel ofRat cap formats i outT bT).body σ = .ok o ∧ o.ret = some (.int 0) ∧
      o.iters = n ∧ KernelPost ofRat (.tensor bT) ta atr n idCrd cellsB σ o.st := by
  obtain ⟨σC, rC, entry⟩ := d2s_prologue_runs N cap hk0 hk1 init fuel
  obtain ⟨σF, rF, al⟩ := d2s_iterBlock_runs N ho hb hk0 hk1 init entry hn hfin fuel hfuel
  obtain ⟨σG, rG, post⟩ := d2s_cleanup_runs N init al hn fuel
  have rAll : RunsLI fuel (d2sKernelStmts ofRat cap i outT bT) σ σG (0 + (n + (0 + 0))) := by
    unfold d2sKernelStmts
    have h3 := RunsLI.append rC (RunsLI.cons (RunsI.block
      (c := some ("*** Iteration over " ++ i ++ " ***")) rF)
      (RunsLI.cons (RunsI.block (c := some ("Assembling output tensor " ++ outT.name)) rG) (RunsLI.nil _ _)))
    simpa using h3
  obtain ⟨o, eo, hret, hst, hit⟩ := execL_ret (e := .intLit 0) (v := .int 0) rAll
    (evalE_intLit (by omega) (by omega))
  refine ⟨o, ?_, hret, by rw [hit]; omega, by rw [hst]; exact post⟩
  show exec fuel (.block (d2sKernelStmts ofRat cap i outT bT ++ [.ret (.intLit 0)]) none) σ = _
  rw [exec.eq_5]
  exact eo

end TV.Conv
