import TensoraVerif.Lemmas.ConvBranch
import TensoraVerif.Lemmas.Dense1Loop

/-!
C01 for the format-conversion kernels, part 5: the DENSE loop of dense → compressed on the machine.
One iteration (`d2s_body_runs`): the cursor declaration `int p_b = 0 * i_dim + i`, the append branch
(`branch_step`), `i = i + 1`; the whole loop by induction on the number of remaining iterations
(`d2s_loop_runs`): exactly `n` iterations, every coordinate `0 … n-1` is appended.
-/
namespace TV.Conv
open TV.IR TV.Gen TV.Graph TV.Growth TV.Merge TV.Sparse1 TV.Dense1
set_option linter.unusedSectionVars false
variable {F : Type} [FloatOps F]

/-- the value a dense operand stores at coordinate `x` -/
def denseAt (cellsB : Nat → F) (x : Int) : F := cellsB x.toNat

/-- the "coordinate array" of a dense operand: position `q` is coordinate `q` -/
def idCrd : Nat → Int := fun q => (q : Int)

theorem map_idCrd_succ (j : Nat) :
    (List.range (j + 1)).map idCrd = (List.range j).map idCrd ++ [idCrd j] := by
  simp [List.range_succ]

/-- `Sparse1.Inv` does not look at the index, the input cursor and the loaded coordinate -/
theorem inv_frame {ofRat : Rat → F} {i : String} {outT bT : TensorId} {e : IdExpr} {bAt : Int → F}
    {cb0 vb0 : Nat} {σ0 : State F} {cb : Nat} {cc : Int} {vb : Nat} {vc : Int} {tr : List Int}
    {σ σ' : State F} (N : KNames i outT bT)
    (h : Inv ofRat i outT bT e bAt cb0 vb0 σ0 cb cc vb vc tr σ)
    (hh : σ'.heap = σ.heap) (ht : σ'.tensors = σ.tensors)
    (hv' : ∀ y, y ≠ i → y ≠ layerPointer bT.id 0 → y ≠ valueFromCrd bT.id 0 →
      lookupVar σ'.vars y = lookupVar σ.vars y) :
    Inv ofRat i outT bT e bAt cb0 vb0 σ0 cb cc vb vc tr σ' := by
  refine
    { tensors := by rw [ht]; exact h.tensors, len := by rw [hh]; exact h.len,
      old := by rw [hh]; exact h.old, vars := ?_, crd := ?_, vals := ?_,
      hcb := h.hcb, hvb := h.hvb, hne := h.hne, ptr := ?_, lec := h.lec, lev := h.lev,
      crdCells := by rw [hh]; exact h.crdCells, valsCells := by rw [hh]; exact h.valsCells, flag := ?_ }
  · intro y hy
    have hy' := hy
    simp only [touched, midW, List.mem_cons, List.mem_append, List.not_mem_nil, or_false, not_or] at hy'
    rw [hv' y hy'.2.1 hy'.2.2.1 hy'.2.2.2, h.vars y hy]
  · exact h.crd.congr hh (hv' _ (by nm N) (by nm N) (by nm N)) (hv' _ (by nm N) (by nm N) (by nm N))
  · exact h.vals.congr hh (hv' _ (by nm N) (by nm N) (by nm N)) (hv' _ (by nm N) (by nm N) (by nm N))
  · exact h.ptr.congr (hv' _ (by nm N) (by nm N) (by nm N))
  · rw [hv' _ (by nm N) (by nm N) (by nm N)]; exact h.flag

/-- **The loop invariant of dense → compressed** before iteration `j`: `Sparse1.Inv` for the history
`0, 1, …, j-1` (so the output cursor is `j`, `a_crd[k] = k` and `a_vals[k] = b_vals[k]` for `k < j`), the index
`i` holds `j`, and the input cursor `p_b` is undeclared or an `int`. -/
structure D2SInv (ofRat : Rat → F) (i : String) (outT bT : TensorId) (cellsB : Nat → F) (cb0 vb0 : Nat)
    (σ0 : State F) (j : Nat) (σ : State F) : Prop where
  inv : ∃ cb cc vb vc, Inv ofRat i outT bT (.tensor bT) (denseAt cellsB) cb0 vb0 σ0 cb cc vb vc
    ((List.range j).map idCrd) σ
  idx : IntVar σ i j
  pb : ∀ r, lookupVar σ.vars (layerPointer bT.id 0) = some r → r.ty = .int

theorem noLoop_branchBlock (ofRat : Rat → F) (outT : TensorId) (e : IdExpr) :
    noLoop (.block (branchBody ofRat outT e) none) = true := by
  simp [noLoopL, noLoop, branchBody, noLoop_writePosAllocation, termBlock, termBlockLines,
    declAssignE, increment, writeCrdAssembly_shape]

section
variable {ofRat : Rat → F} {i : String} {outT bT : TensorId} {n bvb : Nat}
  {cellsB : Nat → F} {cb0 vb0 : Nat} {σ0 : State F}

/-- **(A) one iteration of the dense loop**: coordinate `j` is appended, whatever the value `b` stores there -/
theorem d2s_body_runs (N : KNames i outT bT) (ho : isSp i outT = true) (hb : isLeaf i bT = true)
    (pre : LoopPre ofRat bT (.tensor bT) n bvb cellsB idCrd (denseAt cellsB) cb0 vb0 σ0)
    (hdim : IntVar σ0 (dimName i) n)
    (fuel : Nat) (σ : State F) (j : Nat) (hj : j < n)
    (h : D2SInv ofRat i outT bT cellsB cb0 vb0 σ0 j σ) :
    ∃ σ', RunsLI fuel (d2sBody ofRat i outT bT) σ σ' 0 ∧
      D2SInv ofRat i outT bT cellsB cb0 vb0 σ0 (j + 1) σ' := by
  obtain ⟨hb1, hb2⟩ := (isLeaf_iff i bT).1 hb
  obtain ⟨⟨cb, cc, vb, vc, hinv⟩, hidx, hpb⟩ := h
  have hsmall := pre.small
  have hdimσ : IntVar σ (dimName i) n := hdim.congr (hinv.vars _ (by
    simp only [touched, midW, List.mem_cons, List.mem_append, List.not_mem_nil, or_false, not_or]
    and_intros <;> nm N))
  -- 1. int p_b = 0 * i_dim + i
  have ei := evalE_var_int hidx (by omega) (by omega)
  have ed := evalE_var_int hdimσ (by omega) (by omega)
  have e0 : evalE σ (plus (times (.intLit 0) (.var (dimName i))) (.var i)) = .ok (.int (0 * (n : Int) + j)) :=
    evalE_add (evalE_mul (evalE_intLit (by omega) (by omega)) ed (by omega) (by omega)) ei
      (by omega) (by omega)
  obtain ⟨σ1, r1, hh1, ht1, ⟨r, hr1, hr2, hr3⟩, o1⟩ :=
    runsI_declAssign (fuel := fuel) (x := layerPointer bT.id 0) (t := .int) (val' := .int (0 * (n : Int) + j))
      hpb e0 rfl
  have hpB1 : IntVar σ1 (layerPointer bT.id 0) j := ⟨r, hr1, hr2, by rw [hr3]; congr 2; omega⟩
  have hi1 : IntVar σ1 i (idCrd j) := hidx.congr (o1 _ (by nm N))
  have hinv1 := inv_frame N hinv hh1 ht1 (fun y _ h2 _ => o1 y h2)
  -- 2. the append branch
  obtain ⟨σ2, cb', cc', vb', vc', run2, hinv2, fvars2, _⟩ := branch_step N ho (e := .tensor bT) rfl
    (by rw [hb1]; rfl) pre fuel σ1 _ cb cc vb vc j hj (by simpa using hj) hinv1 hpB1 hi1
    (by simp only [idCrd]; omega) (by simp only [idCrd]; omega)
  have r2 : RunsI fuel (d2sMid ofRat outT bT) σ1 σ2 0 :=
    RunsI.branch_true (by simp [evalE]) (RunsN.of_runs run2 (noLoop_branchBlock _ _ _))
  have hi2 : IntVar σ2 i j := hi1.congr (fvars2 _ (by
    simp only [midW, List.mem_cons, List.not_mem_nil, or_false, not_or]; and_intros <;> nm N))
  have hpB2 : IntVar σ2 (layerPointer bT.id 0) j := hpB1.congr (fvars2 _ (by
    simp only [midW, List.mem_cons, List.not_mem_nil, or_false, not_or]; and_intros <;> nm N))
  -- 3. i = i + 1
  have run3 := Runs.assign_int (fuel := fuel) hi2
    (evalE_add (evalE_var_int hi2 (by omega) (by omega))
      (evalE_intLit (σ := σ2) (v := 1) (by omega) (by omega)) (by omega) (by omega))
  generalize hσ3 : ({ σ2 with vars := setVar σ2.vars i (.int ((j : Int) + 1)) } : State F) = σ3 at run3
  have o3 : ∀ y, y ≠ i → lookupVar σ3.vars y = lookupVar σ2.vars y := by
    intro y hy; rw [← hσ3]; exact lookupVar_setVar_other _ hy
  have hh3 : σ3.heap = σ2.heap := by rw [← hσ3]
  have ht3 : σ3.tensors = σ2.tensors := by rw [← hσ3]
  have hi3 : IntVar σ3 i ((j + 1 : Nat) : Int) := by
    obtain ⟨r, e1, e2, _⟩ := hi2
    rw [← hσ3]
    exact ⟨_, lookupVar_setVar_same _ e1, e2, by simp⟩
  refine ⟨σ3, RunsLI.cons r1 (RunsLI.cons r2 (RunsLI.cons (RunsI.of_assign run3) (RunsLI.nil _ _))), ?_, hi3, ?_⟩
  · rw [map_idCrd_succ]
    exact ⟨cb', cc', vb', vc', inv_frame N hinv2 hh3 ht3 (fun y h1 _ _ => o3 y h1)⟩
  · rw [o3 _ (by nm N)]
    exact intVar_ty_int hpB2

/-- **(A) the `while` loop**, by induction on the number `rem` of remaining iterations -/
theorem d2s_while_runs (N : KNames i outT bT) (ho : isSp i outT = true) (hb : isLeaf i bT = true)
    (pre : LoopPre ofRat bT (.tensor bT) n bvb cellsB idCrd (denseAt cellsB) cb0 vb0 σ0)
    (hdim : IntVar σ0 (dimName i) n) :
    ∀ (rem j : Nat) (σ : State F) (fuel : Nat), j + rem = n →
      D2SInv ofRat i outT bT cellsB cb0 vb0 σ0 j σ → rem + 1 ≤ fuel →
      ∃ σ', RunsI fuel (d2sLoop ofRat i outT bT) σ σ' rem ∧
        D2SInv ofRat i outT bT cellsB cb0 vb0 σ0 n σ' := by
  have hsmall := pre.small
  have hdimOf : ∀ j σ, D2SInv ofRat i outT bT cellsB cb0 vb0 σ0 j σ → IntVar σ (dimName i) n := by
    intro j σ h
    obtain ⟨cb, cc, vb, vc, hinv⟩ := h.inv
    exact hdim.congr (hinv.vars _ (by
      simp only [touched, midW, List.mem_cons, List.mem_append, List.not_mem_nil, or_false, not_or]
      and_intros <;> nm N))
  intro rem
  induction rem with
  | zero =>
    intro j σ fuel hjm h hfuel
    obtain ⟨fuel', rfl⟩ := Nat.exists_eq_add_of_le hfuel
    have hjn : j = n := by omega
    subst hjn
    have ec := Dense1.evalE_lt (evalE_var_int h.idx (by omega) (by omega))
      (evalE_var_int (hdimOf _ _ h) (by omega) (by omega))
    have hd : decide ((j : Int) < (j : Int)) = false := by simp
    rw [hd] at ec
    refine ⟨σ, ?_, h⟩
    rw [show 0 + 1 + fuel' = fuel' + 1 by omega]
    exact RunsI.loop_false ec
  | succ rem ih =>
    intro j σ fuel hjm h hfuel
    obtain ⟨fuel', rfl⟩ := Nat.exists_eq_add_of_le hfuel
    have hjn : j < n := by omega
    have ec := Dense1.evalE_lt (evalE_var_int h.idx (by omega) (by omega))
      (evalE_var_int (hdimOf _ _ h) (by omega) (by omega))
    have hd : decide ((j : Int) < (n : Int)) = true := by simp; omega
    rw [hd] at ec
    obtain ⟨σ1, r1, h1⟩ := d2s_body_runs N ho hb pre hdim (rem + 1 + fuel') σ j hjn h
    obtain ⟨σ', r2, hp⟩ := ih (j + 1) σ1 (rem + 1 + fuel') (by omega) h1 (by omega)
    refine ⟨σ', ?_, hp⟩
    have := RunsI.loop_true ec (RunsI.block r1) r2
    rw [show rem + 1 + 1 + fuel' = rem + 1 + fuel' + 1 by omega]
    simpa [d2sLoop] using this

end

end TV.Conv
