import TensoraVerif.Lemmas.ConvModel
import TensoraVerif.Lemmas.Sparse1Lower
import TensoraVerif.Lemmas.Dense1Lower
/-!
C01 for the format-conversion kernels, part 2: what `lower` emits for `a(i) = b(i)`, `a: s`, `b: d`.
-/
namespace TV.Conv
set_option linter.unusedSimpArgs false
open TV.IR TV.Gen TV.Graph TV.Merge
variable {F : Type} [FloatOps F]

theorem ctx_eq (i : String) (bT : TensorId) (hb : Dense1.isLeaf i bT = true) :
    extractContext (.tensor bT) i = ⟨false, [], [⟨bT, 0⟩]⟩ := by
  obtain ⟨h1, h2⟩ := (Dense1.isLeaf_iff i bT).1 hb
  simp [extractContext, h1, h2]

theorem generateSubgraphs_eq (i : String) (outT bT : TensorId) (hb : Dense1.isLeaf i bT = true) :
    generateSubgraphs (graph i outT bT) = [graph i outT bT] := by
  have hc : compressedDims (graph i outT bT) = [] := by
    simp [compressedDims, graph, nodeContext, IGraph.context, ctx_eq i bT hb, dedupStr]
  simp [generateSubgraphs, hc, generateSubgraphs.go, sortByLenDesc]

/-- **(A) What `lower` emits for dense → compressed.** -/
theorem d2s_lower (ofRat : Rat → F) (n : Nat) (i : String) (outT bT : TensorId)
    (ho : Sparse1.isSp i outT = true) (hb : Dense1.isLeaf i bT = true) :
    lower ofRat (n + 2) (graph i outT bT) (.append outT 0) .evaluate =
      .ok ⟨some ("*** Iteration over " ++ i ++ " ***"), d2sLoopLines ofRat i outT bT⟩ := by
  have ho' := (Sparse1.isSp_iff i outT).1 ho
  have hb' := (Dense1.isLeaf_iff i bT).1 hb
  have hctx := ctx_eq i bT hb
  have hsub := generateSubgraphs_eq i outT bT hb
  unfold graph at hsub ⊢
  unfold lower
  simp only [Kind.isCompute, Bool.not_true, Bool.false_and, Bool.false_eq_true, if_false]
  have hso : isSparseOutput (IGraph.iter i (some { tensor := outT, layer := 0 }) (IGraph.terminal (.tensor bT))) = true := by
    simp [isSparseOutput, Leaf.mode, ho'.2]
  have hnext : ((Output.append outT 0).next (some 0) Kind.evaluate : Except GenErr (Output × SB F)) =
      .ok (.append outT 1, SB.empty) := by simp [Output.next]
  have hnc : nodeContext (IGraph.iter i (some { tensor := outT, layer := 0 }) (IGraph.terminal (.tensor bT))) =
      extractContext (.tensor bT) i := by
    simp [nodeContext, IGraph.context]
  have hlater : (IGraph.iter i (some { tensor := outT, layer := 0 }) (IGraph.terminal (.tensor bT))).laterIndexes = [i] := by
    simp [IGraph.laterIndexes]
  have hterm := Sparse1.lower_terminal_eq ofRat n outT (.tensor bT) ho'.2 (by rw [ho'.1]; rfl) (by simp)
  have hmode : ({ tensor := outT, layer := 0 } : Leaf).mode = Mode.compressed := by simp [Leaf.mode, ho'.2]
  have hltw := Dense1.layersToWrite_eq i bT hb
  simp only [hso, hmode, Option.map_some, hnext, hsub, hnc, hctx, hlater, hterm,
    Bool.or_true, Bool.true_and, Bool.and_self, if_true, Bool.false_and,
    List.foldlM_cons, List.foldlM_nil, bind, Except.bind, pure, Except.pure,
    List.isEmpty_nil, List.isEmpty_cons, Bool.not_true, Bool.not_false, Option.isNone_some, Bool.false_eq_true,
    if_false, List.foldl_nil, List.foldl_cons,
    List.map_nil, List.map_cons, List.nil_append, Kind.isAssemble]
  rw [Sparse1.append_commented _ _ _ (Sparse1.writePosAllocation_comment _),
    Sparse1.append_commented _ (writeCrdAssembly _) "crd assembly" rfl,
    Sparse1.append_commented _ (writePosAssembly _) "pos assembly" rfl]
  simp [SB.mk', SB.append, SB.empty, SB.add, SB.loop, SB.branch, SB.finalize, branchJoin, andJoin, joinWith,
    d2sLoopLines, d2sLoop, d2sBody, d2sMid, Sparse1.branchBody, Sparse1.termBlock, Dense1.ptrDecl,
    Sparse1.outLeaf, Leaf.ptr, Leaf.index, Leaf.prevPtr, prevLayerPointer, hb'.1,
    Sparse1.writePosAllocation_comment, hltw]
  exact ⟨rfl, rfl⟩
end TV.Conv
