import TensoraVerif.Lemmas.Sparse1Model
import TensoraVerif.Lemmas.Dense1Model

/-!
C01 for the format-conversion kernels between dense and compressed vectors, part 1: definitions.

* (A) dense → compressed, `a(i) = b(i)` with `a: s`, `b: d`: `Conv.graph`, `Conv.d2sLoopLines` (the emitted
  iteration block: a DENSE loop `i = 0 … i_dim` whose body appends one coordinate per iteration);
* (B) compressed → dense, `a(i) = b(i)` with `a: d`, `b: s`: `Conv.s2dLoopLines` (a SPARSE loop over the
  stored entries of `b` storing `a_vals[i]`).
-/
namespace TV.Conv
open TV.IR TV.Gen TV.Graph TV.Merge

variable {F : Type} [FloatOps F]

/-- the iteration graph of `out(i) = b(i)` -/
def graph (i : String) (outT bT : TensorId) : IGraph :=
  .iter i (some ⟨outT, 0⟩) (.terminal (.tensor bT))

/-! ### (A) dense → compressed -/

/-- what `lower` puts between the cursor declaration and the increment of `i`: `if (true) { … }` with the
append branch of `Sparse1` (vals allocation, `written = false`, terminal block, `if (written) { crd assembly;
p_a++ }`) -/
def d2sMid (ofRat : Rat → F) (outT bT : TensorId) : Stmt F :=
  .branch (.boolLit true) (.block (Sparse1.branchBody ofRat outT (.tensor bT)) none) (.block [] none)

/-- the loop body: `int p_b = 0 * i_dim + i; if (true) { … } i = i + 1;` -/
def d2sBody (ofRat : Rat → F) (i : String) (outT bT : TensorId) : List (Stmt F) :=
  [Dense1.ptrDecl i bT, d2sMid ofRat outT bT, increment (.var i) (.intLit 1)]

/-- `while (i < i_dim) { … }` -/
def d2sLoop (ofRat : Rat → F) (i : String) (outT bT : TensorId) : Stmt F :=
  .loop (.bin .lt (.var i) (.var (dimName i))) (.block (d2sBody ofRat i outT bT) none)

/-- the lines of the "Iteration over i" block: `int i = 0; while (i < i_dim) { … } <pos assembly>` -/
def d2sLoopLines (ofRat : Rat → F) (i : String) (outT bT : TensorId) : List (Stmt F) :=
  [declAssignE i .int (.intLit 0), d2sLoop ofRat i outT bT,
   (writePosAssembly (Sparse1.outLeaf outT)).finalize]

end TV.Conv
