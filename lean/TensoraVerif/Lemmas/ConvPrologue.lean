import TensoraVerif.Lemmas.Sparse1Prologue
import TensoraVerif.Lemmas.ConvGenerate

/-!
C01 for the format-conversion kernels, part 6: the prologue of dense → compressed on the machine — "Extract
dimensions", "Unpack tensors", "Output initialization" — from an initial state as the driver builds it
(`D2SInit`) to the state at the entry of the iteration block (`D2SEntry`). (`Sparse1.prologue_runs` with a
dense input: only `b_vals` is unpacked.)
-/
namespace TV.Conv
open TV.IR TV.Gen TV.Graph TV.Growth TV.Dense1 TV.Sparse1
set_option linter.unusedSectionVars false
set_option linter.unusedVariables false
variable {F : Type} [FloatOps F]

/-- **Initial machine state of a kernel call** for `a(i) = b(i)`, `a` compressed, `b` dense: the variables are
exactly the two tensor parameters, bound to records `ta` (contents `atr`) and `tb` (`btr`); the output record
is output-owned, has a slot pair of pointers (or `NULL`s) at level 0 and a pointer or `NULL` in `vals`, and its
`dimensions` block holds the int32 `n`; the input record's `vals` points to the float block `bvb` whose first
`n` cells hold `cellsB` (every one of them: explicit zeros included). -/
structure D2SInit (outT bT : TensorId) (ta tb : Nat) (atr btr : TensorRec F) (n bvb : Nat)
    (cellsB : Nat → F) (σ : State F) : Prop where
  avar : TensorVar σ outT.name ta
  bvar : TensorVar σ bT.name tb
  fresh : ∀ x, x ≠ outT.name → x ≠ bT.name → lookupVar σ.vars x = none
  arec : σ.tensors[ta]? = some atr
  aown : atr.owner = .output
  aord : 0 < atr.order
  aslot : ∃ p c, atr.slots[0]? = some (some (p, c)) ∧ isPtrVal p = true ∧ isPtrVal c = true
  avals : isPtrVal atr.vals = true
  adim : ∃ blk, σ.heap[atr.dimsBlk]? = some blk ∧ blk.live = true ∧ blk.ty = .int ∧
    blk.cells[0]? = some (some (.int n))
  n32 : -2147483648 ≤ (n : Int) ∧ (n : Int) < 2147483648
  brec : σ.tensors[tb]? = some btr
  bvals : btr.vals = .ptr bvb 0
  bval : ∃ blk, σ.heap[bvb]? = some blk ∧ blk.live = true ∧ blk.ty = .float ∧
    ∀ j, j < n → blk.cells[j]? = some (some (.flt (cellsB j)))

/-- the names declared by the prologue -/
def proWD (i : String) (outT bT : TensorId) : List String :=
  [dimName i, posName outT.name 0, crdName outT.name 0, valsName outT.name,
   valsName bT.name, posCapName outT.name 0, crdCapName outT.name 0,
   layerPointer outT.id 0, valsCapName outT.name]

/-- **The state at the entry of the iteration block**, relative to the initial state `σ`: three fresh output
blocks have been appended to the heap — `pos = [0, ·]` (2 cells), `crd` and `vals` (`k` uninitialised cells
each); the array variables of the output point to them, the capacities are `2`, `k`, `k`, the output cursor
is `0`; `i_dim` holds the dimension; `b_vals` points to the input's block; nothing else changed. -/
structure D2SEntry (i : String) (outT bT : TensorId) (k : Int) (n bvb : Nat) (σ σC : State F) : Prop where
  heap : σC.heap = σ.heap ++ [⟨.int, [some (.int 0), none], .output, true⟩,
    ⟨.int, List.replicate k.toNat none, .output, true⟩, ⟨.float, List.replicate k.toNat none, .output, true⟩]
  tensors : σC.tensors = σ.tensors
  frame : ∀ y, y ∉ proWD i outT bT → lookupVar σC.vars y = lookupVar σ.vars y
  dim : IntVar σC (dimName i) n
  bvals : PtrVar σC (valsName bT.name) bvb
  apos : PtrVar σC (posName outT.name 0) σ.heap.length
  aposCap : IntVar σC (posCapName outT.name 0) 2
  acrd : PtrVar σC (crdName outT.name 0) (σ.heap.length + 1)
  acrdCap : IntVar σC (crdCapName outT.name 0) k
  avals : PtrVar σC (valsName outT.name) (σ.heap.length + 2)
  avalsCap : IntVar σC (valsCapName outT.name) k
  ptr : IntVar σC (layerPointer outT.id 0) 0

set_option maxHeartbeats 1000000 in
/-- **(A) The prologue of dense → compressed.** -/
theorem d2s_prologue_runs {i : String} {outT bT : TensorId} (N : KNames i outT bT) (cap : Option Int)
    (hk0 : 1 ≤ capVal cap) (hk1 : capVal cap < 2147483648)
    {ta tb : Nat} {atr btr : TensorRec F} {n bvb : Nat} {cellsB : Nat → F} {σ : State F}
    (init : D2SInit outT bT ta tb atr btr n bvb cellsB σ) (fuel : Nat) :
    ∃ σC, RunsLI fuel
        [.block [declAssignE (dimName i) .int (.idx (.attr (.var outT.name) "dimensions") (.intLit 0))]
          (some "Extract dimensions"),
         .block (unpackStmts outT.name ++ unpackDense bT.name) (some "Unpack tensors"),
         .block (outInit cap outT) (some "Output initialization")] σ σC 0 ∧
      D2SEntry i outT bT (capVal cap) n bvb σ σC := by
  have hfr : ∀ x, nameClass x ≠ 0 → lookupVar σ.vars x = none := by
    intro x hx
    refine init.fresh x ?_ ?_
    · intro h; rw [h, N.a0] at hx; exact hx rfl
    · intro h; rw [h, N.b0] at hx; exact hx rfl
  obtain ⟨dblk, hdb, hdlive, hdty, hdc⟩ := init.adim
  obtain ⟨ap, ac, hasl, hap, hac⟩ := init.aslot
  -- A
  obtain ⟨σA, rA, hhA, htA, vA, oA⟩ := declFresh (fuel := fuel) (x := dimName i) (t := .int) (val' := .int n)
    (hfr _ (by simp [nc_dim])) (evalE_dim0 init.avar init.arec hdb hdlive hdty hdc init.n32.1 init.n32.2) rfl
  -- B, output
  obtain ⟨σB1, rB1, hhB1, htB1, vB1p, vB1c, vB1v, oB1⟩ := unpack1_runs (fuel := fuel) (σ := σA) N.au
    (init.avar.congr (oA _ (by nm N))) (by rw [htA]; exact init.arec) init.aord hasl hap hac init.avals
    (by rw [oA _ (by nm N)]; exact hfr _ (by simp [nc_pos]))
    (by rw [oA _ (by nm N)]; exact hfr _ (by simp [nc_crd]))
    (by rw [oA _ (by nm N)]; exact hfr _ (by simp [nc_vals]))
  -- B, input: double* b_vals = b->vals
  obtain ⟨σB, rB2, hhB2, htB2, vBv, oB2⟩ := declFresh (fuel := fuel) (σ := σB1) (t := .ptr .float)
    (x := valsName bT.name)
    (by rw [oB1 _ (by nm N) (by nm N) (by nm N), oA _ (by nm N)]; exact hfr _ (by simp [nc_vals]))
    (evalE_vals (init.bvar.congr (by rw [oB1 _ (by nm N) (by nm N) (by nm N), oA _ (by nm N)]))
      (by rw [htB1, htA]; exact init.brec) (by rw [init.bvals]; rfl))
    (convTo_ptr_of_isPtrVal .float (by rw [init.bvals]; rfl))
  have hhB : σB.heap = σ.heap := by rw [hhB2, hhB1, hhA]
  have htB : σB.tensors = σ.tensors := by rw [htB2, htB1, htA]
  have oB : ∀ y, y ≠ dimName i → y ≠ posName outT.name 0 → y ≠ crdName outT.name 0 →
      y ≠ valsName outT.name → y ≠ valsName bT.name →
      lookupVar σB.vars y = lookupVar σ.vars y := by
    intro y h1 h2 h3 h4 h7
    rw [oB2 y h7, oB1 y h2 h3 h4, oA y h1]
  -- C1: int a_0_pos_capacity = 1 + 1
  obtain ⟨σC1, rC1, hhC1, htC1, vC1, oC1⟩ := declFresh (fuel := fuel) (x := posCapName outT.name 0)
    (t := .int) (σ := σB) (val' := .int (1 + 1))
    (by
      rw [oB _ (by nm N) (by nm N) (by nm N) (by nm N) (by nm N)]
      exact hfr _ (by simp [nc_posCap]))
    (evalE_add (evalE_intLit (by omega) (by omega)) (evalE_intLit (by omega) (by omega)) (by omega)
      (by omega)) rfl
  have vC1' : IntVar σC1 (posCapName outT.name 0) (1 + 1) := vC1
  -- C2: a_0_pos = malloc
  obtain ⟨rp, hrp1, hrp2, _⟩ := vB1p
  obtain ⟨σC2, rC2, htC2, hhC2, vC2, oC2⟩ := runsI_alloc (fuel := fuel) (σ := σC1) (ty := .int) (ety := .int)
    (arr := posName outT.name 0) (r := rp) (t := .int)
    (by rw [oC1 _ (by nm N), oB2 _ (by nm N)]; exact hrp1) hrp2 vC1' (by omega)
    (by omega) rfl
  have hlenC1 : σC1.heap.length = σ.heap.length := by rw [hhC1, hhB]
  rw [hlenC1] at vC2
  have hheapC2 : σC2.heap = σ.heap ++ [⟨.int, [none, none], .output, true⟩] := by
    rw [hhC2, hhC1, hhB]; rfl
  -- C3: a_0_pos[0] = 0
  obtain ⟨σC3, rC3, hvC3, htC3, hheapC3⟩ : ∃ σC3 : State F,
      Runs fuel (.assign (.idx (.var (posName outT.name 0)) (.intLit 0)) (.intLit 0)) σC2 σC3 ∧
      σC3.vars = σC2.vars ∧ σC3.tensors = σC2.tensors ∧
      σC3.heap = σ.heap ++ [⟨.int, [some (.int 0), none], .output, true⟩] := by
    refine ⟨_, Runs.store_cell (fuel := fuel) (σ := σC2) (i := (.intLit 0 : Expr F)) (e := (.intLit 0 : Expr F))
      (k := 0) (val := .int 0) (val' := .int 0) (blk := ⟨.int, [none, none], .output, true⟩) vC2
      (evalE_intLit (by omega) (by omega)) (evalE_intLit (by omega) (by omega))
      (by rw [hheapC2]; simp) rfl rfl (by omega) (by simp) rfl, rfl, rfl, ?_⟩
    show σC2.heap.set _ _ = _
    rw [hheapC2]; simp
  -- C4: int a_0_crd_capacity = k
  obtain ⟨σC4, rC4, hhC4, htC4, vC4, oC4⟩ := declFresh (fuel := fuel) (x := crdCapName outT.name 0)
    (t := .int) (σ := σC3) (val' := .int (capVal cap))
    (by
      rw [hvC3, oC2 _ (by nm N), oC1 _ (by nm N),
        oB _ (by nm N) (by nm N) (by nm N) (by nm N) (by nm N)]
      exact hfr _ (by simp [nc_crdCap]))
    (evalE_default cap (by omega) hk1) rfl
  have vC4' : IntVar σC4 (crdCapName outT.name 0) (capVal cap) := vC4
  -- C5: a_0_crd = malloc
  obtain ⟨rc, hrc1, hrc2, _⟩ := vB1c
  obtain ⟨σC5, rC5, htC5, hhC5, vC5, oC5⟩ := runsI_alloc (fuel := fuel) (σ := σC4) (ty := .int) (ety := .int)
    (arr := crdName outT.name 0) (r := rc) (t := .int)
    (by
      rw [oC4 _ (by nm N), hvC3, oC2 _ (by nm N), oC1 _ (by nm N), oB2 _ (by nm N)]
      exact hrc1) hrc2 vC4' (by omega) hk1 rfl
  have hlenC4 : σC4.heap.length = σ.heap.length + 1 := by rw [hhC4, hheapC3]; simp
  rw [hlenC4] at vC5
  -- C6: int p_a = 0
  obtain ⟨σC6, rC6, hhC6, htC6, vC6, oC6⟩ := declFresh (fuel := fuel) (x := layerPointer outT.id 0)
    (t := .int) (σ := σC5) (val' := .int 0)
    (by
      rw [oC5 _ (by nm N), oC4 _ (by nm N), hvC3, oC2 _ (by nm N), oC1 _ (by nm N),
        oB _ (by nm N) (by nm N) (by nm N) (by nm N) (by nm N)]
      exact hfr _ (by simp [nc_ptr]))
    (evalE_intLit (by omega) (by omega)) rfl
  have vC6' : IntVar σC6 (layerPointer outT.id 0) 0 := vC6
  -- C7: int a_vals_capacity = k
  obtain ⟨σC7, rC7, hhC7, htC7, vC7, oC7⟩ := declFresh (fuel := fuel) (x := valsCapName outT.name)
    (t := .int) (σ := σC6) (val' := .int (capVal cap))
    (by
      rw [oC6 _ (by nm N), oC5 _ (by nm N), oC4 _ (by nm N), hvC3, oC2 _ (by nm N), oC1 _ (by nm N),
        oB _ (by nm N) (by nm N) (by nm N) (by nm N) (by nm N)]
      exact hfr _ (by simp [nc_valsCap]))
    (evalE_default cap (by omega) hk1) rfl
  have vC7' : IntVar σC7 (valsCapName outT.name) (capVal cap) := vC7
  -- C8: a_vals = malloc
  obtain ⟨rv, hrv1, hrv2, _⟩ := vB1v
  obtain ⟨σC8, rC8, htC8, hhC8, vC8, oC8⟩ := runsI_alloc (fuel := fuel) (σ := σC7) (ty := .float)
    (ety := .float) (arr := valsName outT.name) (r := rv) (t := .float)
    (by
      rw [oC7 _ (by nm N), oC6 _ (by nm N), oC5 _ (by nm N), oC4 _ (by nm N), hvC3, oC2 _ (by nm N),
        oC1 _ (by nm N), oB2 _ (by nm N)]
      exact hrv1) hrv2 vC7' (by omega) hk1 rfl
  have hheapC7 : σC7.heap = σ.heap ++ [⟨.int, [some (.int 0), none], .output, true⟩,
      ⟨.int, List.replicate (capVal cap).toNat none, .output, true⟩] := by
    rw [hhC7, hhC6, hhC5, hhC4, hheapC3]; simp
  have hlenC7 : σC7.heap.length = σ.heap.length + 2 := by rw [hheapC7]; simp
  rw [hlenC7] at vC8
  -- backward frames
  have g8 : ∀ y, y ≠ valsName outT.name → lookupVar σC8.vars y = lookupVar σC7.vars y := oC8
  have g7 : ∀ y, y ≠ valsCapName outT.name → y ≠ valsName outT.name →
      lookupVar σC8.vars y = lookupVar σC6.vars y := fun y h1 h2 => (g8 y h2).trans (oC7 y h1)
  have g6 : ∀ y, y ≠ layerPointer outT.id 0 → y ≠ valsCapName outT.name → y ≠ valsName outT.name →
      lookupVar σC8.vars y = lookupVar σC5.vars y := fun y h0 h1 h2 => (g7 y h1 h2).trans (oC6 y h0)
  have g5 : ∀ y, y ≠ crdName outT.name 0 → y ≠ layerPointer outT.id 0 → y ≠ valsCapName outT.name →
      y ≠ valsName outT.name → lookupVar σC8.vars y = lookupVar σC4.vars y :=
    fun y h h0 h1 h2 => (g6 y h0 h1 h2).trans (oC5 y h)
  have g4 : ∀ y, y ≠ crdCapName outT.name 0 → y ≠ crdName outT.name 0 → y ≠ layerPointer outT.id 0 →
      y ≠ valsCapName outT.name → y ≠ valsName outT.name →
      lookupVar σC8.vars y = lookupVar σC2.vars y :=
    fun y h' h h0 h1 h2 => by rw [g5 y h h0 h1 h2, oC4 y h', hvC3]
  have g2 : ∀ y, y ≠ posName outT.name 0 → y ≠ crdCapName outT.name 0 → y ≠ crdName outT.name 0 →
      y ≠ layerPointer outT.id 0 → y ≠ valsCapName outT.name → y ≠ valsName outT.name →
      lookupVar σC8.vars y = lookupVar σC1.vars y :=
    fun y h'' h' h h0 h1 h2 => (g4 y h' h h0 h1 h2).trans (oC2 y h'')
  have g1 : ∀ y, y ≠ posCapName outT.name 0 → y ≠ posName outT.name 0 → y ≠ crdCapName outT.name 0 →
      y ≠ crdName outT.name 0 → y ≠ layerPointer outT.id 0 → y ≠ valsCapName outT.name →
      y ≠ valsName outT.name → lookupVar σC8.vars y = lookupVar σB.vars y :=
    fun y h3 h'' h' h h0 h1 h2 => (g2 y h'' h' h h0 h1 h2).trans (oC1 y h3)
  refine ⟨σC8, ?_, ?_⟩
  · exact RunsLI.cons (RunsI.block (RunsLI.cons rA (RunsLI.nil _ _)))
      (RunsLI.cons (RunsI.block (RunsLI.append rB1 (RunsLI.cons rB2 (RunsLI.nil _ _))))
        (RunsLI.cons (RunsI.block
          (RunsLI.cons rC1 (RunsLI.cons rC2 (RunsLI.cons (RunsI.of_assign rC3) (RunsLI.cons rC4
            (RunsLI.cons rC5 (RunsLI.cons rC6 (RunsLI.cons rC7 (RunsLI.cons rC8 (RunsLI.nil _ _))))))))))
        (RunsLI.nil _ _)))
  · refine
      { heap := (by rw [hhC8, hheapC7]; simp), tensors := ?_, frame := ?_, dim := ?_, bvals := ?_,
        apos := ?_, aposCap := ?_, acrd := ?_, acrdCap := ?_, avals := vC8, avalsCap := ?_, ptr := ?_ }
    · rw [htC8, htC7, htC6, htC5, htC4, htC3, htC2, htC1, htB]
    · intro y hy
      simp only [proWD, List.mem_cons, List.not_mem_nil, or_false, not_or] at hy
      obtain ⟨y1, y2, y3, y4, y7, y8, y9, y10, y11⟩ := hy
      rw [g1 y y8 y2 y9 y3 y10 y11 y4, oB y y1 y2 y3 y4 y7]
    · have hd : IntVar σA (dimName i) n := vA
      exact hd.congr (by
        rw [g1 _ (by nm N) (by nm N) (by nm N) (by nm N) (by nm N) (by nm N) (by nm N),
          oB2 _ (by nm N), oB1 _ (by nm N) (by nm N) (by nm N)])
    · refine (ptrVar_of (t := .float) ?_).congr
        (g1 _ (by nm N) (by nm N) (by nm N) (by nm N) (by nm N) (by nm N) (by nm N))
      obtain ⟨r, e1, e2, e3⟩ := vBv
      exact ⟨r, e1, e2, by rw [e3, init.bvals]⟩
    · exact vC2.congr (g4 _ (by nm N) (by nm N) (by nm N) (by nm N) (by nm N))
    · exact vC1'.congr (g2 _ (by nm N) (by nm N) (by nm N) (by nm N) (by nm N) (by nm N))
    · exact vC5.congr (g6 _ (by nm N) (by nm N) (by nm N))
    · exact vC4'.congr (g5 _ (by nm N) (by nm N) (by nm N) (by nm N))
    · exact vC7'.congr (g8 _ (by nm N))
    · exact vC6'.congr (g7 _ (by nm N) (by nm N))

end TV.Conv
