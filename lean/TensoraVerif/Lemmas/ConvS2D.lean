import TensoraVerif.Lemmas.ConvGenerate
import TensoraVerif.Lemmas.Dense1Generate

/-!
C01 for the format-conversion kernels, part 9: (B) compressed → dense, `a(i) = b(i)` with `a: d`, `b: s` —
what `lower` and `generateIr` emit, written out. The output is dense, so the loop over `i` is NOT sparse
(`is_sparse = ctx.is_sparse and (output is None or sparse output)`): the pass emits a dense index `i` that is
merged with the cursor of `b`, with an explicit zero store in the `else` branch, followed by a dense tail loop
storing zeros. The output array comes from `malloc` (no zero fill): the zeros are written by these loops.
-/
namespace TV.Conv
open TV.IR TV.Gen TV.Graph TV.Merge
set_option linter.unusedSimpArgs false
set_option linter.unusedSectionVars false
variable {F : Type} [FloatOps F]

/-- `{ a_vals[p_a] = <e>; }` -/
def s2dStore (ofRat : Rat → F) (outT : TensorId) (e : IdExpr) : Stmt F :=
  .block [.block [Dense1.storeStmt ofRat outT e] (some "*** Computation of expression ***")] none

/-- the first loop: `while (true && p_b < p_b_end) { int i_b = b_crd[p_b]; int p_a = 0 * i_dim + i;
if (true && i_b == i) { a_vals[p_a] = b_vals[p_b]; } else if (true) { a_vals[p_a] = 0; }
p_b = p_b + (int)(i_b == i); i = i + 1; }` -/
def s2dLoop1 (ofRat : Rat → F) (i : String) (outT bT : TensorId) : Stmt F :=
  .loop (.bin .and (.boolLit true) (.bin .lt (.var (layerPointer bT.id 0)) (.var (sparseEndName bT.id 0))))
    (.block
      [declAssignE (valueFromCrd bT.id 0) .int (.idx (.var (crdName bT.name 0)) (.var (layerPointer bT.id 0))),
       Dense1.ptrDecl i outT,
       .branch (.bin .and (.boolLit true) (.bin .eq (.var (valueFromCrd bT.id 0)) (.var i)))
         (s2dStore ofRat outT (.tensor bT))
         (.branch (.boolLit true) (s2dStore ofRat outT (.int 0)) (.block [] none)),
       increment (.var (layerPointer bT.id 0)) (.b2i (.bin .eq (.var (valueFromCrd bT.id 0)) (.var i))),
       increment (.var i) (.intLit 1)] none)

/-- the tail loop: `while (i < i_dim) { int p_a = 0 * i_dim + i; if (true) { a_vals[p_a] = 0; } i = i + 1; }` -/
def s2dLoop2 (ofRat : Rat → F) (i : String) (outT : TensorId) : Stmt F :=
  .loop (.bin .lt (.var i) (.var (dimName i)))
    (.block
      [Dense1.ptrDecl i outT,
       .branch (.boolLit true) (s2dStore ofRat outT (.int 0)) (.block [] none),
       increment (.var i) (.intLit 1)] none)

/-- the lines of the "Iteration over i" block of compressed → dense -/
def s2dLoopLines (ofRat : Rat → F) (i : String) (outT bT : TensorId) : List (Stmt F) :=
  [declAssignE i .int (.intLit 0),
   declAssignE (layerPointer bT.id 0) .int (.idx (.var (posName bT.name 0)) (.intLit 0)),
   declAssignE (sparseEndName bT.id 0) .int (.idx (.var (posName bT.name 0)) (plus (.intLit 0) (.intLit 1))),
   s2dLoop1 ofRat i outT bT, s2dLoop2 ofRat i outT]

theorem s2d_isExpr (i : String) (bT : TensorId) (hb : Sparse1.isSp i bT = true) :
    Sparse1.isExpr i bT (.tensor bT) = true := by
  obtain ⟨h1, h2⟩ := (Sparse1.isSp_iff i bT).1 hb
  simp [Sparse1.isExpr, ToIr.leaves, hb, extractContext, h1, h2]

/-- **(B) What `lower` emits for compressed → dense.** -/
theorem s2d_lower (ofRat : Rat → F) (n : Nat) (i : String) (outT bT : TensorId)
    (ho : Dense1.isLeaf i outT = true) (hb : Sparse1.isSp i bT = true) :
    lower ofRat (n + 2) (graph i outT bT) (.append outT 0) .evaluate =
      .ok ⟨some ("*** Iteration over " ++ i ++ " ***"), s2dLoopLines ofRat i outT bT⟩ := by
  have ho' := (Dense1.isLeaf_iff i outT).1 ho
  have hb' := (Sparse1.isSp_iff i bT).1 hb
  have he := s2d_isExpr i bT hb
  have hctx := Sparse1.ctx_eq i bT (.tensor bT) he
  have hsub := Sparse1.generateSubgraphs_eq i outT bT (.tensor bT) he
  have hsub2 := Dense1.generateSubgraphs_eq i outT (.int 0) (by simp [Dense1.isExpr, Dense1.leaves])
  have hex : exhaust (.tensor bT) bT.id = .int 0 := by simp [exhaust]
  rw [hex] at hsub
  have hctx2 : extractContext (.int 0) i = ⟨true, [], []⟩ := by simp [extractContext]
  unfold Sparse1.graph at hsub
  unfold Dense1.graph at hsub2
  unfold graph
  unfold lower
  simp only [Kind.isCompute, Bool.not_true, Bool.false_and, Bool.false_eq_true, if_false]
  have hso : isSparseOutput (IGraph.iter i (some { tensor := outT, layer := 0 }) (IGraph.terminal (.tensor bT))) = false := by
    simp [isSparseOutput, Leaf.mode, ho'.2]
  have hnext : ((Output.append outT 0).next (some 0) Kind.evaluate : Except GenErr (Output × SB F)) =
      .ok (.append outT 1, SB.empty) := by simp [Output.next]
  have hnc : ∀ e, nodeContext (IGraph.iter i (some { tensor := outT, layer := 0 }) (IGraph.terminal e)) =
      extractContext e i := by
    intro e; simp [nodeContext, IGraph.context]
  have hlater : (IGraph.iter i (some { tensor := outT, layer := 0 }) (IGraph.terminal (.tensor bT))).laterIndexes = [i] := by
    simp [IGraph.laterIndexes]
  have hterm1 := Dense1.lower_terminal_eq ofRat n outT (.tensor bT) ho'.2 (by rw [ho'.1]; rfl)
  have hterm2 := Dense1.lower_terminal_eq ofRat n outT (.int 0) ho'.2 (by rw [ho'.1]; rfl)
  have hmode : ({ tensor := outT, layer := 0 } : Leaf).mode = Mode.dense := by simp [Leaf.mode, ho'.2]
  have hltw := Dense1.layersToWrite_eq i outT ho
  simp only [hso, hmode, Option.map_some, hnext, hsub, hsub2, hnc, hctx.1, hctx.2.1, hctx.2.2, hctx2, hlater,
    hterm1, hterm2,
    Bool.or_true, Bool.true_and, Bool.and_self, if_true, Bool.false_and, Bool.and_false, Bool.or_false,
    List.foldlM_cons, List.foldlM_nil, bind, Except.bind, pure, Except.pure,
    List.isEmpty_nil, List.isEmpty_cons, Bool.not_true, Bool.not_false, Option.isNone_some, Bool.false_eq_true,
    if_false, List.foldl_nil, List.foldl_cons, beq_self_eq_true, List.append_nil,
    List.map_nil, List.map_cons, List.nil_append, Kind.isAssemble]
  simp [SB.mk', SB.append, SB.empty, SB.add, SB.loop, SB.branch, SB.finalize, branchJoin, andJoin, joinWith,
    Leaf.ptr, Leaf.index, Leaf.prevPtr, prevLayerPointer, ho'.1, hltw, writeSparseInit, Sparse1.inLeaf,
    s2dLoopLines, s2dLoop1, s2dLoop2, s2dStore, Dense1.ptrDecl]

/-- the format table: the dense output first, then the compressed input -/
def s2dFormats (formats : Formats) (outT bT : TensorId) : Prop :=
  formats.map (fun f => (f.1, f.2.1)) = [(outT.name, [Mode.dense]), (bT.name, [Mode.compressed])]

theorem s2d_unpackDecls (formats : Formats) (outT bT : TensorId) (h : s2dFormats formats outT bT) :
    (unpackDecls formats : List (Stmt F)) = unpackDense outT.name ++ Sparse1.unpackStmts bT.name := by
  match formats, h with
  | [(n1, m1, o1), (n2, m2, o2)], h =>
    simp only [s2dFormats, List.map_cons, List.map_nil, List.cons.injEq, Prod.mk.injEq, and_true] at h
    obtain ⟨⟨rfl, rfl⟩, rfl, rfl⟩ := h
    simp [unpackDecls, List.range, List.range.loop, Sparse1.unpackStmts, unpackDense]

/-- the statements of the `evaluate` kernel of compressed → dense, before `return 0`. NOTE the output
initialisation: `a_vals = malloc(a_vals_capacity)` — no zero fill -/
def s2dKernelStmts (ofRat : Rat → F) (i : String) (outT bT : TensorId) : List (Stmt F) :=
  [.block [declAssignE (dimName i) .int (.idx (.attr (.var outT.name) "dimensions") (.intLit 0))]
      (some "Extract dimensions"),
   .block (unpackDense outT.name ++ Sparse1.unpackStmts bT.name) (some "Unpack tensors"),
   .block [declAssignE (valsCapName outT.name) .int
        (.bin .mul (.intLit 1) (.idx (.attr (.var outT.name) "dimensions") (.intLit 0))),
      .assign (.var (valsName outT.name)) (.alloc .float (.var (valsCapName outT.name)))]
      (some "Output initialization"),
   .block (s2dLoopLines ofRat i outT bT) (some ("*** Iteration over " ++ i ++ " ***")),
   .block [.assign (.attr (.var outT.name) "vals") (.var (valsName outT.name))]
      (some ("Assembling output tensor " ++ outT.name))]

/-- the `evaluate` kernel of compressed → dense -/
def s2dKernel (ofRat : Rat → F) (formats : Formats) (i : String) (outT bT : TensorId) : Func F :=
  ⟨"evaluate", formats.map fun f => (f.1, .ptr .tensor), .int,
    .block (s2dKernelStmts ofRat i outT bT ++ [.ret (.intLit 0)]) none⟩

/-- **(B) What `generateIr` produces for compressed → dense.** -/
theorem s2d_generateIr (ofRat : Rat → F) (cap : Option Int) (a : Alg.DAssign) (formats : Formats)
    (i : String) (outT bT : TensorId)
    (hout : tensorId 0 a.tname formats a.tidx = some outT) (hname : outT.name = a.tname)
    (ho : Dense1.isLeaf i outT = true) (hb : Sparse1.isSp i bT = true) (hf : s2dFormats formats outT bT)
    (hd : indexDimensions a = [(i, a.tname, 0)]) :
    generateIr ofRat cap a formats (graph i outT bT) .evaluate =
      .ok (s2dKernel ofRat formats i outT bT) := by
  have ho' := (Dense1.isLeaf_iff i outT).1 ho
  have hsz : 4 * (graph i outT bT).size + 8 = 14 + 2 := by simp [graph, IGraph.size]
  have hu := s2d_unpackDecls (F := F) formats outT bT hf
  unfold unpackDecls at hu
  unfold generateIr
  simp only [hout, Option.getD_some, hsz, s2d_lower ofRat 14 i outT bT ho hb, hd,
    Dense1.appendDeclarations_eq1 cap outT ho'.2 (by rw [ho'.1]; rfl), Dense1.appendCleanup_eq1 outT ho'.2, hu]
  simp [bind, Except.bind, pure, Except.pure, s2dKernel, s2dKernelStmts, SB.add, SB.append, SB.empty,
    SB.finalize, Kind.name, hname]

end TV.Conv
