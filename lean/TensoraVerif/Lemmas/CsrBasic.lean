import TensoraVerif.Lemmas.CsrModel
import TensoraVerif.Lemmas.Sparse2Lower

/-!
C01 for the CSR matrix copy/scale kernels, part 3: the class unfolded, and what `lower` emits on the terminal
node under the append output of a `ds` matrix (only the flag of the compressed level is raised).
-/
namespace TV.Csr
open TV.IR TV.Gen TV.Graph TV.Merge
set_option linter.unusedSectionVars false
variable {F : Type} [FloatOps F]

theorem isDS_iff (i j : String) (t : TensorId) :
    isDS i j t = true ↔ t.indexes = [i, j] ∧ t.modes = [.dense, .compressed] := by
  simp [isDS]

theorem isExpr_iff (i j : String) (bT : TensorId) (e : IdExpr) :
    isExpr i j bT e = true ↔ ToIr.leaves e = [bT] ∧ (bT.indexes = [i, j] ∧ bT.modes = [.dense, .compressed]) ∧
      (extractContext e j).isSparse = true := by
  simp [isExpr, isDS, and_assoc]

theorem writtenFlags_eq (outT : TensorId) (hm : outT.modes = [.dense, .compressed]) :
    (Output.append outT 2).writtenFlags = [writtenName outT.name 1] := by
  simp [Output.writtenFlags, Output.tensor, hm, List.range, List.range.loop]

theorem lower_terminal_eq (ofRat : Rat → F) (n : Nat) (outT : TensorId) (e : IdExpr)
    (hm : outT.modes = [.dense, .compressed]) (hi : outT.indexes.length = 2) (hne : e ≠ .int 0) :
    lower ofRat (n + 1) (.terminal e) (.append outT 2) .evaluate =
      .ok ⟨some "*** Computation of expression ***", (termLines ofRat outT e)⟩ := by
  have hw := ToIr.writeAssignment_append_eq (F := F) outT (toIrWith ofRat e)
  rw [hi] at hw
  rw [ToIr.lower_terminal_eq ofRat .evaluate rfl n e (.append outT 2) _ hw, ToIr.activeFlags_ne _ hne,
    writtenFlags_eq outT hm]
  simp [termLines, ToIr.flagStmt, prevLayerPointer]

end TV.Csr
