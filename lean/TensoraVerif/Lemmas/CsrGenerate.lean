import TensoraVerif.Lemmas.CsrLower
import TensoraVerif.Lemmas.CsrKernelDef
import TensoraVerif.Lemmas.Sparse2Generate

/-!
C01 for the CSR matrix copy/scale kernels, part 3: what `generateIr` produces on the class — the whole
`evaluate` function, written out (`Csr.kernel`, `Csr.generateIr_eq`).
-/
namespace TV.Csr
open TV.IR TV.Gen TV.Graph TV.Merge
open TV.Sparse2 (dimStmts)
set_option linter.unusedSectionVars false
variable {F : Type} [FloatOps F]

theorem unpackDecls_eq (formats : Formats) (h : dsFormats formats = true) :
    (unpackDecls formats : List (Stmt F)) = formats.flatMap fun f => unpackStmts f.1 := by
  induction formats with
  | nil => rfl
  | cons f fs ih =>
    obtain ⟨name, modes, ord⟩ := f
    simp only [dsFormats, List.all_cons, Bool.and_eq_true, beq_iff_eq] at h
    have hm : modes = [Mode.dense, Mode.compressed] := h.1
    have := ih (by simpa [dsFormats] using h.2)
    simp only [unpackDecls] at this ⊢
    rw [List.flatMap_cons, this]
    simp [hm, List.range, List.range.loop, unpackStmts]

theorem appendDeclarations_eq (cap : Option Int) (i j : String) (outT : TensorId)
    (hi : outT.indexes = [i, j]) (hm : outT.modes = [.dense, .compressed]) :
    (appendDeclarations cap outT .evaluate : SB F) = ⟨some "Output initialization", outInit cap i outT⟩ := by
  simp [appendDeclarations, hi, hm, List.range, List.range.loop, Kind.isAssemble, SB.mk', SB.add,
    mulJoin, joinWith, outInit, times]

theorem appendCleanup_eq (outT : TensorId) (hm : outT.modes = [.dense, .compressed]) :
    (appendCleanup outT .evaluate : SB F) =
      ⟨some ("Assembling output tensor " ++ outT.name), cleanupLines outT⟩ := by
  simp [appendCleanup, hm, List.range, List.range.loop, Kind.isAssemble, SB.mk', SB.add, cleanupLines]

/-- **What `generateIr` produces on the class.** -/
theorem generateIr_eq (ofRat : Rat → F) (cap : Option Int) (a : Alg.DAssign) (formats : Formats)
    (i j : String) (outT bT : TensorId) (e : IdExpr)
    (hout : tensorId 0 a.tname formats a.tidx = some outT) (hname : outT.name = a.tname)
    (hij : i ≠ j) (ho : isDS i j outT = true) (he : isExpr i j bT e = true) (hf : dsFormats formats = true)
    (hd : indexDimensions a = [(i, a.tname, 0), (j, a.tname, 1)]) :
    generateIr ofRat cap a formats (graph i j outT e) .evaluate =
      .ok (kernel ofRat cap formats i j outT bT e) := by
  have ho' := (isDS_iff i j outT).1 ho
  have hsz : 4 * (graph i j outT e).size + 8 = 17 + 3 := by simp [graph, innerGraph, IGraph.size]
  have hu := unpackDecls_eq (F := F) formats hf
  unfold unpackDecls at hu
  unfold generateIr
  simp only [hout, Option.getD_some, hsz, lower_eq ofRat 17 i j outT bT e hij ho he, hd,
    appendDeclarations_eq cap i j outT ho'.1 ho'.2, appendCleanup_eq outT ho'.2, hu]
  simp [bind, Except.bind, pure, Except.pure, kernel, kernelStmts, dimStmts, SB.add, SB.append, SB.empty,
    SB.finalize, Kind.name, hname]

end TV.Csr
