import TensoraVerif.Lemmas.CsrState
import TensoraVerif.Lemmas.CsrBasic
import TensoraVerif.Lemmas.Sparse2Inner

/-!
C01 for the CSR matrix copy/scale kernels, part 5: the INNER loop body step (`mid1_step`). One stored entry of a
row: the `vals` allocation check (C05 `writePosAllocation_nodense_safe`), `written_a_1 = false`, the terminal
block (C01 `terminal_append_sound`: the value is stored and the flag is raised), `if (written_a_1) { crd
assembly (C05 `crdAssembly_runs`); p_a_1++ }` — the cursor, the `crd` array and the `vals` array of the output
advance by one.
-/
namespace TV.Csr
open TV.IR TV.Gen TV.Graph TV.Growth TV.Merge
open TV.Dense1 (TensorVar)
open TV.Sparse2 (Nm nameOf allNames nameOf_inj VFrame Arr CellSet old_of_heap in1 out1 FlagOK)

set_option linter.unusedSectionVars false
variable {F : Type} [FloatOps F]

/-- the components outside `X` are described as before -/
def Same (X : List Comp) (S S' : OutSt F) : Prop :=
  ∀ x, x ∉ X → S'.blk x = S.blk x ∧ S'.cap x = S.cap x ∧ S'.cells x = S.cells x

theorem Same.refl (X : List Comp) (S : OutSt F) : Same X S S := fun _ _ => ⟨rfl, rfl, rfl⟩

theorem Same.trans {X : List Comp} {S S1 S2 : OutSt F} (h1 : Same X S S1) (h2 : Same X S1 S2) : Same X S S2 := by
  intro x hx
  obtain ⟨a1, a2, a3⟩ := h1 x hx
  obtain ⟨b1, b2, b3⟩ := h2 x hx
  exact ⟨b1.trans a1, b2.trans a2, b3.trans a3⟩

theorem Same.mono {X Y : List Comp} {S S' : OutSt F} (h : Same X S S') (hs : ∀ x ∈ X, x ∈ Y) : Same Y S S' :=
  fun x hx => h x fun hm => hx (hs x hm)

theorem Same.set {X : List Comp} (S : OutSt F) {x : Comp} (hx : x ∈ X) (b : Nat) (c : Int) (cs : List (Val F)) :
    Same X S (S.set x b c cs) := by
  intro y hy
  have hne : y ≠ x := fun e => hy (e ▸ hx)
  simp [OutSt.set, hne]

/-- facts about the two output leaves of the class -/
theorem out1_facts {i j : String} {outT : TensorId} (ho : isDS i j outT = true) :
    denseBelow (out1 outT).tensor (out1 outT).layer = [] ∧
    allocArr (out1 outT) = valsName outT.name ∧ allocCap (out1 outT) = valsCapName outT.name ∧
    allocEty (out1 outT) = .float ∧ allocBonus (out1 outT) = 0 ∧ (out1 outT).index = j := by
  obtain ⟨ho1, ho2⟩ := (isDS_iff i j outT).1 ho
  have hdb : denseBelow (out1 outT).tensor (out1 outT).layer = [] := by
    simp [out1, denseBelow, ho1, List.range, List.range.loop]
  have hisv : allocIsVals (out1 outT) = true := by
    simp [allocIsVals, allocTarget, hdb]
    simp [out1, ho1]
  refine ⟨hdb, ?_, ?_, ?_, ?_, ?_⟩
  · simp only [allocArr, hisv, if_true]; rfl
  · simp only [allocCap, hisv, if_true]; rfl
  · simp [allocEty, hisv]
  · simp [allocBonus, hisv]
  · simp [Leaf.index, out1, ho1]

/-- the names written by the statements between the `min` and the cursor increment of the INNER loop -/
def midW1 (K : Ctx F) : List String :=
  [K.n .av, K.n .kv, K.n .w1, K.n .ac1, K.n .kc1, K.n .pA1]

theorem noLoop_mid1 (ofRat : Rat → F) (j : String) (outT bT : TensorId) (e : IdExpr) :
    Sparse1.noLoopL [mid1 ofRat j outT bT e] = true := by
  simp [Sparse1.noLoopL, Sparse1.noLoop, mid1, branch1, Sparse1.noLoop_writePosAllocation, termBlock, termLines,
    declAssignE, increment, writeCrdAssembly_shape]

section step
variable {K : Ctx F}

/-- **The inner loop body step.** In a state satisfying the kernel invariant in which the `crd` array of level 1
and the `vals` array of the output hold the first `q` entries (`q < nnz`), the output cursor `p_a_1` and the
input cursor `p_b_1` hold `q`, the loaded coordinate `i_b_1` and the index `j` hold `crd1 q`, the outer flag is
a declared `bool` and the inner flag is undeclared or a `bool`: the statement between the `min` and the
increment of the inner loop runs without error (any fuel, no loop iteration), after which both arrays hold
`q + 1` entries (the new ones are `crd1 q` and `⟦e⟧(vals q)`), `p_a_1 = q + 1`, BOTH flags are `true`; the
other three arrays are described as before; only the variables `midW1` were written. -/
theorem mid1_step (ok : K.OK) (fuel : Nat) (σ : State F) (S : OutSt F) (q : Nat) (hq : q < K.d.nnz)
    (hst : St K S σ) (hc1 : S.cells .c1 = K.crdCells q) (hcv : S.cells .v = K.valsCells q)
    (hpA : IntVar σ (K.n .pA1) q) (hpB : IntVar σ (K.n .pB1) q)
    (hvB : IntVar σ (K.n .vB1) (K.d.crd q)) (hj : IntVar σ (K.n .j) (K.d.crd q))
    (hw1 : FlagOK σ (K.n .w1)) :
    ∃ σ' S', RunsL fuel [mid1 K.ofRat K.j K.outT K.bT K.e] σ σ' ∧ St K S' σ' ∧
      S'.cells .c1 = K.crdCells (q + 1) ∧ S'.cells .v = K.valsCells (q + 1) ∧ Same [.c1, .v] S S' ∧
      IntVar σ' (K.n .pA1) ((q + 1 : Nat) : Int) ∧
      ToIr.FlagTrue σ' (K.n .w1) ∧
      VFrame (midW1 K) σ σ' := by
  have hN := ok.names
  obtain ⟨ho1, ho2⟩ := (isDS_iff K.i K.j K.outT).1 ok.ho
  obtain ⟨hl, ⟨hb1, hb2⟩, _⟩ := (isExpr_iff K.i K.j K.bT K.e).1 ok.he
  obtain ⟨hdb, hArr, hCap, hEty, hBon, hidx⟩ := out1_facts ok.ho
  have hnnz := ok.wf.nnz30
  have hne0 : K.e ≠ .int 0 := by
    intro h; rw [h] at hl; simp [ToIr.leaves] at hl
  have holen : K.outT.indexes.length = 2 := by rw [ho1]; rfl
  have hblen : K.bT.indexes.length = 2 := by rw [hb1]; rfl
  obtain ⟨r0, r1⟩ := ok.wf.rng q hq
  -- 1. vals allocation
  have av := hst.inv.arr .v
  have hqv : (q : Int) ≤ S.cap .v := by have := av.le; rw [hcv, Ctx.valsCells_length] at this; exact this
  obtain ⟨o1, vb1, vc1, e1, ret1, g1, hvc1, hroom1⟩ := writePosAllocation_nodense_safe (out1 K.outT) fuel σ
    (S.blk .v) (S.cap .v) q hdb (by rw [hArr, hCap, hEty]; exact av.inv) hpA (by omega)
    (by rw [hBon]; omega) (by rw [hBon]; intro h; omega)
  rw [hArr, hCap, hEty] at g1
  rw [hBon] at hroom1
  have hqv1 : (q : Int) < vc1 := by have := hroom1 (by omega); omega
  have run1 : Runs fuel (writePosAllocation (out1 K.outT)).finalize σ o1.st := ⟨o1, e1, ret1, rfl⟩
  have st1 : St K (S.set .v vb1 vc1 (S.cells .v)) o1.st :=
    hst.update hN .v (av.of_grow g1) (Sparse2.GrowPost.block_cases g1) g1.vars g1.heap g1.len g1.tensors
  have f1 : VFrame [K.n .av, K.n .kv] σ o1.st := VFrame.of2 g1.vars
  generalize o1.st = σ1 at *
  -- 2. bool written_a_1 = false
  obtain ⟨σ2, r2, hh2, ht2, ⟨rw2, hrw1, hrw2, _⟩, f2'⟩ := Dense1.runsI_declAssign (fuel := fuel)
    (x := K.n .w1) (t := .bool) (e := (.boolLit false : Expr F)) (σ := σ1)
    (val := .bool false) (val' := .bool false)
    (hw1.congr (f1 _ (by cnm hN))) (by simp [evalE]) rfl
  have run2 : Runs fuel (declAssignE (K.n .w1) .bool (.boolLit false)) σ1 σ2 := by
    obtain ⟨o, e, r, s, _⟩ := r2; exact ⟨o, e, r, s⟩
  have f2 : VFrame [K.n .w1] σ1 σ2 := VFrame.of1 f2'
  have st2 : St K (S.set .v vb1 vc1 (S.cells .v)) σ2 := st1.vstep f2 (by cprot hN) hh2 ht2
  have f12 := f1.trans f2
  -- 3. the terminal block
  have hpB2 : IntVar σ2 (K.n .pB1) q := hpB.congr (f12 _ (by cnm hN))
  have hpA2 : IntVar σ2 (K.n .pA1) q := hpA.congr (f12 _ (by cnm hN))
  have hw12 : ToIr.FlagVar σ2 (K.n .w1) := ⟨rw2, hrw1, hrw2⟩
  obtain ⟨bblk, hbblk, hblive, hbty, hbcells⟩ := ok.v
  have hleaf : ∀ t ∈ ToIr.leaves K.e, ToIr.LeafOK σ2 (fun _ => K.d.vals q) t := by
    intro t ht
    rw [hl] at ht
    simp only [List.mem_cons, List.not_mem_nil, or_false] at ht
    subst ht
    refine ToIr.LeafOK.intro (p := q) st2.env.vv ?_ (by omega) (by omega)
      ⟨bblk, st2.env.get hbblk, hblive, hbty, by omega, by simpa using hbcells q hq⟩
    simp only [ToIr.CursorIs, hblen]
    exact hpB2
  have av2 := st2.inv.arr .v
  have hv2b : (S.set .v vb1 vc1 (S.cells .v)).blk .v = vb1 := by simp [OutSt.set]
  have hv2c : (S.set .v vb1 vc1 (S.cells .v)).cap .v = vc1 := by simp [OutSt.set]
  have hv2s : (S.set .v vb1 vc1 (S.cells .v)).cells .v = K.valsCells q := by simp [OutSt.set, hcv]
  rw [hv2b, hv2c, hv2s] at av2
  obtain ⟨vblk1, hvblk1, hv1live, hv1own, hv1ty, hv1len⟩ := av2.inv.blk
  have hcell : ToIr.OutCell σ2 vb1 (0 + (q : Int)) :=
    ⟨vblk1, hvblk1, hv1live, hv1own, hv1ty, by omega, by omega⟩
  obtain ⟨tb, o3, htb, e3, ret3, hst3, _, _, _, hflag3, _, _⟩ :=
    ToIr.terminal_append_sound K.ofRat (fun _ => K.d.vals q) σ2 K.e K.outT .evaluate rfl 0 fuel vb1 0 q hleaf
      (ok.fin q hq) (ToIr.PtrAt.of_ptrVar av2.inv.arr)
      (by
        rw [holen]
        exact evalE_var_int hpA2 (by omega) (by omega))
      hcell
      (by
        intro f hf
        rw [ToIr.activeFlags_ne _ hne0, holen, writtenFlags_eq K.outT ho2] at hf
        simp only [List.mem_cons, List.not_mem_nil, or_false] at hf
        subst hf
        exact hw12)
  rw [holen, lower_terminal_eq K.ofRat 0 K.outT K.e ho2 holen hne0] at htb
  cases htb
  rw [ToIr.activeFlags_ne _ hne0, holen, writtenFlags_eq K.outT ho2] at hst3
  rw [holen, writtenFlags_eq K.outT ho2] at hflag3
  have run3 : Runs fuel (termBlock K.ofRat K.outT K.e) σ2 o3.st := ⟨o3, e3, ret3, rfl⟩
  -- 3a. the store, then 3b. the flags
  have hcp := ToIr.writeCell_post hcell (.flt (K.valAt q))
  have hcs : CellSet σ2 (ToIr.writeCell σ2 vb1 (0 + (q : Int)) (.flt (K.valAt q))) vb1 (K.valsCells q).length
      (.flt (K.valAt q)) := by
    have := CellSet.of_cellPost hcp
    rw [Ctx.valsCells_length]
    simpa using this
  have hvlen : ((K.valsCells q).length : Int) < vc1 := by rw [Ctx.valsCells_length]; exact hqv1
  have st3a : St K ((S.set .v vb1 vc1 (S.cells .v)).set .v vb1 vc1 (K.valsCells (q + 1)))
      (ToIr.writeCell σ2 vb1 (0 + (q : Int)) (.flt (K.valAt q))) := by
    refine st2.update hN .v (b' := vb1) (c' := vc1) ?_ (.inl hv2b.symm)
      (fun y _ _ => by rw [ToIr.writeCell_vars]) ?_ (by rw [hcp.len]; exact Nat.le_refl _) hcp.tensors
    · rw [Ctx.valsCells_succ]
      exact av2.push hvlen hcs (by rw [ToIr.writeCell_vars]) (by rw [ToIr.writeCell_vars])
    · intro k blk hk hkb
      rw [hv2b] at hk
      rw [hcp.other k hk]; exact hkb
  have f3 : VFrame [K.n .w1] σ2 o3.st := by
    intro y hy
    rw [hst3]
    exact (ToIr.setFlags_lookup_other _ _ y hy).trans (by rw [ToIr.writeCell_vars])
  have st3 : St K ((S.set .v vb1 vc1 (S.cells .v)).set .v vb1 vc1 (K.valsCells (q + 1))) o3.st := by
    refine st3a.vstep (W := [K.n .w1]) ?_ (by cprot hN)
      (by rw [hst3]; rfl) (by rw [hst3]; rfl)
    intro y hy
    rw [hst3]
    exact ToIr.setFlags_lookup_other _ _ y hy
  have hfl1 : ToIr.FlagTrue o3.st (K.n .w1) := hflag3 hne0 (K.n .w1) List.mem_cons_self
  have f123 := f12.trans f3
  generalize o3.st = σ3 at *
  generalize hS3 : (S.set .v vb1 vc1 (S.cells .v)).set .v vb1 vc1 (K.valsCells (q + 1)) = S3 at *
  have hS3c1 : S3.cells .c1 = K.crdCells q := by rw [← hS3]; simp [OutSt.set, hc1]
  have hS3v : S3.cells .v = K.valsCells (q + 1) := by rw [← hS3]; simp [OutSt.set]
  have hS3same : Same [.c1, .v] S S3 := by
    rw [← hS3]
    exact (Same.set S (by simp) _ _ _).trans (Same.set _ (by simp) _ _ _)
  -- 4. crd assembly
  have ac3 := st3.inv.arr .c1
  rw [hS3c1] at ac3
  have hqc : (q : Int) ≤ S3.cap .c1 := by have := ac3.le; rw [Ctx.crdCells_length] at this; exact this
  have hpA3 : IntVar σ3 (K.n .pA1) q := hpA.congr (f123 _ (by cnm hN))
  have hj3 : IntVar σ3 (out1 K.outT).index (K.d.crd q) := by
    rw [hidx]; exact hj.congr (f123 _ (by cnm hN))
  have hnd : namesDistinct (out1 K.outT) := by
    unfold namesDistinct
    rw [hidx]
    show [K.n .ac1, K.n .kc1, K.n .pA1, K.n .j].Pairwise (· ≠ ·)
    simp only [List.pairwise_cons, List.Pairwise.nil]
    cnm hN
  obtain ⟨σ4, cb4, cc4, run4, sp, hpA4, _⟩ := crdAssembly_runs (out1 K.outT) fuel σ3 (S3.blk .c1) (S3.cap .c1) q
    (K.d.crd q) ac3.inv hpA3 (by omega) hqc hj3 r0 r1 (by intro h; omega) hnd
  have sp' : StorePost σ3 σ4 (arrName K .c1) (capName K .c1) Comp.c1.ety (S3.blk .c1) (S3.cap .c1)
      ((K.crdCells q).length : Int) (.int (K.d.crd q)) cb4 cc4 := by
    rw [Ctx.crdCells_length]; exact sp
  have st4 : St K (S3.set .c1 cb4 cc4 (K.crdCells (q + 1))) σ4 := by
    refine st3.update hN .c1 ?_ (Sparse2.StorePost.block_cases sp) sp.vars sp.heap sp.len sp.tensors
    rw [Ctx.crdCells_succ]
    exact ac3.of_store sp'
  have f4 : VFrame [K.n .ac1, K.n .kc1] σ3 σ4 := VFrame.of2 sp.vars
  -- 5. p_a_1++
  have hpA4' : IntVar σ4 (K.n .pA1) q := hpA4
  have run5 := Runs.assign_int (fuel := fuel) hpA4'
    (evalE_add (evalE_var_int hpA4' (by omega) (by omega))
      (evalE_intLit (σ := σ4) (v := 1) (by omega) (by omega)) (by omega) (by omega))
  generalize hσ5 : ({ σ4 with vars := setVar σ4.vars (K.n .pA1) (.int ((q : Int) + 1)) } : State F)
    = σ5 at run5
  have f5 : VFrame [K.n .pA1] σ4 σ5 := by
    intro y hy; rw [← hσ5]; exact lookupVar_setVar_other _ (by simpa using hy)
  have hh5 : σ5.heap = σ4.heap := by rw [← hσ5]
  have ht5 : σ5.tensors = σ4.tensors := by rw [← hσ5]
  have hpA5 : IntVar σ5 (K.n .pA1) ((q + 1 : Nat) : Int) := by
    obtain ⟨r, e1, e2, _⟩ := hpA4'
    rw [← hσ5]
    exact ⟨_, lookupVar_setVar_same _ e1, e2, by push_cast; rfl⟩
  have st5 : St K (S3.set .c1 cb4 cc4 (K.crdCells (q + 1))) σ5 := st4.vstep f5 (by cprot hN) hh5 ht5
  have f45 := f4.trans f5
  -- the run
  have econd : evalE σ (.bin .and (.boolLit true)
      (.bin .eq (.var (K.n .vB1)) (.var (K.n .j)))) = .ok (.bool true) := by
    have := evalE_and (σ := σ) (l := .boolLit true) (a := true) (by simp [evalE])
      (evalE_eqInt (evalE_var_int hvB r0 r1) (evalE_var_int hj r0 r1))
    simpa using this
  have hrun : RunsL fuel [mid1 K.ofRat K.j K.outT K.bT K.e] σ σ5 :=
    RunsL.cons (Runs.branch_true econd (Runs.block (RunsL.cons run1 (RunsL.cons run2 (RunsL.cons run3
      (RunsL.cons (Runs.branch_true (Sparse1.evalE_var_flag hfl1)
        (Runs.block (RunsL.cons run4 (RunsL.cons run5 (RunsL.nil _ _))))) (RunsL.nil _ _)))))))
      (RunsL.nil _ _)
  refine ⟨σ5, S3.set .c1 cb4 cc4 (K.crdCells (q + 1)), hrun, st5, by simp [OutSt.set], ?_, ?_, hpA5, ?_, ?_⟩
  · simpa [OutSt.set] using hS3v
  · exact hS3same.trans (Same.set _ (by simp) _ _ _)
  · exact Sparse2.FlagTrue.congr hfl1 (f45 _ (by cnm hN))
  · refine (f123.trans f45).mono ?_
    intro x hx
    simp only [List.mem_append, List.mem_cons, List.not_mem_nil, or_false] at hx
    simp only [midW1, List.mem_cons, List.not_mem_nil, or_false]
    rcases hx with (((rfl | rfl) | rfl) | rfl) | ((rfl | rfl) | rfl) <;> simp

end step

end TV.Csr
