import TensoraVerif.Lemmas.CsrPrologue
import TensoraVerif.Lemmas.CsrLoop
import TensoraVerif.Lemmas.CsrCleanup
import TensoraVerif.Lemmas.CsrGenerate

/-!
C01 for the CSR matrix copy/scale kernels, part 11: the whole `evaluate` function on the machine
(`kernel_runs`), from `Init` to `KernelPost`: prologue, iteration block, cleanup, `return 0`.
-/
namespace TV.Csr
open TV.IR TV.Gen TV.Graph TV.Growth TV.Merge TV.Dense1
open TV.Sparse1 (capVal)

set_option linter.unusedSectionVars false
variable {F : Type} [FloatOps F]

/-- **the whole `evaluate` function on the machine** -/
theorem kernel_runs {K : Ctx F} (ok : K.OK) (cap : Option Int) (formats : Formats)
    (hfmt : formats.map (·.1) = [K.outT.name, K.bT.name])
    (hk0 : 1 ≤ capVal cap) (hk1 : capVal cap < 2147483648)
    {atr btr : TensorRec F} {tb : Nat} {m : Int} {σ : State F} (init : Init K atr btr tb m σ)
    (fuel : Nat) (hfuel : K.d.n + K.d.nnz + 1 ≤ fuel) :
    ∃ o, exec fuel (kernel K.ofRat cap formats K.i K.j K.outT K.bT K.e).body σ = .ok o ∧
      o.ret = some (.int 0) ∧ o.iters = K.d.n + K.d.nnz ∧ KernelPost K atr o.st := by
  obtain ⟨σC, rC, entry⟩ := prologue_runs ok cap hk0 hk1 init fuel
  obtain ⟨σF, S', rF, stF, hfin, hpA1, _⟩ := loopLines_runs ok fuel σC _ hfuel entry
  obtain ⟨σG, rG, post⟩ := cleanup_runs ok init S' σF stF hfin hpA1 fuel
  have hunp : (formats.flatMap fun f => unpackStmts (F := F) f.1) =
      unpackStmts K.outT.name ++ unpackStmts K.bT.name := by
    have : (formats.flatMap fun f => unpackStmts (F := F) f.1) =
        (formats.map (·.1)).flatMap unpackStmts := by
      rw [List.flatMap_map]
    rw [this, hfmt]
    simp
  have rAll : RunsLI fuel (kernelStmts K.ofRat cap formats K.i K.j K.outT K.bT K.e) σ σG
      (0 + (K.d.n + K.d.nnz + (0 + 0))) := by
    unfold kernelStmts
    rw [hunp]
    have h3 := RunsLI.append rC (RunsLI.cons (RunsI.block
      (c := some ("*** Iteration over " ++ K.i ++ " ***")) rF)
      (RunsLI.cons (RunsI.block (c := some ("Assembling output tensor " ++ K.outT.name)) rG) (RunsLI.nil _ _)))
    simpa using h3
  obtain ⟨o, eo, hret, hst, hit⟩ := execL_ret (e := .intLit 0) (v := .int 0) rAll
    (evalE_intLit (by omega) (by omega))
  refine ⟨o, ?_, hret, by rw [hit]; omega, by rw [hst]; exact post⟩
  show exec fuel (.block (kernelStmts K.ofRat cap formats K.i K.j K.outT K.bT K.e ++ [.ret (.intLit 0)]) none) σ = _
  rw [exec.eq_5]
  exact eo

end TV.Csr
