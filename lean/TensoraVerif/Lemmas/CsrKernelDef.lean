import TensoraVerif.Lemmas.CsrModel
import TensoraVerif.Lemmas.Sparse2Generate

/-!
C01 for the CSR matrix copy/scale kernels, part 2: the whole `evaluate` function of the class, written out
(`Csr.kernel`; that `generateIr` produces it is `Csr.generateIr_eq` in `CsrGenerate.lean`).
-/
namespace TV.Csr
open TV.IR TV.Gen TV.Graph TV.Merge
open TV.Sparse2 (dimStmts)

variable {F : Type} [FloatOps F]

/-- all tensors of the format table are CSR matrices -/
def dsFormats (formats : Formats) : Bool :=
  formats.all fun f => f.2.1 == [Mode.dense, Mode.compressed]

/-- `int* t_1_pos = t->indices[1][0]; int* t_1_crd = t->indices[1][1]; double* t_vals = t->vals;` -/
def unpackStmts (name : String) : List (Stmt F) :=
  [declAssignE (posName name 1) (.ptr .int) (.idx (.idx (.attr (.var name) "indices") (.intLit 1)) (.intLit 0)),
   declAssignE (crdName name 1) (.ptr .int) (.idx (.idx (.attr (.var name) "indices") (.intLit 1)) (.intLit 1)),
   declAssignE (valsName name) (.ptr .float) (.attr (.var name) "vals")]

/-- the "Output initialization" block of a CSR matrix: `a_1_pos` gets EXACTLY `1 * i_dim + 1` cells (every level
above is dense), `a_1_crd` and `a_vals` the initial capacity -/
def outInit (cap : Option Int) (i : String) (outT : TensorId) : List (Stmt F) :=
  [declAssignE (posCapName outT.name 1) .int (plus (times (.intLit 1) (.var (dimName i))) (.intLit 1)),
   .assign (.var (posName outT.name 1)) (.alloc .int (.var (posCapName outT.name 1))),
   .assign (.idx (.var (posName outT.name 1)) (.intLit 0)) (.intLit 0),
   declAssignE (crdCapName outT.name 1) .int (defaultArraySize cap),
   .assign (.var (crdName outT.name 1)) (.alloc .int (.var (crdCapName outT.name 1))),
   declAssignE (layerPointer outT.id 1) .int (.intLit 0),
   declAssignE (valsCapName outT.name) .int (defaultArraySize cap),
   .assign (.var (valsName outT.name)) (.alloc .float (.var (valsCapName outT.name)))]

/-- the "Assembling output tensor" block of a CSR matrix (`a_1_pos` is NOT reallocated) -/
def cleanupLines (outT : TensorId) : List (Stmt F) :=
  [.assign (.var (crdName outT.name 1)) (.realloc (.var (crdName outT.name 1)) .int (.var (layerPointer outT.id 1))),
   .assign (.idx (.idx (.attr (.var outT.name) "indices") (.intLit 1)) (.intLit 0)) (.var (posName outT.name 1)),
   .assign (.idx (.idx (.attr (.var outT.name) "indices") (.intLit 1)) (.intLit 1)) (.var (crdName outT.name 1)),
   .assign (.var (valsName outT.name))
     (.realloc (.var (valsName outT.name)) .float (plus (.var (layerPointer outT.id 1)) (.intLit 1))),
   .assign (.attr (.var outT.name) "vals") (.var (valsName outT.name))]

/-- the statements of the `evaluate` kernel of the class, before `return 0` -/
def kernelStmts (ofRat : Rat → F) (cap : Option Int) (formats : Formats) (i j : String) (outT bT : TensorId)
    (e : IdExpr) : List (Stmt F) :=
  [.block (dimStmts i j outT) (some "Extract dimensions"),
   .block (formats.flatMap fun f => unpackStmts f.1) (some "Unpack tensors"),
   .block (outInit cap i outT) (some "Output initialization"),
   .block (loopLines ofRat i j outT bT e) (some ("*** Iteration over " ++ i ++ " ***")),
   .block (cleanupLines outT) (some ("Assembling output tensor " ++ outT.name))]

/-- the `evaluate` kernel of the class -/
def kernel (ofRat : Rat → F) (cap : Option Int) (formats : Formats) (i j : String) (outT bT : TensorId)
    (e : IdExpr) : Func F :=
  ⟨"evaluate", formats.map fun f => (f.1, .ptr .tensor), .int,
    .block (kernelStmts ofRat cap formats i j outT bT e ++ [.ret (.intLit 0)]) none⟩

end TV.Csr
