import TensoraVerif.Lemmas.CsrModel
import TensoraVerif.Lemmas.CsrBasic
import TensoraVerif.Lemmas.Sparse2Lower
import TensoraVerif.Lemmas.SpmvLower

/-!
C01 for the CSR matrix copy/scale kernels, part 2: what `lower` emits for the graphs of the class
(`lower_inner_eq`, `lower_eq`).
-/
namespace TV.Csr
open TV.IR TV.Gen TV.Graph TV.Merge
open TV.Dense1 (ptrDecl)
open TV.Sparse2 (out1 in1 append_commented append_plain generateSubgraphs_two)
set_option linter.unusedSectionVars false
variable {F : Type} [FloatOps F]

/-- the loop context over index `x` when every tensor occurrence has `x` at the dense level `l`: one
dense leaf per occurrence, no sparse leaf -/
theorem extractContext_denseLeaves (x : String) (l : Nat) (e : IdExpr)
    (h : ∀ t ∈ ToIr.leaves e, t.indexes.findIdx? (· == x) = some l ∧ t.modes.getD l .dense = .dense) :
    (extractContext e x).sparseLeaves = [] ∧
    (extractContext e x).denseLeaves = (ToIr.leaves e).map (fun t => ⟨t, l⟩) := by
  induction e with
  | int v => simp [extractContext, ToIr.leaves]
  | flt v => simp [extractContext, ToIr.leaves]
  | tensor t =>
    have ht := h t (by simp [ToIr.leaves])
    have ht2 := ht.2
    rw [List.getD_eq_getElem?_getD] at ht2
    simp [extractContext, ToIr.leaves, ht.1, ht2]
  | add l' r ihl ihr =>
    have hl := ihl (fun t ht => h t (by simp [ToIr.leaves, ht]))
    have hr := ihr (fun t ht => h t (by simp [ToIr.leaves, ht]))
    simp [extractContext, Context.add, ToIr.leaves, hl, hr]
  | mul l' r ihl ihr =>
    have hl := ihl (fun t ht => h t (by simp [ToIr.leaves, ht]))
    have hr := ihr (fun t ht => h t (by simp [ToIr.leaves, ht]))
    simp [extractContext, Context.mul, ToIr.leaves, hl, hr]

section
variable (i j : String) (outT bT : TensorId) (e : IdExpr) (hij : i ≠ j) (he : isExpr i j bT e = true)
include hij he

theorem ctx_i : (extractContext e i).sparseLeaves = [] ∧ (extractContext e i).denseLeaves = [⟨bT, 0⟩] := by
  obtain ⟨hl, ⟨hb1, hb2⟩, _⟩ := (isExpr_iff i j bT e).1 he
  have := extractContext_denseLeaves i 0 e (by
    intro t ht; rw [hl] at ht
    simp only [List.mem_cons, List.not_mem_nil, or_false] at ht
    subst ht
    simp [hb1, hb2, List.findIdx?_cons])
  rw [hl] at this
  exact ⟨this.1, this.2⟩

theorem ctx_j : (extractContext e j).isSparse = true ∧
    (extractContext e j).sparseLeaves = [in1 bT] ∧ (extractContext e j).denseLeaves = [] := by
  obtain ⟨hl, ⟨hb1, hb2⟩, hs⟩ := (isExpr_iff i j bT e).1 he
  have := Sparse2.extractContext_leaves j 1 e (by
    intro t ht; rw [hl] at ht
    simp only [List.mem_cons, List.not_mem_nil, or_false] at ht
    subst ht
    simp [hb1, hb2, List.findIdx?_cons, hij])
  rw [hl] at this
  exact ⟨hs, this.1, this.2⟩

theorem ctx_exhaust (x : String) : (extractContext (exhaust e bT.id) x).sparseLeaves = [] := by
  obtain ⟨hl, _, _⟩ := (isExpr_iff i j bT e).1 he
  have hn := Sparse1.exhaust_leaves_nil hl
  have := Sparse2.extractContext_leaves x 0 (exhaust e bT.id) (by rw [hn]; intro t ht; cases ht)
  rw [hn] at this
  exact this.1

theorem compressedDims_inner : compressedDims (innerGraph j outT e) = [bT.id] := by
  simp [compressedDims, innerGraph, nodeContext, IGraph.context, (ctx_j i j bT e hij he).2.1, dedupStr, in1]

theorem compressedDims_inner_exhausted :
    compressedDims ((innerGraph j outT e).exhaust bT.id) = [] := by
  simp [compressedDims, innerGraph, IGraph.exhaust, nodeContext, IGraph.context, ctx_exhaust i j bT e hij he,
    dedupStr]

theorem compressedDims_graph : compressedDims (graph i j outT e) = [] := by
  simp [compressedDims, graph, innerGraph, nodeContext, IGraph.context, (ctx_i i j bT e hij he).1, dedupStr]

theorem generateSubgraphs_outer : generateSubgraphs (graph i j outT e) = [graph i j outT e] := by
  have hc := compressedDims_graph i j outT bT e hij he
  simp [generateSubgraphs, hc, generateSubgraphs.go, sortByLenDesc]

end

theorem layersToWrite_ds (i j : String) (hij : i ≠ j) (t : TensorId) (h : isDS i j t = true) :
    layersToWrite ⟨t, 0⟩ i [i, j] = [⟨t, 0⟩] := by
  have h' := (isDS_iff i j t).1 h
  simp [layersToWrite, h'.1, h'.2, List.range, List.range.loop, hij]

/-- **What `lower` emits on the inner node.** -/
theorem lower_inner_eq (ofRat : Rat → F) (n : Nat) (i j : String) (outT bT : TensorId) (e : IdExpr)
    (hij : i ≠ j) (ho : isDS i j outT = true) (he : isExpr i j bT e = true) :
    lower ofRat (n + 2) (innerGraph j outT e) (.append outT 1) .evaluate =
      .ok ⟨some ("*** Iteration over " ++ j ++ " ***"), innerLines ofRat j outT bT e⟩ := by
  have ho' := (isDS_iff i j outT).1 ho
  have hctx := ctx_j i j bT e hij he
  have hcd1 := compressedDims_inner i j outT bT e hij he
  have hcd2 := compressedDims_inner_exhausted i j outT bT e hij he
  have hsub := generateSubgraphs_two _ _ hcd1 hcd2
  have hne : e ≠ .int 0 := by
    intro h; have := ((isExpr_iff i j bT e).1 he).1; rw [h] at this; simp [ToIr.leaves] at this
  unfold innerGraph at hsub hcd1 hcd2 ⊢
  simp only [IGraph.exhaust] at hsub hcd2
  unfold lower
  simp only [Kind.isCompute, Bool.not_true, Bool.false_and, Bool.false_eq_true, if_false]
  have hso : isSparseOutput (IGraph.iter j (some { tensor := outT, layer := 1 }) (IGraph.terminal e)) = true := by
    simp [isSparseOutput, Leaf.mode, ho'.2]
  have hnext : ((Output.append outT 1).next (some 1) Kind.evaluate : Except GenErr (Output × SB F)) =
      .ok (.append outT 2, SB.empty) := by simp [Output.next]
  have hnc : nodeContext (IGraph.iter j (some { tensor := outT, layer := 1 }) (IGraph.terminal e)) =
      extractContext e j := by
    simp [nodeContext, IGraph.context]
  have hlater : (IGraph.iter j (some { tensor := outT, layer := 1 }) (IGraph.terminal e)).laterIndexes = [j] := by
    simp [IGraph.laterIndexes]
  have hterm := lower_terminal_eq ofRat n outT e ho'.2 (by rw [ho'.1]; rfl) hne
  have hmode : ({ tensor := outT, layer := 1 } : Leaf).mode = Mode.compressed := by simp [Leaf.mode, ho'.2]
  simp only [hso, hmode, Option.map_some, hnext, hsub, hnc, hctx.1, hctx.2.1, hctx.2.2, hlater, hterm, hcd1, hcd2,
    Bool.or_true, Bool.true_and, Bool.and_self, if_true,
    List.foldlM_cons, List.foldlM_nil, bind, Except.bind, pure, Except.pure,
    List.isEmpty_nil, List.isEmpty_cons, Bool.not_true, Bool.not_false, Option.isNone_some, Bool.false_eq_true,
    if_false, List.foldl_nil, List.foldl_cons,
    List.map_nil, List.map_cons, List.nil_append, Kind.isAssemble]
  rw [append_commented _ _ _ (Sparse1.writePosAllocation_comment _),
    append_commented _ (writeCrdAssembly _) "crd assembly" rfl,
    append_commented _ (writePosAssembly _) "pos assembly" rfl,
    append_plain _ (writeSparseInit _) rfl]
  simp [SB.mk', SB.append, SB.empty, SB.add, SB.loop, SB.branch, SB.finalize, branchJoin, andJoin, joinWith,
    minJoin, innerLines, mid1, branch1, termBlock, mergeLoopL, mergeBodyL, mergeCond,
    mergeLoads, mergeMin, mergeIncs, in1, out1, Leaf.ptr, Sparse1.writePosAllocation_comment]
  exact ⟨rfl, rfl⟩

/-- **What `lower` emits on the class.** -/
theorem lower_eq (ofRat : Rat → F) (n : Nat) (i j : String) (outT bT : TensorId) (e : IdExpr)
    (hij : i ≠ j) (ho : isDS i j outT = true) (he : isExpr i j bT e = true) :
    lower ofRat (n + 3) (graph i j outT e) (.append outT 0) .evaluate =
      .ok ⟨some ("*** Iteration over " ++ i ++ " ***"), loopLines ofRat i j outT bT e⟩ := by
  have ho' := (isDS_iff i j outT).1 ho
  have hb : isDS i j bT = true := by
    have := ((isExpr_iff i j bT e).1 he).2.1
    exact (isDS_iff i j bT).2 this
  have hb' := (isDS_iff i j bT).1 hb
  have hctx := ctx_i i j bT e hij he
  have hsub := generateSubgraphs_outer i j outT bT e hij he
  have hinner := lower_inner_eq ofRat n i j outT bT e hij ho he
  simp only [graph, innerGraph] at hsub hinner ⊢
  unfold lower
  simp only [Kind.isCompute, Bool.not_true, Bool.false_and, Bool.false_eq_true, if_false]
  have hso : isSparseOutput (IGraph.iter i (some { tensor := outT, layer := 0 })
      (IGraph.iter j (some { tensor := outT, layer := 1 }) (IGraph.terminal e))) = false := by
    simp [isSparseOutput, Leaf.mode, ho'.2]
  have hnext : ((Output.append outT 0).next (some 0) Kind.evaluate : Except GenErr (Output × SB F)) =
      .ok (.append outT 1, SB.empty) := by simp [Output.next]
  have hnc : nodeContext (IGraph.iter i (some { tensor := outT, layer := 0 })
      (IGraph.iter j (some { tensor := outT, layer := 1 }) (IGraph.terminal e))) = extractContext e i := by
    simp [nodeContext, IGraph.context]
  have hlater : (IGraph.iter i (some { tensor := outT, layer := 0 })
      (IGraph.iter j (some { tensor := outT, layer := 1 }) (IGraph.terminal e))).laterIndexes = [i, j] := by
    simp [IGraph.laterIndexes]
  have hmode : ({ tensor := outT, layer := 0 } : Leaf).mode = Mode.dense := by simp [Leaf.mode, ho'.2]
  simp only [hso, hmode, Option.map_some, hnext, hsub, hnc, hctx.1, hctx.2, hlater, hinner,
    layersToWrite_ds i j hij outT ho, layersToWrite_ds i j hij bT hb,
    Bool.and_false, Bool.or_false, Bool.false_and, Bool.false_eq_true, if_false, if_true,
    List.foldlM_cons, List.foldlM_nil, bind, Except.bind, pure, Except.pure,
    List.isEmpty_nil, Bool.not_true, Option.isNone_some, Bool.not_false, List.foldl_nil, List.foldl_cons,
    beq_self_eq_true, List.map_nil, List.nil_append, List.cons_append]
  simp [SB.mk', SB.append, SB.empty, SB.add, SB.loop, SB.finalize, branchJoin, andJoin, joinWith,
    loopLines, outerLoop, outerBody, innerBlock, ptrDecl, Leaf.index, Leaf.ptr, Leaf.prevPtr, prevLayerPointer,
    ho'.1, hb'.1]

end TV.Csr
