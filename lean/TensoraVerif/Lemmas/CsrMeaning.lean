import TensoraVerif.Lemmas.CsrState
import TensoraVerif.Lemmas.CsrLower
import TensoraVerif.Lemmas.Sparse2Meaning
import TensoraVerif.Lemmas.SpmvModel

/-!
C01 for the CSR matrix copy/scale kernels, part 12: the meaning of the stored result over the exact carrier.

* `csrAt`: the dense reading of a CSR structure (value at the coordinate pair `(x, y)`, `0` where nothing is
  stored or outside the rows); `CData.at` (the input), `CData.outAt` (the output the kernel theorem describes:
  the SAME `pos` and `crd` arrays, values `⟦e⟧(vals q)`);
* `csrAt_out`: for an expression that vanishes with `B`, the dense reading of the output is the meaning of `e`
  applied to the dense reading of `B`, at EVERY coordinate pair;
* `CData.Wf.of_csr`: the well-formedness used by the run follows from `Spmv.Csr` (the CSR predicate of the
  matrix–vector product) and the int32 bounds.
-/
namespace TV.Csr
open TV.IR TV.Gen TV.Graph

set_option linter.unusedSectionVars false

/-- dense reading of a CSR structure with `n` rows: the value at `(x, y)` -/
def csrAt (n : Nat) (pos : Nat → Nat) (crd : Nat → Int) (vals : Nat → Rat) (x y : Int) : Rat :=
  if 0 ≤ x ∧ x < (n : Int) then
    match (List.range' (pos x.toNat) (pos (x.toNat + 1) - pos x.toNat)).find? (fun q => crd q == y) with
    | none => 0
    | some q => vals q
  else 0

/-- the dense reading of the input -/
def CData.at (d : CData Rat) : Int → Int → Rat := csrAt d.n d.pos d.crd d.vals

/-- the dense reading of the output: the same `n + 1` positions and `nnz` column coordinates (that is what the
kernel stores), and the values `⟦e⟧(vals q)` -/
def CData.outAt (d : CData Rat) (e : IdExpr) : Int → Int → Rat :=
  csrAt d.n d.pos d.crd (fun q => value (fun _ => d.vals q) e)

/-- **the meaning of the stored result**: at every coordinate pair the dense reading of the output is the
meaning of `e` at the dense reading of `B` -/
theorem csrAt_out (d : CData Rat) (e : IdExpr) (hz : value (fun _ => 0) e = 0) (x y : Int) :
    d.outAt e x y = value (fun _ => d.at x y) e := by
  unfold CData.outAt CData.at csrAt
  by_cases hx : 0 ≤ x ∧ x < (d.n : Int)
  · simp only [hx, and_self, if_true]
    cases (List.range' (d.pos x.toNat) (d.pos (x.toNat + 1) - d.pos x.toNat)).find? (fun q => d.crd q == y) with
    | none => exact hz.symm
    | some q => rfl
  · simp only [hx, if_false]
    exact hz.symm

/-- an expression of the class vanishes where `B` stores nothing -/
theorem value_zero_of_isExpr {i j : String} {bT : TensorId} {e : IdExpr}
    (he : isExpr i j bT e = true) : value (fun _ => 0) e = 0 := by
  obtain ⟨_, _, hs⟩ := (isExpr_iff i j bT e).1 he
  exact context_sparse_sound _ e j hs (fun _ _ => rfl)

/-- **`Spmv.Csr` gives the well-formedness the run needs**: `pos 0 = 0`, `pos` non-decreasing, `pos n = nnz`,
columns `< m`, together with the int32 bounds `n + 1 < 2^31`, `m ≤ 2^31`, `nnz ≤ 2^30` -/
theorem CData.Wf.of_csr {F : Type} {n m nnz : Nat} {pos crd : Nat → Nat} (h : Spmv.Csr n m nnz pos crd)
    (hn : n < 2147483647) (hm : m ≤ 2147483648) (hnnz : nnz ≤ 1073741824) (vals : Nat → F) :
    (CData.mk n nnz pos (fun q => (crd q : Int)) vals).Wf :=
  ⟨h.pos0, h.posn, h.mono, fun q hq => by
      have := h.crdLt q hq
      show (-2147483648 : Int) ≤ ((crd q : Nat) : Int) ∧ ((crd q : Nat) : Int) < 2147483648
      omega,
    hn, hnnz⟩

end TV.Csr
