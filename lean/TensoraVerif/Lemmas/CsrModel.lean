import TensoraVerif.Lemmas.Sparse2Model
import TensoraVerif.Lemmas.Dense1Model

/-!
C01 for the CSR matrix copy/scale kernels (`a(i,j) = e`, `a: ds` — dense rows, compressed columns —, `e`
mentioning exactly one CSR matrix `B(i,j)`), part 1: definitions.

* `Csr.isDS`, `Csr.isExpr`: the class (`ToIr.leaves e = [bT]`, `bT` an order-2 tensor indexed by `[i, j]` with
  modes `[dense, compressed]`, and the loop over `j` is sparse for `e`);
* `Csr.graph`: the iteration graph of the class;
* `Csr.loopLines`: what `lower` emits on the class, written out: `int i = 0; while (i < i_dim) { int p_a_0 =
  0 * i_dim + i; int p_B_0 = 0 * i_dim + i; if (true) { <"Iteration over j" block> } i = i + 1; }` where the
  block reads the row segment from `B_1_pos[p_B_0]`, `B_1_pos[p_B_0 + 1]`, runs the merge loop over the stored
  entries of the row appending to `a_1_crd` / `a_vals`, and stores `a_1_pos[p_a_0 + 1] = p_a_1`.
-/
namespace TV.Csr
open TV.IR TV.Gen TV.Graph TV.Merge
open TV.Dense1 (ptrDecl)
open TV.Sparse2 (out1 in1)

variable {F : Type} [FloatOps F]

/-- an order-2 tensor indexed by `[i, j]`, dense rows and compressed columns (CSR) -/
def isDS (i j : String) (t : TensorId) : Bool :=
  t.indexes == [i, j] && t.modes == [Mode.dense, Mode.compressed]

/-- `e` mentions exactly ONE tensor occurrence, `bT`, a CSR matrix indexed by `[i, j]`, and the loop over `j` is
sparse for `e` (`B`, `2 * B`, `B * 2.5`, `B + 0` … but not `B + 2`) -/
def isExpr (i j : String) (bT : TensorId) (e : IdExpr) : Bool :=
  ToIr.leaves e == [bT] && isDS i j bT && (extractContext e j).isSparse

/-- the inner node of the iteration graph -/
def innerGraph (j : String) (outT : TensorId) (e : IdExpr) : IGraph :=
  .iter j (some ⟨outT, 1⟩) (.terminal e)

/-- the iteration graph of `out(i,j) = e` -/
def graph (i j : String) (outT : TensorId) (e : IdExpr) : IGraph :=
  .iter i (some ⟨outT, 0⟩) (innerGraph j outT e)

/-! ### the emitted loop nest -/

/-- the lines of the terminal block: the flag of the compressed level is raised, then
`out_vals[p_out_1] = <e>;` -/
def termLines (ofRat : Rat → F) (outT : TensorId) (e : IdExpr) : List (Stmt F) :=
  [.assign (.var (writtenName outT.name 1)) (.boolLit true),
   .assign (.idx (.var (valsName outT.name)) (.var (layerPointer outT.id 1))) (toIrWith ofRat e)]

/-- the terminal block -/
def termBlock (ofRat : Rat → F) (outT : TensorId) (e : IdExpr) : Stmt F :=
  .block (termLines ofRat outT e) (some "*** Computation of expression ***")

/-- the statements of the inner branch, taken at every stored entry of the row -/
def branch1 (ofRat : Rat → F) (outT : TensorId) (e : IdExpr) : List (Stmt F) :=
  [(writePosAllocation (out1 outT)).finalize,
   declAssignE (writtenName outT.name 1) .bool (.boolLit false),
   termBlock ofRat outT e,
   .branch (.var (writtenName outT.name 1))
     (.block [(writeCrdAssembly (out1 outT)).finalize,
        increment (.var (layerPointer outT.id 1)) (.intLit 1)] none)
     (.block [] none)]

/-- what `lower` puts between the `min` and the cursor increment of the inner loop: `if (i_B_1 == j) { … }` -/
def mid1 (ofRat : Rat → F) (j : String) (outT bT : TensorId) (e : IdExpr) : Stmt F :=
  .branch (.bin .and (.boolLit true) (.bin .eq (.var (valueFromCrd bT.id 1)) (.var j)))
    (.block (branch1 ofRat outT e) none) (.block [] none)

/-- the lines of the "Iteration over j" block: row cursors from `B_1_pos[p_B_0]`, `B_1_pos[p_B_0 + 1]`, the
merge loop over the row, `a_1_pos[p_a_0 + 1] = p_a_1` -/
def innerLines (ofRat : Rat → F) (j : String) (outT bT : TensorId) (e : IdExpr) : List (Stmt F) :=
  (writeSparseInit (in1 bT)).lines ++
  [mergeLoopL [in1 bT] j [mid1 ofRat j outT bT e],
   (writePosAssembly (out1 outT)).finalize]

/-- the "Iteration over j" block -/
def innerBlock (ofRat : Rat → F) (j : String) (outT bT : TensorId) (e : IdExpr) : Stmt F :=
  .block (innerLines ofRat j outT bT e) (some ("*** Iteration over " ++ j ++ " ***"))

/-- the body of the dense outer loop: `int p_a_0 = 0 * i_dim + i; int p_B_0 = 0 * i_dim + i; if (true) { … }
i = i + 1;` -/
def outerBody (ofRat : Rat → F) (i j : String) (outT bT : TensorId) (e : IdExpr) : List (Stmt F) :=
  [ptrDecl i outT, ptrDecl i bT,
   .branch (.boolLit true) (.block [innerBlock ofRat j outT bT e] none) (.block [] none),
   increment (.var i) (.intLit 1)]

/-- `while (i < i_dim) { … }` -/
def outerLoop (ofRat : Rat → F) (i j : String) (outT bT : TensorId) (e : IdExpr) : Stmt F :=
  .loop (.bin .lt (.var i) (.var (dimName i))) (.block (outerBody ofRat i j outT bT e) none)

/-- the lines of the "Iteration over i" block: `int i = 0; while (i < i_dim) { … }` -/
def loopLines (ofRat : Rat → F) (i j : String) (outT bT : TensorId) (e : IdExpr) : List (Stmt F) :=
  [declAssignE i .int (.intLit 0), outerLoop ofRat i j outT bT e]

end TV.Csr
