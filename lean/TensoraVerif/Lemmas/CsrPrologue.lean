import TensoraVerif.Lemmas.CsrShape
import TensoraVerif.Lemmas.Sparse2Prologue

/-!
C01 for the CSR matrix copy/scale kernels, part 8: the prologue on the machine — "Extract dimensions", "Unpack
tensors", "Output initialization" — from an initial state as the driver builds it (`Init`) to the state at the
entry of the iteration block (`Entry`): three fresh output blocks `a_1_pos = [0, …]` (EXACTLY `n + 1` cells),
`a_1_crd`, `a_vals` (capacities `n + 1, k, k`).
-/
namespace TV.Csr
open TV.IR TV.Gen TV.Graph TV.Growth TV.Merge TV.Dense1
open TV.Sparse1 (capVal declFresh evalE_default)
open TV.Sparse2 (Nm nameOf allNames VFrame Arr FlagOK evalE_dim evalE_slot allocPart_runs store0_runs ptrVar_of
  declOK_of_none flagOK_of_none dimStmts)

set_option linter.unusedSectionVars false
variable {F : Type} [FloatOps F]

/-- "Unpack tensors" for one CSR matrix `x`: the three declarations run and bind the new variables to the
contents of slot 1 and the `vals` pointer of the tensor record -/
theorem unpack1_runs {fuel : Nat} {σ : State F} {x : String} {k : Nat} {tr : TensorRec F}
    {p1 c1 : Val F}
    (hx : TensorVar σ x k) (htr : σ.tensors[k]? = some tr) (hord : 2 ≤ tr.order)
    (hs1 : tr.slots[1]? = some (some (p1, c1)))
    (hp1 : isPtrVal p1 = true) (hc1 : isPtrVal c1 = true)
    (hv : isPtrVal tr.vals = true)
    (hnd : [x, posName x 1, crdName x 1, valsName x].Nodup)
    (f3 : lookupVar σ.vars (posName x 1) = none) (f4 : lookupVar σ.vars (crdName x 1) = none)
    (f5 : lookupVar σ.vars (valsName x) = none) :
    ∃ σ', RunsLI fuel (unpackStmts x) σ σ' 0 ∧ σ'.heap = σ.heap ∧ σ'.tensors = σ.tensors ∧
      (∃ r, lookupVar σ'.vars (posName x 1) = some r ∧ r.ty = .ptr .int ∧ r.val = some p1) ∧
      (∃ r, lookupVar σ'.vars (crdName x 1) = some r ∧ r.ty = .ptr .int ∧ r.val = some c1) ∧
      (∃ r, lookupVar σ'.vars (valsName x) = some r ∧ r.ty = .ptr .float ∧ r.val = some tr.vals) ∧
      VFrame [posName x 1, crdName x 1, valsName x] σ σ' := by
  simp only [List.nodup_cons, List.mem_cons, List.not_mem_nil, or_false, not_or, List.nodup_nil, and_true,
    not_false_eq_true] at hnd
  obtain ⟨⟨n03, n04, n05⟩, ⟨n34, n35⟩, n45⟩ := hnd
  obtain ⟨σ3, r3, hh3, ht3, v3, o3⟩ := Sparse1.declFresh (fuel := fuel) (t := .ptr .int)
    (x := posName x 1) f3
    (evalE_slot (j := 0) 1 hx htr (by omega) (by omega) hs1 hp1 hc1 (.inl rfl))
    (convTo_ptr_of_isPtrVal .int hp1)
  have hx3 : TensorVar σ3 x k := hx.congr (o3 _ n03)
  obtain ⟨σ4, r4, hh4, ht4, v4, o4⟩ := Sparse1.declFresh (fuel := fuel) (t := .ptr .int)
    (x := crdName x 1) (by rw [o3 _ (Ne.symm n34)]; exact f4)
    (evalE_slot (j := 1) 1 hx3 (by rw [ht3]; exact htr) (by omega) (by omega) hs1 hp1 hc1 (.inr rfl))
    (convTo_ptr_of_isPtrVal .int hc1)
  have hx4 : TensorVar σ4 x k := hx3.congr (o4 _ n04)
  obtain ⟨σ5, r5, hh5, ht5, v5, o5⟩ := Sparse1.declFresh (fuel := fuel) (t := .ptr .float)
    (x := valsName x)
    (by rw [o4 _ (Ne.symm n45), o3 _ (Ne.symm n35)]; exact f5)
    (evalE_vals hx4 (by rw [ht4, ht3]; exact htr) hv) (convTo_ptr_of_isPtrVal .float hv)
  refine ⟨σ5, RunsLI.cons r3 (RunsLI.cons r4 (RunsLI.cons r5 (RunsLI.nil _ _))),
    by rw [hh5, hh4, hh3], by rw [ht5, ht4, ht3], ?_, ?_, v5, ?_⟩
  · obtain ⟨r, e1, e2, e3⟩ := v3
    exact ⟨r, by rw [o5 _ n35, o4 _ n34]; exact e1, e2, by simpa using e3⟩
  · obtain ⟨r, e1, e2, e3⟩ := v4
    exact ⟨r, by rw [o5 _ n45]; exact e1, e2, by simpa using e3⟩
  · intro y hy
    simp only [List.mem_cons, List.not_mem_nil, or_false, not_or] at hy
    rw [o5 y hy.2.2, o4 y hy.2.1, o3 y hy.1]

section
variable {K : Ctx F}

/-- the names declared by "Extract dimensions" and "Unpack tensors" -/
def proW1 (K : Ctx F) : List String :=
  ([K.n .di] ++ [K.n .dj]) ++ [K.n .ap1, K.n .ac1, K.n .av] ++ [K.n .bp1, K.n .bc1, K.n .bv]

/-- **the first two blocks of the prologue** -/
theorem prologue1_runs (ok : K.OK) {atr btr : TensorRec F} {tb : Nat} {m : Int} {σ : State F}
    (init : Init K atr btr tb m σ) (fuel : Nat) :
    ∃ σB, RunsLI fuel
        [.block (dimStmts K.i K.j K.outT) (some "Extract dimensions"),
         .block (unpackStmts K.outT.name ++ unpackStmts K.bT.name) (some "Unpack tensors")] σ σB 0 ∧
      σB.heap = σ.heap ∧ σB.tensors = σ.tensors ∧ VFrame (proW1 K) σ σB ∧
      IntVar σB (K.n .di) K.d.n ∧
      (∀ c ∈ [Nm.ap1, .ac1], ∃ r, lookupVar σB.vars (K.n c) = some r ∧ r.ty = .ptr .int) ∧
      (∃ r, lookupVar σB.vars (K.n .av) = some r ∧ r.ty = .ptr .float) ∧
      PtrVar σB (K.n .bp1) K.bp ∧ PtrVar σB (K.n .bc1) K.bc ∧ PtrVar σB (K.n .bv) K.bv := by
  have hN := ok.names
  have hn31 := ok.wf.n31
  have hfr : ∀ c : Nm, c ≠ .a → c ≠ .b → lookupVar σ.vars (K.n c) = none := by
    intro c h1 h2
    exact init.fresh _ (by cnm hN; exact h1) (by cnm hN; exact h2)
  obtain ⟨dblk, hdb, hdlive, hdty, hdc0, hdc1⟩ := init.adim
  obtain ⟨ap1, ac1, hasl1, hap1, hac1⟩ := init.aslot1
  have harec : σ.tensors[K.ta]? = some atr := by rw [init.tensors]; exact init.arec
  have hbrec : σ.tensors[tb]? = some btr := by rw [init.tensors]; exact init.brec
  -- A: the dimension variables
  obtain ⟨σA1, rA1, hhA1, htA1, vA1, oA1⟩ := declFresh (fuel := fuel) (x := K.n .di) (t := .int)
    (val' := .int (K.d.n : Int))
    (hfr _ (by decide) (by decide))
    (evalE_dim 0 init.avar harec (by rw [init.heap]; exact hdb) hdlive hdty hdc0 (by omega) (by omega) (by omega))
    rfl
  have vA1' : IntVar σA1 (K.n .di) K.d.n := vA1
  have fA1 : VFrame [K.n .di] σ σA1 := VFrame.of1 oA1
  obtain ⟨σA, rA2, hhA2, htA2, _, oA2⟩ := declFresh (fuel := fuel) (x := K.n .dj) (t := .int) (val' := .int m)
    (σ := σA1) (by rw [fA1 _ (by cnm hN)]; exact hfr _ (by decide) (by decide))
    (evalE_dim 1 (init.avar.congr (fA1 _ (by cnm hN))) (by rw [htA1]; exact harec)
      (by rw [hhA1, init.heap]; exact hdb) hdlive hdty hdc1 (by omega) init.m32.1 init.m32.2) rfl
  have fA2 : VFrame [K.n .dj] σA1 σA := VFrame.of1 oA2
  have fA := fA1.trans fA2
  have hhA : σA.heap = σ.heap := by rw [hhA2, hhA1]
  have htA : σA.tensors = σ.tensors := by rw [htA2, htA1]
  -- B: unpack the output
  have hndA : [K.n .a, posName (K.n .a) 1, crdName (K.n .a) 1, valsName (K.n .a)].Nodup := by
    show [K.n .a, K.n .ap1, K.n .ac1, K.n .av].Nodup
    simp only [List.nodup_cons, List.nodup_nil]
    cnm hN
  obtain ⟨σB1, rB1, hhB1, htB1, vp1, vc1, vv, fB1'⟩ := unpack1_runs (fuel := fuel) (σ := σA)
    (init.avar.congr (fA _ (by cnm hN))) (by rw [htA]; exact harec) init.aord hasl1 hap1 hac1
    init.avals hndA
    (by show lookupVar σA.vars (K.n .ap1) = none; rw [fA _ (by cnm hN)]; exact hfr _ (by decide) (by decide))
    (by show lookupVar σA.vars (K.n .ac1) = none; rw [fA _ (by cnm hN)]; exact hfr _ (by decide) (by decide))
    (by show lookupVar σA.vars (K.n .av) = none; rw [fA _ (by cnm hN)]; exact hfr _ (by decide) (by decide))
  have fB1 : VFrame [K.n .ap1, K.n .ac1, K.n .av] σA σB1 := fB1'
  have fAB1 := fA.trans fB1
  -- B: unpack the input
  have hndB : [K.n .b, posName (K.n .b) 1, crdName (K.n .b) 1, valsName (K.n .b)].Nodup := by
    show [K.n .b, K.n .bp1, K.n .bc1, K.n .bv].Nodup
    simp only [List.nodup_cons, List.nodup_nil]
    cnm hN
  obtain ⟨σB, rB2, hhB2, htB2, wp1, wc1, wv, fB2'⟩ := unpack1_runs (fuel := fuel) (σ := σB1)
    (init.bvar.congr (fAB1 _ (by cnm hN))) (by rw [htB1, htA]; exact hbrec) init.bord init.bslot1
    rfl rfl (by rw [init.bvals]; rfl) hndB
    (by show lookupVar σB1.vars (K.n .bp1) = none; rw [fAB1 _ (by cnm hN)]; exact hfr _ (by decide) (by decide))
    (by show lookupVar σB1.vars (K.n .bc1) = none; rw [fAB1 _ (by cnm hN)]; exact hfr _ (by decide) (by decide))
    (by show lookupVar σB1.vars (K.n .bv) = none; rw [fAB1 _ (by cnm hN)]; exact hfr _ (by decide) (by decide))
  have fB2 : VFrame [K.n .bp1, K.n .bc1, K.n .bv] σB1 σB := fB2'
  have gA := (fA2.trans fB1).trans fB2
  refine ⟨σB, ?_, by rw [hhB2, hhB1, hhA], by rw [htB2, htB1, htA], fAB1.trans fB2,
    vA1'.congr (gA _ (by cnm hN)), ?_, ?_, ptrVar_of wp1, ptrVar_of wc1, ?_⟩
  · exact RunsLI.cons (RunsI.block (RunsLI.cons rA1 (RunsLI.cons rA2 (RunsLI.nil _ _))))
      (RunsLI.cons (RunsI.block (RunsLI.append rB1 rB2)) (RunsLI.nil _ _))
  · intro c hc
    simp only [List.mem_cons, List.not_mem_nil, or_false] at hc
    rcases hc with rfl | rfl
    · obtain ⟨r, e1, e2, _⟩ := vp1; exact ⟨r, by rw [fB2 _ (by cnm hN)]; exact e1, e2⟩
    · obtain ⟨r, e1, e2, _⟩ := vc1; exact ⟨r, by rw [fB2 _ (by cnm hN)]; exact e1, e2⟩
  · obtain ⟨r, e1, e2, _⟩ := vv; exact ⟨r, by rw [fB2 _ (by cnm hN)]; exact e1, e2⟩
  · refine ptrVar_of (t := .float) ?_
    obtain ⟨r, e1, e2, e3⟩ := wv
    exact ⟨r, e1, e2, by rw [e3, init.bvals]⟩

/-- the names the first two blocks of the prologue leave undeclared -/
def proLocals : List Nm :=
  [.kp1, .kc1, .kv, .pA0, .pA1, .pB0, .pB1, .eB1, .vB1, .w1, .i, .j]

/-- the names declared by "Output initialization" -/
def proW2 (K : Ctx F) : List String :=
  [K.n .kp1, K.n .ap1] ++ ([] ++ ([K.n .kc1, K.n .ac1] ++ ([K.n .pA1] ++ [K.n .kv, K.n .av])))

/-- **"Output initialization"**: the three arrays of the output are allocated (`a_1_pos`: EXACTLY `n + 1` cells,
the others: the initial capacity `k ≥ 1`), `a_1_pos[0] = 0`, the cursor is `0` -/
theorem outInit_runs (ok : K.OK) (cap : Option Int) (hk0 : 1 ≤ capVal cap) (hk1 : capVal cap < 2147483648)
    (σB : State F) (fuel : Nat) (hheap : σB.heap = K.heap0) (htens : σB.tensors = K.tensors0)
    (hdim : IntVar σB (K.n .di) K.d.n)
    (hint : ∀ c ∈ [Nm.ap1, .ac1], ∃ r, lookupVar σB.vars (K.n c) = some r ∧ r.ty = .ptr .int)
    (hflt : ∃ r, lookupVar σB.vars (K.n .av) = some r ∧ r.ty = .ptr .float)
    (hbp1 : PtrVar σB (K.n .bp1) K.bp) (hbc1 : PtrVar σB (K.n .bc1) K.bc) (hbv : PtrVar σB (K.n .bv) K.bv)
    (havar : TensorVar σB (K.n .a) K.ta)
    (hfr : ∀ c ∈ proLocals, lookupVar σB.vars (K.n c) = none) :
    ∃ σC, RunsLI fuel (outInit cap K.i K.outT) σB σC 0 ∧ Entry K (entrySt K (capVal cap)) σC ∧
      VFrame (proW2 K) σB σC := by
  have hN := ok.names
  have hn31 := ok.wf.n31
  obtain ⟨k, hk⟩ : ∃ k, k = capVal cap := ⟨_, rfl⟩
  rw [← hk] at hk0 hk1 ⊢
  obtain ⟨P, hP⟩ : ∃ P : Int, P = (K.d.n : Int) + 1 := ⟨_, rfl⟩
  have hkn : 0 < k.toNat := by omega
  have hPn : 0 < P.toNat := by omega
  obtain ⟨rp1, hrp1, hrp1t⟩ := hint .ap1 (by simp)
  obtain ⟨rc1, hrc1, hrc1t⟩ := hint .ac1 (by simp)
  obtain ⟨rv, hrv, hrvt⟩ := hflt
  have edef : ∀ σ : State F, evalE σ (defaultArraySize cap) = .ok (.int k) := fun σ => by
    rw [hk]; exact evalE_default cap (by omega) (by omega)
  have eP : evalE σB (plus (times (.intLit 1) (.var (K.n .di))) (.intLit 1)) = .ok (.int P) := by
    have := evalE_add (evalE_mul (evalE_intLit (σ := σB) (v := 1) (by omega) (by omega))
      (evalE_var_int hdim (by omega) (by omega)) (by omega) (by omega))
      (evalE_intLit (σ := σB) (v := 1) (by omega) (by omega)) (by omega) (by omega)
    rw [Int.one_mul, ← hP] at this
    exact this
  -- C1-2: a_1_pos
  obtain ⟨σ1, r1, hh1, ht1, vk1, va1, f1⟩ := allocPart_runs (fuel := fuel) (σ := σB) (capN := K.n .kp1)
    (arrN := K.n .ap1) (ty := .int) (ety := .int) (e := plus (times (.intLit 1) (.var (K.n .di))) (.intLit 1))
    (k := P)
    (by cnm hN) (hfr .kp1 (by simp [proLocals])) hrp1 hrp1t eP (by omega) (by omega) rfl
  rw [hheap] at hh1 va1
  -- C3: a_1_pos[0] = 0
  obtain ⟨σ2, r2, hv2, ht2, hh2'⟩ := store0_runs (fuel := fuel) (σ := σ1) (arrN := K.n .ap1)
    (b := K.heap0.length)
    (blk := ⟨.int, List.replicate P.toNat none, .output, true⟩) va1 (by rw [hh1]; simp) rfl rfl rfl
    (by simpa using hPn)
  have hh2 : σ2.heap = K.heap0 ++
      [⟨.int, (List.replicate P.toNat none).set 0 (some (.int 0)), .output, true⟩] := by
    rw [hh2', hh1]
    simp
  have f2 : VFrame [] σ1 σ2 := VFrame.of_eq hv2
  have f12 := f1.trans f2
  -- C4-5: a_1_crd
  obtain ⟨σ3, r3, hh3, ht3, vk3, va3, f3⟩ := allocPart_runs (fuel := fuel) (σ := σ2) (capN := K.n .kc1)
    (arrN := K.n .ac1) (ty := .int) (ety := .int) (e := defaultArraySize cap) (k := k)
    (by cnm hN) (by rw [f12 _ (by cnm hN)]; exact hfr .kc1 (by simp [proLocals]))
    (by rw [f12 _ (by cnm hN)]; exact hrc1) hrc1t (edef _) (by omega) hk1 rfl
  rw [hh2] at hh3 va3
  have f123 := f12.trans f3
  -- C6: int p_a_1 = 0
  obtain ⟨σ4, r4, hh4, ht4, vp4, o4⟩ := declFresh (fuel := fuel) (x := K.n .pA1) (t := .int) (σ := σ3)
    (val' := .int 0) (by rw [f123 _ (by cnm hN)]; exact hfr .pA1 (by simp [proLocals]))
    (evalE_intLit (by omega) (by omega)) rfl
  have vp4' : IntVar σ4 (K.n .pA1) 0 := vp4
  have f4 : VFrame [K.n .pA1] σ3 σ4 := VFrame.of1 o4
  have f1234 := f123.trans f4
  -- C7-8: a_vals
  obtain ⟨σ9, r9, hh9, ht9, vk9, va9, f9⟩ := allocPart_runs (fuel := fuel) (σ := σ4) (capN := K.n .kv)
    (arrN := K.n .av) (ty := .float) (ety := .float) (e := defaultArraySize cap) (k := k)
    (by cnm hN) (by rw [f1234 _ (by cnm hN)]; exact hfr .kv (by simp [proLocals]))
    (by rw [f1234 _ (by cnm hN)]; exact hrv) hrvt (edef _) (by omega) hk1 rfl
  rw [hh4, hh3] at hh9 va9
  have hheap9 : σ9.heap = K.heap0 ++
      [⟨.int, (List.replicate P.toNat none).set 0 (some (.int 0)), .output, true⟩,
      ⟨.int, List.replicate k.toNat none, .output, true⟩,
      ⟨.float, List.replicate k.toNat none, .output, true⟩] := by
    rw [hh9]; simp
  have htens9 : σ9.tensors = K.tensors0 := by rw [ht9, ht4, ht3, ht2, ht1, htens]
  -- suffix frames
  have g4 := f9
  have g3 := f4.trans g4
  have g2 := f3.trans g3
  have g1 := f2.trans g2
  have fall := f1.trans g1
  -- the variables at the end
  have hap1 : PtrVar σ9 (K.n .ap1) K.heap0.length := va1.congr (g1 _ (by cnm hN))
  have hkp1 : IntVar σ9 (K.n .kp1) P := vk1.congr (g1 _ (by cnm hN))
  have hac1 : PtrVar σ9 (K.n .ac1) (K.heap0.length + 1) := by
    have : PtrVar σ3 (K.n .ac1) (K.heap0.length + 1) := by simpa using va3
    exact this.congr (g3 _ (by cnm hN))
  have hkc1 : IntVar σ9 (K.n .kc1) k := vk3.congr (g3 _ (by cnm hN))
  have hpA1 : IntVar σ9 (K.n .pA1) 0 := vp4'.congr (g4 _ (by cnm hN))
  have hav : PtrVar σ9 (K.n .av) (K.heap0.length + 2) := by simpa using va9
  have hkv : IntVar σ9 (K.n .kv) k := vk9
  have hnone : ∀ c ∈ proLocals, (K.n c ∉ proW2 K) → lookupVar σ9.vars (K.n c) = none := by
    intro c hc hw
    rw [fall _ hw]; exact hfr c hc
  have hb9 : ∀ j (blk : Block F),
      ([(⟨.int, (List.replicate P.toNat none).set 0 (some (.int 0)), .output, true⟩ : Block F),
      ⟨.int, List.replicate k.toNat none, .output, true⟩,
      ⟨.float, List.replicate k.toNat none, .output, true⟩])[j]? = some blk →
      σ9.heap[K.heap0.length + j]? = some blk := by
    intro j blk hj
    rw [hheap9, List.getElem?_append_right (by omega)]
    simpa using hj
  have hkk : ((List.replicate k.toNat (none : Option (Val F))).length : Int) = k := by simp; omega
  have hPP : (((List.replicate P.toNat (none : Option (Val F))).set 0 (some (.int 0))).length : Int) = P := by
    simp; omega
  refine ⟨σ9, ?_, ?_, fall⟩
  · have := RunsLI.append r1 (RunsLI.cons r2 (RunsLI.append r3 (RunsLI.cons r4 r9)))
    exact this
  · refine ⟨⟨⟨htens9, by rw [hheap9]; simp, ?_, hbp1.congr (fall _ (by cnm hN)), hbc1.congr (fall _ (by cnm hN)),
        hbv.congr (fall _ (by cnm hN)), havar.congr (fall _ (by cnm hN)), hdim.congr (fall _ (by cnm hN))⟩,
        ⟨?_, ?_, ?_⟩⟩,
      ⟨by simp [entrySt, CData.outPos, ok.wf.pos0, List.range_succ], rfl,
        by simp [entrySt, ok.wf.pos0, Ctx.crdCells], by simp [entrySt, ok.wf.pos0, Ctx.valsCells]⟩,
      hpA1, ⟨?_, ?_, ?_, ?_, ?_, ?_, ?_⟩, ?_⟩
    · intro j hj
      rw [hheap9, List.getElem?_append_left hj]
    · have b0 : σ9.heap[K.heap0.length]? =
          some ⟨.int, (List.replicate P.toNat none).set 0 (some (.int 0)), .output, true⟩ := hb9 0 _ rfl
      have b1 : σ9.heap[K.heap0.length + 1]? = some ⟨.int, List.replicate k.toNat none, .output, true⟩ :=
        hb9 1 _ rfl
      have b2 : σ9.heap[K.heap0.length + 2]? = some ⟨.float, List.replicate k.toNat none, .output, true⟩ :=
        hb9 2 _ rfl
      intro x
      cases x
      · show Arr σ9 (K.n .ap1) (K.n .kp1) .int K.heap0.length ((K.d.n : Int) + 1) [.int 0]
        rw [← hP]
        refine ⟨⟨hap1, hkp1, ⟨_, b0, rfl, rfl, rfl, hPP⟩, by omega, by omega⟩, by simp; omega, ?_⟩
        intro blk hb j hj
        rw [b0] at hb; cases hb
        have hj0 : j = 0 := by simpa using hj
        subst hj0
        simp [hPn]
      · show Arr σ9 (K.n .ac1) (K.n .kc1) .int (K.heap0.length + 1) k []
        exact ⟨⟨hac1, hkc1, ⟨_, b1, rfl, rfl, rfl, hkk⟩, hk0, hk1⟩, by simp; omega,
          fun blk hb j hj => by simp at hj⟩
      · show Arr σ9 (K.n .av) (K.n .kv) .float (K.heap0.length + 2) k []
        exact ⟨⟨hav, hkv, ⟨_, b2, rfl, rfl, rfl, hkk⟩, hk0, hk1⟩, by simp; omega,
          fun blk hb j hj => by simp at hj⟩
    · intro x y hxy
      cases x <;> cases y <;> first | exact absurd rfl hxy | (simp only [entrySt]; omega)
    · intro x
      cases x <;> (simp only [entrySt]; omega)
    · exact declOK_of_none (hnone .pA0 (by simp [proLocals]) (by simp only [proW2]; cnm hN))
    · exact declOK_of_none (hnone .pB0 (by simp [proLocals]) (by simp only [proW2]; cnm hN))
    · exact declOK_of_none (hnone .pB1 (by simp [proLocals]) (by simp only [proW2]; cnm hN))
    · exact declOK_of_none (hnone .eB1 (by simp [proLocals]) (by simp only [proW2]; cnm hN))
    · exact declOK_of_none (hnone .vB1 (by simp [proLocals]) (by simp only [proW2]; cnm hN))
    · exact declOK_of_none (hnone .j (by simp [proLocals]) (by simp only [proW2]; cnm hN))
    · exact flagOK_of_none (hnone .w1 (by simp [proLocals]) (by simp only [proW2]; cnm hN))
    · exact declOK_of_none (hnone .i (by simp [proLocals]) (by simp only [proW2]; cnm hN))

/-- **The prologue**: from `Init` to `Entry`. -/
theorem prologue_runs (ok : K.OK) (cap : Option Int) (hk0 : 1 ≤ capVal cap) (hk1 : capVal cap < 2147483648)
    {atr btr : TensorRec F} {tb : Nat} {m : Int} {σ : State F} (init : Init K atr btr tb m σ) (fuel : Nat) :
    ∃ σC, RunsLI fuel
        [.block (Sparse2.dimStmts K.i K.j K.outT) (some "Extract dimensions"),
         .block (unpackStmts K.outT.name ++ unpackStmts K.bT.name) (some "Unpack tensors"),
         .block (outInit cap K.i K.outT) (some "Output initialization")] σ σC 0 ∧
      Entry K (entrySt K (capVal cap)) σC := by
  have hN := ok.names
  obtain ⟨σB, rB, hhB, htB, fB, hdim, hint, hflt, b1, b2, b3⟩ := prologue1_runs ok init fuel
  have hfr : ∀ c ∈ proLocals, lookupVar σB.vars (K.n c) = none := by
    have hall : ∀ c ∈ proLocals, K.n c ∉ proW1 K ∧ K.n c ≠ K.n .a ∧ K.n c ≠ K.n .b := by
      simp only [proLocals, proW1]
      cnm hN
    intro c hc
    obtain ⟨h1, h2, h3⟩ := hall c hc
    rw [fB _ h1]; exact init.fresh _ h2 h3
  obtain ⟨σC, rC, entry, _⟩ := outInit_runs ok cap hk0 hk1 σB fuel (by rw [hhB]; exact init.heap)
    (by rw [htB]; exact init.tensors) hdim hint hflt b1 b2 b3
    (init.avar.congr (fB _ (by simp only [proW1]; cnm hN))) hfr
  refine ⟨σC, ?_, entry⟩
  have := RunsLI.append rB (RunsLI.cons (RunsI.block (c := some "Output initialization") rC) (RunsLI.nil _ _))
  exact this

end

end TV.Csr
