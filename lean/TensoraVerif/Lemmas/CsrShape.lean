import TensoraVerif.Lemmas.CsrInnerLoop
import TensoraVerif.Lemmas.CsrKernelDef

/-!
C01 for the CSR matrix copy/scale kernels, part 7: the interfaces between the phases of the kernel.

* `Scr`: the loop-local variables are undeclared or of the type they are declared with;
* `Shape K S r`: the contents of the three output arrays after `r` rows — `a_1_pos` = `pos 0 … pos r` in a block
  of EXACTLY `n + 1` cells, `a_1_crd` / `a_vals` = the first `pos r` entries;
* `Init`: the initial machine state of a kernel call; `Entry`: the state at the entry of the iteration block;
* `KernelPost`: the final state.
-/
namespace TV.Csr
open TV.IR TV.Gen TV.Graph TV.Growth TV.Merge
open TV.Dense1 (TensorVar)
open TV.Sparse2 (Nm nameOf allNames VFrame Arr FlagOK)

set_option linter.unusedSectionVars false
variable {F : Type} [FloatOps F]

/-- the scratch variables of the loop nest are undeclared or have the type they are declared with -/
structure Scr (K : Ctx F) (σ : State F) : Prop where
  pA0 : DeclOK σ (K.n .pA0)
  pB0 : DeclOK σ (K.n .pB0)
  pB1 : DeclOK σ (K.n .pB1)
  eB1 : DeclOK σ (K.n .eB1)
  vB1 : DeclOK σ (K.n .vB1)
  j : DeclOK σ (K.n .j)
  w1 : FlagOK σ (K.n .w1)

/-- **the contents of the three output arrays after `r` rows of `B`**: `a_1_pos` = `pos 0, …, pos r` (capacity
EXACTLY `n + 1`: it is never reallocated), `a_1_crd` / `a_vals` = the first `pos r` entries -/
structure Shape (K : Ctx F) (S : OutSt F) (r : Nat) : Prop where
  p1 : S.cells .p1 = (K.d.outPos r).map (Val.int : Int → Val F)
  p1c : S.cap .p1 = (K.d.n : Int) + 1
  c1 : S.cells .c1 = K.crdCells (K.d.pos r)
  v : S.cells .v = K.valsCells (K.d.pos r)

/-- **Initial machine state of a kernel call** for `a(i,j) = e(B(i,j))`, both CSR: heap and tensor records are
those of the context; the variables are exactly the two tensor parameters, bound to records `ta` (contents
`atr`) and `tb` (`btr`); the output record is output-owned, of order `≥ 2`, with a slot pair of pointers (or
`NULL`s) at level 1 and a pointer or `NULL` in `vals`, and its `dimensions` block holds `n` (the number of rows
of `B`) and the int32 `m`; slot 1 and `vals` of the input record point to the blocks of the context. -/
structure Init (K : Ctx F) (atr btr : TensorRec F) (tb : Nat) (m : Int) (σ : State F) : Prop where
  heap : σ.heap = K.heap0
  tensors : σ.tensors = K.tensors0
  avar : TensorVar σ (K.n .a) K.ta
  bvar : TensorVar σ (K.n .b) tb
  fresh : ∀ x, x ≠ K.n .a → x ≠ K.n .b → lookupVar σ.vars x = none
  arec : K.tensors0[K.ta]? = some atr
  aown : atr.owner = .output
  aord : 2 ≤ atr.order
  aslot1 : ∃ p c, atr.slots[1]? = some (some (p, c)) ∧ isPtrVal p = true ∧ isPtrVal c = true
  avals : isPtrVal atr.vals = true
  adim : ∃ blk, K.heap0[atr.dimsBlk]? = some blk ∧ blk.live = true ∧ blk.ty = .int ∧
    blk.cells[0]? = some (some (.int (K.d.n : Int))) ∧ blk.cells[1]? = some (some (.int m))
  m32 : -2147483648 ≤ m ∧ m < 2147483648
  brec : K.tensors0[tb]? = some btr
  bord : 2 ≤ btr.order
  bslot1 : btr.slots[1]? = some (some (.ptr K.bp 0, .ptr K.bc 0))
  bvals : btr.vals = .ptr K.bv 0

/-- **the state at the entry of the iteration block**: the kernel invariant with the three output arrays in
their initial shape (`a_1_pos = [0, …]` with `n + 1` cells, nothing else stored), the output cursor `0`, every
loop-local variable undeclared or of its type -/
structure Entry (K : Ctx F) (S : OutSt F) (σ : State F) : Prop where
  st : St K S σ
  sh : Shape K S 0
  pA1 : IntVar σ (K.n .pA1) 0
  scr : Scr K σ
  di : DeclOK σ (K.n .i)

/-- the description of the three output arrays at the entry of the iteration block -/
def entrySt (K : Ctx F) (k : Int) : OutSt F :=
  ⟨fun x => match x with
    | .p1 => K.heap0.length | .c1 => K.heap0.length + 1 | .v => K.heap0.length + 2,
   fun x => match x with | .p1 => (K.d.n : Int) + 1 | _ => k,
   fun x => match x with | .p1 => [.int 0] | _ => []⟩

/-- **Final state of a kernel call** (output record `ta`, initially `atr`): the record — still output-owned,
same order and dimensions — has at level 1 the slot pair (`pos`, `crd`) = the base addresses of two live output
`int` blocks holding EXACTLY the `n + 1` positions of `B` and its `nnz` column coordinates; `vals` = the base
address of a live output `float` block of exactly `nnz + 1` cells whose first `nnz` cells hold the float meaning
of `e` at the stored entries of `B`; the three blocks are different and fresh (above the initial heap); every
other record and every block of the initial heap (the inputs) is unchanged. -/
structure KernelPost (K : Ctx F) (atr : TensorRec F) (σ' : State F) : Prop where
  outRec : ∃ tr' p1 c1 v vblk, σ'.tensors[K.ta]? = some tr' ∧ tr'.owner = .output ∧
    tr'.order = atr.order ∧ tr'.dimsBlk = atr.dimsBlk ∧
    tr'.slots = atr.slots.set 1 (some (.ptr p1 0, .ptr c1 0)) ∧
    tr'.vals = .ptr v 0 ∧
    [p1, c1, v].Nodup ∧ (∀ x ∈ [p1, c1, v], K.heap0.length ≤ x) ∧
    σ'.heap[p1]? = some ⟨.int, (List.range (K.d.n + 1)).map (fun r => some (.int (K.d.pos r))), .output, true⟩ ∧
    σ'.heap[c1]? = some ⟨.int, (List.range K.d.nnz).map (fun q => some (.int (K.d.crd q))), .output, true⟩ ∧
    σ'.heap[v]? = some vblk ∧ vblk.live = true ∧ vblk.owner = .output ∧ vblk.ty = .float ∧
    vblk.cells.length = K.d.nnz + 1 ∧
    ∀ q, q < K.d.nnz → vblk.cells[q]? = some (some (.flt (K.valAt q)))
  otherRecs : ∀ k, k ≠ K.ta → σ'.tensors[k]? = K.tensors0[k]?
  tlen : σ'.tensors.length = K.tensors0.length
  heap : ∀ k, k < K.heap0.length → σ'.heap[k]? = K.heap0[k]?

end TV.Csr
