import TensoraVerif.Lemmas.CsrModel
import TensoraVerif.Lemmas.Sparse2State

/-!
C01 for the CSR matrix copy/scale kernels, part 4: the state vocabulary of the kernel (the `ds → ds` analogue of
`Sparse2State.lean`).

* `CData`: the stored structure of the CSR input `B` (`n` rows, `pos` (`n + 1` cells), `nnz` stored entries with
  column coordinates `crd` and values `vals`) and its well-formedness `CData.Wf`;
* `Ctx`: everything that is fixed during a kernel call; `Ctx.OK`: the static hypotheses;
* `Env K σ`: the part of the state the loop nest only reads; `Comp`/`OutSt`/`Inv K S σ`: the three arrays of the
  output (`a_1_pos`, `a_1_crd`, `a_vals`) as `Arr` components in pairwise different blocks above the initial
  heap; `St = Env ∧ Inv`; transfer lemmas `St.update`, `St.vstep`.

The names are those of `Sparse2.allNames` (a superset of the names of this kernel), so that the enumeration
`Sparse2.Nm` and `Sparse2.nameOf_inj` are reused.
-/
namespace TV.Csr
open TV.IR TV.Gen TV.Graph TV.Growth TV.Merge
open TV.Dense1 (TensorVar)
open TV.Sparse2 (Nm nameOf allNames nameOf_inj VFrame Arr old_of_heap in1 out1)

set_option linter.unusedSectionVars false
variable {F : Type} [FloatOps F]

/-! ### the input -/

/-- the stored structure of a CSR matrix: `n` rows (all of them, the row level is dense), positions `pos`
(`n + 1` of them), `nnz` stored entries with column coordinates `crd` and values `vals` -/
structure CData (F : Type) where
  n : Nat
  nnz : Nat
  pos : Nat → Nat
  crd : Nat → Int
  vals : Nat → F

/-- what the run needs of the input structure: `pos` goes from `0` to `nnz` without decreasing, the column
coordinates are int32, `n + 1 < 2^31` (`a_1_pos` gets `1 * i_dim + 1` cells) and `nnz ≤ 2^30` (doubled
capacities stay int32). Sortedness of the coordinates is NOT needed for the run. -/
structure CData.Wf (d : CData F) : Prop where
  pos0 : d.pos 0 = 0
  posn : d.pos d.n = d.nnz
  mono : ∀ r, r < d.n → d.pos r ≤ d.pos (r + 1)
  rng : ∀ q, q < d.nnz → -2147483648 ≤ d.crd q ∧ d.crd q < 2147483648
  n31 : d.n < 2147483647
  nnz30 : d.nnz ≤ 1073741824

theorem CData.Wf.pos_le {d : CData F} (h : d.Wf) : ∀ (k a : Nat), a + k ≤ d.n → d.pos a ≤ d.pos (a + k) := by
  intro k
  induction k with
  | zero => intro a _; exact Nat.le_refl _
  | succ k ih =>
    intro a ha
    have h1 := ih a (by omega)
    have h2 := h.mono (a + k) (by omega)
    rw [show a + (k + 1) = a + k + 1 by omega]
    omega

theorem CData.Wf.pos_le_nnz {d : CData F} (h : d.Wf) {a : Nat} (ha : a ≤ d.n) : d.pos a ≤ d.nnz := by
  have := h.pos_le (d.n - a) a (by omega)
  rw [show a + (d.n - a) = d.n by omega, h.posn] at this
  exact this

/-- the first `r + 1` positions, as the output's `pos` array holds them after `r` rows -/
def CData.outPos (d : CData F) (r : Nat) : List Int := (List.range (r + 1)).map fun k => (d.pos k : Int)

theorem CData.outPos_succ (d : CData F) (r : Nat) :
    d.outPos (r + 1) = d.outPos r ++ [(d.pos (r + 1) : Int)] := by
  simp [CData.outPos, List.range_succ]

@[simp] theorem CData.outPos_length (d : CData F) (r : Nat) : (d.outPos r).length = r + 1 := by
  simp [CData.outPos]

/-! ### the context of a kernel call -/

/-- everything that is fixed during one kernel call -/
structure Ctx (F : Type) where
  ofRat : Rat → F
  i : String
  j : String
  outT : TensorId
  bT : TensorId
  e : IdExpr
  d : CData F
  /-- the heap at the call (inputs, `dimensions` blocks) -/
  heap0 : List (Block F)
  tensors0 : List (TensorRec F)
  /-- record number of the output -/
  ta : Nat
  /-- blocks of the input: `pos`/`crd` of level 1, values -/
  bp : Nat
  bc : Nat
  bv : Nat

/-- the static hypotheses: pairwise distinct names, the class, the input well-formed and laid out in the
initial heap, every sub-result of `e` finite at every stored entry -/
structure Ctx.OK (K : Ctx F) : Prop where
  names : (allNames K.i K.j K.outT K.bT).Nodup
  ho : isDS K.i K.j K.outT = true
  he : isExpr K.i K.j K.bT K.e = true
  wf : K.d.Wf
  fin : ∀ q, q < K.d.nnz → ToIr.AllFinite K.ofRat (fun _ => K.d.vals q) K.e
  p : ∃ blk, K.heap0[K.bp]? = some blk ∧ blk.live = true ∧ blk.ty = .int ∧
    ∀ r, r ≤ K.d.n → blk.cells[r]? = some (some (.int (K.d.pos r)))
  c : ∃ blk, K.heap0[K.bc]? = some blk ∧ blk.live = true ∧ blk.ty = .int ∧ K.d.nnz ≤ blk.cells.length ∧
    ∀ q, q < K.d.nnz → blk.cells[q]? = some (some (.int (K.d.crd q)))
  v : ∃ blk, K.heap0[K.bv]? = some blk ∧ blk.live = true ∧ blk.ty = .float ∧
    ∀ q, q < K.d.nnz → blk.cells[q]? = some (some (.flt (K.d.vals q)))

/-- the name of variable `c` of the kernel -/
def Ctx.n (K : Ctx F) (c : Nm) : String := nameOf K.i K.j K.outT K.bT c

theorem Ctx.n_inj {K : Ctx F} (hN : (allNames K.i K.j K.outT K.bT).Nodup) (c d : Nm) :
    K.n c = K.n d ↔ c = d := nameOf_inj hN c d

/-- `cnm hN` decides goals made of (in)equalities and list (non-)memberships between names `K.n c` -/
macro "cnm " hN:term : tactic =>
  `(tactic| simp only [List.mem_cons, List.mem_append, List.not_mem_nil, List.forall_mem_cons, List.forall_mem_append,
      TV.Csr.Ctx.n_inj $hN, reduceCtorEq, not_false_eq_true, not_true_eq_false, or_self, or_false, false_or, not_or,
      and_self, and_true, true_and, ne_eq, false_imp_iff, implies_true, imp_self, forall_eq_or_imp, forall_eq, or_imp, forall_and])

theorem Ctx.OK.hij {K : Ctx F} (ok : K.OK) : K.i ≠ K.j := by
  have hN := ok.names
  show K.n .i ≠ K.n .j
  cnm hN

/-- the value stored for entry `q` -/
def Ctx.valAt (K : Ctx F) (q : Nat) : F := ToIr.valueF K.ofRat (fun _ => K.d.vals q) K.e

/-- the first `q` cells of the output's `crd` array / of its `vals` array -/
def Ctx.crdCells (K : Ctx F) (q : Nat) : List (Val F) := (List.range q).map fun k => .int (K.d.crd k)
def Ctx.valsCells (K : Ctx F) (q : Nat) : List (Val F) := (List.range q).map fun k => .flt (K.valAt k)

@[simp] theorem Ctx.crdCells_length (K : Ctx F) (q : Nat) : (K.crdCells q).length = q := by
  simp [Ctx.crdCells]
@[simp] theorem Ctx.valsCells_length (K : Ctx F) (q : Nat) : (K.valsCells q).length = q := by
  simp [Ctx.valsCells]
theorem Ctx.crdCells_succ (K : Ctx F) (q : Nat) :
    K.crdCells (q + 1) = K.crdCells q ++ [.int (K.d.crd q)] := by
  simp [Ctx.crdCells, List.range_succ]
theorem Ctx.valsCells_succ (K : Ctx F) (q : Nat) :
    K.valsCells (q + 1) = K.valsCells q ++ [.flt (K.valAt q)] := by
  simp [Ctx.valsCells, List.range_succ]

/-! ### the read-only part of the state -/

/-- the variables the loop nest only reads -/
def envNames (K : Ctx F) : List String :=
  [K.n .bp1, K.n .bc1, K.n .bv, K.n .a, K.n .di]

/-- **the read-only part of the state**: tensor records and the blocks of the initial heap unchanged; the array
variables of the input point to its blocks; the output parameter holds record `ta`; `i_dim` holds `n` -/
structure Env (K : Ctx F) (σ : State F) : Prop where
  tensors : σ.tensors = K.tensors0
  hlen : K.heap0.length ≤ σ.heap.length
  old : ∀ k, k < K.heap0.length → σ.heap[k]? = K.heap0[k]?
  vp : PtrVar σ (K.n .bp1) K.bp
  vc : PtrVar σ (K.n .bc1) K.bc
  vv : PtrVar σ (K.n .bv) K.bv
  avar : TensorVar σ (K.n .a) K.ta
  dim : IntVar σ (K.n .di) K.d.n

theorem Env.step {K : Ctx F} {σ σ' : State F} {W : List String} (h : Env K σ) (hv : VFrame W σ σ')
    (hW : ∀ x ∈ envNames K, x ∉ W) (ht : σ'.tensors = σ.tensors) (hl : σ.heap.length ≤ σ'.heap.length)
    (ho : ∀ k, k < K.heap0.length → σ'.heap[k]? = σ.heap[k]?) : Env K σ' := by
  simp only [envNames, List.forall_mem_cons, List.not_mem_nil, false_imp_iff, implies_true, and_true] at hW
  obtain ⟨w1, w2, w3, w4, w5⟩ := hW
  exact ⟨ht.trans h.tensors, Nat.le_trans h.hlen hl, fun k hk => (ho k hk).trans (h.old k hk),
    h.vp.congr (hv _ w1), h.vc.congr (hv _ w2), h.vv.congr (hv _ w3), h.avar.congr (hv _ w4),
    h.dim.congr (hv _ w5)⟩

/-- a block of the initial heap is still there -/
theorem Env.get {K : Ctx F} {σ : State F} (h : Env K σ) {k : Nat} {blk : Block F}
    (hk : K.heap0[k]? = some blk) : σ.heap[k]? = some blk := by
  rw [h.old k (lt_length_of_getElem? hk)]; exact hk

/-! ### the three arrays of the output -/

/-- the arrays of the output: `pos`/`crd` of level 1, `vals` -/
inductive Comp where
  | p1 | c1 | v
  deriving DecidableEq, Repr

/-- the array variable and the capacity variable of a component -/
def Comp.arr : Comp → Nm
  | .p1 => .ap1 | .c1 => .ac1 | .v => .av
def Comp.capN : Comp → Nm
  | .p1 => .kp1 | .c1 => .kc1 | .v => .kv

theorem Comp.arr_inj (x y : Comp) : x.arr = y.arr ↔ x = y := by cases x <;> cases y <;> simp [Comp.arr]
theorem Comp.capN_inj (x y : Comp) : x.capN = y.capN ↔ x = y := by cases x <;> cases y <;> simp [Comp.capN]
theorem Comp.arr_ne_capN (x y : Comp) : x.arr ≠ y.capN := by cases x <;> cases y <;> simp [Comp.arr, Comp.capN]

def arrName (K : Ctx F) (x : Comp) : String := K.n x.arr
def capName (K : Ctx F) (x : Comp) : String := K.n x.capN

def Comp.ety : Comp → ElemTy
  | .v => .float
  | _ => .int

/-- block, capacity and known contents of each array -/
structure OutSt (F : Type) where
  blk : Comp → Nat
  cap : Comp → Int
  cells : Comp → List (Val F)

/-- replace the description of component `x` -/
def OutSt.set (S : OutSt F) (x : Comp) (b : Nat) (c : Int) (cs : List (Val F)) : OutSt F :=
  ⟨fun y => if y = x then b else S.blk y, fun y => if y = x then c else S.cap y,
   fun y => if y = x then cs else S.cells y⟩

/-- **the output arrays**: every component is an `Arr`; the blocks are pairwise different and above the
initial heap -/
structure Inv (K : Ctx F) (S : OutSt F) (σ : State F) : Prop where
  arr : ∀ x, Arr σ (arrName K x) (capName K x) x.ety (S.blk x) (S.cap x) (S.cells x)
  inj : ∀ x y, x ≠ y → S.blk x ≠ S.blk y
  rng : ∀ x, K.heap0.length ≤ S.blk x

/-- the array and capacity variables of the output -/
def invNames (K : Ctx F) : List String :=
  [K.n .ap1, K.n .ac1, K.n .av, K.n .kp1, K.n .kc1, K.n .kv]

/-- the names no statement of the loop nest other than the growth fragments writes -/
def prot (K : Ctx F) : List String := envNames K ++ invNames K

theorem arrName_mem (K : Ctx F) (x : Comp) : arrName K x ∈ invNames K := by
  cases x <;> simp [arrName, invNames, Comp.arr]
theorem capName_mem (K : Ctx F) (x : Comp) : capName K x ∈ invNames K := by
  cases x <;> simp [capName, invNames, Comp.capN]

theorem comp_names {K : Ctx F} (hN : (allNames K.i K.j K.outT K.bT).Nodup) :
    ∀ x y : Comp, x ≠ y → arrName K y ≠ arrName K x ∧ arrName K y ≠ capName K x ∧
      capName K y ≠ arrName K x ∧ capName K y ≠ capName K x := by
  intro x y hxy
  have h1 : ¬ y = x := fun e => hxy e.symm
  have h2 := Comp.arr_ne_capN y x
  have h3 := Comp.arr_ne_capN x y
  simp only [arrName, capName, ne_eq, Ctx.n_inj hN, Comp.arr_inj, Comp.capN_inj, h1, not_false_eq_true, true_and,
    and_true]
  exact ⟨h2, fun e => h3 e.symm⟩

theorem env_names {K : Ctx F} (hN : (allNames K.i K.j K.outT K.bT).Nodup) :
    ∀ x : Comp, ∀ n ∈ envNames K, n ∉ [arrName K x, capName K x] := by
  intro x
  cases x <;> (simp only [envNames, arrName, capName, Comp.arr, Comp.capN]; cnm hN)

/-- **the state of the loop nest**: read-only part and output arrays -/
structure St (K : Ctx F) (S : OutSt F) (σ : State F) : Prop where
  env : Env K σ
  inv : Inv K S σ

/-- **one array component changes** as C05's post-conditions describe (new block the old one or fresh, every
other variable and every other block unchanged, tensors unchanged): the state invariant holds again with the
component's description replaced -/
theorem St.update {K : Ctx F} {S : OutSt F} {σ σ' : State F} (hN : (allNames K.i K.j K.outT K.bT).Nodup)
    (h : St K S σ) (x : Comp) {b' : Nat} {c' : Int} {cs' : List (Val F)}
    (hx : Arr σ' (arrName K x) (capName K x) x.ety b' c' cs')
    (hb' : b' = S.blk x ∨ (σ.heap.length ≤ b' ∧ b' < σ'.heap.length))
    (hv : ∀ y, y ≠ arrName K x → y ≠ capName K x → lookupVar σ'.vars y = lookupVar σ.vars y)
    (hheap : ∀ k blk, k ≠ S.blk x → σ.heap[k]? = some blk → σ'.heap[k]? = some blk)
    (hl : σ.heap.length ≤ σ'.heap.length) (ht : σ'.tensors = σ.tensors) :
    St K (S.set x b' c' cs') σ' := by
  have hvf : VFrame [arrName K x, capName K x] σ σ' := VFrame.of2 hv
  refine ⟨h.env.step hvf (env_names hN x) ht hl
    (old_of_heap hheap (h.inv.rng x) h.env.hlen), ?_, ?_, ?_⟩
  · intro y
    by_cases hy : y = x
    · subst hy
      simpa [OutSt.set] using hx
    · have hn := comp_names hN x y (Ne.symm hy)
      have ha := h.inv.arr y
      obtain ⟨blk, hb, _⟩ := ha.inv.blk
      have hne : S.blk y ≠ S.blk x := h.inv.inj y x hy
      simp only [OutSt.set, hy, if_false]
      exact ha.congr (hv _ hn.1 hn.2.1) (hv _ hn.2.2.1 hn.2.2.2) (by rw [hheap _ blk hne hb, hb])
  · intro y z hyz
    have hlt : ∀ w, S.blk w < σ.heap.length := fun w => (h.inv.arr w).lt_len
    simp only [OutSt.set]
    by_cases hy : y = x <;> by_cases hz : z = x
    · exact absurd (hy.trans hz.symm) hyz
    · simp only [hy, hz, if_true, if_false]
      rcases hb' with e | e
      · rw [e]; exact h.inv.inj x z (Ne.symm hz)
      · have := hlt z; omega
    · simp only [hy, hz, if_true, if_false]
      rcases hb' with e | e
      · rw [e]; exact h.inv.inj y x hy
      · have := hlt y; omega
    · simp only [hy, hz, if_false]
      exact h.inv.inj y z hyz
  · intro y
    simp only [OutSt.set]
    by_cases hy : y = x
    · simp only [hy, if_true]
      rcases hb' with e | e
      · rw [e]; exact h.inv.rng x
      · have := h.env.hlen; omega
    · simp only [hy, if_false]; exact h.inv.rng y

/-- **only variables outside the protected names change** (heap and tensors as they were) -/
theorem St.vstep {K : Ctx F} {S : OutSt F} {σ σ' : State F} {W : List String} (h : St K S σ)
    (hv : VFrame W σ σ') (hW : ∀ x ∈ prot K, x ∉ W) (hh : σ'.heap = σ.heap) (ht : σ'.tensors = σ.tensors) :
    St K S σ' := by
  have hWe : ∀ x ∈ envNames K, x ∉ W := fun x hx => hW x (List.mem_append_left _ hx)
  have hWi : ∀ x ∈ invNames K, x ∉ W := fun x hx => hW x (List.mem_append_right _ hx)
  refine ⟨h.env.step hv hWe ht (by rw [hh]; exact Nat.le_refl _) (fun k _ => by rw [hh]), ?_, h.inv.inj, h.inv.rng⟩
  intro x
  exact (h.inv.arr x).congr (hv _ (hWi _ (arrName_mem K x))) (hv _ (hWi _ (capName_mem K x))) (by rw [hh])

/-- the block of a component is a valid heap index -/
theorem St.blk_lt {K : Ctx F} {S : OutSt F} {σ : State F} (h : St K S σ) (x : Comp) :
    S.blk x < σ.heap.length := (h.inv.arr x).lt_len

/-- `∀ x ∈ prot K, x ∉ W` for an explicit list `W` of names -/
macro "cprot " hN:term : tactic =>
  `(tactic| (simp only [TV.Csr.prot, TV.Csr.envNames, TV.Csr.invNames]; cnm $hN))

end TV.Csr
