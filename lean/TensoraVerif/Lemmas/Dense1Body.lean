import TensoraVerif.Lemmas.Dense1Runs
import TensoraVerif.Lemmas.Dense1Lower

/-!
C01 for dense element-wise vector kernels, part 5: the loop body on the machine — checked loads,
the right-hand side `toIrWith ofRat e` evaluates to `valueF`, the cursor declarations, and one
whole iteration (`body_runs`, in terms of `Step`).
-/

namespace TV.Dense1
open TV.IR TV.Gen TV.Graph TV.Growth
set_option linter.unusedSectionVars false
variable {F : Type} [FloatOps F]

/-! ### the right-hand side -/

/-- a checked load `arr[p]` of an initialised finite float cell -/
theorem evalE_load {σ : State F} {arr p : String} {b : Nat} {j : Nat} {blk : Block F} {f : F}
    (ha : PtrVar σ arr b) (hp : IntVar σ p j) (hj : (j : Int) < 2147483648)
    (hb : σ.heap[b]? = some blk) (hlive : blk.live = true) (hty : blk.ty = .float)
    (hc : blk.cells[j]? = some (some (.flt f))) (hf : FloatOps.finite f = true) :
    evalE σ (.idx (.var arr) (.var p)) = .ok (.flt f) := by
  have ea := evalE_var_ptr ha
  have ep := evalE_var_int hp (by omega) hj
  have hlen : j < blk.cells.length := lt_length_of_getElem? hc
  have h1 : ¬ ((j : Int) < 0) := by omega
  have h2 : ¬ ((blk.cells.length : Int) ≤ j) := by omega
  rw [evalE, ea, ep]
  simp [bind, Except.bind, readBlock, hb, hlive, Block.len, h1, h2, hc, hty,
    hasElemTy, chkVal, chkFlt, hf]

theorem evalE_fadd {σ : State F} {l r : Expr F} {x y : F} (hl : evalE σ l = .ok (.flt x))
    (hr : evalE σ r = .ok (.flt y)) (hf : FloatOps.finite (FloatOps.add x y) = true) :
    evalE σ (.bin .add l r) = .ok (.flt (FloatOps.add x y)) := by
  simp [evalE, hl, hr, bind, Except.bind, binVal, Val.toNum, numOp, Num.toF, chkFlt, hf]

theorem evalE_fmul {σ : State F} {l r : Expr F} {x y : F} (hl : evalE σ l = .ok (.flt x))
    (hr : evalE σ r = .ok (.flt y)) (hf : FloatOps.finite (FloatOps.mul x y) = true) :
    evalE σ (.bin .mul l r) = .ok (.flt (FloatOps.mul x y)) := by
  simp [evalE, hl, hr, bind, Except.bind, binVal, Val.toNum, numOp, Num.toF, chkFlt, hf]

/-- the right-hand side `toIrWith ofRat e` evaluates to the float meaning of `e` -/
theorem evalE_rhs (ofRat : Rat → F) (ρ : TensorId → F) (σ : State F) (j : Nat)
    (hj : (j : Int) < 2147483648) (blkOf : String → Nat) (e : IdExpr)
    (hl : ∀ t ∈ leaves e, t.indexes.length = 1 ∧ PtrVar σ (valsName t.name) (blkOf t.name) ∧
      IntVar σ (ptrName t) j ∧
      ∃ blk, σ.heap[blkOf t.name]? = some blk ∧ blk.live = true ∧ blk.ty = .float ∧
        blk.cells[j]? = some (some (.flt (ρ t))))
    (hfin : allFinite ofRat ρ e = true) :
    evalE σ (toIrWith ofRat e) = .ok (.flt (valueF ofRat ρ e)) := by
  induction e with
  | int v => simpa [toIrWith, valueF, evalE, chkFlt, allFinite] using hfin
  | flt q => simpa [toIrWith, valueF, evalE, chkFlt, allFinite] using hfin
  | tensor t =>
    obtain ⟨h1, ha, hp, blk, hb, hlive, hty, hc⟩ := hl t (by simp [leaves])
    simp only [toIrWith, h1, prevLayerPointer, valueF]
    exact evalE_load ha hp hj hb hlive hty hc (by simpa [allFinite] using hfin)
  | add l r ihl ihr =>
    simp only [allFinite, Bool.and_eq_true] at hfin
    have el := ihl (fun t ht => hl t (by simp [leaves, ht])) hfin.1.1
    have er := ihr (fun t ht => hl t (by simp [leaves, ht])) hfin.1.2
    simp only [toIrWith, valueF]
    first | exact evalE_fadd el er hfin.2 | exact evalE_fmul el er hfin.2
  | mul l r ihl ihr =>
    simp only [allFinite, Bool.and_eq_true] at hfin
    have el := ihl (fun t ht => hl t (by simp [leaves, ht])) hfin.1.1
    have er := ihr (fun t ht => hl t (by simp [leaves, ht])) hfin.1.2
    simp only [toIrWith, valueF]
    first | exact evalE_fadd el er hfin.2 | exact evalE_fmul el er hfin.2

/-! ### the cursor declarations -/

theorem intVar_ty_int {σ : State F} {x : String} {v : Int} (h : IntVar σ x v) :
    ∀ r, lookupVar σ.vars x = some r → r.ty = .int := by
  obtain ⟨r, h1, h2, _⟩ := h
  intro r' h'; rw [h1] at h'; cases h'; exact h2

/-- `int p_<t>_0 = 0 * i_dim + i;` for a list of tensors: every cursor holds the value of `i`,
nothing else changes -/
theorem ptrDecls_runs (fuel : Nat) (i : String) (n j : Nat) (hn : (n : Int) < 2147483648)
    (hj : (j : Int) < 2147483648) (ls : List TensorId) :
    ∀ (σ : State F), IntVar σ i j → IntVar σ (dimName i) n →
      i ∉ ls.map ptrName → dimName i ∉ ls.map ptrName →
      (∀ t ∈ ls, ∀ r, lookupVar σ.vars (ptrName t) = some r → r.ty = .int) →
      ∃ σ', RunsLI fuel (ls.map (ptrDecl i)) σ σ' 0 ∧ σ'.heap = σ.heap ∧ σ'.tensors = σ.tensors ∧
        (∀ y, y ∉ ls.map ptrName → lookupVar σ'.vars y = lookupVar σ.vars y) ∧
        ∀ t ∈ ls, IntVar σ' (ptrName t) j := by
  induction ls with
  | nil =>
    intro σ _ _ _ _ _
    exact ⟨σ, RunsLI.nil _ _, rfl, rfl, fun _ _ => rfl, fun t ht => by cases ht⟩
  | cons t ts ih =>
    intro σ hi hd hni hnd hty
    simp only [List.map_cons, List.mem_cons, not_or] at hni hnd
    have ei := evalE_var_int hi (by omega) hj
    have ed := evalE_var_int hd (by omega) hn
    have e0 : evalE σ (plus (times (.intLit 0) (.var (dimName i))) (.var i)) = .ok (.int (0 * (n : Int) + j)) :=
      evalE_add (evalE_mul (evalE_intLit (by omega) (by omega)) ed (by omega) (by omega)) ei
        (by omega) (by omega)
    obtain ⟨σ1, r1, hh1, ht1, ⟨r, hr1, hr2, hr3⟩, ho1⟩ :=
      runsI_declAssign (fuel := fuel) (t := .int) (val' := .int (0 * (n : Int) + j))
        (hty t (by simp)) e0 rfl
    have hpt : IntVar σ1 (ptrName t) j := ⟨r, hr1, hr2, by rw [hr3]; congr 2; omega⟩
    have hi1 : IntVar σ1 i j := hi.congr (ho1 _ hni.1)
    have hd1 : IntVar σ1 (dimName i) n := hd.congr (ho1 _ hnd.1)
    have hty1 : ∀ t' ∈ ts, ∀ r, lookupVar σ1.vars (ptrName t') = some r → r.ty = .int := by
      intro t' ht' r' hr'
      by_cases he : ptrName t' = ptrName t
      · rw [he] at hr'; exact intVar_ty_int hpt r' hr'
      · rw [ho1 _ he] at hr'; exact hty t' (by simp [ht']) r' hr'
    obtain ⟨σ2, r2, hh2, ht2, ho2, hp2⟩ := ih σ1 hi1 hd1 hni.2 hnd.2 hty1
    refine ⟨σ2, ?_, hh2.trans hh1, ht2.trans ht1, ?_, ?_⟩
    · exact RunsLI.cons r1 r2
    · intro y hy
      simp only [List.map_cons, List.mem_cons, not_or] at hy
      rw [ho2 y hy.2, ho1 y hy.1]
    · intro t' ht'
      rcases List.mem_cons.1 ht' with rfl | ht'
      · by_cases hm : ptrName t' ∈ ts.map ptrName
        · obtain ⟨t'', ht'', he⟩ := List.mem_map.1 hm
          rw [← he]; exact hp2 t'' ht''
        · exact hpt.congr (ho2 _ hm)
      · exact hp2 t' ht'

/-! ### one iteration -/

/-- what one iteration of the loop at index value `j` does: cell `j` of the output block receives
`v`, the index becomes `j + 1`, the scratch variables stay `int`, nothing else changes -/
structure Step (i : String) (outT : TensorId) (e : IdExpr) (ob : Nat) (j : Nat) (v : F)
    (σ σ' : State F) : Prop where
  tensors : σ'.tensors = σ.tensors
  heap : ∃ blk, σ.heap[ob]? = some blk ∧
    σ'.heap = σ.heap.set ob { blk with cells := blk.cells.set j (some (.flt v)) }
  vars : ∀ y, y ∉ scratch i outT e → lookupVar σ'.vars y = lookupVar σ.vars y
  scratch : ∀ x ∈ scratch i outT e, ∀ r, lookupVar σ'.vars x = some r → r.ty = .int
  idx : IntVar σ' i ((j + 1 : Nat) : Int)

theorem evalE_lt {σ : State F} {l r : Expr F} {x y : Int} (hl : evalE σ l = .ok (.int x))
    (hr : evalE σ r = .ok (.int y)) :
    evalE σ (.bin .lt l r) = .ok (.bool (decide (x < y))) := by
  simp [evalE, hl, hr, bind, Except.bind, binVal, Val.toNum, numOp]

theorem body_runs (fuel : Nat) (ofRat : Rat → F) {i : String} {outT : TensorId} {e : IdExpr}
    (names : Names i outT e) (he : isExpr i e = true)
    {n ob : Nat} {blkOf : String → Nat} {cellsOf : String → Nat → F} {σ : State F}
    (hn : (n : Int) < 2147483648) (hpre : Pre i outT e n ob blkOf cellsOf σ)
    (j : Nat) (hj : j < n) (hij : IntVar σ i j)
    (hfin : allFinite ofRat (rhoAt cellsOf j) e = true) :
    ∃ σ', RunsLI fuel (loopBody ofRat i outT e) σ σ' 0 ∧
      Step i outT e ob j (valueF ofRat (rhoAt cellsOf j) e) σ σ' := by
  have hjI : (j : Int) < 2147483648 := by omega
  have hdim : dimName i ∉ ptrNames outT e := fun h => names.dim (List.mem_cons_of_mem _ h)
  -- the cursors
  obtain ⟨σ1, r1, hh1, ht1, ho1, hp1⟩ := ptrDecls_runs (F := F) fuel i n j hn hjI (outT :: leaves e) σ hij
    hpre.dim names.idx hdim
    (fun t ht => hpre.scratch _ (List.mem_cons_of_mem _ (List.mem_map_of_mem ht)))
  have hi1 : IntVar σ1 i j := hij.congr (ho1 _ names.idx)
  have hvals : ∀ t ∈ outT :: leaves e, valsName t.name ∉ (outT :: leaves e).map ptrName :=
    fun t ht h => names.vals t ht (List.mem_cons_of_mem _ h)
  have hout1 : PtrVar σ1 (valsName outT.name) ob := hpre.out.congr (ho1 _ (hvals outT (by simp)))
  -- the right-hand side
  have erhs : evalE σ1 (toIrWith ofRat e) = .ok (.flt (valueF ofRat (rhoAt cellsOf j) e)) := by
    apply evalE_rhs ofRat (rhoAt cellsOf j) σ1 j hjI blkOf e _ hfin
    intro t ht
    obtain ⟨hptr, _, blk, hb, hlive, hty, hc⟩ := hpre.ins t ht
    refine ⟨?_, hptr.congr (ho1 _ (hvals t (by simp [ht]))), hp1 t (by simp [ht]), blk,
      by rw [hh1]; exact hb, hlive, hty, hc j hj⟩
    rw [((isLeaf_iff i t).1 (isExpr_mem he t ht)).1]; rfl
  -- the store
  obtain ⟨oblk, hob, hlive, hown, hty, hlen⟩ := hpre.outBlk
  have hob1 : σ1.heap[ob]? = some oblk := by rw [hh1]; exact hob
  have hstore := Runs.store_cell (fuel := fuel) (i := .var (ptrName outT))
    (val' := .flt (valueF ofRat (rhoAt cellsOf j) e)) hout1
    (evalE_var_int (hp1 outT (by simp)) (by omega) hjI) erhs hob1 hlive hown (by omega) (by omega)
    (by rw [hty]; rfl)
  have r2 : RunsI fuel (.branch (.boolLit true)
      (.block [.block [storeStmt ofRat outT e] (some "*** Computation of expression ***")] none)
      (.block [] none)) σ1 _ 0 :=
    RunsI.branch_true (by simp [evalE])
      (RunsI.block (RunsLI.cons (RunsI.block (RunsLI.cons (RunsI.of_assign hstore) (RunsLI.nil _ _)))
        (RunsLI.nil _ _)))
  -- i++
  have hi2 : ∀ h' : List (Block F), IntVar ({ σ1 with heap := h' } : State F) i j := fun _ => hi1.congr rfl
  have r3 : ∀ h' : List (Block F), RunsI fuel (increment (.var i) (.intLit 1))
      ({ σ1 with heap := h' } : State F)
      ({ vars := setVar σ1.vars i (.int ((j : Int) + 1)), heap := h', tensors := σ1.tensors } : State F) 0 :=
    fun h' => RunsI.of_assign (Runs.assign_int (fuel := fuel) (e := plus (.var i) (.intLit 1)) (hi2 h')
      (evalE_add (evalE_var_int (hi2 h') (by omega) hjI) (evalE_intLit (by omega) (by omega)) (by omega) (by omega)))
  refine ⟨_, RunsLI.append r1 (RunsLI.cons r2 (RunsLI.cons (r3 _) (RunsLI.nil _ _))), ht1, ⟨oblk, hob, ?_⟩, ?_, ?_, ?_⟩
  · simp [hh1]
  · intro y hy
    simp only [scratch, List.mem_cons, not_or] at hy
    show lookupVar (setVar σ1.vars i _) y = _
    rw [lookupVar_setVar_other _ hy.1]
    exact ho1 y hy.2
  · intro x hx r hr
    obtain ⟨ri, hri1, hri2, _⟩ := hi1
    by_cases hxi : x = i
    · subst hxi
      have : lookupVar (setVar σ1.vars x (.int ((j : Int) + 1))) x = _ := lookupVar_setVar_same _ hri1
      change lookupVar (setVar σ1.vars x (.int ((j : Int) + 1))) x = some r at hr
      rw [this] at hr; cases hr; exact hri2
    · change lookupVar (setVar σ1.vars i (.int ((j : Int) + 1))) x = some r at hr
      rw [lookupVar_setVar_other _ hxi] at hr
      have hx' : x ∈ ptrNames outT e := by
        rcases List.mem_cons.1 hx with h | h
        · exact absurd h hxi
        · exact h
      obtain ⟨t, ht, rfl⟩ := List.mem_map.1 hx'
      exact intVar_ty_int (hp1 t ht) r hr
  · obtain ⟨ri, hri1, hri2, _⟩ := hi1
    refine ⟨_, lookupVar_setVar_same _ hri1, hri2, ?_⟩
    show some (Val.int ((j : Int) + 1)) = _
    congr 2

end TV.Dense1
