import TensoraVerif.Lemmas.Dense1Kernel

/-!
C01 for dense element-wise vector kernels, part 10: the dimension variables of the assignments of
the class (`indexDimensions_eq`).
-/

namespace TV.Dense1
open TV.IR TV.Gen TV.Graph TV.Growth

/-- every tensor access of the right-hand side uses only the index `i` -/
def rhsIdx (i : String) : Alg.DExpr → Bool
  | .int _ => true
  | .flt _ => true
  | .tensor _ _ idx => idx.all (· == i)
  | .add l r => rhsIdx i l && rhsIdx i r
  | .mul l r => rhsIdx i l && rhsIdx i r
  | .contract _ e => rhsIdx i e

theorem ofTensor_noop (i name : String) (idx : List String) (hidx : idx.all (· == i) = true)
    (acc : List (String × String × Nat)) (hacc : (acc.any fun x => x.1 == i) = true) :
    ∀ l : List Nat, (∀ d ∈ l, d < idx.length) →
      l.foldl (fun acc d =>
        let j := idx.getD d ""
        if acc.any (·.1 == j) then acc else acc ++ [(j, name, d)]) acc = acc := by
  intro l
  induction l with
  | nil => intro _; rfl
  | cons d l ih =>
    intro hl
    have hd : d < idx.length := hl d (by simp)
    have hj : idx.getD d "" = i := by
      have := List.all_eq_true.1 hidx (idx[d]) (List.getElem_mem hd)
      simp only [beq_iff_eq] at this
      simp [List.getD, hd, this]
    rw [List.foldl_cons]
    simp only [hj, hacc, if_true]
    exact ih (fun x hx => hl x (by simp [hx]))

theorem go_noop (i : String) (e : Alg.DExpr) (h : rhsIdx i e = true) :
    ∀ (acc : List (String × String × Nat)), (acc.any fun x => x.1 == i) = true →
    indexDimensions.go (fun name idx acc =>
      (List.range idx.length).foldl (fun acc d =>
        let j := idx.getD d ""
        if acc.any (·.1 == j) then acc else acc ++ [(j, name, d)]) acc) e acc = acc := by
  induction e with
  | int v => intro acc _; rfl
  | flt v => intro acc _; rfl
  | tensor id name idx =>
    intro acc hacc
    simp only [indexDimensions.go]
    exact ofTensor_noop i name idx h acc hacc _ (fun d hd => List.mem_range.1 hd)
  | add l r ihl ihr =>
    intro acc hacc
    simp only [rhsIdx, Bool.and_eq_true] at h
    simp only [indexDimensions.go]
    rw [ihl h.1 acc hacc, ihr h.2 acc hacc]
  | mul l r ihl ihr =>
    intro acc hacc
    simp only [rhsIdx, Bool.and_eq_true] at h
    simp only [indexDimensions.go]
    rw [ihl h.1 acc hacc, ihr h.2 acc hacc]
  | contract j e ih =>
    intro acc hacc
    simp only [indexDimensions.go]
    exact ih h acc hacc

/-- the only dimension variable of a dense element-wise vector assignment is `i_dim`, read from
the output tensor -/
theorem indexDimensions_eq (a : Alg.DAssign) (i : String) (hi : a.tidx = [i]) (hr : rhsIdx i a.rhs = true) :
    indexDimensions a = [(i, a.tname, 0)] := by
  unfold indexDimensions
  simp only [hi]
  have h0 : (List.range [i].length).foldl (fun (acc : List (String × String × Nat)) d =>
        let j := [i].getD d ""
        if acc.any (·.1 == j) then acc else acc ++ [(j, a.tname, d)]) [] = [(i, a.tname, 0)] := by
    simp [List.range, List.range.loop]
  rw [h0]
  exact go_noop i a.rhs hr _ (by simp)

end TV.Dense1
