import TensoraVerif.Lemmas.Dense1Dims

/-!
C01 for dense element-wise vector kernels, part 11: the exact carrier. With the rationals as
"floats" (every value finite, exact arithmetic, literals through `id`) the float meaning `valueF`
is `Graph.value`.
-/
namespace TV.Dense1
open TV.IR TV.Gen TV.Graph

/-- the rationals as an exact float carrier: every value is finite, arithmetic is exact -/
instance ratFloatOps : FloatOps Rat where
  zero := 0
  one := 1
  add := (· + ·)
  sub := (· - ·)
  mul := (· * ·)
  ofInt := fun i => (i : Rat)
  lt a b := decide (a < b)
  eq a b := decide (a = b)
  finite _ := true

/-- `valueF` only looks at `ρ` on the tensor occurrences of `e` -/
theorem valueF_congr {F : Type} [FloatOps F] (ofRat : Rat → F) (ρ ρ' : TensorId → F) (e : IdExpr)
    (h : ∀ t ∈ leaves e, ρ t = ρ' t) : valueF ofRat ρ e = valueF ofRat ρ' e := by
  induction e with
  | int v => rfl
  | flt q => rfl
  | tensor t => exact h t (by simp [leaves])
  | add l r ihl ihr =>
    simp only [valueF]
    rw [ihl (fun t ht => h t (by simp [leaves, ht])), ihr (fun t ht => h t (by simp [leaves, ht]))]
  | mul l r ihl ihr =>
    simp only [valueF]
    rw [ihl (fun t ht => h t (by simp [leaves, ht])), ihr (fun t ht => h t (by simp [leaves, ht]))]

/-- over the exact carrier the float meaning is the mathematical meaning -/
theorem valueF_rat (ρ : String → Rat) (e : IdExpr) :
    valueF (F := Rat) id (fun t => ρ t.id) e = value ρ e := by
  induction e with
  | int v => rfl
  | flt q => rfl
  | tensor t => rfl
  | add l r ihl ihr => simp only [valueF, value, ihl, ihr]; rfl
  | mul l r ihl ihr => simp only [valueF, value, ihl, ihr]; rfl

/-- on a carrier where every value is finite, every sub-result is finite -/
theorem allFinite_of_total {F : Type} [FloatOps F] (h : ∀ x : F, FloatOps.finite x = true)
    (ofRat : Rat → F) (ρ : TensorId → F) (e : IdExpr) : allFinite ofRat ρ e = true := by
  induction e with
  | int v => exact h _
  | flt q => exact h _
  | tensor t => exact h _
  | add l r ihl ihr => simp only [allFinite, ihl, ihr, h]; rfl
  | mul l r ihl ihr => simp only [allFinite, ihl, ihr, h]; rfl

/-- the name of the output tensor as `generateIr` computes it -/
theorem tensorId_name {id : Nat} {name : String} {formats : Formats} {idx : List String} {t : TensorId}
    (h : tensorId id name formats idx = some t) : t.name = name := by
  unfold tensorId at h
  split at h
  · cases h
  · cases h; rfl

/-- over the exact carrier every sub-result is finite -/
theorem allFinite_rat (ofRat : Rat → Rat) (ρ : TensorId → Rat) (e : IdExpr) :
    allFinite (F := Rat) ofRat ρ e = true := by
  induction e with
  | int v => rfl
  | flt q => rfl
  | tensor t => rfl
  | add l r ihl ihr => simp only [allFinite, ihl, ihr]; rfl
  | mul l r ihl ihr => simp only [allFinite, ihl, ihr]; rfl

end TV.Dense1
