import TensoraVerif.Lemmas.Dense1Generate

/-!
C01 for dense element-wise vector kernels, part 8: the prologue and epilogue fragments on the
machine — `t->dimensions[0]`, `t->vals`, "Unpack tensors", `malloc`, `t->vals = arr`, a statement
list followed by `return`, and the distinctness of the names of the whole kernel.
-/

namespace TV.Dense1
open TV.IR TV.Gen TV.Graph TV.Growth
set_option linter.unusedSectionVars false
variable {F : Type} [FloatOps F]

/-- `x` is a tensor parameter bound to tensor record `k` -/
def TensorVar (σ : State F) (x : String) (k : Nat) : Prop :=
  ∃ r, lookupVar σ.vars x = some r ∧ r.ty = .ptr .tensor ∧ r.val = some (.tensor k)

theorem TensorVar.congr {σ σ' : State F} {x : String} {k : Nat} (h : TensorVar σ x k)
    (e : lookupVar σ'.vars x = lookupVar σ.vars x) : TensorVar σ' x k := by
  obtain ⟨r, h1, h2, h3⟩ := h; exact ⟨r, e.trans h1, h2, h3⟩

theorem evalE_var_tensor {σ : State F} {x : String} {k : Nat} (h : TensorVar σ x k) :
    evalE σ (.var x) = .ok (.tensor k) := by
  obtain ⟨r, e1, e2, e3⟩ := h
  simp [evalE, e1, e2, e3, hasTy, chkVal]

/-- `t->dimensions[0]` -/
theorem evalE_dim0 {σ : State F} {x : String} {k : Nat} {tr : TensorRec F} {blk : Block F} {n : Int}
    (hx : TensorVar σ x k) (htr : σ.tensors[k]? = some tr) (hb : σ.heap[tr.dimsBlk]? = some blk)
    (hlive : blk.live = true) (hty : blk.ty = .int) (hc : blk.cells[0]? = some (some (.int n)))
    (hn0 : -2147483648 ≤ n) (hn : n < 2147483648) :
    evalE σ (.idx (.attr (.var x) "dimensions") (.intLit 0)) = .ok (.int n) := by
  have e1 : evalE σ (.attr (.var x) "dimensions") = .ok (.ptr tr.dimsBlk 0) := by
    rw [evalE, evalE_var_tensor hx]
    simp [bind, Except.bind, htr]
  have hlen : 0 < blk.cells.length := lt_length_of_getElem? hc
  have h2 : blk.cells ≠ [] := by intro h; rw [h] at hlen; cases hlen
  rw [evalE, e1, evalE_intLit (by omega) (by omega)]
  simp [bind, Except.bind, readBlock, hb, hlive, Block.len, h2, hc, hty, hasElemTy, chkVal, chkInt,
    inI32_of hn0 hn]

/-- `t->vals` -/
theorem evalE_vals {σ : State F} {x : String} {k : Nat} {tr : TensorRec F}
    (hx : TensorVar σ x k) (htr : σ.tensors[k]? = some tr) (hp : isPtrVal tr.vals = true) :
    evalE σ (.attr (.var x) "vals") = .ok tr.vals := by
  rw [evalE, evalE_var_tensor hx]
  simp [bind, Except.bind, htr, hp]

theorem convTo_ptr_of_isPtrVal {v : Val F} (t : Ty) (h : isPtrVal v = true) : convTo (.ptr t) v = .ok v := by
  cases v <;> simp [isPtrVal] at h <;> rfl

theorem valsName_inj {a b : String} (h : valsName a = valsName b) : a = b :=
  (String.append_left_inj _).1 h

/-- "Unpack tensors" for order-1 dense tensors: `double* <t>_vals = t->vals;` for every tensor -/
theorem unpack_runs (fuel : Nat) (tix : String → Nat) (fs : Formats) :
    ∀ (σ : State F),
      (∀ f ∈ fs, TensorVar σ f.1 (tix f.1) ∧ ∃ tr, σ.tensors[tix f.1]? = some tr ∧ isPtrVal tr.vals = true) →
      (∀ f ∈ fs, ∀ r, lookupVar σ.vars (valsName f.1) = some r → r.ty = .ptr .float) →
      (∀ f ∈ fs, ∀ g ∈ fs, f.1 ≠ valsName g.1) →
      ∃ σ', RunsLI fuel (fs.map fun f => declAssignE (valsName f.1) (.ptr .float) (.attr (.var f.1) "vals"))
          σ σ' 0 ∧
        σ'.heap = σ.heap ∧ σ'.tensors = σ.tensors ∧
        (∀ y, y ∉ fs.map (fun f => valsName f.1) → lookupVar σ'.vars y = lookupVar σ.vars y) ∧
        ∀ f ∈ fs, ∃ r tr, lookupVar σ'.vars (valsName f.1) = some r ∧ r.ty = .ptr .float ∧
          σ.tensors[tix f.1]? = some tr ∧ r.val = some tr.vals := by
  induction fs with
  | nil =>
    intro σ _ _ _
    exact ⟨σ, RunsLI.nil _ _, rfl, rfl, fun _ _ => rfl, fun f hf => by cases hf⟩
  | cons f fs ih =>
    intro σ hpar hty hne
    obtain ⟨hv, tr, htr, hp⟩ := hpar f (by simp)
    obtain ⟨σ1, r1, hh1, ht1, ⟨r, hr1, hr2, hr3⟩, ho1⟩ :=
      runsI_declAssign (fuel := fuel) (t := .ptr .float) (hty f (by simp))
        (evalE_vals hv htr hp) (convTo_ptr_of_isPtrVal .float hp)
    have hpar1 : ∀ g ∈ fs, TensorVar σ1 g.1 (tix g.1) ∧
        ∃ tr, σ1.tensors[tix g.1]? = some tr ∧ isPtrVal tr.vals = true := by
      intro g hg
      obtain ⟨hv', rest⟩ := hpar g (by simp [hg])
      rw [ht1]
      exact ⟨hv'.congr (ho1 _ (hne g (by simp [hg]) f (by simp))), rest⟩
    have hty1 : ∀ g ∈ fs, ∀ r', lookupVar σ1.vars (valsName g.1) = some r' → r'.ty = .ptr .float := by
      intro g hg r' hr'
      by_cases he : valsName g.1 = valsName f.1
      · rw [he, hr1] at hr'; cases hr'; exact hr2
      · rw [ho1 _ he] at hr'; exact hty g (by simp [hg]) r' hr'
    obtain ⟨σ2, r2, hh2, ht2, ho2, hp2⟩ := ih σ1 hpar1 hty1
      (fun g hg g' hg' => hne g (by simp [hg]) g' (by simp [hg']))
    refine ⟨σ2, RunsLI.cons r1 r2, hh2.trans hh1, ht2.trans ht1, ?_, ?_⟩
    · intro y hy
      simp only [List.map_cons, List.mem_cons, not_or] at hy
      rw [ho2 y hy.2, ho1 y hy.1]
    · intro g hg
      rcases List.mem_cons.1 hg with rfl | hg
      · by_cases hm : valsName g.1 ∈ fs.map (fun f => valsName f.1)
        · obtain ⟨g', hg', he⟩ := List.mem_map.1 hm
          obtain ⟨r', tr', h1, h2, h3, h4⟩ := hp2 g' hg'
          rw [valsName_inj he, ht1] at h3
          exact ⟨r', tr', by rw [← he]; exact h1, h2, h3, h4⟩
        · exact ⟨r, tr, by rw [ho2 _ hm]; exact hr1, hr2, htr, hr3⟩
      · obtain ⟨r', tr', h1, h2, h3, h4⟩ := hp2 g hg
        rw [ht1] at h3
        exact ⟨r', tr', h1, h2, h3, h4⟩

/-- `t->vals = arr;` -/
theorem runsI_storeVals {fuel : Nat} {σ : State F} {tn arr : String} {k b : Nat} {tr : TensorRec F}
    (ht : TensorVar σ tn k) (ha : PtrVar σ arr b) (htr : σ.tensors[k]? = some tr)
    (hown : tr.owner = .output) :
    RunsI fuel (.assign (.attr (.var tn) "vals") (.var arr)) σ
      { σ with tensors := σ.tensors.set k { tr with vals := .ptr b 0 } } 0 := by
  refine ⟨⟨_, none, 0, 1⟩, ?_, rfl, rfl, rfl⟩
  rw [exec.eq_3, evalRhs_of_ok (evalE_var_ptr ha)]
  simp [bind, Except.bind, evalLoc, evalE_var_tensor ht, store, htr, hown, isPtrVal]

/-- a list of statements that runs to completion, followed by `return e` -/
theorem execL_ret {fuel : Nat} {ss : List (Stmt F)} {σ σ' : State F} {k : Nat} {e : Expr F} {v : Val F}
    (h : RunsLI fuel ss σ σ' k) (he : evalE σ' e = .ok v) :
    ∃ o, execL fuel (ss ++ [.ret e]) σ = .ok o ∧ o.ret = some v ∧ o.st = σ' ∧ o.iters = k := by
  induction ss generalizing σ k with
  | nil =>
    obtain ⟨o, e1, _, s, i⟩ := h
    rw [execL.eq_1] at e1; cases e1; cases s; cases i
    refine ⟨⟨σ, some v, 0, 1⟩, ?_, rfl, rfl, rfl⟩
    rw [List.nil_append, execL.eq_2, exec.eq_9, he]
    rfl
  | cons s ss ih =>
    obtain ⟨o, e1, r, st, it⟩ := h
    rw [execL.eq_2] at e1
    obtain ⟨o1, e1', e1⟩ := Frame.bind_ok e1
    cases hr : o1.ret with
    | some x => simp only [hr] at e1; cases e1; rw [hr] at r; cases r
    | none =>
      simp only [hr] at e1
      obtain ⟨o2, e2, e1⟩ := Frame.bind_ok e1
      cases e1
      obtain ⟨o3, e3, r3, s3, i3⟩ := ih ⟨o2, e2, r, st, rfl⟩
      refine ⟨o1.seq o3, ?_, r3, s3, ?_⟩
      · rw [List.cons_append, execL.eq_2, e1']
        simp only [bind, Except.bind, hr, e3]
      · simp only [Out.seq] at it ⊢
        rw [i3]; exact it

/-- `arr = malloc(sizeof(ty) * cap)`, existential form -/
theorem runsI_alloc {fuel : Nat} {σ : State F} {arr cap : String} {ty : Ty} {ety : ElemTy} {k : Int}
    {r : VarRec F} {t : Ty} (ha : lookupVar σ.vars arr = some r) (hrt : r.ty = .ptr t)
    (hc : IntVar σ cap k) (h0 : 0 ≤ k) (h1 : k < 2147483648) (hty : elemOf ty = .ok ety) :
    ∃ σ', RunsI fuel (.assign (.var arr) (.alloc ty (.var cap))) σ σ' 0 ∧ σ'.tensors = σ.tensors ∧
      σ'.heap = σ.heap ++ [⟨ety, List.replicate k.toNat none, .output, true⟩] ∧
      PtrVar σ' arr σ.heap.length ∧ ∀ y, y ≠ arr → lookupVar σ'.vars y = lookupVar σ.vars y :=
  ⟨_, RunsI.of_assign (Runs.alloc ha hrt hc h0 h1 hty), rfl, rfl,
    ⟨_, t, lookupVar_setVar_same _ ha, hrt, rfl⟩, fun _ hy => lookupVar_setVar_other _ hy⟩

/-! ### names of the whole kernel -/

theorem mem_us_dimName (i : String) : '_' ∈ (dimName i).toList := by
  simp [dimName, String.toList_append]
theorem mem_us_valsName (t : String) : '_' ∈ (valsName t).toList := by
  simp [valsName, String.toList_append]
theorem mem_us_valsCapName (t : String) : '_' ∈ (valsCapName t).toList := by
  simp [valsCapName, String.toList_append]
theorem getLast?_valsCapName (t : String) : (valsCapName t).toList.getLast? = some 'y' := by
  simp only [valsCapName, String.toList_append, List.getLast?_append]; rfl

theorem dimName_ne_valsName (i t : String) : dimName i ≠ valsName t :=
  ne_of_getLast?_ne (by rw [getLast?_dimName, getLast?_valsName]; decide)
theorem dimName_ne_valsCapName (i t : String) : dimName i ≠ valsCapName t :=
  ne_of_getLast?_ne (by rw [getLast?_dimName, getLast?_valsCapName]; decide)
theorem valsName_ne_valsCapName' (s t : String) : valsName s ≠ valsCapName t :=
  ne_of_getLast?_ne (by rw [getLast?_valsName, getLast?_valsCapName]; decide)

/-- a name with `'_'` whose last character is not a digit is not written by the loop -/
theorem not_mem_scratch {i : String} (outT : TensorId) (e : IdExpr) (hi : '_' ∉ i.toList) {s : String} {c : Char}
    (hu : '_' ∈ s.toList) (hs : s.toList.getLast? = some c) (hc : c.isDigit = false) :
    s ∉ scratch i outT e := by
  intro hm
  rcases List.mem_cons.1 hm with hm | hm
  · exact ne_of_underscore hi hu hm.symm
  · obtain ⟨t, _, ht⟩ := List.mem_map.1 hm
    exact ptrName_ne_of_getLast? t hs hc ht.symm

end TV.Dense1
