import TensoraVerif.Lemmas.Dense1Loop
import TensoraVerif.Lemmas.LoweringGenerate

/-!
C01 for dense element-wise vector kernels, part 7: what `generateIr` produces on the class — the
whole `evaluate` function, written out (`kernel`, `generateIr_eq`).
-/

namespace TV.Dense1
open TV.IR TV.Gen TV.Graph TV.Growth
set_option linter.unusedSectionVars false
variable {F : Type} [FloatOps F]

/-- all tensors of the format table are order-1 dense -/
def denseFormats (formats : Formats) : Bool := formats.all fun f => f.2.1 == [Mode.dense]

omit [FloatOps F] in
theorem unpackDecls_eq (formats : Formats) (h : denseFormats formats = true) :
    (unpackDecls formats : List (Stmt F)) =
      formats.map fun f => declAssignE (valsName f.1) (.ptr .float) (.attr (.var f.1) "vals") := by
  induction formats with
  | nil => rfl
  | cons f fs ih =>
    obtain ⟨name, modes, ord⟩ := f
    simp only [denseFormats, List.all_cons, Bool.and_eq_true, beq_iff_eq] at h
    have hm : modes = [Mode.dense] := h.1
    have := ih (by simpa [denseFormats] using h.2)
    simp only [unpackDecls] at this ⊢
    rw [List.flatMap_cons, this]
    simp [hm, List.range, List.range.loop]

omit [FloatOps F] in
theorem appendDeclarations_eq1 (cap : Option Int) (outT : TensorId) (hm : outT.modes = [.dense])
    (hi : outT.indexes.length = 1) :
    (appendDeclarations cap outT .evaluate : SB F) = ⟨some "Output initialization",
      [declAssignE (valsCapName outT.name) .int
         (.bin .mul (.intLit 1) (.idx (.attr (.var outT.name) "dimensions") (.intLit 0))),
       .assign (.var (valsName outT.name)) (.alloc .float (.var (valsCapName outT.name)))]⟩ := by
  simp [appendDeclarations, hm, hi, List.range, List.range.loop, Kind.isAssemble, SB.mk', SB.add,
    mulJoin, joinWith]

omit [FloatOps F] in
theorem appendCleanup_eq1 (outT : TensorId) (hm : outT.modes = [.dense]) :
    (appendCleanup outT .evaluate : SB F) = ⟨some ("Assembling output tensor " ++ outT.name),
      [.assign (.attr (.var outT.name) "vals") (.var (valsName outT.name))]⟩ := by
  simp [appendCleanup, hm, List.range, List.range.loop, Kind.isAssemble, SB.mk', SB.add]

/-- the statements of the `evaluate` kernel of the class, before `return 0` -/
def kernelStmts (ofRat : Rat → F) (formats : Formats) (i : String) (outT : TensorId) (e : IdExpr) :
    List (Stmt F) :=
  [.block [declAssignE (dimName i) .int (.idx (.attr (.var outT.name) "dimensions") (.intLit 0))]
      (some "Extract dimensions"),
   .block (formats.map fun f => declAssignE (valsName f.1) (.ptr .float) (.attr (.var f.1) "vals"))
      (some "Unpack tensors"),
   .block [declAssignE (valsCapName outT.name) .int
        (.bin .mul (.intLit 1) (.idx (.attr (.var outT.name) "dimensions") (.intLit 0))),
      .assign (.var (valsName outT.name)) (.alloc .float (.var (valsCapName outT.name)))]
      (some "Output initialization"),
   .block (loopLines ofRat i outT e) (some ("*** Iteration over " ++ i ++ " ***")),
   .block [.assign (.attr (.var outT.name) "vals") (.var (valsName outT.name))]
      (some ("Assembling output tensor " ++ outT.name))]

/-- the `evaluate` kernel of the class -/
def kernel (ofRat : Rat → F) (formats : Formats) (i : String) (outT : TensorId) (e : IdExpr) : Func F :=
  ⟨"evaluate", formats.map fun f => (f.1, .ptr .tensor), .int,
    .block (kernelStmts ofRat formats i outT e ++ [.ret (.intLit 0)]) none⟩

omit [FloatOps F] in
/-- **What `generateIr` produces on the class.** -/
theorem generateIr_eq (ofRat : Rat → F) (cap : Option Int) (a : Alg.DAssign) (formats : Formats)
    (i : String) (outT : TensorId) (e : IdExpr)
    (hout : tensorId 0 a.tname formats a.tidx = some outT) (hname : outT.name = a.tname)
    (ho : isLeaf i outT = true) (he : isExpr i e = true) (hf : denseFormats formats = true)
    (hd : indexDimensions a = [(i, a.tname, 0)]) :
    generateIr ofRat cap a formats (graph i outT e) .evaluate = .ok (kernel ofRat formats i outT e) := by
  have ho' := (isLeaf_iff i outT).1 ho
  have hsz : 4 * (graph i outT e).size + 8 = 14 + 2 := by simp [graph, IGraph.size]
  have hu := unpackDecls_eq (F := F) formats hf
  unfold unpackDecls at hu
  unfold generateIr
  simp only [hout, Option.getD_some, hsz, lower_eq ofRat 14 i outT e ho he, hd,
    appendDeclarations_eq1 cap outT ho'.2 (by rw [ho'.1]; rfl), appendCleanup_eq1 outT ho'.2, hu]
  simp [bind, Except.bind, pure, Except.pure, kernel, kernelStmts, SB.add, SB.append, SB.empty,
    SB.finalize, Kind.name, hname]

end TV.Dense1
