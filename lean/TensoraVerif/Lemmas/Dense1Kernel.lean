import TensoraVerif.Lemmas.Dense1Frags

/-!
C01 for dense element-wise vector kernels, part 9: the whole `evaluate` function on the machine
(`kernel_runs`): from an initial state as the driver builds it (`Init`) to the final state
(`KernelPost`), through "Extract dimensions", "Unpack tensors", "Output initialization", the loop
and "Assembling output tensor".
-/

namespace TV.Dense1
open TV.IR TV.Gen TV.Graph TV.Growth
set_option linter.unusedSectionVars false
variable {F : Type} [FloatOps F]

/-- static side conditions of the kernel theorem: index and tensor names contain no `'_'` (every
name the parser admits is alphanumeric), the index is not a tensor name, the output and every
tensor of the right-hand side are in the format table, and the output does not occur on the right -/
structure KernelOK (formats : Formats) (i : String) (outT : TensorId) (e : IdExpr) : Prop where
  idx : '_' ∉ i.toList
  tensors : ∀ f ∈ formats, '_' ∉ f.1.toList
  idxTensor : i ∉ formats.map (·.1)
  out : outT.name ∈ formats.map (·.1)
  ins : ∀ t ∈ leaves e, t.name ∈ formats.map (·.1) ∧ t.name ≠ outT.name

/-- **Initial machine state of a kernel call**, as the driver builds it (`IR.Wire.buildState`,
`bindParams`): the variables are exactly the tensor parameters, parameter `t` bound to tensor
record `tix t`; every record has a pointer (or `NULL`) in `vals`; the output record is
output-owned and its `dimensions` block holds `n` at position 0; the record of every tensor of
the right-hand side has `vals` pointing to a live float block whose first `n` cells are
initialised with `cellsOf t`. -/
structure Init (formats : Formats) (outT : TensorId) (e : IdExpr) (n : Nat)
    (tix : String → Nat) (blkOf : String → Nat) (cellsOf : String → Nat → F) (σ : State F) : Prop where
  params : ∀ f ∈ formats, TensorVar σ f.1 (tix f.1)
  fresh : ∀ x, x ∉ formats.map (·.1) → lookupVar σ.vars x = none
  recs : ∀ f ∈ formats, ∃ tr, σ.tensors[tix f.1]? = some tr ∧ isPtrVal tr.vals = true
  out : ∃ tr blk, σ.tensors[tix outT.name]? = some tr ∧ tr.owner = .output ∧
    σ.heap[tr.dimsBlk]? = some blk ∧ blk.live = true ∧ blk.ty = .int ∧
    blk.cells[0]? = some (some (.int n))
  ins : ∀ t ∈ leaves e, ∃ tr blk, σ.tensors[tix t.name]? = some tr ∧ tr.vals = .ptr (blkOf t.name) 0 ∧
    σ.heap[blkOf t.name]? = some blk ∧ blk.live = true ∧ blk.ty = .float ∧
    ∀ j, j < n → blk.cells[j]? = some (some (.flt (cellsOf t.name j)))

/-- **Final state of a kernel call** `σ → σ'` with output record `k`: the record's `vals` points to
the fresh block `σ.heap.length`, a live output-owned float block with exactly `n` cells holding the
float meaning of `e` at each coordinate; every old block and every other record is unchanged. -/
structure KernelPost (ofRat : Rat → F) (e : IdExpr) (n : Nat) (k : Nat) (cellsOf : String → Nat → F)
    (σ σ' : State F) : Prop where
  outRec : ∃ tr, σ.tensors[k]? = some tr ∧ σ'.tensors[k]? = some { tr with vals := .ptr σ.heap.length 0 }
  otherRecs : ∀ k', k' ≠ k → σ'.tensors[k']? = σ.tensors[k']?
  blk : ∃ blk, σ'.heap[σ.heap.length]? = some blk ∧ blk.live = true ∧ blk.owner = .output ∧
    blk.ty = .float ∧
    blk.cells = (List.range n).map fun j => some (.flt (valueF ofRat (rhoAt cellsOf j) e))
  heap : ∀ b, b < σ.heap.length → σ'.heap[b]? = σ.heap[b]?
  heapLen : σ'.heap.length = σ.heap.length + 1

theorem kernel_runs (ofRat : Rat → F) (formats : Formats) (i : String) (outT : TensorId) (e : IdExpr)
    (he : isExpr i e = true) (ok : KernelOK formats i outT e)
    {n : Nat} {tix blkOf : String → Nat} {cellsOf : String → Nat → F} {σ : State F}
    (hn : (n : Int) < 2147483648)
    (hfin : ∀ j, j < n → allFinite ofRat (rhoAt cellsOf j) e = true)
    (hinit : Init formats outT e n tix blkOf cellsOf σ) (fuel : Nat) (hfuel : n + 1 ≤ fuel) :
    ∃ o, exec fuel (kernel ofRat formats i outT e).body σ = .ok o ∧ o.ret = some (.int 0) ∧
      o.iters = n ∧ KernelPost ofRat e n (tix outT.name) cellsOf σ o.st := by
  obtain ⟨hparams, hfresh, hrecs, ⟨otr, dblk, hotr, hown, hdb, hdlive, hdty, hdc⟩, hins⟩ := hinit
  have hgen : ∀ x, '_' ∈ x.toList → x ∉ formats.map (·.1) := by
    intro x hx hm
    obtain ⟨f, hf, rfl⟩ := List.mem_map.1 hm
    exact ok.tensors f hf hx
  have hNne : ∀ f ∈ formats, ∀ x, '_' ∈ x.toList → f.1 ≠ x :=
    fun f hf x hx => ne_of_underscore (ok.tensors f hf) hx
  obtain ⟨fo, hfo, hfoe⟩ := List.mem_map.1 ok.out
  have hfoe : fo.1 = outT.name := hfoe
  have hTout : TensorVar σ outT.name (tix outT.name) := by rw [← hfoe]; exact hparams fo hfo
  have names := names_of_index i outT e ok.idx
  -- A: int i_dim = out->dimensions[0]
  obtain ⟨σA, rA, hhA, htA, hdimA, hoA⟩ := runsI_declAssign (fuel := fuel) (x := dimName i) (t := .int)
    (val' := .int n)
    (by rw [hfresh _ (hgen _ (mem_us_dimName i))]; intro r h; cases h)
    (evalE_dim0 hTout hotr hdb hdlive hdty hdc (by omega) hn) rfl
  have hdimA : IntVar σA (dimName i) n := hdimA
  -- B: unpack
  obtain ⟨σB, rB, hhB, htB, hoB, hpB⟩ := unpack_runs fuel tix formats σA
    (fun f hf => ⟨(hparams f hf).congr (hoA _ (hNne f hf _ (mem_us_dimName i))), by rw [htA]; exact hrecs f hf⟩)
    (fun f hf r hr => by
      rw [hoA _ (dimName_ne_valsName i f.1).symm, hfresh _ (hgen _ (mem_us_valsName f.1))] at hr; cases hr)
    (fun f hf g _ => hNne f hf _ (mem_us_valsName g.1))
  have hB_of : ∀ y, (∀ s, y ≠ valsName s) → lookupVar σB.vars y = lookupVar σA.vars y := by
    intro y hy
    apply hoB
    intro hm
    obtain ⟨f, _, hf⟩ := List.mem_map.1 hm
    exact hy f.1 hf.symm
  -- C1: int out_vals_capacity = 1 * out->dimensions[0]
  have hToutB : TensorVar σB outT.name (tix outT.name) := by
    refine hTout.congr ?_
    rw [hB_of _ (fun s => by rw [← hfoe]; exact hNne fo hfo _ (mem_us_valsName s)),
      hoA _ (by rw [← hfoe]; exact hNne fo hfo _ (mem_us_dimName i))]
  have eC : evalE σB (.bin .mul (.intLit 1) (.idx (.attr (.var outT.name) "dimensions") (.intLit 0))) =
      .ok (.int (1 * (n : Int))) :=
    evalE_mul (evalE_intLit (by omega) (by omega))
      (evalE_dim0 hToutB (by rw [htB, htA]; exact hotr) (by rw [hhB, hhA]; exact hdb) hdlive hdty hdc
        (by omega) hn) (by omega) (by omega)
  obtain ⟨σC1, rC1, hhC1, htC1, hcapC1, hoC1⟩ := runsI_declAssign (fuel := fuel)
    (x := valsCapName outT.name) (t := .int) (val' := .int (1 * (n : Int)))
    (by
      rw [hB_of _ (fun s => (valsName_ne_valsCapName' s outT.name).symm),
        hoA _ (dimName_ne_valsCapName i outT.name).symm, hfresh _ (hgen _ (mem_us_valsCapName _))]
      intro r h; cases h) eC rfl
  have hcapC1 : IntVar σC1 (valsCapName outT.name) (1 * (n : Int)) := hcapC1
  -- C2: out_vals = malloc(out_vals_capacity)
  obtain ⟨ro, tro, hro1, hro2, _, _⟩ := hpB fo hfo
  rw [hfoe] at hro1
  obtain ⟨σC, rC2, htC, hhC, houtC, hoC⟩ := runsI_alloc (fuel := fuel) (ty := .float) (ety := .float)
    (ha := (hoC1 _ (valsName_ne_valsCapName' outT.name outT.name)).trans hro1) hro2 hcapC1
    (by omega) (by omega) rfl
  have hlenC1 : σC1.heap.length = σ.heap.length := by rw [hhC1, hhB, hhA]
  rw [hlenC1] at houtC
  have hheapC : σC.heap = σ.heap ++ [⟨.float, List.replicate n none, .output, true⟩] := by
    rw [hhC, hhC1, hhB, hhA]
    simp
  -- lookups in σC
  have hC_of : ∀ y, y ≠ dimName i → (∀ s, y ≠ valsName s) → y ≠ valsCapName outT.name →
      lookupVar σC.vars y = lookupVar σ.vars y := by
    intro y h1 h2 h3
    rw [hoC y (h2 _), hoC1 y h3, hB_of y h2, hoA y h1]
  -- the precondition of the loop
  have hpre : Pre i outT e n σ.heap.length blkOf cellsOf σC := by
    refine ⟨?_, houtC, ?_, ?_, ?_⟩
    · refine hdimA.congr ?_
      rw [hoC _ (dimName_ne_valsName i _), hoC1 _ (dimName_ne_valsCapName i _),
        hB_of _ (fun s => dimName_ne_valsName i s)]
    · exact ⟨⟨.float, List.replicate n none, .output, true⟩, by rw [hheapC]; simp, rfl, rfl, rfl, by simp⟩
    · intro t ht
      obtain ⟨tr, blk, htr, hv, hb, rest⟩ := hins t ht
      obtain ⟨f, hf, hfe⟩ := List.mem_map.1 (ok.ins t ht).1
      have hfe : f.1 = t.name := hfe
      obtain ⟨r, tr', hr1, hr2, hr3, hr4⟩ := hpB f hf
      rw [hfe] at hr1 hr3
      rw [htA, htr] at hr3; cases hr3
      have hlt : blkOf t.name < σ.heap.length := lt_length_of_getElem? hb
      refine ⟨⟨r, .float, ?_, hr2, by rw [hr4, hv]⟩, by omega, blk, ?_, rest⟩
      · rw [hoC _ (fun h => (ok.ins t ht).2 (valsName_inj h)),
          hoC1 _ (valsName_ne_valsCapName' _ _)]
        exact hr1
      · rw [hheapC, List.getElem?_append_left hlt]; exact hb
    · intro x hx r hr
      have hxN : x ∉ formats.map (·.1) := by
        rcases List.mem_cons.1 hx with rfl | hx
        · exact ok.idxTensor
        · obtain ⟨t, _, rfl⟩ := List.mem_map.1 hx
          exact hgen _ (mem_underscore_ptrName t)
      rw [hC_of x (fun h => names.dim (h ▸ hx))
        (fun s h => not_mem_scratch outT e ok.idx (mem_us_valsName s) (getLast?_valsName s) (by decide) (h ▸ hx))
        (fun h => not_mem_scratch outT e ok.idx (mem_us_valsCapName _) (getLast?_valsCapName _) (by decide) (h ▸ hx)),
        hfresh x hxN] at hr
      cases hr
  -- D: the loop
  obtain ⟨σD, rD, hpost⟩ := loopLines_runs ofRat names he hn hfin σC fuel hpre hfuel
  -- E: out->vals = out_vals
  have hnsO : outT.name ∉ scratch i outT e := by
    intro hm
    rcases List.mem_cons.1 hm with h | h
    · exact ok.idxTensor (h ▸ ok.out)
    · obtain ⟨t, _, ht⟩ := List.mem_map.1 h
      exact hgen _ (mem_underscore_ptrName t) (ht ▸ ok.out)
  have hToutD : TensorVar σD outT.name (tix outT.name) := by
    refine hTout.congr ?_
    rw [hpost.vars _ hnsO,
      hC_of _ (by rw [← hfoe]; exact hNne fo hfo _ (mem_us_dimName i))
        (fun s => by rw [← hfoe]; exact hNne fo hfo _ (mem_us_valsName s))
        (by rw [← hfoe]; exact hNne fo hfo _ (mem_us_valsCapName _))]
  have houtD : PtrVar σD (valsName outT.name) σ.heap.length :=
    houtC.congr (hpost.vars _ (names.vals outT (by simp)))
  have htD : σD.tensors = σ.tensors := by rw [hpost.tensors, htC, htC1, htB, htA]
  have rE := runsI_storeVals (fuel := fuel) hToutD houtD (by rw [htD]; exact hotr) hown
  -- the whole body
  have rAll := RunsLI.cons (RunsI.block (c := some "Extract dimensions") (RunsLI.cons rA (RunsLI.nil _ _)))
    (RunsLI.cons (RunsI.block (c := some "Unpack tensors") rB)
      (RunsLI.cons (RunsI.block (c := some "Output initialization")
          (RunsLI.cons rC1 (RunsLI.cons rC2 (RunsLI.nil _ _))))
        (RunsLI.cons (RunsI.block (c := some ("*** Iteration over " ++ i ++ " ***")) rD)
          (RunsLI.cons (RunsI.block (c := some ("Assembling output tensor " ++ outT.name))
              (RunsLI.cons rE (RunsLI.nil _ _))) (RunsLI.nil _ _)))))
  obtain ⟨o, eo, hret, hst, hit⟩ := execL_ret (e := .intLit 0) (v := .int 0) rAll
    (evalE_intLit (by omega) (by omega))
  refine ⟨o, ?_, hret, by rw [hit]; omega, ?_⟩
  · show exec fuel (.block (kernelStmts ofRat formats i outT e ++ [.ret (.intLit 0)]) none) σ = _
    rw [exec.eq_5]
    exact eo
  · rw [hst]
    have hklt : tix outT.name < σ.tensors.length := lt_length_of_getElem? hotr
    obtain ⟨blk, blk', hb, hb', hlive, hown', hty, hlen, hc1, _⟩ := hpost.outBlk
    rw [hheapC] at hb
    simp at hb
    subst hb
    refine ⟨⟨otr, hotr, ?_⟩, ?_, ⟨blk', hb', hlive, hown', hty, ?_⟩, ?_, ?_⟩
    · show (σD.tensors.set _ _)[_]? = _
      rw [htD, List.getElem?_set_self hklt]
    · intro k' hk'
      show (σD.tensors.set _ _)[_]? = _
      rw [htD, List.getElem?_set_ne (Ne.symm hk')]
    · apply List.ext_getElem?
      intro j
      simp only [List.length_replicate] at hlen
      by_cases hj : j < n
      · rw [hc1 j (by omega) hj]
        simp [hj]
      · rw [List.getElem?_eq_none (by omega), List.getElem?_eq_none (by simp; omega)]
    · intro b hb
      show σD.heap[b]? = _
      rw [hpost.heap b (by omega), hheapC, List.getElem?_append_left hb]
    · show σD.heap.length = _
      rw [hpost.heapLen, hheapC]; simp

end TV.Dense1
