import TensoraVerif.Lemmas.Dense1Body

/-!
C01 for dense element-wise vector kernels, part 6: the loop. `Pre` is stable under an iteration,
`Post` composes, the `while` loop by induction on the number of remaining iterations
(`loop_runs`), the lowered loop with its initialisation (`loopLines_runs`), and the distinctness
of the variable names from the naming scheme (`names_of_index`).
-/

namespace TV.Dense1
open TV.IR TV.Gen TV.Graph TV.Growth
set_option linter.unusedSectionVars false
variable {F : Type} [FloatOps F]

/-- the precondition is stable under one iteration -/
theorem Pre.step {i : String} {outT : TensorId} {e : IdExpr} {n ob : Nat} {blkOf : String → Nat}
    {cellsOf : String → Nat → F} {σ σ' : State F} {j : Nat} {v : F}
    (names : Names i outT e) (hpre : Pre i outT e n ob blkOf cellsOf σ)
    (hs : Step i outT e ob j v σ σ') : Pre i outT e n ob blkOf cellsOf σ' := by
  obtain ⟨blk, hb, hheap⟩ := hs.heap
  have hlt : ob < σ.heap.length := lt_length_of_getElem? hb
  refine ⟨hpre.dim.congr (hs.vars _ names.dim),
    hpre.out.congr (hs.vars _ (names.vals outT (by simp))), ?_, ?_, hs.scratch⟩
  · obtain ⟨blk0, hb0, hlive, hown, hty, hlen⟩ := hpre.outBlk
    rw [hb] at hb0; cases hb0
    refine ⟨{ blk with cells := blk.cells.set j (some (.flt v)) },
      by rw [hheap, List.getElem?_set_self hlt], hlive, hown, hty, ?_⟩
    simpa using hlen
  · intro t ht
    obtain ⟨hptr, hne, blk', hb', rest⟩ := hpre.ins t ht
    refine ⟨hptr.congr (hs.vars _ (names.vals t (by simp [ht]))), hne, blk', ?_, rest⟩
    rw [hheap, List.getElem?_set_ne (Ne.symm hne)]; exact hb'

/-- one iteration followed by the rest of the loop -/
theorem Post.step {ofRat : Rat → F} {i : String} {outT : TensorId} {e : IdExpr} {n ob : Nat}
    {cellsOf : String → Nat → F} {σ σ1 σ' : State F} {j : Nat}
    (hj : j < n) (hlen : ∀ blk, σ.heap[ob]? = some blk → n ≤ blk.cells.length)
    (hs : Step i outT e ob j (valueF ofRat (rhoAt cellsOf j) e) σ σ1)
    (hp : Post ofRat i outT e n ob cellsOf (j + 1) σ1 σ') : Post ofRat i outT e n ob cellsOf j σ σ' := by
  obtain ⟨blk, hb, hheap⟩ := hs.heap
  have hlt : ob < σ.heap.length := lt_length_of_getElem? hb
  have hn := hlen blk hb
  refine ⟨hp.tensors.trans hs.tensors, by rw [hp.heapLen, hheap, List.length_set], ?_, ?_, ?_, hp.idx⟩
  · intro b hne
    rw [hp.heap b hne, hheap, List.getElem?_set_ne (Ne.symm hne)]
  · obtain ⟨blk1, blk', hb1, hb', hlive, hown, hty, hl, hc1, hc2⟩ := hp.outBlk
    rw [hheap, List.getElem?_set_self hlt] at hb1
    cases hb1
    refine ⟨blk, blk', hb, hb', hlive, hown, hty, by simpa using hl, ?_, ?_⟩
    · intro k hk1 hk2
      by_cases hkj : k = j
      · subst hkj
        rw [hc2 k (Or.inl (by omega))]
        simp only [List.getElem?_set_self (by omega : k < blk.cells.length)]
      · exact hc1 k (by omega) hk2
    · intro k hk
      rw [hc2 k (by omega)]
      simp only []
      rw [List.getElem?_set_ne (by omega)]
  · intro y hy
    rw [hp.vars y hy, hs.vars y hy]

/-- **the `while` loop**, by induction on the number `m` of remaining iterations -/
theorem loop_runs (ofRat : Rat → F) {i : String} {outT : TensorId} {e : IdExpr}
    (names : Names i outT e) (he : isExpr i e = true)
    {n ob : Nat} {blkOf : String → Nat} {cellsOf : String → Nat → F}
    (hn : (n : Int) < 2147483648)
    (hfin : ∀ j, j < n → allFinite ofRat (rhoAt cellsOf j) e = true) :
    ∀ (m j : Nat) (σ : State F) (fuel : Nat), j + m = n → Pre i outT e n ob blkOf cellsOf σ →
      IntVar σ i j → m + 1 ≤ fuel →
      ∃ σ', RunsI fuel (loopStmt ofRat i outT e) σ σ' m ∧ Post ofRat i outT e n ob cellsOf j σ σ' := by
  intro m
  induction m with
  | zero =>
    intro j σ fuel hjm hpre hij hfuel
    obtain ⟨fuel', rfl⟩ := Nat.exists_eq_add_of_le hfuel
    have hjn : j = n := by omega
    subst hjn
    have ec := evalE_lt (evalE_var_int hij (by omega) hn) (evalE_var_int hpre.dim (by omega) hn)
    have hd : decide ((j : Int) < (j : Int)) = false := by simp
    rw [hd] at ec
    refine ⟨σ, ?_, rfl, rfl, fun _ _ => rfl, ?_, fun _ _ => rfl, hij⟩
    · rw [show 0 + 1 + fuel' = fuel' + 1 by omega]
      exact RunsI.loop_false ec
    · obtain ⟨blk, hb, hlive, hown, hty, _⟩ := hpre.outBlk
      exact ⟨blk, blk, hb, hb, hlive, hown, hty, rfl, fun k h1 h2 => by omega, fun _ _ => rfl⟩
  | succ m ih =>
    intro j σ fuel hjm hpre hij hfuel
    obtain ⟨fuel', rfl⟩ := Nat.exists_eq_add_of_le hfuel
    have hjn : j < n := by omega
    have ec := evalE_lt (evalE_var_int hij (by omega) (by omega)) (evalE_var_int hpre.dim (by omega) hn)
    have hd : decide ((j : Int) < (n : Int)) = true := by simp; omega
    rw [hd] at ec
    obtain ⟨σ1, r1, hs⟩ := body_runs (m + 1 + fuel') ofRat names he hn hpre j hjn hij (hfin j hjn)
    have hpre1 := hpre.step names hs
    obtain ⟨σ', r2, hp⟩ := ih (j + 1) σ1 (m + 1 + fuel') (by omega) hpre1 hs.idx (by omega)
    refine ⟨σ', ?_, Post.step hjn ?_ hs hp⟩
    · have := RunsI.loop_true ec (RunsI.block r1) r2
      rw [show m + 1 + 1 + fuel' = m + 1 + fuel' + 1 by omega]
      simpa [loopStmt] using this
    · intro blk hb
      obtain ⟨blk0, hb0, _, _, _, hlen⟩ := hpre.outBlk
      rw [hb] at hb0; cases hb0; exact hlen

/-- **the lowered loop** `int i = 0; while (i < i_dim) { … }` -/
theorem loopLines_runs (ofRat : Rat → F) {i : String} {outT : TensorId} {e : IdExpr}
    (names : Names i outT e) (he : isExpr i e = true)
    {n ob : Nat} {blkOf : String → Nat} {cellsOf : String → Nat → F}
    (hn : (n : Int) < 2147483648)
    (hfin : ∀ j, j < n → allFinite ofRat (rhoAt cellsOf j) e = true)
    (σ : State F) (fuel : Nat) (hpre : Pre i outT e n ob blkOf cellsOf σ) (hfuel : n + 1 ≤ fuel) :
    ∃ σ', RunsLI fuel (loopLines ofRat i outT e) σ σ' n ∧ Post ofRat i outT e n ob cellsOf 0 σ σ' := by
  obtain ⟨σa, ra, hh, ht, ⟨r, hr1, hr2, hr3⟩, ho⟩ := runsI_declAssign (fuel := fuel) (x := i) (t := .int)
    (e := .intLit 0) (val' := .int 0) (hpre.scratch i (by simp [scratch]))
    (evalE_intLit (σ := σ) (by omega) (by omega)) rfl
  have hi : IntVar σa i ((0 : Nat) : Int) := ⟨r, hr1, hr2, hr3⟩
  have hdi : dimName i ≠ i := fun h => names.dim (by rw [h]; simp [scratch])
  have hvi : ∀ t ∈ outT :: leaves e, valsName t.name ≠ i :=
    fun t ht h => names.vals t ht (by rw [h]; simp [scratch])
  have hprea : Pre i outT e n ob blkOf cellsOf σa := by
    refine ⟨hpre.dim.congr (ho _ hdi), hpre.out.congr (ho _ (hvi outT (by simp))), ?_, ?_, ?_⟩
    · rw [hh]; exact hpre.outBlk
    · intro t ht
      obtain ⟨hptr, rest⟩ := hpre.ins t ht
      rw [hh]
      exact ⟨hptr.congr (ho _ (hvi t (by simp [ht]))), rest⟩
    · intro x hx r' hr'
      by_cases hxi : x = i
      · subst hxi; exact intVar_ty_int hi r' hr'
      · rw [ho x hxi] at hr'; exact hpre.scratch x hx r' hr'
  obtain ⟨σ', rl, hp⟩ := loop_runs ofRat names he hn hfin n 0 σa fuel (by omega) hprea hi hfuel
  refine ⟨σ', ?_, ?_⟩
  · have := RunsLI.cons ra (RunsLI.cons rl (RunsLI.nil _ _))
    simpa [loopLines, declAssignE] using this
  · obtain ⟨p1, p2, p3, p4, p5, p6⟩ := hp
    rw [hh] at p2 p3 p4
    refine ⟨p1.trans ht, p2, p3, p4, ?_, p6⟩
    intro y hy
    rw [p5 y hy, ho y (fun h => hy (by rw [h]; simp [scratch]))]

/-! ### names -/

theorem mem_underscore_ptrName (t : TensorId) : '_' ∈ (ptrName t).toList := by
  simp [ptrName, layerPointer, String.toList_append]

theorem getLast?_dimName (i : String) : (dimName i).toList.getLast? = some 'm' := by
  simp only [dimName, String.toList_append, List.getLast?_append]; rfl

theorem getLast?_valsName (t : String) : (valsName t).toList.getLast? = some 's' := by
  simp only [valsName, String.toList_append, List.getLast?_append]; rfl

theorem ptrName_ne_of_getLast? (t : TensorId) {s : String} {c : Char}
    (hs : s.toList.getLast? = some c) (hc : c.isDigit = false) : s ≠ ptrName t := by
  obtain ⟨ch, h, hd⟩ := layerPointer_getLast? t.id 0
  intro e
  rw [e] at hs
  unfold ptrName at hs
  rw [h] at hs; cases hs
  rw [hd] at hc; cases hc

/-- **names.** An index name without `'_'` (every name the parser admits is alphanumeric) makes all
the names of the loop distinct, whatever the tensors are. -/
theorem names_of_index (i : String) (outT : TensorId) (e : IdExpr) (h : '_' ∉ i.toList) :
    Names i outT e := by
  have hip : ∀ t : TensorId, i ≠ ptrName t := fun t => ne_of_underscore h (mem_underscore_ptrName t)
  refine ⟨?_, ?_, ?_⟩
  · intro hm
    obtain ⟨t, _, ht⟩ := List.mem_map.1 hm
    exact hip t ht.symm
  · intro hm
    rcases List.mem_cons.1 hm with hm | hm
    · exact ne_of_underscore h (by simp [dimName, String.toList_append]) hm.symm
    · obtain ⟨t, _, ht⟩ := List.mem_map.1 hm
      exact ptrName_ne_of_getLast? t (getLast?_dimName i) (by decide) ht.symm
  · intro t _ hm
    rcases List.mem_cons.1 hm with hm | hm
    · exact ne_of_underscore h (by simp [valsName, String.toList_append]) hm.symm
    · obtain ⟨t', _, ht⟩ := List.mem_map.1 hm
      exact ptrName_ne_of_getLast? t' (getLast?_valsName t.name) (by decide) ht.symm

end TV.Dense1
