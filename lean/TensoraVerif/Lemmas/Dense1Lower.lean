import TensoraVerif.Lemmas.Dense1Model
import TensoraVerif.Lemmas.LowerableComplete

/-!
C01 for dense element-wise vector kernels, part 2: what `lower` emits for the graphs of the class
(`lower` is defined by well-founded recursion; the equation is obtained by unfolding it once per node
and computing every case distinction of the pass on the class).
-/
namespace TV.Dense1
open TV.IR TV.Gen TV.Graph
variable {F : Type}

theorem isLeaf_iff (i : String) (t : TensorId) :
    isLeaf i t = true ↔ t.indexes = [i] ∧ t.modes = [.dense] := by
  simp [isLeaf]

theorem isExpr_mem {i : String} {e : IdExpr} (h : isExpr i e = true) :
    ∀ t ∈ leaves e, isLeaf i t = true := fun t ht => List.all_eq_true.1 h t ht

/-- the loop context of a right-hand side of the class: no sparse leaf, one dense leaf per tensor
occurrence -/
theorem extractContext_eq (i : String) (e : IdExpr) (h : isExpr i e = true) :
    (extractContext e i).sparseLeaves = [] ∧
    (extractContext e i).denseLeaves = (leaves e).map (fun t => ⟨t, 0⟩) := by
  induction e with
  | int v => simp [extractContext, leaves]
  | flt v => simp [extractContext, leaves]
  | tensor t =>
    simp only [isExpr, leaves, List.all_cons, List.all_nil, Bool.and_true, isLeaf_iff] at h
    simp [extractContext, leaves, h.1, h.2]
  | add l r ihl ihr =>
    simp only [isExpr, leaves, List.all_append, Bool.and_eq_true] at h
    simp [extractContext, Context.add, leaves, ihl h.1, ihr h.2]
  | mul l r ihl ihr =>
    simp only [isExpr, leaves, List.all_append, Bool.and_eq_true] at h
    simp [extractContext, Context.mul, leaves, ihl h.1, ihr h.2]

/-- no compressed dimension: the lattice of sub-graphs is the graph itself -/
theorem generateSubgraphs_eq (i : String) (outT : TensorId) (e : IdExpr) (h : isExpr i e = true) :
    generateSubgraphs (graph i outT e) = [graph i outT e] := by
  have hc : compressedDims (graph i outT e) = [] := by
    simp [compressedDims, graph, nodeContext, IGraph.context, (extractContext_eq i e h).1, dedupStr]
  simp [generateSubgraphs, hc, generateSubgraphs.go, sortByLenDesc]

theorem lower_terminal_eq (ofRat : Rat → F) (n : Nat) (outT : TensorId) (e : IdExpr)
    (hm : outT.modes = [.dense]) (hi : outT.indexes.length = 1) :
    lower ofRat (n + 1) (.terminal e) (.append outT 1) .evaluate =
      .ok ⟨some "*** Computation of expression ***", [storeStmt ofRat outT e]⟩ := by
  unfold lower
  have hw : (Output.append outT 1).writtenFlags = [] := by
    simp [Output.writtenFlags, Output.tensor, hm, List.range, List.range.loop]
  simp [Kind.isCompute, hw, Output.writeAssignment, hi, SB.mk', SB.append, SB.add, SB.empty,
    storeStmt, prevLayerPointer, bind, Except.bind, pure, Except.pure]

theorem layersToWrite_eq (i : String) (t : TensorId) (h : isLeaf i t = true) :
    layersToWrite ⟨t, 0⟩ i [i] = [⟨t, 0⟩] := by
  rw [isLeaf_iff] at h
  simp [layersToWrite, h.1, h.2, List.range, List.range.loop]

theorem foldl_ptrDecls (i : String) (ls : List TensorId) (hl : ∀ t ∈ ls, isLeaf i t = true) :
    ∀ (body : SB F),
    (ls.map (fun t => (⟨t, 0⟩ : Leaf))).foldl (fun body leaf =>
        (layersToWrite leaf i [i]).foldl (fun body layer =>
          let idxI := layer.index
          body.add (declAssignE layer.ptr .int
            (plus (times layer.prevPtr (.var (dimName idxI))) (.var idxI)))) body) body
      = ⟨body.comment, body.lines ++ ls.map (ptrDecl i)⟩ := by
  induction ls with
  | nil => intro body; simp
  | cons t ts ih =>
    intro body
    have ht := hl t (by simp)
    rw [List.map_cons, List.foldl_cons, layersToWrite_eq i t ht, ih (fun x hx => hl x (by simp [hx]))]
    rw [isLeaf_iff] at ht
    simp [SB.add, ptrDecl, Leaf.index, Leaf.ptr, Leaf.prevPtr, prevLayerPointer, ht.1]

/-- **What `lower` emits on the class**: `int i = 0; while (i < i_dim) { … }` (`loopLines`). -/
theorem lower_eq (ofRat : Rat → F) (n : Nat) (i : String) (outT : TensorId) (e : IdExpr)
    (ho : isLeaf i outT = true) (he : isExpr i e = true) :
    lower ofRat (n + 2) (graph i outT e) (.append outT 0) .evaluate =
      .ok ⟨some ("*** Iteration over " ++ i ++ " ***"), loopLines ofRat i outT e⟩ := by
  have ho' := (isLeaf_iff i outT).1 ho
  have hctx := extractContext_eq i e he
  have hsub := generateSubgraphs_eq i outT e he
  unfold graph at hsub ⊢
  unfold lower
  simp only [Kind.isCompute, Bool.not_true, Bool.false_and, Bool.false_eq_true, if_false]
  have hso : isSparseOutput (IGraph.iter i (some { tensor := outT, layer := 0 }) (IGraph.terminal e)) = false := by
    simp [isSparseOutput, Leaf.mode, ho'.2]
  have hmode : ({ tensor := outT, layer := 0 } : Leaf).mode = Mode.dense := by simp [Leaf.mode, ho'.2]
  have hnext : ((Output.append outT 0).next (some 0) Kind.evaluate : Except GenErr (Output × SB F)) =
      .ok (.append outT 1, SB.empty) := by simp [Output.next]
  have hnc : nodeContext (IGraph.iter i (some { tensor := outT, layer := 0 }) (IGraph.terminal e)) =
      extractContext e i := by
    simp [nodeContext, IGraph.context]
  have hlater : (IGraph.iter i (some { tensor := outT, layer := 0 }) (IGraph.terminal e)).laterIndexes = [i] := by
    simp [IGraph.laterIndexes]
  have hterm := lower_terminal_eq ofRat n outT e ho'.2 (by rw [ho'.1]; rfl)
  simp only [hso, hmode, Option.map_some, hnext, hsub, hnc, hctx.1, hctx.2, hlater, hterm,
    Bool.and_false, Bool.or_false, Bool.false_and, Bool.false_eq_true, if_false, if_true,
    List.foldlM_cons, List.foldlM_nil, bind, Except.bind, pure, Except.pure,
    List.isEmpty_nil, Bool.not_true, Option.isNone_some, Bool.not_false, List.foldl_nil, beq_self_eq_true,
    List.map_nil, List.nil_append]
  have hall : ∀ t ∈ outT :: leaves e, isLeaf i t = true := by
    intro t ht
    rcases List.mem_cons.1 ht with rfl | ht
    · exact ho
    · exact isExpr_mem he t ht
  have hfold := foldl_ptrDecls (F := F) i (outT :: leaves e) hall SB.empty
  rw [List.map_cons] at hfold
  rw [List.singleton_append, hfold]
  simp [SB.mk', SB.append, SB.empty, SB.add, SB.loop, SB.finalize, branchJoin, andJoin, joinWith,
    loopLines, loopStmt, loopBody]

end TV.Dense1
