import TensoraVerif.Model.GenerateIR
import TensoraVerif.Model.Machine

/-!
C01 for dense element-wise vector kernels, part 1: definitions.

* `Dense1.leaves`, `Dense1.isExpr`: the class of right-hand sides (every tensor leaf is an order-1
  tensor indexed by the loop index and stored densely);
* `Dense1.valueF`, `Dense1.allFinite`: the meaning of an identifiable expression in the float
  carrier (with the association of the tree), and "every sub-result is finite";
* `Dense1.loopLines`: the loop that `lower` emits for the graphs of the class, written out.
-/
namespace TV.Dense1
open TV.IR TV.Gen TV.Graph

variable {F : Type} [FloatOps F]

/-- the tensor occurrences of an identifiable expression, left to right -/
def leaves : IdExpr → List TensorId
  | .int _ => []
  | .flt _ => []
  | .tensor t => [t]
  | .add l r => leaves l ++ leaves r
  | .mul l r => leaves l ++ leaves r

/-- an order-1 tensor indexed by `i` and stored densely -/
def isLeaf (i : String) (t : TensorId) : Bool := t.indexes == [i] && t.modes == [Mode.dense]

/-- every tensor leaf of `e` is an order-1 dense tensor indexed by `i` -/
def isExpr (i : String) (e : IdExpr) : Bool := (leaves e).all (isLeaf i)

/-- the iteration graph of a dense element-wise vector assignment `out(i) = e` -/
def graph (i : String) (outT : TensorId) (e : IdExpr) : IGraph :=
  .iter i (some ⟨outT, 0⟩) (.terminal e)

/-- meaning of `e` in the float carrier: literals through `ofRat`, tensor leaves through `ρ`,
sums and products with the association of the tree -/
def valueF (ofRat : Rat → F) (ρ : TensorId → F) : IdExpr → F
  | .int v => ofRat v
  | .flt q => ofRat q
  | .tensor t => ρ t
  | .add l r => FloatOps.add (valueF ofRat ρ l) (valueF ofRat ρ r)
  | .mul l r => FloatOps.mul (valueF ofRat ρ l) (valueF ofRat ρ r)

/-- every sub-result of the evaluation of `e` (literals and leaves included) is finite -/
def allFinite (ofRat : Rat → F) (ρ : TensorId → F) : IdExpr → Bool
  | .int v => FloatOps.finite (ofRat v)
  | .flt q => FloatOps.finite (ofRat q)
  | .tensor t => FloatOps.finite (ρ t)
  | .add l r => allFinite ofRat ρ l && allFinite ofRat ρ r &&
      FloatOps.finite (FloatOps.add (valueF ofRat ρ l) (valueF ofRat ρ r))
  | .mul l r => allFinite ofRat ρ l && allFinite ofRat ρ r &&
      FloatOps.finite (FloatOps.mul (valueF ofRat ρ l) (valueF ofRat ρ r))

/-! ### the emitted loop -/

/-- `int p_<id>_0 = 0 * i_dim + i;` -/
def ptrDecl (i : String) (t : TensorId) : Stmt F :=
  declAssignE (layerPointer t.id 0) .int
    (plus (times (.intLit 0) (.var (dimName i))) (.var i))

/-- `out_vals[p_<out>_0] = <e>;` -/
def storeStmt (ofRat : Rat → F) (outT : TensorId) (e : IdExpr) : Stmt F :=
  .assign (.idx (.var (valsName outT.name)) (.var (layerPointer outT.id 0))) (toIrWith ofRat e)

/-- the loop body -/
def loopBody (ofRat : Rat → F) (i : String) (outT : TensorId) (e : IdExpr) : List (Stmt F) :=
  (outT :: leaves e).map (ptrDecl i) ++
  [.branch (.boolLit true)
      (.block [.block [storeStmt ofRat outT e] (some "*** Computation of expression ***")] none)
      (.block [] none),
   increment (.var i) (.intLit 1)]

/-- `while (i < i_dim) { … }` -/
def loopStmt (ofRat : Rat → F) (i : String) (outT : TensorId) (e : IdExpr) : Stmt F :=
  .loop (.bin .lt (.var i) (.var (dimName i))) (.block (loopBody ofRat i outT e) none)

/-- `int i = 0; while (i < i_dim) { … }` -/
def loopLines (ofRat : Rat → F) (i : String) (outT : TensorId) (e : IdExpr) : List (Stmt F) :=
  [declAssignE i .int (.intLit 0), loopStmt ofRat i outT e]

end TV.Dense1
