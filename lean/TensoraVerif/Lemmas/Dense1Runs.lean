import TensoraVerif.Lemmas.Dense1Spec
import TensoraVerif.Lemmas.FrameFuel

/-!
C01 for dense element-wise vector kernels, part 4: composition rules for `RunsI` / `RunsLI`
(sequence, block, branch, loop unfolding, fuel monotonicity) and the declaration statement.
-/

namespace TV.Dense1
open TV.IR TV.Gen TV.Graph TV.Growth
set_option linter.unusedSectionVars false
variable {F : Type} [FloatOps F]

/-! ### composition rules -/

theorem RunsLI.nil (fuel : Nat) (σ : State F) : RunsLI fuel [] σ σ 0 :=
  ⟨⟨σ, none, 0, 0⟩, by rw [execL.eq_1], rfl, rfl, rfl⟩

theorem RunsLI.cons {fuel : Nat} {s : Stmt F} {ss : List (Stmt F)} {σ σ1 σ2 : State F} {k1 k2 : Nat}
    (h1 : RunsI fuel s σ σ1 k1) (h2 : RunsLI fuel ss σ1 σ2 k2) : RunsLI fuel (s :: ss) σ σ2 (k1 + k2) := by
  obtain ⟨o1, e1, r1, s1, i1⟩ := h1
  obtain ⟨o2, e2, r2, s2, i2⟩ := h2
  subst s1
  refine ⟨o1.seq o2, ?_, r2, s2, by simp [Out.seq, i1, i2]⟩
  rw [execL.eq_2, e1]
  simp only [bind, Except.bind, r1, e2]

theorem RunsLI.append {fuel : Nat} {ss ts : List (Stmt F)} {σ σ1 σ2 : State F} {k1 k2 : Nat}
    (h1 : RunsLI fuel ss σ σ1 k1) (h2 : RunsLI fuel ts σ1 σ2 k2) :
    RunsLI fuel (ss ++ ts) σ σ2 (k1 + k2) := by
  induction ss generalizing σ k1 with
  | nil =>
    obtain ⟨o, e, _, s, i⟩ := h1
    rw [execL.eq_1] at e; cases e; cases s; cases i
    simpa using h2
  | cons s ss ih =>
    obtain ⟨o, e, r, st, it⟩ := h1
    rw [execL.eq_2] at e
    obtain ⟨o1, e1, e⟩ := Frame.bind_ok e
    cases hr : o1.ret with
    | some x => simp only [hr] at e; cases e; rw [hr] at r; cases r
    | none =>
      simp only [hr] at e
      obtain ⟨o2, e2, e⟩ := Frame.bind_ok e
      cases e
      have := RunsLI.cons ⟨o1, e1, hr, rfl, rfl⟩ (ih ⟨o2, e2, r, st, rfl⟩)
      simp only [Out.seq] at it
      rw [← it, Nat.add_assoc]
      exact this

theorem RunsI.block {fuel : Nat} {ss : List (Stmt F)} {c : Option String} {σ σ' : State F} {k : Nat}
    (h : RunsLI fuel ss σ σ' k) : RunsI fuel (.block ss c) σ σ' k := by
  obtain ⟨o, e, r, s, i⟩ := h
  exact ⟨o, by rw [exec.eq_5]; exact e, r, s, i⟩

theorem RunsI.branch_true {fuel : Nat} {c : Expr F} {t f : Stmt F} {σ σ' : State F} {k : Nat}
    (hc : evalE σ c = .ok (.bool true)) (h : RunsI fuel t σ σ' k) : RunsI fuel (.branch c t f) σ σ' k := by
  obtain ⟨o, e, r, s, i⟩ := h
  refine ⟨{ o with steps := o.steps + 1 }, ?_, r, s, i⟩
  rw [exec.eq_6, hc]
  simp only [bind, Except.bind, e]

theorem RunsI.of_assign {fuel : Nat} {t v : Expr F} {σ σ' : State F}
    (h : Runs fuel (.assign t v) σ σ') : RunsI fuel (.assign t v) σ σ' 0 := by
  obtain ⟨o, e, r, s⟩ := h
  refine ⟨o, e, r, s, ?_⟩
  rw [exec.eq_3] at e
  obtain ⟨⟨σ1, val⟩, _, e⟩ := Frame.bind_ok e
  obtain ⟨loc, _, e⟩ := Frame.bind_ok e
  obtain ⟨σ2, _, e⟩ := Frame.bind_ok e
  cases e; rfl

theorem RunsI.loop_false {fuel : Nat} {c : Expr F} {b : Stmt F} {σ : State F}
    (hc : evalE σ c = .ok (.bool false)) : RunsI (fuel + 1) (.loop c b) σ σ 0 := by
  refine ⟨⟨σ, none, 0, 1⟩, ?_, rfl, rfl, rfl⟩
  rw [exec.eq_8, hc]; rfl

theorem RunsI.loop_true {fuel : Nat} {c : Expr F} {b : Stmt F} {σ σ1 σ2 : State F} {k1 k2 : Nat}
    (hc : evalE σ c = .ok (.bool true)) (h1 : RunsI fuel b σ σ1 k1)
    (h2 : RunsI fuel (.loop c b) σ1 σ2 k2) : RunsI (fuel + 1) (.loop c b) σ σ2 (k1 + k2 + 1) := by
  obtain ⟨o1, e1, r1, s1, i1⟩ := h1
  obtain ⟨o2, e2, r2, s2, i2⟩ := h2
  subst s1
  refine ⟨⟨o2.st, o2.ret, o1.iters + o2.iters + 1, o1.steps + o2.steps + 1⟩, ?_, r2, s2, by simp [i1, i2]⟩
  rw [exec.eq_8, hc]
  simp only [bind, Except.bind, e1, r1, e2]

/-- a successful run does not depend on the fuel bound -/
theorem RunsI.mono {fuel fuel' : Nat} {s : Stmt F} {σ σ' : State F} {k : Nat}
    (h : RunsI fuel s σ σ' k) (hf : fuel ≤ fuel') : RunsI fuel' s σ σ' k := by
  obtain ⟨o, e, r⟩ := h
  obtain ⟨d, rfl⟩ := Nat.exists_eq_add_of_le hf
  exact ⟨o, exec_mono d fuel s σ o e, r⟩

/-! ### declarations -/

theorem declare_spec (σ : State F) (x : String) (t : Ty) (v : Option (Val F))
    (h : ∀ r, lookupVar σ.vars x = some r → r.ty = t) :
    ∃ σ', declare σ x t v = .ok σ' ∧ σ'.heap = σ.heap ∧ σ'.tensors = σ.tensors ∧
      (∃ r, lookupVar σ'.vars x = some r ∧ r.ty = t ∧ r.val = v) ∧
      ∀ y, y ≠ x → lookupVar σ'.vars y = lookupVar σ.vars y := by
  cases hl : lookupVar σ.vars x with
  | none =>
    refine ⟨{ σ with vars := σ.vars ++ [⟨x, t, v⟩] }, by simp only [declare, hl], rfl, rfl,
      ⟨⟨x, t, v⟩, lookupVar_append_fresh (r := ⟨x, t, v⟩) hl, rfl, rfl⟩,
      fun y hy => lookupVar_append_other (r := ⟨x, t, v⟩) hy⟩
  | some r =>
    have ht := h r hl
    refine ⟨{ σ with vars := setVarOpt σ.vars x v }, by simp only [declare, hl, ht, if_true], rfl, rfl,
      ⟨{ r with val := v }, lookupVar_setVarOpt_same v hl, ht, rfl⟩,
      fun y hy => lookupVar_setVarOpt_other v hy⟩

/-- `T x = e;` for a variable that is undeclared or declared with the same type -/
theorem runsI_declAssign {fuel : Nat} {x : String} {t : Ty} {e : Expr F} {σ : State F} {val val' : Val F}
    (hx : ∀ r, lookupVar σ.vars x = some r → r.ty = t) (he : evalE σ e = .ok val)
    (hconv : convTo t val = .ok val') :
    ∃ σ', RunsI fuel (.declAssign x t e) σ σ' 0 ∧ σ'.heap = σ.heap ∧ σ'.tensors = σ.tensors ∧
      (∃ r, lookupVar σ'.vars x = some r ∧ r.ty = t ∧ r.val = some val') ∧
      ∀ y, y ≠ x → lookupVar σ'.vars y = lookupVar σ.vars y := by
  obtain ⟨σ', hd, h1, h2, h3, h4⟩ := declare_spec σ x t (some val') hx
  refine ⟨σ', ⟨⟨σ', none, 0, 1⟩, ?_, rfl, rfl, rfl⟩, h1, h2, h3, h4⟩
  rw [exec.eq_4, evalRhs_of_ok he]
  simp [bind, Except.bind, hconv, hd]

end TV.Dense1
