import TensoraVerif.Lemmas.Dense1Model
import TensoraVerif.Lemmas.GrowthAppend

/-!
C01 for dense element-wise vector kernels, part 3: the specification vocabulary — variable names
the loop uses as scratch, the precondition `Pre` of the loop, the postcondition `Post`, and the
`RunsI` / `RunsLI` form of `exec` / `execL` (no error, no return, final state, iteration count).
-/
namespace TV.Dense1
open TV.IR TV.Gen TV.Graph TV.Growth

variable {F : Type} [FloatOps F]

/-- the cursor `p_<id>_0` of an order-1 tensor -/
def ptrName (t : TensorId) : String := layerPointer t.id 0

/-- the cursors the loop declares: output first, then one per tensor occurrence -/
def ptrNames (outT : TensorId) (e : IdExpr) : List String := (outT :: leaves e).map ptrName

/-- the variables the loop writes: the loop index and the cursors -/
def scratch (i : String) (outT : TensorId) (e : IdExpr) : List String := i :: ptrNames outT e

/-- the names that must be distinct: the loop index is not a cursor, and neither `i_dim` nor any
`<t>_vals` is written by the loop (`names_of_index`: true as soon as `i` contains no `'_'`) -/
structure Names (i : String) (outT : TensorId) (e : IdExpr) : Prop where
  idx : i ∉ ptrNames outT e
  dim : dimName i ∉ scratch i outT e
  vals : ∀ t ∈ outT :: leaves e, valsName t.name ∉ scratch i outT e

/-- the value of tensor occurrence `t` at coordinate `j` when array `<name>_vals` holds `cellsOf name` -/
def rhoAt (cellsOf : String → Nat → F) (j : Nat) : TensorId → F := fun t => cellsOf t.name j

/-- **Precondition of the loop.** `i_dim` holds `n`; `<out>_vals` points to the live, output-owned
float block `ob` of at least `n` cells; every `<t>_vals` of a tensor occurrence points to a live
float block (`blkOf t.name`, different from `ob`) whose first `n` cells are initialised with the
floats `cellsOf t.name`; the scratch variables are undeclared or declared `int`. -/
structure Pre (i : String) (outT : TensorId) (e : IdExpr) (n : Nat) (ob : Nat) (blkOf : String → Nat)
    (cellsOf : String → Nat → F) (σ : State F) : Prop where
  dim : IntVar σ (dimName i) n
  out : PtrVar σ (valsName outT.name) ob
  outBlk : ∃ blk, σ.heap[ob]? = some blk ∧ blk.live = true ∧ blk.owner = .output ∧ blk.ty = .float ∧
    n ≤ blk.cells.length
  ins : ∀ t ∈ leaves e, PtrVar σ (valsName t.name) (blkOf t.name) ∧ blkOf t.name ≠ ob ∧
    ∃ blk, σ.heap[blkOf t.name]? = some blk ∧ blk.live = true ∧ blk.ty = .float ∧
      ∀ j, j < n → blk.cells[j]? = some (some (.flt (cellsOf t.name j)))
  scratch : ∀ x ∈ scratch i outT e, ∀ r, lookupVar σ.vars x = some r → r.ty = .int

/-- **Postcondition of the loop** run from `σ` (with the loop index at `j0`) to `σ'`: cells
`j0 ≤ j < n` of the output block hold the float meaning of `e` at coordinate `j`, every other cell
of it is unchanged, every other block, every tensor record and every non-scratch variable is
unchanged, and the loop index ends at `n`. -/
structure Post (ofRat : Rat → F) (i : String) (outT : TensorId) (e : IdExpr) (n : Nat) (ob : Nat)
    (cellsOf : String → Nat → F) (j0 : Nat) (σ σ' : State F) : Prop where
  tensors : σ'.tensors = σ.tensors
  heapLen : σ'.heap.length = σ.heap.length
  heap : ∀ b, b ≠ ob → σ'.heap[b]? = σ.heap[b]?
  outBlk : ∃ blk blk', σ.heap[ob]? = some blk ∧ σ'.heap[ob]? = some blk' ∧
    blk'.live = true ∧ blk'.owner = .output ∧ blk'.ty = .float ∧ blk'.cells.length = blk.cells.length ∧
    (∀ j, j0 ≤ j → j < n → blk'.cells[j]? = some (some (.flt (valueF ofRat (rhoAt cellsOf j) e)))) ∧
    (∀ j, (j < j0 ∨ n ≤ j) → blk'.cells[j]? = blk.cells[j]?)
  vars : ∀ y, y ∉ scratch i outT e → lookupVar σ'.vars y = lookupVar σ.vars y
  idx : IntVar σ' i n

/-! ### runs with iteration count -/

/-- `s` runs from `σ` without error, does not return, ends in `σ'` after `k` loop iterations -/
def RunsI (fuel : Nat) (s : Stmt F) (σ σ' : State F) (k : Nat) : Prop :=
  ∃ o, exec fuel s σ = .ok o ∧ o.ret = none ∧ o.st = σ' ∧ o.iters = k

def RunsLI (fuel : Nat) (ss : List (Stmt F)) (σ σ' : State F) (k : Nat) : Prop :=
  ∃ o, execL fuel ss σ = .ok o ∧ o.ret = none ∧ o.st = σ' ∧ o.iters = k

end TV.Dense1
