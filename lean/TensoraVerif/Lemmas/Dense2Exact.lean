import TensoraVerif.Lemmas.Dense2KernelRuns
import TensoraVerif.Lemmas.Dense1Exact

/-!
C01 for dense kernels with one contraction, part 13 (U4): the exact carrier. Over `Rat` the sum in
loop order is `Alg.sumRange` of `Graph.value`; for the matrix–vector assignment it is `Alg.denote`.
Also the dimension variables of the matrix–vector assignment (`indexDimensions_matvec`).
-/
namespace TV.Dense2
open TV.IR TV.Gen TV.Graph
open TV.Dense1 (leaves valueF allFinite ratFloatOps)

/-- the dimension variables of `a(i) = Σ_j B(i,j) * c(j)`: `i_dim` from `a`, `j_dim` from dimension 1
of `B` -/
theorem indexDimensions_matvec (an Bn cn i j : String) (hij : i ≠ j) (k1 k2 : Nat) :
    indexDimensions ⟨an, [i], .contract j (.mul (.tensor k1 Bn [i, j]) (.tensor k2 cn [j]))⟩ =
      [(i, an, 0), (j, Bn, 1)] := by
  simp [indexDimensions, indexDimensions.go, List.range, List.range.loop, hij]

theorem sumRange_succ (k : Nat) (f : Nat → Rat) :
    Alg.sumRange (k + 1) f = Alg.sumRange k f + f k := by
  simp [Alg.sumRange, List.range_succ]

theorem sumRange_congr (k : Nat) (f g : Nat → Rat) (h : ∀ v, v < k → f v = g v) :
    Alg.sumRange k f = Alg.sumRange k g := by
  induction k with
  | zero => rfl
  | succ k ih =>
    rw [sumRange_succ, sumRange_succ, ih (fun v hv => h v (by omega)), h k (by omega)]

/-- over the exact carrier the sum in loop order is `Alg.sumRange` -/
theorem dotF_rat (i j : String) (m : Nat) (cellsOf : String → Nat → Rat) (e : IdExpr) (ii k : Nat) :
    dotF (F := Rat) id i j m cellsOf e ii k =
      Alg.sumRange k (fun jj => termF id i j m cellsOf e ii jj) := by
  induction k with
  | zero => rfl
  | succ k ih => rw [sumRange_succ, ← ih]; rfl

/-- over the exact carrier nothing can be non-finite -/
theorem stepFinite_rat (ofRat : Rat → Rat) (i j : String) (m : Nat) (cellsOf : String → Nat → Rat)
    (e : IdExpr) (ii jj : Nat) : stepFinite (F := Rat) ofRat i j m cellsOf e ii jj = true := by
  simp only [stepFinite, Dense1.allFinite_rat, Bool.true_and]
  rfl

/-- on a carrier where every value is finite, every check passes -/
theorem stepFinite_of_total {F : Type} [FloatOps F] (h : ∀ x : F, FloatOps.finite x = true)
    (ofRat : Rat → F) (i j : String) (m : Nat) (cellsOf : String → Nat → F)
    (e : IdExpr) (ii jj : Nat) : stepFinite ofRat i j m cellsOf e ii jj = true := by
  simp only [stepFinite, Dense1.allFinite_of_total h, h, Bool.true_and]

/-- over the exact carrier the terminal expression at `(ii, jj)` is `Graph.value` -/
theorem termF_rat (i j : String) (m : Nat) (cellsOf : String → Nat → Rat) (e : IdExpr) (ii jj : Nat)
    (ρ : String → Rat) (hρ : ∀ t ∈ leaves e, ρ t.id = cellsOf t.name (cellIx i j m ii jj t)) :
    termF (F := Rat) id i j m cellsOf e ii jj = value ρ e := by
  unfold termF
  rw [← Dense1.valueF_rat ρ e]
  exact Dense1.valueF_congr id _ _ e (fun t ht => (hρ t ht).symm)

/-- **the specification of the matrix–vector assignment** `a(i) = B(i,j) * c(j)` (C01's `denote`) is
the sum over `j` of the products -/
theorem denote_matvec (inputs : Alg.Inputs) (sizes : Alg.Sizes) (an Bn cn i j : String)
    (hij : i ≠ j) (ii : Nat) :
    Alg.denote ⟨an, [i], .mul (.tensor Bn [i, j]) (.tensor cn [j])⟩ inputs sizes [ii] =
      Alg.sumRange (sizes j) (fun v => inputs Bn [ii, v] * inputs cn [v]) := by
  simp [Alg.denote, Alg.termsOf, Alg.Term.mul, Alg.Term.indexes, Alg.dedup, Alg.sumOver,
    Alg.Term.val, Alg.Env.get, Alg.Env.set, Ne.symm hij]
  exact Rat.zero_add _

/-- the matrix–vector assignment desugars to the contraction whose graph is of the class -/
theorem desugar_matvec (an Bn cn i j : String) (hij : i ≠ j) :
    Alg.desugar ⟨an, [i], .mul (.tensor Bn [i, j]) (.tensor cn [j])⟩ =
      ⟨an, [i], .contract j (.mul (.tensor 1 Bn [i, j]) (.tensor 2 cn [j]))⟩ := by
  simp [Alg.desugar, Alg.desugarE, Alg.indexesOf, Alg.dedup, Alg.wrap, hij, Ne.symm hij]

/-! ### the matrix–vector product as a member of the class -/

/-- the terminal expression of the matrix–vector product -/
def matvecE (tB tC : TensorId) : IdExpr := .mul (.tensor tB) (.tensor tC)

theorem matvec_isExpr (i j : String) (tB tC : TensorId) (hB : isM i j tB = true) (hC : isJ j tC = true) :
    isExpr i j (matvecE tB tC) = true := by
  simp only [isExpr, matvecE, leaves, List.all_append, List.all_cons, List.all_nil, isLeaf, hB, hC]
  simp

theorem matvec_notSparse (i j : String) (hij : i ≠ j) (tB tC : TensorId) (hB : isM i j tB = true)
    (hC : isJ j tC = true) : (extractContext (matvecE tB tC) j).isSparse = false := by
  have h1 := (isM_iff i j tB).1 hB
  have h2 := (isJ_iff j tC).1 hC
  have hfi : List.findIdx? (fun x => x == j) [i, j] = some 1 := by simp [List.findIdx?_cons, hij]
  simp [matvecE, extractContext, Context.mul, h1.1, h1.2, h2.1, h2.2, hfi]

theorem matvec_idsOK (i j : String) (hij : i ≠ j) (tB tC : TensorId) (hB : isM i j tB = true)
    (hC : isJ j tC = true) (hne : tC.id ≠ tB.id) : idsOK i j (matvecE tB tC) = true := by
  have hBJ : isJ j tB = false := by
    have h := (isM_iff i j tB).1 hB
    simp [isJ, h.1]
  have hCI : hasI i j tC = false := by
    have h := (isJ_iff j tC).1 hC
    simp [hasI, isM, isI, h.1, Ne.symm hij]
  simp [idsOK, matvecE, leaves, hBJ, hCI, hne]

end TV.Dense2
