import TensoraVerif.Lemmas.Dense2LowerEq
import TensoraVerif.Lemmas.Dense1Generate

/-!
C01 for dense kernels with one contraction, part 10: what `generateIr` produces on the class — the
whole `evaluate` function, written out (`kernel`, `generateIr_eq`).
-/
namespace TV.Dense2
open TV.IR TV.Gen TV.Graph TV.Growth
open TV.Dense1 (leaves valueF allFinite ptrDecl ptrName)
set_option linter.unusedSectionVars false
variable {F : Type}

/-- all tensors of the format table are dense at every level (any order) -/
def denseFormats (formats : Formats) : Bool := formats.all fun f => f.2.1.all (· == Mode.dense)

theorem unpackDecls_eq (formats : Formats) (h : denseFormats formats = true) :
    (unpackDecls formats : List (Stmt F)) =
      formats.map fun f => declAssignE (valsName f.1) (.ptr .float) (.attr (.var f.1) "vals") := by
  induction formats with
  | nil => rfl
  | cons f fs ih =>
    obtain ⟨name, modes, ord⟩ := f
    simp only [denseFormats, List.all_cons, Bool.and_eq_true] at h
    have hm : ∀ k : Nat, modes[k]?.getD Mode.dense = Mode.dense := by
      intro k
      by_cases hk : k < modes.length
      · have := List.all_eq_true.1 h.1 modes[k] (List.getElem_mem hk)
        simp only [beq_iff_eq] at this
        simp [hk, this]
      · simp [List.getElem?_eq_none (Nat.le_of_not_lt hk)]
    have := ih (by simpa [denseFormats] using h.2)
    simp only [unpackDecls] at this ⊢
    rw [List.flatMap_cons, this]
    have hnil : ((List.range modes.length).flatMap fun k =>
        if modes.getD k Mode.dense == Mode.compressed then
          [declAssignE (F := F) (posName name k) (.ptr .int)
              (.idx (.idx (.attr (.var name) "indices") (.intLit k)) (.intLit 0)),
           declAssignE (crdName name k) (.ptr .int)
              (.idx (.idx (.attr (.var name) "indices") (.intLit k)) (.intLit 1))]
        else []) = [] := by
      rw [List.flatMap_eq_nil_iff]
      intro k _
      simp only [List.getD_eq_getElem?_getD, hm k]
      rfl
    simp only [hnil, List.nil_append, List.map_cons, List.singleton_append]

/-- the statements of the `evaluate` kernel of the class, before `return 0`; `j_dim` is read from
dimension `jd` of tensor `jt` (the first tensor of the right-hand side that mentions `j`) -/
def kernelStmts (ofRat : Rat → F) (formats : Formats) (i j : String) (jt : String) (jd : Nat)
    (outT : TensorId) (e : IdExpr) : List (Stmt F) :=
  [.block [declAssignE (dimName i) .int (.idx (.attr (.var outT.name) "dimensions") (.intLit 0)),
           declAssignE (dimName j) .int (.idx (.attr (.var jt) "dimensions") (.intLit jd))]
      (some "Extract dimensions"),
   .block (formats.map fun f => declAssignE (valsName f.1) (.ptr .float) (.attr (.var f.1) "vals"))
      (some "Unpack tensors"),
   .block [declAssignE (valsCapName outT.name) .int
        (.bin .mul (.intLit 1) (.idx (.attr (.var outT.name) "dimensions") (.intLit 0))),
      .assign (.var (valsName outT.name)) (.alloc .float (.var (valsCapName outT.name)))]
      (some "Output initialization"),
   .block (loopLines ofRat i j outT e) (some ("*** Iteration over " ++ i ++ " ***")),
   .block [.assign (.attr (.var outT.name) "vals") (.var (valsName outT.name))]
      (some ("Assembling output tensor " ++ outT.name))]

/-- the `evaluate` kernel of the class -/
def kernel (ofRat : Rat → F) (formats : Formats) (i j : String) (jt : String) (jd : Nat)
    (outT : TensorId) (e : IdExpr) : Func F :=
  ⟨"evaluate", formats.map fun f => (f.1, .ptr .tensor), .int,
    .block (kernelStmts ofRat formats i j jt jd outT e ++ [.ret (.intLit 0)]) none⟩

/-- **What `generateIr` produces on the class.** -/
theorem generateIr_eq (ofRat : Rat → F) (cap : Option Int) (a : Alg.DAssign) (formats : Formats)
    (i j : String) (hij : i ≠ j) (jt : String) (jd : Nat) (outT : TensorId) (e : IdExpr)
    (hout : tensorId 0 a.tname formats a.tidx = some outT) (hname : outT.name = a.tname)
    (ho : isI i outT = true) (he : isExpr i j e = true)
    (hsp : (extractContext e j).isSparse = false) (hf : denseFormats formats = true)
    (hd : indexDimensions a = [(i, a.tname, 0), (j, jt, jd)]) :
    generateIr ofRat cap a formats (graph i j outT e) .evaluate =
      .ok (kernel ofRat formats i j jt jd outT e) := by
  have ho' := (isI_iff i outT).1 ho
  have hsz : 4 * (graph i j outT e).size + 8 = 17 + 3 := by simp [graph, IGraph.size]
  have hu := unpackDecls_eq (F := F) formats hf
  unfold unpackDecls at hu
  unfold generateIr
  simp only [hout, Option.getD_some, hsz, lower_eq ofRat 17 i j hij outT e ho he hsp, hd,
    Dense1.appendDeclarations_eq1 cap outT ho'.2 (by rw [ho'.1]; rfl),
    Dense1.appendCleanup_eq1 outT ho'.2, hu]
  simp [bind, Except.bind, pure, Except.pure, kernel, kernelStmts, SB.add, SB.append, SB.empty,
    SB.finalize, Kind.name, hname]

end TV.Dense2
