import TensoraVerif.Lemmas.Dense2Steps
import TensoraVerif.Lemmas.Dense2Lower

/-!
C01 for dense kernels with one contraction, part 6: the inner loop on the machine — the cursor
declarations of the inner loop (`innerDecls_runs`), one iteration (`innerBody_runs`), the `while`
loop by induction on the remaining iterations (`innerLoop_runs`), and the whole block with the
bucket initialisation (`innerLines_runs`).
-/
namespace TV.Dense2
open TV.IR TV.Gen TV.Graph TV.Growth
open TV.ToIr hiding leaves valueF allFinite evalE_fadd evalE_fmul
open TV.Dense1 (leaves valueF allFinite ptrDecl ptrName RunsI RunsLI)
set_option linter.unusedSectionVars false
variable {F : Type} [FloatOps F]

theorem ne_of_not_mem_mem {a b : String} {l : List String} (ha : a ∉ l) (hb : b ∈ l) : a ≠ b :=
  fun h => ha (h ▸ hb)

theorem mem_innerCursor_cases {i j : String} {ls : List TensorId} {x : String}
    (h : x ∈ ls.flatMap (innerCursor i j)) :
    ∃ t ∈ ls, (isM i j t = true ∧ x = layerPointer t.id 1) ∨
      (isM i j t = false ∧ isJ j t = true ∧ x = ptrName t) := by
  obtain ⟨t, ht, hx⟩ := List.mem_flatMap.1 h
  refine ⟨t, ht, ?_⟩
  unfold innerCursor at hx
  by_cases h1 : isM i j t = true
  · simp only [h1, if_true, List.mem_singleton] at hx
    exact Or.inl ⟨h1, hx⟩
  · have h1' : isM i j t = false := by simpa using h1
    by_cases h2 : isJ j t = true
    · simp only [h1', h2, if_true, Bool.false_eq_true, if_false, List.mem_singleton] at hx
      exact Or.inr ⟨h1', h2, hx⟩
    · have h2' : isJ j t = false := by simpa using h2
      simp [h1', h2'] at hx

theorem innerCursor_mem_innerW {i j : String} {outT : TensorId} {e : IdExpr} {ls : List TensorId}
    (hsub : ∀ t ∈ ls, t ∈ leaves e) {x : String} (h : x ∈ ls.flatMap (innerCursor i j)) :
    x ∈ innerW i j outT e := by
  obtain ⟨t, ht, hx⟩ := List.mem_flatMap.1 h
  simp only [innerW, innerCursors, List.mem_cons]
  exact Or.inr (Or.inr (Or.inr (List.mem_flatMap.2 ⟨t, hsub t ht, hx⟩)))

theorem innerCursor_ne_bN {i j : String} {outT : TensorId} {e : IdExpr} (names : Names i j outT e)
    {x : String} (h : x ∈ innerCursors i j e) : x ≠ bN outT := by
  intro hb
  have hs : x ∈ scratch i j outT e :=
    mem_scratch_of_innerW (by simp only [innerW, List.mem_cons]; exact Or.inr (Or.inr (Or.inr h)))
  have := names.bNne x hs hb
  exact this (by simp only [List.mem_cons, List.mem_append]; exact Or.inr (Or.inr (Or.inr (Or.inr h))))

theorem isM_hasI {i j : String} {t : TensorId} (h : isM i j t = true) : hasI i j t = true := by
  simp [hasI, h]

theorem mem_outerPtrs {i j : String} {outT : TensorId} {e : IdExpr} {t : TensorId}
    (ht : t ∈ leaves e) (h : hasI i j t = true) : t ∈ outerPtrs i j outT e := by
  simp only [outerPtrs, List.mem_cons, List.mem_filter]
  exact Or.inr ⟨ht, h⟩

/-- the cursor declarations of the inner loop: the cursor of every `[i,j]` leaf holds
`ii * m + jj`, the cursor of every `[j]` leaf holds `jj`, nothing else changes -/
theorem innerDecls_runs {i j : String} {outT : TensorId} {e : IdExpr} {n m ob : Nat}
    {blkOf : String → Nat} {cellsOf : String → Nat → F}
    (names : Names i j outT e) (fuel : Nat) (ii jj : Nat)
    (hb : ((ii * m + jj : Nat) : Int) < 2147483648) (hm : (m : Int) < 2147483648)
    (hi : (ii : Int) < 2147483648) (ls : List TensorId) :
    ∀ (σ : State F), (∀ t ∈ ls, t ∈ leaves e) → Env i j outT e n m ob blkOf cellsOf σ →
      IntVar σ j jj → (∀ t ∈ ls, isM i j t = true → IntVar σ (ptrName t) ii) →
      ∃ σ', RunsLI fuel (ls.flatMap (innerDecl i j)) σ σ' 0 ∧ σ'.heap = σ.heap ∧
        Env i j outT e n m ob blkOf cellsOf σ' ∧ Frame (ls.flatMap (innerCursor i j)) ob σ σ' ∧
        (∀ t ∈ ls, isM i j t = true → IntVar σ' (layerPointer t.id 1) ((ii * m + jj : Nat) : Int)) ∧
        (∀ t ∈ ls, isM i j t = false → isJ j t = true → IntVar σ' (ptrName t) jj) := by
  induction ls with
  | nil =>
    intro σ _ henv _ _
    exact ⟨σ, Dense1.RunsLI.nil _ _, rfl, henv, Frame.refl _ _ _, (fun t ht => by cases ht),
      (fun t ht => by cases ht)⟩
  | cons t ts ih =>
    intro σ hsub henv hj hM
    have htl : t ∈ leaves e := hsub t (by simp)
    have hsub' : ∀ t' ∈ ts, t' ∈ leaves e := fun t' h => hsub t' (by simp [h])
    have hjI : (jj : Int) < 2147483648 := by
      have : jj ≤ ii * m + jj := Nat.le_add_left _ _
      omega
    have himI : ((ii * m : Nat) : Int) < 2147483648 := by
      have : ii * m ≤ ii * m + jj := Nat.le_add_right _ _
      omega
    by_cases h1 : isM i j t = true
    · -- int p_1 = p_0 * j_dim + j
      have hxc : layerPointer t.id 1 ∈ innerCursors i j e :=
        List.mem_flatMap.2 ⟨t, htl, by simp [innerCursor, h1]⟩
      have hxW : layerPointer t.id 1 ∈ (t :: ts).flatMap (innerCursor i j) :=
        List.mem_flatMap.2 ⟨t, by simp, by simp [innerCursor, h1]⟩
      have hp0 := hM t (by simp) h1
      have ev : evalE σ (plus (times (.var (layerPointer t.id 0)) (.var (dimName j))) (.var j)) =
          .ok (.int ((ii : Int) * m + jj)) :=
        evalE_add (evalE_mul (evalE_var_int hp0 (by omega) (by omega))
            (evalE_var_int henv.dimJ (by omega) hm)
            (by have : (0 : Int) ≤ (ii : Int) * m := Int.mul_nonneg (by omega) (by omega); omega)
            (by push_cast at himI; omega))
          (evalE_var_int hj (by omega) hjI)
          (by have : (0 : Int) ≤ (ii : Int) * m := Int.mul_nonneg (by omega) (by omega); omega)
          (by push_cast at hb; omega)
      obtain ⟨σ1, r1, hh1, henv1, hf1, hl1, ho1⟩ := declStep names henv fuel
        ((t :: ts).flatMap (innerCursor i j))
        (mem_scratch_of_innerW (innerCursor_mem_innerW (outT := outT) hsub hxW))
        (reqTy_of_ne (innerCursor_ne_bN names hxc)) hxW ev (val' := .int ((ii : Int) * m + jj)) rfl
      have hv1 : IntVar σ1 (layerPointer t.id 1) ((ii * m + jj : Nat) : Int) := by
        obtain ⟨r, h1', h2', h3'⟩ := hl1
        refine ⟨r, h1', h2', ?_⟩
        rw [h3']; push_cast; rfl
      have hj1 : IntVar σ1 j jj := hj.congr (ho1 _ (ne_of_not_mem_mem names.jC
        (List.mem_append.2 (Or.inr hxc))))
      have hM1 : ∀ t' ∈ ts, isM i j t' = true → IntVar σ1 (ptrName t') ii := by
        intro t' ht' hm'
        exact (hM t' (by simp [ht']) hm').congr (ho1 _ (Ne.symm (names.lvl t htl t' (hsub' t' ht'))))
      obtain ⟨σ2, r2, hh2, henv2, hf2, hM2, hJ2⟩ := ih σ1 hsub' henv1 hj1 hM1
      have hflat : (t :: ts).flatMap (innerDecl (F := F) i j) = mDecl j t :: ts.flatMap (innerDecl i j) := by
        simp [List.flatMap_cons, innerDecl, h1]
      refine ⟨σ2, ?_, hh2.trans hh1, henv2, hf1.trans (hf2.mono ?_), ?_, ?_⟩
      · rw [hflat]; exact Dense1.RunsLI.cons r1 r2
      · intro x hx; simp only [List.flatMap_cons, List.mem_append]; exact Or.inr hx
      · intro t' ht' hm'
        rcases List.mem_cons.1 ht' with rfl | ht'
        · by_cases hmem : layerPointer t'.id 1 ∈ ts.flatMap (innerCursor i j)
          · obtain ⟨t'', ht'', hc⟩ := mem_innerCursor_cases hmem
            rcases hc with ⟨hc1, hc2⟩ | ⟨_, _, hc2⟩
            · rw [hc2]; exact hM2 t'' ht'' hc1
            · exact absurd hc2 (names.lvl t' htl t'' (hsub' t'' ht''))
          · exact hv1.congr (hf2.vars _ hmem)
        · exact hM2 t' ht' hm'
      · intro t' ht' hm' hj'
        rcases List.mem_cons.1 ht' with rfl | ht'
        · rw [h1] at hm'; cases hm'
        · exact hJ2 t' ht' hm' hj'
    · have h1' : isM i j t = false := by simpa using h1
      by_cases h2 : isJ j t = true
      · -- int p_0 = 0 * j_dim + j
        have hxc : ptrName t ∈ innerCursors i j e :=
          List.mem_flatMap.2 ⟨t, htl, by simp [innerCursor, h1', h2]⟩
        have hxW : ptrName t ∈ (t :: ts).flatMap (innerCursor i j) :=
          List.mem_flatMap.2 ⟨t, by simp, by simp [innerCursor, h1', h2]⟩
        have ev : evalE σ (plus (times (.intLit 0) (.var (dimName j))) (.var j)) =
            .ok (.int (0 * (m : Int) + jj)) :=
          evalE_add (evalE_mul (evalE_intLit (by omega) (by omega))
            (evalE_var_int henv.dimJ (by omega) hm) (by omega) (by omega))
            (evalE_var_int hj (by omega) hjI) (by omega) (by omega)
        obtain ⟨σ1, r1, hh1, henv1, hf1, hl1, ho1⟩ := declStep names henv fuel
          ((t :: ts).flatMap (innerCursor i j))
          (mem_scratch_of_innerW (innerCursor_mem_innerW (outT := outT) hsub hxW))
          (reqTy_of_ne (innerCursor_ne_bN names hxc)) hxW ev (val' := .int (0 * (m : Int) + jj)) rfl
        have hv1 : IntVar σ1 (ptrName t) jj := by
          obtain ⟨r, h1', h2', h3'⟩ := hl1
          refine ⟨r, h1', h2', ?_⟩
          rw [h3']; congr 2; omega
        have hj1 : IntVar σ1 j jj := hj.congr (ho1 _ (ne_of_not_mem_mem names.jC
          (List.mem_append.2 (Or.inr hxc))))
        have hM1 : ∀ t' ∈ ts, isM i j t' = true → IntVar σ1 (ptrName t') ii := by
          intro t' ht' hm'
          refine (hM t' (by simp [ht']) hm').congr (ho1 _ ?_)
          intro heq
          refine names.sep t' (hsub' t' ht') (isM_hasI hm') ?_
          rw [heq]
          simp only [innerW, List.mem_cons]; exact Or.inr (Or.inr (Or.inr hxc))
        obtain ⟨σ2, r2, hh2, henv2, hf2, hM2, hJ2⟩ := ih σ1 hsub' henv1 hj1 hM1
        have hflat : (t :: ts).flatMap (innerDecl (F := F) i j) = ptrDecl j t :: ts.flatMap (innerDecl i j) := by
          simp [List.flatMap_cons, innerDecl, h1', h2]
        refine ⟨σ2, ?_, hh2.trans hh1, henv2, hf1.trans (hf2.mono ?_), ?_, ?_⟩
        · rw [hflat]; exact Dense1.RunsLI.cons r1 r2
        · intro x hx; simp only [List.flatMap_cons, List.mem_append]; exact Or.inr hx
        · intro t' ht' hm'
          rcases List.mem_cons.1 ht' with rfl | ht'
          · rw [h1'] at hm'; cases hm'
          · exact hM2 t' ht' hm'
        · intro t' ht' hm' hj'
          rcases List.mem_cons.1 ht' with rfl | ht'
          · by_cases hmem : ptrName t' ∈ ts.flatMap (innerCursor i j)
            · obtain ⟨t'', ht'', hc⟩ := mem_innerCursor_cases hmem
              rcases hc with ⟨_, hc2⟩ | ⟨hc0, hc1, hc2⟩
              · exact absurd hc2.symm (names.lvl t'' (hsub' t'' ht'') t' htl)
              · rw [hc2]; exact hJ2 t'' ht'' hc0 hc1
            · exact hv1.congr (hf2.vars _ hmem)
          · exact hJ2 t' ht' hm' hj'
      · have h2' : isJ j t = false := by simpa using h2
        have hM1 : ∀ t' ∈ ts, isM i j t' = true → IntVar σ (ptrName t') ii :=
          fun t' ht' hm' => hM t' (by simp [ht']) hm'
        obtain ⟨σ2, r2, hh2, henv2, hf2, hM2, hJ2⟩ := ih σ hsub' henv hj hM1
        have hflat : (t :: ts).flatMap (innerDecl (F := F) i j) = ts.flatMap (innerDecl i j) := by
          simp [List.flatMap_cons, innerDecl, h1', h2']
        refine ⟨σ2, by rw [hflat]; exact r2, hh2, henv2, hf2.mono ?_, ?_, ?_⟩
        · intro x hx; simp only [List.flatMap_cons, List.mem_append]; exact Or.inr hx
        · intro t' ht' hm'
          rcases List.mem_cons.1 ht' with rfl | ht'
          · rw [h1'] at hm'; cases hm'
          · exact hM2 t' ht' hm'
        · intro t' ht' hm' hj'
          rcases List.mem_cons.1 ht' with rfl | ht'
          · rw [h2'] at hj'; cases hj'
          · exact hJ2 t' ht' hm' hj'


/-! ### one iteration of the inner loop -/

theorem ix_lt {n m ii jj : Nat} (hi : ii < n) (hj : jj < m) : ii * m + jj < n * m := by
  have h1 : ii * m + jj < (ii + 1) * m := by rw [Nat.add_mul]; omega
  have h2 : (ii + 1) * m ≤ n * m := Nat.mul_le_mul_right m hi
  omega

/-- every tensor leaf is finite when every sub-result is -/
theorem allFinite_leaf (ofRat : Rat → F) (ρ : TensorId → F) (e : IdExpr)
    (h : allFinite ofRat ρ e = true) : ∀ t ∈ leaves e, FloatOps.finite (ρ t) = true := by
  induction e with
  | int v => intro t ht; cases ht
  | flt q => intro t ht; cases ht
  | tensor t' =>
    intro t ht
    simp only [leaves, List.mem_singleton] at ht
    subst ht; simpa [allFinite] using h
  | add l r ihl ihr =>
    simp only [allFinite, Bool.and_eq_true] at h
    intro t ht
    simp only [leaves, List.mem_append] at ht
    rcases ht with ht | ht
    · exact ihl h.1.1 t ht
    · exact ihr h.1.2 t ht
  | mul l r ihl ihr =>
    simp only [allFinite, Bool.and_eq_true] at h
    intro t ht
    simp only [leaves, List.mem_append] at ht
    rcases ht with ht | ht
    · exact ihl h.1.1 t ht
    · exact ihr h.1.2 t ht

/-- **the invariant of the inner loop** at `(ii, jj)`: the environment; cell `ii` of the output
block holds the running sum `w`, the other cells are those of `cells`; the bucket points to cell
`ii`; `j = jj`; the cursor of every `[i,…]` leaf holds `ii` -/
structure InnerInv (i j : String) (outT : TensorId) (e : IdExpr) (n m ob : Nat)
    (blkOf : String → Nat) (cellsOf : String → Nat → F) (ii : Nat) (cells : List (Option (Val F)))
    (w : F) (jj : Nat) (σ : State F) : Prop where
  env : Env i j outT e n m ob blkOf cellsOf σ
  out : OutIs σ ob (cells.set ii (some (.flt w)))
  bkt : PtrAt σ (bN outT) ob ii
  jv : IntVar σ j jj
  curI : ∀ t ∈ leaves e, hasI i j t = true → IntVar σ (ptrName t) ii

theorem innerBody_runs (fuel : Nat) (ofRat : Rat → F) {i j : String} {outT : TensorId} {e : IdExpr}
    (names : Names i j outT e) (he : isExpr i j e = true)
    {n m ob : Nat} {blkOf : String → Nat} {cellsOf : String → Nat → F}
    (hnm : ((n * m : Nat) : Int) < 2147483648) (hn : (n : Int) < 2147483648)
    {ii jj : Nat} (hii : ii < n) (hjj : jj < m)
    {cells : List (Option (Val F))} (hlen : ii < cells.length) {σ : State F}
    (hinv : InnerInv i j outT e n m ob blkOf cellsOf ii cells (dotF ofRat i j m cellsOf e ii jj) jj σ)
    (hfin : stepFinite ofRat i j m cellsOf e ii jj = true) :
    ∃ σ', RunsLI fuel (innerBody ofRat i j outT e) σ σ' 0 ∧
      InnerInv i j outT e n m ob blkOf cellsOf ii cells (dotF ofRat i j m cellsOf e ii (jj + 1))
        (jj + 1) σ' ∧
      Frame (innerW i j outT e) ob σ σ' := by
  obtain ⟨henv, hout, hbkt, hjv, hcur⟩ := hinv
  simp only [stepFinite, Bool.and_eq_true] at hfin
  obtain ⟨⟨hfe, hfw⟩, hfw'⟩ := hfin
  have hix := ix_lt hii hjj
  have hmI : (m : Int) < 2147483648 := by
    have : m ≤ n * m := Nat.le_mul_of_pos_left m (by omega)
    omega
  have hW := fun x (h : x ∈ innerW i j outT e) => mem_scratch_of_innerW h
  -- the cursors
  obtain ⟨σ1, r1, hh1, henv1, hf1, hM1, hJ1⟩ := innerDecls_runs names fuel ii jj (by omega) hmI
    (by omega) (leaves e) σ (fun _ h => h) henv hjv (fun t ht hm' => hcur t ht (isM_hasI hm'))
  have hf1' : Frame (innerW i j outT e) ob σ σ1 :=
    hf1.mono (fun x hx => innerCursor_mem_innerW (fun _ h => h) hx)
  have hnotin : ∀ y, y ∉ innerCursors i j e → lookupVar σ1.vars y = lookupVar σ.vars y :=
    fun y hy => hf1.vars y hy
  have hout1 : OutIs σ1 ob (cells.set ii (some (.flt (dotF ofRat i j m cellsOf e ii jj)))) :=
    hout.congr hh1
  have hbkt1 : PtrAt σ1 (bN outT) ob ii :=
    ptrAt_congr hbkt (hnotin _ (fun h => innerCursor_ne_bN names h rfl))
  have hjv1 : IntVar σ1 j jj :=
    hjv.congr (hnotin _ (fun h => names.jC (List.mem_append.2 (Or.inr h))))
  -- the loads
  have hloads : ∀ t ∈ leaves e, evalE σ1 (.idx (.var (valsName t.name))
      (prevLayerPointer t.id t.indexes.length)) = .ok (.flt (rhoAt i j m cellsOf ii jj t)) := by
    intro t ht
    obtain ⟨hptr, _, blk, hb, hlive, hty, hc⟩ := henv1.ins t ht
    have hft := allFinite_leaf ofRat _ e hfe t ht
    rcases kind_cases names.ij (isExpr_mem he t ht) with ⟨k1, k2, k3⟩ | ⟨k1, k2, k3⟩ | ⟨k1, k2, k3⟩
    · have hlen2 : t.indexes.length = 2 := by rw [((isM_iff i j t).1 k1).1]; rfl
      have hc' := hc (ii * m + jj) (by simp [cellCount, k1]; exact hix)
      have : prevLayerPointer (F := F) t.id t.indexes.length = .var (layerPointer t.id 1) := by
        simp [prevLayerPointer, hlen2]
      rw [this]
      refine Dense1.evalE_load hptr (hM1 t ht k1) (by omega) hb hlive hty ?_ hft
      simpa [rhoAt, cellIx, k1] using hc'
    · have hlen1 : t.indexes.length = 1 := by rw [((isJ_iff j t).1 k2).1]; rfl
      have hc' := hc jj (by simp [cellCount, k1, k2]; exact hjj)
      have : prevLayerPointer (F := F) t.id t.indexes.length = .var (layerPointer t.id 0) := by
        simp [prevLayerPointer, hlen1]
      rw [this]
      refine Dense1.evalE_load hptr (hJ1 t ht k1 k2) (by omega) hb hlive hty ?_ hft
      simpa [rhoAt, cellIx, k1, k2] using hc'
    · have hlen1 : t.indexes.length = 1 := by rw [((isI_iff i t).1 k3).1]; rfl
      have hc' := hc ii (by simp [cellCount, k1, k2]; exact hii)
      have : prevLayerPointer (F := F) t.id t.indexes.length = .var (layerPointer t.id 0) := by
        simp [prevLayerPointer, hlen1]
      rw [this]
      have hI : hasI i j t = true := by simp [hasI, k3]
      have hp : IntVar σ1 (ptrName t) ii := (hcur t ht hI).congr (hnotin _ (fun h =>
        names.sep t ht hI (by
          simp only [innerW, List.mem_cons]; exact Or.inr (Or.inr (Or.inr h)))))
      refine Dense1.evalE_load hptr hp (by omega) hb hlive hty ?_ hft
      simpa [rhoAt, cellIx, k1, k2] using hc'
  have erhs := evalE_rhs ofRat (rhoAt i j m cellsOf ii jj) σ1 e hloads hfe
  -- bucket[0] = bucket[0] + rhs
  have hcell : OutCell σ1 ob ((ii : Int) + 0) := hout1.outCell (by omega) (by simp; omega)
  have hk : ((ii : Int) + 0) = ((ii : Nat) : Int) := by omega
  have hold : FloatCell σ1 ob ((ii : Int) + 0) (dotF ofRat i j m cellsOf e ii jj) := by
    rw [hk]; exact hout1.floatCell (by simp [hlen])
  have hst := Runs.increment_cell (fuel := fuel) (rhs := toIrWith ofRat e) (evalE_var_ptrAt hbkt1)
    (evalE_intLit (σ := σ1) (v := 0) (by omega) (by omega)) erhs hcell hold hfw hfw'
  rw [hk] at hst
  obtain ⟨hout2, hf2, hv2⟩ := writeCell_out hout1 ii
    (.flt (FloatOps.add (dotF ofRat i j m cellsOf e ii jj)
      (valueF ofRat (rhoAt i j m cellsOf ii jj) e))) (innerW i j outT e)
  have henv2 := henv1.writeCell hout1 ii
    (.flt (FloatOps.add (dotF ofRat i j m cellsOf e ii jj)
      (valueF ofRat (rhoAt i j m cellsOf ii jj) e)))
  rw [List.set_set] at hout2
  have r2 : RunsI fuel (.branch (.boolLit true)
      (.block [.block [accStmt ofRat outT e] (some "*** Computation of expression ***")] none)
      (.block [] none)) σ1 _ 0 :=
    Dense1.RunsI.branch_true (by simp [evalE])
      (Dense1.RunsI.block (Dense1.RunsLI.cons (Dense1.RunsI.block (Dense1.RunsLI.cons
        (Dense1.RunsI.of_assign hst) (Dense1.RunsLI.nil _ _))) (Dense1.RunsLI.nil _ _)))
  -- j = j + 1
  have hjv2 : IntVar (writeCell σ1 ob ii (.flt (FloatOps.add (dotF ofRat i j m cellsOf e ii jj)
      (valueF ofRat (rhoAt i j m cellsOf ii jj) e)))) j jj := hjv1.congr (by rw [hv2])
  obtain ⟨σ3, r3, hh3, henv3, hf3, hjv3, ho3⟩ := assignIntStep names henv2 fuel
    (innerW i j outT e) (hW _ (j_mem_innerW i j outT e)) (j_mem_innerW i j outT e) hjv2
    (evalE_add (evalE_var_int hjv2 (by omega) (by omega)) (evalE_intLit (v := 1) (by omega) (by omega))
      (by omega) (by omega))
  refine ⟨σ3, Dense1.RunsLI.append r1 (Dense1.RunsLI.cons r2 (Dense1.RunsLI.cons r3
    (Dense1.RunsLI.nil _ _))), ⟨henv3, hout2.congr hh3, ?_, ?_, ?_⟩, hf1'.trans (hf2.trans hf3)⟩
  · exact ptrAt_congr (ptrAt_congr hbkt1 (by rw [hv2])) (ho3 _ (Ne.symm (j_ne_bN names)))
  · obtain ⟨r, h1, h2, h3⟩ := hjv3
    exact ⟨r, h1, h2, by rw [h3]; push_cast; rfl⟩
  · intro t ht hI
    have hne : ptrName t ∉ innerW i j outT e := names.sep t ht hI
    have h1 : IntVar σ1 (ptrName t) ii := (hcur t ht hI).congr (hf1'.vars _ hne)
    refine (h1.congr (by rw [hv2])).congr (ho3 _ ?_)
    exact fun h => hne (by rw [h]; exact j_mem_innerW i j outT e)

end TV.Dense2
