import TensoraVerif.Lemmas.Dense2Inner

/-!
C01 for dense kernels with one contraction, part 7: the inner `while` loop by induction on the
remaining iterations (`innerLoop_runs`), and the whole block that one outer iteration runs —
bucket initialisation, `int j = 0`, the loop (`innerLines_runs`).
-/
namespace TV.Dense2
open TV.IR TV.Gen TV.Graph TV.Growth
open TV.ToIr hiding leaves valueF allFinite evalE_fadd evalE_fmul
open TV.Dense1 (leaves valueF allFinite ptrDecl ptrName RunsI RunsLI)
set_option linter.unusedSectionVars false
variable {F : Type} [FloatOps F]

/-- **the inner `while` loop**, by induction on the number `rem` of remaining iterations -/
theorem innerLoop_runs (ofRat : Rat → F) {i j : String} {outT : TensorId} {e : IdExpr}
    (names : Names i j outT e) (he : isExpr i j e = true)
    {n m ob : Nat} {blkOf : String → Nat} {cellsOf : String → Nat → F}
    (hnm : ((n * m : Nat) : Int) < 2147483648) (hn : (n : Int) < 2147483648)
    (hmI : (m : Int) < 2147483648)
    {ii : Nat} (hii : ii < n) {cells : List (Option (Val F))} (hlen : ii < cells.length)
    (hfin : ∀ jj, jj < m → stepFinite ofRat i j m cellsOf e ii jj = true) :
    ∀ (rem jj : Nat) (σ : State F) (fuel : Nat), jj + rem = m →
      InnerInv i j outT e n m ob blkOf cellsOf ii cells (dotF ofRat i j m cellsOf e ii jj) jj σ →
      rem + 1 ≤ fuel →
      ∃ σ', RunsI fuel (innerLoop ofRat i j outT e) σ σ' rem ∧
        InnerInv i j outT e n m ob blkOf cellsOf ii cells (dotF ofRat i j m cellsOf e ii m) m σ' ∧
        Frame (innerW i j outT e) ob σ σ' := by
  intro rem
  induction rem with
  | zero =>
    intro jj σ fuel hjm hinv hfuel
    obtain ⟨fuel', rfl⟩ := Nat.exists_eq_add_of_le hfuel
    have hjn : jj = m := by omega
    subst hjn
    have ec := Dense1.evalE_lt (evalE_var_int hinv.jv (by omega) hmI)
      (evalE_var_int hinv.env.dimJ (by omega) hmI)
    have hd : decide ((jj : Int) < (jj : Int)) = false := by simp
    rw [hd] at ec
    refine ⟨σ, ?_, hinv, Frame.refl _ _ _⟩
    rw [show 0 + 1 + fuel' = fuel' + 1 by omega]
    exact Dense1.RunsI.loop_false ec
  | succ rem ih =>
    intro jj σ fuel hjm hinv hfuel
    obtain ⟨fuel', rfl⟩ := Nat.exists_eq_add_of_le hfuel
    have hjn : jj < m := by omega
    have ec := Dense1.evalE_lt (evalE_var_int hinv.jv (by omega) (by omega))
      (evalE_var_int hinv.env.dimJ (by omega) hmI)
    have hd : decide ((jj : Int) < (m : Int)) = true := by simp; omega
    rw [hd] at ec
    obtain ⟨σ1, r1, hinv1, hf1⟩ := innerBody_runs (rem + 1 + fuel') ofRat names he hnm hn hii hjn hlen
      hinv (hfin jj hjn)
    obtain ⟨σ', r2, hinv', hf2⟩ := ih (jj + 1) σ1 (rem + 1 + fuel') (by omega) hinv1 (by omega)
    refine ⟨σ', ?_, hinv', hf1.trans hf2⟩
    have := Dense1.RunsI.loop_true ec (Dense1.RunsI.block r1) r2
    rw [show rem + 1 + 1 + fuel' = rem + 1 + fuel' + 1 by omega]
    simpa [innerLoop] using this

/-- **one outer iteration's work**: `{bucket initialisation} int j = 0; while (j < j_dim) {…}` leaves
the sum `dotF … ii m` in cell `ii` of the output block after `1 + m` loop iterations -/
theorem innerLines_runs (ofRat : Rat → F) {i j : String} {outT : TensorId} {e : IdExpr}
    (names : Names i j outT e) (he : isExpr i j e = true)
    {n m ob : Nat} {blkOf : String → Nat} {cellsOf : String → Nat → F}
    (hnm : ((n * m : Nat) : Int) < 2147483648) (hn : (n : Int) < 2147483648)
    (hmI : (m : Int) < 2147483648)
    {ii : Nat} (hii : ii < n) {cells : List (Option (Val F))} (hlen : ii < cells.length)
    (hfin : ∀ jj, jj < m → stepFinite ofRat i j m cellsOf e ii jj = true)
    (σ : State F) (fuel : Nat) (henv : Env i j outT e n m ob blkOf cellsOf σ)
    (hout : OutIs σ ob cells) (hcur : ∀ t ∈ outerPtrs i j outT e, IntVar σ (ptrName t) ii)
    (hfuel : m + 2 ≤ fuel) :
    ∃ σ', RunsLI fuel (innerLines ofRat i j outT e) σ σ' (1 + m) ∧
      Env i j outT e n m ob blkOf cellsOf σ' ∧
      OutIs σ' ob (cells.set ii (some (.flt (dotF ofRat i j m cellsOf e ii m)))) ∧
      Frame (innerW i j outT e) ob σ σ' := by
  -- bucket initialisation
  obtain ⟨σ1, r1, henv1, hf1, hout1, hbkt1⟩ := bucketInit_runs names henv hout ii
    (hcur outT (by simp [outerPtrs])) hlen (by omega) fuel (by omega)
  -- int j = 0
  obtain ⟨σ2, r2, hh2, henv2, hf2, hl2, ho2⟩ := declStep names henv1 fuel (innerW i j outT e)
    (mem_scratch_of_innerW (j_mem_innerW i j outT e)) (reqTy_of_ne (j_ne_bN names))
    (j_mem_innerW i j outT e) (evalE_intLit (σ := σ1) (v := 0) (by omega) (by omega))
    (val' := .int 0) rfl
  have hf12 := hf1.trans hf2
  have hinv2 : InnerInv i j outT e n m ob blkOf cellsOf ii cells (dotF ofRat i j m cellsOf e ii 0) 0 σ2 := by
    refine ⟨henv2, hout1.congr hh2, ptrAt_congr hbkt1 (ho2 _ (Ne.symm (j_ne_bN names))), hl2, ?_⟩
    intro t ht hI
    exact (hcur t (mem_outerPtrs ht hI)).congr (hf12.vars _ (names.sep t ht hI))
  obtain ⟨σ3, r3, hinv3, hf3⟩ := innerLoop_runs ofRat names he hnm hn hmI hii hlen hfin m 0 σ2 fuel
    (by omega) hinv2 (by omega)
  refine ⟨σ3, ?_, hinv3.env, hinv3.out, hf12.trans hf3⟩
  have := Dense1.RunsLI.cons (Dense1.RunsI.block (c := some "Bucket initialization") r1)
    (Dense1.RunsLI.cons r2 (Dense1.RunsLI.cons r3 (Dense1.RunsLI.nil _ _)))
  simpa [innerLines] using this

end TV.Dense2
