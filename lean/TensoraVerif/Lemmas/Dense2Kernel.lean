import TensoraVerif.Lemmas.Dense2Generate
import TensoraVerif.Lemmas.Dense2Names
import TensoraVerif.Lemmas.Dense1Kernel

/-!
C01 for dense kernels with one contraction, part 11 (U3): the whole `evaluate` function on the
machine (`kernel_runs`): from an initial state as the driver builds it (`Init`) to the final state
(`KernelPost`), through "Extract dimensions" (`i_dim`, `j_dim`), "Unpack tensors", "Output
initialization", the loop nest and "Assembling output tensor".
-/
namespace TV.Dense2
open TV.IR TV.Gen TV.Graph TV.Growth
open TV.Dense1 (leaves valueF allFinite ptrDecl ptrName RunsI RunsLI TensorVar)
set_option linter.unusedSectionVars false
variable {F : Type} [FloatOps F]

/-- `t->dimensions[d]` -/
theorem evalE_dimAt {σ : State F} {x : String} {k : Nat} {tr : TensorRec F} {blk : Block F} {d : Nat}
    {v : Int} (hx : TensorVar σ x k) (htr : σ.tensors[k]? = some tr)
    (hb : σ.heap[tr.dimsBlk]? = some blk) (hlive : blk.live = true) (hty : blk.ty = .int)
    (hc : blk.cells[d]? = some (some (.int v))) (hd : (d : Int) < 2147483648)
    (hv0 : -2147483648 ≤ v) (hv : v < 2147483648) :
    evalE σ (.idx (.attr (.var x) "dimensions") (.intLit d)) = .ok (.int v) := by
  have e1 : evalE σ (.attr (.var x) "dimensions") = .ok (.ptr tr.dimsBlk 0) := by
    rw [evalE, Dense1.evalE_var_tensor hx]
    simp [bind, Except.bind, htr]
  have hlen : d < blk.cells.length := lt_length_of_getElem? hc
  have h2 : ¬ ((blk.cells.length : Int) ≤ d) := by omega
  rw [evalE, e1, evalE_intLit (by omega) hd]
  simp [bind, Except.bind, readBlock, hb, hlive, Block.len, h2, hc, hty, hasElemTy, chkVal, chkInt,
    inI32_of hv0 hv]

/-- static side conditions of the kernel theorem: index and tensor names contain no `'_'` (every
name the parser accepts is alphanumeric), `i ≠ j`, the indexes are not tensor names, the output, the
tensor `jt` that provides `j_dim` and every tensor of the right-hand side are in the format table,
the output does not occur on the right, its id is `0_<name>` (what `tensorId 0` builds), and no id
is shared between a `[j]`-leaf and an `[i,…]`-leaf -/
structure KernelOK (formats : Formats) (i j jt : String) (outT : TensorId) (e : IdExpr) : Prop where
  idxI : '_' ∉ i.toList
  idxJ : '_' ∉ j.toList
  ij : i ≠ j
  tensors : ∀ f ∈ formats, '_' ∉ f.1.toList
  idxTensorI : i ∉ formats.map (·.1)
  idxTensorJ : j ∉ formats.map (·.1)
  out : outT.name ∈ formats.map (·.1)
  outId : outT.id = "0_" ++ outT.name
  jt : jt ∈ formats.map (·.1)
  ins : ∀ t ∈ leaves e, t.name ∈ formats.map (·.1) ∧ t.name ≠ outT.name
  ids : idsOK i j e = true

/-- **Initial machine state of a kernel call**, as the driver builds it: the variables are exactly
the tensor parameters, parameter `t` bound to tensor record `tix t`; every record has a pointer (or
`NULL`) in `vals`; the output record is output-owned and its `dimensions` block holds `n` at
position 0; the `dimensions` block of `jt` holds `m` at position `jd`; the record of every tensor
of the right-hand side has `vals` pointing to a live float block whose first `cellCount` cells
(`n * m`, `m` or `n` according to the kind of the leaf) are initialised with `cellsOf t`. -/
structure Init (formats : Formats) (i j jt : String) (jd : Nat) (outT : TensorId) (e : IdExpr)
    (n m : Nat) (tix : String → Nat) (blkOf : String → Nat) (cellsOf : String → Nat → F)
    (σ : State F) : Prop where
  params : ∀ f ∈ formats, TensorVar σ f.1 (tix f.1)
  fresh : ∀ x, x ∉ formats.map (·.1) → lookupVar σ.vars x = none
  recs : ∀ f ∈ formats, ∃ tr, σ.tensors[tix f.1]? = some tr ∧ isPtrVal tr.vals = true
  out : ∃ tr blk, σ.tensors[tix outT.name]? = some tr ∧ tr.owner = .output ∧
    σ.heap[tr.dimsBlk]? = some blk ∧ blk.live = true ∧ blk.ty = .int ∧
    blk.cells[0]? = some (some (.int n))
  dimJ : ∃ tr blk, σ.tensors[tix jt]? = some tr ∧
    σ.heap[tr.dimsBlk]? = some blk ∧ blk.live = true ∧ blk.ty = .int ∧
    blk.cells[jd]? = some (some (.int m))
  ins : ∀ t ∈ leaves e, ∃ tr blk, σ.tensors[tix t.name]? = some tr ∧ tr.vals = .ptr (blkOf t.name) 0 ∧
    σ.heap[blkOf t.name]? = some blk ∧ blk.live = true ∧ blk.ty = .float ∧
    ∀ k, k < cellCount i j n m t → blk.cells[k]? = some (some (.flt (cellsOf t.name k)))

/-- **Final state of a kernel call** `σ → σ'` with output record `k`: the record's `vals` points to
the fresh block `σ.heap.length`, a live output-owned float block with exactly `n` cells, cell `ii`
holding the sum over `jj < m` in loop order; every old block and every other record is unchanged. -/
structure KernelPost (ofRat : Rat → F) (i j : String) (e : IdExpr) (n m : Nat) (k : Nat)
    (cellsOf : String → Nat → F) (σ σ' : State F) : Prop where
  outRec : ∃ tr, σ.tensors[k]? = some tr ∧ σ'.tensors[k]? = some { tr with vals := .ptr σ.heap.length 0 }
  otherRecs : ∀ k', k' ≠ k → σ'.tensors[k']? = σ.tensors[k']?
  blk : ∃ blk, σ'.heap[σ.heap.length]? = some blk ∧ blk.live = true ∧ blk.owner = .output ∧
    blk.ty = .float ∧
    blk.cells = (List.range n).map fun ii => some (.flt (dotF ofRat i j m cellsOf e ii m))
  heap : ∀ b, b < σ.heap.length → σ'.heap[b]? = σ.heap[b]?
  heapLen : σ'.heap.length = σ.heap.length + 1

/-! ### names of the prologue -/

theorem dropWhile_us {a : List Char} (h : '_' ∉ a) (r : List Char) :
    (a ++ '_' :: r).dropWhile (· != '_') = '_' :: r := by
  rw [List.dropWhile_append_of_pos (fun c hc => by
    have : c ≠ '_' := fun e => h (e ▸ hc)
    simpa using this)]
  simp

theorem bN_ne_valsCapName {outT : TensorId} (hid : outT.id = "0_" ++ outT.name) {s : String}
    (hs : '_' ∉ s.toList) : bN outT ≠ valsCapName s := by
  intro h
  have h' := congrArg (fun x => x.toList.dropWhile (· != '_')) h
  have e1 : (bN outT).toList = "bucket".toList ++ '_' :: ('0' :: '_' :: outT.name.toList) := by
    simp [bN, bucketName, bucketSuffix, hid, String.toList_append]
  have e2 : (valsCapName s).toList = s.toList ++ '_' :: "vals_capacity".toList := by
    simp [valsCapName, String.toList_append]
  simp only [e1, e2] at h'
  rw [dropWhile_us (by decide), dropWhile_us hs] at h'
  simp at h'

theorem count_valsCapName {s : String} (h : '_' ∉ s.toList) : (valsCapName s).toList.count '_' = 2 := by
  simp [valsCapName, String.toList_append, List.count_append, List.count_eq_zero_of_not_mem h]


theorem KernelOK.outName {formats : Formats} {i j jt : String} {outT : TensorId} {e : IdExpr}
    (ok : KernelOK formats i j jt outT e) : '_' ∉ outT.name.toList := by
  obtain ⟨f, hf, hfe⟩ := List.mem_map.1 ok.out
  have hfe : f.1 = outT.name := hfe
  rw [← hfe]; exact ok.tensors f hf

theorem KernelOK.count_id {formats : Formats} {i j jt : String} {outT : TensorId} {e : IdExpr}
    (ok : KernelOK formats i j jt outT e) : outT.id.toList.count '_' = 1 := by
  rw [ok.outId]
  simp [String.toList_append, List.count_eq_zero_of_not_mem ok.outName]

theorem KernelOK.names {formats : Formats} {i j jt : String} {outT : TensorId} {e : IdExpr}
    (ok : KernelOK formats i j jt outT e) : Names i j outT e := by
  refine names_of_index i j outT e ok.idxI ok.idxJ ok.ij ?_ ?_ ok.ids
  · intro t ht
    rcases List.mem_cons.1 ht with rfl | ht
    · exact ok.outName
    · obtain ⟨f, hf, hfe⟩ := List.mem_map.1 (ok.ins t ht).1
      have hfe : f.1 = t.name := hfe
      rw [← hfe]; exact ok.tensors f hf
  · exact List.count_pos_iff.1 (by rw [ok.count_id]; omega)

/-- the scratch variables of the loop nest are none of the names the prologue declares -/
theorem scratch_fresh {formats : Formats} {i j jt : String} {outT : TensorId} {e : IdExpr}
    (ok : KernelOK formats i j jt outT e) {x : String} (hx : x ∈ scratch i j outT e) :
    x ∉ formats.map (·.1) ∧ x ≠ dimName i ∧ x ≠ dimName j ∧
      x ∉ formats.map (fun f => valsName f.1) ∧ x ≠ valsCapName outT.name := by
  have hgen : ∀ y, '_' ∈ y.toList → y ∉ formats.map (·.1) := by
    intro y hy hm
    obtain ⟨f, hf, rfl⟩ := List.mem_map.1 hm
    exact ok.tensors f hf hy
  have hnous : ∀ y, '_' ∉ y.toList → y ≠ dimName i ∧ y ≠ dimName j ∧
      y ∉ formats.map (fun f => valsName f.1) ∧ y ≠ valsCapName outT.name := by
    intro y hy
    refine ⟨ne_of_underscore hy (Dense1.mem_us_dimName i), ne_of_underscore hy (Dense1.mem_us_dimName j),
      ?_, ne_of_underscore hy (Dense1.mem_us_valsCapName _)⟩
    intro hm
    obtain ⟨f, _, hf⟩ := List.mem_map.1 hm
    exact ne_of_underscore hy (Dense1.mem_us_valsName f.1) hf.symm
  have hcnt : ∀ y, '_' ∈ y.toList → y.toList.count '_' ≠ 1 → y.toList.count '_' ≠ 2 ∨ y = bN outT →
      y ∉ formats.map (·.1) ∧ y ≠ dimName i ∧ y ≠ dimName j ∧
      y ∉ formats.map (fun f => valsName f.1) ∧ y ≠ valsCapName outT.name := by
    intro y hy h1 h2
    refine ⟨hgen y hy, ?_, ?_, ?_, ?_⟩
    · exact ne_of_count_ne (by rw [count_dimName ok.idxI]; exact h1)
    · exact ne_of_count_ne (by rw [count_dimName ok.idxJ]; exact h1)
    · intro hm
      obtain ⟨f, hf, hfe⟩ := List.mem_map.1 hm
      exact ne_of_count_ne (by rw [count_valsName (ok.tensors f hf)]; exact h1) hfe.symm
    · rcases h2 with h2 | rfl
      · exact ne_of_count_ne (by rw [count_valsCapName ok.outName]; exact h2)
      · exact bN_ne_valsCapName ok.outId ok.outName
  have hcur : ∀ ref l, (layerPointer ref l) ∉ formats.map (·.1) ∧ layerPointer ref l ≠ dimName i ∧
      layerPointer ref l ≠ dimName j ∧ layerPointer ref l ∉ formats.map (fun f => valsName f.1) ∧
      layerPointer ref l ≠ valsCapName outT.name := by
    intro ref l
    obtain ⟨ch, h1, h2⟩ := layerPointer_getLast? ref l
    have hne : ∀ s c, s.toList.getLast? = some c → c.isDigit = false → layerPointer ref l ≠ s := by
      intro s c hs hc e
      rw [e, hs] at h1; cases h1
      rw [h2] at hc; cases hc
    refine ⟨hgen _ (mem_us_lp ref l), hne _ _ (Dense1.getLast?_dimName i) (by decide),
      hne _ _ (Dense1.getLast?_dimName j) (by decide), ?_,
      hne _ _ (Dense1.getLast?_valsCapName _) (by decide)⟩
    intro hm
    obtain ⟨f, _, hf⟩ := List.mem_map.1 hm
    exact hne _ _ (Dense1.getLast?_valsName f.1) (by decide) hf.symm
  simp only [scratch, innerW, List.mem_cons, List.mem_append] at hx
  rcases hx with (rfl | hx) | rfl | rfl | rfl | hx
  · exact ⟨ok.idxTensorI, hnous _ ok.idxI⟩
  · obtain ⟨ref, l, rfl⟩ := cursor_cases (List.mem_append.2 (Or.inl hx))
    exact hcur ref l
  · exact ⟨ok.idxTensorJ, hnous _ ok.idxJ⟩
  · exact hcnt _ (mem_us_bN outT) (by rw [count_bN, ok.count_id]; omega) (Or.inr rfl)
  · exact hcnt _ (mem_us_bL outT) (by rw [count_bL, ok.count_id]; omega)
      (Or.inl (by rw [count_bL, ok.count_id]; omega))
  · obtain ⟨ref, l, rfl⟩ := cursor_cases (outT := outT) (List.mem_append.2 (Or.inr hx))
    exact hcur ref l

end TV.Dense2
