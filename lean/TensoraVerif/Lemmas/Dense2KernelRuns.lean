import TensoraVerif.Lemmas.Dense2Kernel

/-!
C01 for dense kernels with one contraction, part 12 (U3): `kernel_runs`.
-/
namespace TV.Dense2
open TV.IR TV.Gen TV.Graph TV.Growth
open TV.Dense1 (leaves valueF allFinite ptrDecl ptrName RunsI RunsLI TensorVar)
set_option linter.unusedSectionVars false
variable {F : Type} [FloatOps F]

theorem kernel_runs (ofRat : Rat → F) (formats : Formats) (i j jt : String) (jd : Nat)
    (outT : TensorId) (e : IdExpr) (he : isExpr i j e = true) (ok : KernelOK formats i j jt outT e)
    {n m : Nat} {tix blkOf : String → Nat} {cellsOf : String → Nat → F} {σ : State F}
    (hnm : ((n * m : Nat) : Int) < 2147483648) (hn : (n : Int) < 2147483648)
    (hm : (m : Int) < 2147483648) (hjd : (jd : Int) < 2147483648)
    (hfin : ∀ ii, ii < n → ∀ jj, jj < m → stepFinite ofRat i j m cellsOf e ii jj = true)
    (hinit : Init formats i j jt jd outT e n m tix blkOf cellsOf σ) (fuel : Nat)
    (hfuel : n + m + 2 ≤ fuel) :
    ∃ o, exec fuel (kernel ofRat formats i j jt jd outT e).body σ = .ok o ∧ o.ret = some (.int 0) ∧
      o.iters = n * (m + 2) ∧ KernelPost ofRat i j e n m (tix outT.name) cellsOf σ o.st := by
  obtain ⟨hparams, hfresh, hrecs, ⟨otr, dblk, hotr, hown, hdb, hdlive, hdty, hdc⟩,
    ⟨jtr, jblk, hjtr, hjb, hjlive, hjty, hjc⟩, hins⟩ := hinit
  have hgen : ∀ x, '_' ∈ x.toList → x ∉ formats.map (·.1) := by
    intro x hx hm
    obtain ⟨f, hf, rfl⟩ := List.mem_map.1 hm
    exact ok.tensors f hf hx
  have hNne : ∀ f ∈ formats, ∀ x, '_' ∈ x.toList → f.1 ≠ x :=
    fun f hf x hx => ne_of_underscore (ok.tensors f hf) hx
  obtain ⟨fo, hfo, hfoe⟩ := List.mem_map.1 ok.out
  have hfoe : fo.1 = outT.name := hfoe
  obtain ⟨fj, hfj, hfje⟩ := List.mem_map.1 ok.jt
  have hfje : fj.1 = jt := hfje
  have hTout : TensorVar σ outT.name (tix outT.name) := by rw [← hfoe]; exact hparams fo hfo
  have hTj : TensorVar σ jt (tix jt) := by rw [← hfje]; exact hparams fj hfj
  have names := ok.names
  -- A1: int i_dim = out->dimensions[0]
  obtain ⟨σA, rA, hhA, htA, hdimA, hoA⟩ := Dense1.runsI_declAssign (fuel := fuel) (x := dimName i) (t := .int)
    (val' := .int n)
    (by rw [hfresh _ (hgen _ (Dense1.mem_us_dimName i))]; intro r h; cases h)
    (Dense1.evalE_dim0 hTout hotr hdb hdlive hdty hdc (by omega) hn) rfl
  have hdimA : IntVar σA (dimName i) n := hdimA
  -- A2: int j_dim = jt->dimensions[jd]
  have hdij : dimName j ≠ dimName i := fun h => ok.ij ((String.append_left_inj _).1 h).symm
  have hTjA : TensorVar σA jt (tix jt) :=
    hTj.congr (hoA _ (by rw [← hfje]; exact hNne fj hfj _ (Dense1.mem_us_dimName i)))
  obtain ⟨σA', rA', hhA', htA', hdimA', hoA'⟩ := Dense1.runsI_declAssign (fuel := fuel) (x := dimName j)
    (t := .int) (val' := .int m)
    (by rw [hoA _ hdij, hfresh _ (hgen _ (Dense1.mem_us_dimName j))]; intro r h; cases h)
    (evalE_dimAt hTjA (by rw [htA]; exact hjtr) (by rw [hhA]; exact hjb) hjlive hjty hjc hjd (by omega) hm)
    rfl
  have hdimJ : IntVar σA' (dimName j) m := hdimA'
  have hdimI : IntVar σA' (dimName i) n := hdimA.congr (hoA' _ (Ne.symm hdij))
  have hA_of : ∀ y, y ≠ dimName i → y ≠ dimName j → lookupVar σA'.vars y = lookupVar σ.vars y :=
    fun y h1 h2 => (hoA' y h2).trans (hoA y h1)
  have hhAA : σA'.heap = σ.heap := hhA'.trans hhA
  have htAA : σA'.tensors = σ.tensors := htA'.trans htA
  -- B: unpack
  obtain ⟨σB, rB, hhB, htB, hoB, hpB⟩ := Dense1.unpack_runs fuel tix formats σA'
    (fun f hf => ⟨(hparams f hf).congr (hA_of _ (hNne f hf _ (Dense1.mem_us_dimName i))
        (hNne f hf _ (Dense1.mem_us_dimName j))), by rw [htAA]; exact hrecs f hf⟩)
    (fun f hf r hr => by
      rw [hA_of _ (Dense1.dimName_ne_valsName i f.1).symm (Dense1.dimName_ne_valsName j f.1).symm,
        hfresh _ (hgen _ (Dense1.mem_us_valsName f.1))] at hr
      cases hr)
    (fun f hf g _ => hNne f hf _ (Dense1.mem_us_valsName g.1))
  have hvalsFmt : ∀ s, valsName s ∈ formats.map (fun f => valsName f.1) → s ∈ formats.map (·.1) := by
    intro s hs
    obtain ⟨f, hf, hfe⟩ := List.mem_map.1 hs
    exact List.mem_map.2 ⟨f, hf, Dense1.valsName_inj hfe⟩
  -- C1: int out_vals_capacity = 1 * out->dimensions[0]
  have hToutB : TensorVar σB outT.name (tix outT.name) := by
    refine hTout.congr ?_
    rw [hoB _ (fun hm => by
        obtain ⟨f, _, hf⟩ := List.mem_map.1 hm
        exact hNne fo hfo _ (Dense1.mem_us_valsName f.1) (hfoe.trans hf.symm)),
      hA_of _ (by rw [← hfoe]; exact hNne fo hfo _ (Dense1.mem_us_dimName i))
        (by rw [← hfoe]; exact hNne fo hfo _ (Dense1.mem_us_dimName j))]
  have eC : evalE σB (.bin .mul (.intLit 1) (.idx (.attr (.var outT.name) "dimensions") (.intLit 0))) =
      .ok (.int (1 * (n : Int))) :=
    evalE_mul (evalE_intLit (by omega) (by omega))
      (Dense1.evalE_dim0 hToutB (by rw [htB, htAA]; exact hotr) (by rw [hhB, hhAA]; exact hdb) hdlive hdty hdc
        (by omega) hn) (by omega) (by omega)
  have hcapNot : valsCapName outT.name ∉ formats.map (fun f => valsName f.1) := by
    intro hm
    obtain ⟨f, _, hf⟩ := List.mem_map.1 hm
    exact Dense1.valsName_ne_valsCapName' f.1 outT.name hf
  obtain ⟨σC1, rC1, hhC1, htC1, hcapC1, hoC1⟩ := Dense1.runsI_declAssign (fuel := fuel)
    (x := valsCapName outT.name) (t := .int) (val' := .int (1 * (n : Int)))
    (by
      rw [hoB _ hcapNot,
        hA_of _ (Dense1.dimName_ne_valsCapName i outT.name).symm (Dense1.dimName_ne_valsCapName j outT.name).symm,
        hfresh _ (hgen _ (Dense1.mem_us_valsCapName _))]
      intro r h; cases h) eC rfl
  have hcapC1 : IntVar σC1 (valsCapName outT.name) (1 * (n : Int)) := hcapC1
  -- C2: out_vals = malloc(out_vals_capacity)
  obtain ⟨ro, tro, hro1, hro2, _, _⟩ := hpB fo hfo
  rw [hfoe] at hro1
  obtain ⟨σC, rC2, htC, hhC, houtC, hoC⟩ := Dense1.runsI_alloc (fuel := fuel) (ty := .float) (ety := .float)
    (ha := (hoC1 _ (Dense1.valsName_ne_valsCapName' outT.name outT.name)).trans hro1) hro2 hcapC1
    (by omega) (by omega) rfl
  have hlenC1 : σC1.heap.length = σ.heap.length := by rw [hhC1, hhB, hhAA]
  rw [hlenC1] at houtC
  have hheapC : σC.heap = σ.heap ++ [⟨.float, List.replicate n none, .output, true⟩] := by
    rw [hhC, hhC1, hhB, hhAA]
    simp
  -- lookups in σC
  have hC_of : ∀ y, y ≠ dimName i → y ≠ dimName j → y ∉ formats.map (fun f => valsName f.1) →
      y ≠ valsCapName outT.name → lookupVar σC.vars y = lookupVar σ.vars y := by
    intro y h1 h1' h2 h3
    have h4 : y ≠ valsName outT.name := fun h => h2 (by
      rw [h]; exact List.mem_map.2 ⟨fo, hfo, by rw [hfoe]⟩)
    rw [hoC y h4, hoC1 y h3, hoB y h2, hA_of y h1 h1']
  -- the environment of the loop nest
  have henv : Env i j outT e n m σ.heap.length blkOf cellsOf σC := by
    refine ⟨?_, ?_, houtC, ?_, ?_⟩
    · refine hdimI.congr ?_
      rw [hoC _ (Dense1.dimName_ne_valsName i _), hoC1 _ (Dense1.dimName_ne_valsCapName i _),
        hoB _ (fun hm => by
          obtain ⟨f, _, hf⟩ := List.mem_map.1 hm
          exact Dense1.dimName_ne_valsName i f.1 hf.symm)]
    · refine hdimJ.congr ?_
      rw [hoC _ (Dense1.dimName_ne_valsName j _), hoC1 _ (Dense1.dimName_ne_valsCapName j _),
        hoB _ (fun hm => by
          obtain ⟨f, _, hf⟩ := List.mem_map.1 hm
          exact Dense1.dimName_ne_valsName j f.1 hf.symm)]
    · intro t ht
      obtain ⟨tr, blk, htr, hv, hb, rest⟩ := hins t ht
      obtain ⟨f, hf, hfe⟩ := List.mem_map.1 (ok.ins t ht).1
      have hfe : f.1 = t.name := hfe
      obtain ⟨r, tr', hr1, hr2, hr3, hr4⟩ := hpB f hf
      rw [hfe] at hr1 hr3
      rw [htAA, htr] at hr3; cases hr3
      have hlt : blkOf t.name < σ.heap.length := lt_length_of_getElem? hb
      refine ⟨⟨r, .float, ?_, hr2, by rw [hr4, hv]⟩, by omega, blk, ?_, rest⟩
      · rw [hoC _ (fun h => (ok.ins t ht).2 (Dense1.valsName_inj h)),
          hoC1 _ (Dense1.valsName_ne_valsCapName' _ _)]
        exact hr1
      · rw [hheapC, List.getElem?_append_left hlt]; exact hb
    · intro x hx r hr
      obtain ⟨f1, f2, f3, f4, f5⟩ := scratch_fresh ok hx
      rw [hC_of x f2 f3 f4 f5, hfresh x f1] at hr
      cases hr
  have houtIs : OutIs σC σ.heap.length (List.replicate n none) := by
    unfold OutIs; rw [hheapC]; simp
  -- D: the loop nest
  obtain ⟨σD, rD, hpost⟩ := loopLines_runs ofRat names he hnm hn hfin σC fuel _ henv houtIs
    (by simp) hfuel
  -- E: out->vals = out_vals
  have hnsO : outT.name ∉ scratch i j outT e := by
    intro hmm
    exact (scratch_fresh ok hmm).1 ok.out
  have hvalsO : valsName outT.name ∉ scratch i j outT e :=
    fun h => names.ro _ (by simp [readOnly]) h
  have hToutD : TensorVar σD outT.name (tix outT.name) := by
    refine hTout.congr ?_
    rw [hpost.frame.vars _ hnsO,
      hC_of _ (by rw [← hfoe]; exact hNne fo hfo _ (Dense1.mem_us_dimName i))
        (by rw [← hfoe]; exact hNne fo hfo _ (Dense1.mem_us_dimName j))
        (fun hm => by
          obtain ⟨f, _, hf⟩ := List.mem_map.1 hm
          exact hNne fo hfo _ (Dense1.mem_us_valsName f.1) (hfoe.trans hf.symm))
        (by rw [← hfoe]; exact hNne fo hfo _ (Dense1.mem_us_valsCapName _))]
  have houtD : PtrVar σD (valsName outT.name) σ.heap.length :=
    houtC.congr (hpost.frame.vars _ hvalsO)
  have htD : σD.tensors = σ.tensors := by rw [hpost.frame.tensors, htC, htC1, htB, htAA]
  have rE := Dense1.runsI_storeVals (fuel := fuel) hToutD houtD (by rw [htD]; exact hotr) hown
  -- the whole body
  have rAll := Dense1.RunsLI.cons (Dense1.RunsI.block (c := some "Extract dimensions")
      (Dense1.RunsLI.cons rA (Dense1.RunsLI.cons rA' (Dense1.RunsLI.nil _ _))))
    (Dense1.RunsLI.cons (Dense1.RunsI.block (c := some "Unpack tensors") rB)
      (Dense1.RunsLI.cons (Dense1.RunsI.block (c := some "Output initialization")
          (Dense1.RunsLI.cons rC1 (Dense1.RunsLI.cons rC2 (Dense1.RunsLI.nil _ _))))
        (Dense1.RunsLI.cons (Dense1.RunsI.block (c := some ("*** Iteration over " ++ i ++ " ***")) rD)
          (Dense1.RunsLI.cons (Dense1.RunsI.block (c := some ("Assembling output tensor " ++ outT.name))
              (Dense1.RunsLI.cons rE (Dense1.RunsLI.nil _ _))) (Dense1.RunsLI.nil _ _)))))
  obtain ⟨o, eo, hret, hst, hit⟩ := Dense1.execL_ret (e := .intLit 0) (v := .int 0) rAll
    (evalE_intLit (by omega) (by omega))
  refine ⟨o, ?_, hret, by rw [hit]; omega, ?_⟩
  · show exec fuel (.block (kernelStmts ofRat formats i j jt jd outT e ++ [.ret (.intLit 0)]) none) σ = _
    rw [exec.eq_5]
    exact eo
  · rw [hst]
    have hklt : tix outT.name < σ.tensors.length := lt_length_of_getElem? hotr
    obtain ⟨cells', hb', hlen, hc1, _⟩ := hpost.out
    refine ⟨⟨otr, hotr, ?_⟩, ?_, ⟨_, hb', rfl, rfl, rfl, ?_⟩, ?_, ?_⟩
    · show (σD.tensors.set _ _)[_]? = _
      rw [htD, List.getElem?_set_self hklt]
    · intro k' hk'
      show (σD.tensors.set _ _)[_]? = _
      rw [htD, List.getElem?_set_ne (Ne.symm hk')]
    · show cells' = _
      apply List.ext_getElem?
      intro k
      simp only [List.length_replicate] at hlen
      by_cases hk : k < n
      · rw [hc1 k (by omega) hk]
        simp [hk]
      · rw [List.getElem?_eq_none (by omega), List.getElem?_eq_none (by simp; omega)]
    · intro b hb
      show σD.heap[b]? = _
      rw [hpost.frame.heap b (by omega), hheapC, List.getElem?_append_left hb]
    · show σD.heap.length = _
      rw [hpost.frame.heapLen, hheapC]; simp

end TV.Dense2
