import TensoraVerif.Lemmas.Dense2Model
import TensoraVerif.Lemmas.Dense1Lower

/-!
C01 for dense kernels with one contraction, part 2: what `lower` emits for the graphs of the class
(U1). `lower` is defined by well-founded recursion; the equation is obtained by unfolding it once
per node and computing every case distinction of the pass on the class.
-/
namespace TV.Dense2
open TV.IR TV.Gen TV.Graph
open TV.Dense1 (leaves valueF allFinite ptrDecl)
variable {F : Type}

theorem isM_iff (i j : String) (t : TensorId) :
    isM i j t = true ↔ t.indexes = [i, j] ∧ t.modes = [.dense, .dense] := by simp [isM]
theorem isJ_iff (j : String) (t : TensorId) :
    isJ j t = true ↔ t.indexes = [j] ∧ t.modes = [.dense] := by simp [isJ]
theorem isI_iff (i : String) (t : TensorId) :
    isI i t = true ↔ t.indexes = [i] ∧ t.modes = [.dense] := by simp [isI]

theorem isExpr_mem {i j : String} {e : IdExpr} (h : isExpr i j e = true) :
    ∀ t ∈ leaves e, isLeaf i j t = true := fun t ht => List.all_eq_true.1 h t ht

/-- the three kinds are exclusive (`i ≠ j`) -/
theorem kind_cases {i j : String} (hij : i ≠ j) {t : TensorId} (h : isLeaf i j t = true) :
    (isM i j t = true ∧ isJ j t = false ∧ isI i t = false) ∨
    (isM i j t = false ∧ isJ j t = true ∧ isI i t = false) ∨
    (isM i j t = false ∧ isJ j t = false ∧ isI i t = true) := by
  simp only [isLeaf, Bool.or_eq_true] at h
  rcases h with (h | h) | h
  · left
    have h' := (isM_iff i j t).1 h
    refine ⟨h, ?_, ?_⟩ <;> simp [isJ, isI, h'.1]
  · right; left
    have h' := (isJ_iff j t).1 h
    refine ⟨?_, h, ?_⟩
    · simp [isM, h'.1]
    · simp [isI, h'.1, Ne.symm hij]
  · right; right
    have h' := (isI_iff i t).1 h
    refine ⟨?_, ?_, h⟩
    · simp [isM, h'.1]
    · simp [isJ, h'.1, hij]

/-- the dense leaf of `t` in the loop over `j` -/
def jLeaf (i j : String) (t : TensorId) : List Leaf :=
  if isM i j t then [⟨t, 1⟩] else if isJ j t then [⟨t, 0⟩] else []

/-- the loop context of `e` at `i`: no sparse leaf, one dense leaf per `[i,…]` tensor occurrence -/
theorem extractContext_i (i j : String) (hij : i ≠ j) (e : IdExpr) (h : isExpr i j e = true) :
    (extractContext e i).sparseLeaves = [] ∧
    (extractContext e i).denseLeaves = ((leaves e).filter (hasI i j)).map (fun t => ⟨t, 0⟩) := by
  induction e with
  | int v => simp [extractContext, leaves]
  | flt v => simp [extractContext, leaves]
  | tensor t =>
    have hk := kind_cases hij (isExpr_mem h t (by simp [leaves]))
    rcases hk with ⟨h1, h2, h3⟩ | ⟨h1, h2, h3⟩ | ⟨h1, h2, h3⟩
    · have h' := (isM_iff i j t).1 h1
      have hfi : List.findIdx? (fun x => x == i) [i, j] = some 0 := by
        simp [List.findIdx?_cons]
      simp [extractContext, leaves, hasI, h1, h'.1, h'.2, hfi]
    · have h' := (isJ_iff j t).1 h2
      simp [extractContext, leaves, hasI, h1, h3, h'.1, Ne.symm hij]
    · have h' := (isI_iff i t).1 h3
      simp [extractContext, leaves, hasI, h1, h3, h'.1, h'.2]
  | add l r ihl ihr =>
    simp only [isExpr, leaves, List.all_append, Bool.and_eq_true] at h
    simp [extractContext, Context.add, leaves, ihl h.1, ihr h.2]
  | mul l r ihl ihr =>
    simp only [isExpr, leaves, List.all_append, Bool.and_eq_true] at h
    simp [extractContext, Context.mul, leaves, ihl h.1, ihr h.2]

/-- the loop context of `e` at `j` -/
theorem extractContext_j (i j : String) (hij : i ≠ j) (e : IdExpr) (h : isExpr i j e = true) :
    (extractContext e j).sparseLeaves = [] ∧
    (extractContext e j).denseLeaves = (leaves e).flatMap (jLeaf i j) := by
  induction e with
  | int v => simp [extractContext, leaves]
  | flt v => simp [extractContext, leaves]
  | tensor t =>
    have hk := kind_cases hij (isExpr_mem h t (by simp [leaves]))
    rcases hk with ⟨h1, h2, h3⟩ | ⟨h1, h2, h3⟩ | ⟨h1, h2, h3⟩
    · have h' := (isM_iff i j t).1 h1
      have hfi : List.findIdx? (fun x => x == j) [i, j] = some 1 := by
        simp [List.findIdx?_cons, hij]
      simp [extractContext, leaves, jLeaf, h1, h'.1, h'.2, hfi]
    · have h' := (isJ_iff j t).1 h2
      simp [extractContext, leaves, jLeaf, h1, h2, h'.1, h'.2]
    · have h' := (isI_iff i t).1 h3
      simp [extractContext, leaves, jLeaf, h1, h2, h'.1, hij]
  | add l r ihl ihr =>
    simp only [isExpr, leaves, List.all_append, Bool.and_eq_true] at h
    simp [extractContext, Context.add, leaves, ihl h.1, ihr h.2]
  | mul l r ihl ihr =>
    simp only [isExpr, leaves, List.all_append, Bool.and_eq_true] at h
    simp [extractContext, Context.mul, leaves, ihl h.1, ihr h.2]


/-! ### the pieces of the pass on the class -/

theorem context_outer (i j : String) (outT : TensorId) (e : IdExpr) :
    nodeContext (graph i j outT e) = extractContext e i := by
  simp [graph, nodeContext, IGraph.context]

theorem context_inner (j : String) (e : IdExpr) :
    nodeContext (.iter j none (.terminal e)) = extractContext e j := by
  simp [nodeContext, IGraph.context]

/-- no compressed dimension: the lattice of sub-graphs is the graph itself -/
theorem generateSubgraphs_outer (i j : String) (hij : i ≠ j) (outT : TensorId) (e : IdExpr)
    (h : isExpr i j e = true) : generateSubgraphs (graph i j outT e) = [graph i j outT e] := by
  have hc : compressedDims (graph i j outT e) = [] := by
    simp [compressedDims, context_outer, (extractContext_i i j hij e h).1, dedupStr]
  simp [generateSubgraphs, hc, generateSubgraphs.go, sortByLenDesc]

theorem generateSubgraphs_inner (i j : String) (hij : i ≠ j) (e : IdExpr)
    (h : isExpr i j e = true) :
    generateSubgraphs (.iter j none (.terminal e)) = [.iter j none (.terminal e)] := by
  have hc : compressedDims (.iter j none (.terminal e)) = [] := by
    simp [compressedDims, context_inner, (extractContext_j i j hij e h).1, dedupStr]
  simp [generateSubgraphs, hc, generateSubgraphs.go, sortByLenDesc]

/-- the terminal under a bucket output without layers: `bucket[0] = bucket[0] + <e>` -/
theorem lower_terminal_bucket (ofRat : Rat → F) (n : Nat) (outT : TensorId) (e : IdExpr)
    (hm : outT.modes = [.dense]) :
    lower ofRat (n + 1) (.terminal e) (.bucket outT []) .evaluate =
      .ok ⟨some "*** Computation of expression ***", [accStmt ofRat outT e]⟩ := by
  unfold lower
  have hw : (Output.bucket outT []).writtenFlags = [] := by
    simp [Output.writtenFlags, Output.tensor, hm, List.range, List.range.loop]
  simp [Kind.isCompute, hw, Output.writeAssignment, SB.mk', SB.append, SB.add, SB.empty,
    accStmt, ravelIndexes, bucketDims, addJoin, joinWith, bind, Except.bind, pure, Except.pure]

/-- the cursor of level 0 of an `[i,…]` tensor becomes computable in the loop over `i` -/
theorem layersToWrite_outer (i j : String) (hij : i ≠ j) (t : TensorId) (h : hasI i j t = true) :
    layersToWrite ⟨t, 0⟩ i [i, j] = [⟨t, 0⟩] := by
  simp only [hasI, Bool.or_eq_true] at h
  rcases h with h | h
  · have h' := (isM_iff i j t).1 h
    simp [layersToWrite, h'.1, h'.2, List.range, List.range.loop, hij, Ne.symm hij]
  · have h' := (isI_iff i t).1 h
    simp [layersToWrite, h'.1, h'.2, List.range, List.range.loop]

/-- the cursor of level 1 of an `[i,j]` tensor becomes computable in the loop over `j` -/
theorem layersToWrite_M (i j : String) (hij : i ≠ j) (t : TensorId) (h : isM i j t = true) :
    layersToWrite ⟨t, 1⟩ j [j] = [⟨t, 1⟩] := by
  have h' := (isM_iff i j t).1 h
  simp [layersToWrite, h'.1, h'.2, List.range, List.range.loop, hij, Ne.symm hij]

theorem foldl_outerDecls (i j : String) (hij : i ≠ j) (ls : List TensorId)
    (hl : ∀ t ∈ ls, hasI i j t = true) :
    ∀ (body : SB F),
    (ls.map (fun t => (⟨t, 0⟩ : Leaf))).foldl (fun body leaf =>
        (layersToWrite leaf i [i, j]).foldl (fun body layer =>
          let idxI := layer.index
          body.add (declAssignE layer.ptr .int
            (plus (times layer.prevPtr (.var (dimName idxI))) (.var idxI)))) body) body
      = ⟨body.comment, body.lines ++ ls.map (ptrDecl i)⟩ := by
  induction ls with
  | nil => intro body; simp
  | cons t ts ih =>
    intro body
    have ht := hl t (by simp)
    rw [List.map_cons, List.foldl_cons, layersToWrite_outer i j hij t ht,
      ih (fun x hx => hl x (by simp [hx]))]
    have hidx : t.indexes[0]?.getD "" = i := by
      simp only [hasI, Bool.or_eq_true] at ht
      rcases ht with h | h
      · simp [((isM_iff i j t).1 h).1]
      · simp [((isI_iff i t).1 h).1]
    simp [SB.add, ptrDecl, Leaf.index, Leaf.ptr, Leaf.prevPtr, prevLayerPointer, hidx]

theorem foldl_innerDecls (i j : String) (hij : i ≠ j) (ls : List TensorId)
    (hl : ∀ t ∈ ls, isLeaf i j t = true) :
    ∀ (body : SB F),
    (ls.flatMap (jLeaf i j)).foldl (fun body leaf =>
        (layersToWrite leaf j [j]).foldl (fun body layer =>
          let idxI := layer.index
          body.add (declAssignE layer.ptr .int
            (plus (times layer.prevPtr (.var (dimName idxI))) (.var idxI)))) body) body
      = ⟨body.comment, body.lines ++ ls.flatMap (innerDecl i j)⟩ := by
  induction ls with
  | nil => intro body; simp
  | cons t ts ih =>
    intro body
    have ht := hl t (by simp)
    rw [List.flatMap_cons, List.foldl_append, ih (fun x hx => hl x (by simp [hx]))]
    rcases kind_cases hij ht with ⟨h1, h2, h3⟩ | ⟨h1, h2, h3⟩ | ⟨h1, h2, h3⟩
    · have h' := (isM_iff i j t).1 h1
      simp [jLeaf, innerDecl, h1, layersToWrite_M i j hij t h1, SB.add, mDecl, Leaf.index,
        Leaf.ptr, Leaf.prevPtr, prevLayerPointer, h'.1]
    · have h' := (isJ_iff j t).1 h2
      simp [jLeaf, innerDecl, h1, h2, Dense1.layersToWrite_eq j t h2, SB.add, ptrDecl, Leaf.index,
        Leaf.ptr, Leaf.prevPtr, prevLayerPointer, h'.1]
    · simp [jLeaf, innerDecl, h1, h2]

end TV.Dense2
