import TensoraVerif.Lemmas.Dense2Lower

/-!
C01 for dense kernels with one contraction, part 3 (U1): the equations for `lower` on the inner
node (`lower_inner_eq`) and on the whole graph (`lower_eq`).
-/
namespace TV.Dense2
open TV.IR TV.Gen TV.Graph
open TV.Dense1 (leaves valueF allFinite ptrDecl)
variable {F : Type}

/-- **the inner node**: under the append output at layer 1 of an order-1 output, `lower` opens a
bucket (`Output.next none`), zero-initialises it, and emits the loop over `j` accumulating into it -/
theorem lower_inner_eq (ofRat : Rat → F) (n : Nat) (i j : String) (hij : i ≠ j) (outT : TensorId)
    (e : IdExpr) (ho : isI i outT = true) (he : isExpr i j e = true)
    (hsp : (extractContext e j).isSparse = false) :
    lower ofRat (n + 2) (.iter j none (.terminal e)) (.append outT 1) .evaluate =
      .ok ⟨some ("*** Iteration over " ++ j ++ " ***"), innerLines ofRat i j outT e⟩ := by
  have ho' := (isI_iff i outT).1 ho
  have hctx := extractContext_j i j hij e he
  have hsub := generateSubgraphs_inner i j hij e he
  unfold lower
  simp only [Kind.isCompute, Bool.not_true, Bool.false_and, Bool.false_eq_true, if_false]
  have hnext : ((Output.append outT 1).next none Kind.evaluate : Except GenErr (Output × SB F)) =
      .ok (.bucket outT [], ⟨some "Bucket initialization", bucketInitLines outT⟩) := by
    simp [Output.next, ho'.1, ho'.2, Kind.isCompute, bucketDeclarations, SB.mk', SB.add, SB.loop,
      bucketInitLines, bucketZeroLoop, bucketZeroBody, bucketDims, mulJoin, joinWith,
      prevLayerPointer, List.range, List.range.loop]
  have hnc := context_inner j e
  have hlater : (IGraph.iter j none (IGraph.terminal e)).laterIndexes = [j] := by
    simp [IGraph.laterIndexes]
  have hterm := lower_terminal_bucket ofRat n outT e ho'.2
  simp only [isSparseOutput, Option.map_none, hnext, hsub, hnc, hctx.1, hctx.2, hsp, hlater, hterm,
    Bool.or_false, Bool.false_and, Bool.false_eq_true, if_false, if_true,
    List.foldlM_cons, List.foldlM_nil, bind, Except.bind, pure, Except.pure,
    List.isEmpty_nil, Bool.not_true, Option.isNone_none, Bool.not_false, List.foldl_nil,
    List.map_nil, List.nil_append]
  have hfold := foldl_innerDecls (F := F) i j hij (leaves e) (isExpr_mem he) SB.empty
  rw [hfold]
  simp [SB.mk', SB.append, SB.empty, SB.add, SB.loop, SB.finalize, branchJoin, andJoin, joinWith,
    innerLines, innerLoop, innerBody]

/-- **U1. What `lower` emits on the class**: `int i = 0; while (i < i_dim) { … }` (`loopLines`). -/
theorem lower_eq (ofRat : Rat → F) (n : Nat) (i j : String) (hij : i ≠ j) (outT : TensorId)
    (e : IdExpr) (ho : isI i outT = true) (he : isExpr i j e = true)
    (hsp : (extractContext e j).isSparse = false) :
    lower ofRat (n + 3) (graph i j outT e) (.append outT 0) .evaluate =
      .ok ⟨some ("*** Iteration over " ++ i ++ " ***"), loopLines ofRat i j outT e⟩ := by
  have ho' := (isI_iff i outT).1 ho
  have hctx := extractContext_i i j hij e he
  have hsub := generateSubgraphs_outer i j hij outT e he
  have hnc := context_outer i j outT e
  unfold graph at hsub hnc ⊢
  unfold lower
  simp only [Kind.isCompute, Bool.not_true, Bool.false_and, Bool.false_eq_true, if_false]
  have hso : isSparseOutput (IGraph.iter i (some { tensor := outT, layer := 0 })
      (IGraph.iter j none (IGraph.terminal e))) = false := by
    simp [isSparseOutput, Leaf.mode, ho'.2]
  have hmode : ({ tensor := outT, layer := 0 } : Leaf).mode = Mode.dense := by simp [Leaf.mode, ho'.2]
  have hnext : ((Output.append outT 0).next (some 0) Kind.evaluate : Except GenErr (Output × SB F)) =
      .ok (.append outT 1, SB.empty) := by simp [Output.next]
  have hlater : (IGraph.iter i (some { tensor := outT, layer := 0 })
      (IGraph.iter j none (IGraph.terminal e))).laterIndexes = [i, j] := by
    simp [IGraph.laterIndexes]
  have hin := lower_inner_eq ofRat n i j hij outT e ho he hsp
  simp only [hso, hmode, Option.map_some, hnext, hsub, hnc, hctx.1, hctx.2, hlater, hin,
    Bool.and_false, Bool.or_false, Bool.false_and, Bool.false_eq_true, if_false, if_true,
    List.foldlM_cons, List.foldlM_nil, bind, Except.bind, pure, Except.pure,
    List.isEmpty_nil, Bool.not_true, Option.isNone_some, Bool.not_false, List.foldl_nil, beq_self_eq_true,
    List.map_nil, List.nil_append]
  have hall : ∀ t ∈ outT :: (leaves e).filter (hasI i j), hasI i j t = true := by
    intro t ht
    rcases List.mem_cons.1 ht with rfl | ht
    · simp [hasI, ho]
    · exact (List.mem_filter.1 ht).2
  have hfold := foldl_outerDecls (F := F) i j hij (outT :: (leaves e).filter (hasI i j)) hall SB.empty
  rw [List.map_cons] at hfold
  rw [List.singleton_append, hfold]
  simp [SB.mk', SB.append, SB.empty, SB.add, SB.loop, SB.finalize, branchJoin, andJoin, joinWith,
    loopLines, outerLoop, outerBody, outerPtrs]

end TV.Dense2
