import TensoraVerif.Lemmas.Dense1Model

/-!
C01 for dense kernels with one contraction (matrix–vector class), part 1: definitions.

The class: `out(i) = Σ_j e` where `out` is an order-1 dense tensor indexed by `i` and every tensor
leaf of `e` is dense and of one of three kinds
* `isM i j` — order 2, indexes `[i, j]` (like `B(i,j)`), cell `ii * m + jj`;
* `isJ j`   — order 1, indexes `[j]`    (like `c(j)`),   cell `jj`;
* `isI i`   — order 1, indexes `[i]`    (like `d(i)`),   cell `ii`.
The required case is `e = B(i,j) * c(j)`.

* `Dense2.graph`: the iteration graph the pipeline chooses;
* `Dense2.rhoAt`, `Dense2.dotF`: the float meaning — the terminal expression at `(ii, jj)` and the
  sum over `jj` accumulated IN LOOP ORDER from the zero the bucket initialisation writes
  (`FloatOps.ofInt 0`: the statement is `bucket[k] = 0` with an INTEGER literal, converted by the
  store);
* `Dense2.loopLines`: the loop nest that `lower` emits, written out.
-/
namespace TV.Dense2
open TV.IR TV.Gen TV.Graph
open TV.Dense1 (leaves valueF allFinite ptrDecl)

variable {F : Type} [FloatOps F]

/-! ### the class -/

/-- an order-2 dense tensor indexed by `[i, j]` -/
def isM (i j : String) (t : TensorId) : Bool :=
  t.indexes == [i, j] && t.modes == [Mode.dense, Mode.dense]
/-- an order-1 dense tensor indexed by `[j]` -/
def isJ (j : String) (t : TensorId) : Bool := t.indexes == [j] && t.modes == [Mode.dense]
/-- an order-1 dense tensor indexed by `[i]` -/
def isI (i : String) (t : TensorId) : Bool := t.indexes == [i] && t.modes == [Mode.dense]

/-- a leaf of the class -/
def isLeaf (i j : String) (t : TensorId) : Bool := isM i j t || isJ j t || isI i t
/-- the leaves whose first level is indexed by `i` (their cursor `p_<id>_0` is declared in the
outer loop) -/
def hasI (i j : String) (t : TensorId) : Bool := isM i j t || isI i t

/-- every tensor leaf of `e` is of the class -/
def isExpr (i j : String) (e : IdExpr) : Bool := (leaves e).all (isLeaf i j)

/-- the cursors of two leaves do not interfere: a `[j]`-leaf and an `[i]`/`[i,j]`-leaf never share
an id (ids are `<occurrence number>_<name>` in the pipeline, so all ids are distinct) -/
def idsOK (i j : String) (e : IdExpr) : Bool :=
  (leaves e).all fun t => (leaves e).all fun t' => !(isJ j t && hasI i j t' && t.id == t'.id)

/-- the iteration graph of `out(i) = Σ_j e` -/
def graph (i j : String) (outT : TensorId) (e : IdExpr) : IGraph :=
  .iter i (some ⟨outT, 0⟩) (.iter j none (.terminal e))

/-! ### meaning -/

/-- the cell of `<t.name>_vals` that leaf `t` addresses at coordinates `(ii, jj)`, `m` = `j_dim` -/
def cellIx (i j : String) (m ii jj : Nat) (t : TensorId) : Nat :=
  if isM i j t then ii * m + jj else if isJ j t then jj else ii

/-- the number of cells of `<t.name>_vals` the kernel may read -/
def cellCount (i j : String) (n m : Nat) (t : TensorId) : Nat :=
  if isM i j t then n * m else if isJ j t then m else n

/-- the value of tensor occurrence `t` at `(ii, jj)` when array `<name>_vals` holds `cellsOf name` -/
def rhoAt (i j : String) (m : Nat) (cellsOf : String → Nat → F) (ii jj : Nat) : TensorId → F :=
  fun t => cellsOf t.name (cellIx i j m ii jj t)

/-- the terminal expression at `(ii, jj)` -/
def termF (ofRat : Rat → F) (i j : String) (m : Nat) (cellsOf : String → Nat → F) (e : IdExpr)
    (ii jj : Nat) : F :=
  valueF ofRat (rhoAt i j m cellsOf ii jj) e

/-- **the sum in loop order**: `((0 + t₀) + t₁) + … + t_{k-1}` with `0 = FloatOps.ofInt 0` (what the
bucket initialisation stores) and `t_jj` the terminal expression at `(ii, jj)` -/
def dotF (ofRat : Rat → F) (i j : String) (m : Nat) (cellsOf : String → Nat → F) (e : IdExpr)
    (ii : Nat) : Nat → F
  | 0 => FloatOps.ofInt 0
  | k + 1 => FloatOps.add (dotF ofRat i j m cellsOf e ii k) (termF ofRat i j m cellsOf e ii k)

/-- what the machine checks at `(ii, jj)`: every sub-result of the terminal expression, the
accumulator read back, and the new running sum are finite -/
def stepFinite (ofRat : Rat → F) (i j : String) (m : Nat) (cellsOf : String → Nat → F) (e : IdExpr)
    (ii jj : Nat) : Bool :=
  allFinite ofRat (rhoAt i j m cellsOf ii jj) e &&
  FloatOps.finite (dotF ofRat i j m cellsOf e ii jj) &&
  FloatOps.finite (dotF ofRat i j m cellsOf e ii (jj + 1))

/-! ### the emitted loop nest -/

/-- the tensors whose cursor `p_<id>_0` the outer loop declares: the output, then the `[i,…]` leaves -/
def outerPtrs (i j : String) (outT : TensorId) (e : IdExpr) : List TensorId :=
  outT :: (leaves e).filter (hasI i j)

/-- `int p_<id>_1 = p_<id>_0 * j_dim + j;` -/
def mDecl (j : String) (t : TensorId) : Stmt F :=
  declAssignE (layerPointer t.id 1) .int
    (plus (times (.var (layerPointer t.id 0)) (.var (dimName j))) (.var j))

/-- the cursor declaration of leaf `t` in the inner loop -/
def innerDecl (i j : String) (t : TensorId) : List (Stmt F) :=
  if isM i j t then [mDecl j t] else if isJ j t then [ptrDecl j t] else []

/-- `bucket[i_bucket] = 0; i_bucket = i_bucket + 1;` -/
def bucketZeroBody (outT : TensorId) : List (Stmt F) :=
  [.assign (.idx (.var (bucketName outT [])) (.var (bucketLoopName outT []))) (.intLit 0),
   increment (.var (bucketLoopName outT [])) (.intLit 1)]

/-- `while (i_bucket < 1) { … }` -/
def bucketZeroLoop (outT : TensorId) : Stmt F :=
  .loop (.bin .lt (.var (bucketLoopName outT [])) (.intLit 1)) (.block (bucketZeroBody outT) none)

/-- `double* bucket = out_vals + p_<out>_0 * 1; int i_bucket = 0; while (i_bucket < 1) {…}` -/
def bucketInitLines (outT : TensorId) : List (Stmt F) :=
  [declAssignE (bucketName outT []) (.ptr .float)
      (plus (.var (valsName outT.name)) (times (.var (layerPointer outT.id 0)) (.intLit 1))),
   declAssignE (bucketLoopName outT []) .int (.intLit 0),
   bucketZeroLoop outT]

/-- `bucket[0] = bucket[0] + <e>;` -/
def accStmt (ofRat : Rat → F) (outT : TensorId) (e : IdExpr) : Stmt F :=
  increment (.idx (.var (bucketName outT [])) (.intLit 0)) (toIrWith ofRat e)

def innerBody (ofRat : Rat → F) (i j : String) (outT : TensorId) (e : IdExpr) : List (Stmt F) :=
  (leaves e).flatMap (innerDecl i j) ++
  [.branch (.boolLit true)
      (.block [.block [accStmt ofRat outT e] (some "*** Computation of expression ***")] none)
      (.block [] none),
   increment (.var j) (.intLit 1)]

/-- `while (j < j_dim) { … }` -/
def innerLoop (ofRat : Rat → F) (i j : String) (outT : TensorId) (e : IdExpr) : Stmt F :=
  .loop (.bin .lt (.var j) (.var (dimName j))) (.block (innerBody ofRat i j outT e) none)

/-- `{bucket initialisation} int j = 0; while (j < j_dim) { … }` -/
def innerLines (ofRat : Rat → F) (i j : String) (outT : TensorId) (e : IdExpr) : List (Stmt F) :=
  [.block (bucketInitLines outT) (some "Bucket initialization"),
   declAssignE j .int (.intLit 0), innerLoop ofRat i j outT e]

def outerBody (ofRat : Rat → F) (i j : String) (outT : TensorId) (e : IdExpr) : List (Stmt F) :=
  (outerPtrs i j outT e).map (ptrDecl i) ++
  [.branch (.boolLit true)
      (.block [.block (innerLines ofRat i j outT e) (some ("*** Iteration over " ++ j ++ " ***"))] none)
      (.block [] none),
   increment (.var i) (.intLit 1)]

/-- `while (i < i_dim) { … }` -/
def outerLoop (ofRat : Rat → F) (i j : String) (outT : TensorId) (e : IdExpr) : Stmt F :=
  .loop (.bin .lt (.var i) (.var (dimName i))) (.block (outerBody ofRat i j outT e) none)

/-- `int i = 0; while (i < i_dim) { … }` -/
def loopLines (ofRat : Rat → F) (i j : String) (outT : TensorId) (e : IdExpr) : List (Stmt F) :=
  [declAssignE i .int (.intLit 0), outerLoop ofRat i j outT e]

end TV.Dense2
