import TensoraVerif.Lemmas.Dense2Outer
import TensoraVerif.Lemmas.ToIrTerminal

/-!
C01 for dense kernels with one contraction, part 9: the distinctness of the variable names of the
loop nest from the naming scheme (`names_of_index`): index names and tensor names without `'_'`
(every name the parser accepts is alphanumeric), `i ≠ j`, an output id containing `'_'` (ids are
`<occurrence number>_<name>`), and no id shared between a `[j]`-leaf and an `[i,…]`-leaf.
-/
namespace TV.Dense2
open TV.IR TV.Gen TV.Graph TV.Growth
open TV.Dense1 (leaves ptrName)

theorem getLast?_lp0 (ref : String) : (layerPointer ref 0).toList.getLast? = some '0' := by
  simp only [layerPointer, String.toList_append, List.getLast?_append]; rfl
theorem getLast?_lp1 (ref : String) : (layerPointer ref 1).toList.getLast? = some '1' := by
  simp only [layerPointer, String.toList_append, List.getLast?_append]; rfl

theorem lp1_ne_lp0 (a b : String) : layerPointer a 1 ≠ layerPointer b 0 :=
  ne_of_getLast?_ne (by rw [getLast?_lp1, getLast?_lp0]; decide)

theorem lp0_inj {a b : String} (h : layerPointer a 0 = layerPointer b 0) : a = b := by
  unfold layerPointer at h
  exact (String.append_right_inj _).1 ((String.append_left_inj _).1 ((String.append_left_inj _).1 h))

theorem head?_lp (ref : String) (l : Nat) : (layerPointer ref l).toList.head? = some 'p' := by
  simp [layerPointer, String.toList_append]
theorem head?_bN (t : TensorId) : (bN t).toList.head? = some 'b' := by
  simp [bN, bucketName, String.toList_append]
theorem head?_bL (t : TensorId) : (bL t).toList.head? = some 'i' := by
  simp [bL, bucketLoopName, String.toList_append]

theorem mem_us_lp (ref : String) (l : Nat) : '_' ∈ (layerPointer ref l).toList := by
  simp [layerPointer, String.toList_append]
theorem mem_us_bN (t : TensorId) : '_' ∈ (bN t).toList := by
  simp [bN, bucketName, String.toList_append]
theorem mem_us_bL (t : TensorId) : '_' ∈ (bL t).toList := by
  simp [bL, bucketLoopName, String.toList_append]

theorem count_bN (t : TensorId) : (bN t).toList.count '_' = 1 + t.id.toList.count '_' := by
  simp [bN, bucketName, bucketSuffix, String.toList_append]; omega
theorem count_bL (t : TensorId) : (bL t).toList.count '_' = 2 + t.id.toList.count '_' := by
  simp [bL, bucketLoopName, bucketSuffix, String.toList_append]; omega
theorem count_dimName {i : String} (h : '_' ∉ i.toList) : (dimName i).toList.count '_' = 1 := by
  simp [dimName, String.toList_append, List.count_append, List.count_eq_zero_of_not_mem h]
theorem count_valsName {i : String} (h : '_' ∉ i.toList) : (valsName i).toList.count '_' = 1 := by
  simp [valsName, String.toList_append, List.count_append, List.count_eq_zero_of_not_mem h]

theorem ne_of_count_ne {s t : String} (h : s.toList.count '_' ≠ t.toList.count '_') : s ≠ t := by
  intro e; exact h (by rw [e])

/-- a cursor name is a `layerPointer` -/
theorem cursor_cases {i j : String} {outT : TensorId} {e : IdExpr} {x : String}
    (h : x ∈ outerCursors i j outT e ++ innerCursors i j e) : ∃ ref l, x = layerPointer ref l := by
  rcases List.mem_append.1 h with h | h
  · obtain ⟨t, _, rfl⟩ := List.mem_map.1 h
    exact ⟨t.id, 0, rfl⟩
  · obtain ⟨t, _, hc⟩ := mem_innerCursor_cases h
    rcases hc with ⟨_, rfl⟩ | ⟨_, _, rfl⟩
    · exact ⟨t.id, 1, rfl⟩
    · exact ⟨t.id, 0, rfl⟩

/-- **names.** The naming scheme makes all the names of the loop nest distinct. -/
theorem names_of_index (i j : String) (outT : TensorId) (e : IdExpr)
    (hi : '_' ∉ i.toList) (hj : '_' ∉ j.toList) (hij : i ≠ j)
    (hnames : ∀ t ∈ outT :: leaves e, '_' ∉ t.name.toList) (hid : '_' ∈ outT.id.toList)
    (hids : idsOK i j e = true) : Names i j outT e := by
  have hcur_us : ∀ x ∈ outerCursors i j outT e ++ innerCursors i j e, '_' ∈ x.toList := by
    intro x hx
    obtain ⟨ref, l, rfl⟩ := cursor_cases hx
    exact mem_us_lp ref l
  have hcur_head : ∀ x ∈ outerCursors i j outT e ++ innerCursors i j e, x.toList.head? = some 'p' := by
    intro x hx
    obtain ⟨ref, l, rfl⟩ := cursor_cases hx
    exact head?_lp ref l
  have hbN_cur : bN outT ∉ outerCursors i j outT e ++ innerCursors i j e := fun h => by
    have h1 := hcur_head _ h
    rw [head?_bN] at h1
    exact absurd h1 (by decide)
  have hbL_cur : bL outT ∉ outerCursors i j outT e ++ innerCursors i j e := fun h => by
    have h1 := hcur_head _ h
    rw [head?_bL] at h1
    exact absurd h1 (by decide)
  have hbNL : bN outT ≠ bL outT := ToIr.ne_of_head?_ne (by rw [head?_bN, head?_bL]; decide)
  have hidc : 1 ≤ outT.id.toList.count '_' := List.count_pos_iff.2 hid
  refine ⟨hij, ?_, ?_, ?_, ?_, ?_, ?_, ?_⟩
  · -- i is not written by anything else
    intro h
    rcases List.mem_append.1 h with h | h
    · exact ne_of_underscore hi (hcur_us _ (List.mem_append.2 (Or.inl h))) rfl
    · simp only [innerW, List.mem_cons] at h
      rcases h with h | h | h | h
      · exact hij h
      · exact ne_of_underscore hi (mem_us_bN outT) h
      · exact ne_of_underscore hi (mem_us_bL outT) h
      · exact ne_of_underscore hi (hcur_us _ (List.mem_append.2 (Or.inr h))) rfl
  · intro h
    exact ne_of_underscore hj (hcur_us _ h) rfl
  · intro x _ hx
    subst hx
    simp only [List.mem_cons, not_or]
    exact ⟨(ne_of_underscore hi (mem_us_bN outT)).symm, (ne_of_underscore hj (mem_us_bN outT)).symm,
      hbNL, hbN_cur⟩
  · simp only [List.mem_cons, not_or]
    exact ⟨(ne_of_underscore hj (mem_us_bL outT)).symm, hbL_cur⟩
  · -- the read-only names
    intro x hx
    have hx' : x.toList.count '_' = 1 ∧ ∃ c, x.toList.getLast? = some c ∧ c.isDigit = false := by
      simp only [readOnly, List.mem_cons, List.mem_map] at hx
      rcases hx with rfl | rfl | ⟨t, ht, rfl⟩
      · exact ⟨count_dimName hi, 'm', Dense1.getLast?_dimName i, by decide⟩
      · exact ⟨count_dimName hj, 'm', Dense1.getLast?_dimName j, by decide⟩
      · exact ⟨count_valsName (hnames t (by simpa using ht)), 's', Dense1.getLast?_valsName _, by decide⟩
    obtain ⟨hc1, c, hlast, hdig⟩ := hx'
    have hus : '_' ∈ x.toList := List.count_pos_iff.1 (by omega)
    have hx_cur : x ∉ outerCursors i j outT e ++ innerCursors i j e := by
      intro h
      obtain ⟨ref, l, rfl⟩ := cursor_cases h
      obtain ⟨ch, h1, h2⟩ := layerPointer_getLast? ref l
      rw [h1] at hlast; cases hlast
      rw [h2] at hdig; cases hdig
    intro h
    simp only [scratch, innerW, List.mem_cons, List.mem_append] at h
    rcases h with (h | h) | h | h | h | h
    · exact ne_of_underscore hi hus h.symm
    · exact hx_cur (List.mem_append.2 (Or.inl h))
    · exact ne_of_underscore hj hus h.symm
    · have := count_bN outT; rw [← h] at this; omega
    · have := count_bL outT; rw [← h] at this; omega
    · exact hx_cur (List.mem_append.2 (Or.inr h))
  · -- the cursor of an `[i,…]` leaf is not redeclared
    intro t ht hI h
    simp only [innerW, List.mem_cons] at h
    rcases h with h | h | h | h
    · exact ne_of_underscore hj (Dense1.mem_underscore_ptrName t) h.symm
    · exact ToIr.ne_of_head?_ne (by rw [head?_bN]; unfold ptrName; rw [head?_lp]; decide) h.symm
    · exact ToIr.ne_of_head?_ne (by rw [head?_bL]; unfold ptrName; rw [head?_lp]; decide) h.symm
    · obtain ⟨t', ht', hc⟩ := mem_innerCursor_cases h
      rcases hc with ⟨_, hc⟩ | ⟨_, hJ, hc⟩
      · exact lp1_ne_lp0 _ _ hc.symm
      · have hidne := List.all_eq_true.1 (List.all_eq_true.1 hids t' ht') t ht
        have : t'.id = t.id := (lp0_inj hc).symm
        simp [hJ, hI, this] at hidne
  · intro t _ t' _
    exact lp1_ne_lp0 _ _

end TV.Dense2
