import TensoraVerif.Lemmas.Dense2InnerLoop

/-!
C01 for dense kernels with one contraction, part 8: the outer loop on the machine — one iteration
(`outerBody_runs`), the `while` loop by induction on the remaining iterations (`outerLoop_runs`),
and the lowered loop nest with its initialisation (`loopLines_runs`): U2.
-/
namespace TV.Dense2
open TV.IR TV.Gen TV.Graph TV.Growth
open TV.ToIr hiding leaves valueF allFinite evalE_fadd evalE_fmul
open TV.Dense1 (leaves valueF allFinite ptrDecl ptrName RunsI RunsLI)
set_option linter.unusedSectionVars false
variable {F : Type} [FloatOps F]

theorem i_mem_scratch (i j : String) (outT : TensorId) (e : IdExpr) : i ∈ scratch i j outT e := by
  simp [scratch]

theorem i_ne_bN {i j : String} {outT : TensorId} {e : IdExpr} (names : Names i j outT e) :
    i ≠ bN outT := by
  intro h
  have := names.bNne i (i_mem_scratch i j outT e) h
  exact this (by simp)

theorem outerCursor_ne_bN {i j : String} {outT : TensorId} {e : IdExpr} (names : Names i j outT e)
    {x : String} (h : x ∈ outerCursors i j outT e) : x ≠ bN outT := by
  intro hb
  have := names.bNne x (mem_scratch_of_outer h) hb
  exact this (by simp only [List.mem_cons, List.mem_append]; exact Or.inr (Or.inr (Or.inr (Or.inl h))))

/-- **one iteration of the outer loop** at `i = ii` -/
theorem outerBody_runs (ofRat : Rat → F) {i j : String} {outT : TensorId} {e : IdExpr}
    (names : Names i j outT e) (he : isExpr i j e = true)
    {n m ob : Nat} {blkOf : String → Nat} {cellsOf : String → Nat → F}
    (hnm : ((n * m : Nat) : Int) < 2147483648) (hn : (n : Int) < 2147483648)
    (hmI : (m : Int) < 2147483648)
    {ii : Nat} (hii : ii < n) {cells : List (Option (Val F))} (hlen : ii < cells.length)
    (hfin : ∀ jj, jj < m → stepFinite ofRat i j m cellsOf e ii jj = true)
    (σ : State F) (fuel : Nat) (henv : Env i j outT e n m ob blkOf cellsOf σ)
    (hout : OutIs σ ob cells) (hi : IntVar σ i ii) (hfuel : m + 2 ≤ fuel) :
    ∃ σ', RunsLI fuel (outerBody ofRat i j outT e) σ σ' (1 + m) ∧
      Env i j outT e n m ob blkOf cellsOf σ' ∧
      OutIs σ' ob (cells.set ii (some (.flt (dotF ofRat i j m cellsOf e ii m)))) ∧
      IntVar σ' i ((ii + 1 : Nat) : Int) ∧
      Frame (scratch i j outT e) ob σ σ' := by
  have hiiI : (ii : Int) < 2147483648 := by omega
  -- the cursors of level 0
  obtain ⟨σ1, r1, hh1, ht1, ho1, hp1⟩ := Dense1.ptrDecls_runs (F := F) fuel i n ii hn hiiI
    (outerPtrs i j outT e) σ hi henv.dimI
    (fun h => names.iW (List.mem_append.2 (Or.inl h)))
    (fun h => names.ro (dimName i) (by simp [readOnly]) (mem_scratch_of_outer h))
    (fun t ht r hr => by
      have hx : ptrName t ∈ outerCursors i j outT e := List.mem_map_of_mem ht
      rw [henv.typed _ (mem_scratch_of_outer hx) r hr, reqTy_of_ne (outerCursor_ne_bN names hx)])
  have hf1 : Frame (outerCursors i j outT e) ob σ σ1 := Frame.of_vars hh1 ht1 ho1
  have henv1 : Env i j outT e n m ob blkOf cellsOf σ1 := by
    refine henv.transfer names hf1 (fun x hx => mem_scratch_of_outer hx) ?_
    intro x hx r hr
    obtain ⟨t, ht, rfl⟩ := List.mem_map.1 hx
    rw [Dense1.intVar_ty_int (hp1 t ht) r hr, reqTy_of_ne (outerCursor_ne_bN names hx)]
  have hi1 : IntVar σ1 i ii := hi.congr (ho1 _ (fun h => names.iW (List.mem_append.2 (Or.inl h))))
  -- the inner block
  obtain ⟨σ2, r2, henv2, hout2, hf2⟩ := innerLines_runs ofRat names he hnm hn hmI hii hlen hfin σ1 fuel
    henv1 (hout.congr hh1) hp1 hfuel
  have hi2 : IntVar σ2 i ii :=
    hi1.congr (hf2.vars _ (fun h => names.iW (List.mem_append.2 (Or.inr h))))
  have rb : RunsI fuel (.branch (.boolLit true)
      (.block [.block (innerLines ofRat i j outT e) (some ("*** Iteration over " ++ j ++ " ***"))] none)
      (.block [] none)) σ1 σ2 (1 + m) := by
    have := Dense1.RunsI.branch_true (f := (.block [] none : Stmt F)) (c := .boolLit true) (by simp [evalE])
      (Dense1.RunsI.block (c := none) (Dense1.RunsLI.cons
        (Dense1.RunsI.block (c := some ("*** Iteration over " ++ j ++ " ***")) r2)
        (Dense1.RunsLI.nil _ _)))
    simpa using this
  -- i = i + 1
  obtain ⟨σ3, r3, hh3, henv3, hf3, hi3, ho3⟩ := assignIntStep names henv2 fuel (scratch i j outT e)
    (i_mem_scratch i j outT e) (i_mem_scratch i j outT e) hi2
    (evalE_add (evalE_var_int hi2 (by omega) hiiI) (evalE_intLit (v := 1) (by omega) (by omega))
      (by omega) (by omega))
  refine ⟨σ3, ?_, henv3, hout2.congr hh3, ?_, ?_⟩
  · have := Dense1.RunsLI.append r1 (Dense1.RunsLI.cons rb (Dense1.RunsLI.cons r3 (Dense1.RunsLI.nil _ _)))
    simpa [outerBody, increment, plus] using this
  · obtain ⟨r, h1, h2, h3⟩ := hi3
    exact ⟨r, h1, h2, by rw [h3]; push_cast; rfl⟩
  · exact ((hf1.mono (fun x hx => mem_scratch_of_outer hx)).trans
      (hf2.mono (fun x hx => mem_scratch_of_innerW hx))).trans hf3

/-- **Postcondition of the loop nest** run from `σ` (outer index at `i0`) to `σ'`: cells
`i0 ≤ k < n` of the output block hold the sums in loop order, every other cell of it is unchanged;
every other block, every tensor record and every non-scratch variable is unchanged; the outer
index ends at `n` -/
structure Post (ofRat : Rat → F) (i j : String) (outT : TensorId) (e : IdExpr) (n m ob : Nat)
    (cellsOf : String → Nat → F) (i0 : Nat) (cells : List (Option (Val F))) (σ σ' : State F) : Prop where
  frame : Frame (scratch i j outT e) ob σ σ'
  out : ∃ cells', OutIs σ' ob cells' ∧ cells'.length = cells.length ∧
    (∀ k, i0 ≤ k → k < n → cells'[k]? = some (some (.flt (dotF ofRat i j m cellsOf e k m)))) ∧
    (∀ k, (k < i0 ∨ n ≤ k) → cells'[k]? = cells[k]?)
  idx : IntVar σ' i n

/-- **the outer `while` loop**, by induction on the number `rem` of remaining iterations -/
theorem outerLoop_runs (ofRat : Rat → F) {i j : String} {outT : TensorId} {e : IdExpr}
    (names : Names i j outT e) (he : isExpr i j e = true)
    {n m ob : Nat} {blkOf : String → Nat} {cellsOf : String → Nat → F}
    (hnm : ((n * m : Nat) : Int) < 2147483648) (hn : (n : Int) < 2147483648)
    (hfin : ∀ ii, ii < n → ∀ jj, jj < m → stepFinite ofRat i j m cellsOf e ii jj = true) :
    ∀ (rem ii : Nat) (σ : State F) (fuel : Nat) (cells : List (Option (Val F))), ii + rem = n →
      Env i j outT e n m ob blkOf cellsOf σ → OutIs σ ob cells → n ≤ cells.length →
      IntVar σ i ii → rem + m + 2 ≤ fuel →
      ∃ σ', RunsI fuel (outerLoop ofRat i j outT e) σ σ' (rem * (m + 2)) ∧
        Post ofRat i j outT e n m ob cellsOf ii cells σ σ' := by
  intro rem
  induction rem with
  | zero =>
    intro ii σ fuel cells hin henv hout hlen hi hfuel
    obtain ⟨fuel', rfl⟩ := Nat.exists_eq_add_of_le (show 1 ≤ fuel by omega)
    have hjn : ii = n := by omega
    subst hjn
    have ec := Dense1.evalE_lt (evalE_var_int hi (by omega) hn) (evalE_var_int henv.dimI (by omega) hn)
    have hd : decide ((ii : Int) < (ii : Int)) = false := by simp
    rw [hd] at ec
    refine ⟨σ, ?_, Frame.refl _ _ _, ⟨cells, hout, rfl, fun k h1 h2 => by omega, fun _ _ => rfl⟩, hi⟩
    rw [show 1 + fuel' = fuel' + 1 by omega, Nat.zero_mul]
    exact Dense1.RunsI.loop_false ec
  | succ rem ih =>
    intro ii σ fuel cells hin henv hout hlen hi hfuel
    obtain ⟨fuel', rfl⟩ := Nat.exists_eq_add_of_le (show 1 ≤ fuel by omega)
    have hii : ii < n := by omega
    have hmI : (m : Int) < 2147483648 := by
      have : m ≤ n * m := Nat.le_mul_of_pos_left m (by omega)
      omega
    have ec := Dense1.evalE_lt (evalE_var_int hi (by omega) (by omega))
      (evalE_var_int henv.dimI (by omega) hn)
    have hd : decide ((ii : Int) < (n : Int)) = true := by simp; omega
    rw [hd] at ec
    obtain ⟨σ1, r1, henv1, hout1, hi1, hf1⟩ := outerBody_runs ofRat names he hnm hn hmI hii (by omega)
      (hfin ii hii) σ fuel' henv hout hi (by omega)
    obtain ⟨σ', r2, hp⟩ := ih (ii + 1) σ1 fuel' _ (by omega) henv1 hout1 (by simpa using hlen) hi1
      (by omega)
    refine ⟨σ', ?_, hf1.trans hp.frame, ?_, hp.idx⟩
    · have := Dense1.RunsI.loop_true ec (Dense1.RunsI.block r1) r2
      rw [show 1 + fuel' = fuel' + 1 by omega, Nat.succ_mul,
        show rem * (m + 2) + (m + 2) = 1 + m + rem * (m + 2) + 1 by omega]
      simpa [outerLoop] using this
    · obtain ⟨cells', ho', hl', hc1, hc2⟩ := hp.out
      refine ⟨cells', ho', by simpa using hl', ?_, ?_⟩
      · intro k hk1 hk2
        by_cases hki : k = ii
        · subst hki
          rw [hc2 k (Or.inl (by omega))]
          simp only [List.getElem?_set_self (by omega : k < cells.length)]
        · exact hc1 k (by omega) hk2
      · intro k hk
        rw [hc2 k (by omega), List.getElem?_set_ne (by omega)]

/-- **U2: the lowered loop nest** `int i = 0; while (i < i_dim) { … }` -/
theorem loopLines_runs (ofRat : Rat → F) {i j : String} {outT : TensorId} {e : IdExpr}
    (names : Names i j outT e) (he : isExpr i j e = true)
    {n m ob : Nat} {blkOf : String → Nat} {cellsOf : String → Nat → F}
    (hnm : ((n * m : Nat) : Int) < 2147483648) (hn : (n : Int) < 2147483648)
    (hfin : ∀ ii, ii < n → ∀ jj, jj < m → stepFinite ofRat i j m cellsOf e ii jj = true)
    (σ : State F) (fuel : Nat) (cells : List (Option (Val F)))
    (henv : Env i j outT e n m ob blkOf cellsOf σ) (hout : OutIs σ ob cells)
    (hlen : n ≤ cells.length) (hfuel : n + m + 2 ≤ fuel) :
    ∃ σ', RunsLI fuel (loopLines ofRat i j outT e) σ σ' (n * (m + 2)) ∧
      Post ofRat i j outT e n m ob cellsOf 0 cells σ σ' := by
  obtain ⟨σa, ra, hh, henva, hfa, hla, hoa⟩ := declStep names henv fuel (scratch i j outT e)
    (i_mem_scratch i j outT e) (reqTy_of_ne (i_ne_bN names)) (i_mem_scratch i j outT e)
    (evalE_intLit (σ := σ) (v := 0) (by omega) (by omega)) (val' := .int 0) rfl
  have hi : IntVar σa i ((0 : Nat) : Int) := hla
  obtain ⟨σ', rl, hp⟩ := outerLoop_runs ofRat names he hnm hn hfin n 0 σa fuel cells (by omega)
    henva (hout.congr hh) hlen hi hfuel
  refine ⟨σ', ?_, hfa.trans hp.frame, hp.out, hp.idx⟩
  have := Dense1.RunsLI.cons ra (Dense1.RunsLI.cons rl (Dense1.RunsLI.nil _ _))
  simpa [loopLines] using this

end TV.Dense2
