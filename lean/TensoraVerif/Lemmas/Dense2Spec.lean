import TensoraVerif.Lemmas.Dense2Model
import TensoraVerif.Lemmas.Dense1Loop
import TensoraVerif.Lemmas.ToIrStore

/-!
C01 for dense kernels with one contraction, part 4: the specification vocabulary of the loop nest
(U2) — the variables it writes (`scratch`), the name-distinctness conditions (`Names`), the part of
the state it only reads (`Env`), the content of the output block (`OutIs`), the footprint of a run
(`Frame`) — and the transfer lemmas.
-/
namespace TV.Dense2
open TV.IR TV.Gen TV.Graph TV.Growth
open TV.ToIr hiding leaves valueF allFinite
open TV.Dense1 (leaves valueF allFinite ptrDecl ptrName RunsI RunsLI)
set_option linter.unusedSectionVars false
variable {F : Type} [FloatOps F]

/-! ### names -/

/-- the bucket pointer `bucket_<out id>` -/
def bN (outT : TensorId) : String := bucketName outT []
/-- the index of the bucket-initialisation loop `i_bucket_<out id>` -/
def bL (outT : TensorId) : String := bucketLoopName outT []

/-- the cursor leaf `t` declares in the inner loop -/
def innerCursor (i j : String) (t : TensorId) : List String :=
  if isM i j t then [layerPointer t.id 1] else if isJ j t then [ptrName t] else []

def outerCursors (i j : String) (outT : TensorId) (e : IdExpr) : List String :=
  (outerPtrs i j outT e).map ptrName
def innerCursors (i j : String) (e : IdExpr) : List String := (leaves e).flatMap (innerCursor i j)

/-- everything one run of the inner lines writes: `j`, the bucket pointer, its loop index, the
inner cursors -/
def innerW (i j : String) (outT : TensorId) (e : IdExpr) : List String :=
  j :: bN outT :: bL outT :: innerCursors i j e

/-- everything the loop nest writes -/
def scratch (i j : String) (outT : TensorId) (e : IdExpr) : List String :=
  i :: outerCursors i j outT e ++ innerW i j outT e

/-- the declared type of a scratch variable: the bucket pointer is `double*`, the rest `int` -/
def reqTy (outT : TensorId) (x : String) : Ty := if x = bN outT then .ptr .float else .int

/-- the variables the loop nest reads but never writes -/
def readOnly (i j : String) (outT : TensorId) (e : IdExpr) : List String :=
  dimName i :: dimName j :: (outT :: leaves e).map (fun t => valsName t.name)

/-- **the names that must be distinct** (`names_of_index`: true for the names the pipeline builds) -/
structure Names (i j : String) (outT : TensorId) (e : IdExpr) : Prop where
  ij : i ≠ j
  iW : i ∉ outerCursors i j outT e ++ innerW i j outT e
  jC : j ∉ outerCursors i j outT e ++ innerCursors i j e
  bNne : ∀ x ∈ scratch i j outT e, x = bN outT → x ∉ i :: j :: bL outT :: (outerCursors i j outT e ++ innerCursors i j e)
  bLC : bL outT ∉ j :: (outerCursors i j outT e ++ innerCursors i j e)
  ro : ∀ x ∈ readOnly i j outT e, x ∉ scratch i j outT e
  /-- the cursor of an `[i,…]` leaf is not redeclared in the inner loop -/
  sep : ∀ t ∈ leaves e, hasI i j t = true → ptrName t ∉ innerW i j outT e
  /-- an inner cursor of level 1 is never an inner cursor of level 0 -/
  lvl : ∀ t ∈ leaves e, ∀ t' ∈ leaves e, layerPointer t.id 1 ≠ ptrName t'

/-! ### the state -/

/-- block `ob` is the live output-owned float block with cells `cells` -/
def OutIs (σ : State F) (ob : Nat) (cells : List (Option (Val F))) : Prop :=
  σ.heap[ob]? = some ⟨.float, cells, .output, true⟩

/-- **the part of the state the loop nest reads.** `i_dim = n`, `j_dim = m`; `<out>_vals` points to
block `ob`; every `<t>_vals` of a tensor occurrence points to a live float block (`blkOf t.name`,
different from `ob`) whose first `cellCount` cells are initialised with `cellsOf t.name`; the
scratch variables are undeclared or declared with the type the nest declares them with. -/
structure Env (i j : String) (outT : TensorId) (e : IdExpr) (n m ob : Nat) (blkOf : String → Nat)
    (cellsOf : String → Nat → F) (σ : State F) : Prop where
  dimI : IntVar σ (dimName i) n
  dimJ : IntVar σ (dimName j) m
  out : PtrVar σ (valsName outT.name) ob
  ins : ∀ t ∈ leaves e, PtrVar σ (valsName t.name) (blkOf t.name) ∧ blkOf t.name ≠ ob ∧
    ∃ blk, σ.heap[blkOf t.name]? = some blk ∧ blk.live = true ∧ blk.ty = .float ∧
      ∀ k, k < cellCount i j n m t → blk.cells[k]? = some (some (.flt (cellsOf t.name k)))
  typed : ∀ x ∈ scratch i j outT e, ∀ r, lookupVar σ.vars x = some r → r.ty = reqTy outT x

/-- **the footprint of a run**: only variables of `W` and the cells of block `ob` change -/
structure Frame (W : List String) (ob : Nat) (σ σ' : State F) : Prop where
  tensors : σ'.tensors = σ.tensors
  heapLen : σ'.heap.length = σ.heap.length
  heap : ∀ b, b ≠ ob → σ'.heap[b]? = σ.heap[b]?
  vars : ∀ y, y ∉ W → lookupVar σ'.vars y = lookupVar σ.vars y

theorem Frame.refl (W : List String) (ob : Nat) (σ : State F) : Frame W ob σ σ :=
  ⟨rfl, rfl, fun _ _ => rfl, fun _ _ => rfl⟩

theorem Frame.trans {W : List String} {ob : Nat} {σ σ1 σ2 : State F}
    (h1 : Frame W ob σ σ1) (h2 : Frame W ob σ1 σ2) : Frame W ob σ σ2 :=
  ⟨h2.tensors.trans h1.tensors, h2.heapLen.trans h1.heapLen,
    fun b hb => (h2.heap b hb).trans (h1.heap b hb),
    fun y hy => (h2.vars y hy).trans (h1.vars y hy)⟩

theorem Frame.mono {W W' : List String} {ob : Nat} {σ σ' : State F} (h : Frame W ob σ σ')
    (hW : ∀ x ∈ W, x ∈ W') : Frame W' ob σ σ' :=
  ⟨h.tensors, h.heapLen, h.heap, fun y hy => h.vars y (fun hm => hy (hW y hm))⟩

/-- a step that only changes variables of `W` -/
theorem Frame.of_vars {W : List String} {ob : Nat} {σ σ' : State F} (hh : σ'.heap = σ.heap)
    (ht : σ'.tensors = σ.tensors) (hv : ∀ y, y ∉ W → lookupVar σ'.vars y = lookupVar σ.vars y) :
    Frame W ob σ σ' :=
  ⟨ht, by rw [hh], fun _ _ => by rw [hh], hv⟩

/-! ### the environment is stable -/

theorem Env.transfer {i j : String} {outT : TensorId} {e : IdExpr} {n m ob : Nat}
    {blkOf : String → Nat} {cellsOf : String → Nat → F} {σ σ' : State F} {W : List String}
    (names : Names i j outT e) (henv : Env i j outT e n m ob blkOf cellsOf σ)
    (hf : Frame W ob σ σ') (hW : ∀ x ∈ W, x ∈ scratch i j outT e)
    (hty : ∀ x ∈ W, ∀ r, lookupVar σ'.vars x = some r → r.ty = reqTy outT x) :
    Env i j outT e n m ob blkOf cellsOf σ' := by
  have hro : ∀ x ∈ readOnly i j outT e, lookupVar σ'.vars x = lookupVar σ.vars x :=
    fun x hx => hf.vars x (fun hm => names.ro x hx (hW x hm))
  refine ⟨henv.dimI.congr (hro _ (by simp [readOnly])), henv.dimJ.congr (hro _ (by simp [readOnly])),
    henv.out.congr (hro _ (by simp [readOnly])), ?_, ?_⟩
  · intro t ht
    obtain ⟨hp, hne, blk, hb, rest⟩ := henv.ins t ht
    refine ⟨hp.congr (hro _ ?_), hne, blk, by rw [hf.heap _ hne]; exact hb, rest⟩
    simp only [readOnly, List.mem_cons, List.map_cons, List.mem_map]
    exact Or.inr (Or.inr (Or.inr ⟨t, ht, rfl⟩))
  · intro x hx r hr
    by_cases hxW : x ∈ W
    · exact hty x hxW r hr
    · rw [hf.vars x hxW] at hr; exact henv.typed x hx r hr

/-! ### the output block -/

theorem OutIs.outCell {σ : State F} {ob : Nat} {cells : List (Option (Val F))} (h : OutIs σ ob cells)
    {k : Int} (h0 : 0 ≤ k) (h1 : k < cells.length) : OutCell σ ob k :=
  ⟨_, h, rfl, rfl, rfl, h0, h1⟩

theorem OutIs.floatCell {σ : State F} {ob : Nat} {cells : List (Option (Val F))} (h : OutIs σ ob cells)
    {k : Nat} {x : F} (hc : cells[k]? = some (some (.flt x))) : FloatCell σ ob k x :=
  ⟨_, h, rfl, rfl, by omega, by simpa using hc⟩

/-- writing one cell of the output block -/
theorem writeCell_out {σ : State F} {ob : Nat} {cells : List (Option (Val F))} (h : OutIs σ ob cells)
    (k : Nat) (v : Val F) (W : List String) :
    OutIs (writeCell σ ob k v) ob (cells.set k (some v)) ∧ Frame W ob σ (writeCell σ ob k v) ∧
      (writeCell σ ob k v).vars = σ.vars := by
  have hlt : ob < σ.heap.length := lt_length_of_getElem? h
  unfold OutIs at h
  refine ⟨?_, ⟨writeCell_tensors .., ?_, ?_, ?_⟩, writeCell_vars ..⟩
  · simp [OutIs, writeCell, h, List.getElem?_set_self hlt]
  · simp [writeCell, h]
  · intro b hb
    simp only [writeCell, h]
    rw [List.getElem?_set_ne (Ne.symm hb)]
  · intro y _; rw [writeCell_vars]

theorem Env.writeCell {i j : String} {outT : TensorId} {e : IdExpr} {n m ob : Nat}
    {blkOf : String → Nat} {cellsOf : String → Nat → F} {σ : State F}
    {cells : List (Option (Val F))} (henv : Env i j outT e n m ob blkOf cellsOf σ)
    (h : OutIs σ ob cells) (k : Nat) (v : Val F) :
    Env i j outT e n m ob blkOf cellsOf (writeCell σ ob k v) := by
  obtain ⟨_, hf, hv⟩ := writeCell_out h k v []
  have hl : ∀ y, lookupVar (TV.ToIr.writeCell σ ob k v).vars y = lookupVar σ.vars y :=
    fun y => by rw [hv]
  refine ⟨henv.dimI.congr (hl _), henv.dimJ.congr (hl _), henv.out.congr (hl _), ?_, ?_⟩
  · intro t ht
    obtain ⟨hp, hne, blk, hb, rest⟩ := henv.ins t ht
    exact ⟨hp.congr (hl _), hne, blk, by rw [hf.heap _ hne]; exact hb, rest⟩
  · intro x hx r hr
    rw [hl] at hr; exact henv.typed x hx r hr

/-! ### stores -/

theorem store_cell_int {σ : State F} {b : Nat} {k : Int} (h : OutCell σ b k) (z : Int) :
    store σ (.cell b k) (.int z) = .ok (writeCell σ b k (.flt (FloatOps.ofInt z))) := by
  obtain ⟨blk, e1, e2, e3, e4, k0, k1⟩ := h
  have hk : ¬ (k < 0) := by omega
  have hk' : ¬ ((blk.len : Int) ≤ k) := by unfold Block.len; omega
  simp [store, writeCell, e1, e2, e3, e4, hk, hk', convElem, bind, Except.bind]

/-- `a[i] = z` with an INTEGER right-hand side, for a float cell: the store converts -/
theorem runs_assign_cell_int {fuel : Nat} {σ : State F} {a i rhs : Expr F} {b : Nat} {off p z : Int}
    (ha : evalE σ a = .ok (.ptr b off)) (hi : evalE σ i = .ok (.int p))
    (hr : evalE σ rhs = .ok (.int z)) (hc : OutCell σ b (off + p)) :
    Runs fuel (.assign (.idx a i) rhs) σ (writeCell σ b (off + p) (.flt (FloatOps.ofInt z))) := by
  refine ⟨⟨writeCell σ b (off + p) (.flt (FloatOps.ofInt z)), none, 0, 1⟩, ?_, rfl, rfl⟩
  rw [exec.eq_3, evalRhs_of_ok hr]
  simp [bind, Except.bind, evalLoc, ha, hi, store_cell_int hc]

end TV.Dense2
