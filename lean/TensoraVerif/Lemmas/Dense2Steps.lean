import TensoraVerif.Lemmas.Dense2Spec

/-!
C01 for dense kernels with one contraction, part 5: single statements of the loop nest on the
machine, with the environment threaded through (`declStep`, `assignIntStep`), pointer arithmetic,
the right-hand side, and the bucket initialisation block (`bucketInit_runs`).
-/
namespace TV.Dense2
open TV.IR TV.Gen TV.Graph TV.Growth
open TV.ToIr hiding leaves valueF allFinite evalE_fadd evalE_fmul
open TV.Dense1 (leaves valueF allFinite ptrDecl ptrName RunsI RunsLI)
set_option linter.unusedSectionVars false
variable {F : Type} [FloatOps F]

theorem mem_scratch_of_innerW {i j : String} {outT : TensorId} {e : IdExpr} {x : String}
    (h : x ∈ innerW i j outT e) : x ∈ scratch i j outT e := by
  simp only [scratch, List.mem_cons, List.mem_append]
  exact Or.inr h

theorem mem_scratch_of_outer {i j : String} {outT : TensorId} {e : IdExpr} {x : String}
    (h : x ∈ outerCursors i j outT e) : x ∈ scratch i j outT e := by
  simp only [scratch, List.mem_cons, List.mem_append]
  exact Or.inl (Or.inr h)

/-- `T x = e;` for a scratch variable, with the environment and the footprint -/
theorem declStep {i j : String} {outT : TensorId} {e : IdExpr} {n m ob : Nat}
    {blkOf : String → Nat} {cellsOf : String → Nat → F} {σ : State F}
    (names : Names i j outT e) (henv : Env i j outT e n m ob blkOf cellsOf σ)
    (fuel : Nat) {x : String} {t : Ty} {ex : Expr F} {val val' : Val F} (W : List String)
    (hx : x ∈ scratch i j outT e) (ht : reqTy outT x = t) (hxW : x ∈ W)
    (he : evalE σ ex = .ok val) (hconv : convTo t val = .ok val') :
    ∃ σ', RunsI fuel (declAssignE x t ex) σ σ' 0 ∧ σ'.heap = σ.heap ∧
      Env i j outT e n m ob blkOf cellsOf σ' ∧ Frame W ob σ σ' ∧
      (∃ r, lookupVar σ'.vars x = some r ∧ r.ty = t ∧ r.val = some val') ∧
      ∀ y, y ≠ x → lookupVar σ'.vars y = lookupVar σ.vars y := by
  obtain ⟨σ', r, hh, htn, ⟨rr, hr1, hr2, hr3⟩, ho⟩ := Dense1.runsI_declAssign (fuel := fuel) (x := x)
    (t := t) (e := ex) (val := val) (val' := val')
    (fun r hr => (henv.typed x hx r hr).trans ht) he hconv
  have hf1 : Frame [x] ob σ σ' := Frame.of_vars hh htn (fun y hy => ho y (by simpa using hy))
  refine ⟨σ', r, hh, ?_, hf1.mono (by simpa using hxW), ⟨rr, hr1, hr2, hr3⟩, ho⟩
  refine henv.transfer names hf1 (by simpa using hx) ?_
  intro y hy r' hr'
  simp only [List.mem_singleton] at hy
  subst hy
  rw [hr1] at hr'; cases hr'
  rw [hr2, ht]

/-- `x = e;` for an `int` scratch variable -/
theorem assignIntStep {i j : String} {outT : TensorId} {e : IdExpr} {n m ob : Nat}
    {blkOf : String → Nat} {cellsOf : String → Nat → F} {σ : State F}
    (names : Names i j outT e) (henv : Env i j outT e n m ob blkOf cellsOf σ)
    (fuel : Nat) {x : String} {ex : Expr F} {v0 v : Int} (W : List String)
    (hx : x ∈ scratch i j outT e) (hxW : x ∈ W)
    (hv : IntVar σ x v0) (he : evalE σ ex = .ok (.int v)) :
    ∃ σ', RunsI fuel (.assign (.var x) ex) σ σ' 0 ∧ σ'.heap = σ.heap ∧
      Env i j outT e n m ob blkOf cellsOf σ' ∧ Frame W ob σ σ' ∧ IntVar σ' x v ∧
      ∀ y, y ≠ x → lookupVar σ'.vars y = lookupVar σ.vars y := by
  have hrun := Dense1.RunsI.of_assign (Runs.assign_int (fuel := fuel) hv he)
  obtain ⟨r, hr1, hr2, _⟩ := hv
  have hl : lookupVar (setVar σ.vars x (.int v)) x = some { r with val := some (.int v) } :=
    lookupVar_setVar_same _ hr1
  have ho : ∀ y, y ≠ x → lookupVar (setVar σ.vars x (.int v)) y = lookupVar σ.vars y :=
    fun y hy => lookupVar_setVar_other _ hy
  have hf1 : Frame [x] ob σ { σ with vars := setVar σ.vars x (.int v) } :=
    Frame.of_vars rfl rfl (fun y hy => ho y (by simpa using hy))
  refine ⟨_, hrun, rfl, ?_, hf1.mono (by simpa using hxW), ⟨_, hl, hr2, rfl⟩, ho⟩
  refine henv.transfer names hf1 (by simpa using hx) ?_
  intro y hy r' hr'
  simp only [List.mem_singleton] at hy
  subst hy
  have hr'' : lookupVar (setVar σ.vars y (.int v)) y = some r' := hr'
  rw [hl] at hr''; cases hr''
  exact henv.typed y hx r hr1

/-! ### expressions -/

/-- `ptr + k` -/
theorem evalE_ptr_add {σ : State F} {l r : Expr F} {b : Nat} {off k : Int}
    (hl : evalE σ l = .ok (.ptr b off)) (hr : evalE σ r = .ok (.int k)) :
    evalE σ (.bin .add l r) = .ok (.ptr b (off + k)) := by
  simp [evalE, hl, hr, bind, Except.bind, binVal]

/-- the right-hand side evaluates to the float meaning, given the value of every leaf access -/
theorem evalE_rhs (ofRat : Rat → F) (ρ : TensorId → F) (σ : State F) (e : IdExpr)
    (hl : ∀ t ∈ leaves e, evalE σ (.idx (.var (valsName t.name))
      (prevLayerPointer t.id t.indexes.length)) = .ok (.flt (ρ t)))
    (hfin : allFinite ofRat ρ e = true) :
    evalE σ (toIrWith ofRat e) = .ok (.flt (valueF ofRat ρ e)) := by
  induction e with
  | int v => simpa [toIrWith, valueF, evalE, chkFlt, allFinite] using hfin
  | flt q => simpa [toIrWith, valueF, evalE, chkFlt, allFinite] using hfin
  | tensor t => simpa [toIrWith, valueF] using hl t (by simp [leaves])
  | add l r ihl ihr =>
    simp only [allFinite, Bool.and_eq_true] at hfin
    have el := ihl (fun t ht => hl t (by simp [leaves, ht])) hfin.1.1
    have er := ihr (fun t ht => hl t (by simp [leaves, ht])) hfin.1.2
    simp only [toIrWith, valueF]
    exact Dense1.evalE_fadd el er hfin.2
  | mul l r ihl ihr =>
    simp only [allFinite, Bool.and_eq_true] at hfin
    have el := ihl (fun t ht => hl t (by simp [leaves, ht])) hfin.1.1
    have er := ihr (fun t ht => hl t (by simp [leaves, ht])) hfin.1.2
    simp only [toIrWith, valueF]
    exact Dense1.evalE_fmul el er hfin.2

theorem ptrAt_congr {σ σ' : State F} {x : String} {b : Nat} {off : Int} (h : PtrAt σ x b off)
    (e : lookupVar σ'.vars x = lookupVar σ.vars x) : PtrAt σ' x b off := by
  obtain ⟨r, t, h1, h2, h3⟩ := h; exact ⟨r, t, e.trans h1, h2, h3⟩

theorem OutIs.congr {σ σ' : State F} {ob : Nat} {cells : List (Option (Val F))} (h : OutIs σ ob cells)
    (e : σ'.heap = σ.heap) : OutIs σ' ob cells := by
  unfold OutIs at h ⊢; rw [e]; exact h

theorem bN_mem_innerW (i j : String) (outT : TensorId) (e : IdExpr) : bN outT ∈ innerW i j outT e := by
  simp [innerW]
theorem bL_mem_innerW (i j : String) (outT : TensorId) (e : IdExpr) : bL outT ∈ innerW i j outT e := by
  simp [innerW]
theorem j_mem_innerW (i j : String) (outT : TensorId) (e : IdExpr) : j ∈ innerW i j outT e := by
  simp [innerW]

theorem reqTy_bN (outT : TensorId) : reqTy outT (bN outT) = .ptr .float := by simp [reqTy]

theorem bL_ne_bN {i j : String} {outT : TensorId} {e : IdExpr} (names : Names i j outT e) :
    bL outT ≠ bN outT := by
  intro h
  have := names.bNne (bL outT) (mem_scratch_of_innerW (bL_mem_innerW i j outT e)) h
  exact this (by simp)

theorem j_ne_bN {i j : String} {outT : TensorId} {e : IdExpr} (names : Names i j outT e) :
    j ≠ bN outT := by
  intro h
  have := names.bNne j (mem_scratch_of_innerW (j_mem_innerW i j outT e)) h
  exact this (by simp)

theorem reqTy_of_ne {outT : TensorId} {x : String} (h : x ≠ bN outT) : reqTy outT x = .int := by
  simp [reqTy, h]

/-! ### the bucket initialisation -/

/-- **"Bucket initialization"**: `double* bucket = out_vals + p_<out>_0 * 1; int i_bucket = 0;
while (i_bucket < 1) { bucket[i_bucket] = 0; i_bucket++; }` — the bucket points to cell `ii` of the
output block, that cell holds `FloatOps.ofInt 0`, one loop iteration. -/
theorem bucketInit_runs {i j : String} {outT : TensorId} {e : IdExpr} {n m ob : Nat}
    {blkOf : String → Nat} {cellsOf : String → Nat → F} {σ : State F}
    (names : Names i j outT e) (henv : Env i j outT e n m ob blkOf cellsOf σ)
    {cells : List (Option (Val F))} (hout : OutIs σ ob cells) (ii : Nat)
    (hp : IntVar σ (ptrName outT) ii) (hii : ii < cells.length) (hI : (ii : Int) < 2147483648)
    (fuel : Nat) (hfuel : 2 ≤ fuel) :
    ∃ σ', RunsLI fuel (bucketInitLines outT) σ σ' 1 ∧
      Env i j outT e n m ob blkOf cellsOf σ' ∧ Frame (innerW i j outT e) ob σ σ' ∧
      OutIs σ' ob (cells.set ii (some (.flt (FloatOps.ofInt 0)))) ∧
      PtrAt σ' (bN outT) ob ii := by
  obtain ⟨fuel', rfl⟩ := Nat.exists_eq_add_of_le hfuel
  have hW := fun x (h : x ∈ innerW i j outT e) => mem_scratch_of_innerW h
  -- double* bucket = out_vals + p * 1
  have e1 : evalE σ (plus (.var (valsName outT.name)) (times (.var (layerPointer outT.id 0)) (.intLit 1))) =
      .ok (.ptr ob (0 + (ii : Int) * 1)) :=
    evalE_ptr_add (evalE_var_ptr henv.out)
      (evalE_mul (evalE_var_int hp (by omega) hI) (evalE_intLit (by omega) (by omega)) (by omega) (by omega))
  obtain ⟨σ1, r1, hh1, henv1, hf1, ⟨rb, hb1, hb2, hb3⟩, ho1⟩ := declStep names henv (2 + fuel')
    (innerW i j outT e) (hW _ (bN_mem_innerW i j outT e)) (reqTy_bN outT) (bN_mem_innerW i j outT e)
    e1 (val' := .ptr ob (0 + (ii : Int) * 1)) rfl
  have hk : (0 + (ii : Int) * 1) = (ii : Int) := by omega
  rw [hk] at hb3
  have hbkt1 : PtrAt σ1 (bN outT) ob ii := ⟨rb, .float, hb1, hb2, hb3⟩
  -- int i_bucket = 0
  obtain ⟨σ2, r2, hh2, henv2, hf2, hl2, ho2⟩ := declStep names henv1 (2 + fuel')
    (innerW i j outT e) (hW _ (bL_mem_innerW i j outT e)) (reqTy_of_ne (bL_ne_bN names))
    (bL_mem_innerW i j outT e) (evalE_intLit (σ := σ1) (v := 0) (by omega) (by omega))
    (val' := .int 0) rfl
  have hl2 : IntVar σ2 (bL outT) 0 := hl2
  have hbkt2 : PtrAt σ2 (bN outT) ob ii := ptrAt_congr hbkt1 (ho2 _ (Ne.symm (bL_ne_bN names)))
  have hout2 : OutIs σ2 ob cells := hout.congr (hh2.trans hh1)
  -- the loop: one iteration
  have ec2 := Dense1.evalE_lt (evalE_var_int hl2 (by omega) (by omega))
    (evalE_intLit (σ := σ2) (v := 1) (by omega) (by omega))
  have hd2 : decide ((0 : Int) < 1) = true := by decide
  rw [hd2] at ec2
  have hcell : OutCell σ2 ob ((ii : Int) + 0) := hout2.outCell (by omega) (by omega)
  have hst := runs_assign_cell_int (fuel := 1 + fuel') (evalE_var_ptrAt hbkt2)
    (evalE_var_int hl2 (by omega) (by omega)) (evalE_intLit (σ := σ2) (v := 0) (by omega) (by omega)) hcell
  have hk2 : ((ii : Int) + 0) = ((ii : Nat) : Int) := by omega
  rw [hk2] at hst
  obtain ⟨hout3, hf3, hv3⟩ := writeCell_out hout2 ii (.flt (FloatOps.ofInt 0)) (innerW i j outT e)
  have henv3 := henv2.writeCell hout2 ii (.flt (FloatOps.ofInt 0))
  have hl3 : IntVar (writeCell σ2 ob ii (.flt (FloatOps.ofInt 0))) (bL outT) 0 :=
    hl2.congr (by rw [hv3])
  -- i_bucket = i_bucket + 1
  obtain ⟨σ4, r4, hh4, henv4, hf4, hl4, ho4⟩ := assignIntStep names henv3 (1 + fuel')
    (innerW i j outT e) (hW _ (bL_mem_innerW i j outT e)) (bL_mem_innerW i j outT e) hl3
    (evalE_add (evalE_var_int hl3 (by omega) (by omega)) (evalE_intLit (v := 1) (by omega) (by omega))
      (by omega) (by omega))
  have ec4 := Dense1.evalE_lt (evalE_var_int hl4 (by omega) (by omega))
    (evalE_intLit (σ := σ4) (v := 1) (by omega) (by omega))
  have hd4 : decide ((0 : Int) + 1 < 1) = false := by decide
  rw [hd4] at ec4
  have rbody : RunsLI (1 + fuel') (bucketZeroBody outT) σ2 σ4 0 :=
    Dense1.RunsLI.cons (Dense1.RunsI.of_assign hst) (Dense1.RunsLI.cons r4 (Dense1.RunsLI.nil _ _))
  have rloop : RunsI (1 + fuel' + 1) (.loop (.bin .lt (.var (bL outT)) (.intLit 1))
      (.block (bucketZeroBody outT) none)) σ2 σ4 (0 + 0 + 1) :=
    Dense1.RunsI.loop_true ec2 (Dense1.RunsI.block rbody)
      (by rw [show 1 + fuel' = fuel' + 1 by omega]; exact Dense1.RunsI.loop_false ec4)
  rw [show 1 + fuel' + 1 = 2 + fuel' by omega] at rloop
  refine ⟨σ4, ?_, henv4, hf1.trans (hf2.trans (hf3.trans hf4)), hout3.congr hh4, ?_⟩
  · exact Dense1.RunsLI.cons r1 (Dense1.RunsLI.cons r2 (Dense1.RunsLI.cons rloop (Dense1.RunsLI.nil _ _)))
  · refine ptrAt_congr (ptrAt_congr hbkt2 (by rw [hv3])) (ho4 _ (Ne.symm (bL_ne_bN names)))

end TV.Dense2
