import TensoraVerif.Lemmas.DenseNKernel

/-!
C01 for dense element-wise kernels of every order, part 9: why `Π d < 2^31` alone is not enough.
With a dimension `0` the product is `0`, but the partial products the kernel computes (the capacity
`1 * d₀ * d₁ * …` of the output initialisation, the pointers `p_l` of the outer levels) may leave the
32-bit range. Closed instance: `a(i,j,k) = b(i,j,k)`, dimensions `(65536, 65536, 0)`: the `evaluate`
kernel stops with `intOverflow` in "Output initialization".
-/
namespace TV.DenseN
open TV.IR TV.Gen TV.Graph TV.Growth
open TV.Dense1 (leaves valueF allFinite rhoAt RunsI RunsLI TensorVar)
set_option linter.unusedSectionVars false
variable {F : Type} [FloatOps F]

/-- a statement list that runs to completion, followed by a statement that fails -/
theorem execL_error_after {fuel : Nat} {ss : List (Stmt F)} {σ σ' : State F} {k : Nat} {s : Stmt F}
    {rest : List (Stmt F)} {er : Err} (h : RunsLI fuel ss σ σ' k) (he : exec fuel s σ' = .error er) :
    execL fuel (ss ++ s :: rest) σ = .error er := by
  induction ss generalizing σ k with
  | nil =>
    obtain ⟨o, e1, _, st, _⟩ := h
    rw [execL.eq_1] at e1; cases e1; cases st
    rw [List.nil_append, execL.eq_2, he]
    rfl
  | cons s0 ss ih =>
    obtain ⟨o, e1, r, st, it⟩ := h
    rw [execL.eq_2] at e1
    obtain ⟨o1, e1', e1⟩ := Frame.bind_ok e1
    cases hr : o1.ret with
    | some x => simp only [hr] at e1; cases e1; rw [hr] at r; cases r
    | none =>
      simp only [hr] at e1
      obtain ⟨o2, e2, e1⟩ := Frame.bind_ok e1
      cases e1
      have := ih ⟨o2, e2, r, st, rfl⟩
      rw [List.cons_append, execL.eq_2, e1']
      simp only [bind, Except.bind, hr, this]

theorem execL_error_after' {fuel : Nat} {ss l : List (Stmt F)} {σ σ' : State F} {k : Nat} {s : Stmt F}
    {rest : List (Stmt F)} {er : Err} (h : RunsLI fuel ss σ σ' k) (he : exec fuel s σ' = .error er)
    (hl : l = ss ++ s :: rest) : execL fuel l σ = .error er := by
  subst hl; exact execL_error_after h he

/-- a failing operand makes a product fail -/
theorem evalE_mul_error_left {σ : State F} {l r : Expr F} {er : Err} (hl : evalE σ l = .error er) :
    evalE σ (.bin .mul l r) = .error er := by
  simp [evalE, hl, bind, Except.bind]

/-- an initialised declaration whose right-hand side fails -/
theorem exec_declAssign_error {fuel : Nat} {σ : State F} {x : String} {t : Ty} {op : BinOp} {l r : Expr F}
    {er : Err} (he : evalE σ (.bin op l r) = .error er) :
    exec fuel (.declAssign x t (.bin op l r)) σ = .error er := by
  rw [exec.eq_4]
  simp [evalRhs, he, bind, Except.bind]

/-! ### the instance -/

def cexModes : List Mode := [.dense, .dense, .dense]
def cexFormats : Formats := [("a", cexModes, [0, 1, 2]), ("b", cexModes, [0, 1, 2])]
def cexDims : List (String × Nat) := [("i", 65536), ("j", 65536), ("k", 0)]
def cexOut : TensorId := ⟨"0_a", "a", ["i", "j", "k"], cexModes⟩
def cexB : TensorId := ⟨"1_b", "b", ["i", "j", "k"], cexModes⟩
def cexE : IdExpr := .tensor cexB
def cexAssign : Alg.DAssign := ⟨"a", ["i", "j", "k"], .tensor 1 "b" ["i", "j", "k"]⟩
def cexTix : String → Nat := fun s => if s = "a" then 0 else 1
def cexBlkOf : String → Nat := fun _ => 2
def cexCellsOf : String → Nat → Int := fun _ _ => 0

/-- the state the driver builds: `a` (output, dimensions `(65536, 65536, 0)`), `b` with no value -/
def cexState : State Int :=
  { vars := [⟨"a", .ptr .tensor, some (.tensor 0)⟩, ⟨"b", .ptr .tensor, some (.tensor 1)⟩],
    heap := [⟨.int, [some (.int 65536), some (.int 65536), some (.int 0)], .output, true⟩,
             ⟨.int, [some (.int 65536), some (.int 65536), some (.int 0)], .input, true⟩,
             ⟨.float, [], .input, true⟩],
    tensors := [⟨3, 0, [none, none, none], .null, .output⟩, ⟨3, 1, [none, none, none], .ptr 2 0, .input⟩] }

theorem cexKernelOK : KernelOK cexFormats (cexDims.map (·.1)) cexOut cexE := by
  refine ⟨by decide, by decide, ?_, by decide, by decide, ?_⟩
  · intro f hf
    simp only [cexFormats, List.mem_cons, List.not_mem_nil, or_false] at hf
    rcases hf with rfl | rfl <;> decide
  · intro t ht
    simp only [cexE, leaves, List.mem_cons, List.not_mem_nil, or_false] at ht
    subst ht; decide

theorem cexInit : Init cexFormats cexOut cexE (cexDims.map (·.2)) cexTix cexBlkOf cexCellsOf cexState := by
  refine ⟨?_, ?_, ?_, ?_, ?_⟩
  · intro f hf
    simp only [cexFormats, List.mem_cons, List.not_mem_nil, or_false] at hf
    rcases hf with rfl | rfl <;> exact ⟨_, rfl, rfl, rfl⟩
  · intro x hx
    simp only [cexFormats, List.map_cons, List.map_nil, List.mem_cons, List.not_mem_nil, or_false,
      not_or] at hx
    obtain ⟨h1, h2⟩ := hx
    have e1 : ("a" == x) = false := beq_eq_false_iff_ne.2 (Ne.symm h1)
    have e2 : ("b" == x) = false := beq_eq_false_iff_ne.2 (Ne.symm h2)
    simp [lookupVar, cexState, List.find?, e1, e2]
  · intro f hf
    simp only [cexFormats, List.mem_cons, List.not_mem_nil, or_false] at hf
    rcases hf with rfl | rfl <;> exact ⟨_, rfl, rfl⟩
  · refine ⟨_, _, rfl, rfl, rfl, rfl, rfl, ?_⟩
    intro k hk
    match k, hk with
    | 0, _ => rfl
    | 1, _ => rfl
    | 2, _ => rfl
  · intro t ht
    simp only [cexE, leaves, List.mem_cons, List.not_mem_nil, or_false] at ht
    subst ht
    refine ⟨_, _, rfl, rfl, rfl, rfl, rfl, ?_⟩
    intro c hc
    simp [cexDims, prod] at hc

/-- the kernel of the instance stops with `intOverflow` in "Output initialization", whatever the fuel -/
theorem cex_overflow (ofRat : Rat → Int) (fuel : Nat) :
    exec fuel (kernel ofRat cexFormats (cexDims.map (·.1)) cexOut cexE).body cexState =
      .error .intOverflow := by
  obtain ⟨hparams, hfresh, hrecs, ⟨otr, dblk, hotr, hown, hdb, hdlive, hdty, hdc⟩, hins⟩ := cexInit
  have hgen : ∀ x, '_' ∈ x.toList → x ∉ cexFormats.map (·.1) := by
    intro x hx hm
    obtain ⟨f, hf, rfl⟩ := List.mem_map.1 hm
    exact cexKernelOK.tensors f hf hx
  have hNne : ∀ f ∈ cexFormats, ∀ x, '_' ∈ x.toList → f.1 ≠ x :=
    fun f hf x hx => ne_of_underscore (cexKernelOK.tensors f hf) hx
  have hTout : TensorVar cexState "a" 0 := ⟨_, rfl, rfl, rfl⟩
  -- A: the dimension variables
  obtain ⟨σA, rA, hhA, htA, hoA, hdimA⟩ := dimDecls_runs fuel (σ := cexState) (cexDims.map (·.1))
    (cexDims.map (·.2)) hTout hotr hdb hdlive hdty hdc
    (by intro k hk; match k, hk with
      | 0, _ => decide
      | 1, _ => decide
      | 2, _ => decide) (by decide) (by decide) (by decide)
    (fun k _ => hfresh _ (hgen _ (Dense1.mem_us_dimName _))) 3 (by decide)
  have hA_of : ∀ y, (∀ i, y ≠ dimName i) → lookupVar σA.vars y = lookupVar cexState.vars y :=
    fun y hy => hoA y (fun k _ => hy _)
  -- B: unpack
  obtain ⟨σB, rB, hhB, htB, hoB, hpB⟩ := Dense1.unpack_runs fuel cexTix cexFormats σA
    (fun f hf => ⟨(hparams f hf).congr (hA_of _ (fun i => hNne f hf _ (Dense1.mem_us_dimName i))),
      by rw [htA]; exact hrecs f hf⟩)
    (fun f hf r hr => by
      rw [hA_of _ (fun i => (Dense1.dimName_ne_valsName i f.1).symm),
        hfresh _ (hgen _ (Dense1.mem_us_valsName f.1))] at hr; cases hr)
    (fun f hf g _ => hNne f hf _ (Dense1.mem_us_valsName g.1))
  have hToutB : TensorVar σB "a" 0 := by
    refine hTout.congr ?_
    rw [hoB _ (by
        intro hm
        obtain ⟨f, _, hf⟩ := List.mem_map.1 hm
        exact ne_of_underscore (by decide : '_' ∉ "a".toList) (Dense1.mem_us_valsName f.1) hf.symm),
      hA_of _ (fun i => ne_of_underscore (by decide) (Dense1.mem_us_dimName i))]
  -- C: the capacity overflows
  have hd : ∀ k : Nat, k < 3 → evalE σB (.idx (.attr (.var "a") "dimensions") (.intLit (Int.ofNat k))) =
      .ok (.int (((cexDims.map (·.2)).getD k 0 : Nat) : Int)) := by
    intro k hk
    exact Dense2.evalE_dimAt hToutB (by rw [htB, htA]; exact hotr) (by rw [hhB, hhA]; exact hdb) hdlive hdty
      (hdc k hk) (by omega) (by omega) (by
        match k, hk with
        | 0, _ => decide
        | 1, _ => decide
        | 2, _ => decide)
  have e1 := evalE_mul (evalE_intLit (σ := σB) (v := 1) (by omega) (by omega)) (hd 0 (by omega))
    (by decide) (by decide)
  have e2 := evalE_mul_overflow e1 (hd 1 (by omega)) (by decide)
  have e3 : evalE σB (capExpr 3 "a" : Expr Int) = .error .intOverflow := by
    have := evalE_mul_error_left (r := .idx (.attr (.var "a") "dimensions") (.intLit (Int.ofNat 2))) e2
    simpa [capExpr, mulJoin, joinWith, List.range, List.range.loop] using this
  have eC : exec fuel (.block [declAssignE (valsCapName "a") .int (capExpr 3 "a"),
      .assign (.var (valsName "a")) (.alloc .float (.var (valsCapName "a")))]
      (some "Output initialization")) σB = .error .intOverflow := by
    rw [exec.eq_5]
    have e3' := e3
    simp only [capExpr, mulJoin, joinWith, List.range, List.range.loop, List.map_cons, List.map_nil,
      List.foldl_cons, List.foldl_nil] at e3'
    refine execL_error_after (ss := []) (Dense1.RunsLI.nil _ _) ?_
    simp only [capExpr, mulJoin, joinWith, List.range, List.range.loop, List.map_cons, List.map_nil,
      List.foldl_cons, List.foldl_nil, declAssignE]
    exact exec_declAssign_error e3'
  show exec fuel (.block (kernelStmts ofRat cexFormats (cexDims.map (·.1)) cexOut cexE ++ [.ret (.intLit 0)]) none)
    cexState = _
  rw [exec.eq_5]
  have r2 := Dense1.RunsLI.cons (Dense1.RunsI.block (c := some "Extract dimensions") rA)
    (Dense1.RunsLI.cons (Dense1.RunsI.block (c := some "Unpack tensors") rB) (Dense1.RunsLI.nil _ _))
  exact execL_error_after' r2 eC rfl

end TV.DenseN
