import TensoraVerif.Lemmas.DenseNNest
import TensoraVerif.Lemmas.DenseNGenerate
import TensoraVerif.Lemmas.Dense2Kernel

/-!
C01 for dense element-wise kernels of every order, part 7: the prologue fragments on the machine —
"Extract dimensions" for every level (`dimDecls_runs`) and the capacity
`1 * out->dimensions[0] * … * out->dimensions[n-1]` (`evalE_capExpr`).
-/
namespace TV.DenseN
open TV.IR TV.Gen TV.Graph TV.Growth
open TV.Dense1 (leaves valueF allFinite rhoAt RunsI RunsLI TensorVar)
set_option linter.unusedSectionVars false
variable {F : Type} [FloatOps F]

theorem dimName_inj {a b : String} (h : dimName a = dimName b) : a = b :=
  (String.append_left_inj _).1 h

theorem Fits.prod_lt : ∀ {ds : List Nat} {Q : Nat}, Fits Q ds → Q * prod ds < 2147483648
  | [], Q, h => by simpa [prod, Fits] using h
  | d :: ds, Q, h => by
    have := Fits.prod_lt h.2
    simpa [prod, Nat.mul_assoc] using this

/-- "Extract dimensions": `int <i_k>_dim = out->dimensions[k];` for `k < m` -/
theorem dimDecls_runs (fuel : Nat) {σ : State F} {outName : String} {k0 : Nat} {tr : TensorRec F}
    {blk : Block F} (is : List String) (ds : List Nat)
    (hx : TensorVar σ outName k0) (htr : σ.tensors[k0]? = some tr)
    (hb : σ.heap[tr.dimsBlk]? = some blk) (hlive : blk.live = true) (hty : blk.ty = .int)
    (hc : ∀ k, k < is.length → blk.cells[k]? = some (some (.int (ds.getD k 0))))
    (hd31 : ∀ k, k < is.length → ds.getD k 0 < 2147483648) (hn31 : is.length < 2147483648)
    (hout : '_' ∉ outName.toList) (hnd : is.Nodup)
    (hfresh : ∀ k, k < is.length → lookupVar σ.vars (dimName (is.getD k "")) = none) :
    ∀ m, m ≤ is.length →
      ∃ σ', RunsLI fuel ((List.range m).map fun k =>
          declAssignE (dimName (is.getD k "")) .int (.idx (.attr (.var outName) "dimensions") (.intLit k)))
          σ σ' 0 ∧
        σ'.heap = σ.heap ∧ σ'.tensors = σ.tensors ∧
        (∀ y, (∀ k, k < m → y ≠ dimName (is.getD k "")) → lookupVar σ'.vars y = lookupVar σ.vars y) ∧
        ∀ k, k < m → IntVar σ' (dimName (is.getD k "")) (ds.getD k 0) := by
  intro m
  induction m with
  | zero =>
    intro _
    exact ⟨σ, Dense1.RunsLI.nil _ _, rfl, rfl, fun _ _ => rfl, fun k hk => by omega⟩
  | succ m ih =>
    intro hm
    obtain ⟨σ1, r1, hh1, ht1, ho1, hv1⟩ := ih (by omega)
    have hne : ∀ k, k < m → dimName (is.getD m "") ≠ dimName (is.getD k "") := by
      intro k hk h
      have e1 : is.getD k "" = is[k] := by simp [List.getD_eq_getElem?_getD, (by omega : k < is.length)]
      have e2 : is.getD m "" = is[m] := by simp [List.getD_eq_getElem?_getD, (by omega : m < is.length)]
      have := dimName_inj h
      rw [e1, e2] at this
      have := (List.getElem_inj hnd).1 this
      omega
    have hx1 : TensorVar σ1 outName k0 :=
      hx.congr (ho1 _ (fun k _ => ne_of_underscore hout (Dense1.mem_us_dimName _)))
    have hd := hd31 m (by omega)
    obtain ⟨σ2, r2, hh2, ht2, hv2, ho2⟩ := Dense1.runsI_declAssign (fuel := fuel)
      (x := dimName (is.getD m "")) (t := .int) (val' := .int (ds.getD m 0))
      (by rw [ho1 _ (hne), hfresh m (by omega)]; intro r h; cases h)
      (Dense2.evalE_dimAt hx1 (by rw [ht1]; exact htr) (by rw [hh1]; exact hb) hlive hty
        (hc m (by omega)) (by omega) (by omega) (by omega)) rfl
    refine ⟨σ2, ?_, hh2.trans hh1, ht2.trans ht1, ?_, ?_⟩
    · rw [List.range_succ, List.map_append]
      have := Dense1.RunsLI.append r1 (Dense1.RunsLI.cons r2 (Dense1.RunsLI.nil _ _))
      simpa [declAssignE] using this
    · intro y hy
      rw [ho2 y (hy m (by omega)), ho1 y (fun k hk => hy k (by omega))]
    · intro k hk
      by_cases hkm : k = m
      · subst hkm; exact hv2
      · exact (hv1 k (by omega)).congr (ho2 _ (fun h => hne k (by omega) h.symm))

/-- a left fold of products over expressions that evaluate to the dimensions, every partial
product below `2^31` -/
theorem evalE_capFold {σ : State F} (f : Nat → Expr F) (ds : List Nat) :
    ∀ (s : Nat) (acc : Expr F) (a : Nat), evalE σ acc = .ok (.int a) →
      (∀ k, k < ds.length → evalE σ (f (s + k)) = .ok (.int (ds.getD k 0))) → Fits a ds →
      evalE σ (((List.range' s ds.length).map f).foldl (.bin .mul) acc) = .ok (.int ((a * prod ds : Nat) : Int)) := by
  induction ds with
  | nil =>
    intro s acc a hacc _ _
    simpa [prod] using hacc
  | cons d ds ih =>
    intro s acc a hacc hf hfit
    have h0 := hf 0 (by simp)
    simp only [Nat.add_zero, List.getD_cons_zero] at h0
    have hlt := hfit.2.lt
    have hm : evalE σ (.bin .mul acc (f s)) = .ok (.int ((a * d : Nat) : Int)) := by
      have := evalE_mul hacc h0 (by
        have : (0 : Int) ≤ (a : Int) * d := Int.mul_nonneg (by omega) (by omega)
        omega) (by
        have : ((a * d : Nat) : Int) < 2147483648 := by omega
        simpa using this)
      simpa using this
    have := ih (s + 1) (.bin .mul acc (f s)) (a * d) hm (by
      intro k hk
      have := hf (k + 1) (by simp; omega)
      simpa [Nat.add_assoc, Nat.add_comm 1 k] using this) hfit.2
    simpa [List.range'_succ, prod, Nat.mul_assoc] using this

/-- `1 * out->dimensions[0] * … * out->dimensions[n-1]` evaluates to `Π d` -/
theorem evalE_capExpr {σ : State F} {outName : String} {k0 : Nat} {tr : TensorRec F} {blk : Block F}
    (ds : List Nat) (hx : TensorVar σ outName k0) (htr : σ.tensors[k0]? = some tr)
    (hb : σ.heap[tr.dimsBlk]? = some blk) (hlive : blk.live = true) (hty : blk.ty = .int)
    (hc : ∀ k, k < ds.length → blk.cells[k]? = some (some (.int (ds.getD k 0))))
    (hd31 : ∀ k, k < ds.length → ds.getD k 0 < 2147483648) (hn31 : ds.length < 2147483648)
    (hfit : Fits 1 ds) :
    evalE σ (capExpr ds.length outName : Expr F) = .ok (.int (prod ds)) := by
  have := evalE_capFold (σ := σ)
    (fun (k : Nat) => (.idx (.attr (.var outName) "dimensions") (.intLit (Int.ofNat k)) : Expr F)) ds 0
    (.intLit 1) 1 (evalE_intLit (by omega) (by omega)) (by
      intro k hk
      have hd := hd31 k hk
      rw [Nat.zero_add]
      exact Dense2.evalE_dimAt hx htr hb hlive hty (hc k hk) (by omega) (by omega) (by omega)) hfit
  simpa [capExpr, mulJoin, joinWith, List.range_eq_range'] using this

end TV.DenseN
