import TensoraVerif.Lemmas.DenseNLower
import TensoraVerif.Lemmas.Dense2Generate
import TensoraVerif.Lemmas.CleanupBasic

/-!
C01 for dense element-wise kernels of every order, part 6: what `generateIr` produces on the class —
the dimension variables (`indexDimensions_eq`), the all-dense output initialisation
(`capacity = Π out->dimensions[l]`) and epilogue, and the whole `evaluate` function, written out
(`kernel`, `generateIr_eq`).
-/
namespace TV.DenseN
open TV.IR TV.Gen TV.Graph TV.Growth
open TV.Dense1 (leaves)
set_option linter.unusedSectionVars false
variable {F : Type}

/-! ### output initialisation and epilogue of an all-dense output -/

theorem declStep_dense (cap : Option Int) (t : TensorId) (k : Kind)
    (hm : t.modes.all (· == Mode.dense) = true) (xs : List Nat) :
    ∀ acc : SB F × Bool, xs.foldl (declStep cap t k) acc = acc := by
  induction xs with
  | nil => intro acc; rfl
  | cons x xs ih =>
    intro acc
    rw [List.foldl_cons]
    have : declStep cap t k acc x = acc := by
      unfold declStep
      rw [getD_dense hm]
    rw [this, ih]

/-- `int <out>_vals_capacity = 1 * out->dimensions[0] * … * out->dimensions[n-1]; <out>_vals = malloc(…)` -/
theorem appendDeclarations_eqN (cap : Option Int) (outT : TensorId)
    (hm : outT.modes.all (· == Mode.dense) = true) :
    (appendDeclarations cap outT .evaluate : SB F) = ⟨some "Output initialization",
      [declAssignE (valsCapName outT.name) .int
         (mulJoin ((List.range outT.indexes.length).map fun (i : Nat) =>
            .idx (.attr (.var outT.name) "dimensions") (.intLit (Int.ofNat i)))),
       .assign (.var (valsName outT.name)) (.alloc .float (.var (valsCapName outT.name)))]⟩ := by
  rw [appendDeclarations_eq, declStep_dense cap outT .evaluate hm]
  simp [Kind.isAssemble, SB.mk', SB.add]

theorem cleanStep_dense (t : TensorId) (hm : t.modes.all (· == Mode.dense) = true) (xs : List Nat) :
    ∀ acc : SB F × Bool × Expr F × Expr F,
      (xs.foldl (Cleanup.cleanStep t) acc).1 = acc.1 ∧ (xs.foldl (Cleanup.cleanStep t) acc).2.1 = acc.2.1 := by
  induction xs with
  | nil => intro acc; exact ⟨rfl, rfl⟩
  | cons x xs ih =>
    intro acc
    obtain ⟨b, ad, p, q⟩ := acc
    rw [List.foldl_cons]
    have : Cleanup.cleanStep t (b, ad, p, q) x =
        (b, ad, times p (.var (dimName (t.indexes.getD x ""))), times q (.var (dimName (t.indexes.getD x "")))) := by
      simp only [Cleanup.cleanStep, getD_dense hm]
    rw [this]
    exact ih _

/-- `out->vals = <out>_vals;` -/
theorem appendCleanup_eqN [FloatOps F] (outT : TensorId) (hm : outT.modes.all (· == Mode.dense) = true) :
    (appendCleanup outT .evaluate : SB F) = ⟨some ("Assembling output tensor " ++ outT.name),
      [.assign (.attr (.var outT.name) "vals") (.var (valsName outT.name))]⟩ := by
  rw [Cleanup.appendCleanup_eq]
  obtain ⟨h1, h2⟩ := cleanStep_dense (F := F) outT hm (List.range outT.modes.length) (Cleanup.cleanInit outT)
  simp only [Kind.isAssemble, Bool.not_true, Bool.false_eq_true, if_false, h1, h2]
  simp [Cleanup.cleanInit, SB.mk', SB.add]

/-! ### the dimension variables -/

/-- every tensor access of the right-hand side uses only indexes of `is` -/
def rhsIdx (is : List String) : Alg.DExpr → Bool
  | .int _ => true
  | .flt _ => true
  | .tensor _ _ idx => idx.all (is.contains ·)
  | .add l r => rhsIdx is l && rhsIdx is r
  | .mul l r => rhsIdx is l && rhsIdx is r
  | .contract _ e => rhsIdx is e

theorem ofTensor_noop (is : List String) (name : String) (idx : List String)
    (hidx : idx.all (is.contains ·) = true)
    (acc : List (String × String × Nat)) (hacc : ∀ i ∈ is, (acc.any fun x => x.1 == i) = true) :
    ∀ l : List Nat, (∀ d ∈ l, d < idx.length) →
      l.foldl (fun acc d =>
        let j := idx.getD d ""
        if acc.any (·.1 == j) then acc else acc ++ [(j, name, d)]) acc = acc := by
  intro l
  induction l with
  | nil => intro _; rfl
  | cons d l ih =>
    intro hl
    have hd : d < idx.length := hl d (by simp)
    have hj : idx.getD d "" ∈ is := by
      have := List.all_eq_true.1 hidx (idx[d]) (List.getElem_mem hd)
      simp only [List.contains_eq_mem, decide_eq_true_eq] at this
      simpa [List.getD_eq_getElem?_getD, hd] using this
    rw [List.foldl_cons]
    simp only [hacc _ hj, if_true]
    exact ih (fun x hx => hl x (by simp [hx]))

theorem go_noop (is : List String) (e : Alg.DExpr) (h : rhsIdx is e = true) :
    ∀ (acc : List (String × String × Nat)), (∀ i ∈ is, (acc.any fun x => x.1 == i) = true) →
    indexDimensions.go (fun name idx acc =>
      (List.range idx.length).foldl (fun acc d =>
        let j := idx.getD d ""
        if acc.any (·.1 == j) then acc else acc ++ [(j, name, d)]) acc) e acc = acc := by
  induction e with
  | int v => intro acc _; rfl
  | flt v => intro acc _; rfl
  | tensor id name idx =>
    intro acc hacc
    simp only [indexDimensions.go]
    exact ofTensor_noop is name idx h acc hacc _ (fun d hd => List.mem_range.1 hd)
  | add l r ihl ihr =>
    intro acc hacc
    simp only [rhsIdx, Bool.and_eq_true] at h
    simp only [indexDimensions.go]
    rw [ihl h.1 acc hacc, ihr h.2 acc hacc]
  | mul l r ihl ihr =>
    intro acc hacc
    simp only [rhsIdx, Bool.and_eq_true] at h
    simp only [indexDimensions.go]
    rw [ihl h.1 acc hacc, ihr h.2 acc hacc]
  | contract j e ih =>
    intro acc hacc
    simp only [indexDimensions.go]
    exact ih h acc hacc

/-- the dimension triples of the class: index `is[k]` is dimension `k` of the output tensor -/
def dimTriples (is : List String) (name : String) : List (String × String × Nat) :=
  (List.range is.length).map fun k => (is.getD k "", name, k)

theorem ofTensor_fresh (name : String) (is : List String) (hnd : is.Nodup) : ∀ m, m ≤ is.length →
    (List.range m).foldl (fun (acc : List (String × String × Nat)) d =>
        let j := is.getD d ""
        if acc.any (·.1 == j) then acc else acc ++ [(j, name, d)]) [] =
      (List.range m).map fun k => (is.getD k "", name, k) := by
  intro m
  induction m with
  | zero => intro _; rfl
  | succ m ih =>
    intro hm
    rw [List.range_succ, List.foldl_append, ih (by omega), List.foldl_cons, List.foldl_nil, List.map_append]
    have hfresh : (((List.range m).map fun k => (is.getD k "", name, k)).any
        fun x => x.1 == is.getD m "") = false := by
      rw [Bool.eq_false_iff]
      intro h
      rw [List.any_eq_true] at h
      obtain ⟨x, hx, hxe⟩ := h
      obtain ⟨k, hk, rfl⟩ := List.mem_map.1 hx
      have hk : k < m := List.mem_range.1 hk
      simp only [beq_iff_eq] at hxe
      have hk' : k < is.length := by omega
      have hm' : m < is.length := by omega
      have e1 : is.getD k "" = is[k] := by simp [List.getD_eq_getElem?_getD, hk']
      have e2 : is.getD m "" = is[m] := by simp [List.getD_eq_getElem?_getD, hm']
      rw [e1, e2] at hxe
      have := (List.getElem_inj hnd).1 hxe
      omega
    simp only [hfresh, Bool.false_eq_true, if_false, List.map_cons, List.map_nil]

/-- the dimension variables of a dense element-wise assignment are `i_dim` for the indexes of the
output, read from the output tensor -/
theorem indexDimensions_eq (a : Alg.DAssign) (is : List String) (hi : a.tidx = is) (hnd : is.Nodup)
    (hr : rhsIdx is a.rhs = true) : indexDimensions a = dimTriples is a.tname := by
  unfold indexDimensions
  simp only [hi]
  rw [ofTensor_fresh a.tname is hnd is.length (Nat.le_refl _)]
  apply go_noop is a.rhs hr
  intro i hi'
  obtain ⟨k, hk, rfl⟩ := List.getElem_of_mem hi'
  rw [List.any_eq_true]
  refine ⟨(is.getD k "", a.tname, k), List.mem_map.2 ⟨k, List.mem_range.2 hk, rfl⟩, ?_⟩
  simp [List.getD_eq_getElem?_getD, hk]

/-! ### the kernel -/

/-- `int <i_k>_dim = out->dimensions[k];` for every level -/
def dimDeclsN (is : List String) (outName : String) : List (Stmt F) :=
  (List.range is.length).map fun k =>
    declAssignE (dimName (is.getD k "")) .int (.idx (.attr (.var outName) "dimensions") (.intLit k))

/-- `1 * out->dimensions[0] * … * out->dimensions[n-1]` -/
def capExpr (n : Nat) (outName : String) : Expr F :=
  mulJoin ((List.range n).map fun (k : Nat) =>
    .idx (.attr (.var outName) "dimensions") (.intLit (Int.ofNat k)))

/-- the statements of the `evaluate` kernel of the class, before `return 0` -/
def kernelStmts (ofRat : Rat → F) (formats : Formats) (is : List String) (outT : TensorId) (e : IdExpr) :
    List (Stmt F) :=
  [.block (dimDeclsN is outT.name) (some "Extract dimensions"),
   .block (formats.map fun f => declAssignE (valsName f.1) (.ptr .float) (.attr (.var f.1) "vals"))
      (some "Unpack tensors"),
   .block [declAssignE (valsCapName outT.name) .int (capExpr is.length outT.name),
      .assign (.var (valsName outT.name)) (.alloc .float (.var (valsCapName outT.name)))]
      (some "Output initialization"),
   (nestSB ofRat outT e 0 is).finalize,
   .block [.assign (.attr (.var outT.name) "vals") (.var (valsName outT.name))]
      (some ("Assembling output tensor " ++ outT.name))]

/-- the `evaluate` kernel of the class -/
def kernel (ofRat : Rat → F) (formats : Formats) (is : List String) (outT : TensorId) (e : IdExpr) : Func F :=
  ⟨"evaluate", formats.map fun f => (f.1, .ptr .tensor), .int,
    .block (kernelStmts ofRat formats is outT e ++ [.ret (.intLit 0)]) none⟩

/-- **What `generateIr` produces on the class.** -/
theorem generateIr_eq [FloatOps F] (ofRat : Rat → F) (cap : Option Int) (a : Alg.DAssign) (formats : Formats)
    (is : List String) (outT : TensorId) (e : IdExpr)
    (hout : tensorId 0 a.tname formats a.tidx = some outT) (hname : outT.name = a.tname)
    (ho : isLeaf is outT = true) (he : isExpr is e = true) (hnd : is.Nodup)
    (hf : Dense2.denseFormats formats = true)
    (hd : indexDimensions a = dimTriples is a.tname) :
    generateIr ofRat cap a formats (graph is outT e) .evaluate = .ok (kernel ofRat formats is outT e) := by
  have ho' := (isLeaf_iff is outT).1 ho
  have hsize : ∀ (l : Nat) (js : List String), (nest outT e l js).size = js.length + 1 := by
    intro l js
    induction js generalizing l with
    | nil => simp [nest, IGraph.size]
    | cons j js ih => simp [nest, IGraph.size, ih]
  have hsz : 4 * (graph is outT e).size + 8 = is.length + 1 + (3 * is.length + 11) := by
    rw [graph, hsize]; omega
  have hu := Dense2.unpackDecls_eq (F := F) formats hf
  unfold unpackDecls at hu
  obtain ⟨c, hc⟩ := nestSB_comment ofRat outT e 0 is
  unfold generateIr
  simp only [hout, Option.getD_some, hsz, lower_eq ofRat _ is outT e ho he hnd, hd,
    appendDeclarations_eqN cap outT ho'.2, appendCleanup_eqN outT ho'.2, hu]
  simp [bind, Except.bind, pure, Except.pure, kernel, kernelStmts, SB.add, SB.append, SB.empty,
    SB.finalize, Kind.name, hname, hc, dimTriples, dimDeclsN, capExpr, ho'.1]

end TV.DenseN
