import TensoraVerif.Lemmas.DenseNFrags

/-!
C01 for dense element-wise kernels of every order, part 8 (N3): the whole `evaluate` function on the
machine (`kernel_runs`): from an initial state as the driver builds it (`Init`) to the final state
(`Dense1.KernelPost` with `n = Π d`), through "Extract dimensions" (one `_dim` variable per level),
"Unpack tensors", "Output initialization" (`capacity = Π out->dimensions[l]`), the loop nest and
"Assembling output tensor".
-/
namespace TV.DenseN
open TV.IR TV.Gen TV.Graph TV.Growth
open TV.Dense1 (leaves valueF allFinite rhoAt RunsI RunsLI TensorVar)
set_option linter.unusedSectionVars false
variable {F : Type} [FloatOps F]

/-- static side conditions of the kernel theorem: index and tensor names contain no `'_'` (every
name the parser admits is alphanumeric), the indexes are pairwise distinct and are not tensor names,
the output and every tensor of the right-hand side are in the format table, and the output does not
occur on the right -/
structure KernelOK (formats : Formats) (is : List String) (outT : TensorId) (e : IdExpr) : Prop where
  idx : ∀ i ∈ is, '_' ∉ i.toList
  nodup : is.Nodup
  tensors : ∀ f ∈ formats, '_' ∉ f.1.toList
  idxTensor : ∀ i ∈ is, i ∉ formats.map (·.1)
  out : outT.name ∈ formats.map (·.1)
  ins : ∀ t ∈ leaves e, t.name ∈ formats.map (·.1) ∧ t.name ≠ outT.name

/-- **Initial machine state of a kernel call**, as the driver builds it: the variables are exactly
the tensor parameters, parameter `t` bound to tensor record `tix t`; every record has a pointer (or
`NULL`) in `vals`; the output record is output-owned and its `dimensions` block holds the
dimensions `ds`; the record of every tensor of the right-hand side has `vals` pointing to a live
float block whose first `Π ds` cells are initialised with `cellsOf t` (row-major). -/
structure Init (formats : Formats) (outT : TensorId) (e : IdExpr) (ds : List Nat)
    (tix : String → Nat) (blkOf : String → Nat) (cellsOf : String → Nat → F) (σ : State F) : Prop where
  params : ∀ f ∈ formats, TensorVar σ f.1 (tix f.1)
  fresh : ∀ x, x ∉ formats.map (·.1) → lookupVar σ.vars x = none
  recs : ∀ f ∈ formats, ∃ tr, σ.tensors[tix f.1]? = some tr ∧ isPtrVal tr.vals = true
  out : ∃ tr blk, σ.tensors[tix outT.name]? = some tr ∧ tr.owner = .output ∧
    σ.heap[tr.dimsBlk]? = some blk ∧ blk.live = true ∧ blk.ty = .int ∧
    ∀ k, k < ds.length → blk.cells[k]? = some (some (.int (ds.getD k 0)))
  ins : ∀ t ∈ leaves e, ∃ tr blk, σ.tensors[tix t.name]? = some tr ∧ tr.vals = .ptr (blkOf t.name) 0 ∧
    σ.heap[blkOf t.name]? = some blk ∧ blk.live = true ∧ blk.ty = .float ∧
    ∀ c, c < prod ds → blk.cells[c]? = some (some (.flt (cellsOf t.name c)))

theorem kernel_runs (ofRat : Rat → F) (formats : Formats) (dims : List (String × Nat)) (outT : TensorId)
    (e : IdExpr) (ho : isLeaf (dims.map (·.1)) outT = true) (he : isExpr (dims.map (·.1)) e = true)
    (ok : KernelOK formats (dims.map (·.1)) outT e)
    {tix blkOf : String → Nat} {cellsOf : String → Nat → F} {σ : State F}
    (hfit : Fits 1 (dims.map (·.2))) (hd31 : ∀ p ∈ dims, p.2 < 2147483648)
    (hn31 : dims.length < 2147483648)
    (hfin : ∀ c, c < prod (dims.map (·.2)) → allFinite ofRat (rhoAt cellsOf c) e = true)
    (hinit : Init formats outT e (dims.map (·.2)) tix blkOf cellsOf σ) (fuel : Nat)
    (hfuel : fuelNeed (dims.map (·.2)) ≤ fuel) :
    ∃ o, exec fuel (kernel ofRat formats (dims.map (·.1)) outT e).body σ = .ok o ∧
      o.ret = some (.int 0) ∧ o.iters = iterCount (dims.map (·.2)) ∧
      Dense1.KernelPost ofRat e (prod (dims.map (·.2))) (tix outT.name) cellsOf σ o.st := by
  obtain ⟨hparams, hfresh, hrecs, ⟨otr, dblk, hotr, hown, hdb, hdlive, hdty, hdc⟩, hins⟩ := hinit
  have hgen : ∀ x, '_' ∈ x.toList → x ∉ formats.map (·.1) := by
    intro x hx hm
    obtain ⟨f, hf, rfl⟩ := List.mem_map.1 hm
    exact ok.tensors f hf hx
  have hNne : ∀ f ∈ formats, ∀ x, '_' ∈ x.toList → f.1 ≠ x :=
    fun f hf x hx => ne_of_underscore (ok.tensors f hf) hx
  obtain ⟨fo, hfo, hfoe⟩ := List.mem_map.1 ok.out
  have hfoe : fo.1 = outT.name := hfoe
  have houtus : '_' ∉ outT.name.toList := by rw [← hfoe]; exact ok.tensors fo hfo
  have hTout : TensorVar σ outT.name (tix outT.name) := by rw [← hfoe]; exact hparams fo hfo
  have hlenI : (dims.map (·.1)).length = dims.length := by simp
  have hlenD : (dims.map (·.2)).length = dims.length := by simp
  have hP31 : prod (dims.map (·.2)) < 2147483648 := by simpa using hfit.prod_lt
  have hdk : ∀ k, k < dims.length → (dims.map (·.2)).getD k 0 < 2147483648 := by
    intro k hk
    have : (dims.map (·.2)).getD k 0 = (dims[k]).2 := by simp [List.getD_eq_getElem?_getD, hk]
    rw [this]; exact hd31 _ (List.getElem_mem hk)
  -- A: int i_dim = out->dimensions[k]
  obtain ⟨σA, rA, hhA, htA, hoA, hdimA⟩ := dimDecls_runs fuel (dims.map (·.1)) (dims.map (·.2)) hTout hotr hdb
    hdlive hdty (by rw [hlenI, ← hlenD]; exact hdc) (by rw [hlenI]; exact hdk) (by rw [hlenI]; exact hn31)
    houtus ok.nodup (fun k _ => hfresh _ (hgen _ (Dense1.mem_us_dimName _))) (dims.map (·.1)).length
    (Nat.le_refl _)
  have hA_of : ∀ y, (∀ i, y ≠ dimName i) → lookupVar σA.vars y = lookupVar σ.vars y :=
    fun y hy => hoA y (fun k _ => hy _)
  -- B: unpack
  obtain ⟨σB, rB, hhB, htB, hoB, hpB⟩ := Dense1.unpack_runs fuel tix formats σA
    (fun f hf => ⟨(hparams f hf).congr (hA_of _ (fun i => hNne f hf _ (Dense1.mem_us_dimName i))),
      by rw [htA]; exact hrecs f hf⟩)
    (fun f hf r hr => by
      rw [hA_of _ (fun i => (Dense1.dimName_ne_valsName i f.1).symm),
        hfresh _ (hgen _ (Dense1.mem_us_valsName f.1))] at hr; cases hr)
    (fun f hf g _ => hNne f hf _ (Dense1.mem_us_valsName g.1))
  have hB_of : ∀ y, (∀ s, y ≠ valsName s) → lookupVar σB.vars y = lookupVar σA.vars y := by
    intro y hy
    apply hoB
    intro hm
    obtain ⟨f, _, hf⟩ := List.mem_map.1 hm
    exact hy f.1 hf.symm
  -- C1: int out_vals_capacity = 1 * out->dimensions[0] * …
  have hToutB : TensorVar σB outT.name (tix outT.name) := by
    refine hTout.congr ?_
    rw [hB_of _ (fun s => by rw [← hfoe]; exact hNne fo hfo _ (Dense1.mem_us_valsName s)),
      hA_of _ (fun i => by rw [← hfoe]; exact hNne fo hfo _ (Dense1.mem_us_dimName i))]
  have eC : evalE σB (capExpr (dims.map (·.1)).length outT.name : Expr F) =
      .ok (.int (prod (dims.map (·.2)))) := by
    rw [hlenI, ← hlenD]
    exact evalE_capExpr (dims.map (·.2)) hToutB (by rw [htB, htA]; exact hotr)
      (by rw [hhB, hhA]; exact hdb) hdlive hdty hdc (by rw [hlenD]; exact hdk) (by rw [hlenD]; exact hn31) hfit
  obtain ⟨σC1, rC1, hhC1, htC1, hcapC1, hoC1⟩ := Dense1.runsI_declAssign (fuel := fuel)
    (x := valsCapName outT.name) (t := .int) (val' := .int (prod (dims.map (·.2))))
    (by
      rw [hB_of _ (fun s => (Dense1.valsName_ne_valsCapName' s outT.name).symm),
        hA_of _ (fun i => (Dense1.dimName_ne_valsCapName i outT.name).symm),
        hfresh _ (hgen _ (Dense1.mem_us_valsCapName _))]
      intro r h; cases h) eC rfl
  have hcapC1 : IntVar σC1 (valsCapName outT.name) (prod (dims.map (·.2))) := hcapC1
  -- C2: out_vals = malloc(out_vals_capacity)
  obtain ⟨ro, tro, hro1, hro2, _, _⟩ := hpB fo hfo
  rw [hfoe] at hro1
  obtain ⟨σC, rC2, htC, hhC, houtC, hoC⟩ := Dense1.runsI_alloc (fuel := fuel) (ty := .float) (ety := .float)
    (ha := (hoC1 _ (Dense1.valsName_ne_valsCapName' outT.name outT.name)).trans hro1) hro2 hcapC1
    (by omega) (by omega) rfl
  have hlenC1 : σC1.heap.length = σ.heap.length := by rw [hhC1, hhB, hhA]
  rw [hlenC1] at houtC
  have hheapC : σC.heap = σ.heap ++ [⟨.float, List.replicate (prod (dims.map (·.2))) none, .output, true⟩] := by
    rw [hhC, hhC1, hhB, hhA]
    simp
  have hC_of : ∀ y, (∀ i, y ≠ dimName i) → (∀ s, y ≠ valsName s) → y ≠ valsCapName outT.name →
      lookupVar σC.vars y = lookupVar σ.vars y := by
    intro y h1 h2 h3
    rw [hoC y (h2 _), hoC1 y h3, hB_of y h2, hA_of y h1]
  -- the environment of the nest
  have henv : Env dims outT e (prod (dims.map (·.2))) σ.heap.length blkOf cellsOf σC := by
    refine ⟨?_, houtC, ?_, ?_, ?_⟩
    · intro p hp
      obtain ⟨k, hk, rfl⟩ := List.getElem_of_mem hp
      have h := hdimA k (by rw [hlenI]; exact hk)
      have e1 : (dims.map (·.1)).getD k "" = (dims[k]).1 := by simp [List.getD_eq_getElem?_getD, hk]
      have e2 : (dims.map (·.2)).getD k 0 = (dims[k]).2 := by simp [List.getD_eq_getElem?_getD, hk]
      rw [e1, e2] at h
      refine h.congr ?_
      rw [hoC _ (Dense1.dimName_ne_valsName _ _), hoC1 _ (Dense1.dimName_ne_valsCapName _ _),
        hB_of _ (fun s => Dense1.dimName_ne_valsName _ s)]
    · exact ⟨⟨.float, List.replicate (prod (dims.map (·.2))) none, .output, true⟩,
        by rw [hheapC]; simp, rfl, rfl, rfl, by simp⟩
    · intro t ht
      obtain ⟨tr, blk, htr, hv, hb, rest⟩ := hins t ht
      obtain ⟨f, hf, hfe⟩ := List.mem_map.1 (ok.ins t ht).1
      have hfe : f.1 = t.name := hfe
      obtain ⟨r, tr', hr1, hr2, hr3, hr4⟩ := hpB f hf
      rw [hfe] at hr1 hr3
      rw [htA, htr] at hr3; cases hr3
      have hlt : blkOf t.name < σ.heap.length := lt_length_of_getElem? hb
      refine ⟨⟨r, .float, ?_, hr2, by rw [hr4, hv]⟩, by omega, blk, ?_, rest⟩
      · rw [hoC _ (fun h => (ok.ins t ht).2 (Dense1.valsName_inj h)),
          hoC1 _ (Dense1.valsName_ne_valsCapName' _ _)]
        exact hr1
      · rw [hheapC, List.getElem?_append_left hlt]; exact hb
    · intro x hx r hr
      have hxN : x ∉ formats.map (·.1) := by
        rcases mem_scratch hx with h | ⟨t, _, k, _, rfl⟩
        · exact ok.idxTensor x h
        · exact hgen _ (mem_us_lp t.id k)
      rw [hC_of x
        (fun i h => dimName_not_mem_scratch ok.idx i 0 (h ▸ hx))
        (fun s h => valsName_not_mem_scratch ok.idx s 0 (h ▸ hx))
        (fun h => not_mem_scratch ok.idx (Dense1.mem_us_valsCapName _) (Dense1.getLast?_valsCapName _)
          (by decide) 0 (h ▸ hx)),
        hfresh x hxN] at hr
      cases hr
  -- D: the loop nest
  have hus : ∀ p ∈ dims, '_' ∉ p.1.toList := fun p hp => ok.idx p.1 (List.mem_map_of_mem hp)
  obtain ⟨σD, rD, hpost⟩ := nest_runs ofRat outT e dims (prod (dims.map (·.2))) σ.heap.length blkOf cellsOf
    ho he ok.nodup hus dims [] 0 1 σC fuel rfl henv (by simp [PrevIs]) (by omega) hfit (by simp)
    (fun c _ hc => hfin c (by simpa using hc)) hfuel
  simp only [List.length_nil, Nat.zero_mul, Nat.zero_add, Nat.one_mul] at rD hpost
  -- E: out->vals = out_vals
  have hnsO : outT.name ∉ scratch (outT :: leaves e) 0 (dims.map (·.1)) := by
    intro hm
    rcases mem_scratch hm with h | ⟨t, _, k, _, h⟩
    · exact ok.idxTensor _ h ok.out
    · exact houtus (h ▸ mem_us_lp t.id k)
  have hToutD : TensorVar σD outT.name (tix outT.name) := by
    refine hTout.congr ?_
    rw [hpost.vars _ hnsO,
      hC_of _ (fun i => by rw [← hfoe]; exact hNne fo hfo _ (Dense1.mem_us_dimName i))
        (fun s => by rw [← hfoe]; exact hNne fo hfo _ (Dense1.mem_us_valsName s))
        (by rw [← hfoe]; exact hNne fo hfo _ (Dense1.mem_us_valsCapName _))]
  have houtD : PtrVar σD (valsName outT.name) σ.heap.length :=
    houtC.congr (hpost.vars _ (valsName_not_mem_scratch ok.idx _ 0))
  have htD : σD.tensors = σ.tensors := by rw [hpost.tensors, htC, htC1, htB, htA]
  have rE := Dense1.runsI_storeVals (fuel := fuel) hToutD houtD (by rw [htD]; exact hotr) hown
  -- the whole body
  have rAll := Dense1.RunsLI.cons (Dense1.RunsI.block (c := some "Extract dimensions") rA)
    (Dense1.RunsLI.cons (Dense1.RunsI.block (c := some "Unpack tensors") rB)
      (Dense1.RunsLI.cons (Dense1.RunsI.block (c := some "Output initialization")
          (Dense1.RunsLI.cons rC1 (Dense1.RunsLI.cons rC2 (Dense1.RunsLI.nil _ _))))
        (Dense1.RunsLI.cons rD
          (Dense1.RunsLI.cons (Dense1.RunsI.block (c := some ("Assembling output tensor " ++ outT.name))
              (Dense1.RunsLI.cons rE (Dense1.RunsLI.nil _ _))) (Dense1.RunsLI.nil _ _)))))
  obtain ⟨o, eo, hret, hst, hit⟩ := Dense1.execL_ret (e := .intLit 0) (v := .int 0) rAll
    (evalE_intLit (by omega) (by omega))
  refine ⟨o, ?_, hret, by rw [hit]; omega, ?_⟩
  · show exec fuel (.block (kernelStmts ofRat formats (dims.map (·.1)) outT e ++ [.ret (.intLit 0)]) none) σ = _
    rw [exec.eq_5]
    exact eo
  · rw [hst]
    have hklt : tix outT.name < σ.tensors.length := lt_length_of_getElem? hotr
    obtain ⟨blk, blk', hb, hb', hlive, hown', hty, hlen, hc1, _⟩ := hpost.outBlk
    rw [hheapC] at hb
    simp at hb
    subst hb
    refine ⟨⟨otr, hotr, ?_⟩, ?_, ⟨blk', hb', hlive, hown', hty, ?_⟩, ?_, ?_⟩
    · show (σD.tensors.set _ _)[_]? = _
      rw [htD, List.getElem?_set_self hklt]
    · intro k' hk'
      show (σD.tensors.set _ _)[_]? = _
      rw [htD, List.getElem?_set_ne (Ne.symm hk')]
    · apply List.ext_getElem?
      intro j
      simp only [List.length_replicate] at hlen
      by_cases hj : j < prod (dims.map (·.2))
      · rw [hc1 j (by omega) hj]
        simp [hj]
      · rw [List.getElem?_eq_none (by omega), List.getElem?_eq_none (by simp; omega)]
    · intro b hb
      show σD.heap[b]? = _
      rw [hpost.heap b (by omega), hheapC, List.getElem?_append_left hb]
    · show σD.heap.length = _
      rw [hpost.heapLen, hheapC]; simp

end TV.DenseN
