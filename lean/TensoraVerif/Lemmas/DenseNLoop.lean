import TensoraVerif.Lemmas.DenseNSpec
import TensoraVerif.Lemmas.DenseNLower

/-!
C01 for dense element-wise kernels of every order, part 4: the building blocks of the Hoare
theorem — a generic counting loop (`countLoop_runs`), the pointer declarations of one level
(`ptrDecls_runs`), the right-hand side and the store of the terminal (`terminal_runs`).
-/
namespace TV.DenseN
open TV.IR TV.Gen TV.Graph TV.Growth
open TV.Dense1 (leaves valueF allFinite rhoAt RunsI RunsLI)
set_option linter.unusedSectionVars false
variable {F : Type} [FloatOps F]

/-! ### a counting loop `while (i < i_dim) { body }` -/

/-- if every run of the body from a state satisfying `Inv j` (`j < d`) ends in a state satisfying
`Inv (j+1)` after `kb` iterations of inner loops, needing fuel `fb`, then the loop started in
`Inv j` with `m = d - j` remaining iterations runs with fuel `m + 1 + fb`, ends in `Inv d`, and
counts `m * (kb + 1)` iterations -/
theorem countLoop_runs {i : String} {d : Nat} (hd : (d : Int) < 2147483648) (body : List (Stmt F))
    (Inv : Nat → State F → Prop) (fb kb : Nat)
    (hvars : ∀ j σ, Inv j σ → IntVar σ i j ∧ IntVar σ (dimName i) d)
    (hbody : ∀ j σ fuel, j < d → Inv j σ → fb ≤ fuel →
      ∃ σ', RunsLI fuel body σ σ' kb ∧ Inv (j + 1) σ') :
    ∀ (m j : Nat) (σ : State F) (fuel : Nat), j + m = d → Inv j σ → m + 1 + fb ≤ fuel →
      ∃ σ', RunsI fuel (.loop (.bin .lt (.var i) (.var (dimName i))) (.block body none)) σ σ'
          (m * (kb + 1)) ∧ Inv d σ' := by
  intro m
  induction m with
  | zero =>
    intro j σ fuel hjm hinv hfuel
    obtain ⟨fuel', rfl⟩ := Nat.exists_eq_add_of_le hfuel
    have hjn : j = d := by omega
    subst hjn
    obtain ⟨hi, hdim⟩ := hvars j σ hinv
    have ec := Dense1.evalE_lt (evalE_var_int hi (by omega) hd) (evalE_var_int hdim (by omega) hd)
    have hdd : decide ((j : Int) < (j : Int)) = false := by simp
    rw [hdd] at ec
    refine ⟨σ, ?_, hinv⟩
    rw [show 0 + 1 + fb + fuel' = (fb + fuel') + 1 by omega, Nat.zero_mul]
    exact Dense1.RunsI.loop_false ec
  | succ m ih =>
    intro j σ fuel hjm hinv hfuel
    obtain ⟨fuel', rfl⟩ := Nat.exists_eq_add_of_le hfuel
    have hjn : j < d := by omega
    obtain ⟨hi, hdim⟩ := hvars j σ hinv
    have ec := Dense1.evalE_lt (evalE_var_int hi (by omega) (by omega)) (evalE_var_int hdim (by omega) hd)
    have hdd : decide ((j : Int) < (d : Int)) = true := by simp; omega
    rw [hdd] at ec
    obtain ⟨σ1, r1, hinv1⟩ := hbody j σ (m + 1 + fb + fuel') hjn hinv (by omega)
    obtain ⟨σ', r2, hp⟩ := ih (j + 1) σ1 (m + 1 + fb + fuel') (by omega) hinv1 (by omega)
    refine ⟨σ', ?_, hp⟩
    have := Dense1.RunsI.loop_true ec (Dense1.RunsI.block r1) r2
    rw [show m + 1 + 1 + fb + fuel' = m + 1 + fb + fuel' + 1 by omega,
      show (m + 1) * (kb + 1) = kb + m * (kb + 1) + 1 by rw [Nat.add_mul]; omega]
    exact this

/-! ### the pointer declarations of one level -/

theorem intTy_of_decl {σ σ1 : State F} {x : String} {v : Option (Val F)}
    (h3 : ∃ r, lookupVar σ1.vars x = some r ∧ r.ty = .int ∧ r.val = v)
    (h4 : ∀ y, y ≠ x → lookupVar σ1.vars y = lookupVar σ.vars y) : ∀ y, IntTy σ y → IntTy σ1 y := by
  intro y hy r hr
  by_cases hyx : y = x
  · subst hyx
    obtain ⟨r', h1, h2, _⟩ := h3
    rw [h1] at hr; cases hr; exact h2
  · rw [h4 y hyx] at hr; exact hy r hr

/-- `int p_<t>_<l> = <prev> * i_dim + i;` for a list of tensors: every pointer holds
`q * d + j`, nothing else changes -/
theorem ptrDecls_runs (fuel : Nat) (i : String) (l d j q : Nat) (ts : List TensorId)
    (hd : (d : Int) < 2147483648) (hq : q < 2147483648)
    (hp : (q : Int) * d + j < 2147483648) (ls : List TensorId) :
    ∀ (σ : State F), (∀ t ∈ ls, t ∈ ts) → IntVar σ i j → IntVar σ (dimName i) d →
      PrevIs σ ts l q → i ∉ ptrsAt ls l → dimName i ∉ ptrsAt ls l →
      (∀ t ∈ ls, IntTy σ (layerPointer t.id l)) →
      ∃ σ', RunsLI fuel (ls.map (ptrDecl i l)) σ σ' 0 ∧ σ'.heap = σ.heap ∧ σ'.tensors = σ.tensors ∧
        (∀ y, y ∉ ptrsAt ls l → lookupVar σ'.vars y = lookupVar σ.vars y) ∧
        (∀ x, IntTy σ x → IntTy σ' x) ∧
        ∀ t ∈ ls, IntVar σ' (layerPointer t.id l) ((q : Int) * d + j) := by
  induction ls with
  | nil =>
    intro σ _ _ _ _ _ _ _
    exact ⟨σ, Dense1.RunsLI.nil _ _, rfl, rfl, fun _ _ => rfl, fun _ h => h, fun t ht => by cases ht⟩
  | cons t ls ih =>
    intro σ hsub hi hdim hprev hni hnd hty
    simp only [ptrsAt, List.map_cons, List.mem_cons, not_or] at hni hnd
    have hq0 : (0 : Int) ≤ (q : Int) * d := Int.mul_nonneg (by omega) (by omega)
    have ei := evalE_var_int hi (by omega) (by omega)
    have ed := evalE_var_int hdim (by omega) hd
    have eprev := evalE_prev hprev (hsub t (by simp)) hq
    have e0 : evalE σ (plus (times (prevLayerPointer t.id l) (.var (dimName i))) (.var i)) =
        .ok (.int ((q : Int) * d + j)) :=
      evalE_add (evalE_mul eprev ed (by omega) (by omega)) ei (by omega) (by omega)
    obtain ⟨σ1, r1, hh1, ht1, ⟨r, hr1, hr2, hr3⟩, ho1⟩ :=
      Dense1.runsI_declAssign (fuel := fuel) (t := .int) (val' := .int ((q : Int) * d + j))
        (hty t (by simp)) e0 rfl
    have hpt : IntVar σ1 (layerPointer t.id l) ((q : Int) * d + j) := ⟨r, hr1, hr2, hr3⟩
    have hi1 : IntVar σ1 i j := hi.congr (ho1 _ hni.1)
    have hd1 : IntVar σ1 (dimName i) d := hdim.congr (ho1 _ hnd.1)
    have hity1 := intTy_of_decl (σ := σ) ⟨r, hr1, hr2, hr3⟩ ho1
    have hprev1 : PrevIs σ1 ts l q := hprev.congr (fun t' _ hl => ho1 _ (fun e => by
      have := (Merge.layerPointer_inj e).2
      omega))
    obtain ⟨σ2, r2, hh2, ht2, ho2, hity2, hp2⟩ := ih σ1 (fun t' ht' => hsub t' (by simp [ht'])) hi1 hd1
      hprev1 hni.2 hnd.2 (fun t' ht' => hity1 _ (hty t' (by simp [ht'])))
    refine ⟨σ2, ?_, hh2.trans hh1, ht2.trans ht1, ?_, fun x hx => hity2 x (hity1 x hx), ?_⟩
    · exact Dense1.RunsLI.cons r1 r2
    · intro y hy
      simp only [ptrsAt, List.map_cons, List.mem_cons, not_or] at hy
      rw [ho2 y hy.2, ho1 y hy.1]
    · intro t' ht'
      rcases List.mem_cons.1 ht' with rfl | ht'
      · by_cases hm : layerPointer t'.id l ∈ ptrsAt ls l
        · obtain ⟨t'', ht'', he⟩ := List.mem_map.1 hm
          rw [← he]; exact hp2 t'' ht''
        · exact hpt.congr (ho2 _ hm)
      · exact hp2 t' ht'

/-! ### the terminal -/

/-- a checked load `arr[ie]` of an initialised finite float cell -/
theorem evalE_loadE {σ : State F} {arr : String} {ie : Expr F} {b : Nat} {j : Nat} {blk : Block F} {f : F}
    (ha : PtrVar σ arr b) (hp : evalE σ ie = .ok (.int j))
    (hb : σ.heap[b]? = some blk) (hlive : blk.live = true) (hty : blk.ty = .float)
    (hc : blk.cells[j]? = some (some (.flt f))) (hf : FloatOps.finite f = true) :
    evalE σ (.idx (.var arr) ie) = .ok (.flt f) := by
  have ea := evalE_var_ptr ha
  have hlen : j < blk.cells.length := lt_length_of_getElem? hc
  have h1 : ¬ ((j : Int) < 0) := by omega
  have h2 : ¬ ((blk.cells.length : Int) ≤ j) := by omega
  rw [evalE, ea, hp]
  simp [bind, Except.bind, readBlock, hb, hlive, Block.len, h1, h2, hc, hty,
    hasElemTy, chkVal, chkFlt, hf]

/-- the right-hand side `toIrWith ofRat e` evaluates to the float meaning of `e` at cell `q` -/
theorem evalE_rhs (ofRat : Rat → F) (ρ : TensorId → F) (σ : State F) (ts : List TensorId) (n q : Nat)
    (hq : q < 2147483648) (hprev : PrevIs σ ts n q) (blkOf : String → Nat) (e : IdExpr)
    (hl : ∀ t ∈ leaves e, t ∈ ts ∧ t.indexes.length = n ∧
      PtrVar σ (valsName t.name) (blkOf t.name) ∧
      ∃ blk, σ.heap[blkOf t.name]? = some blk ∧ blk.live = true ∧ blk.ty = .float ∧
        blk.cells[q]? = some (some (.flt (ρ t))))
    (hfin : allFinite ofRat ρ e = true) :
    evalE σ (toIrWith ofRat e) = .ok (.flt (valueF ofRat ρ e)) := by
  induction e with
  | int v => simpa [toIrWith, valueF, evalE, chkFlt, allFinite] using hfin
  | flt v => simpa [toIrWith, valueF, evalE, chkFlt, allFinite] using hfin
  | tensor t =>
    obtain ⟨hts, h1, ha, blk, hb, hlive, hty, hc⟩ := hl t (by simp [leaves])
    simp only [toIrWith, h1, valueF]
    exact evalE_loadE ha (evalE_prev hprev hts hq) hb hlive hty hc (by simpa [allFinite] using hfin)
  | add l r ihl ihr =>
    simp only [allFinite, Bool.and_eq_true] at hfin
    have el := ihl (fun t ht => hl t (by simp [leaves, ht])) hfin.1.1
    have er := ihr (fun t ht => hl t (by simp [leaves, ht])) hfin.1.2
    simp only [toIrWith, valueF]
    exact Dense1.evalE_fadd el er hfin.2
  | mul l r ihl ihr =>
    simp only [allFinite, Bool.and_eq_true] at hfin
    have el := ihl (fun t ht => hl t (by simp [leaves, ht])) hfin.1.1
    have er := ihr (fun t ht => hl t (by simp [leaves, ht])) hfin.1.2
    simp only [toIrWith, valueF]
    exact Dense1.evalE_fmul el er hfin.2

/-- **the innermost block** `out_vals[p_<out>_<n-1>] = <e>;` with the pointers of the last level at
`q`: cell `q` of the output block receives the float meaning of `e` at cell `q` -/
theorem terminal_runs (fuel : Nat) (ofRat : Rat → F) {dims : List (String × Nat)} {outT : TensorId}
    {e : IdExpr} {N ob : Nat} {blkOf : String → Nat} {cellsOf : String → Nat → F} {σ : State F}
    (henv : Env dims outT e N ob blkOf cellsOf σ) (n : Nat) (ho : outT.indexes.length = n)
    (he : ∀ t ∈ leaves e, t.indexes.length = n) (q : Nat) (hqN : q < N) (hq : q < 2147483648)
    (hprev : PrevIs σ (outT :: leaves e) n q)
    (hfin : allFinite ofRat (rhoAt cellsOf q) e = true) :
    ∃ σ', RunsI fuel (nestSB ofRat outT e n []).finalize σ σ' 0 ∧
      Upd ob [] q (q + 1) (fun c => valueF ofRat (rhoAt cellsOf c) e) σ σ' := by
  have erhs : evalE σ (toIrWith ofRat e) = .ok (.flt (valueF ofRat (rhoAt cellsOf q) e)) := by
    apply evalE_rhs ofRat (rhoAt cellsOf q) σ (outT :: leaves e) n q hq hprev blkOf e _ hfin
    intro t ht
    obtain ⟨hptr, _, blk, hb, hlive, hty, hc⟩ := henv.ins t ht
    exact ⟨by simp [ht], he t ht, hptr, blk, hb, hlive, hty, hc q hqN⟩
  obtain ⟨oblk, hob, hlive, hown, hty, hlen⟩ := henv.outBlk
  have eidx : evalE σ (prevLayerPointer outT.id outT.indexes.length : Expr F) = .ok (.int q) := by
    rw [ho]; exact evalE_prev hprev (by simp) hq
  have hstore := Runs.store_cell (fuel := fuel)
    (val' := .flt (valueF ofRat (rhoAt cellsOf q) e)) henv.out eidx erhs hob hlive hown (by omega)
    (by omega) (by rw [hty]; rfl)
  have hlt : ob < σ.heap.length := lt_length_of_getElem? hob
  refine ⟨_, Dense1.RunsI.block (Dense1.RunsLI.cons (Dense1.RunsI.of_assign hstore) (Dense1.RunsLI.nil _ _)),
    rfl, by simp, fun b hb => by simp [List.getElem?_set_ne (Ne.symm hb)], ?_, fun _ _ => rfl, fun _ h => h⟩
  refine ⟨oblk, { oblk with cells := oblk.cells.set q (some (.flt (valueF ofRat (rhoAt cellsOf q) e))) },
    hob, by simp [List.getElem?_set_self hlt], rfl, rfl, rfl, by simp, ?_, ?_⟩
  · intro c h1 h2
    have : c = q := by omega
    subst this
    simp only []
    rw [List.getElem?_set_self (by omega : c < oblk.cells.length)]
  · intro c hc
    simp only []
    rw [List.getElem?_set_ne (by omega)]

end TV.DenseN
