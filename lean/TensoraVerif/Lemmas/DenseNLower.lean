import TensoraVerif.Lemmas.DenseNModel
import TensoraVerif.Lemmas.Dense1Lower

/-!
C01 for dense element-wise kernels of every order, part 2 (N1): what `lower` emits for the nest,
by induction on the remaining levels (`lower` is defined by well-founded recursion; it is unfolded
once per node and every case distinction of the pass is computed on the class).
-/
namespace TV.DenseN
open TV.IR TV.Gen TV.Graph
open TV.Dense1 (leaves)
variable {F : Type}

theorem isLeaf_iff (is : List String) (t : TensorId) :
    isLeaf is t = true ↔ t.indexes = is ∧ t.modes.all (· == Mode.dense) = true := by
  simp [isLeaf]

theorem isExpr_mem {is : List String} {e : IdExpr} (h : isExpr is e = true) :
    ∀ t ∈ leaves e, isLeaf is t = true := fun t ht => List.all_eq_true.1 h t ht

theorem getD_dense {ms : List Mode} (h : ms.all (· == Mode.dense) = true) (k : Nat) :
    ms.getD k Mode.dense = Mode.dense := by
  rw [List.getD_eq_getElem?_getD]
  by_cases hk : k < ms.length
  · have := List.all_eq_true.1 h ms[k] (List.getElem_mem hk)
    simp only [beq_iff_eq] at this
    simp [hk, this]
  · simp [List.getElem?_eq_none (Nat.le_of_not_lt hk)]

theorem getElem?_getD_dense {ms : List Mode} (h : ms.all (· == Mode.dense) = true) (k : Nat) :
    ms[k]?.getD Mode.dense = Mode.dense := by
  rw [← List.getD_eq_getElem?_getD]; exact getD_dense h k

theorem findIdx?_mid (pre : List String) (i : String) (rest : List String) (h : i ∉ pre) :
    (pre ++ i :: rest).findIdx? (· == i) = some pre.length := by
  induction pre with
  | nil => simp [List.findIdx?_cons]
  | cons x xs ih =>
    simp only [List.mem_cons, not_or] at h
    have hx : (x == i) = false := beq_eq_false_iff_ne.2 (Ne.symm h.1)
    simp [List.findIdx?_cons, hx, ih h.2]

/-- the loop context of a right-hand side of the class at the index in position `pre.length`: no
sparse leaf, one dense leaf (at that layer) per tensor occurrence -/
theorem extractContext_eq (pre : List String) (i : String) (rest : List String) (e : IdExpr)
    (h : isExpr (pre ++ i :: rest) e = true) (hi : i ∉ pre) :
    (extractContext e i).sparseLeaves = [] ∧
    (extractContext e i).denseLeaves = (leaves e).map (fun t => ⟨t, pre.length⟩) := by
  induction e with
  | int v => simp [extractContext, leaves]
  | flt v => simp [extractContext, leaves]
  | tensor t =>
    simp only [isExpr, leaves, List.all_cons, List.all_nil, Bool.and_true, isLeaf_iff] at h
    simp [extractContext, leaves, h.1, findIdx?_mid pre i rest hi, getElem?_getD_dense h.2]
  | add l r ihl ihr =>
    simp only [isExpr, leaves, List.all_append, Bool.and_eq_true] at h
    simp [extractContext, Context.add, leaves, ihl h.1, ihr h.2]
  | mul l r ihl ihr =>
    simp only [isExpr, leaves, List.all_append, Bool.and_eq_true] at h
    simp [extractContext, Context.mul, leaves, ihl h.1, ihr h.2]

theorem nest_context (outT : TensorId) (e : IdExpr) (i : String) (is : List String) :
    ∀ l, (nest outT e l is).context i = extractContext e i := by
  induction is with
  | nil => intro l; simp [nest, IGraph.context]
  | cons j js ih => intro l; simp [nest, IGraph.context, ih]

theorem nest_laterIndexes (outT : TensorId) (e : IdExpr) (is : List String) :
    ∀ l, (nest outT e l is).laterIndexes = is := by
  induction is with
  | nil => intro l; simp [nest, IGraph.laterIndexes]
  | cons j js ih => intro l; simp [nest, IGraph.laterIndexes, ih]

/-- no compressed dimension: the lattice of sub-graphs is the graph itself -/
theorem generateSubgraphs_eq (g : IGraph) (hc : compressedDims g = []) : generateSubgraphs g = [g] := by
  simp [generateSubgraphs, hc, generateSubgraphs.go, sortByLenDesc]

/-! ### `layersToWrite` on the class -/

def lwAboveStep (t : TensorId) (acc : List String × Bool) (l : Nat) : List String × Bool :=
    if acc.2 then acc
    else if t.modes.getD l .dense == .dense then (acc.1 ++ [t.indexes.getD l ""], false) else (acc.1, true)

def lwStep (t : TensorId) (indexVariable : String) (later : List String)
    (acc : List String × List Leaf × Bool) (l : Nat) : List String × List Leaf × Bool :=
      let (needed, out, stop) := acc
      if stop then acc
      else if t.modes.getD l .dense != .dense then (needed, out, true)
      else
        let needed := needed ++ [t.indexes.getD l ""]
        let before := needed.filter fun x => !later.contains x
        let after := before ++ [indexVariable]
        let sub (a b : List String) : Bool := a.all b.contains
        if !(sub needed before) && sub needed after then (needed, out ++ [⟨t, l⟩], false) else (needed, out, false)

theorem layersToWrite_def (leaf : Leaf) (i : String) (later : List String) :
    layersToWrite leaf i later =
      (((List.range (leaf.tensor.indexes.length - leaf.layer)).map (· + leaf.layer)).foldl
        (lwStep leaf.tensor i later)
        ((((List.range leaf.layer).reverse).foldl (lwAboveStep leaf.tensor) ([], false)).1, [], false)).2.1 := rfl

theorem lwAbove_fold (t : TensorId) (hm : t.modes.all (· == Mode.dense) = true) (ks : List Nat) :
    ∀ a : List String, ks.foldl (lwAboveStep t) (a, false) = (a ++ ks.map (t.indexes.getD · ""), false) := by
  induction ks with
  | nil => intro a; simp
  | cons k ks ih =>
    intro a
    rw [List.foldl_cons]
    have : lwAboveStep t (a, false) k = (a ++ [t.indexes.getD k ""], false) := by
      simp [lwAboveStep, getElem?_getD_dense hm]
    rw [this, ih]
    simp

theorem lwStep_tail (t : TensorId) (i : String) (later : List String)
    (hm : t.modes.all (· == Mode.dense) = true) (ks : List Nat)
    (hks : ∀ k ∈ ks, t.indexes.getD k "" ∈ later ∧ t.indexes.getD k "" ≠ i) :
    ∀ (needed : List String) (out : List Leaf),
      ∃ needed', ks.foldl (lwStep t i later) (needed, out, false) = (needed', out, false) := by
  induction ks with
  | nil => intro needed out; exact ⟨needed, rfl⟩
  | cons k ks ih =>
    intro needed out
    obtain ⟨hx1, hx2⟩ := hks k (by simp)
    rw [List.foldl_cons]
    have hstep : lwStep t i later (needed, out, false) k = (needed ++ [t.indexes.getD k ""], out, false) := by
      have hsub : ((needed ++ [t.indexes.getD k ""]).all
          (((needed ++ [t.indexes.getD k ""]).filter fun x => !later.contains x) ++ [i]).contains) = false := by
        rw [Bool.eq_false_iff]
        intro hall
        have := List.all_eq_true.1 hall (t.indexes.getD k "") (by simp)
        simp only [List.contains_eq_mem, List.mem_append, List.mem_filter, List.mem_singleton,
          decide_eq_true_eq, Bool.not_eq_true', decide_eq_false_iff_not] at this
        rcases this with ⟨_, h⟩ | h
        · exact h hx1
        · exact hx2 h
      simp only [lwStep, getD_dense hm, bne_self_eq_false, Bool.false_eq_true, if_false, hsub,
        Bool.and_false]
    rw [hstep]
    exact ih (fun k' hk' => hks k' (by simp [hk'])) _ _

theorem getD_append_left' {pre : List String} (k : Nat) (hk : k < pre.length) (rest : List String) :
    (pre ++ rest).getD k "" = pre[k] := by
  simp [List.getD_eq_getElem?_getD, List.getElem?_append_left hk, hk]

theorem getD_append_right' {pre : List String} (k : Nat) (rest : List String) :
    (pre ++ rest).getD (pre.length + k) "" = rest.getD k "" := by
  simp [List.getD_eq_getElem?_getD, List.getElem?_append_right]

/-- on the class exactly the layer of the current index becomes computable at its node -/
theorem layersToWrite_eq (pre : List String) (i : String) (rest : List String) (t : TensorId)
    (ht : isLeaf (pre ++ i :: rest) t = true) (hnd : (pre ++ i :: rest).Nodup) :
    layersToWrite ⟨t, pre.length⟩ i (i :: rest) = [⟨t, pre.length⟩] := by
  obtain ⟨hidx, hm⟩ := (isLeaf_iff _ t).1 ht
  have hnd' := List.nodup_append.1 hnd
  have hpre_later : ∀ x ∈ pre, x ∉ i :: rest := fun x hx hx' => hnd'.2.2 x hx x hx' rfl
  have hirest : i ∉ rest := (List.nodup_cons.1 hnd'.2.1).1
  rw [layersToWrite_def]
  simp only []
  rw [lwAbove_fold t hm]
  simp only [List.nil_append]
  have hlen : t.indexes.length - pre.length = rest.length + 1 := by
    rw [hidx]; simp
  rw [hlen, List.range_succ_eq_map, List.map_cons, List.foldl_cons, List.map_map]
  -- the layers above are indexes of `pre`
  have hA : ∀ x ∈ (List.range pre.length).reverse.map (t.indexes.getD · ""), x ∈ pre := by
    intro x hx
    obtain ⟨k, hk, rfl⟩ := List.mem_map.1 hx
    have hk : k < pre.length := List.mem_range.1 (List.mem_reverse.1 hk)
    rw [hidx, getD_append_left' k hk]
    exact List.getElem_mem hk
  generalize (List.range pre.length).reverse.map (t.indexes.getD · "") = A at hA
  have hi0 : t.indexes.getD pre.length "" = i := by
    rw [hidx]
    simp
  have hiA : i ∉ A := fun h => hpre_later i (hA i h) (by simp)
  have hfirst : lwStep t i (i :: rest) (A, [], false) (0 + pre.length) =
      (A ++ [i], [⟨t, pre.length⟩], false) := by
    have hbefore : ((A ++ [i]).filter fun x => !(i :: rest).contains x) = A := by
      rw [List.filter_append]
      have h1 : (A.filter fun x => !(i :: rest).contains x) = A := by
        rw [List.filter_eq_self]
        intro x hx
        have := hpre_later x (hA x hx)
        simpa using this
      rw [h1]
      simp
    have hsub1 : ((A ++ [i]).all A.contains) = false := by
      rw [Bool.eq_false_iff]
      intro hall
      have := List.all_eq_true.1 hall i (by simp)
      simp only [List.contains_eq_mem, decide_eq_true_eq] at this
      exact hiA this
    have hsub2 : ((A ++ [i]).all (A ++ [i]).contains) = true := by
      rw [List.all_eq_true]
      intro x hx
      simpa using hx
    rw [Nat.zero_add]
    simp only [lwStep, getD_dense hm, bne_self_eq_false, Bool.false_eq_true, if_false, hi0]
    simp only [hbefore, hsub1, hsub2, Bool.not_false, Bool.and_true, if_true, List.nil_append]
  rw [hfirst]
  obtain ⟨needed', h⟩ := lwStep_tail t i (i :: rest) hm
    ((List.range rest.length).map ((· + pre.length) ∘ Nat.succ)) (by
      intro k hk
      obtain ⟨k', hk', rfl⟩ := List.mem_map.1 hk
      have hk' : k' < rest.length := List.mem_range.1 hk'
      have e1 : ((· + pre.length) ∘ Nat.succ) k' = pre.length + (k' + 1) := by
        simp only [Function.comp]; omega
      rw [e1, hidx, getD_append_right']
      have e2 : (i :: rest).getD (k' + 1) "" = rest[k'] := by
        simp [List.getD_eq_getElem?_getD, hk']
      rw [e2]
      have hmem : rest[k'] ∈ rest := List.getElem_mem hk'
      exact ⟨List.mem_cons_of_mem _ hmem, fun h => hirest (h ▸ hmem)⟩) (A ++ [i]) [⟨t, pre.length⟩]
  rw [h]

/-! ### the terminal -/

theorem lower_terminal_eq (ofRat : Rat → F) (n : Nat) (outT : TensorId) (e : IdExpr)
    (hm : outT.modes.all (· == Mode.dense) = true) :
    lower ofRat (n + 1) (.terminal e) (.append outT outT.indexes.length) .evaluate =
      .ok ⟨some "*** Computation of expression ***", [storeStmt ofRat outT e]⟩ := by
  unfold lower
  have hw : (Output.append outT outT.indexes.length).writtenFlags = [] := by
    simp only [Output.writtenFlags, Output.tensor]
    rw [List.filterMap_eq_nil_iff]
    intro k _
    simp [getElem?_getD_dense hm]
  simp [Kind.isCompute, hw, Output.writeAssignment, SB.mk', SB.append, SB.add, SB.empty,
    storeStmt, bind, Except.bind, pure, Except.pure]

theorem foldl_ptrDecls (i : String) (l : Nat) (later : List String) (ls : List TensorId)
    (hl : ∀ t ∈ ls, layersToWrite ⟨t, l⟩ i later = [⟨t, l⟩] ∧ t.indexes.getD l "" = i) :
    ∀ (body : SB F),
    (ls.map (fun t => (⟨t, l⟩ : Leaf))).foldl (fun body leaf =>
        (layersToWrite leaf i later).foldl (fun body layer =>
          let idxI := layer.index
          body.add (declAssignE layer.ptr .int
            (plus (times layer.prevPtr (.var (dimName idxI))) (.var idxI)))) body) body
      = ⟨body.comment, body.lines ++ ls.map (ptrDecl i l)⟩ := by
  induction ls with
  | nil => intro body; simp
  | cons t ts ih =>
    intro body
    obtain ⟨h1, h2⟩ := hl t (by simp)
    rw [List.map_cons, List.foldl_cons, h1, ih (fun x hx => hl x (by simp [hx]))]
    rw [List.getD_eq_getElem?_getD] at h2
    simp [SB.add, ptrDecl, Leaf.index, Leaf.ptr, Leaf.prevPtr, h2]

theorem nestSB_comment (ofRat : Rat → F) (outT : TensorId) (e : IdExpr) (l : Nat) (is : List String) :
    ∃ c, (nestSB ofRat outT e l is).comment = some c := by
  cases is with
  | nil => exact ⟨_, rfl⟩
  | cons i is => exact ⟨_, rfl⟩

/-- **N1, generalised over the level.** With `full = pre ++ rest` the index list of the class, the
sub-nest over `rest` lowered against the output state `.append outT pre.length` is `nestSB`. -/
theorem lower_nest_eq (ofRat : Rat → F) (outT : TensorId) (e : IdExpr) (full : List String)
    (ho : isLeaf full outT = true) (he : isExpr full e = true) (hnd : full.Nodup) :
    ∀ (rest pre : List String) (k : Nat), full = pre ++ rest →
      lower ofRat (rest.length + 1 + k) (nest outT e pre.length rest) (.append outT pre.length) .evaluate =
        .ok (nestSB ofRat outT e pre.length rest) := by
  obtain ⟨hoi, hom⟩ := (isLeaf_iff full outT).1 ho
  intro rest
  induction rest with
  | nil =>
    intro pre k hfull
    have hl : pre.length = outT.indexes.length := by rw [hoi, hfull]; simp
    rw [hl]
    simp only [nest, nestSB, List.length_nil, Nat.zero_add]
    rw [Nat.add_comm 1 k]
    exact lower_terminal_eq ofRat k outT e hom
  | cons i rest ih =>
    intro pre k hfull
    have hnd0 := hnd
    rw [hfull] at hnd0
    have hipre : i ∉ pre := fun h => (List.nodup_append.1 hnd0).2.2 i h i (by simp) rfl
    have hctx := extractContext_eq pre i rest e (hfull ▸ he) hipre
    have hIH := ih (pre ++ [i]) k (by rw [hfull]; simp)
    rw [List.length_append, List.length_singleton] at hIH
    simp only [nest, nestSB]
    generalize hnx : nest outT e (pre.length + 1) rest = nx at hIH
    have hnc : nodeContext (IGraph.iter i (some { tensor := outT, layer := pre.length }) nx) =
        extractContext e i := by
      simp [nodeContext, ← hnx, nest_context]
    have hcd : compressedDims (IGraph.iter i (some { tensor := outT, layer := pre.length }) nx) = [] := by
      simp [compressedDims, hnc, hctx.1, dedupStr]
    have hsub := generateSubgraphs_eq _ hcd
    have hlater : (IGraph.iter i (some { tensor := outT, layer := pre.length }) nx).laterIndexes = i :: rest := by
      simp [IGraph.laterIndexes, ← hnx, nest_laterIndexes]
    have hmode : ({ tensor := outT, layer := pre.length } : Leaf).mode = Mode.dense := by
      simp [Leaf.mode, getElem?_getD_dense hom]
    have hso : isSparseOutput (IGraph.iter i (some { tensor := outT, layer := pre.length }) nx) = false := by
      simp [isSparseOutput, hmode]
    have hnext : ((Output.append outT pre.length).next (some pre.length) Kind.evaluate : Except GenErr (Output × SB F)) =
        .ok (.append outT (pre.length + 1), SB.empty) := by simp [Output.next]
    rw [show (i :: rest).length + 1 + k = (rest.length + 1 + k) + 1 by simp; omega]
    unfold lower
    simp only [Kind.isCompute, Bool.not_true, Bool.false_and, Bool.false_eq_true, if_false]
    simp only [hso, hmode, Option.map_some, hnext, hsub, hnc, hctx.1, hctx.2, hlater, hIH,
      Bool.and_false, Bool.or_false, Bool.false_and, Bool.false_eq_true, if_false, if_true,
      List.foldlM_cons, List.foldlM_nil, bind, Except.bind, pure, Except.pure,
      List.isEmpty_nil, Bool.not_true, Option.isNone_some, Bool.not_false, List.foldl_nil, beq_self_eq_true,
      List.map_nil, List.nil_append]
    have hall : ∀ t ∈ outT :: leaves e,
        layersToWrite ⟨t, pre.length⟩ i (i :: rest) = [⟨t, pre.length⟩] ∧ t.indexes.getD pre.length "" = i := by
      intro t ht
      have htl : isLeaf (pre ++ i :: rest) t = true := by
        rcases List.mem_cons.1 ht with rfl | ht
        · exact hfull ▸ ho
        · exact hfull ▸ isExpr_mem he t ht
      refine ⟨layersToWrite_eq pre i rest t htl hnd0, ?_⟩
      rw [((isLeaf_iff _ t).1 htl).1]
      simp
    have hfold := foldl_ptrDecls (F := F) i pre.length (i :: rest) (outT :: leaves e) hall SB.empty
    rw [List.map_cons] at hfold
    rw [List.singleton_append, hfold]
    obtain ⟨c, hc⟩ := nestSB_comment ofRat outT e (pre.length + 1) rest
    simp [SB.mk', SB.append, SB.empty, SB.add, SB.loop, SB.finalize, branchJoin, andJoin, joinWith, hc]

/-- **N1.** What `lower` emits for the graph of the class: the loop nest `nestSB … 0 is`. -/
theorem lower_eq (ofRat : Rat → F) (k : Nat) (is : List String) (outT : TensorId) (e : IdExpr)
    (ho : isLeaf is outT = true) (he : isExpr is e = true) (hnd : is.Nodup) :
    lower ofRat (is.length + 1 + k) (graph is outT e) (.append outT 0) .evaluate =
      .ok (nestSB ofRat outT e 0 is) :=
  lower_nest_eq ofRat outT e is ho he hnd is [] k rfl

end TV.DenseN
