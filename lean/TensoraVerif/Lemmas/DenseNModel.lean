import TensoraVerif.Lemmas.Dense1Model

/-!
C01 for dense element-wise kernels of EVERY order, part 1: definitions.

* `DenseN.isLeaf is t`, `DenseN.isExpr is e`: the class (every tensor is indexed by exactly the
  index list `is`, all modes dense — identity mode ordering, row-major storage);
* `DenseN.nest`, `DenseN.graph`: the iteration graph, by recursion on the index list;
* `DenseN.nestSB`, `DenseN.nestLines`: the loop nest `lower` emits, by recursion on the index list;
* `DenseN.prod`, `DenseN.lin`, `DenseN.iterCount`, `DenseN.fuelNeed`, `DenseN.Fits`: the arithmetic
  of the dimensions (product, row-major linearisation, number of loop iterations, fuel, 32-bit
  bound on every prefix product).
-/
namespace TV.DenseN
open TV.IR TV.Gen TV.Graph
open TV.Dense1 (leaves)

variable {F : Type}

/-- a tensor indexed by exactly the index list `is`, every mode dense -/
def isLeaf (is : List String) (t : TensorId) : Bool :=
  t.indexes == is && t.modes.all (· == Mode.dense)

/-- every tensor leaf of `e` is a dense tensor indexed by exactly `is` -/
def isExpr (is : List String) (e : IdExpr) : Bool := (leaves e).all (isLeaf is)

/-- the loop nest over the indexes `is`, the first one writing layer `l` of the output -/
def nest (outT : TensorId) (e : IdExpr) : Nat → List String → IGraph
  | _, [] => .terminal e
  | l, i :: is => .iter i (some ⟨outT, l⟩) (nest outT e (l + 1) is)

/-- the iteration graph of a dense element-wise assignment `out(i₁,…,iₙ) = e` -/
def graph (is : List String) (outT : TensorId) (e : IdExpr) : IGraph := nest outT e 0 is

/-! ### the emitted loop nest -/

/-- `int p_<id>_<l> = <p_<id>_<l-1> or 0> * i_dim + i;` -/
def ptrDecl (i : String) (l : Nat) (t : TensorId) : Stmt F :=
  declAssignE (layerPointer t.id l) .int
    (plus (times (prevLayerPointer t.id l) (.var (dimName i))) (.var i))

/-- `out_vals[<p_<out>_<n-1>>] = <e>;` -/
def storeStmt (ofRat : Rat → F) (outT : TensorId) (e : IdExpr) : Stmt F :=
  .assign (.idx (.var (valsName outT.name)) (prevLayerPointer outT.id outT.indexes.length))
    (toIrWith ofRat e)

/-- the builder `lower` returns for `nest outT e l is`: at every level
`int i = 0; while (i < i_dim) { p_<out>_l = …; p_<t>_l = … (every leaf); if (true) { <next level> } i = i + 1; }`,
innermost the terminal block -/
def nestSB (ofRat : Rat → F) (outT : TensorId) (e : IdExpr) : Nat → List String → SB F
  | _, [] => ⟨some "*** Computation of expression ***", [storeStmt ofRat outT e]⟩
  | l, i :: is =>
    ⟨some ("*** Iteration over " ++ i ++ " ***"),
      [declAssignE i .int (.intLit 0),
       .loop (.bin .lt (.var i) (.var (dimName i)))
         (.block ((outT :: leaves e).map (ptrDecl i l) ++
           [.branch (.boolLit true)
              (.block [(nestSB ofRat outT e (l + 1) is).finalize] none) (.block [] none),
            increment (.var i) (.intLit 1)]) none)]⟩

/-- the statements of the loop nest -/
def nestLines (ofRat : Rat → F) (outT : TensorId) (e : IdExpr) (l : Nat) (is : List String) :
    List (Stmt F) := (nestSB ofRat outT e l is).lines

/-! ### arithmetic of the dimensions -/

/-- `Π d` -/
def prod : List Nat → Nat
  | [] => 1
  | d :: ds => d * prod ds

/-- row-major linearisation of the multi-index `js` continuing the prefix value `q` -/
def lin (q : Nat) : List Nat → List Nat → Nat
  | d :: ds, j :: js => lin (q * d + j) ds js
  | _, _ => q

/-- number of loop iterations of the nest: `Σ_l Π_{k ≤ l} d_k` -/
def iterCount : List Nat → Nat
  | [] => 0
  | d :: ds => d * (iterCount ds + 1)

/-- fuel the nest needs: `Σ_l (d_l + 1)` -/
def fuelNeed : List Nat → Nat
  | [] => 0
  | d :: ds => d + 1 + fuelNeed ds

/-- `Q`, `Q * d₁`, `Q * d₁ * d₂`, … are all below `2^31` (for `Q = 1`: every prefix product of
the dimensions; when all `d ≥ 1` this is `Π d < 2^31`) -/
def Fits (Q : Nat) : List Nat → Prop
  | [] => Q < 2147483648
  | d :: ds => Q < 2147483648 ∧ Fits (Q * d) ds

/-- multi-index below the dimensions -/
def Below : List Nat → List Nat → Prop
  | [], [] => True
  | j :: js, d :: ds => j < d ∧ Below js ds
  | _, _ => False

end TV.DenseN
