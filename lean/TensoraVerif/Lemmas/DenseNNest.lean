import TensoraVerif.Lemmas.DenseNLoop

/-!
C01 for dense element-wise kernels of every order, part 5 (N2): the Hoare theorem of the loop nest,
by induction on the remaining levels. The induction hypothesis is generalised: "running the
sub-nest of the levels `l, …, n-1` from a state where the pointers of level `l-1` hold the
linearised prefix `q` writes the cells `q * P ≤ c < (q+1) * P`, `P` the product of the remaining
dimensions".
-/
namespace TV.DenseN
open TV.IR TV.Gen TV.Graph TV.Growth
open TV.Dense1 (leaves valueF allFinite rhoAt RunsI RunsLI)
set_option linter.unusedSectionVars false
variable {F : Type} [FloatOps F]

theorem intTy_setVar {σ : State F} {x : String} {v : Val F} {r0 : VarRec F}
    (hx : lookupVar σ.vars x = some r0) (h0 : r0.ty = .int) :
    ∀ y, IntTy σ y → IntTy ({ σ with vars := setVar σ.vars x v } : State F) y := by
  intro y hy r hr
  by_cases hyx : y = x
  · subst hyx
    change lookupVar (setVar σ.vars y v) y = some r at hr
    rw [lookupVar_setVar_same _ hx] at hr
    cases hr; exact h0
  · change lookupVar (setVar σ.vars x v) y = some r at hr
    rw [lookupVar_setVar_other _ hyx] at hr
    exact hy r hr

/-- **N2, generalised over the level.** -/
theorem nest_runs (ofRat : Rat → F) (outT : TensorId) (e : IdExpr) (full : List (String × Nat))
    (N ob : Nat) (blkOf : String → Nat) (cellsOf : String → Nat → F)
    (ho : isLeaf (full.map (·.1)) outT = true) (he : isExpr (full.map (·.1)) e = true)
    (hnd : (full.map (·.1)).Nodup) (hus : ∀ p ∈ full, '_' ∉ p.1.toList) :
    ∀ (rest pre : List (String × Nat)) (q Q : Nat) (σ : State F) (fuel : Nat),
      full = pre ++ rest →
      Env full outT e N ob blkOf cellsOf σ →
      PrevIs σ (outT :: leaves e) pre.length q →
      q < Q → Fits Q (rest.map (·.2)) →
      (q + 1) * prod (rest.map (·.2)) ≤ N →
      (∀ c, q * prod (rest.map (·.2)) ≤ c → c < (q + 1) * prod (rest.map (·.2)) →
        allFinite ofRat (rhoAt cellsOf c) e = true) →
      fuelNeed (rest.map (·.2)) ≤ fuel →
      ∃ σ', RunsI fuel (nestSB ofRat outT e pre.length (rest.map (·.1))).finalize σ σ'
          (iterCount (rest.map (·.2))) ∧
        Upd ob (scratch (outT :: leaves e) pre.length (rest.map (·.1)))
          (q * prod (rest.map (·.2))) ((q + 1) * prod (rest.map (·.2)))
          (fun c => valueF ofRat (rhoAt cellsOf c) e) σ σ' := by
  intro rest
  induction rest with
  | nil =>
    intro pre q Q σ fuel hfull henv hprev hqQ hfits hcap hfin _
    simp only [List.map_nil, prod, Nat.mul_one, Fits] at hfits hcap hfin ⊢
    have hlen : (full.map (·.1)).length = pre.length := by rw [hfull]; simp
    have ho' : outT.indexes.length = pre.length := by rw [((isLeaf_iff _ outT).1 ho).1]; exact hlen
    have he' : ∀ t ∈ leaves e, t.indexes.length = pre.length := by
      intro t ht
      rw [((isLeaf_iff _ t).1 (isExpr_mem he t ht)).1]; exact hlen
    exact terminal_runs fuel ofRat henv pre.length ho' he' q (by omega) (by omega) hprev
      (hfin q (Nat.le_refl _) (by omega))
  | cons p rest ih =>
    obtain ⟨i, d⟩ := p
    intro pre q Q σ fuel hfull henv hprev hqQ hfits hcap hfin hfuel
    simp only [List.map_cons, prod, fuelNeed, iterCount, Fits, nestSB, scratch, SB.finalize]
      at hfits hcap hfin hfuel ⊢
    -- facts about names
    have hmem : (i, d) ∈ full := by rw [hfull]; simp
    have hiu : '_' ∉ i.toList := hus _ hmem
    have hfullI : full.map (·.1) = pre.map (·.1) ++ i :: rest.map (·.1) := by rw [hfull]; simp
    have hnd' := hnd
    rw [hfullI] at hnd'
    have hirest : i ∉ rest.map (·.1) := (List.nodup_cons.1 (List.nodup_append.1 hnd').2.1).1
    have husI : ∀ x ∈ full.map (·.1), '_' ∉ x.toList := by
      intro x hx
      obtain ⟨p, hp, rfl⟩ := List.mem_map.1 hx
      exact hus p hp
    have husC : ∀ x ∈ i :: rest.map (·.1), '_' ∉ x.toList := by
      intro x hx
      exact husI x (by rw [hfullI]; exact List.mem_append_right _ hx)
    have hsub : ∀ x ∈ (i :: ptrsAt (outT :: leaves e) pre.length) ++
          scratch (outT :: leaves e) (pre.length + 1) (rest.map (·.1)),
        x ∈ scratch (outT :: leaves e) 0 (full.map (·.1)) := by
      intro x hx
      rw [hfullI, scratch_append]
      apply List.mem_append_right
      simpa [scratch] using hx
    have hdS : ∀ p ∈ full, dimName p.1 ∉ (i :: ptrsAt (outT :: leaves e) pre.length) ++
        scratch (outT :: leaves e) (pre.length + 1) (rest.map (·.1)) :=
      fun p _ => dimName_not_mem_scratch (ts := outT :: leaves e) husC p.1 pre.length
    have hvS : ∀ t ∈ outT :: leaves e, valsName t.name ∉ (i :: ptrsAt (outT :: leaves e) pre.length) ++
        scratch (outT :: leaves e) (pre.length + 1) (rest.map (·.1)) :=
      fun t _ => valsName_not_mem_scratch (ts := outT :: leaves e) husC t.name pre.length
    have hni : i ∉ ptrsAt (outT :: leaves e) pre.length := by
      intro hm
      obtain ⟨t, _, ht⟩ := List.mem_map.1 hm
      exact hiu (ht ▸ mem_us_lp t.id pre.length)
    have hndp : dimName i ∉ ptrsAt (outT :: leaves e) pre.length := by
      intro hm
      exact hdS _ hmem (List.mem_append_left _ (List.mem_cons_of_mem _ hm))
    have hsubP : ∀ x ∈ ptrsAt (outT :: leaves e) pre.length,
        x ∈ (i :: ptrsAt (outT :: leaves e) pre.length) ++
          scratch (outT :: leaves e) (pre.length + 1) (rest.map (·.1)) :=
      fun x hx => List.mem_append_left _ (List.mem_cons_of_mem _ hx)
    have hsubR : ∀ x ∈ scratch (outT :: leaves e) (pre.length + 1) (rest.map (·.1)),
        x ∈ (i :: ptrsAt (outT :: leaves e) pre.length) ++
          scratch (outT :: leaves e) (pre.length + 1) (rest.map (·.1)) :=
      fun x hx => List.mem_append_right _ hx
    have hsubI : ∀ x ∈ [i], x ∈ (i :: ptrsAt (outT :: leaves e) pre.length) ++
          scratch (outT :: leaves e) (pre.length + 1) (rest.map (·.1)) := by
      intro x hx; simp at hx; subst hx; simp
    -- bounds
    have hQd : Q * d < 2147483648 := hfits.2.lt
    have hd31 : (d : Int) < 2147483648 := by
      have := le_mul_of_lt Q d (by omega)
      omega
    have hq31 : q < 2147483648 := by omega
    -- `int i = 0`
    have hity_i : IntTy σ i := henv.scratch i (hsub i (by simp))
    obtain ⟨σa, ra, hha, hta, ⟨r, hr1, hr2, hr3⟩, hoa⟩ :=
      Dense1.runsI_declAssign (fuel := fuel) (x := i) (t := .int) (e := .intLit 0) (val' := .int 0)
        hity_i (evalE_intLit (σ := σ) (by omega) (by omega)) rfl
    have hia : IntVar σa i ((0 : Nat) : Int) := ⟨r, hr1, hr2, hr3⟩
    have hob : ∃ blk, σ.heap[ob]? = some blk := by
      obtain ⟨blk, hb, _⟩ := henv.outBlk; exact ⟨blk, hb⟩
    have hUa : Upd ob ((i :: ptrsAt (outT :: leaves e) pre.length) ++
          scratch (outT :: leaves e) (pre.length + 1) (rest.map (·.1)))
        (q * (d * prod (rest.map (·.2)))) (q * (d * prod (rest.map (·.2))))
        (fun c => valueF ofRat (rhoAt cellsOf c) e) σ σa :=
      Upd.vars_only hha hta hob (fun y hy => hoa y (fun h => hy (by rw [h]; simp)))
        (intTy_of_decl ⟨r, hr1, hr2, hr3⟩ hoa)
    -- the loop
    let Inv : Nat → State F → Prop := fun j σ' =>
      Env full outT e N ob blkOf cellsOf σ' ∧ IntVar σ' i j ∧
      PrevIs σ' (outT :: leaves e) pre.length q ∧
      Upd ob ((i :: ptrsAt (outT :: leaves e) pre.length) ++
          scratch (outT :: leaves e) (pre.length + 1) (rest.map (·.1)))
        (q * (d * prod (rest.map (·.2)))) (q * (d * prod (rest.map (·.2))) + j * prod (rest.map (·.2)))
        (fun c => valueF ofRat (rhoAt cellsOf c) e) σ σ'
    have hInv0 : Inv 0 σa := by
      refine ⟨henv.upd hUa hdS hvS, hia, ?_, ?_⟩
      · exact hprev.congr (fun t _ _ => hoa _ (fun h => hiu (h ▸ mem_us_lp t.id _)))
      · simpa using hUa
    have hloop := countLoop_runs (i := i) (d := d) hd31
      ((outT :: leaves e).map (ptrDecl i pre.length) ++
        [.branch (.boolLit true)
          (.block [.block (nestSB ofRat outT e (pre.length + 1) (rest.map (·.1))).lines
            (nestSB ofRat outT e (pre.length + 1) (rest.map (·.1))).comment] none) (.block [] none),
         increment (.var i) (.intLit 1)])
      Inv (fuelNeed (rest.map (·.2))) (iterCount (rest.map (·.2)))
      (fun j σ' h => ⟨h.2.1, h.1.dimVars _ hmem⟩)
      (by
        intro j σ1 fuel1 hj hinv hfuel1
        obtain ⟨henv1, hi1, hprev1, hU1⟩ := hinv
        have hob1 : ∃ blk, σ1.heap[ob]? = some blk := by
          obtain ⟨blk, hb, _⟩ := henv1.outBlk; exact ⟨blk, hb⟩
        have hplt := ptr_lt q Q d j hqQ hj
        have hp31 : (q : Int) * d + j < 2147483648 := by
          have : ((q * d + j : Nat) : Int) < 2147483648 := by omega
          simpa using this
        -- the pointers of this level
        obtain ⟨σ2, r2, hh2, ht2, ho2, hity2, hp2⟩ := ptrDecls_runs fuel1 i pre.length d j q
          (outT :: leaves e) hd31 hq31 hp31 (outT :: leaves e) σ1 (fun _ h => h) hi1
          (henv1.dimVars _ hmem) hprev1 hni hndp
          (fun t ht => henv1.scratch _ (hsub _ (hsubP _ (List.mem_map_of_mem ht))))
        have hU2 : Upd ob (ptrsAt (outT :: leaves e) pre.length)
            ((q * d + j) * prod (rest.map (·.2))) ((q * d + j) * prod (rest.map (·.2)))
            (fun c => valueF ofRat (rhoAt cellsOf c) e) σ1 σ2 :=
          Upd.vars_only hh2 ht2 hob1 ho2 hity2
        have henv2 := henv1.upd (hU2.mono hsubP) hdS hvS
        have hprev2 : PrevIs σ2 (outT :: leaves e) (pre.length + 1) (q * d + j) := by
          apply PrevIs.succ
          intro t ht
          have := hp2 t ht
          simpa using this
        -- the levels below
        have hcap' : (q * d + j + 1) * prod (rest.map (·.2)) ≤ N :=
          Nat.le_trans (lin_step_le q d j _ hj) hcap
        obtain ⟨σ3, r3, hU3⟩ := ih (pre ++ [(i, d)]) (q * d + j) (Q * d) σ2 fuel1
          (by rw [hfull]; simp) henv2 (by simpa using hprev2) hplt hfits.2 hcap'
          (by
            intro c hc1 hc2
            have e1 := lin_lo q d j (prod (rest.map (·.2)))
            have e2 := lin_step_le q d j (prod (rest.map (·.2))) hj
            exact hfin c (by omega) (by omega)) hfuel1
        simp only [List.length_append, List.length_cons, List.length_nil, Nat.zero_add] at r3 hU3
        have henv3 := henv2.upd (hU3.mono hsubR) hdS hvS
        have hob3 : ∃ blk, σ3.heap[ob]? = some blk := by
          obtain ⟨blk, hb, _⟩ := henv3.outBlk; exact ⟨blk, hb⟩
        -- `i = i + 1`
        have hi3 : IntVar σ3 i j :=
          (hi1.congr (ho2 i hni)).congr (hU3.vars i (index_not_mem_scratch hiu hirest _))
        have r4 : RunsI fuel1 (increment (.var i) (.intLit 1)) σ3
            ({ σ3 with vars := setVar σ3.vars i (.int ((j : Int) + 1)) } : State F) 0 :=
          Dense1.RunsI.of_assign (Runs.assign_int (fuel := fuel1) (e := plus (.var i) (.intLit 1)) hi3
            (evalE_add (evalE_var_int hi3 (by omega) (by omega)) (evalE_intLit (by omega) (by omega))
              (by omega) (by omega)))
        obtain ⟨ri, hri1, hri2, _⟩ := hi3
        have hU4 : Upd ob [i] ((q * d + j + 1) * prod (rest.map (·.2)))
            ((q * d + j + 1) * prod (rest.map (·.2))) (fun c => valueF ofRat (rhoAt cellsOf c) e) σ3
            ({ σ3 with vars := setVar σ3.vars i (.int ((j : Int) + 1)) } : State F) :=
          Upd.vars_only rfl rfl hob3
            (fun y hy => lookupVar_setVar_other _ (by simpa using hy)) (intTy_setVar hri1 hri2)
        have hle : (q * d + j) * prod (rest.map (·.2)) ≤ (q * d + j + 1) * prod (rest.map (·.2)) :=
          Nat.mul_le_mul_right _ (Nat.le_succ _)
        have hU14 := ((hU2.trans hU3 hsubP hsubR (Nat.le_refl _) hle).trans hU4 (fun _ h => h) hsubI hle
          (Nat.le_refl _))
        rw [lin_lo, lin_hi] at hU14
        have hUall := hU1.trans hU14 (fun _ h => h) (fun _ h => h)
          (Nat.le_add_right _ _) (by
            have : j * prod (rest.map (·.2)) ≤ (j + 1) * prod (rest.map (·.2)) :=
              Nat.mul_le_mul_right _ (Nat.le_succ _)
            omega)
        refine ⟨_, ?_, henv3.upd (hU4.mono hsubI) hdS hvS, ?_, ?_, hUall⟩
        · have hr := Dense1.RunsLI.append r2 (Dense1.RunsLI.cons
            (Dense1.RunsI.branch_true (f := .block [] none) (c := .boolLit true) (by simp [evalE])
              (Dense1.RunsI.block (c := none) (Dense1.RunsLI.cons r3 (Dense1.RunsLI.nil _ _))))
            (Dense1.RunsLI.cons r4 (Dense1.RunsLI.nil _ _)))
          simpa [SB.finalize] using hr
        · refine ⟨_, lookupVar_setVar_same _ hri1, hri2, ?_⟩
          show some (Val.int ((j : Int) + 1)) = _
          simp
        · apply hprev1.congr
          intro t ht hl
          exact hU14.vars _ (ptr_not_mem_scratch (ts := outT :: leaves e) husC t.id (by omega)))
      d 0 σa fuel (by omega) hInv0 (by omega)
    obtain ⟨σ', rl, _, _, _, hU'⟩ := hloop
    refine ⟨σ', ?_, ?_⟩
    · have hr := Dense1.RunsI.block (c := some ("*** Iteration over " ++ i ++ " ***"))
        (Dense1.RunsLI.cons ra (Dense1.RunsLI.cons rl (Dense1.RunsLI.nil _ _)))
      simpa [declAssignE] using hr
    · rw [lin_end] at hU'
      exact hU'

end TV.DenseN
