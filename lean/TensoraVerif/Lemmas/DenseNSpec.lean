import TensoraVerif.Lemmas.DenseNModel
import TensoraVerif.Lemmas.Dense1Kernel
import TensoraVerif.Lemmas.MergeNames

/-!
C01 for dense element-wise kernels of every order, part 3: the specification vocabulary of the
Hoare theorem — the scratch variables of the levels `l, l+1, …` (`scratch`), the frame-and-progress
relation `Upd` ("cells `lo ≤ c < hi` of the output block now hold `g c`, nothing else changed except
the scratch variables"), the environment `Env` every level relies on, the value `PrevIs` of the
pointers of the level above, and the arithmetic of `prod`, `Fits`, `lin`.
-/
namespace TV.DenseN
open TV.IR TV.Gen TV.Graph TV.Growth
open TV.Dense1 (leaves valueF allFinite rhoAt RunsI RunsLI)
set_option linter.unusedSectionVars false
variable {F : Type} [FloatOps F]

/-! ### arithmetic -/

theorem prod_pos_of_fits_ne : ∀ (ds : List Nat), (∀ d ∈ ds, 1 ≤ d) → 1 ≤ prod ds
  | [], _ => Nat.le_refl 1
  | d :: ds, h => by
    have h1 := h d (by simp)
    have h2 := prod_pos_of_fits_ne ds (fun x hx => h x (by simp [hx]))
    show 1 ≤ d * prod ds
    exact Nat.mul_le_mul h1 h2

theorem Fits.lt {Q : Nat} : ∀ {ds : List Nat}, Fits Q ds → Q < 2147483648
  | [], h => h
  | _ :: _, h => h.1

/-- when every dimension is positive, `Fits 1` is `Π d < 2^31` -/
theorem fits_of_prod_lt : ∀ (ds : List Nat) (Q : Nat), (∀ d ∈ ds, 1 ≤ d) → Q * prod ds < 2147483648 →
    Fits Q ds
  | [], Q, _, h => by simpa [prod, Fits] using h
  | d :: ds, Q, hpos, h => by
    have hd := hpos d (by simp)
    have hp := prod_pos_of_fits_ne ds (fun x hx => hpos x (by simp [hx]))
    have e : Q * prod (d :: ds) = (Q * d) * prod ds := by simp [prod, Nat.mul_assoc]
    rw [e] at h
    refine ⟨?_, fits_of_prod_lt ds (Q * d) (fun x hx => hpos x (by simp [hx])) h⟩
    have h1 : Q * 1 ≤ Q * d := Nat.mul_le_mul_left Q hd
    have h2 : (Q * d) * 1 ≤ (Q * d) * prod ds := Nat.mul_le_mul_left _ hp
    omega

/-- `(q * d + j) * P' = q * (d * P') + j * P'` -/
theorem lin_lo (q d j P' : Nat) : (q * d + j) * P' = q * (d * P') + j * P' := by
  rw [Nat.add_mul, Nat.mul_assoc]

theorem lin_hi (q d j P' : Nat) : (q * d + j + 1) * P' = q * (d * P') + (j + 1) * P' := by
  rw [Nat.add_assoc, Nat.add_mul, Nat.mul_assoc]

theorem lin_end (q d P' : Nat) : q * (d * P') + d * P' = (q + 1) * (d * P') := by
  rw [Nat.add_mul, Nat.one_mul]

theorem lin_step_le (q d j P' : Nat) (hj : j < d) : (q * d + j + 1) * P' ≤ (q + 1) * (d * P') := by
  rw [← Nat.mul_assoc]
  apply Nat.mul_le_mul_right
  rw [Nat.add_mul, Nat.one_mul]
  omega

theorem ptr_lt (q Q d j : Nat) (hq : q < Q) (hj : j < d) : q * d + j < Q * d := by
  have h1 : q * d + d ≤ Q * d := by
    have : (q + 1) * d ≤ Q * d := Nat.mul_le_mul_right d hq
    rwa [Nat.add_mul, Nat.one_mul] at this
  omega

theorem le_mul_of_lt (Q d : Nat) (hQ : 0 < Q) : d ≤ Q * d := by
  have := Nat.mul_le_mul_right d hQ
  simpa using this

/-- the linearisation of a multi-index below the dimensions stays inside the slab of its prefix -/
theorem lin_bounds : ∀ (ds js : List Nat) (q : Nat), Below js ds →
    q * prod ds ≤ lin q ds js ∧ lin q ds js < (q + 1) * prod ds
  | [], [], q, _ => by simp [lin, prod]
  | [], _ :: _, _, h => by simp [Below] at h
  | _ :: _, [], _, h => by simp [Below] at h
  | d :: ds, j :: js, q, h => by
    obtain ⟨hj, hb⟩ := h
    obtain ⟨h1, h2⟩ := lin_bounds ds js (q * d + j) hb
    simp only [lin, prod]
    have e1 := lin_lo q d j (prod ds)
    have e2 := lin_step_le q d j (prod ds) hj
    have e3 : 0 ≤ j * prod ds := Nat.zero_le _
    constructor <;> omega

/-! ### scratch variables -/

/-- `x` is undeclared or declared `int` -/
def IntTy (σ : State F) (x : String) : Prop := ∀ r, lookupVar σ.vars x = some r → r.ty = .int

/-- the pointers the tensors `ts` use at level `l` -/
def ptrsAt (ts : List TensorId) (l : Nat) : List String := ts.map fun t => layerPointer t.id l

/-- the variables the levels `l, l+1, …` (indexes `is`) write -/
def scratch (ts : List TensorId) : Nat → List String → List String
  | _, [] => []
  | l, i :: is => (i :: ptrsAt ts l) ++ scratch ts (l + 1) is

theorem mem_scratch {ts : List TensorId} {x : String} : ∀ {is : List String} {l : Nat},
    x ∈ scratch ts l is → x ∈ is ∨ ∃ t ∈ ts, ∃ k, l ≤ k ∧ x = layerPointer t.id k
  | [], _, h => by simp [scratch] at h
  | i :: is, l, h => by
    simp only [scratch, List.mem_append, List.mem_cons, ptrsAt, List.mem_map] at h
    rcases h with (rfl | ⟨t, ht, rfl⟩) | h
    · exact Or.inl (by simp)
    · exact Or.inr ⟨t, ht, l, Nat.le_refl _, rfl⟩
    · rcases mem_scratch h with h | ⟨t, ht, k, hk, rfl⟩
      · exact Or.inl (List.mem_cons_of_mem _ h)
      · exact Or.inr ⟨t, ht, k, by omega, rfl⟩

theorem scratch_append (ts : List TensorId) : ∀ (a b : List String) (l : Nat),
    scratch ts l (a ++ b) = scratch ts l a ++ scratch ts (l + a.length) b
  | [], b, l => by simp [scratch]
  | i :: a, b, l => by
    simp only [List.cons_append, scratch, scratch_append ts a b (l + 1), List.length_cons,
      List.append_assoc]
    rw [show l + 1 + a.length = l + (a.length + 1) by omega]

theorem mem_us_lp (ref : String) (l : Nat) : '_' ∈ (layerPointer ref l).toList := by
  simp [layerPointer, String.toList_append]

/-- a name with `'_'` whose last character is not a digit is not a scratch variable -/
theorem not_mem_scratch {ts : List TensorId} {is : List String} (his : ∀ i ∈ is, '_' ∉ i.toList)
    {s : String} {c : Char} (hu : '_' ∈ s.toList) (hs : s.toList.getLast? = some c)
    (hc : c.isDigit = false) (l : Nat) : s ∉ scratch ts l is := by
  intro hm
  rcases mem_scratch hm with h | ⟨t, _, k, _, rfl⟩
  · exact his s h hu
  · obtain ⟨ch, h1, h2⟩ := layerPointer_getLast? t.id k
    rw [h1] at hs; cases hs
    rw [h2] at hc; cases hc

theorem dimName_not_mem_scratch {ts : List TensorId} {is : List String} (his : ∀ i ∈ is, '_' ∉ i.toList)
    (i : String) (l : Nat) : dimName i ∉ scratch ts l is :=
  not_mem_scratch his (Dense1.mem_us_dimName i) (Dense1.getLast?_dimName i) (by decide) l

theorem valsName_not_mem_scratch {ts : List TensorId} {is : List String} (his : ∀ i ∈ is, '_' ∉ i.toList)
    (t : String) (l : Nat) : valsName t ∉ scratch ts l is :=
  not_mem_scratch his (Dense1.mem_us_valsName t) (Dense1.getLast?_valsName t) (by decide) l

/-- an index name that is none of `is` is not written by their levels -/
theorem index_not_mem_scratch {ts : List TensorId} {is : List String} {i : String}
    (hi : '_' ∉ i.toList) (hni : i ∉ is) (l : Nat) : i ∉ scratch ts l is := by
  intro hm
  rcases mem_scratch hm with h | ⟨t, _, k, _, rfl⟩
  · exact hni h
  · exact hi (mem_us_lp t.id k)

/-- a pointer of a level above is not written by the levels below -/
theorem ptr_not_mem_scratch {ts : List TensorId} {is : List String} (his : ∀ i ∈ is, '_' ∉ i.toList)
    (ref : String) {k l : Nat} (hk : k < l) : layerPointer ref k ∉ scratch ts l is := by
  intro hm
  rcases mem_scratch hm with h | ⟨t, _, k', hk', e⟩
  · exact his _ h (mem_us_lp ref k)
  · have := (Merge.layerPointer_inj e).2
    omega

/-! ### the frame-and-progress relation -/

/-- from `σ` to `σ'`: cells `lo ≤ c < hi` of block `ob` now hold `g c`, every other cell of it, every
other block, every tensor record and every variable outside `S` is unchanged; the heap has not
grown; `int` variables stay `int` -/
structure Upd (ob : Nat) (S : List String) (lo hi : Nat) (g : Nat → F) (σ σ' : State F) : Prop where
  tensors : σ'.tensors = σ.tensors
  heapLen : σ'.heap.length = σ.heap.length
  heap : ∀ b, b ≠ ob → σ'.heap[b]? = σ.heap[b]?
  outBlk : ∃ blk blk', σ.heap[ob]? = some blk ∧ σ'.heap[ob]? = some blk' ∧
    blk'.live = blk.live ∧ blk'.owner = blk.owner ∧ blk'.ty = blk.ty ∧
    blk'.cells.length = blk.cells.length ∧
    (∀ c, lo ≤ c → c < hi → blk'.cells[c]? = some (some (.flt (g c)))) ∧
    (∀ c, (c < lo ∨ hi ≤ c) → blk'.cells[c]? = blk.cells[c]?)
  vars : ∀ y, y ∉ S → lookupVar σ'.vars y = lookupVar σ.vars y
  intTy : ∀ x, IntTy σ x → IntTy σ' x

/-- a step that only touches variables of `S` -/
theorem Upd.vars_only {ob : Nat} {S : List String} {lo : Nat} {g : Nat → F} {σ σ' : State F}
    (hh : σ'.heap = σ.heap) (ht : σ'.tensors = σ.tensors) (hob : ∃ blk, σ.heap[ob]? = some blk)
    (hv : ∀ y, y ∉ S → lookupVar σ'.vars y = lookupVar σ.vars y)
    (hty : ∀ x, IntTy σ x → IntTy σ' x) : Upd ob S lo lo g σ σ' := by
  obtain ⟨blk, hb⟩ := hob
  refine ⟨ht, by rw [hh], fun b _ => by rw [hh], ?_, hv, hty⟩
  exact ⟨blk, blk, hb, by rw [hh]; exact hb, rfl, rfl, rfl, rfl, fun c h1 h2 => by omega, fun _ _ => rfl⟩

theorem Upd.trans {ob : Nat} {S1 S2 S : List String} {lo mid hi : Nat} {g : Nat → F} {σ σ1 σ2 : State F}
    (h1 : Upd ob S1 lo mid g σ σ1) (h2 : Upd ob S2 mid hi g σ1 σ2)
    (hs1 : ∀ x ∈ S1, x ∈ S) (hs2 : ∀ x ∈ S2, x ∈ S) (hlm : lo ≤ mid) (hmh : mid ≤ hi) :
    Upd ob S lo hi g σ σ2 := by
  refine ⟨h2.tensors.trans h1.tensors, h2.heapLen.trans h1.heapLen,
    fun b hb => (h2.heap b hb).trans (h1.heap b hb), ?_, ?_, fun x hx => h2.intTy x (h1.intTy x hx)⟩
  · obtain ⟨blk, blk1, hb, hb1, l1, o1, t1, n1, c1, u1⟩ := h1.outBlk
    obtain ⟨blk1', blk2, hb1', hb2, l2, o2, t2, n2, c2, u2⟩ := h2.outBlk
    rw [hb1] at hb1'; cases hb1'
    refine ⟨blk, blk2, hb, hb2, l2.trans l1, o2.trans o1, t2.trans t1, n2.trans n1, ?_, ?_⟩
    · intro c hc1 hc2
      by_cases hcm : c < mid
      · rw [u2 c (Or.inl hcm)]; exact c1 c hc1 hcm
      · exact c2 c (by omega) hc2
    · intro c hc
      rw [u2 c (by omega), u1 c (by omega)]
  · intro y hy
    rw [h2.vars y (fun h => hy (hs2 y h)), h1.vars y (fun h => hy (hs1 y h))]

/-- weakening of the scratch set -/
theorem Upd.mono {ob : Nat} {S S' : List String} {lo hi : Nat} {g : Nat → F} {σ σ' : State F}
    (h : Upd ob S lo hi g σ σ') (hs : ∀ x ∈ S, x ∈ S') : Upd ob S' lo hi g σ σ' :=
  ⟨h.tensors, h.heapLen, h.heap, h.outBlk, fun y hy => h.vars y (fun h' => hy (hs y h')), h.intTy⟩

/-! ### the environment of the nest -/

/-- **What every level of the nest relies on.** `dims` lists the indexes with their dimensions:
`<i>_dim` holds `d`; `<out>_vals` points to block `ob`, a live output-owned float block of at least
`N` cells; for every tensor occurrence `t` of `e`, `<t>_vals` points to a live float block
`blkOf t.name ≠ ob` whose first `N` cells are initialised with the floats `cellsOf t.name`; the
scratch variables of all levels are undeclared or declared `int`. -/
structure Env (dims : List (String × Nat)) (outT : TensorId) (e : IdExpr) (N ob : Nat)
    (blkOf : String → Nat) (cellsOf : String → Nat → F) (σ : State F) : Prop where
  dimVars : ∀ p ∈ dims, IntVar σ (dimName p.1) p.2
  out : PtrVar σ (valsName outT.name) ob
  outBlk : ∃ blk, σ.heap[ob]? = some blk ∧ blk.live = true ∧ blk.owner = .output ∧ blk.ty = .float ∧
    N ≤ blk.cells.length
  ins : ∀ t ∈ leaves e, PtrVar σ (valsName t.name) (blkOf t.name) ∧ blkOf t.name ≠ ob ∧
    ∃ blk, σ.heap[blkOf t.name]? = some blk ∧ blk.live = true ∧ blk.ty = .float ∧
      ∀ c, c < N → blk.cells[c]? = some (some (.flt (cellsOf t.name c)))
  scratch : ∀ x ∈ scratch (outT :: leaves e) 0 (dims.map (·.1)), IntTy σ x

theorem Env.upd {dims : List (String × Nat)} {outT : TensorId} {e : IdExpr} {N ob : Nat}
    {blkOf : String → Nat} {cellsOf : String → Nat → F} {σ σ' : State F} {S : List String}
    {lo hi : Nat} {g : Nat → F}
    (henv : Env dims outT e N ob blkOf cellsOf σ) (hu : Upd ob S lo hi g σ σ')
    (hd : ∀ p ∈ dims, dimName p.1 ∉ S) (hv : ∀ t ∈ outT :: leaves e, valsName t.name ∉ S) :
    Env dims outT e N ob blkOf cellsOf σ' := by
  refine ⟨fun p hp => (henv.dimVars p hp).congr (hu.vars _ (hd p hp)),
    henv.out.congr (hu.vars _ (hv outT (by simp))), ?_, ?_, fun x hx => hu.intTy x (henv.scratch x hx)⟩
  · obtain ⟨blk, blk', hb, hb', l, o, t, n, _, _⟩ := hu.outBlk
    obtain ⟨blk0, hb0, hlive, hown, hty, hlen⟩ := henv.outBlk
    rw [hb] at hb0; cases hb0
    exact ⟨blk', hb', l.trans hlive, o.trans hown, t.trans hty, by rw [n]; exact hlen⟩
  · intro t ht
    obtain ⟨hptr, hne, blk, hb, rest⟩ := henv.ins t ht
    exact ⟨hptr.congr (hu.vars _ (hv t (by simp [ht]))), hne, blk, by rw [hu.heap _ hne]; exact hb, rest⟩

/-! ### the pointers of the level above -/

/-- at level `l > 0` every pointer `p_<t>_<l-1>` holds `q`; at level `0` the prefix value is `0` -/
def PrevIs (σ : State F) (ts : List TensorId) (l q : Nat) : Prop :=
  if l = 0 then q = 0 else ∀ t ∈ ts, IntVar σ (layerPointer t.id (l - 1)) q

theorem evalE_prev {σ : State F} {ts : List TensorId} {l q : Nat} (h : PrevIs σ ts l q)
    {t : TensorId} (ht : t ∈ ts) (hq : q < 2147483648) :
    evalE σ (prevLayerPointer t.id l : Expr F) = .ok (.int q) := by
  unfold PrevIs at h
  unfold prevLayerPointer
  by_cases hl : l = 0
  · simp only [hl, if_true] at h ⊢
    subst h
    exact evalE_intLit (by omega) (by omega)
  · simp only [hl, if_false] at h ⊢
    exact evalE_var_int (h t ht) (by omega) (by omega)

theorem PrevIs.congr {σ σ' : State F} {ts : List TensorId} {l q : Nat} (h : PrevIs σ ts l q)
    (hv : ∀ t ∈ ts, 0 < l → lookupVar σ'.vars (layerPointer t.id (l - 1)) =
      lookupVar σ.vars (layerPointer t.id (l - 1))) : PrevIs σ' ts l q := by
  unfold PrevIs at h ⊢
  by_cases hl : l = 0
  · simpa [hl] using h
  · simp only [hl, if_false] at h ⊢
    exact fun t ht => (h t ht).congr (hv t ht (by omega))

theorem PrevIs.succ {σ : State F} {ts : List TensorId} {l q : Nat}
    (h : ∀ t ∈ ts, IntVar σ (layerPointer t.id l) q) : PrevIs σ ts (l + 1) q := by
  unfold PrevIs
  simpa using h

end TV.DenseN
