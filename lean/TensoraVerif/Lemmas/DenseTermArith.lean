import TensoraVerif.Lemmas.DenseTermLower
import TensoraVerif.Lemmas.DenseNSpec

/-!
C01 for all dense single-term contractions, part 3: arithmetic of linearised indexes (`linIdx`,
`DenseN.lin`, `DenseN.prod`, `DenseN.Fits`) and list facts about the levels.
-/
namespace TV.DenseTerm
open TV.IR TV.Gen TV.Graph
open TV.Dense1 (leaves)
open TV.DenseN (prod lin Fits Below)
set_option linter.unusedSimpArgs false
set_option linter.unusedVariables false

/-! ### products and `Fits` -/

theorem prod_append : ∀ (a b : List Nat), prod (a ++ b) = prod a * prod b
  | [], b => by simp [prod]
  | d :: a, b => by simp [prod, prod_append a b, Nat.mul_assoc]

theorem fits_mono : ∀ {ds : List Nat} {Q Q' : Nat}, Q' ≤ Q → Fits Q ds → Fits Q' ds
  | [], Q, Q', h, hf => by simp only [Fits] at hf ⊢; omega
  | d :: ds, Q, Q', h, hf => by
    obtain ⟨h1, h2⟩ := hf
    exact ⟨by omega, fits_mono (Nat.mul_le_mul_right d h) h2⟩

theorem fits_append : ∀ {a b : List Nat} {Q : Nat}, Fits Q (a ++ b) → Fits (Q * prod a) b
  | [], b, Q, h => by simpa [prod] using h
  | d :: a, b, Q, h => by
    have := fits_append (a := a) (b := b) h.2
    simpa [prod, Nat.mul_assoc] using this

theorem fits_prefix_lt {a b : List Nat} {Q : Nat} (h : Fits Q (a ++ b)) : Q * prod a < 2147483648 :=
  DenseN.Fits.lt (fits_append h)

theorem fits_prod_lt : ∀ {ds : List Nat} {Q : Nat}, Fits Q ds → Q * prod ds < 2147483648
  | [], Q, h => by simpa [prod, Fits] using h
  | d :: ds, Q, h => by
    have := fits_prod_lt h.2
    simpa [prod, Nat.mul_assoc] using this

/-- with `Q ≥ 1`, the product of the dimensions themselves is below `2^31` -/
theorem fits_prod_lt_of_pos {ds : List Nat} {Q : Nat} (h : Fits Q ds) (hQ : 0 < Q) :
    prod ds < 2147483648 := by
  have h1 := fits_prod_lt (fits_mono (Q' := 1) hQ h)
  simpa using h1

/-! ### `linIdx` -/

theorem linIdx_nil (d v : String → Nat) : linIdx d v [] = 0 := rfl

theorem linIdx_snoc (d v : String → Nat) (l : List String) (a : String) :
    linIdx d v (l ++ [a]) = linIdx d v l * d a + v a := by
  simp [linIdx, List.foldl_append]

theorem foldl_lin_congr (d v v' : String → Nat) : ∀ (l : List String) (q : Nat),
    (∀ a ∈ l, v a = v' a) →
    l.foldl (fun q a => q * d a + v a) q = l.foldl (fun q a => q * d a + v' a) q
  | [], _, _ => rfl
  | a :: l, q, h => by
    simp only [List.foldl_cons]
    rw [h a (by simp)]
    exact foldl_lin_congr d v v' l _ (fun b hb => h b (by simp [hb]))

theorem linIdx_congr {d v v' : String → Nat} {l : List String} (h : ∀ a ∈ l, v a = v' a) :
    linIdx d v l = linIdx d v' l := foldl_lin_congr d v v' l 0 h

theorem upd_ne {v : String → Nat} {x y : String} (j : Nat) (h : y ≠ x) : upd v x j y = v y := by
  simp [upd, h]

theorem upd_same (v : String → Nat) (x : String) (j : Nat) : upd v x j x = j := by
  simp [upd]

theorem linIdx_upd {d v : String → Nat} {l : List String} {x : String} (j : Nat) (h : x ∉ l) :
    linIdx d (upd v x j) l = linIdx d v l :=
  linIdx_congr (fun a ha => upd_ne j (fun e => h (e ▸ ha)))

theorem foldl_lin_eq (d v : String → Nat) : ∀ (l : List String) (q : Nat),
    l.foldl (fun q a => q * d a + v a) q = lin q (l.map d) (l.map v)
  | [], _ => rfl
  | a :: l, q => by
    simp only [List.foldl_cons, List.map_cons, lin]
    exact foldl_lin_eq d v l _

theorem linIdx_eq_lin (d v : String → Nat) (l : List String) :
    linIdx d v l = lin 0 (l.map d) (l.map v) := foldl_lin_eq d v l 0

theorem linIdx_append (d v : String → Nat) (a b : List String) :
    linIdx d v (a ++ b) = lin (linIdx d v a) (b.map d) (b.map v) := by
  unfold linIdx
  rw [List.foldl_append, foldl_lin_eq]

/-- Horner: the prefix value contributes `q * Π d` -/
theorem lin_split : ∀ (ds js : List Nat) (q : Nat), js.length = ds.length →
    lin q ds js = q * prod ds + lin 0 ds js
  | [], [], q, _ => by simp [lin, prod]
  | [], _ :: _, _, h => by simp at h
  | _ :: _, [], _, h => by simp at h
  | d :: ds, j :: js, q, h => by
    simp only [lin, prod]
    rw [lin_split ds js (q * d + j) (by simpa using h), lin_split ds js (0 * d + j) (by simpa using h)]
    rw [Nat.add_mul, Nat.zero_mul, Nat.zero_add, Nat.mul_assoc]
    omega

theorem below_length : ∀ {js ds : List Nat}, Below js ds → js.length = ds.length
  | [], [], _ => rfl
  | [], _ :: _, h => by simp [Below] at h
  | _ :: _, [], h => by simp [Below] at h
  | j :: js, d :: ds, h => by simp [below_length h.2]

theorem below_map {d v : String → Nat} : ∀ {l : List String}, (∀ a ∈ l, v a < d a) →
    Below (l.map v) (l.map d)
  | [], _ => trivial
  | a :: l, h => ⟨h a (by simp), below_map (fun b hb => h b (by simp [hb]))⟩

theorem linIdx_lt {d v : String → Nat} {l : List String} (h : ∀ a ∈ l, v a < d a) :
    linIdx d v l < prod (l.map d) := by
  rw [linIdx_eq_lin]
  have := (DenseN.lin_bounds (l.map d) (l.map v) 0 (below_map h)).2
  simpa using this

/-! ### levels -/

theorem outDims_eq (d : String → Nat) (lv : List Level) : outDims d lv = (outIdxs lv).map d := by
  simp [outDims, outIdxs, List.map_map]

theorem outDims_cons_true (d : String → Nat) (x : String) (r : List Level) :
    outDims d ((x, true) :: r) = d x :: outDims d r := by simp [outDims]

theorem outDims_cons_false (d : String → Nat) (x : String) (r : List Level) :
    outDims d ((x, false) :: r) = outDims d r := by simp [outDims]

theorem outDims_append (d : String → Nat) (a b : List Level) :
    outDims d (a ++ b) = outDims d a ++ outDims d b := by simp [outDims]

theorem outIdxs_cons_true (x : String) (r : List Level) : outIdxs ((x, true) :: r) = x :: outIdxs r := by
  simp [outIdxs]

theorem outIdxs_cons_false (x : String) (r : List Level) : outIdxs ((x, false) :: r) = outIdxs r := by
  simp [outIdxs]

theorem mem_idxs_of_mem_outIdxs {lv : List Level} {a : String} (h : a ∈ outIdxs lv) : a ∈ idxs lv :=
  (outIdxs_sublist lv).subset h

/-- the number of leading output levels: the layer at which the bucket is opened (if at all) -/
def firstC (lv : List Level) : Nat := (lv.takeWhile (·.2)).length

theorem firstC_eq {pre rest : List Level} {x : String} (h : ∀ p ∈ pre, p.2 = true) :
    firstC (pre ++ (x, false) :: rest) = pre.length := by
  unfold firstC
  induction pre with
  | nil => simp [List.takeWhile]
  | cons p pre ih =>
    have hp := h p (by simp)
    simp only [List.cons_append, List.takeWhile_cons, hp, if_true, List.length_cons]
    rw [ih (fun q hq => h q (by simp [hq]))]

/-- the layers of a bucket address exactly the remaining indexes of the output -/
theorem bucketLayers_map (outT : TensorId) (n : Nat) (hl : outT.modes.length = outT.indexes.length) :
    (bucketLayers outT n).map (fun l => outT.indexes.getD l "") = outT.indexes.drop n := by
  unfold bucketLayers
  rw [hl]
  apply List.ext_getElem?
  intro k
  simp only [List.getElem?_map, List.getElem?_range', List.getElem?_drop, List.map_map]
  by_cases hk : k < outT.indexes.length - n
  · have : (List.range (outT.indexes.length - n))[k]? = some k := by simp [hk]
    simp only [List.getElem?_map, this, Option.map_some, Function.comp]
    rw [List.getD_eq_getElem?_getD, Nat.add_comm k n]
    have : n + k < outT.indexes.length := by omega
    simp [this]
  · have : (List.range (outT.indexes.length - n))[k]? = none := by simp; omega
    simp only [List.getElem?_map, this, Option.map_none]
    rw [List.getElem?_eq_none]
    omega

end TV.DenseTerm
