import TensoraVerif.Lemmas.DenseTermKernel
import TensoraVerif.Lemmas.Dense2Exact

/-!
C01 for all dense single-term contractions, part 11 (T4 and the two named members):
* on a carrier where everything is finite the side condition `cellOK` holds (`cellOK_of_total`);
* over `Rat` the content of an output cell is the nested sum `sumSem` (the analogue of
  `Alg.sumOver`) of `Graph.value` (`cellF_rat`);
* the matrix product `a(i,j) = B(i,k) * C(k,j)` (nest `i, k, j`) and the dot product
  `a() = b(i) * c(i)`: class membership, dimension variables, the explicit cell formula
  (`mm_cellF`, `dot_cellF`), and `Alg.denote` of the matrix product (`denote_matmul`).
-/
namespace TV.DenseTerm
open TV.IR TV.Gen TV.Graph
open TV.Dense1 (leaves valueF allFinite ratFloatOps)
open TV.DenseN (prod lin Fits Below)
set_option linter.unusedSectionVars false
set_option linter.unusedSimpArgs false
set_option linter.unusedVariables false

/-! ### total carriers -/

theorem semOK_of_total {F : Type} [FloatOps F] (h : ∀ x : F, FloatOps.finite x = true)
    (term : (String → Nat) → F) (fin : (String → Nat) → Bool) (hfin : ∀ v, fin v = true)
    (dimOf : String → Nat) : ∀ (lv : List Level) (b : Bool) (val : String → Nat) (J : List Nat) (f : F),
      semOK term fin dimOf b lv val J f
  | [], b, val, J, f => ⟨hfin val, fun _ => ⟨h _, h _⟩⟩
  | (x, true) :: r, b, val, [], f => trivial
  | (x, true) :: r, b, val, j :: J, f => semOK_of_total h term fin hfin dimOf r b _ J f
  | (x, false) :: r, b, val, J, f => fun k _ => semOK_of_total h term fin hfin dimOf r true _ J _

theorem cellOK_of_total {F : Type} [FloatOps F] (h : ∀ x : F, FloatOps.finite x = true)
    (ofRat : Rat → F) (dimOf : String → Nat) (cellsOf : String → Nat → F) (e : IdExpr)
    (lv : List Level) (J : List Nat) : cellOK ofRat dimOf cellsOf e lv J :=
  semOK_of_total h _ _ (fun v => Dense1.allFinite_of_total h ofRat _ e) dimOf lv false _ J _

/-! ### the exact carrier -/

/-- the nested sum over the contraction indexes of `lv` (in nest order) of the terminal expression,
at the output coordinates `J` -/
def sumSem (term : (String → Nat) → Rat) (dimOf : String → Nat) :
    List Level → (String → Nat) → List Nat → Rat
  | [], val, _ => term val
  | (x, true) :: r, val, j :: J => sumSem term dimOf r (upd val x j) J
  | (_, true) :: _, _, [] => 0
  | (x, false) :: r, val, J => Alg.sumRange (dimOf x) fun k => sumSem term dimOf r (upd val x k) J

theorem iterF_add_rat (S : Nat → Rat) : ∀ (d : Nat) (f0 : Rat),
    iterF (fun k f => f + S k) d f0 = f0 + Alg.sumRange d S
  | 0, f0 => by simp only [iterF, Alg.sumRange, List.range_zero, List.foldl_nil]; exact (Rat.add_zero _).symm
  | d + 1, f0 => by
    rw [iterF, iterF_add_rat S d f0, Dense2.sumRange_succ, Rat.add_assoc]

theorem iterF_congr {α : Type} (g g' : Nat → α → α) : ∀ (d : Nat) (f : α),
    (∀ k, k < d → ∀ f, g k f = g' k f) → iterF g d f = iterF g' d f
  | 0, _, _ => rfl
  | d + 1, f, h => by
    rw [iterF, iterF, iterF_congr g g' d f (fun k hk => h k (by omega)), h d (by omega)]

/-- over the exact carrier a sub-nest in bucket mode adds the nested sum, and in append mode
produces it -/
theorem sem_rat (term : (String → Nat) → Rat) (dimOf : String → Nat) :
    ∀ (lv : List Level) (val : String → Nat) (J : List Nat), J.length = (outDims dimOf lv).length →
      (∀ f : Rat, sem (F := Rat) term dimOf true lv val J f = f + sumSem term dimOf lv val J) ∧
      (∀ f : Rat, sem (F := Rat) term dimOf false lv val J f = sumSem term dimOf lv val J)
  | [], val, J, _ => ⟨fun f => rfl, fun f => rfl⟩
  | (x, true) :: r, val, [], h => by simp [outDims] at h
  | (x, true) :: r, val, j :: J, h => by
    have := sem_rat term dimOf r (upd val x j) J (by simpa [outDims] using h)
    exact ⟨fun f => by simp only [sem, sumSem]; exact this.1 f,
      fun f => by simp only [sem, sumSem]; exact this.2 f⟩
  | (x, false) :: r, val, J, h => by
    have ih := fun k => (sem_rat term dimOf r (upd val x k) J (by simpa [outDims] using h)).1
    have hc : ∀ f0 : Rat, iterF (fun k f => sem (F := Rat) term dimOf true r (upd val x k) J f)
        (dimOf x) f0 = f0 + Alg.sumRange (dimOf x) (fun k => sumSem term dimOf r (upd val x k) J) := by
      intro f0
      rw [iterF_congr _ (fun k f => f + sumSem term dimOf r (upd val x k) J) _ _
        (fun k _ f => ih k f)]
      exact iterF_add_rat _ _ _
    refine ⟨fun f => ?_, fun f => ?_⟩
    · simp only [sem, sumSem, if_true]; exact hc f
    · simp only [sem, sumSem, Bool.false_eq_true, if_false]
      rw [hc]
      exact Rat.zero_add _

/-- over the exact carrier the terminal expression under a valuation is `Graph.value` -/
theorem termF_rat (dimOf : String → Nat) (cellsOf : String → Nat → Rat) (e : IdExpr)
    (val : String → Nat) (ρ : String → Rat)
    (hρ : ∀ t ∈ leaves e, ρ t.id = cellsOf t.name (linIdx dimOf val t.indexes)) :
    termF (F := Rat) id dimOf cellsOf e val = value ρ e := by
  unfold termF
  rw [← Dense1.valueF_rat ρ e]
  exact Dense1.valueF_congr id _ _ e (fun t ht => (hρ t ht).symm)

/-- **T4, general class.** Over `Rat` the content of output cell `J` is the nested sum over the
contraction indexes of the terminal expression -/
theorem cellF_rat (dimOf : String → Nat) (cellsOf : String → Nat → Rat) (e : IdExpr)
    (lv : List Level) (J : List Nat) (hJ : Below J (outDims dimOf lv)) :
    cellF (F := Rat) id dimOf cellsOf e lv J =
      sumSem (termF (F := Rat) id dimOf cellsOf e) dimOf lv (fun _ => 0) J :=
  (sem_rat _ dimOf lv _ J (below_length hJ)).2 _

/-! ### the matrix product `a(i,j) = B(i,k) * C(k,j)`, nest `i, k, j` -/

/-- the levels of the matrix product -/
def mmLv (i j k : String) : List Level := [(i, true), (k, false), (j, true)]

/-- the terminal expression of a product of two tensors -/
def mulE (tB tC : TensorId) : IdExpr := .mul (.tensor tB) (.tensor tC)

/-- the desugared assignment of the matrix product -/
def mmAssign (an Bn Cn i j k : String) (k1 k2 : Nat) : Alg.DAssign :=
  ⟨an, [i, j], .contract k (.mul (.tensor k1 Bn [i, k]) (.tensor k2 Cn [k, j]))⟩

theorem indexDimensions_mm (an Bn Cn i j k : String) (k1 k2 : Nat) (hij : i ≠ j) (hik : i ≠ k)
    (hjk : j ≠ k) :
    indexDimensions (mmAssign an Bn Cn i j k k1 k2) = [(i, an, 0), (j, an, 1), (k, Bn, 1)] := by
  simp [mmAssign, indexDimensions, indexDimensions.go, List.range, List.range.loop, hij, hik, hjk,
    Ne.symm hij, Ne.symm hik, Ne.symm hjk]

theorem desugar_mm (an Bn Cn i j k : String) (hij : i ≠ j) (hik : i ≠ k) (hjk : j ≠ k) :
    Alg.desugar ⟨an, [i, j], .mul (.tensor Bn [i, k]) (.tensor Cn [k, j])⟩ =
      mmAssign an Bn Cn i j k 1 2 := by
  simp [mmAssign, Alg.desugar, Alg.desugarE, Alg.indexesOf, Alg.dedup, Alg.wrap, hij, hik, hjk,
    Ne.symm hij, Ne.symm hik, Ne.symm hjk]

/-- **the specification of the matrix product** (C01's `denote`): `Σ_k B[i,k] * C[k,j]` -/
theorem denote_matmul (inputs : Alg.Inputs) (sizes : Alg.Sizes) (an Bn Cn i j k : String)
    (hij : i ≠ j) (hik : i ≠ k) (hjk : j ≠ k) (ii jj : Nat) :
    Alg.denote ⟨an, [i, j], .mul (.tensor Bn [i, k]) (.tensor Cn [k, j])⟩ inputs sizes [ii, jj] =
      Alg.sumRange (sizes k) (fun v => inputs Bn [ii, v] * inputs Cn [v, jj]) := by
  simp [Alg.denote, Alg.termsOf, Alg.Term.mul, Alg.Term.indexes, Alg.dedup, Alg.sumOver,
    Alg.Term.val, Alg.Env.get, Alg.Env.set, hij, hik, hjk, Ne.symm hij, Ne.symm hik, Ne.symm hjk]
  exact Rat.zero_add _

section mm
variable {F : Type} [FloatOps F]

theorem mm_isOut (i j k : String) (outT : TensorId) (hI : outT.indexes = [i, j])
    (hM : outT.modes = [.dense, .dense]) : isOut (mmLv i j k) outT = true := by
  simp [isOut, mmLv, outIdxs, hI, hM]

theorem mm_isExpr (i j k : String) (hik : i ≠ k) (tB tC : TensorId) (hB : tB.indexes = [i, k])
    (hBm : tB.modes.all (· == Mode.dense) = true) (hC : tC.indexes = [k, j])
    (hCm : tC.modes.all (· == Mode.dense) = true) :
    isExpr (idxs (mmLv i j k)) (mulE tB tC) = true := by
  simp [isExpr, mulE, leaves, isLeaf, mmLv, idxs, hB, hC, hBm, hCm, List.isSublist, Ne.symm hik]

theorem mm_nodup (i j k : String) (hij : i ≠ j) (hik : i ≠ k) (hjk : j ≠ k) :
    (idxs (mmLv i j k)).Nodup := by
  simp [mmLv, idxs, hij, hik, Ne.symm hjk]

/-- the running sum of the matrix product at `(ii, jj)` after `r` terms, in loop order from
`ofInt 0` -/
def mmF (cB cC : Nat → F) (m p ii jj : Nat) (r : Nat) : F :=
  iterF (fun kk f => FloatOps.add f (FloatOps.mul (cB (ii * p + kk)) (cC (kk * m + jj)))) r
    (FloatOps.ofInt 0)

/-- the cell formula of the matrix product -/
theorem mm_cellF (ofRat : Rat → F) (i j k : String) (hij : i ≠ j) (hik : i ≠ k) (hjk : j ≠ k)
    (dimOf : String → Nat) (cellsOf : String → Nat → F) (tB tC : TensorId)
    (hB : tB.indexes = [i, k]) (hC : tC.indexes = [k, j]) (ii jj : Nat) :
    cellF ofRat dimOf cellsOf (mulE tB tC) (mmLv i j k) [ii, jj] =
      mmF (cellsOf tB.name) (cellsOf tC.name) (dimOf j) (dimOf k) ii jj (dimOf k) := by
  unfold cellF mmF
  simp only [mmLv, sem, Bool.false_eq_true, if_false, if_true]
  apply iterF_congr
  intro kk _ f
  simp [termF, mulE, valueF, rho, linIdx, hB, hC, upd, hij, hik, hjk, Ne.symm hij, Ne.symm hik,
    Ne.symm hjk]

theorem mm_iters (dimOf : String → Nat) (i j k : String) :
    iters dimOf false (mmLv i j k) = dimOf i * (dimOf j + dimOf k * (dimOf j + 1) + 1) := by
  simp [iters, mmLv, outDims, prod]

theorem mm_fuel (dimOf : String → Nat) (i j k : String) :
    fuelNeed dimOf false (mmLv i j k) = dimOf i + 1 + (dimOf j + 1 + (dimOf k + 1 + (dimOf j + 1))) := by
  simp [fuelNeed, mmLv, outDims, prod]

theorem mm_outDims (dimOf : String → Nat) (i j k : String) :
    outDims dimOf (mmLv i j k) = [dimOf i, dimOf j] := by
  simp [outDims, mmLv]

/-! ### the dot product `a() = b(i) * c(i)` -/

def dotLv (i : String) : List Level := [(i, false)]

def dotAssign (an bn cn i : String) (k1 k2 : Nat) : Alg.DAssign :=
  ⟨an, [], .contract i (.mul (.tensor k1 bn [i]) (.tensor k2 cn [i]))⟩

theorem indexDimensions_dot (an bn cn i : String) (k1 k2 : Nat) :
    indexDimensions (dotAssign an bn cn i k1 k2) = [(i, bn, 0)] := by
  simp [dotAssign, indexDimensions, indexDimensions.go, List.range, List.range.loop]

theorem desugar_dot (an bn cn i : String) :
    Alg.desugar ⟨an, [], .mul (.tensor bn [i]) (.tensor cn [i])⟩ = dotAssign an bn cn i 1 2 := by
  simp [dotAssign, Alg.desugar, Alg.desugarE, Alg.indexesOf, Alg.dedup, Alg.wrap]

theorem denote_dot (inputs : Alg.Inputs) (sizes : Alg.Sizes) (an bn cn i : String) :
    Alg.denote ⟨an, [], .mul (.tensor bn [i]) (.tensor cn [i])⟩ inputs sizes [] =
      Alg.sumRange (sizes i) (fun v => inputs bn [v] * inputs cn [v]) := by
  simp [Alg.denote, Alg.termsOf, Alg.Term.mul, Alg.Term.indexes, Alg.dedup, Alg.sumOver,
    Alg.Term.val, Alg.Env.get, Alg.Env.set]
  exact Rat.zero_add _

/-- the running sum of the dot product after `r` terms, in loop order from `ofInt 0` -/
def dotF (cb cc : Nat → F) (r : Nat) : F :=
  iterF (fun kk f => FloatOps.add f (FloatOps.mul (cb kk) (cc kk))) r (FloatOps.ofInt 0)

theorem dot_cellF (ofRat : Rat → F) (i : String) (dimOf : String → Nat) (cellsOf : String → Nat → F)
    (tb tc : TensorId) (hb : tb.indexes = [i]) (hc : tc.indexes = [i]) :
    cellF ofRat dimOf cellsOf (mulE tb tc) (dotLv i) [] =
      dotF (cellsOf tb.name) (cellsOf tc.name) (dimOf i) := by
  unfold cellF dotF
  simp only [dotLv, sem, Bool.false_eq_true, if_false, if_true]
  apply iterF_congr
  intro kk _ f
  simp [termF, mulE, valueF, rho, linIdx, hb, hc, upd]

theorem dot_isOut (i : String) (outT : TensorId) (hI : outT.indexes = []) (hM : outT.modes = []) :
    isOut (dotLv i) outT = true := by
  simp [isOut, dotLv, outIdxs, hI, hM]

theorem dot_isExpr (i : String) (tb tc : TensorId) (hb : tb.indexes = [i])
    (hbm : tb.modes.all (· == Mode.dense) = true) (hc : tc.indexes = [i])
    (hcm : tc.modes.all (· == Mode.dense) = true) :
    isExpr (idxs (dotLv i)) (mulE tb tc) = true := by
  simp [isExpr, mulE, leaves, isLeaf, dotLv, idxs, hb, hc, hbm, hcm, List.isSublist]

theorem dot_iters (dimOf : String → Nat) (i : String) :
    iters dimOf false (dotLv i) = 1 + dimOf i := by
  simp [iters, dotLv, outDims, prod]

theorem dot_fuel (dimOf : String → Nat) (i : String) :
    fuelNeed dimOf false (dotLv i) = 2 + (dimOf i + 1) := by
  simp [fuelNeed, dotLv, outDims, prod]

end mm

/-- over `Rat` the loop-order sums are `Alg.sumRange` -/
theorem mmF_rat (cB cC : Nat → Rat) (m p ii jj r : Nat) :
    mmF (F := Rat) cB cC m p ii jj r = Alg.sumRange r (fun kk => cB (ii * p + kk) * cC (kk * m + jj)) := by
  unfold mmF
  have := iterF_add_rat (fun kk => cB (ii * p + kk) * cC (kk * m + jj)) r (0 : Rat)
  rw [Rat.zero_add] at this
  exact this

theorem dotF_rat (cb cc : Nat → Rat) (r : Nat) :
    dotF (F := Rat) cb cc r = Alg.sumRange r (fun kk => cb kk * cc kk) := by
  unfold dotF
  have := iterF_add_rat (fun kk => cb kk * cc kk) r (0 : Rat)
  rw [Rat.zero_add] at this
  exact this

end TV.DenseTerm
