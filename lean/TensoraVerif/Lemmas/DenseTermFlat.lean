import TensoraVerif.Lemmas.DenseTermExact

/-!
C01 for all dense single-term contractions, part 12: the content of an output cell, flattened — a
left fold over the list of ALL contraction multi-indexes in loop (lexicographic nest) order
(`sem_flat`, `cellF_flat`).
-/
namespace TV.DenseTerm
open TV.IR TV.Gen TV.Graph
open TV.DenseN (prod lin Fits Below)
set_option linter.unusedSectionVars false
set_option linter.unusedSimpArgs false
set_option linter.unusedVariables false
variable {F : Type} [FloatOps F]

/-- all multi-indexes of the contraction levels of `lv`, in loop order (the first contraction index
varies slowest) -/
def contrVals (dimOf : String → Nat) : List Level → List (List Nat)
  | [] => [[]]
  | (_, true) :: r => contrVals dimOf r
  | (x, false) :: r => (List.range (dimOf x)).flatMap fun k => (contrVals dimOf r).map (k :: ·)

/-- the valuation that gives the output levels of `lv` the coordinates `J` and the contraction
levels the coordinates `K` -/
def bindVal : List Level → (String → Nat) → List Nat → List Nat → String → Nat
  | [], val, _, _ => val
  | (x, true) :: r, val, j :: J, K => bindVal r (upd val x j) J K
  | (_, true) :: _, val, [], _ => val
  | (x, false) :: r, val, J, k :: K => bindVal r (upd val x k) J K
  | (_, false) :: _, val, _, [] => val

theorem iterF_eq_foldl {α : Type} (g : Nat → α → α) : ∀ (d : Nat) (f : α),
    iterF g d f = (List.range d).foldl (fun f k => g k f) f
  | 0, f => rfl
  | d + 1, f => by
    rw [iterF, iterF_eq_foldl g d f, List.range_succ, List.foldl_append]
    rfl

/-- **bucket mode, flattened**: the sub-nest adds the term of every contraction multi-index, in
loop order -/
theorem sem_flat_bkt (term : (String → Nat) → F) (dimOf : String → Nat) :
    ∀ (lv : List Level) (val : String → Nat) (J : List Nat) (f : F),
      J.length = (outDims dimOf lv).length →
      sem term dimOf true lv val J f =
        (contrVals dimOf lv).foldl (fun f K => FloatOps.add f (term (bindVal lv val J K))) f
  | [], val, J, f, _ => rfl
  | (x, true) :: r, val, [], f, h => by simp [outDims] at h
  | (x, true) :: r, val, j :: J, f, h => by
    simp only [sem, contrVals, bindVal]
    exact sem_flat_bkt term dimOf r (upd val x j) J f (by simpa [outDims] using h)
  | (x, false) :: r, val, J, f, h => by
    simp only [sem, contrVals, if_true]
    rw [iterF_eq_foldl, List.foldl_flatMap]
    congr 1
    funext f k
    rw [List.foldl_map]
    simp only [bindVal]
    exact sem_flat_bkt term dimOf r (upd val x k) J f (by simpa [outDims] using h)

/-- **append mode, flattened**: without a contraction level the cell is the term; otherwise it is
the fold over all contraction multi-indexes starting from `ofInt 0` -/
theorem sem_flat_app (term : (String → Nat) → F) (dimOf : String → Nat) :
    ∀ (lv : List Level) (val : String → Nat) (J : List Nat) (f : F),
      J.length = (outDims dimOf lv).length →
      sem term dimOf false lv val J f =
        if lv.all (·.2) then term (bindVal lv val J [])
        else (contrVals dimOf lv).foldl (fun f K => FloatOps.add f (term (bindVal lv val J K)))
          (FloatOps.ofInt 0)
  | [], val, J, f, _ => rfl
  | (x, true) :: r, val, [], f, h => by simp [outDims] at h
  | (x, true) :: r, val, j :: J, f, h => by
    simp only [sem, contrVals, bindVal, List.all_cons, Bool.true_and]
    exact sem_flat_app term dimOf r (upd val x j) J f (by simpa [outDims] using h)
  | (x, false) :: r, val, J, f, h => by
    have := sem_flat_bkt term dimOf ((x, false) :: r) val J (FloatOps.ofInt 0) h
    simp only [sem, if_true] at this
    simp only [sem, List.all_cons, Bool.false_and, Bool.false_eq_true, if_false]
    exact this

/-- **the content of an output cell, flattened** -/
theorem cellF_flat (ofRat : Rat → F) (dimOf : String → Nat) (cellsOf : String → Nat → F) (e : IdExpr)
    (lv : List Level) (J : List Nat) (hJ : Below J (outDims dimOf lv)) :
    cellF ofRat dimOf cellsOf e lv J =
      if lv.all (·.2) then termF ofRat dimOf cellsOf e (bindVal lv (fun _ => 0) J [])
      else (contrVals dimOf lv).foldl
        (fun f K => FloatOps.add f (termF ofRat dimOf cellsOf e (bindVal lv (fun _ => 0) J K)))
        (FloatOps.ofInt 0) :=
  sem_flat_app _ dimOf lv _ J _ (below_length hJ)

end TV.DenseTerm
