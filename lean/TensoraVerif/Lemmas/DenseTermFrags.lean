import TensoraVerif.Lemmas.DenseTermLoop
import TensoraVerif.Lemmas.ToIrTerminal

/-!
C01 for all dense single-term contractions, part 6: the straight-line fragments on the machine —
writing one output cell (`fr_writeCell`), the product of dimension variables (`evalE_mulVars`), the
"Bucket initialization" block (`bucketInit_runs`), and the two terminals (`terminal_app_runs`:
`out_vals[p] = e`; `terminal_bkt_runs`: `bucket[ravel] = bucket[ravel] + e`).
-/
namespace TV.DenseTerm
open TV.IR TV.Gen TV.Graph TV.Growth
open TV.ToIr (PtrAt OutCell FloatCell writeCell lprod ravelH)
open TV.Dense1 (leaves valueF allFinite RunsI RunsLI)
open TV.DenseN (prod lin Fits Below ptrDecl storeStmt)
set_option linter.unusedSectionVars false
set_option linter.unusedSimpArgs false
set_option linter.unusedVariables false
variable {F : Type} [FloatOps F]

/-! ### writing one cell of the output block -/

theorem outCell_of_env {C : Ctx F} {σ : State F} (henv : Env C σ) {c : Nat} (hc : c < C.N) :
    OutCell σ C.ob (c : Int) := by
  obtain ⟨blk, hb, hl, ho, ht, hn⟩ := henv.outBlk
  exact ⟨blk, hb, hl, ho, ht, by omega, by omega⟩

theorem fr_writeCell {C : Ctx F} {σ : State F} {c : Nat} (hc : OutCell σ C.ob (c : Int)) (f : F)
    (W : String → Prop) :
    Fr C W c (c + 1) σ (writeCell σ C.ob (c : Int) (.flt f)) ∧
    CellIs C (writeCell σ C.ob (c : Int) (.flt f)) c f ∧
    (writeCell σ C.ob (c : Int) (.flt f)).vars = σ.vars := by
  have hp := ToIr.writeCell_post hc (.flt f)
  obtain ⟨blk, blk', e1, e2, t, o, l, n, w, u⟩ := hp.blk
  have hvars := hp.vars
  refine ⟨⟨hp.tensors, hp.len, hp.other, ⟨blk, blk', e1, e2, l, o, t, n, ?_⟩, ?_, ?_⟩,
    ⟨blk', e2, by simpa using w⟩, hvars⟩
  · intro c' hc'
    exact u c' (by simp; omega)
  · intro y _; rw [hvars]
  · intro y hy r hr
    rw [hvars] at hr; exact hy r hr

theorem floatCell_of_cellIs {C : Ctx F} {σ : State F} (henv : Env C σ) {c : Nat} {f : F}
    (h : CellIs C σ c f) : FloatCell σ C.ob (c : Int) f := by
  obtain ⟨blk, hb, hl, _, ht, _⟩ := henv.outBlk
  obtain ⟨blk', hb', hc⟩ := h
  rw [hb] at hb'; cases hb'
  exact ⟨blk, hb, hl, ht, by omega, by simpa using hc⟩

/-! ### products of dimension variables -/

/-- `acc * x₁_dim * … * xₙ_dim`, every partial product below `2^31` -/
theorem evalE_mulVars {σ : State F} (d : String → Nat) : ∀ (xs : List String) (acc : Expr F) (a : Nat),
    (∀ x ∈ xs, IntVar σ (dimName x) (d x) ∧ d x < 2147483648) →
    evalE σ acc = .ok (.int a) → Fits a (xs.map d) →
    evalE σ ((xs.map fun i => (.var (dimName i) : Expr F)).foldl (.bin .mul) acc) =
      .ok (.int ((a * prod (xs.map d) : Nat) : Int))
  | [], acc, a, _, hacc, _ => by simpa [prod] using hacc
  | x :: xs, acc, a, hv, hacc, hfit => by
    obtain ⟨hx, hd⟩ := hv x (by simp)
    have hlt := hfit.2.lt
    have hm : evalE σ (.bin .mul acc (.var (dimName x))) = .ok (.int ((a * d x : Nat) : Int)) := by
      have := evalE_mul hacc (evalE_var_int hx (by omega) (by omega)) (by
        have : (0 : Int) ≤ (a : Int) * (d x : Int) := Int.mul_nonneg (by omega) (by omega)
        omega) (by
        have : ((a * d x : Nat) : Int) < 2147483648 := by omega
        simpa using this)
      simpa using this
    have := evalE_mulVars d xs (.bin .mul acc (.var (dimName x))) (a * d x)
      (fun y hy => hv y (by simp [hy])) hm hfit.2
    simpa [prod, Nat.mul_assoc] using this

theorem evalE_mulJoinVars {σ : State F} (d : String → Nat) (xs : List String)
    (hv : ∀ x ∈ xs, IntVar σ (dimName x) (d x) ∧ d x < 2147483648) (hfit : Fits 1 (xs.map d)) :
    evalE σ (mulJoin (xs.map fun i => (.var (dimName i) : Expr F))) =
      .ok (.int ((prod (xs.map d) : Nat) : Int)) := by
  have := evalE_mulVars (σ := σ) d xs (.intLit 1) 1 hv (evalE_intLit (by omega) (by omega)) hfit
  simpa [mulJoin, joinWith] using this

/-! ### the bucket and the output slab -/

section bucket
variable {C : Ctx F} (S : Static C) {pre rest : List Level} {x : String}
  (hfull : C.full = pre ++ (x, false) :: rest) (hall : ∀ p ∈ pre, p.2 = true)
include S hfull hall

theorem n0_eq : C.n0 = pre.length := by
  unfold Ctx.n0; rw [hfull]; exact firstC_eq hall

theorem out_take : C.outT.indexes.take C.n0 = outIdxs pre := by
  rw [S.outI, hfull, outIdxs_append, n0_eq S hfull hall]
  have : pre.length = (outIdxs pre).length := by
    rw [outIdxs_of_all hall]; simp [idxs]
  rw [this, List.take_left']
  rfl

theorem out_drop : C.outT.indexes.drop C.n0 = outIdxs rest := by
  rw [S.outI, hfull, outIdxs_append, n0_eq S hfull hall]
  have : pre.length = (outIdxs pre).length := by
    rw [outIdxs_of_all hall]; simp [idxs]
  rw [this, List.drop_left', outIdxs_cons_false]
  rfl

theorem Pb_eq : C.Pb = prod (outDims C.dimOf rest) := by
  unfold Ctx.Pb; rw [out_drop S hfull hall, outDims_eq]

theorem qb_eq (val : String → Nat) : C.qb val = linIdx C.dimOf val (outIdxs pre) := by
  unfold Ctx.qb; rw [out_take S hfull hall]

end bucket

theorem bucketDims_eq {C : Ctx F} (S : Static C) :
    (bucketDims C.outT (bucketLayers C.outT C.n0) : List (Expr F)) =
      (C.outT.indexes.drop C.n0).map fun i => .var (dimName i) := by
  unfold bucketDims
  rw [← bucketLayers_map C.outT C.n0 S.outL, List.map_map]
  rfl

/-- the facts about the slab of output cells below the levels `pre` -/
theorem slab_facts {C : Ctx F} (S : Static C) {pre rest : List Level} (hfull : C.full = pre ++ rest)
    {val : String → Nat} {b : Bool} {σ : State F} (hst : St C pre val b σ) :
    linIdx C.dimOf val (outIdxs pre) < prod (outDims C.dimOf pre) ∧
    Fits (prod (outDims C.dimOf pre)) (outDims C.dimOf rest) ∧
    prod (outDims C.dimOf pre) * prod (outDims C.dimOf rest) = C.N ∧ C.N < 2147483648 := by
  have h1 : linIdx C.dimOf val (outIdxs pre) < prod (outDims C.dimOf pre) := by
    rw [outDims_eq]
    exact linIdx_lt (fun a ha => (hst.idx a (mem_idxs_of_mem_outIdxs ha)).2)
  have hf := S.fits C.outT (by simp [Ctx.ts])
  rw [S.outI, ← outDims_eq, hfull, outDims_append] at hf
  have hN : prod (outDims C.dimOf pre) * prod (outDims C.dimOf rest) = C.N := by
    unfold Ctx.N; rw [hfull, outDims_append, prod_append]
  refine ⟨h1, by simpa using fits_append hf, hN, ?_⟩
  rw [← hN, ← prod_append]
  simpa using fits_prod_lt hf

/-! ### "Bucket initialization" -/

/-- **the bucket initialisation** emitted by the first contraction level: the bucket pointer points
to the slab of the current output prefix, every cell of the slab holds `ofInt 0`, in exactly `P`
loop iterations (`P` the number of cells of the slab) -/
theorem bucketInit_runs {C : Ctx F} (S : Static C) {pre rest : List Level} {x : String}
    (hfull : C.full = pre ++ (x, false) :: rest) (hall : ∀ p ∈ pre, p.2 = true)
    {val : String → Nat} {σ : State F} (hst : St C pre val false σ) (fuel : Nat)
    (hfuel : prod (outDims C.dimOf rest) + 1 ≤ fuel) :
    ∃ σ', RunsI fuel (bucketInit C.outT C.n0) σ σ' (prod (outDims C.dimOf rest)) ∧
      St C pre val true σ' ∧
      Fr C (fun y => y = C.bn ∨ y = C.bl)
        (linIdx C.dimOf val (outIdxs pre) * prod (outDims C.dimOf rest))
        ((linIdx C.dimOf val (outIdxs pre) + 1) * prod (outDims C.dimOf rest)) σ σ' ∧
      ∀ c, linIdx C.dimOf val (outIdxs pre) * prod (outDims C.dimOf rest) ≤ c →
        c < (linIdx C.dimOf val (outIdxs pre) + 1) * prod (outDims C.dimOf rest) →
        CellIs C σ' c (FloatOps.ofInt 0) := by
  obtain ⟨hqQ, hfitQ, hN, hN31⟩ := slab_facts S hfull hst
  rw [outDims_cons_false] at hfitQ hN
  have hPb := Pb_eq S hfull hall
  have hqb := qb_eq S hfull hall val
  generalize hP : prod (outDims C.dimOf rest) = P at *
  generalize hq : linIdx C.dimOf val (outIdxs pre) = qo at *
  have hQpos : 0 < prod (outDims C.dimOf pre) := by omega
  have hcap : (qo + 1) * P ≤ C.N := by
    rw [← hN]; exact Nat.mul_le_mul_right P hqQ
  have hqP31 : qo * P < 2147483648 := by
    have : qo * P ≤ (qo + 1) * P := Nat.mul_le_mul_right P (Nat.le_succ _)
    omega
  have hP31 : P < 2147483648 := by
    rw [← hP]; exact fits_prod_lt_of_pos hfitQ hQpos
  have hout : C.outT ∈ C.ptrTs false := by simp [Ctx.ptrTs, Ctx.ts]
  have htake : ∀ a ∈ C.outT.indexes.take C.n0, a ∈ idxs pre := by
    intro a ha
    rw [out_take S hfull hall] at ha
    exact mem_idxs_of_mem_outIdxs ha
  -- the dimension variables of the bucket
  have hdims : ∀ σ' : State F, Env C σ' →
      evalE σ' (mulJoin ((C.outT.indexes.drop C.n0).map fun i => (.var (dimName i) : Expr F))) =
        .ok (.int (P : Int)) := by
    intro σ' henv'
    have := evalE_mulJoinVars (σ := σ') C.dimOf (C.outT.indexes.drop C.n0) (by
      intro a ha
      have ha' : a ∈ idxs C.full := (S.sub (by simp [Ctx.ts])).subset (List.mem_of_mem_drop ha)
      exact ⟨henv'.dimVars a ha', S.d31 a ha'⟩) (by
      rw [out_drop S hfull hall, ← outDims_eq]
      exact fits_mono hQpos hfitQ)
    rw [this]
    unfold Ctx.Pb at hPb
    rw [hPb]
  -- double* bucket = out_vals + p * (…)
  obtain ⟨eprev, _, _⟩ := hst.evalPrev S hout
    (by rw [n0_eq S hfull hall, S.outI, hfull, outIdxs_append, outIdxs_of_all hall]
        simp [idxs]) htake
  have eprev' : evalE σ (prevLayerPointer C.outT.id C.n0 : Expr F) = .ok (.int (qo : Int)) := by
    rw [eprev]; unfold Ctx.qb at hqb; rw [hqb]
  have e1 : evalE σ (bucketPtrE C.outT C.n0 : Expr F) = .ok (.ptr C.ob (0 + (qo : Int) * (P : Int))) :=
    Dense2.evalE_ptr_add (evalE_var_ptr hst.env.out)
      (evalE_mul eprev' (hdims σ hst.env)
        (by have : (0 : Int) ≤ (qo : Int) * (P : Int) := Int.mul_nonneg (by omega) (by omega)
            omega)
        (by have : ((qo * P : Nat) : Int) < 2147483648 := by omega
            simpa using this))
  have hk : (0 + (qo : Int) * (P : Int)) = ((qo * P : Nat) : Int) := by simp
  rw [hk] at e1
  let W : String → Prop := fun y => y = C.bn ∨ y = C.bl
  have hWbn : Wr C false C.full C.bn := Or.inr (Or.inr ⟨rfl, Or.inl rfl⟩)
  have hWbl : Wr C false C.full C.bl := Or.inr (Or.inr ⟨rfl, Or.inr rfl⟩)
  have hrbn : C.reqTy C.bn = .ptr .float := by simp [Ctx.reqTy]
  have hrbl : C.reqTy C.bl = .int := by simp [Ctx.reqTy, (bn_ne_bl C).symm]
  obtain ⟨σ1, r1, hh1, ht1, ⟨rb, hb1, hb2, hb3⟩, ho1⟩ :=
    Dense1.runsI_declAssign (fuel := fuel) (x := C.bn) (t := .ptr .float)
      (val' := .ptr C.ob ((qo * P : Nat) : Int))
      (fun r hr => (hst.env.typed _ hWbn r hr).trans hrbn) e1 rfl
  have hfr1 : Fr C W (qo * P) (qo * P) σ σ1 :=
    Fr.vars_only hh1 ht1 hst.env.ob (fun y hy => ho1 y (fun e => hy (Or.inl e)))
      (tyOK_of_decl (σ := σ) ⟨rb, hb1, by rw [hb2, hrbn], hb3⟩ ho1)
  have hWsub : ∀ y, W y → Wr C false ((x, false) :: rest) y :=
    fun y hy => Or.inr (Or.inr ⟨rfl, hy⟩)
  have hst1 : St C pre val false σ1 :=
    hst.frame S hfull (hfr1.mono hWsub (Nat.le_refl _) (Nat.le_refl _)) (fun h => h)
  have hbkt1 : PtrAt σ1 C.bn C.ob ((qo * P : Nat) : Int) := ⟨rb, .float, hb1, hb2, hb3⟩
  -- int i_bucket = 0
  obtain ⟨σ2, r2, hh2, ht2, ⟨rl, hl1, hl2, hl3⟩, ho2⟩ :=
    Dense1.runsI_declAssign (fuel := fuel) (x := C.bl) (t := .int) (e := .intLit 0) (val' := .int 0)
      (fun r hr => (hst1.env.typed _ hWbl r hr).trans hrbl)
      (evalE_intLit (σ := σ1) (by omega) (by omega)) rfl
  have hfr2 : Fr C W (qo * P) (qo * P) σ1 σ2 :=
    Fr.vars_only hh2 ht2 hst1.env.ob (fun y hy => ho2 y (fun e => hy (Or.inr e)))
      (tyOK_of_decl (σ := σ1) ⟨rl, hl1, by rw [hl2, hrbl], hl3⟩ ho2)
  have hfr12 : Fr C W (qo * P) (qo * P) σ σ2 :=
    hfr1.trans hfr2 (fun _ h => h) (fun _ h => h) (Nat.le_refl _) (Nat.le_refl _) (Nat.le_refl _)
      (Nat.le_refl _)
  have hst2 : St C pre val false σ2 :=
    hst.frame S hfull (hfr12.mono hWsub (Nat.le_refl _) (Nat.le_refl _)) (fun h => h)
  have hbkt2 : PtrAt σ2 C.bn C.ob ((qo * P : Nat) : Int) :=
    Dense2.ptrAt_congr hbkt1 (ho2 _ (bn_ne_bl C))
  -- the loop
  let Inv : Nat → State F → Prop := fun r σ' =>
    St C pre val false σ' ∧ IntVar σ' C.bl r ∧ PtrAt σ' C.bn C.ob ((qo * P : Nat) : Int) ∧
    Fr C W (qo * P) (qo * P + r) σ σ' ∧
    ∀ c, qo * P ≤ c → c < qo * P + r → CellIs C σ' c (FloatOps.ofInt 0)
  have hInv0 : Inv 0 σ2 := ⟨hst2, ⟨rl, hl1, hl2, hl3⟩, hbkt2, by simpa using hfr12,
    fun c h1 h2 => by omega⟩
  have hloop := countLoopE_runs (i := C.bl) (d := P)
    (bound := mulJoin (bucketDims C.outT (bucketLayers C.outT C.n0))) (by omega)
    [.assign (.idx (.var C.bn) (.var C.bl)) (.intLit 0), increment (.var C.bl) (.intLit 1)]
    Inv 0 0
    (fun r σ' h => ⟨h.2.1, by rw [bucketDims_eq S]; exact hdims σ' h.1.env⟩)
    (by
      intro r σa fuel1 hr hinv _
      obtain ⟨hsta, hla, hba, hfra, hca⟩ := hinv
      have hcellN : qo * P + r < C.N := by
        have : qo * P + P = (qo + 1) * P := by rw [Nat.add_mul, Nat.one_mul]
        omega
      have hcell : OutCell σa C.ob (((qo * P : Nat) : Int) + (r : Int)) := by
        have := outCell_of_env hsta.env hcellN
        simpa using this
      have hstore := Dense2.runs_assign_cell_int (fuel := fuel1) (ToIr.evalE_var_ptrAt hba)
        (evalE_var_int hla (by omega) (by omega))
        (evalE_intLit (σ := σa) (v := 0) (by omega) (by omega)) hcell
      have hk2 : (((qo * P : Nat) : Int) + (r : Int)) = ((qo * P + r : Nat) : Int) := by simp
      rw [hk2] at hstore hcell
      obtain ⟨hfrw, hcw, hvw⟩ := fr_writeCell (C := C) hcell (FloatOps.ofInt 0) W
      generalize writeCell σa C.ob ((qo * P + r : Nat) : Int) (.flt (FloatOps.ofInt 0)) = σb at *
      have hfrab : Fr C W (qo * P) (qo * P + (r + 1)) σ σb :=
        hfra.trans hfrw (fun _ h => h) (fun _ h => h) (Nat.le_refl _) (by omega) (by omega) (by omega)
      have hstb : St C pre val false σb :=
        hst.frame S hfull (hfrab.mono hWsub (Nat.le_refl _) (Nat.le_refl _)) (fun h => h)
      have hlb : IntVar σb C.bl r := hla.congr (by rw [hvw])
      obtain ⟨σc, rc, hhc, hfrc', hlc⟩ := incr_runs hrbl fuel1 hlb (by omega) hstb.env.ob
        (fun y => y = C.bl) rfl (qo * P + (r + 1))
      have hfrc : Fr C W (qo * P + (r + 1)) (qo * P + (r + 1)) σb σc :=
        hfrc'.mono (fun y h => Or.inr h) (Nat.le_refl _) (Nat.le_refl _)
      have hfrac : Fr C W (qo * P) (qo * P + (r + 1)) σ σc :=
        hfrab.trans hfrc (fun _ h => h) (fun _ h => h) (Nat.le_refl _) (Nat.le_refl _) (by omega)
          (Nat.le_refl _)
      refine ⟨σc, Dense1.RunsLI.cons (Dense1.RunsI.of_assign hstore)
          (Dense1.RunsLI.cons rc (Dense1.RunsLI.nil _ _)), ?_, hlc, ?_, hfrac, ?_⟩
      · exact hst.frame S hfull (hfrac.mono hWsub (Nat.le_refl _) (Nat.le_refl _)) (fun h => h)
      · exact Dense2.ptrAt_congr (Dense2.ptrAt_congr hba (by rw [hvw])) (hfrc'.vars _ (bn_ne_bl C))
      · intro c h1 h2
        apply CellIs.congr _ hhc
        by_cases hcr : c = qo * P + r
        · subst hcr; exact hcw
        · exact hfrw.cell (by omega) (hca c h1 (by omega)))
    P 0 σ2 fuel (by omega) hInv0 (by omega)
  obtain ⟨σ', rl', hst', _, hb', hfr', hc'⟩ := hloop
  have hend : qo * P + P = (qo + 1) * P := by rw [Nat.add_mul, Nat.one_mul]
  rw [hend] at hfr' hc'
  refine ⟨σ', ?_, ⟨hst'.env, hst'.idx, fun t ht => hst'.ptrs t (C.ptrTs_sub true t ht |> fun _ => by
      simp only [Ctx.ptrTs] at ht ⊢
      exact List.mem_cons_of_mem _ ht), fun _ => ⟨?_, htake⟩⟩, hfr', hc'⟩
  · have hr := Dense1.RunsI.block (c := some "Bucket initialization")
      (Dense1.RunsLI.cons r1 (Dense1.RunsLI.cons r2 (Dense1.RunsLI.cons rl' (Dense1.RunsLI.nil _ _))))
    simpa [bucketInit, bucketDeclarations, SB.finalize, SB.mk', SB.add, SB.loop, Ctx.bn, Ctx.bl,
      declAssignE] using hr
  · rw [hqb, hPb]; exact hb'

end TV.DenseTerm
