import TensoraVerif.Lemmas.DenseTermLower
import TensoraVerif.Lemmas.DenseNGenerate

/-!
C01 for all dense single-term contractions, part 9: what `generateIr` produces on the class — the
whole `evaluate` function, written out (`kernel`, `generateIr_eq`). The tensor that supplies each
dimension variable (`indexDimensions`) is a parameter `srcs`.
-/
namespace TV.DenseTerm
open TV.IR TV.Gen TV.Graph TV.Growth
open TV.Dense1 (leaves)
set_option linter.unusedSectionVars false
set_option linter.unusedSimpArgs false
variable {F : Type}

/-- `int <x>_dim = <name>->dimensions[<d>];` for every index: which tensor supplies it -/
def dimDecls (srcs : List (String × String × Nat)) : List (Stmt F) :=
  srcs.map fun (p : String × String × Nat) =>
    declAssignE (dimName p.1) .int (.idx (.attr (.var p.2.1) "dimensions") (.intLit p.2.2))

/-- the statements of the `evaluate` kernel of the class, before `return 0` -/
def kernelStmts (ofRat : Rat → F) (formats : Formats) (srcs : List (String × String × Nat))
    (lv : List Level) (outT : TensorId) (e : IdExpr) : List (Stmt F) :=
  [.block (dimDecls srcs) (some "Extract dimensions"),
   .block (formats.map fun f => declAssignE (valsName f.1) (.ptr .float) (.attr (.var f.1) "vals"))
      (some "Unpack tensors"),
   .block [declAssignE (valsCapName outT.name) .int (DenseN.capExpr outT.indexes.length outT.name),
      .assign (.var (valsName outT.name)) (.alloc .float (.var (valsCapName outT.name)))]
      (some "Output initialization"),
   (termNest ofRat lv outT e).finalize,
   .block [.assign (.attr (.var outT.name) "vals") (.var (valsName outT.name))]
      (some ("Assembling output tensor " ++ outT.name))]

/-- the `evaluate` kernel of the class -/
def kernel (ofRat : Rat → F) (formats : Formats) (srcs : List (String × String × Nat))
    (lv : List Level) (outT : TensorId) (e : IdExpr) : Func F :=
  ⟨"evaluate", formats.map fun f => (f.1, .ptr .tensor), .int,
    .block (kernelStmts ofRat formats srcs lv outT e ++ [.ret (.intLit 0)]) none⟩

/-- **What `generateIr` produces on the class.** -/
theorem generateIr_eq [FloatOps F] (ofRat : Rat → F) (cap : Option Int) (a : Alg.DAssign)
    (formats : Formats) (srcs : List (String × String × Nat)) (lv : List Level) (outT : TensorId)
    (e : IdExpr) (hout : tensorId 0 a.tname formats a.tidx = some outT) (hname : outT.name = a.tname)
    (ho : isOut lv outT = true) (he : isExpr (idxs lv) e = true) (hnd : (idxs lv).Nodup)
    (hz : ∀ p ∈ lv, p.2 = false → zeroish e = false)
    (hf : Dense2.denseFormats formats = true) (hd : indexDimensions a = srcs) :
    generateIr ofRat cap a formats (graph lv outT e) .evaluate =
      .ok (kernel ofRat formats srcs lv outT e) := by
  obtain ⟨hoi, hom, hol⟩ := (isOut_iff lv outT).1 ho
  have hsz : 4 * (graph lv outT e).size + 8 = lv.length + 1 + (3 * lv.length + 11) := by
    rw [graph, nest_size]; omega
  have hu := Dense2.unpackDecls_eq (F := F) formats hf
  unfold unpackDecls at hu
  obtain ⟨c, hc⟩ := termSB_comment ofRat outT e (.app 0) lv
  unfold generateIr
  simp only [hout, Option.getD_some, hsz, lower_eq ofRat _ lv outT e ho he hnd hz, hd,
    DenseN.appendDeclarations_eqN cap outT hom, DenseN.appendCleanup_eqN outT hom, hu]
  simp [bind, Except.bind, pure, Except.pure, kernel, kernelStmts, SB.add, SB.append, SB.empty,
    SB.finalize, Kind.name, hname, hc, dimDecls, DenseN.capExpr, termNest]

end TV.DenseTerm
