import TensoraVerif.Lemmas.DenseTermNest
import TensoraVerif.Lemmas.DenseTermGenerate
import TensoraVerif.Lemmas.DenseNFrags

/-!
C01 for all dense single-term contractions, part 10 (T3): the whole loop nest from the top
(`nest_top`), every cell of the output is addressed by a multi-index (`lin_surj`), and the whole
`evaluate` function on the machine (`kernel_runs`): from an initial state as the driver builds it
(`Init`), through "Extract dimensions" (each `_dim` read from the tensor `indexDimensions` names),
"Unpack tensors", "Output initialization", the nest and "Assembling output tensor".
-/
namespace TV.DenseTerm
open TV.IR TV.Gen TV.Graph TV.Growth
open TV.Dense1 (leaves valueF allFinite RunsI RunsLI TensorVar)
open TV.DenseN (prod lin Fits Below)
set_option linter.unusedSectionVars false
set_option linter.unusedSimpArgs false
set_option linter.unusedVariables false
variable {F : Type} [FloatOps F]

/-! ### the nest from the top -/

theorem St.init {C : Ctx F} {σ : State F} (henv : Env C σ) (val : String → Nat) :
    St C [] val false σ := by
  refine ⟨henv, fun y hy => by simp [idxs] at hy, ?_, fun h => by cases h⟩
  intro t _ k hk hp
  exfalso
  have : t.indexes[k] ∈ t.indexes.take (k + 1) := by
    rw [List.mem_take_iff_getElem]; exact ⟨k, by omega, rfl⟩
  have := hp _ this
  simp [idxs] at this

/-- **the whole nest.** -/
theorem nest_top (ofRat : Rat → F) {C : Ctx F} (S : Static C) {σ : State F} (henv : Env C σ)
    (hok : ∀ J, Below J (outDims C.dimOf C.full) → cellOK ofRat C.dimOf C.cellsOf C.e C.full J)
    (fuel : Nat) (hfuel : fuelNeed C.dimOf false C.full ≤ fuel) :
    ∃ σ', RunsI fuel (termNest ofRat C.full C.outT C.e).finalize σ σ' (iters C.dimOf false C.full) ∧
      Fr C (Wr C false C.full) 0 C.N σ σ' ∧
      ∀ J, Below J (outDims C.dimOf C.full) →
        CellIs C σ' (lin 0 (outDims C.dimOf C.full) J) (cellF ofRat C.dimOf C.cellsOf C.e C.full J) := by
  have h := nestSpec_all ofRat S C.full [] (.app 0) (fun _ => 0) (fun _ => FloatOps.ofInt 0) σ fuel
    rfl ⟨rfl, fun _ h => by cases h⟩ (St.init henv _) (fun h => by cases h) hok hfuel
  have h0 : linIdx C.dimOf (fun _ => 0) (outIdxs ([] : List Level)) = 0 := rfl
  rw [h0] at h
  simpa [OMode.isBkt, termNest, Ctx.N, cellF] using h

/-! ### every cell is addressed -/

/-- every cell of the slab of prefix `q` is the linearisation of a multi-index below the dimensions -/
theorem lin_surj : ∀ (ds : List Nat) (q c : Nat), q * prod ds ≤ c → c < (q + 1) * prod ds →
    ∃ J, Below J ds ∧ lin q ds J = c
  | [], q, c, h1, h2 => by
    simp only [prod, Nat.mul_one] at h1 h2
    exact ⟨[], trivial, by show q = c; omega⟩
  | d :: ds, q, c, h1, h2 => by
    simp only [prod] at h1 h2
    have hP : 0 < prod ds := by
      rcases Nat.eq_zero_or_pos (prod ds) with h | h
      · rw [h] at h1 h2; simp at h1 h2
      · exact h
    have e1 : q * (d * prod ds) = (q * d) * prod ds := by rw [Nat.mul_assoc]
    have e2 : (q + 1) * (d * prod ds) = ((q + 1) * d) * prod ds := by rw [Nat.mul_assoc]
    rw [e1] at h1
    rw [e2] at h2
    have hlo : q * d ≤ c / prod ds := (Nat.le_div_iff_mul_le hP).2 h1
    have hhi : c / prod ds < (q + 1) * d := (Nat.div_lt_iff_lt_mul hP).2 h2
    have hj : c / prod ds - q * d < d := by
      rw [Nat.add_mul, Nat.one_mul] at hhi; omega
    have hqj : q * d + (c / prod ds - q * d) = c / prod ds := by omega
    obtain ⟨J, hJ, hl⟩ := lin_surj ds (q * d + (c / prod ds - q * d)) c
      (by rw [hqj]; exact Nat.div_mul_le_self c (prod ds))
      (by rw [hqj, Nat.mul_comm]; exact Nat.lt_mul_div_succ c hP)
    exact ⟨(c / prod ds - q * d) :: J, ⟨hj, hJ⟩, by simpa [lin] using hl⟩

/-! ### names of the prologue -/

theorem dropWhile_append_of_all {α : Type} (p : α → Bool) : ∀ (l r : List α), (∀ a ∈ l, p a = true) →
    (l ++ r).dropWhile p = r.dropWhile p
  | [], _, _ => rfl
  | a :: l, r, h => by
    simp only [List.cons_append, List.dropWhile_cons, h a (by simp), if_true]
    exact dropWhile_append_of_all p l r (fun b hb => h b (by simp [hb]))

theorem valsCapName_dropWhile {x : String} (hx : '_' ∉ x.toList) :
    (valsCapName x).toList.dropWhile (· != '_') = "_vals_capacity".toList := by
  simp only [valsCapName, String.toList_append]
  rw [dropWhile_append_of_all]
  · rfl
  · intro a ha
    simp only [bne_iff_ne, ne_eq]
    intro e; exact hx (e ▸ ha)

theorem bucketName_ne_valsCapName (t : TensorId) (ls : List Nat) {x : String} (hx : '_' ∉ x.toList)
    (hid : ∃ s, t.id = "0_" ++ s) : bucketName t ls ≠ valsCapName x := by
  obtain ⟨s, hs⟩ := hid
  intro e
  have h := congrArg (fun s => s.toList.dropWhile (· != '_')) e
  simp only [valsCapName_dropWhile hx] at h
  simp only [bucketName, hs, String.toList_append] at h
  have : ("bucket_" : String).toList = ['b', 'u', 'c', 'k', 'e', 't', '_'] := rfl
  rw [this] at h
  have h2 : ("0_" : String).toList = ['0', '_'] := rfl
  rw [h2] at h
  simp [List.dropWhile] at h

theorem bucketLoopName_ne_valsCapName (t : TensorId) (ls : List Nat) {x : String} (hx : '_' ∉ x.toList) :
    bucketLoopName t ls ≠ valsCapName x := by
  intro e
  have h := congrArg (fun s => s.toList.dropWhile (· != '_')) e
  simp only [valsCapName_dropWhile hx] at h
  simp only [bucketLoopName, String.toList_append] at h
  have : ("i_bucket_" : String).toList = 'i' :: '_' :: 'b' :: "ucket_".toList := rfl
  rw [this] at h
  simp [List.dropWhile] at h

/-! ### "Extract dimensions" -/

/-- `int <x>_dim = <name>->dimensions[<d>];` for every entry of `srcs` -/
theorem dimDecls_runs (fuel : Nat) (tix : String → Nat) (dimOf : String → Nat) :
    ∀ (srcs : List (String × String × Nat)) (σ : State F),
      (∀ p ∈ srcs, TensorVar σ p.2.1 (tix p.2.1) ∧ ∃ tr blk, σ.tensors[tix p.2.1]? = some tr ∧
        σ.heap[tr.dimsBlk]? = some blk ∧ blk.live = true ∧ blk.ty = .int ∧
        blk.cells[p.2.2]? = some (some (.int (dimOf p.1))) ∧ p.2.2 < 2147483648 ∧
        dimOf p.1 < 2147483648) →
      (srcs.map (·.1)).Nodup → (∀ p ∈ srcs, lookupVar σ.vars (dimName p.1) = none) →
      (∀ p ∈ srcs, ∀ q ∈ srcs, p.2.1 ≠ dimName q.1) →
      ∃ σ', RunsLI fuel (dimDecls srcs) σ σ' 0 ∧ σ'.heap = σ.heap ∧ σ'.tensors = σ.tensors ∧
        (∀ y, (∀ p ∈ srcs, y ≠ dimName p.1) → lookupVar σ'.vars y = lookupVar σ.vars y) ∧
        ∀ p ∈ srcs, IntVar σ' (dimName p.1) (dimOf p.1)
  | [], σ, _, _, _, _ =>
    ⟨σ, Dense1.RunsLI.nil _ _, rfl, rfl, fun _ _ => rfl, fun p hp => by cases hp⟩
  | p :: srcs, σ, hsrc, hnd, hfresh, hne => by
    obtain ⟨hx, tr, blk, htr, hb, hlive, hty, hc, hk31, hd31⟩ := hsrc p (by simp)
    obtain ⟨σ1, r1, hh1, ht1, hv1, ho1⟩ := Dense1.runsI_declAssign (fuel := fuel)
      (x := dimName p.1) (t := .int) (val' := .int (dimOf p.1))
      (by rw [hfresh p (by simp)]; intro r h; cases h)
      (Dense2.evalE_dimAt hx htr hb hlive hty hc (by omega) (by omega) (by omega)) rfl
    have hnd' : p.1 ∉ srcs.map (·.1) ∧ (srcs.map (·.1)).Nodup := by
      rw [List.map_cons] at hnd; exact List.nodup_cons.1 hnd
    have hne1 : ∀ q ∈ srcs, dimName q.1 ≠ dimName p.1 := by
      intro q hq e
      exact hnd'.1 (List.mem_map.2 ⟨q, hq, (DenseN.dimName_inj e)⟩)
    obtain ⟨σ2, r2, hh2, ht2, ho2, hv2⟩ := dimDecls_runs fuel tix dimOf srcs σ1
      (by
        intro q hq
        obtain ⟨hxq, rest⟩ := hsrc q (by simp [hq])
        refine ⟨hxq.congr (ho1 _ (hne q (by simp [hq]) p (by simp))), ?_⟩
        rw [ht1, hh1]; exact rest)
      hnd'.2 (fun q hq => by rw [ho1 _ (hne1 q hq)]; exact hfresh q (by simp [hq]))
      (fun q hq q' hq' => hne q (by simp [hq]) q' (by simp [hq']))
    refine ⟨σ2, ?_, hh2.trans hh1, ht2.trans ht1, ?_, ?_⟩
    · have := Dense1.RunsLI.cons r1 r2
      simpa [dimDecls, declAssignE] using this
    · intro y hy
      rw [ho2 y (fun q hq => hy q (by simp [hq])), ho1 y (hy p (by simp))]
    · intro q hq
      rcases List.mem_cons.1 hq with rfl | hq
      · exact (show IntVar σ1 (dimName q.1) (dimOf q.1) from hv1).congr
          (ho2 _ (fun q' hq' e => hne1 q' hq' e.symm))
      · exact hv2 q hq

/-! ### the kernel -/

/-- static side conditions of the kernel theorem -/
structure KernelOK (formats : Formats) (srcs : List (String × String × Nat)) (C : Ctx F) : Prop where
  static : Static C
  outId : ∃ s, C.outT.id = "0_" ++ s
  tensors : ∀ f ∈ formats, '_' ∉ f.1.toList
  idxTensor : ∀ x ∈ idxs C.full, x ∉ formats.map (·.1)
  out : C.outT.name ∈ formats.map (·.1)
  ins : ∀ t ∈ leaves C.e, t.name ∈ formats.map (·.1) ∧ t.name ≠ C.outT.name
  srcNodup : (srcs.map (·.1)).Nodup
  srcIdx : ∀ p ∈ srcs, p.1 ∈ idxs C.full ∧ p.2.1 ∈ formats.map (·.1) ∧ p.2.2 < 2147483648
  srcAll : ∀ x ∈ idxs C.full, x ∈ srcs.map (·.1)
  order31 : C.outT.indexes.length < 2147483648

/-- **Initial machine state of a kernel call**, as the driver builds it: the variables are exactly
the tensor parameters, parameter `t` bound to tensor record `tix t`; every record has a pointer (or
`NULL`) in `vals`; for every dimension variable, the `dimensions` block of the tensor that supplies
it holds the dimension at the stated position; the output record is output-owned and its
`dimensions` block holds the dimensions of the output indexes; the record of every tensor of the
right-hand side has `vals` pointing to a live float block whose first `Π dims(t)` cells are
initialised with `cellsOf t` (row-major). -/
structure Init (formats : Formats) (srcs : List (String × String × Nat)) (C : Ctx F)
    (tix : String → Nat) (σ : State F) : Prop where
  params : ∀ f ∈ formats, TensorVar σ f.1 (tix f.1)
  fresh : ∀ x, x ∉ formats.map (·.1) → lookupVar σ.vars x = none
  recs : ∀ f ∈ formats, ∃ tr, σ.tensors[tix f.1]? = some tr ∧ isPtrVal tr.vals = true
  dims : ∀ p ∈ srcs, ∃ tr blk, σ.tensors[tix p.2.1]? = some tr ∧
    σ.heap[tr.dimsBlk]? = some blk ∧ blk.live = true ∧ blk.ty = .int ∧
    blk.cells[p.2.2]? = some (some (.int (C.dimOf p.1)))
  out : ∃ tr blk, σ.tensors[tix C.outT.name]? = some tr ∧ tr.owner = .output ∧
    σ.heap[tr.dimsBlk]? = some blk ∧ blk.live = true ∧ blk.ty = .int ∧
    ∀ k, k < C.outT.indexes.length →
      blk.cells[k]? = some (some (.int ((C.outT.indexes.map C.dimOf).getD k 0)))
  ins : ∀ t ∈ leaves C.e, ∃ tr blk, σ.tensors[tix t.name]? = some tr ∧
    tr.vals = .ptr (C.blkOf t.name) 0 ∧
    σ.heap[C.blkOf t.name]? = some blk ∧ blk.live = true ∧ blk.ty = .float ∧
    ∀ c, c < prod (t.indexes.map C.dimOf) → blk.cells[c]? = some (some (.flt (C.cellsOf t.name c)))

/-- **Final state of a kernel call** `σ → σ'` with output record `k`: the record's `vals` points to
the fresh block `σ.heap.length`, a live output-owned float block with exactly `N` cells, the cell
of every output multi-index `J` holding `cellF … J`; every old block and every other record is
unchanged. -/
structure KernelPost (ofRat : Rat → F) (C : Ctx F) (k : Nat) (σ σ' : State F) : Prop where
  outRec : ∃ tr, σ.tensors[k]? = some tr ∧ σ'.tensors[k]? = some { tr with vals := .ptr σ.heap.length 0 }
  otherRecs : ∀ k', k' ≠ k → σ'.tensors[k']? = σ.tensors[k']?
  blk : ∃ blk, σ'.heap[σ.heap.length]? = some blk ∧ blk.live = true ∧ blk.owner = .output ∧
    blk.ty = .float ∧ blk.cells.length = C.N ∧
    ∀ J, Below J (outDims C.dimOf C.full) →
      blk.cells[lin 0 (outDims C.dimOf C.full) J]? =
        some (some (.flt (cellF ofRat C.dimOf C.cellsOf C.e C.full J)))
  heap : ∀ b, b < σ.heap.length → σ'.heap[b]? = σ.heap[b]?
  heapLen : σ'.heap.length = σ.heap.length + 1

theorem outDims_full {C : Ctx F} (S : Static C) : outDims C.dimOf C.full = C.outT.indexes.map C.dimOf := by
  rw [outDims_eq, S.outI]

theorem kernel_runs (ofRat : Rat → F) (formats : Formats) (srcs : List (String × String × Nat))
    (C : Ctx F) (ok : KernelOK formats srcs C) {tix : String → Nat} {σ : State F}
    (hob : C.ob = σ.heap.length)
    (hok : ∀ J, Below J (outDims C.dimOf C.full) → cellOK ofRat C.dimOf C.cellsOf C.e C.full J)
    (hinit : Init formats srcs C tix σ) (fuel : Nat) (hfuel : fuelNeed C.dimOf false C.full ≤ fuel) :
    ∃ o, exec fuel (kernel ofRat formats srcs C.full C.outT C.e).body σ = .ok o ∧
      o.ret = some (.int 0) ∧ o.iters = iters C.dimOf false C.full ∧
      KernelPost ofRat C (tix C.outT.name) σ o.st := by
  have S := ok.static
  obtain ⟨hparams, hfresh, hrecs, hdims, ⟨otr, dblk, hotr, hown, hdb, hdlive, hdty, hdc⟩, hins⟩ := hinit
  have hgen : ∀ x, '_' ∈ x.toList → x ∉ formats.map (·.1) := by
    intro x hx hm
    obtain ⟨f, hf, rfl⟩ := List.mem_map.1 hm
    exact ok.tensors f hf hx
  have hNne : ∀ f ∈ formats, ∀ x, '_' ∈ x.toList → f.1 ≠ x :=
    fun f hf x hx => ne_of_underscore (ok.tensors f hf) hx
  obtain ⟨fo, hfo, hfoe⟩ := List.mem_map.1 ok.out
  have hfoe : fo.1 = C.outT.name := hfoe
  have houtus : '_' ∉ C.outT.name.toList := by rw [← hfoe]; exact ok.tensors fo hfo
  have hTout : TensorVar σ C.outT.name (tix C.outT.name) := by rw [← hfoe]; exact hparams fo hfo
  have hfitO : Fits 1 (C.outT.indexes.map C.dimOf) := S.fits C.outT (by simp [Ctx.ts])
  have hN : C.N = prod (C.outT.indexes.map C.dimOf) := by unfold Ctx.N; rw [outDims_full S]
  have hP31 : C.N < 2147483648 := by rw [hN]; simpa using fits_prod_lt hfitO
  -- A: the dimension variables
  obtain ⟨σA, rA, hhA, htA, hoA, hdimA⟩ := dimDecls_runs fuel tix C.dimOf srcs σ
    (by
      intro p hp
      obtain ⟨h1, h2, h3⟩ := ok.srcIdx p hp
      obtain ⟨f, hf, hfe⟩ := List.mem_map.1 h2
      have hfe : f.1 = p.2.1 := hfe
      obtain ⟨tr, blk, e1, e2, e3, e4, e5⟩ := hdims p hp
      exact ⟨hfe ▸ hparams f hf, tr, blk, e1, e2, e3, e4, e5, h3, S.d31 _ h1⟩)
    ok.srcNodup (fun p _ => hfresh _ (hgen _ (Dense1.mem_us_dimName _)))
    (by
      intro p hp q _
      obtain ⟨_, h2, _⟩ := ok.srcIdx p hp
      obtain ⟨f, hf, hfe⟩ := List.mem_map.1 h2
      have hfe : f.1 = p.2.1 := hfe
      rw [← hfe]
      exact hNne f hf _ (Dense1.mem_us_dimName _))
  have hA_of : ∀ y, (∀ i, y ≠ dimName i) → lookupVar σA.vars y = lookupVar σ.vars y :=
    fun y hy => hoA y (fun p _ => hy _)
  -- B: unpack
  obtain ⟨σB, rB, hhB, htB, hoB, hpB⟩ := Dense1.unpack_runs fuel tix formats σA
    (fun f hf => ⟨(hparams f hf).congr (hA_of _ (fun i => hNne f hf _ (Dense1.mem_us_dimName i))),
      by rw [htA]; exact hrecs f hf⟩)
    (fun f hf r hr => by
      rw [hA_of _ (fun i => (Dense1.dimName_ne_valsName i f.1).symm),
        hfresh _ (hgen _ (Dense1.mem_us_valsName f.1))] at hr; cases hr)
    (fun f hf g _ => hNne f hf _ (Dense1.mem_us_valsName g.1))
  have hB_of : ∀ y, (∀ s, y ≠ valsName s) → lookupVar σB.vars y = lookupVar σA.vars y := by
    intro y hy
    apply hoB
    intro hm
    obtain ⟨f, _, hf⟩ := List.mem_map.1 hm
    exact hy f.1 hf.symm
  -- C1: int out_vals_capacity = 1 * out->dimensions[0] * …
  have hToutB : TensorVar σB C.outT.name (tix C.outT.name) := by
    refine hTout.congr ?_
    rw [hB_of _ (fun s => by rw [← hfoe]; exact hNne fo hfo _ (Dense1.mem_us_valsName s)),
      hA_of _ (fun i => by rw [← hfoe]; exact hNne fo hfo _ (Dense1.mem_us_dimName i))]
  have hlenD : (C.outT.indexes.map C.dimOf).length = C.outT.indexes.length := by simp
  have hdk : ∀ k, k < C.outT.indexes.length → (C.outT.indexes.map C.dimOf).getD k 0 < 2147483648 := by
    intro k hk
    have : (C.outT.indexes.map C.dimOf).getD k 0 = C.dimOf (C.outT.indexes[k]) := by
      simp [List.getD_eq_getElem?_getD, hk]
    rw [this]
    exact S.d31 _ ((S.sub (by simp [Ctx.ts])).subset (List.getElem_mem hk))
  have eC : evalE σB (DenseN.capExpr C.outT.indexes.length C.outT.name : Expr F) =
      .ok (.int (C.N : Int)) := by
    rw [hN, ← hlenD]
    exact DenseN.evalE_capExpr (C.outT.indexes.map C.dimOf) hToutB (by rw [htB, htA]; exact hotr)
      (by rw [hhB, hhA]; exact hdb) hdlive hdty (by rw [hlenD]; exact hdc) (by rw [hlenD]; exact hdk)
      (by rw [hlenD]; exact ok.order31) hfitO
  obtain ⟨σC1, rC1, hhC1, htC1, hcapC1, hoC1⟩ := Dense1.runsI_declAssign (fuel := fuel)
    (x := valsCapName C.outT.name) (t := .int) (val' := .int (C.N : Int))
    (by
      rw [hB_of _ (fun s => (Dense1.valsName_ne_valsCapName' s C.outT.name).symm),
        hA_of _ (fun i => (Dense1.dimName_ne_valsCapName i C.outT.name).symm),
        hfresh _ (hgen _ (Dense1.mem_us_valsCapName _))]
      intro r h; cases h) eC rfl
  have hcapC1 : IntVar σC1 (valsCapName C.outT.name) (C.N : Int) := hcapC1
  -- C2: out_vals = malloc(out_vals_capacity)
  obtain ⟨ro, tro, hro1, hro2, _, _⟩ := hpB fo hfo
  rw [hfoe] at hro1
  obtain ⟨σC, rC2, htC, hhC, houtC, hoC⟩ := Dense1.runsI_alloc (fuel := fuel) (ty := .float) (ety := .float)
    (ha := (hoC1 _ (Dense1.valsName_ne_valsCapName' C.outT.name C.outT.name)).trans hro1) hro2 hcapC1
    (by omega) (by omega) rfl
  have hlenC1 : σC1.heap.length = σ.heap.length := by rw [hhC1, hhB, hhA]
  rw [hlenC1] at houtC
  have hheapC : σC.heap = σ.heap ++ [⟨.float, List.replicate C.N none, .output, true⟩] := by
    rw [hhC, hhC1, hhB, hhA]
    simp
  have hC_of : ∀ y, (∀ i, y ≠ dimName i) → (∀ s, y ≠ valsName s) → y ≠ valsCapName C.outT.name →
      lookupVar σC.vars y = lookupVar σ.vars y := by
    intro y h1 h2 h3
    rw [hoC y (h2 _), hoC1 y h3, hB_of y h2, hA_of y h1]
  -- the environment of the nest
  have hfull0 : C.full = [] ++ C.full := rfl
  have henv : Env C σC := by
    refine ⟨?_, by rw [hob]; exact houtC, ?_, ?_, ?_⟩
    · intro x hx
      obtain ⟨p, hp, rfl⟩ := List.mem_map.1 (ok.srcAll x hx)
      refine (hdimA p hp).congr ?_
      rw [hoC _ (Dense1.dimName_ne_valsName _ _), hoC1 _ (Dense1.dimName_ne_valsCapName _ _),
        hB_of _ (fun s => Dense1.dimName_ne_valsName _ s)]
    · rw [hob]
      exact ⟨⟨.float, List.replicate C.N none, .output, true⟩,
        by rw [hheapC]; simp, rfl, rfl, rfl, by simp⟩
    · intro t ht
      obtain ⟨tr, blk, htr, hv, hb, rest⟩ := hins t ht
      obtain ⟨f, hf, hfe⟩ := List.mem_map.1 (ok.ins t ht).1
      have hfe : f.1 = t.name := hfe
      obtain ⟨r, tr', hr1, hr2, hr3, hr4⟩ := hpB f hf
      rw [hfe] at hr1 hr3
      rw [htA, htr] at hr3; cases hr3
      have hlt : C.blkOf t.name < σ.heap.length := lt_length_of_getElem? hb
      refine ⟨⟨r, .float, ?_, hr2, by rw [hr4, hv]⟩, by omega, blk, ?_, rest⟩
      · rw [hoC _ (fun h => (ok.ins t ht).2 (Dense1.valsName_inj h)),
          hoC1 _ (Dense1.valsName_ne_valsCapName' _ _)]
        exact hr1
      · rw [hheapC, List.getElem?_append_left hlt]; exact hb
    · intro y hy r hr
      exfalso
      have hnd : ∀ i, y ≠ dimName i := by
        intro i e
        by_cases hi : i ∈ idxs C.full
        · exact notWr_dim S hfull0 hi (e ▸ hy)
        · rw [e, hoC _ (Dense1.dimName_ne_valsName _ _), hoC1 _ (Dense1.dimName_ne_valsCapName _ _),
            hB_of _ (fun s => Dense1.dimName_ne_valsName _ s),
            hoA _ (fun p hp e' => hi (by rw [DenseN.dimName_inj e']; exact (ok.srcIdx p hp).1)),
            hfresh _ (hgen _ (Dense1.mem_us_dimName _))] at hr
          cases hr
      have hnv : ∀ s, y ≠ valsName s := by
        intro s e
        by_cases hs : '_' ∈ s.toList
        · have hsn : s ∉ formats.map (·.1) := hgen s hs
          rw [e, hoC _ (fun h => by
              have := Dense1.valsName_inj h
              rw [this] at hsn; exact hsn ok.out),
            hoC1 _ (Dense1.valsName_ne_valsCapName' _ _),
            hoB _ (fun hm => by
              obtain ⟨f, hf, hfe⟩ := List.mem_map.1 hm
              have : f.1 = s := Dense1.valsName_inj hfe
              exact hsn (List.mem_map.2 ⟨f, hf, this⟩)),
            hA_of _ (fun i => (Dense1.dimName_ne_valsName i s).symm),
            hfresh _ (hgen _ (Dense1.mem_us_valsName _))] at hr
          cases hr
        · exact notWr_read S hfull0 (readName_vals hs) (e ▸ hy)
      have hnc : y ≠ valsCapName C.outT.name := by
        rcases hy with h | ⟨t, _, k, a, _, _, rfl⟩ | ⟨_, rfl | rfl⟩
        · exact ne_of_underscore (S.us y h) (Dense1.mem_us_valsCapName _)
        · intro e
          obtain ⟨ch, h1, h2⟩ := layerPointer_getLast? t.id k
          rw [e, Dense1.getLast?_valsCapName] at h1
          cases h1; revert h2; decide
        · exact bucketName_ne_valsCapName _ _ houtus ok.outId
        · exact bucketLoopName_ne_valsCapName _ _ houtus
      have hyN : y ∉ formats.map (·.1) := by
        rcases hy with h | ⟨t, _, k, a, _, _, rfl⟩ | ⟨_, rfl | rfl⟩
        · exact ok.idxTensor y h
        · exact hgen _ (Dense2.mem_us_lp t.id k)
        · exact hgen _ (mem_us_bucketName _ _)
        · exact hgen _ (mem_us_bucketLoopName _ _)
      rw [hC_of y hnd hnv hnc, hfresh y hyN] at hr
      cases hr
  -- D: the loop nest
  obtain ⟨σD, rD, hfrD, hcD⟩ := nest_top ofRat S henv hok fuel hfuel
  -- E: out->vals = out_vals
  have hnsO : ¬ Wr C false C.full C.outT.name := by
    rintro (h | ⟨t, _, k, a, _, _, h⟩ | ⟨_, h | h⟩)
    · exact ok.idxTensor _ h ok.out
    · exact houtus (h ▸ Dense2.mem_us_lp t.id k)
    · exact houtus (h ▸ mem_us_bucketName _ _)
    · exact houtus (h ▸ mem_us_bucketLoopName _ _)
  have hToutD : TensorVar σD C.outT.name (tix C.outT.name) := by
    refine hTout.congr ?_
    rw [hfrD.vars _ hnsO,
      hC_of _ (fun i => by rw [← hfoe]; exact hNne fo hfo _ (Dense1.mem_us_dimName i))
        (fun s => by rw [← hfoe]; exact hNne fo hfo _ (Dense1.mem_us_valsName s))
        (by rw [← hfoe]; exact hNne fo hfo _ (Dense1.mem_us_valsCapName _))]
  have houtD : PtrVar σD (valsName C.outT.name) σ.heap.length :=
    houtC.congr (hfrD.vars _ (notWr_vals S hfull0 (by simp [Ctx.ts])))
  have htD : σD.tensors = σ.tensors := by rw [hfrD.tensors, htC, htC1, htB, htA]
  have rE := Dense1.runsI_storeVals (fuel := fuel) hToutD houtD (by rw [htD]; exact hotr) hown
  -- the whole body
  have rAll := Dense1.RunsLI.cons (Dense1.RunsI.block (c := some "Extract dimensions") rA)
    (Dense1.RunsLI.cons (Dense1.RunsI.block (c := some "Unpack tensors") rB)
      (Dense1.RunsLI.cons (Dense1.RunsI.block (c := some "Output initialization")
          (Dense1.RunsLI.cons rC1 (Dense1.RunsLI.cons rC2 (Dense1.RunsLI.nil _ _))))
        (Dense1.RunsLI.cons rD
          (Dense1.RunsLI.cons (Dense1.RunsI.block (c := some ("Assembling output tensor " ++ C.outT.name))
              (Dense1.RunsLI.cons rE (Dense1.RunsLI.nil _ _))) (Dense1.RunsLI.nil _ _)))))
  obtain ⟨o, eo, hret, hst, hit⟩ := Dense1.execL_ret (e := .intLit 0) (v := .int 0) rAll
    (evalE_intLit (by omega) (by omega))
  refine ⟨o, ?_, hret, by rw [hit]; omega, ?_⟩
  · show exec fuel (.block (kernelStmts ofRat formats srcs C.full C.outT C.e ++ [.ret (.intLit 0)]) none) σ = _
    rw [exec.eq_5]
    exact eo
  · rw [hst]
    have hklt : tix C.outT.name < σ.tensors.length := lt_length_of_getElem? hotr
    obtain ⟨blk, blk', hb, hb', hlive, hown', hty, hlen, _⟩ := hfrD.outBlk
    rw [hob, hheapC] at hb
    simp at hb
    subst hb
    rw [hob] at hb'
    refine ⟨⟨otr, hotr, ?_⟩, ?_, ⟨blk', hb', hlive, hown', hty, by simpa using hlen, ?_⟩, ?_, ?_⟩
    · show (σD.tensors.set _ _)[_]? = _
      rw [htD, List.getElem?_set_self hklt]
    · intro k' hk'
      show (σD.tensors.set _ _)[_]? = _
      rw [htD, List.getElem?_set_ne (Ne.symm hk')]
    · intro J hJ
      obtain ⟨blk2, h1, h2⟩ := hcD J hJ
      rw [hob] at h1
      have : blk2 = blk' := by
        have := h1.symm.trans hb'
        cases this; rfl
      rw [← this]; exact h2
    · intro b hb
      show σD.heap[b]? = _
      rw [hfrD.heap b (by omega), hheapC, List.getElem?_append_left hb]
    · show σD.heap.length = _
      rw [hfrD.heapLen, hheapC]; simp

end TV.DenseTerm
