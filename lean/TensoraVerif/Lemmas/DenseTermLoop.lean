import TensoraVerif.Lemmas.DenseTermSpec
import TensoraVerif.Lemmas.DenseNLoop

/-!
C01 for all dense single-term contractions, part 5: the building blocks of the Hoare theorem —
a generic counting loop with an arbitrary bound expression (`countLoopE_runs`), the cursor
declarations of one level (`leafDecls_runs`) and their effect on the invariant (`St.step`), and the
body of the loop of one level around an arbitrary inner statement (`body_runs`).
-/
namespace TV.DenseTerm
open TV.IR TV.Gen TV.Graph TV.Growth
open TV.ToIr (PtrAt)
open TV.Dense1 (leaves valueF allFinite RunsI RunsLI)
open TV.DenseN (prod lin Fits Below ptrDecl)
set_option linter.unusedSectionVars false
set_option linter.unusedSimpArgs false
set_option linter.unusedVariables false
variable {F : Type} [FloatOps F]

/-! ### a counting loop `while (i < bound) { body }` -/

theorem countLoopE_runs {i : String} {bound : Expr F} {d : Nat} (hd : (d : Int) < 2147483648)
    (body : List (Stmt F)) (Inv : Nat → State F → Prop) (fb kb : Nat)
    (hvars : ∀ j σ, Inv j σ → IntVar σ i j ∧ evalE σ bound = .ok (.int d))
    (hbody : ∀ j σ fuel, j < d → Inv j σ → fb ≤ fuel →
      ∃ σ', RunsLI fuel body σ σ' kb ∧ Inv (j + 1) σ') :
    ∀ (m j : Nat) (σ : State F) (fuel : Nat), j + m = d → Inv j σ → m + 1 + fb ≤ fuel →
      ∃ σ', RunsI fuel (.loop (.bin .lt (.var i) bound) (.block body none)) σ σ'
          (m * (kb + 1)) ∧ Inv d σ' := by
  intro m
  induction m with
  | zero =>
    intro j σ fuel hjm hinv hfuel
    obtain ⟨fuel', rfl⟩ := Nat.exists_eq_add_of_le hfuel
    have hjn : j = d := by omega
    subst hjn
    obtain ⟨hi, hdim⟩ := hvars j σ hinv
    have ec := Dense1.evalE_lt (evalE_var_int hi (by omega) hd) hdim
    have hdd : decide ((j : Int) < (j : Int)) = false := by simp
    rw [hdd] at ec
    refine ⟨σ, ?_, hinv⟩
    rw [show 0 + 1 + fb + fuel' = (fb + fuel') + 1 by omega, Nat.zero_mul]
    exact Dense1.RunsI.loop_false ec
  | succ m ih =>
    intro j σ fuel hjm hinv hfuel
    obtain ⟨fuel', rfl⟩ := Nat.exists_eq_add_of_le hfuel
    have hjn : j < d := by omega
    obtain ⟨hi, hdim⟩ := hvars j σ hinv
    have ec := Dense1.evalE_lt (evalE_var_int hi (by omega) (by omega)) hdim
    have hdd : decide ((j : Int) < (d : Int)) = true := by simp; omega
    rw [hdd] at ec
    obtain ⟨σ1, r1, hinv1⟩ := hbody j σ (m + 1 + fb + fuel') hjn hinv (by omega)
    obtain ⟨σ', r2, hp⟩ := ih (j + 1) σ1 (m + 1 + fb + fuel') (by omega) hinv1 (by omega)
    refine ⟨σ', ?_, hp⟩
    have := Dense1.RunsI.loop_true ec (Dense1.RunsI.block r1) r2
    rw [show m + 1 + 1 + fb + fuel' = m + 1 + fb + fuel' + 1 by omega,
      show (m + 1) * (kb + 1) = kb + m * (kb + 1) + 1 by rw [Nat.add_mul]; omega]
    exact this

/-! ### positions of an index in a tensor of the class -/

section pos
variable {C : Ctx F} (S : Static C) {pre rest : List Level} {x : String} {o : Bool}
  (hfull : C.full = pre ++ (x, o) :: rest)
include S hfull

theorem x_mem_full : x ∈ idxs C.full := by rw [hfull]; simp [idxs]

theorem x_not_pre : x ∉ idxs pre := fun h =>
  pre_rest_disj S hfull h (by simp [idxs])

theorem nodup_split : (idxs pre ++ x :: idxs rest).Nodup := by
  have := S.nodup
  rwa [hfull, idxs_append] at this

/-- position `k` of `x` in `t`: the layers above are bound by `pre`, those below by `rest` -/
theorem pos_split {t : TensorId} (ht : t ∈ C.ts) {k : Nat} (hk : t.indexes.findIdx? (· == x) = some k) :
    t.indexes = t.indexes.take k ++ x :: t.indexes.drop (k + 1) ∧
    (∀ a ∈ t.indexes.take k, a ∈ idxs pre) ∧ (∀ a ∈ t.indexes.drop (k + 1), a ∈ idxs rest) ∧
    k < t.indexes.length ∧ t.indexes[k]? = some x ∧ x ∉ t.indexes.take k := by
  have hsub := S.sub ht
  rw [hfull, idxs_append] at hsub
  obtain ⟨h1, h2, h3, h4⟩ := split_of_sublist hsub (nodup_split S hfull) hk
  have hk' : k < t.indexes.length := by
    have := congrArg List.length h1
    simp only [List.length_append, List.length_cons, h4] at this
    omega
  refine ⟨h1, fun a ha => h2.subset ha, fun a ha => h3.subset ha, hk', ?_, ?_⟩
  · conv => lhs; rw [h1]
    rw [List.getElem?_append_right (by rw [h4]; exact Nat.le_refl _), h4]
    simp
  · intro hx
    exact x_not_pre S hfull (h2.subset hx)

theorem findIdx_of_getElem {t : TensorId} (ht : t ∈ C.ts) {k : Nat} (hk : t.indexes[k]? = some x) :
    t.indexes.findIdx? (· == x) = some k := by
  obtain ⟨hlt, he⟩ := List.getElem?_eq_some_iff.1 hk
  rw [List.findIdx?_eq_some_iff_getElem]
  refine ⟨hlt, by simp [he], ?_⟩
  intro j hj hp
  simp only [beq_iff_eq] at hp
  have := (List.getElem_inj (S.tnodup ht)).1 (hp.trans he.symm)
  omega

/-- a cursor whose layers are bound by `pre ++ [x]` and whose own layer is not `x`: all its layers
are bound by `pre` -/
theorem prefix_pre {t : TensorId} (ht : t ∈ C.ts) {k : Nat} (hk : k < t.indexes.length)
    (hp : ∀ a ∈ t.indexes.take (k + 1), a ∈ idxs (pre ++ [(x, o)])) (hne : t.indexes[k]? ≠ some x) :
    (∀ a ∈ t.indexes.take (k + 1), a ∈ idxs pre) ∧ x ∉ t.indexes.take (k + 1) := by
  have hx : x ∉ t.indexes.take (k + 1) := by
    intro hx
    obtain ⟨i, hi, hie⟩ := List.mem_take_iff_getElem.1 hx
    have hi' : i < t.indexes.length := by omega
    have hik : i ≠ k := by
      intro e; subst e
      exact hne (by rw [List.getElem?_eq_getElem hi', hie])
    have hf := findIdx_of_getElem S hfull ht (k := i) (by rw [List.getElem?_eq_getElem hi', hie])
    obtain ⟨_, _, h3, _, _, _⟩ := pos_split S hfull ht hf
    have hmem : t.indexes[k] ∈ t.indexes.drop (i + 1) := by
      rw [List.mem_drop_iff_getElem]
      refine ⟨k - (i + 1), by omega, ?_⟩
      have : i + 1 + (k - (i + 1)) = k := by omega
      simp [this]
    have hr := h3 _ hmem
    have hpk := hp (t.indexes[k]) (by
      rw [List.mem_take_iff_getElem]; exact ⟨k, by omega, rfl⟩)
    rw [idxs_append] at hpk
    rcases List.mem_append.1 hpk with hpk | hpk
    · exact pre_rest_disj S hfull hpk (List.mem_cons_of_mem x hr)
    · simp [idxs] at hpk
      exact hne (by rw [List.getElem?_eq_getElem hk, hpk])
  refine ⟨?_, hx⟩
  intro a ha
  have := hp a ha
  rw [idxs_append] at this
  rcases List.mem_append.1 this with h | h
  · exact h
  · simp [idxs] at h
    subst h
    exact absurd ha hx

end pos

/-! ### the cursor declarations of one level -/

theorem leafDecls_cons_none {x : String} {t : TensorId} {ls : List TensorId}
    (h : t.indexes.findIdx? (· == x) = none) : (leafDecls x (t :: ls) : List (Stmt F)) = leafDecls x ls := by
  simp [leafDecls, List.filterMap_cons, h]

theorem leafDecls_cons_some {x : String} {t : TensorId} {ls : List TensorId} {k : Nat}
    (h : t.indexes.findIdx? (· == x) = some k) :
    (leafDecls x (t :: ls) : List (Stmt F)) = ptrDecl x k t :: leafDecls x ls := by
  simp [leafDecls, List.filterMap_cons, h]

theorem tyOK_of_decl {C : Ctx F} {σ σ1 : State F} {x : String} {v : Option (Val F)}
    (h3 : ∃ r, lookupVar σ1.vars x = some r ∧ r.ty = C.reqTy x ∧ r.val = v)
    (h4 : ∀ y, y ≠ x → lookupVar σ1.vars y = lookupVar σ.vars y) : ∀ y, TyOK C σ y → TyOK C σ1 y := by
  intro y hy r hr
  by_cases hyx : y = x
  · subst hyx
    obtain ⟨r', h1, h2, _⟩ := h3
    rw [h1] at hr; cases hr; exact h2
  · rw [h4 y hyx] at hr; exact hy r hr

theorem reqTy_lp (C : Ctx F) (ref : String) (k : Nat) : C.reqTy (layerPointer ref k) = .int := by
  simp [Ctx.reqTy, lp_ne_bn C ref k]

theorem reqTy_idx {C : Ctx F} (S : Static C) {x : String} (hx : x ∈ idxs C.full) : C.reqTy x = .int := by
  have : x ≠ C.bn := ne_of_underscore (S.us x hx) (mem_us_bucketName _ _)
  simp [Ctx.reqTy, this]

/-- `int p_<t>_<k> = <prev> * x_dim + x;` for the tensors `ls` that have `x`: every such cursor holds
the linearisation of the layers `0..k` under the valuation extended by `x ↦ j` -/
theorem leafDecls_runs {C : Ctx F} (S : Static C) {pre rest : List Level} {x : String} {o : Bool}
    (hfull : C.full = pre ++ (x, o) :: rest) (fuel : Nat) {val : String → Nat} {b : Bool} {j : Nat}
    (hj : j < C.dimOf x) (ls : List TensorId) :
    (∀ t ∈ ls, t ∈ C.ptrTs b) → ∀ (σ : State F), St C pre val b σ → IntVar σ x j →
      ∃ σ', RunsLI fuel (leafDecls x ls) σ σ' 0 ∧ σ'.heap = σ.heap ∧ σ'.tensors = σ.tensors ∧
        (∀ y, (∀ t ∈ ls, ∀ k, t.indexes[k]? = some x → y ≠ layerPointer t.id k) →
          lookupVar σ'.vars y = lookupVar σ.vars y) ∧
        (∀ y, TyOK C σ y → TyOK C σ' y) ∧
        ∀ t ∈ ls, ∀ k, t.indexes[k]? = some x →
          IntVar σ' (layerPointer t.id k) (linIdx C.dimOf (upd val x j) (t.indexes.take (k + 1))) := by
  induction ls with
  | nil =>
    intro _ σ _ _
    exact ⟨σ, Dense1.RunsLI.nil _ _, rfl, rfl, fun _ _ => rfl, fun _ h => h, fun t ht => by cases ht⟩
  | cons t ls ih =>
    intro hsub σ hst hx
    have ht : t ∈ C.ptrTs b := hsub t (by simp)
    have hts : t ∈ C.ts := C.ptrTs_sub b t ht
    cases hf : t.indexes.findIdx? (· == x) with
    | none =>
      rw [leafDecls_cons_none hf]
      obtain ⟨σ', r, hh, htn, ho, hty, hp⟩ := ih (fun t' ht' => hsub t' (by simp [ht'])) σ hst hx
      have hnone : ∀ k : Nat, t.indexes[k]? ≠ some x := by
        intro k hk
        rw [findIdx_of_getElem S hfull hts hk] at hf; cases hf
      refine ⟨σ', r, hh, htn, ?_, hty, ?_⟩
      · intro y hy
        exact ho y (fun t' ht' k hk => hy t' (by simp [ht']) k hk)
      · intro t' ht' k hk
        rcases List.mem_cons.1 ht' with rfl | ht'
        · exact absurd hk (hnone k)
        · exact hp t' ht' k hk
    | some k =>
      rw [leafDecls_cons_some hf]
      obtain ⟨hsplit, hA, hB, hklt, hkx, hxA⟩ := pos_split S hfull hts hf
      obtain ⟨eprev, hq, hP31⟩ := hst.evalPrev S ht (Nat.le_of_lt hklt) hA
      have hd31 := S.d31 x (x_mem_full S hfull)
      have hdim := hst.env.dimVars x (x_mem_full S hfull)
      -- the new value
      have htake : t.indexes.take (k + 1) = t.indexes.take k ++ [x] := by
        rw [List.take_add_one, hkx]; rfl
      have hval : linIdx C.dimOf (upd val x j) (t.indexes.take (k + 1)) =
          linIdx C.dimOf val (t.indexes.take k) * C.dimOf x + j := by
        rw [htake, linIdx_snoc, linIdx_upd j hxA, upd_same]
      have hP' : prod ((t.indexes.take (k + 1)).map C.dimOf) =
          prod ((t.indexes.take k).map C.dimOf) * C.dimOf x := by
        rw [htake, List.map_append, prod_append]; simp [prod]
      have hP'31 := S.take_lt hts (k + 1)
      rw [hP'] at hP'31
      have hplt := DenseN.ptr_lt _ _ (C.dimOf x) j hq hj
      have ei := evalE_var_int hx (by omega) (by omega)
      have ed := evalE_var_int hdim (by omega) (by omega)
      have hq0 : (0 : Int) ≤ (linIdx C.dimOf val (t.indexes.take k) : Int) * (C.dimOf x : Int) :=
        Int.mul_nonneg (by omega) (by omega)
      have hcast : ((linIdx C.dimOf val (t.indexes.take k) * C.dimOf x + j : Nat) : Int) =
          (linIdx C.dimOf val (t.indexes.take k) : Int) * (C.dimOf x : Int) + (j : Int) := by
        simp
      have hm31 : (linIdx C.dimOf val (t.indexes.take k) : Int) * (C.dimOf x : Int) < 2147483648 := by
        have : ((linIdx C.dimOf val (t.indexes.take k) * C.dimOf x : Nat) : Int) < 2147483648 := by omega
        simpa using this
      have e0 : evalE σ (plus (times (prevLayerPointer t.id k) (.var (dimName x))) (.var x)) =
          .ok (.int ((linIdx C.dimOf val (t.indexes.take k) : Int) * (C.dimOf x : Int) + (j : Int))) :=
        evalE_add (evalE_mul eprev ed (by omega) hm31) ei (by omega) (by omega)
      have hWp : Wr C false C.full (layerPointer t.id k) :=
        Or.inr (Or.inl ⟨t, hts, k, x, hkx, x_mem_full S hfull, rfl⟩)
      obtain ⟨σ1, r1, hh1, ht1, ⟨r, hr1, hr2, hr3⟩, ho1⟩ :=
        Dense1.runsI_declAssign (fuel := fuel) (t := .int)
          (val' := .int ((linIdx C.dimOf val (t.indexes.take k) : Int) * (C.dimOf x : Int) + (j : Int)))
          (fun r hr => (hst.env.typed _ hWp r hr).trans (reqTy_lp C _ _)) e0 rfl
      have hpt : IntVar σ1 (layerPointer t.id k)
          (linIdx C.dimOf (upd val x j) (t.indexes.take (k + 1))) := by
        rw [hval, hcast]; exact ⟨r, hr1, hr2, hr3⟩
      have hity1 : ∀ y, TyOK C σ y → TyOK C σ1 y :=
        tyOK_of_decl (σ := σ) ⟨r, hr1, by rw [hr2, reqTy_lp], hr3⟩ ho1
      have hfr1 : Fr C (Wr C b ((x, o) :: rest)) 0 0 σ σ1 :=
        Fr.vars_only hh1 ht1 hst.env.ob
          (fun y hy => ho1 y (fun e => hy (e ▸ Wr.ptr hts hkx))) hity1
      have hst1 : St C pre val b σ1 := hst.frame S hfull hfr1 (fun h => h)
      have hx1 : IntVar σ1 x j := hx.congr (ho1 _ (fun e =>
        S.us x (x_mem_full S hfull) (e ▸ Dense2.mem_us_lp t.id k)))
      obtain ⟨σ2, r2, hh2, ht2, ho2, hity2, hp2⟩ := ih (fun t' ht' => hsub t' (by simp [ht'])) σ1 hst1 hx1
      refine ⟨σ2, ?_, hh2.trans hh1, ht2.trans ht1, ?_, fun y hy => hity2 y (hity1 y hy), ?_⟩
      · exact Dense1.RunsLI.cons r1 r2
      · intro y hy
        rw [ho2 y (fun t' ht' k' hk' => hy t' (by simp [ht']) k' hk'), ho1 y (hy t (by simp) k hkx)]
      · intro t' ht' k' hk'
        rcases List.mem_cons.1 ht' with rfl | ht'
        · have hkk : k' = k := by
            have := findIdx_of_getElem S hfull hts hk'
            rw [hf] at this; cases this; rfl
          subst hkk
          by_cases hm : ∃ t'' ∈ ls, ∃ k'', t''.indexes[k'']? = some x ∧
              layerPointer t'.id k' = layerPointer t''.id k''
          · obtain ⟨t'', ht'', k'', hk'', he⟩ := hm
            obtain ⟨e1, e2⟩ := Merge.layerPointer_inj he
            subst e2
            have hsame := S.same hts (C.ptrTs_sub b t'' (hsub t'' (by simp [ht'']))) e1
            have := hp2 t'' ht'' k' hk''
            rw [← he, ← hsame] at this
            exact this
          · refine hpt.congr (ho2 _ ?_)
            intro t'' ht'' k'' hk'' he
            exact hm ⟨t'', ht'', k'', hk'', he⟩
        · exact hp2 t' ht' k' hk'

/-- **the invariant below the level**: after the cursor declarations of level `x` (value `j`), the
invariant holds for the prefix `pre ++ [x]` and the valuation `upd val x j` -/
theorem St.step {C : Ctx F} (S : Static C) {pre rest : List Level} {x : String} {o : Bool}
    (hfull : C.full = pre ++ (x, o) :: rest) {val : String → Nat} {b : Bool} {j : Nat}
    (hj : j < C.dimOf x) {σ σ' : State F} (hst : St C pre val b σ) (hx : IntVar σ x j)
    (hh : σ'.heap = σ.heap) (htn : σ'.tensors = σ.tensors)
    (ho : ∀ y, (∀ t ∈ C.ptrTs b, ∀ k, t.indexes[k]? = some x → y ≠ layerPointer t.id k) →
      lookupVar σ'.vars y = lookupVar σ.vars y)
    (hty : ∀ y, TyOK C σ y → TyOK C σ' y)
    (hp : ∀ t ∈ C.ptrTs b, ∀ k, t.indexes[k]? = some x →
      IntVar σ' (layerPointer t.id k) (linIdx C.dimOf (upd val x j) (t.indexes.take (k + 1)))) :
    St C (pre ++ [(x, o)]) (upd val x j) b σ' ∧ ∀ lo, Fr C (Wr C b ((x, o) :: rest)) lo lo σ σ' := by
  have hfr : ∀ lo, Fr C (Wr C b ((x, o) :: rest)) lo lo σ σ' := fun lo =>
    Fr.vars_only hh htn hst.env.ob
      (fun y hy => ho y (fun t ht k hk e => hy (e ▸ Wr.ptr (C.ptrTs_sub b t ht) hk))) hty
  have hst' : St C pre val b σ' := hst.frame S hfull (hfr 0) (fun h => h)
  have hxp := x_not_pre S hfull
  have hx' : IntVar σ' x j := hx.congr (ho _ (fun t _ k _ e =>
    S.us x (x_mem_full S hfull) (e ▸ Dense2.mem_us_lp t.id k)))
  refine ⟨⟨hst'.env, ?_, ?_, ?_⟩, hfr⟩
  · intro y hy
    rw [idxs_append] at hy
    rcases List.mem_append.1 hy with hy | hy
    · have hne : y ≠ x := fun e => hxp (e ▸ hy)
      rw [upd_ne j hne]
      exact hst'.idx y hy
    · simp [idxs] at hy
      subst hy
      rw [upd_same]
      exact ⟨hx', hj⟩
  · intro t ht k hk hpre
    have hts := C.ptrTs_sub b t ht
    by_cases hkx : t.indexes[k]? = some x
    · exact hp t ht k hkx
    · obtain ⟨hpre', hxn⟩ := prefix_pre S hfull hts hk hpre hkx
      rw [linIdx_upd j hxn]
      exact hst'.ptrs t ht k hk hpre'
  · intro hb
    obtain ⟨h1, h2⟩ := hst'.bkt hb
    have hxn : x ∉ C.outT.indexes.take C.n0 := fun h => hxp (h2 x h)
    refine ⟨?_, fun a ha => by rw [idxs_append]; exact List.mem_append_left _ (h2 a ha)⟩
    unfold Ctx.qb
    rw [linIdx_upd j hxn]
    exact h1

theorem tyOK_setVar {C : Ctx F} {σ : State F} {x : String} {v : Val F} {r0 : VarRec F}
    (hx : lookupVar σ.vars x = some r0) (h0 : r0.ty = C.reqTy x) :
    ∀ y, TyOK C σ y → TyOK C ({ σ with vars := setVar σ.vars x v } : State F) y := by
  intro y hy r hr
  by_cases hyx : y = x
  · subst hyx
    change lookupVar (setVar σ.vars y v) y = some r at hr
    rw [lookupVar_setVar_same _ hx] at hr
    cases hr; exact h0
  · change lookupVar (setVar σ.vars x v) y = some r at hr
    rw [lookupVar_setVar_other _ hyx] at hr
    exact hy r hr

/-- `x = x + 1;` -/
theorem incr_runs {C : Ctx F} {x : String} (hxf : C.reqTy x = .int) (fuel : Nat)
    {σ : State F} {j : Nat} (hx : IntVar σ x j) (hj : (j : Int) + 1 < 2147483648)
    (hob : ∃ blk, σ.heap[C.ob]? = some blk) (W : String → Prop) (hW : W x) (lo : Nat) :
    ∃ σ', RunsI fuel (increment (.var x) (.intLit 1)) σ σ' 0 ∧ σ'.heap = σ.heap ∧
      Fr C W lo lo σ σ' ∧ IntVar σ' x ((j + 1 : Nat) : Int) := by
  have r4 : RunsI fuel (increment (.var x) (.intLit 1)) σ
      ({ σ with vars := setVar σ.vars x (.int ((j : Int) + 1)) } : State F) 0 :=
    Dense1.RunsI.of_assign (Runs.assign_int (fuel := fuel) (e := plus (.var x) (.intLit 1)) hx
      (evalE_add (evalE_var_int hx (by omega) (by omega)) (evalE_intLit (by omega) (by omega))
        (by omega) (by omega)))
  obtain ⟨ri, hri1, hri2, _⟩ := hx
  refine ⟨_, r4, rfl, ?_, ?_⟩
  · exact Fr.vars_only rfl rfl hob
      (fun y hy => lookupVar_setVar_other _ (fun e => hy (e ▸ hW)))
      (tyOK_setVar hri1 (by rw [hri2, hxf]))
  · refine ⟨_, lookupVar_setVar_same _ hri1, hri2, ?_⟩
    show some (Val.int ((j : Int) + 1)) = _
    simp

/-! ### the body of the loop of one level -/

/-- **one iteration of the loop of level `x`** (value `j`) around an inner statement: the cursor
declarations, `if (true) { inner }`, `x = x + 1`. The inner statement is specified by `hinner`: from
any state that satisfies the invariant below the level (and has the heap of the state before the
declarations), it runs in `kb` iterations, touches only `Wr C b' rest` and the cells `lo..hi`, and
establishes the heap predicate `Q`. -/
theorem body_runs {C : Ctx F} (S : Static C) {pre rest : List Level} {x : String} {o : Bool}
    (hfull : C.full = pre ++ (x, o) :: rest) (fuel : Nat) {val : String → Nat} {b' : Bool}
    {j : Nat} (hj : j < C.dimOf x) (inner : Stmt F) (kb lo hi : Nat)
    (hlh : lo ≤ hi) (Q : State F → Prop) (hQ : ∀ σ σ', σ'.heap = σ.heap → Q σ → Q σ')
    {σ : State F} (hst : St C pre val b' σ) (hx : IntVar σ x j)
    (hinner : ∀ σ2, σ2.heap = σ.heap → St C (pre ++ [(x, o)]) (upd val x j) b' σ2 →
      ∃ σ3, RunsI fuel inner σ2 σ3 kb ∧ Fr C (Wr C b' rest) lo hi σ2 σ3 ∧ Q σ3) :
    ∃ σ', RunsLI fuel (leafDecls x (C.ptrTs b') ++
        [.branch (.boolLit true) (.block [inner] none) (.block [] none),
         increment (.var x) (.intLit 1)]) σ σ' kb ∧
      St C pre val b' σ' ∧ IntVar σ' x ((j + 1 : Nat) : Int) ∧
      Fr C (Wr C b' ((x, o) :: rest)) lo hi σ σ' ∧ Q σ' := by
  have hxf := x_mem_full S hfull
  have hd31 := S.d31 x hxf
  obtain ⟨σ2, r2, hh2, ht2, ho2, hty2, hp2⟩ :=
    leafDecls_runs S hfull fuel hj (C.ptrTs b') (fun _ h => h) σ hst hx
  obtain ⟨hst2, hfr2⟩ := St.step S hfull hj hst hx hh2 ht2 ho2 hty2 hp2
  obtain ⟨σ3, r3, hfr3, hQ3⟩ := hinner σ2 hh2 hst2
  have hfull' : C.full = (pre ++ [(x, o)]) ++ rest := by rw [hfull]; simp
  have hst3 : St C (pre ++ [(x, o)]) (upd val x j) b' σ3 := hst2.frame S hfull' hfr3 (fun h => h)
  have hx3 : IntVar σ3 x j := by
    have := (hst3.idx x (by simp [idxs])).1
    rwa [upd_same] at this
  obtain ⟨σ4, r4, hh4, hfr4, hx4⟩ := incr_runs (reqTy_idx S hxf) fuel hx3 (by omega) hst3.env.ob
    (Wr C b' ((x, o) :: rest)) Wr.head hi
  have hfrA : Fr C (Wr C b' ((x, o) :: rest)) lo hi σ σ3 :=
    (hfr2 lo).trans hfr3 (fun _ h => h) (fun y h => Wr.cons (x, o) h (fun h => h))
      (Nat.le_refl _) hlh (Nat.le_refl _) (Nat.le_refl _)
  have hfrB : Fr C (Wr C b' ((x, o) :: rest)) lo hi σ σ4 :=
    hfrA.trans hfr4 (fun _ h => h) (fun _ h => h) (Nat.le_refl _) (Nat.le_refl _) hlh (Nat.le_refl _)
  refine ⟨σ4, ?_, hst.frame S hfull hfrB (fun h => h), hx4, hfrB, hQ σ3 σ4 hh4 hQ3⟩
  have hr := Dense1.RunsLI.append r2 (Dense1.RunsLI.cons
    (Dense1.RunsI.branch_true (f := .block [] none) (c := .boolLit true) (by simp [evalE])
      (Dense1.RunsI.block (c := none) (Dense1.RunsLI.cons r3 (Dense1.RunsLI.nil _ _))))
    (Dense1.RunsLI.cons r4 (Dense1.RunsLI.nil _ _)))
  simpa using hr

end TV.DenseTerm
