import TensoraVerif.Lemmas.DenseTermModel
import TensoraVerif.Lemmas.DenseNLower

/-!
C01 for all dense single-term contractions, part 2 (T1): what `lower` emits for a linear nest of the
class, by induction on the remaining levels, generalised over the prefix `pre` already lowered and
the output state (`OMode`).
-/
namespace TV.DenseTerm
open TV.IR TV.Gen TV.Graph
open TV.Dense1 (leaves)
open TV.DenseN (ptrDecl storeStmt getD_dense getElem?_getD_dense generateSubgraphs_eq lwAboveStep lwStep
  layersToWrite_def lwAbove_fold lwStep_tail)
set_option linter.unusedSimpArgs false
variable {F : Type}

theorem isLeaf_iff (xs : List String) (t : TensorId) :
    isLeaf xs t = true ↔ t.indexes.Sublist xs ∧ t.modes.all (· == Mode.dense) = true := by
  simp [isLeaf, List.isSublist_iff_sublist]

theorem isOut_iff (lv : List Level) (t : TensorId) :
    isOut lv t = true ↔ t.indexes = outIdxs lv ∧ t.modes.all (· == Mode.dense) = true ∧
      t.modes.length = t.indexes.length := by
  simp [isOut, and_assoc]

theorem isExpr_mem {xs : List String} {e : IdExpr} (h : isExpr xs e = true) :
    ∀ t ∈ leaves e, isLeaf xs t = true := fun t ht => List.all_eq_true.1 h t ht

theorem outIdxs_append (a b : List Level) : outIdxs (a ++ b) = outIdxs a ++ outIdxs b := by
  simp [outIdxs]

theorem idxs_append (a b : List Level) : idxs (a ++ b) = idxs a ++ idxs b := by
  simp [idxs]

theorem outIdxs_sublist (lv : List Level) : (outIdxs lv).Sublist (idxs lv) := by
  unfold outIdxs idxs
  exact List.Sublist.map _ List.filter_sublist

theorem outIdxs_of_all {lv : List Level} (h : ∀ p ∈ lv, p.2 = true) : outIdxs lv = idxs lv := by
  unfold outIdxs idxs
  rw [List.filter_eq_self.2 h]

/-- the output tensor is a leaf of the class -/
theorem isLeaf_of_isOut {lv : List Level} {t : TensorId} (h : isOut lv t = true) :
    isLeaf (idxs lv) t = true := by
  obtain ⟨h1, h2, _⟩ := (isOut_iff lv t).1 h
  exact (isLeaf_iff _ t).2 ⟨h1 ▸ outIdxs_sublist lv, h2⟩

/-! ### splitting a sub-sequence at the current index -/

/-- if `l` is a sub-sequence of `pre ++ x :: rest` (no duplicates) and `x` is at position `k` of `l`,
then the part before is in `pre`, the part after in `rest` -/
theorem split_of_sublist {l pre rest : List String} {x : String} {k : Nat}
    (h : l.Sublist (pre ++ x :: rest)) (hnd : (pre ++ x :: rest).Nodup)
    (hk : l.findIdx? (· == x) = some k) :
    l = l.take k ++ x :: l.drop (k + 1) ∧ (l.take k).Sublist pre ∧ (l.drop (k + 1)).Sublist rest ∧
      (l.take k).length = k := by
  have hnd' := List.nodup_append.1 hnd
  have hxpre : x ∉ pre := fun hx => hnd'.2.2 x hx x (by simp) rfl
  have hxrest : x ∉ rest := (List.nodup_cons.1 hnd'.2.1).1
  obtain ⟨l1, l2, rfl, h1, h2⟩ := List.sublist_append_iff.1 h
  have hx1 : x ∉ l1 := fun hx => hxpre (h1.subset hx)
  have hf1 : l1.findIdx? (· == x) = none := by
    rw [List.findIdx?_eq_none_iff]
    intro y hy
    exact beq_eq_false_iff_ne.2 (fun e => hx1 (e ▸ hy))
  rw [List.findIdx?_append, hf1, Option.none_or] at hk
  rcases List.sublist_cons_iff.1 h2 with h3 | ⟨r, rfl, h3⟩
  · exfalso
    have hf2 : l2.findIdx? (· == x) = none := by
      rw [List.findIdx?_eq_none_iff]
      intro y hy
      exact beq_eq_false_iff_ne.2 (fun e => hxrest (h3.subset (e ▸ hy)))
    rw [hf2] at hk; cases hk
  · simp only [List.findIdx?_cons, beq_self_eq_true, if_true, Option.map_some, Nat.zero_add,
      Option.some.injEq] at hk
    subst hk
    simp [h1, h3]

/-! ### the loop context on the class -/

/-- the dense leaves of the context of index `x`: one per tensor occurrence that has `x` -/
def ctxLeaves (x : String) (ts : List TensorId) : List Leaf :=
  ts.filterMap fun t => (t.indexes.findIdx? (· == x)).map fun k => (⟨t, k⟩ : Leaf)

theorem extractContext_eq (xs : List String) (e : IdExpr) (x : String) (h : isExpr xs e = true) :
    (extractContext e x).sparseLeaves = [] ∧
    (extractContext e x).denseLeaves = ctxLeaves x (leaves e) ∧
    (extractContext e x).isSparse = zeroish e := by
  induction e with
  | int v => simp [extractContext, leaves, ctxLeaves, zeroish]
  | flt v => simp [extractContext, leaves, ctxLeaves, zeroish]
  | tensor t =>
    simp only [isExpr, leaves, List.all_cons, List.all_nil, Bool.and_true, isLeaf_iff] at h
    cases hf : t.indexes.findIdx? (· == x) with
    | none => simp [extractContext, leaves, ctxLeaves, zeroish, hf]
    | some k => simp [extractContext, leaves, ctxLeaves, zeroish, hf, getElem?_getD_dense h.2]
  | add l r ihl ihr =>
    simp only [isExpr, leaves, List.all_append, Bool.and_eq_true] at h
    obtain ⟨a1, a2, a3⟩ := ihl h.1
    obtain ⟨b1, b2, b3⟩ := ihr h.2
    simp [extractContext, Context.add, leaves, ctxLeaves, zeroish, a1, a2, a3, b1, b2, b3,
      List.filterMap_append]
  | mul l r ihl ihr =>
    simp only [isExpr, leaves, List.all_append, Bool.and_eq_true] at h
    obtain ⟨a1, a2, a3⟩ := ihl h.1
    obtain ⟨b1, b2, b3⟩ := ihr h.2
    simp [extractContext, Context.mul, leaves, ctxLeaves, zeroish, a1, a2, a3, b1, b2, b3,
      List.filterMap_append]

theorem nest_context (outT : TensorId) (e : IdExpr) (x : String) (lv : List Level) :
    ∀ n, (nest outT e n lv).context x = extractContext e x := by
  induction lv with
  | nil => intro n; simp [nest, IGraph.context]
  | cons p r ih =>
    obtain ⟨y, o⟩ := p
    intro n
    cases o <;> simp [nest, IGraph.context, ih]

theorem nest_laterIndexes (outT : TensorId) (e : IdExpr) (lv : List Level) :
    ∀ n, (nest outT e n lv).laterIndexes = idxs lv := by
  induction lv with
  | nil => intro n; simp [nest, IGraph.laterIndexes, idxs]
  | cons p r ih =>
    obtain ⟨y, o⟩ := p
    intro n
    cases o <;> simp [nest, IGraph.laterIndexes, ih, idxs]

theorem nest_size (outT : TensorId) (e : IdExpr) (lv : List Level) :
    ∀ n, (nest outT e n lv).size = lv.length + 1 := by
  induction lv with
  | nil => intro n; simp [nest, IGraph.size]
  | cons p r ih =>
    obtain ⟨y, o⟩ := p
    intro n
    cases o <;> simp [nest, IGraph.size, ih]

/-! ### `layersToWrite` on the class -/

/-- exactly the layer of the current index becomes computable at its node: the indexes of the
layers above are bound by outer loops, those of the layers below by inner loops -/
theorem layersToWrite_split (t : TensorId) (A B : List String) (x : String) (later : List String)
    (hidx : t.indexes = A ++ x :: B) (hm : t.modes.all (· == Mode.dense) = true)
    (hA : ∀ a ∈ A, a ∉ later) (hx : x ∈ later) (hB : ∀ b ∈ B, b ∈ later ∧ b ≠ x) :
    layersToWrite ⟨t, A.length⟩ x later = [⟨t, A.length⟩] := by
  rw [layersToWrite_def]
  simp only []
  rw [lwAbove_fold t hm]
  simp only [List.nil_append]
  have hlen : t.indexes.length - A.length = B.length + 1 := by
    rw [hidx]; simp
  rw [hlen, List.range_succ_eq_map, List.map_cons, List.foldl_cons, List.map_map]
  have hA' : ∀ y ∈ (List.range A.length).reverse.map (t.indexes.getD · ""), y ∈ A := by
    intro y hy
    obtain ⟨k, hk, rfl⟩ := List.mem_map.1 hy
    have hk : k < A.length := List.mem_range.1 (List.mem_reverse.1 hk)
    rw [hidx, DenseN.getD_append_left' k hk]
    exact List.getElem_mem hk
  generalize (List.range A.length).reverse.map (t.indexes.getD · "") = A' at hA'
  have hi0 : t.indexes.getD A.length "" = x := by
    rw [hidx]; simp
  have hxA : x ∉ A' := fun h => hA x (hA' x h) hx
  have hfirst : lwStep t x later (A', [], false) (0 + A.length) =
      (A' ++ [x], [⟨t, A.length⟩], false) := by
    have hbefore : ((A' ++ [x]).filter fun y => !later.contains y) = A' := by
      rw [List.filter_append]
      have h1 : (A'.filter fun y => !later.contains y) = A' := by
        rw [List.filter_eq_self]
        intro y hy
        have := hA y (hA' y hy)
        simpa using this
      rw [h1]
      simp [hx]
    have hsub1 : ((A' ++ [x]).all A'.contains) = false := by
      rw [Bool.eq_false_iff]
      intro hall
      have := List.all_eq_true.1 hall x (by simp)
      simp only [List.contains_eq_mem, decide_eq_true_eq] at this
      exact hxA this
    have hsub2 : ((A' ++ [x]).all (A' ++ [x]).contains) = true := by
      rw [List.all_eq_true]
      intro y hy
      simpa using hy
    rw [Nat.zero_add]
    simp only [lwStep, getD_dense hm, bne_self_eq_false, Bool.false_eq_true, if_false, hi0]
    simp only [hbefore, hsub1, hsub2, Bool.not_false, Bool.and_true, if_true, List.nil_append]
  rw [hfirst]
  obtain ⟨needed', h⟩ := lwStep_tail t x later hm
    ((List.range B.length).map ((· + A.length) ∘ Nat.succ)) (by
      intro k hk
      obtain ⟨k', hk', rfl⟩ := List.mem_map.1 hk
      have hk' : k' < B.length := List.mem_range.1 hk'
      have e1 : ((· + A.length) ∘ Nat.succ) k' = A.length + (k' + 1) := by
        simp only [Function.comp]; omega
      rw [e1, hidx, DenseN.getD_append_right']
      have e2 : (x :: B).getD (k' + 1) "" = B[k'] := by
        simp [List.getD_eq_getElem?_getD, hk']
      rw [e2]
      exact hB _ (List.getElem_mem hk')) (A' ++ [x]) [⟨t, A.length⟩]
  rw [h]

/-- `layersToWrite` for a leaf of the class at the node of index `x` -/
theorem layersToWrite_eq (pre rest : List String) (x : String) (t : TensorId) (k : Nat)
    (ht : isLeaf (pre ++ x :: rest) t = true) (hnd : (pre ++ x :: rest).Nodup)
    (hk : t.indexes.findIdx? (· == x) = some k) :
    layersToWrite ⟨t, k⟩ x (x :: rest) = [⟨t, k⟩] ∧ t.indexes.getD k "" = x := by
  obtain ⟨hsub, hm⟩ := (isLeaf_iff _ t).1 ht
  obtain ⟨hsplit, hA, hB, hlen⟩ := split_of_sublist hsub hnd hk
  have hnd' := List.nodup_append.1 hnd
  have hxrest : x ∉ rest := (List.nodup_cons.1 hnd'.2.1).1
  have h := layersToWrite_split t (t.indexes.take k) (t.indexes.drop (k + 1)) x (x :: rest) hsplit hm
    (fun a ha hl => hnd'.2.2 a (hA.subset ha) a hl rfl) (by simp)
    (fun b hb => ⟨List.mem_cons_of_mem _ (hB.subset hb), fun e => hxrest (e ▸ hB.subset hb)⟩)
  rw [hlen] at h
  refine ⟨h, ?_⟩
  have : t.indexes.getD k "" = (t.indexes.take k ++ x :: t.indexes.drop (k + 1)).getD k "" := by
    rw [← hsplit]
  rw [this]
  conv => lhs; arg 2; rw [← hlen]
  simp

/-! ### the declarations of one level -/

theorem foldl_ptrDecls (x : String) (later : List String) (ls : List Leaf)
    (hl : ∀ lf ∈ ls, layersToWrite lf x later = [lf] ∧ lf.tensor.indexes.getD lf.layer "" = x) :
    ∀ (body : SB F),
    ls.foldl (fun body leaf =>
        (layersToWrite leaf x later).foldl (fun body layer =>
          let idxI := layer.index
          body.add (declAssignE layer.ptr .int
            (plus (times layer.prevPtr (.var (dimName idxI))) (.var idxI)))) body) body
      = ⟨body.comment, body.lines ++ ls.map (fun lf => ptrDecl x lf.layer lf.tensor)⟩ := by
  induction ls with
  | nil => intro body; simp
  | cons lf ls ih =>
    intro body
    obtain ⟨h1, h2⟩ := hl lf (by simp)
    rw [List.foldl_cons, h1, ih (fun y hy => hl y (by simp [hy]))]
    rw [List.getD_eq_getElem?_getD] at h2
    simp [SB.add, ptrDecl, Leaf.index, Leaf.ptr, Leaf.prevPtr, h2]

theorem ctxLeaves_map (x : String) (ts : List TensorId) :
    (ctxLeaves x ts).map (fun lf => (ptrDecl x lf.layer lf.tensor : Stmt F)) = leafDecls x ts := by
  unfold ctxLeaves leafDecls
  rw [List.map_filterMap]
  congr 1
  funext t
  cases t.indexes.findIdx? (· == x) <;> rfl

theorem mem_ctxLeaves {x : String} {ts : List TensorId} {lf : Leaf} (h : lf ∈ ctxLeaves x ts) :
    lf.tensor ∈ ts ∧ lf.tensor.indexes.findIdx? (· == x) = some lf.layer := by
  unfold ctxLeaves at h
  obtain ⟨t, ht, h⟩ := List.mem_filterMap.1 h
  cases hf : t.indexes.findIdx? (· == x) with
  | none => rw [hf] at h; cases h
  | some k =>
    rw [hf] at h
    simp only [Option.map_some, Option.some.injEq] at h
    subst h
    exact ⟨ht, hf⟩

/-! ### the terminal -/

theorem writtenFlags_dense (o : Output) (hm : o.tensor.modes.all (· == Mode.dense) = true) :
    o.writtenFlags = [] := by
  simp only [Output.writtenFlags]
  rw [List.filterMap_eq_nil_iff]
  intro k _
  simp [getElem?_getD_dense hm]

theorem lower_terminal_app (ofRat : Rat → F) (n : Nat) (outT : TensorId) (e : IdExpr)
    (hm : outT.modes.all (· == Mode.dense) = true) :
    lower ofRat (n + 1) (.terminal e) (.append outT outT.indexes.length) .evaluate =
      .ok ⟨some "*** Computation of expression ***", [storeStmt ofRat outT e]⟩ :=
  DenseN.lower_terminal_eq ofRat n outT e hm

theorem lower_terminal_bkt (ofRat : Rat → F) (n : Nat) (outT : TensorId) (e : IdExpr) (n0 : Nat)
    (hm : outT.modes.all (· == Mode.dense) = true) :
    lower ofRat (n + 1) (.terminal e) (.bucket outT (bucketLayers outT n0)) .evaluate =
      .ok ⟨some "*** Computation of expression ***", [accStmt ofRat outT e n0]⟩ := by
  unfold lower
  have hw := writtenFlags_dense (.bucket outT (bucketLayers outT n0)) hm
  simp [Kind.isCompute, hw, Output.writeAssignment, SB.mk', SB.append, SB.add, SB.empty,
    accStmt, bind, Except.bind, pure, Except.pure]

theorem termSB_comment (ofRat : Rat → F) (outT : TensorId) (e : IdExpr) (m : OMode) (lv : List Level) :
    ∃ c, (termSB ofRat outT e m lv).comment = some c := by
  cases lv with
  | nil => exact ⟨_, rfl⟩
  | cons p r => obtain ⟨x, o⟩ := p; exact ⟨_, rfl⟩

/-! ### the main induction -/

/-- the output state matches the prefix already lowered: still appending means every level so far
was an output level -/
def ModeOK : OMode → List Level → Prop
  | .app n, pre => n = pre.length ∧ ∀ p ∈ pre, p.2 = true
  | .bkt _, _ => True

theorem ModeOK.next {m : OMode} {pre : List Level} (h : ModeOK m pre) (x : String) (o : Bool) :
    ModeOK (m.next o) (pre ++ [(x, o)]) := by
  cases m with
  | bkt n0 => trivial
  | app n =>
    cases o with
    | false => trivial
    | true =>
      obtain ⟨h1, h2⟩ := h
      refine ⟨by simp [h1], ?_⟩
      intro p hp
      rcases List.mem_append.1 hp with hp | hp
      · exact h2 p hp
      · simp at hp; subst hp; rfl

theorem bucket_next (outT : TensorId) (n : Nat) (hm : outT.modes.all (· == Mode.dense) = true) :
    ((Output.append outT n).next none Kind.evaluate : Except GenErr (Output × SB F)) =
      .ok (.bucket outT (bucketLayers outT n),
        bucketDeclarations outT (bucketLayers outT n) (bucketPtrE outT n)) := by
  have hd : (outT.modes.drop n).all (· == Mode.dense) = true := by
    rw [List.all_eq_true] at hm ⊢
    intro y hy
    exact hm y (List.mem_of_mem_drop hy)
  simp [Output.next, hd, Kind.isCompute, bucketLayers, bucketPtrE]

/-- **T1, generalised over the level and the output state.** -/
theorem lower_nest_eq (ofRat : Rat → F) (outT : TensorId) (e : IdExpr) (full : List Level)
    (ho : isOut full outT = true) (he : isExpr (idxs full) e = true) (hnd : (idxs full).Nodup)
    (hz : ∀ p ∈ full, p.2 = false → zeroish e = false) :
    ∀ (rest pre : List Level) (m : OMode) (k : Nat), full = pre ++ rest → ModeOK m pre →
      lower ofRat (rest.length + 1 + k) (nest outT e (outIdxs pre).length rest) (m.out outT) .evaluate =
        .ok (termSB ofRat outT e m rest) := by
  obtain ⟨hoi, hom, hol⟩ := (isOut_iff full outT).1 ho
  intro rest
  induction rest with
  | nil =>
    intro pre m k hfull hmode
    simp only [nest, termSB, List.length_nil, Nat.zero_add]
    rw [Nat.add_comm 1 k]
    cases m with
    | bkt n0 => exact lower_terminal_bkt ofRat k outT e n0 hom
    | app n =>
      obtain ⟨h1, h2⟩ := hmode
      have hl : n = outT.indexes.length := by
        rw [hoi, hfull, List.append_nil, outIdxs_of_all h2, h1]; simp [idxs]
      simp only [OMode.out, termStmt]
      rw [hl]
      exact lower_terminal_app ofRat k outT e hom
  | cons p rest ih =>
    obtain ⟨x, o⟩ := p
    intro pre m k hfull hmode
    have hnd0 := hnd
    rw [hfull, idxs_append] at hnd0
    have hidx0 : idxs ((x, o) :: rest) = x :: idxs rest := rfl
    rw [hidx0] at hnd0
    have hctx := extractContext_eq (idxs full) e x he
    have hIH := ih (pre ++ [(x, o)]) (m.next o) k (by rw [hfull]; simp) (hmode.next x o)
    have hzx : o = false → zeroish e = false := fun h => hz (x, o) (by rw [hfull]; simp) h
    -- the leaves of the context
    have hleaves : ∀ lf ∈ ctxLeaves x (leaves e),
        layersToWrite lf x (x :: idxs rest) = [lf] ∧ lf.tensor.indexes.getD lf.layer "" = x := by
      intro lf hlf
      obtain ⟨h1, h2⟩ := mem_ctxLeaves hlf
      have := isExpr_mem he _ h1
      rw [hfull, idxs_append, hidx0] at this
      exact layersToWrite_eq (idxs pre) (idxs rest) x lf.tensor lf.layer this hnd0 h2
    rw [show ((x, o) :: rest).length + 1 + k = (rest.length + 1 + k) + 1 by simp; omega]
    obtain ⟨c, hc⟩ := termSB_comment ofRat outT e (m.next o) rest
    cases o with
    | true =>
      have hlen1 : (outIdxs (pre ++ [(x, true)])).length = (outIdxs pre).length + 1 := by
        simp [outIdxs]
      rw [hlen1] at hIH
      simp only [nest]
      generalize hnx : nest outT e ((outIdxs pre).length + 1) rest = nx at hIH
      have hnc : nodeContext (IGraph.iter x (some ⟨outT, (outIdxs pre).length⟩) nx) =
          extractContext e x := by
        simp [nodeContext, ← hnx, nest_context]
      have hcd : compressedDims (IGraph.iter x (some ⟨outT, (outIdxs pre).length⟩) nx) = [] := by
        simp [compressedDims, hnc, hctx.1, dedupStr]
      have hsub := generateSubgraphs_eq _ hcd
      have hlater : (IGraph.iter x (some ⟨outT, (outIdxs pre).length⟩) nx).laterIndexes =
          x :: idxs rest := by
        simp [IGraph.laterIndexes, ← hnx, nest_laterIndexes]
      have hmode' : ({ tensor := outT, layer := (outIdxs pre).length } : Leaf).mode = Mode.dense := by
        simp [Leaf.mode, getElem?_getD_dense hom]
      have hso : isSparseOutput (IGraph.iter x (some ⟨outT, (outIdxs pre).length⟩) nx) = false := by
        simp [isSparseOutput, hmode']
      cases m with
      | app n =>
        obtain ⟨h1, h2⟩ := hmode
        have hn : n = (outIdxs pre).length := by rw [outIdxs_of_all h2, h1]; simp [idxs]
        subst hn
        have hnext : ((Output.append outT (outIdxs pre).length).next (some (outIdxs pre).length)
            Kind.evaluate : Except GenErr (Output × SB F)) =
            .ok (.append outT ((outIdxs pre).length + 1), SB.empty) := by simp [Output.next]
        -- the output cursor
        have hoL : layersToWrite ⟨outT, (outIdxs pre).length⟩ x (x :: idxs rest) =
            [⟨outT, (outIdxs pre).length⟩] ∧ outT.indexes.getD (outIdxs pre).length "" = x := by
          have hlf : isLeaf (idxs pre ++ x :: idxs rest) outT = true := by
            have := isLeaf_of_isOut ho
            rwa [hfull, idxs_append] at this
          apply layersToWrite_eq (idxs pre) (idxs rest) x outT _ hlf hnd0
          rw [hoi, hfull, outIdxs_append]
          have hxp : x ∉ outIdxs pre := fun h =>
            (List.nodup_append.1 hnd0).2.2 x ((outIdxs_sublist pre).subset h) x (by simp) rfl
          have hf1 : (outIdxs pre).findIdx? (· == x) = none := by
            rw [List.findIdx?_eq_none_iff]
            intro y hy
            exact beq_eq_false_iff_ne.2 (fun e => hxp (e ▸ hy))
          rw [List.findIdx?_append, hf1]
          simp [outIdxs, List.findIdx?_cons]
        simp only [OMode.out, OMode.next] at hIH hc ⊢
        unfold lower
        simp only [Kind.isCompute, Bool.not_true, Bool.false_and, Bool.false_eq_true, if_false]
        simp only [hso, hmode', Option.map_some, hnext, hsub, hnc, hctx.1, hctx.2.1, hlater, hIH,
          Bool.and_false, Bool.or_false, Bool.false_and, Bool.false_eq_true, if_false, if_true,
          List.foldlM_cons, List.foldlM_nil, bind, Except.bind, pure, Except.pure,
          List.isEmpty_nil, Bool.not_true, Option.isNone_some, Bool.not_false, List.foldl_nil,
          beq_self_eq_true, List.map_nil, List.nil_append]
        have hfold := foldl_ptrDecls (F := F) x (x :: idxs rest)
          (⟨outT, (outIdxs pre).length⟩ :: ctxLeaves x (leaves e)) (by
            intro lf hlf
            rcases List.mem_cons.1 hlf with rfl | hlf
            · exact hoL
            · exact hleaves lf hlf) SB.empty
        rw [List.singleton_append, hfold, List.map_cons, ctxLeaves_map]
        simp [SB.mk', SB.append, SB.empty, SB.add, SB.loop, SB.finalize, branchJoin, andJoin,
          joinWith, hc, termSB, OMode.next, initDecl, outDecl]
      | bkt n0 =>
        have hnext : ((Output.bucket outT (bucketLayers outT n0)).next (some (outIdxs pre).length)
            Kind.evaluate : Except GenErr (Output × SB F)) =
            .ok (.bucket outT (bucketLayers outT n0), SB.empty) := by simp [Output.next]
        simp only [OMode.out, OMode.next] at hIH hc ⊢
        unfold lower
        simp only [Kind.isCompute, Bool.not_true, Bool.false_and, Bool.false_eq_true, if_false]
        simp only [hso, hmode', Option.map_some, hnext, hsub, hnc, hctx.1, hctx.2.1, hlater, hIH,
          Bool.and_false, Bool.or_false, Bool.false_and, Bool.false_eq_true, if_false, if_true,
          List.foldlM_cons, List.foldlM_nil, bind, Except.bind, pure, Except.pure,
          List.isEmpty_nil, Bool.not_true, Option.isNone_some, Bool.not_false, List.foldl_nil,
          beq_self_eq_true, List.map_nil, List.nil_append]
        have hfold := foldl_ptrDecls (F := F) x (x :: idxs rest) (ctxLeaves x (leaves e)) hleaves SB.empty
        rw [hfold, ctxLeaves_map]
        simp [SB.mk', SB.append, SB.empty, SB.add, SB.loop, SB.finalize, branchJoin, andJoin,
          joinWith, hc, termSB, OMode.next, initDecl, outDecl]
    | false =>
      have hlen1 : (outIdxs (pre ++ [(x, false)])).length = (outIdxs pre).length := by
        simp [outIdxs]
      rw [hlen1] at hIH
      simp only [nest]
      generalize hnx : nest outT e (outIdxs pre).length rest = nx at hIH
      have hnc : nodeContext (IGraph.iter x none nx) = extractContext e x := by
        simp [nodeContext, ← hnx, nest_context]
      have hcd : compressedDims (IGraph.iter x none nx) = [] := by
        simp [compressedDims, hnc, hctx.1, dedupStr]
      have hsub := generateSubgraphs_eq _ hcd
      have hlater : (IGraph.iter x none nx).laterIndexes = x :: idxs rest := by
        simp [IGraph.laterIndexes, ← hnx, nest_laterIndexes]
      have hso : isSparseOutput (IGraph.iter x none nx) = false := by
        simp [isSparseOutput]
      have hsp : (extractContext e x).isSparse = false := by rw [hctx.2.2]; exact hzx rfl
      have hfold := foldl_ptrDecls (F := F) x (x :: idxs rest) (ctxLeaves x (leaves e)) hleaves SB.empty
      cases m with
      | app n =>
        have hnext := bucket_next (F := F) outT n hom
        simp only [OMode.out, OMode.next] at hIH hc ⊢
        unfold lower
        simp only [Kind.isCompute, Bool.not_true, Bool.false_and, Bool.false_eq_true, if_false]
        simp only [hso, Option.map_none, hnext, hsub, hnc, hctx.1, hctx.2.1, hsp, hlater, hIH,
          Bool.and_false, Bool.or_false, Bool.false_and, Bool.false_eq_true, if_false, if_true,
          List.foldlM_cons, List.foldlM_nil, bind, Except.bind, pure, Except.pure,
          List.isEmpty_nil, Bool.not_true, Option.isNone_none, Bool.not_false, List.foldl_nil,
          beq_self_eq_true, List.map_nil, List.nil_append]
        rw [hfold, ctxLeaves_map]
        simp [SB.mk', SB.append, SB.empty, SB.add, SB.loop, SB.finalize, branchJoin, andJoin,
          joinWith, hc, termSB, OMode.next, initDecl, outDecl, bucketInit, bucketDeclarations]
      | bkt n0 =>
        have hnext : ((Output.bucket outT (bucketLayers outT n0)).next none
            Kind.evaluate : Except GenErr (Output × SB F)) =
            .ok (.bucket outT (bucketLayers outT n0), SB.empty) := by simp [Output.next]
        simp only [OMode.out, OMode.next] at hIH hc ⊢
        unfold lower
        simp only [Kind.isCompute, Bool.not_true, Bool.false_and, Bool.false_eq_true, if_false]
        simp only [hso, Option.map_none, hnext, hsub, hnc, hctx.1, hctx.2.1, hsp, hlater, hIH,
          Bool.and_false, Bool.or_false, Bool.false_and, Bool.false_eq_true, if_false, if_true,
          List.foldlM_cons, List.foldlM_nil, bind, Except.bind, pure, Except.pure,
          List.isEmpty_nil, Bool.not_true, Option.isNone_none, Bool.not_false, List.foldl_nil,
          beq_self_eq_true, List.map_nil, List.nil_append]
        rw [hfold, ctxLeaves_map]
        simp [SB.mk', SB.append, SB.empty, SB.add, SB.loop, SB.finalize, branchJoin, andJoin,
          joinWith, hc, termSB, OMode.next, initDecl, outDecl]

/-- **T1.** What `lower` emits for the graph of the class: `termNest`. -/
theorem lower_eq (ofRat : Rat → F) (k : Nat) (lv : List Level) (outT : TensorId) (e : IdExpr)
    (ho : isOut lv outT = true) (he : isExpr (idxs lv) e = true) (hnd : (idxs lv).Nodup)
    (hz : ∀ p ∈ lv, p.2 = false → zeroish e = false) :
    lower ofRat (lv.length + 1 + k) (graph lv outT e) (.append outT 0) .evaluate =
      .ok (termNest ofRat lv outT e) :=
  lower_nest_eq ofRat outT e lv ho he hnd hz lv [] (.app 0) k rfl ⟨rfl, fun _ h => by cases h⟩

end TV.DenseTerm
