import TensoraVerif.Lemmas.DenseNModel

/-!
C01 for ALL dense single-term contractions (arbitrary linear loop nests, contraction loops
anywhere), part 1: definitions.

* the class: `Level` (index name, is it an output index), `isLeaf` (dense tensor whose index list is
  a sub-sequence of the nest order), `isOut`, `isExpr`, `zeroish` (the `isSparse` flag of
  `extractContext` on all-dense expressions);
* the graph `nest` / `graph`: `.iter x₁ o₁ (… (.iter xₘ oₘ (.terminal e)))` with `o_l = some ⟨out, k⟩`
  for the output levels `k = 0, 1, …` in increasing order and `none` for the contraction levels;
* the emitted code `termSB` (recursive): per level `int x = 0; while (x < x_dim) { <p_out_k = …> ;
  <p_t_k = … for every leaf that has x> ; if (true) { <next level> } x = x + 1 }`, preceded by the
  "Bucket initialization" block where the output switches to bucket mode (`OMode`);
* the meaning: `linIdx` (row-major linearisation of a tensor's indexes under a valuation), `rho`,
  `sem` (what a sub-nest does to one output cell: in append mode it writes, in bucket mode it adds
  the terms of its contraction indexes IN LOOP ORDER), `semOK` (what the machine checks: every
  sub-result finite), `cellF` (the final content of an output cell), `iters` (exact number of loop
  iterations), `fuelNeed`.
-/
namespace TV.DenseTerm
open TV.IR TV.Gen TV.Graph
open TV.Dense1 (leaves valueF allFinite)
open TV.DenseN (ptrDecl storeStmt prod lin Fits Below)

variable {F : Type}

/-! ### the class -/

/-- a level of the loop nest: the index variable, and whether it is an output index -/
abbrev Level := String × Bool

/-- the index variables of the levels, in nest order -/
def idxs (lv : List Level) : List String := lv.map (·.1)

/-- the output indexes, in nest order -/
def outIdxs (lv : List Level) : List String := (lv.filter (·.2)).map (·.1)

/-- a dense tensor whose index list is a sub-sequence of `xs` (identity mode ordering and an
iteration order that follows it) -/
def isLeaf (xs : List String) (t : TensorId) : Bool :=
  t.indexes.isSublist xs && t.modes.all (· == Mode.dense)

/-- the output tensor: all modes dense, indexed by exactly the output indexes in nest order -/
def isOut (lv : List Level) (t : TensorId) : Bool :=
  t.indexes == outIdxs lv && t.modes.all (· == Mode.dense) && t.modes.length == t.indexes.length

/-- every tensor leaf of `e` is of the class -/
def isExpr (xs : List String) (e : IdExpr) : Bool := (leaves e).all (isLeaf xs)

/-- the `isSparse` flag `extract_context` computes on an expression without sparse leaves: literal
zeros, sums of such, products with such a factor (the pass would skip a contraction loop) -/
def zeroish : IdExpr → Bool
  | .int v => v == 0
  | .flt v => v == 0
  | .tensor _ => false
  | .add l r => zeroish l && zeroish r
  | .mul l r => zeroish l || zeroish r

/-- the tensors of one kernel never share an id unless they are the same access pattern (ids are
`<occurrence number>_<name>` in the pipeline, hence pairwise distinct) -/
def idsOK (ts : List TensorId) : Bool :=
  ts.all fun t => ts.all fun t' => !(t.id == t'.id) || t.indexes == t'.indexes

/-- the linear nest over `lv`, the next output level being `n` -/
def nest (outT : TensorId) (e : IdExpr) : Nat → List Level → IGraph
  | _, [] => .terminal e
  | n, (x, true) :: r => .iter x (some ⟨outT, n⟩) (nest outT e (n + 1) r)
  | n, (x, false) :: r => .iter x none (nest outT e n r)

/-- the iteration graph of `out(outputs…) = Σ_{contractions…} e` with the loop order `lv` -/
def graph (lv : List Level) (outT : TensorId) (e : IdExpr) : IGraph := nest outT e 0 lv

/-! ### the emitted loop nest -/

/-- the state of the output object while lowering: still appending (next layer `n`), or writing
through a bucket that was opened when layer `n0` was the next one -/
inductive OMode where
  | app (n : Nat)
  | bkt (n0 : Nat)
  deriving DecidableEq, Repr

/-- the layers of the bucket opened at layer `n0` -/
def bucketLayers (outT : TensorId) (n0 : Nat) : List Nat :=
  (List.range (outT.modes.length - n0)).map (· + n0)

def OMode.out (outT : TensorId) : OMode → Output
  | .app n => .append outT n
  | .bkt n0 => .bucket outT (bucketLayers outT n0)

/-- the output state below a level (`o`: is it an output level) -/
def OMode.next : OMode → Bool → OMode
  | .app n, true => .app (n + 1)
  | .app n, false => .bkt n
  | .bkt n0, _ => .bkt n0

def OMode.isBkt : OMode → Bool
  | .app _ => false
  | .bkt _ => true

/-- `<out>_vals + <p_out_{n-1} or 0> * (1 * d_n * … * d_{N-1})` -/
def bucketPtrE (outT : TensorId) (n : Nat) : Expr F :=
  plus (.var (valsName outT.name))
    (times (prevLayerPointer outT.id n) (mulJoin ((outT.indexes.drop n).map fun i => .var (dimName i))))

/-- the "Bucket initialization" block emitted where the output switches to bucket mode -/
def bucketInit (outT : TensorId) (n : Nat) : Stmt F :=
  (bucketDeclarations outT (bucketLayers outT n) (bucketPtrE outT n)).finalize

/-- `bucket[ravel(indexes of the bucket layers)] = bucket[…] + <e>;` -/
def accStmt (ofRat : Rat → F) (outT : TensorId) (e : IdExpr) (n0 : Nat) : Stmt F :=
  increment (.idx (.var (bucketName outT (bucketLayers outT n0)))
    (ravelIndexes (bucketDims outT (bucketLayers outT n0))
      ((bucketLayers outT n0).map fun l => .var (outT.indexes.getD l "")))) (toIrWith ofRat e)

/-- `int p_<t>_<k> = <p_<t>_<k-1> or 0> * x_dim + x;` for every tensor of `ts` that has `x`, `k` the
position of `x` in its index list -/
def leafDecls (x : String) (ts : List TensorId) : List (Stmt F) :=
  ts.filterMap fun t => (t.indexes.findIdx? (· == x)).map fun k => ptrDecl x k t

/-- the output cursor declared by an output level in append mode -/
def outDecl (outT : TensorId) (x : String) : OMode → Bool → List (Stmt F)
  | .app n, true => [ptrDecl x n outT]
  | _, _ => []

/-- the bucket initialisation emitted by a contraction level in append mode -/
def initDecl (outT : TensorId) : OMode → Bool → List (Stmt F)
  | .app n, false => [bucketInit outT n]
  | _, _ => []

/-- the statement of the terminal -/
def termStmt (ofRat : Rat → F) (outT : TensorId) (e : IdExpr) : OMode → Stmt F
  | .app _ => storeStmt ofRat outT e
  | .bkt n0 => accStmt ofRat outT e n0

/-- **the builder `lower` returns** for the sub-nest over `lv` in output state `m` -/
def termSB (ofRat : Rat → F) (outT : TensorId) (e : IdExpr) : OMode → List Level → SB F
  | m, [] => ⟨some "*** Computation of expression ***", [termStmt ofRat outT e m]⟩
  | m, (x, o) :: r =>
    ⟨some ("*** Iteration over " ++ x ++ " ***"),
      initDecl outT m o ++
      [declAssignE x .int (.intLit 0),
       .loop (.bin .lt (.var x) (.var (dimName x)))
         (.block (outDecl outT x m o ++ leafDecls x (leaves e) ++
           [.branch (.boolLit true)
              (.block [(termSB ofRat outT e (m.next o) r).finalize] none) (.block [] none),
            increment (.var x) (.intLit 1)]) none)]⟩

/-- the loop nest of the whole kernel -/
def termNest (ofRat : Rat → F) (lv : List Level) (outT : TensorId) (e : IdExpr) : SB F :=
  termSB ofRat outT e (.app 0) lv

/-! ### meaning -/

/-- valuation update -/
def upd (val : String → Nat) (x : String) (j : Nat) : String → Nat :=
  fun y => if y = x then j else val y

/-- row-major linearisation of the index list `l` under the valuation `val` -/
def linIdx (dimOf val : String → Nat) (l : List String) : Nat :=
  l.foldl (fun q a => q * dimOf a + val a) 0

/-- the value tensor occurrence `t` has under `val` when array `<name>_vals` holds `cellsOf name` -/
def rho (dimOf : String → Nat) (cellsOf : String → Nat → F) (val : String → Nat) : TensorId → F :=
  fun t => cellsOf t.name (linIdx dimOf val t.indexes)

/-- `g (k-1) (… (g 1 (g 0 f)))` -/
def iterF {α : Type} (g : Nat → α → α) : Nat → α → α
  | 0, f => f
  | k + 1, f => g k (iterF g k f)

/-- the dimensions of the output levels of `lv` -/
def outDims (dimOf : String → Nat) (lv : List Level) : List Nat :=
  (lv.filter (·.2)).map fun p => dimOf p.1

variable [FloatOps F]

/-- **what the sub-nest `lv` does to the output cell with the remaining output coordinates `J`**,
`f` the content before: in bucket mode (`b = true`) every terminal reached adds its term, in loop
order; in append mode the terminal writes the term, and the first contraction level starts the
accumulation from `ofInt 0` (what the bucket initialisation stores). `term val` is the terminal
expression under the valuation `val`. -/
def sem (term : (String → Nat) → F) (dimOf : String → Nat) :
    Bool → List Level → (String → Nat) → List Nat → F → F
  | b, [], val, _, f => if b then FloatOps.add f (term val) else term val
  | b, (x, true) :: r, val, j :: J, f => sem term dimOf b r (upd val x j) J f
  | _, (_, true) :: _, _, [], f => f
  | b, (x, false) :: r, val, J, f =>
    iterF (fun k f => sem term dimOf true r (upd val x k) J f) (dimOf x)
      (if b then f else FloatOps.ofInt 0)

/-- **what the machine checks along the way**: at every terminal reached, every sub-result of the
expression is finite (`fin val`), and in bucket mode the accumulator read back and the new sum are
finite -/
def semOK (term : (String → Nat) → F) (fin : (String → Nat) → Bool) (dimOf : String → Nat) :
    Bool → List Level → (String → Nat) → List Nat → F → Prop
  | b, [], val, _, f => fin val = true ∧
      (b = true → FloatOps.finite f = true ∧ FloatOps.finite (FloatOps.add f (term val)) = true)
  | b, (x, true) :: r, val, j :: J, f => semOK term fin dimOf b r (upd val x j) J f
  | _, (_, true) :: _, _, [], _ => True
  | b, (x, false) :: r, val, J, f => ∀ k, k < dimOf x →
      semOK term fin dimOf true r (upd val x k) J
        (iterF (fun k f => sem term dimOf true r (upd val x k) J f) k
          (if b then f else FloatOps.ofInt 0))

/-- the terminal expression under a valuation -/
def termF (ofRat : Rat → F) (dimOf : String → Nat) (cellsOf : String → Nat → F) (e : IdExpr)
    (val : String → Nat) : F := valueF ofRat (rho dimOf cellsOf val) e

/-- every sub-result of the terminal expression under a valuation is finite -/
def finF (ofRat : Rat → F) (dimOf : String → Nat) (cellsOf : String → Nat → F) (e : IdExpr)
    (val : String → Nat) : Bool := allFinite ofRat (rho dimOf cellsOf val) e

/-- **the final content of the output cell `J`** (coordinates of the output indexes in nest order):
the terms of all contraction multi-indexes, added in loop order starting from `ofInt 0` — or just
the term when there is no contraction index -/
def cellF (ofRat : Rat → F) (dimOf : String → Nat) (cellsOf : String → Nat → F) (e : IdExpr)
    (lv : List Level) (J : List Nat) : F :=
  sem (termF ofRat dimOf cellsOf e) dimOf false lv (fun _ => 0) J (FloatOps.ofInt 0)

/-- the finiteness side condition for output cell `J` -/
def cellOK (ofRat : Rat → F) (dimOf : String → Nat) (cellsOf : String → Nat → F) (e : IdExpr)
    (lv : List Level) (J : List Nat) : Prop :=
  semOK (termF ofRat dimOf cellsOf e) (finF ofRat dimOf cellsOf e) dimOf false lv (fun _ => 0) J
    (FloatOps.ofInt 0)

omit [FloatOps F] in
/-- exact number of loop iterations of the sub-nest (`b`: already in bucket mode) -/
def iters (dimOf : String → Nat) : Bool → List Level → Nat
  | _, [] => 0
  | b, (x, o) :: r =>
    (if !b && !o then prod (outDims dimOf r) else 0) + dimOf x * (iters dimOf (b || !o) r + 1)

/-- fuel sufficient for the sub-nest -/
def fuelNeed (dimOf : String → Nat) : Bool → List Level → Nat
  | _, [] => 0
  | b, (x, o) :: r =>
    (if !b && !o then prod (outDims dimOf r) + 1 else 0) + (dimOf x + 1 + fuelNeed dimOf (b || !o) r)

end TV.DenseTerm
