import TensoraVerif.Lemmas.DenseTermTerminal

/-!
C01 for all dense single-term contractions, part 8 (T2): the Hoare theorem of the loop nest, by
induction on the remaining levels. The specification of a sub-nest (`NestSpec`) is generalised over
the prefix `pre` already entered, the output state, the valuation of the bound indexes and — in
bucket mode — the current content `g` of the cells of the slab: running the sub-nest maps the
content of every cell `J` of the slab to `sem … J (g J)`.
-/
namespace TV.DenseTerm
open TV.IR TV.Gen TV.Graph TV.Growth
open TV.ToIr (PtrAt OutCell FloatCell writeCell)
open TV.Dense1 (leaves valueF allFinite RunsI RunsLI)
open TV.DenseN (prod lin Fits Below ptrDecl storeStmt)
set_option linter.unusedSectionVars false
set_option linter.unusedSimpArgs false
set_option linter.unusedVariables false
variable {F : Type} [FloatOps F]

/-- the output state matches the prefix: still appending means every level so far was an output
level; a bucket is the bucket of the kernel -/
def HMode (C : Ctx F) : OMode → List Level → Prop
  | .app n, pre => n = pre.length ∧ ∀ p ∈ pre, p.2 = true
  | .bkt n0, _ => n0 = C.n0

theorem isBkt_next (m : OMode) (o : Bool) : (m.next o).isBkt = (m.isBkt || !o) := by
  cases m <;> cases o <;> rfl

theorem HMode.next {C : Ctx F} (S : Static C) {m : OMode} {pre rest : List Level} {x : String} {o : Bool}
    (hfull : C.full = pre ++ (x, o) :: rest) (h : HMode C m pre) :
    HMode C (m.next o) (pre ++ [(x, o)]) := by
  cases m with
  | bkt n0 => exact h
  | app n =>
    obtain ⟨h1, h2⟩ := h
    cases o with
    | false =>
      show n = C.n0
      rw [n0_eq S hfull h2, h1]
    | true =>
      refine ⟨by simp [h1], ?_⟩
      intro p hp
      rcases List.mem_append.1 hp with hp | hp
      · exact h2 p hp
      · simp at hp; subst hp; rfl

/-- **the specification of the sub-nest over `rest`** -/
def NestSpec (ofRat : Rat → F) (C : Ctx F) (rest : List Level) : Prop :=
  ∀ (pre : List Level) (m : OMode) (val : String → Nat) (g : List Nat → F) (σ : State F) (fuel : Nat),
    C.full = pre ++ rest → HMode C m pre → St C pre val m.isBkt σ →
    (m.isBkt = true → ∀ J, Below J (outDims C.dimOf rest) →
      CellIs C σ (lin (linIdx C.dimOf val (outIdxs pre)) (outDims C.dimOf rest) J) (g J)) →
    (∀ J, Below J (outDims C.dimOf rest) →
      semOK (termF ofRat C.dimOf C.cellsOf C.e) (finF ofRat C.dimOf C.cellsOf C.e) C.dimOf
        m.isBkt rest val J (g J)) →
    fuelNeed C.dimOf m.isBkt rest ≤ fuel →
    ∃ σ', RunsI fuel (termSB ofRat C.outT C.e m rest).finalize σ σ' (iters C.dimOf m.isBkt rest) ∧
      Fr C (Wr C m.isBkt rest)
        (linIdx C.dimOf val (outIdxs pre) * prod (outDims C.dimOf rest))
        ((linIdx C.dimOf val (outIdxs pre) + 1) * prod (outDims C.dimOf rest)) σ σ' ∧
      ∀ J, Below J (outDims C.dimOf rest) →
        CellIs C σ' (lin (linIdx C.dimOf val (outIdxs pre)) (outDims C.dimOf rest) J)
          (sem (termF ofRat C.dimOf C.cellsOf C.e) C.dimOf m.isBkt rest val J (g J))

theorem below_nil {J : List Nat} (h : Below J []) : J = [] := by
  cases J with
  | nil => rfl
  | cons j J => simp [Below] at h

/-! ### the terminal -/

theorem nestSpec_nil (ofRat : Rat → F) {C : Ctx F} (S : Static C) : NestSpec ofRat C [] := by
  intro pre m val g σ fuel hfull hmode hst hcells hok _
  have hpre : pre = C.full := by rw [hfull]; simp
  subst hpre
  have hok0 := hok [] trivial
  simp only [outDims, List.filter_nil, List.map_nil, prod, Nat.mul_one, iters] at hcells ⊢
  cases m with
  | app n =>
    simp only [semOK, OMode.isBkt] at hok0
    obtain ⟨σ', r, hfr, hc⟩ := terminal_app_runs ofRat S hst fuel hok0.1 n
    refine ⟨σ', r, hfr.mono (fun _ h => h.elim) (Nat.le_refl _) (Nat.le_refl _), ?_⟩
    intro J hJ
    rw [below_nil hJ]
    simpa [lin, sem, OMode.isBkt] using hc
  | bkt n0 =>
    have hn : n0 = C.n0 := hmode
    subst hn
    simp only [semOK, OMode.isBkt] at hok0
    have hf := hok0.1
    have hwf := (hok0.2 trivial).1
    have hs := (hok0.2 trivial).2
    have hw := hcells rfl [] trivial
    simp only [lin] at hw
    obtain ⟨σ', r, hfr, hc⟩ := terminal_bkt_runs ofRat S hst fuel hw hf hwf hs
    refine ⟨σ', r, hfr.mono (fun _ h => h.elim) (Nat.le_refl _) (Nat.le_refl _), ?_⟩
    intro J hJ
    rw [below_nil hJ]
    simpa [lin, sem, OMode.isBkt] using hc

/-! ### helpers of the level cases -/

/-- `int x = 0;` -/
theorem declIdx_runs {C : Ctx F} (S : Static C) {pre rest : List Level} {x : String} {o : Bool}
    (hfull : C.full = pre ++ (x, o) :: rest) {val : String → Nat} {b : Bool} {σ : State F}
    (hst : St C pre val b σ) (fuel lo : Nat) :
    ∃ σ', RunsI fuel (declAssignE x .int (.intLit 0)) σ σ' 0 ∧ σ'.heap = σ.heap ∧
      St C pre val b σ' ∧ IntVar σ' x ((0 : Nat) : Int) ∧ Fr C (Wr C b ((x, o) :: rest)) lo lo σ σ' := by
  have hxf := x_mem_full S hfull
  have hWx : Wr C false C.full x := Or.inl hxf
  obtain ⟨σa, ra, hha, hta, ⟨r, hr1, hr2, hr3⟩, hoa⟩ :=
    Dense1.runsI_declAssign (fuel := fuel) (x := x) (t := .int) (e := .intLit 0) (val' := .int 0)
      (fun r hr => (hst.env.typed _ hWx r hr).trans (reqTy_idx S hxf))
      (evalE_intLit (σ := σ) (by omega) (by omega)) rfl
  have hfr : Fr C (Wr C b ((x, o) :: rest)) lo lo σ σa :=
    Fr.vars_only hha hta hst.env.ob (fun y hy => hoa y (fun e => hy (e ▸ Wr.head)))
      (tyOK_of_decl (σ := σ) ⟨r, hr1, by rw [hr2, reqTy_idx S hxf], hr3⟩ hoa)
  exact ⟨σa, ra, hha, hst.frame S hfull hfr (fun h => h), ⟨r, hr1, hr2, hr3⟩, hfr⟩

theorem out_findIdx {C : Ctx F} (S : Static C) {pre rest : List Level} {x : String}
    (hfull : C.full = pre ++ (x, true) :: rest) :
    C.outT.indexes.findIdx? (· == x) = some (outIdxs pre).length := by
  rw [S.outI, hfull, outIdxs_append]
  have hxp : x ∉ outIdxs pre := fun h => x_not_pre S hfull (mem_idxs_of_mem_outIdxs h)
  have hf1 : (outIdxs pre).findIdx? (· == x) = none := by
    rw [List.findIdx?_eq_none_iff]
    intro y hy
    exact beq_eq_false_iff_ne.2 (fun e => hxp (e ▸ hy))
  rw [List.findIdx?_append, hf1]
  simp [outIdxs, List.findIdx?_cons]

/-- the declarations in the loop body are the cursor declarations of the maintained tensors -/
theorem decls_eq {C : Ctx F} (S : Static C) {m : OMode} {pre rest : List Level} {x : String} {o : Bool}
    (hfull : C.full = pre ++ (x, o) :: rest) (hmode : HMode C m pre) :
    (outDecl C.outT x m o ++ leafDecls x (leaves C.e) : List (Stmt F)) =
      leafDecls x (C.ptrTs (m.next o).isBkt) := by
  cases m with
  | bkt n0 => cases o <;> simp [outDecl, OMode.next, OMode.isBkt, Ctx.ptrTs]
  | app n =>
    cases o with
    | false => simp [outDecl, OMode.next, OMode.isBkt, Ctx.ptrTs]
    | true =>
      obtain ⟨h1, h2⟩ := hmode
      have hn : n = (outIdxs pre).length := by rw [outIdxs_of_all h2, h1]; simp [idxs]
      simp only [outDecl, OMode.next, OMode.isBkt, Ctx.ptrTs, Ctx.ts, Bool.false_eq_true, if_false]
      rw [leafDecls_cons_some (out_findIdx S hfull), hn]
      rfl

theorem x_not_outIdxs {C : Ctx F} (S : Static C) {pre rest : List Level} {x : String} {o : Bool}
    (hfull : C.full = pre ++ (x, o) :: rest) : x ∉ outIdxs pre :=
  fun h => x_not_pre S hfull (mem_idxs_of_mem_outIdxs h)

/-! ### an output level -/

theorem nestSpec_out (ofRat : Rat → F) {C : Ctx F} (S : Static C) (x : String) (rest : List Level)
    (IH : NestSpec ofRat C rest) : NestSpec ofRat C ((x, true) :: rest) := by
  intro pre m val g σ fuel hfull hmode hst hcells hok hfuel
  have hxf := x_mem_full S hfull
  have hd31 := S.d31 x hxf
  have hfull' : C.full = (pre ++ [(x, true)]) ++ rest := by rw [hfull]; simp
  have hmode' := hmode.next S hfull
  have hbn : (m.next true).isBkt = m.isBkt := by rw [isBkt_next]; simp
  have hxo := x_not_outIdxs S hfull
  have hq' : ∀ j, linIdx C.dimOf (upd val x j) (outIdxs (pre ++ [(x, true)])) =
      linIdx C.dimOf val (outIdxs pre) * C.dimOf x + j := by
    intro j
    rw [outIdxs_append, outIdxs_cons_true]
    have : outIdxs ([] : List Level) = [] := rfl
    rw [this, linIdx_snoc, linIdx_upd j hxo, upd_same]
  simp only [outDims_cons_true, prod, fuelNeed, iters, Bool.not_true, Bool.and_false,
    Bool.false_eq_true, if_false, Nat.zero_add, Bool.or_false] at hcells hok hfuel ⊢
  generalize hqo : linIdx C.dimOf val (outIdxs pre) = qo at *
  generalize hds : outDims C.dimOf rest = ds at *
  generalize hd : C.dimOf x = d at *
  generalize hb : m.isBkt = b at *
  -- `int x = 0`
  obtain ⟨σa, ra, hha, hsta, hia, hfra⟩ := declIdx_runs S hfull hst fuel (qo * (d * prod ds))
  -- the loop
  let Inv : Nat → State F → Prop := fun j σ' =>
    St C pre val b σ' ∧ IntVar σ' x j ∧
    Fr C (Wr C b ((x, true) :: rest)) (qo * (d * prod ds)) (qo * (d * prod ds) + j * prod ds) σ σ' ∧
    ∀ j', j' < j → ∀ J', Below J' ds → CellIs C σ' (lin (qo * d + j') ds J')
      (sem (termF ofRat C.dimOf C.cellsOf C.e) C.dimOf b rest (upd val x j') J' (g (j' :: J')))
  have hInv0 : Inv 0 σa := ⟨hsta, hia, by simpa using hfra, fun j' h => by omega⟩
  have hloop := countLoopE_runs (i := x) (d := d) (bound := .var (dimName x)) (by omega)
    (leafDecls x (C.ptrTs b) ++
      [.branch (.boolLit true) (.block [(termSB ofRat C.outT C.e (m.next true) rest).finalize] none)
         (.block [] none), increment (.var x) (.intLit 1)])
    Inv (fuelNeed C.dimOf b rest) (iters C.dimOf b rest)
    (fun j σ' h => ⟨h.2.1, by
      have := h.1.env.dimVars x hxf
      rw [hd] at this
      exact evalE_var_int this (by omega) (by omega)⟩)
    (by
      intro j σ1 fuel1 hj hinv hfuel1
      obtain ⟨hst1, hi1, hfr1, hc1⟩ := hinv
      have hlo := DenseN.lin_lo qo d j (prod ds)
      have hhi := DenseN.lin_hi qo d j (prod ds)
      have hle : (qo * d + j) * prod ds ≤ (qo * d + j + 1) * prod ds :=
        Nat.mul_le_mul_right _ (Nat.le_succ _)
      obtain ⟨σ4, r4, hst4, hi4, hfr4, hQ4⟩ := body_runs S hfull fuel1 (b' := b) (j := j)
        (by rw [hd]; exact hj) (termSB ofRat C.outT C.e (m.next true) rest).finalize
        (iters C.dimOf b rest) ((qo * d + j) * prod ds) ((qo * d + j + 1) * prod ds) hle
        (fun σ3 => ∀ J', Below J' ds → CellIs C σ3 (lin (qo * d + j) ds J')
          (sem (termF ofRat C.dimOf C.cellsOf C.e) C.dimOf b rest (upd val x j) J' (g (j :: J'))))
        (fun σ3 σ4 hh h J' hJ' => (h J' hJ').congr hh) hst1 hi1
        (by
          intro σ2 hh2 hst2
          have hIH := IH (pre ++ [(x, true)]) (m.next true) (upd val x j) (fun J' => g (j :: J')) σ2 fuel1
            hfull' hmode' (by rw [hbn]; exact hst2)
            (by
              intro hbt J' hJ'
              rw [hds] at hJ'
              rw [hq' j, hds]
              rw [hbn] at hbt
              apply CellIs.congr _ hh2
              have hcσ := hcells hbt (j :: J') ⟨hj, hJ'⟩
              simp only [lin] at hcσ
              refine hfr1.cell (Or.inr ?_) hcσ
              have := (DenseN.lin_bounds ds J' (qo * d + j) hJ').1
              omega)
            (by
              intro J' hJ'
              rw [hds] at hJ'
              rw [hbn]
              have := hok (j :: J') ⟨hj, hJ'⟩
              simpa [semOK] using this)
            (by rw [hbn]; exact hfuel1)
          rw [hq' j, hds, hbn] at hIH
          exact hIH)
      refine ⟨σ4, ?_, hst4, hi4, ?_, ?_⟩
      · exact r4
      · have := hfr1.trans hfr4 (fun _ h => h) (fun _ h => h) (Nat.le_refl _)
          (show qo * (d * prod ds) + j * prod ds ≤ qo * (d * prod ds) + (j + 1) * prod ds by
            have : j * prod ds ≤ (j + 1) * prod ds := Nat.mul_le_mul_right _ (Nat.le_succ _)
            omega) (by omega) (by omega)
        exact this
      · intro j' hj' J' hJ'
        by_cases hjj : j' = j
        · subst hjj; exact hQ4 J' hJ'
        · have hb2 := (DenseN.lin_bounds ds J' (qo * d + j') hJ').2
          have hmono : (qo * d + j' + 1) * prod ds ≤ (qo * d + j) * prod ds :=
            Nat.mul_le_mul_right _ (by omega)
          exact hfr4.cell (Or.inl (by omega)) (hc1 j' (by omega) J' hJ'))
    d 0 σa fuel (by omega) hInv0 (by omega)
  obtain ⟨σ', rl, _, _, hfr', hc'⟩ := hloop
  rw [DenseN.lin_end] at hfr'
  refine ⟨σ', ?_, hfr', ?_⟩
  · have hr := Dense1.RunsI.block (c := some ("*** Iteration over " ++ x ++ " ***"))
      (Dense1.RunsLI.cons ra (Dense1.RunsLI.cons rl (Dense1.RunsLI.nil _ _)))
    have hinit : (initDecl C.outT m true : List (Stmt F)) = [] := by cases m <;> rfl
    have hdecl := decls_eq S hfull hmode
    rw [hbn] at hdecl
    rw [← hdecl] at hr
    simpa [termSB, SB.finalize, hinit, hb] using hr
  · intro J hJ
    cases J with
    | nil => simp [Below] at hJ
    | cons j' J' =>
      obtain ⟨hj', hJ'⟩ := hJ
      simpa [lin, sem] using hc' j' hj' J' hJ'

/-! ### a contraction level -/

theorem Wr.of_true {C : Ctx F} {b : Bool} {rest : List Level} {y : String} (h : Wr C true rest y) :
    Wr C b rest y := by
  rcases h with h | h | ⟨h, _⟩
  · exact Or.inl h
  · exact Or.inr (Or.inl h)
  · cases h

theorem nestSpec_contr (ofRat : Rat → F) {C : Ctx F} (S : Static C) (x : String) (rest : List Level)
    (IH : NestSpec ofRat C rest) : NestSpec ofRat C ((x, false) :: rest) := by
  intro pre m val g σ fuel hfull hmode hst hcells hok hfuel
  have hxf := x_mem_full S hfull
  have hd31 := S.d31 x hxf
  have hfull' : C.full = (pre ++ [(x, false)]) ++ rest := by rw [hfull]; simp
  have hmode' := hmode.next S hfull
  have hbn : (m.next false).isBkt = true := by rw [isBkt_next]; simp
  have hxo := x_not_outIdxs S hfull
  have hq' : ∀ k, linIdx C.dimOf (upd val x k) (outIdxs (pre ++ [(x, false)])) =
      linIdx C.dimOf val (outIdxs pre) := by
    intro k
    rw [outIdxs_append, outIdxs_cons_false]
    have : outIdxs ([] : List Level) = [] := rfl
    rw [this, List.append_nil, linIdx_upd k hxo]
  simp only [outDims_cons_false, fuelNeed, iters, Bool.not_false, Bool.and_true, Bool.or_true]
    at hcells hok hfuel ⊢
  generalize hqo : linIdx C.dimOf val (outIdxs pre) = qo at *
  generalize hds : outDims C.dimOf rest = ds at *
  generalize hd : C.dimOf x = d at *
  -- the bucket initialisation (append mode) or nothing (bucket mode)
  have hinit : ∃ σi ki, RunsLI fuel (initDecl C.outT m false) σ σi ki ∧
      ki = (if !m.isBkt then prod ds else 0) ∧ St C pre val true σi ∧
      Fr C (Wr C m.isBkt ((x, false) :: rest)) (qo * prod ds) ((qo + 1) * prod ds) σ σi ∧
      ∀ J, Below J ds → CellIs C σi (lin qo ds J) (if m.isBkt then g J else FloatOps.ofInt 0) := by
    cases m with
    | bkt n0 =>
      refine ⟨σ, 0, Dense1.RunsLI.nil _ _, rfl, hst, ?_, fun J hJ => hcells rfl J hJ⟩
      exact (Fr.vars_only rfl rfl hst.env.ob (fun _ _ => rfl) (fun _ h => h)).mono (fun _ h => h)
        (Nat.le_refl _) (Nat.mul_le_mul_right _ (Nat.le_succ _))
    | app n =>
      obtain ⟨h1, h2⟩ := hmode
      have hn : n = C.n0 := by rw [n0_eq S hfull h2, h1]
      subst hn
      simp only [OMode.isBkt, Bool.not_false, if_true, Bool.false_eq_true, if_false] at hfuel ⊢
      obtain ⟨σi, ri, hsti, hfri, hci⟩ := bucketInit_runs S hfull h2 hst fuel
        (by rw [hds]; omega)
      rw [hqo, hds] at hfri hci
      rw [hds] at ri
      refine ⟨σi, prod ds, ?_, rfl, hsti, hfri.mono (fun y hy => Or.inr (Or.inr ⟨rfl, hy⟩))
        (Nat.le_refl _) (Nat.le_refl _), ?_⟩
      · have := Dense1.RunsLI.cons ri (Dense1.RunsLI.nil _ _)
        simpa [initDecl] using this
      · intro J hJ
        obtain ⟨b1, b2⟩ := DenseN.lin_bounds ds J qo hJ
        exact hci _ b1 b2
  obtain ⟨σi, ki, ri, hki, hsti, hfri, hci⟩ := hinit
  generalize hb : m.isBkt = b at *
  generalize hg0 : (fun J => if b = true then g J else (FloatOps.ofInt 0 : F)) = g0 at *
  have hci' : ∀ J, Below J ds → CellIs C σi (lin qo ds J) (g0 J) := by
    intro J hJ; rw [← hg0]; exact hci J hJ
  have hok' : ∀ J, Below J ds → ∀ k, k < d →
      semOK (termF ofRat C.dimOf C.cellsOf C.e) (finF ofRat C.dimOf C.cellsOf C.e) C.dimOf true rest
        (upd val x k) J
        (iterF (fun k f => sem (termF ofRat C.dimOf C.cellsOf C.e) C.dimOf true rest (upd val x k) J f)
          k (g0 J)) := by
    intro J hJ k hk
    have := hok J hJ
    simp only [semOK] at this
    rw [← hg0]
    exact this k (by rw [hd]; exact hk)
  -- `int x = 0`
  obtain ⟨σa, ra, hha, hsta, hia, hfra⟩ := declIdx_runs S hfull hsti fuel (qo * prod ds)
  have hle : qo * prod ds ≤ (qo + 1) * prod ds := Nat.mul_le_mul_right _ (Nat.le_succ _)
  -- the loop
  let Inv : Nat → State F → Prop := fun k σ' =>
    St C pre val true σ' ∧ IntVar σ' x k ∧
    Fr C (Wr C true ((x, false) :: rest)) (qo * prod ds) ((qo + 1) * prod ds) σi σ' ∧
    ∀ J, Below J ds → CellIs C σ' (lin qo ds J)
      (iterF (fun k f => sem (termF ofRat C.dimOf C.cellsOf C.e) C.dimOf true rest (upd val x k) J f)
        k (g0 J))
  have hInv0 : Inv 0 σa := ⟨hsta, hia, hfra.mono (fun _ h => h) (Nat.le_refl _) hle,
    fun J hJ => (hci' J hJ).congr hha⟩
  have hloop := countLoopE_runs (i := x) (d := d) (bound := .var (dimName x)) (by omega)
    (leafDecls x (C.ptrTs true) ++
      [.branch (.boolLit true) (.block [(termSB ofRat C.outT C.e (m.next false) rest).finalize] none)
         (.block [] none), increment (.var x) (.intLit 1)])
    Inv (fuelNeed C.dimOf true rest) (iters C.dimOf true rest)
    (fun j σ' h => ⟨h.2.1, by
      have := h.1.env.dimVars x hxf
      rw [hd] at this
      exact evalE_var_int this (by omega) (by omega)⟩)
    (by
      intro k σ1 fuel1 hk hinv hfuel1
      obtain ⟨hst1, hi1, hfr1, hc1⟩ := hinv
      obtain ⟨σ4, r4, hst4, hi4, hfr4, hQ4⟩ := body_runs S hfull fuel1 (b' := true) (j := k)
        (by rw [hd]; exact hk) (termSB ofRat C.outT C.e (m.next false) rest).finalize
        (iters C.dimOf true rest) (qo * prod ds) ((qo + 1) * prod ds) hle
        (fun σ3 => ∀ J, Below J ds → CellIs C σ3 (lin qo ds J)
          (iterF (fun k f => sem (termF ofRat C.dimOf C.cellsOf C.e) C.dimOf true rest (upd val x k) J f)
            (k + 1) (g0 J)))
        (fun σ3 σ4 hh h J hJ => (h J hJ).congr hh) hst1 hi1
        (by
          intro σ2 hh2 hst2
          have hIH := IH (pre ++ [(x, false)]) (m.next false) (upd val x k)
            (fun J => iterF (fun k f =>
              sem (termF ofRat C.dimOf C.cellsOf C.e) C.dimOf true rest (upd val x k) J f) k (g0 J))
            σ2 fuel1 hfull' hmode' (by rw [hbn]; exact hst2)
            (by
              intro _ J hJ
              rw [hds] at hJ
              rw [hq' k, hds]
              exact (hc1 J hJ).congr hh2)
            (by
              intro J hJ
              rw [hds] at hJ
              rw [hbn]
              exact hok' J hJ k hk)
            (by rw [hbn]; exact hfuel1)
          rw [hq' k, hds, hbn] at hIH
          exact hIH)
      exact ⟨σ4, r4, hst4, hi4, hfr1.trans hfr4 (fun _ h => h) (fun _ h => h) (Nat.le_refl _)
        (Nat.le_refl _) (Nat.le_refl _) (Nat.le_refl _), hQ4⟩)
    d 0 σa fuel (by omega) hInv0 (by
      rw [← hb] at hfuel
      cases hm : m.isBkt <;> simp [hm] at hfuel <;> omega)
  obtain ⟨σ', rl, _, _, hfr', hc'⟩ := hloop
  refine ⟨σ', ?_, ?_, ?_⟩
  · have hr := Dense1.RunsI.block (c := some ("*** Iteration over " ++ x ++ " ***"))
      (Dense1.RunsLI.append ri (Dense1.RunsLI.cons ra (Dense1.RunsLI.cons rl (Dense1.RunsLI.nil _ _))))
    have hdecl := decls_eq S hfull hmode
    rw [hbn] at hdecl
    rw [← hdecl] at hr
    rw [hki] at hr
    have hiters : (if (!b) = true then prod ds else 0) + (0 + (d * (iters C.dimOf true rest + 1) + 0)) =
        (if (!b) = true then prod ds else 0) + d * (iters C.dimOf true rest + 1) := by omega
    rw [hiters] at hr
    simpa [termSB, SB.finalize] using hr
  · exact (hfri.trans (hfr'.mono (fun _ h => Wr.of_true h) (Nat.le_refl _) (Nat.le_refl _))
      (fun _ h => h) (fun _ h => h) (Nat.le_refl _) (Nat.le_refl _) (Nat.le_refl _) (Nat.le_refl _))
  · intro J hJ
    have := hc' J hJ
    rw [← hg0] at this
    simpa [sem, hd] using this

/-! ### the nest -/

/-- **T2, generalised.** Every sub-nest satisfies its specification. -/
theorem nestSpec_all (ofRat : Rat → F) {C : Ctx F} (S : Static C) : ∀ rest, NestSpec ofRat C rest := by
  intro rest
  induction rest with
  | nil => exact nestSpec_nil ofRat S
  | cons p rest ih =>
    obtain ⟨x, o⟩ := p
    cases o with
    | true => exact nestSpec_out ofRat S x rest ih
    | false => exact nestSpec_contr ofRat S x rest ih

end TV.DenseTerm
