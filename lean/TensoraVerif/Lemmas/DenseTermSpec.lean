import TensoraVerif.Lemmas.DenseTermArith
import TensoraVerif.Lemmas.Dense2Names

/-!
C01 for all dense single-term contractions, part 4: the specification vocabulary of the Hoare
theorem — the fixed data of a kernel (`Ctx`), its static side conditions (`Static`), the variables a
sub-nest writes (`Wr`), the frame relation (`Fr`), the content of an output cell (`CellIs`), the
environment (`Env`) and the loop invariant on cursors (`St`).
-/
namespace TV.DenseTerm
open TV.IR TV.Gen TV.Graph TV.Growth
open TV.ToIr (PtrAt)
open TV.Dense1 (leaves valueF allFinite RunsI RunsLI)
open TV.DenseN (prod lin Fits Below)
set_option linter.unusedSectionVars false
set_option linter.unusedSimpArgs false
set_option linter.unusedVariables false
variable {F : Type} [FloatOps F]

/-- the fixed data of one kernel: the levels, the dimension of every index, the output tensor, the
terminal expression, the output block, and for every input its block and its cells -/
structure Ctx (F : Type) where
  full : List Level
  dimOf : String → Nat
  outT : TensorId
  e : IdExpr
  ob : Nat
  blkOf : String → Nat
  cellsOf : String → Nat → F

namespace Ctx
/-- the tensors that get cursors -/
def ts (C : Ctx F) : List TensorId := C.outT :: leaves C.e
/-- the layer at which the bucket is opened -/
def n0 (C : Ctx F) : Nat := firstC C.full
/-- the bucket pointer variable -/
def bn (C : Ctx F) : String := bucketName C.outT (bucketLayers C.outT C.n0)
/-- the index variable of the bucket-initialisation loop -/
def bl (C : Ctx F) : String := bucketLoopName C.outT (bucketLayers C.outT C.n0)
/-- the declared type of a scratch variable -/
def reqTy (C : Ctx F) (y : String) : Ty := if y = C.bn then .ptr .float else .int
/-- the number of output cells -/
def N (C : Ctx F) : Nat := prod (outDims C.dimOf C.full)
/-- the tensors whose cursors are maintained (`b`: bucket mode) -/
def ptrTs (C : Ctx F) (b : Bool) : List TensorId := if b then leaves C.e else C.ts
/-- the linearised coordinates of the output layers above the bucket -/
def qb (C : Ctx F) (val : String → Nat) : Nat := linIdx C.dimOf val (C.outT.indexes.take C.n0)
/-- the number of cells of the bucket -/
def Pb (C : Ctx F) : Nat := prod ((C.outT.indexes.drop C.n0).map C.dimOf)
end Ctx

theorem Ctx.ptrTs_sub (C : Ctx F) (b : Bool) : ∀ t ∈ C.ptrTs b, t ∈ C.ts := by
  intro t ht
  cases b
  · exact ht
  · exact List.mem_cons_of_mem _ ht

theorem Ctx.leaves_sub (C : Ctx F) (b : Bool) : ∀ t ∈ leaves C.e, t ∈ C.ptrTs b := by
  intro t ht
  cases b
  · exact List.mem_cons_of_mem _ ht
  · exact ht

/-- **static side conditions**: the class; distinct underscore-free index names; underscore-free
tensor names; an output id containing `'_'` (ids are `<occurrence number>_<name>`); tensors sharing
an id share the access pattern; every prefix product of every tensor's dimensions, and every
dimension, is below `2^31` -/
structure Static (C : Ctx F) : Prop where
  out : isOut C.full C.outT = true
  expr : isExpr (idxs C.full) C.e = true
  nodup : (idxs C.full).Nodup
  us : ∀ x ∈ idxs C.full, '_' ∉ x.toList
  names : ∀ t ∈ C.ts, '_' ∉ t.name.toList
  oid : '_' ∈ C.outT.id.toList
  ids : idsOK C.ts = true
  fits : ∀ t ∈ C.ts, Fits 1 (t.indexes.map C.dimOf)
  d31 : ∀ x ∈ idxs C.full, C.dimOf x < 2147483648

theorem Static.outI {C : Ctx F} (S : Static C) : C.outT.indexes = outIdxs C.full :=
  ((isOut_iff _ _).1 S.out).1
theorem Static.outM {C : Ctx F} (S : Static C) : C.outT.modes.all (· == Mode.dense) = true :=
  ((isOut_iff _ _).1 S.out).2.1
theorem Static.outL {C : Ctx F} (S : Static C) : C.outT.modes.length = C.outT.indexes.length :=
  ((isOut_iff _ _).1 S.out).2.2

theorem Static.leaf {C : Ctx F} (S : Static C) {t : TensorId} (ht : t ∈ C.ts) :
    isLeaf (idxs C.full) t = true := by
  rcases List.mem_cons.1 ht with rfl | ht
  · exact isLeaf_of_isOut S.out
  · exact isExpr_mem S.expr t ht

theorem Static.sub {C : Ctx F} (S : Static C) {t : TensorId} (ht : t ∈ C.ts) :
    t.indexes.Sublist (idxs C.full) := ((isLeaf_iff _ t).1 (S.leaf ht)).1

theorem Static.same {C : Ctx F} (S : Static C) {t t' : TensorId} (ht : t ∈ C.ts) (ht' : t' ∈ C.ts)
    (h : t.id = t'.id) : t.indexes = t'.indexes := by
  have := List.all_eq_true.1 (List.all_eq_true.1 S.ids t ht) t' ht'
  simpa [h] using this

theorem Static.tnodup {C : Ctx F} (S : Static C) {t : TensorId} (ht : t ∈ C.ts) : t.indexes.Nodup :=
  (S.sub ht).nodup S.nodup

/-! ### names -/

theorem count_bucketName (t : TensorId) (ls : List Nat) :
    1 + t.id.toList.count '_' ≤ (bucketName t ls).toList.count '_' := by
  simp only [bucketName, String.toList_append, List.count_append]
  have : ("bucket_" : String).toList.count '_' = 1 := by decide
  omega

theorem count_bucketLoopName (t : TensorId) (ls : List Nat) :
    2 ≤ (bucketLoopName t ls).toList.count '_' := by
  simp only [bucketLoopName, String.toList_append, List.count_append]
  have : ("i_bucket_" : String).toList.count '_' = 2 := by decide
  omega

theorem head?_bucketName (t : TensorId) (ls : List Nat) : (bucketName t ls).toList.head? = some 'b' := by
  simp [bucketName, String.toList_append]
theorem head?_bucketLoopName (t : TensorId) (ls : List Nat) :
    (bucketLoopName t ls).toList.head? = some 'i' := by
  simp [bucketLoopName, String.toList_append]
theorem mem_us_bucketName (t : TensorId) (ls : List Nat) : '_' ∈ (bucketName t ls).toList := by
  simp [bucketName, String.toList_append]
theorem mem_us_bucketLoopName (t : TensorId) (ls : List Nat) : '_' ∈ (bucketLoopName t ls).toList := by
  simp [bucketLoopName, String.toList_append]

theorem bn_ne_bl (C : Ctx F) : C.bn ≠ C.bl :=
  ToIr.ne_of_head?_ne (by rw [Ctx.bn, Ctx.bl, head?_bucketName, head?_bucketLoopName]; decide)

theorem lp_ne_bn (C : Ctx F) (ref : String) (k : Nat) : layerPointer ref k ≠ C.bn :=
  ToIr.ne_of_head?_ne (by rw [Ctx.bn, head?_bucketName, Dense2.head?_lp]; decide)

theorem lp_ne_bl (C : Ctx F) (ref : String) (k : Nat) : layerPointer ref k ≠ C.bl :=
  ToIr.ne_of_head?_ne (by rw [Ctx.bl, head?_bucketLoopName, Dense2.head?_lp]; decide)

/-- a name with exactly one `'_'` whose last character is not a digit (`<i>_dim`, `<t>_vals`) -/
def ReadName (y : String) : Prop :=
  y.toList.count '_' = 1 ∧ ∃ c, y.toList.getLast? = some c ∧ c.isDigit = false

theorem readName_dim {x : String} (h : '_' ∉ x.toList) : ReadName (dimName x) :=
  ⟨Dense2.count_dimName h, 'm', Dense1.getLast?_dimName x, by decide⟩

theorem readName_vals {x : String} (h : '_' ∉ x.toList) : ReadName (valsName x) :=
  ⟨Dense2.count_valsName h, 's', Dense1.getLast?_valsName x, by decide⟩

/-! ### the variables a sub-nest writes -/

/-- the variables written by the sub-nest over `rest` (`b`: already in bucket mode): its index
variables, the cursors of the layers they address, and — if the bucket is still to be opened — the
bucket pointer and its loop index -/
def Wr (C : Ctx F) (b : Bool) (rest : List Level) (y : String) : Prop :=
  y ∈ idxs rest ∨
  (∃ t ∈ C.ts, ∃ k a, t.indexes[k]? = some a ∧ a ∈ idxs rest ∧ y = layerPointer t.id k) ∨
  (b = false ∧ (y = C.bn ∨ y = C.bl))

theorem Wr.cons {C : Ctx F} {b b' : Bool} {rest : List Level} {y : String} (p : Level)
    (h : Wr C b' rest y) (hb : b' = false → b = false) : Wr C b (p :: rest) y := by
  rcases h with h | ⟨t, ht, k, a, h1, h2, h3⟩ | ⟨h1, h2⟩
  · exact Or.inl (List.mem_cons_of_mem _ h)
  · exact Or.inr (Or.inl ⟨t, ht, k, a, h1, List.mem_cons_of_mem _ h2, h3⟩)
  · exact Or.inr (Or.inr ⟨hb h1, h2⟩)

theorem Wr.head {C : Ctx F} {b : Bool} {x : String} {o : Bool} {rest : List Level} :
    Wr C b ((x, o) :: rest) x := Or.inl (by simp [idxs])

theorem Wr.ptr {C : Ctx F} {b : Bool} {x : String} {o : Bool} {rest : List Level} {t : TensorId}
    {k : Nat} (ht : t ∈ C.ts) (hk : t.indexes[k]? = some x) :
    Wr C b ((x, o) :: rest) (layerPointer t.id k) :=
  Or.inr (Or.inl ⟨t, ht, k, x, hk, by simp [idxs], rfl⟩)

theorem Wr.us {C : Ctx F} (S : Static C) {b : Bool} {pre rest : List Level} {y : String}
    (hfull : C.full = pre ++ rest) (h : Wr C b rest y) (hy : '_' ∈ y.toList) : y ∉ idxs rest := by
  intro hm
  exact S.us y (by rw [hfull, idxs_append]; exact List.mem_append_right _ hm) hy

section names
variable {C : Ctx F} (S : Static C) {pre rest : List Level} (hfull : C.full = pre ++ rest)
include S hfull

theorem mem_full_of_pre {y : String} (h : y ∈ idxs pre) : y ∈ idxs C.full := by
  rw [hfull, idxs_append]; exact List.mem_append_left _ h
theorem mem_full_of_rest {y : String} (h : y ∈ idxs rest) : y ∈ idxs C.full := by
  rw [hfull, idxs_append]; exact List.mem_append_right _ h

theorem pre_rest_disj {y : String} (h1 : y ∈ idxs pre) (h2 : y ∈ idxs rest) : False := by
  have := S.nodup
  rw [hfull, idxs_append] at this
  exact (List.nodup_append.1 this).2.2 y h1 y h2 rfl

/-- an index variable of an outer level is not written -/
theorem notWr_idx {b : Bool} {y : String} (hy : y ∈ idxs pre) : ¬ Wr C b rest y := by
  have hus := S.us y (mem_full_of_pre S hfull hy)
  rintro (h | ⟨t, _, k, a, _, _, rfl⟩ | ⟨_, rfl | rfl⟩)
  · exact pre_rest_disj S hfull hy h
  · exact hus (Dense2.mem_us_lp t.id k)
  · exact hus (mem_us_bucketName _ _)
  · exact hus (mem_us_bucketLoopName _ _)

/-- a cursor whose layers are all bound by outer levels is not written -/
theorem notWr_ptr {b : Bool} {t : TensorId} (ht : t ∈ C.ts) {k : Nat} (hk : k < t.indexes.length)
    (hp : ∀ a ∈ t.indexes.take (k + 1), a ∈ idxs pre) : ¬ Wr C b rest (layerPointer t.id k) := by
  rintro (h | ⟨t', ht', k', a, h1, h2, h3⟩ | ⟨_, h | h⟩)
  · exact S.us _ (mem_full_of_rest S hfull h) (Dense2.mem_us_lp t.id k)
  · obtain ⟨e1, e2⟩ := Merge.layerPointer_inj h3
    subst e2
    rw [← S.same ht ht' e1] at h1
    have ha : a ∈ t.indexes.take (k + 1) := by
      rw [List.mem_take_iff_getElem]
      refine ⟨k, by omega, ?_⟩
      have := List.getElem?_eq_some_iff.1 h1
      obtain ⟨h, e⟩ := this
      exact e
    exact pre_rest_disj S hfull (hp a ha) h2
  · exact lp_ne_bn C _ _ h
  · exact lp_ne_bl C _ _ h

/-- in bucket mode the bucket pointer is not written -/
theorem notWr_bn : ¬ Wr C true rest C.bn := by
  rintro (h | ⟨t, _, k, a, _, _, h⟩ | ⟨h, _⟩)
  · exact S.us _ (mem_full_of_rest S hfull h) (mem_us_bucketName _ _)
  · exact lp_ne_bn C _ _ h.symm
  · cases h

/-- the read-only names are never written -/
theorem notWr_read {b : Bool} {y : String} (hy : ReadName y) : ¬ Wr C b rest y := by
  obtain ⟨hc, c, hl, hd⟩ := hy
  have hus : '_' ∈ y.toList := List.count_pos_iff.1 (by omega)
  rintro (h | ⟨t, _, k, a, _, _, rfl⟩ | ⟨_, rfl | rfl⟩)
  · exact S.us _ (mem_full_of_rest S hfull h) hus
  · obtain ⟨ch, h1, h2⟩ := layerPointer_getLast? t.id k
    rw [h1] at hl; cases hl
    rw [h2] at hd; cases hd
  · have := count_bucketName C.outT (bucketLayers C.outT C.n0)
    have h2 : 1 ≤ C.outT.id.toList.count '_' := List.count_pos_iff.2 S.oid
    unfold Ctx.bn at hc
    omega
  · have := count_bucketLoopName C.outT (bucketLayers C.outT C.n0)
    unfold Ctx.bl at hc
    omega

theorem notWr_dim {b : Bool} {a : String} (ha : a ∈ idxs C.full) : ¬ Wr C b rest (dimName a) :=
  notWr_read S hfull (readName_dim (S.us a ha))

theorem notWr_vals {b : Bool} {t : TensorId} (ht : t ∈ C.ts) : ¬ Wr C b rest (valsName t.name) :=
  notWr_read S hfull (readName_vals (S.names t ht))

end names

/-! ### frames -/

/-- `y` is undeclared or declared with the type the nest declares it with -/
def TyOK (C : Ctx F) (σ : State F) (y : String) : Prop :=
  ∀ r, lookupVar σ.vars y = some r → r.ty = C.reqTy y

/-- from `σ` to `σ'`: only variables of `W` and the cells `lo ≤ c < hi` of the output block change;
the heap does not grow; declared types are respected -/
structure Fr (C : Ctx F) (W : String → Prop) (lo hi : Nat) (σ σ' : State F) : Prop where
  tensors : σ'.tensors = σ.tensors
  heapLen : σ'.heap.length = σ.heap.length
  heap : ∀ b, b ≠ C.ob → σ'.heap[b]? = σ.heap[b]?
  outBlk : ∃ blk blk', σ.heap[C.ob]? = some blk ∧ σ'.heap[C.ob]? = some blk' ∧
    blk'.live = blk.live ∧ blk'.owner = blk.owner ∧ blk'.ty = blk.ty ∧
    blk'.cells.length = blk.cells.length ∧
    (∀ c, (c < lo ∨ hi ≤ c) → blk'.cells[c]? = blk.cells[c]?)
  vars : ∀ y, ¬ W y → lookupVar σ'.vars y = lookupVar σ.vars y
  tyOK : ∀ y, TyOK C σ y → TyOK C σ' y

/-- a step that only touches variables of `W` -/
theorem Fr.vars_only {C : Ctx F} {W : String → Prop} {lo : Nat} {σ σ' : State F}
    (hh : σ'.heap = σ.heap) (ht : σ'.tensors = σ.tensors) (hob : ∃ blk, σ.heap[C.ob]? = some blk)
    (hv : ∀ y, ¬ W y → lookupVar σ'.vars y = lookupVar σ.vars y)
    (hty : ∀ y, TyOK C σ y → TyOK C σ' y) : Fr C W lo lo σ σ' := by
  obtain ⟨blk, hb⟩ := hob
  exact ⟨ht, by rw [hh], fun b _ => by rw [hh],
    ⟨blk, blk, hb, by rw [hh]; exact hb, rfl, rfl, rfl, rfl, fun _ _ => rfl⟩, hv, hty⟩

theorem Fr.trans {C : Ctx F} {W1 W2 W : String → Prop} {lo1 hi1 lo2 hi2 lo hi : Nat}
    {σ σ1 σ2 : State F} (h1 : Fr C W1 lo1 hi1 σ σ1) (h2 : Fr C W2 lo2 hi2 σ1 σ2)
    (hs1 : ∀ y, W1 y → W y) (hs2 : ∀ y, W2 y → W y)
    (hl1 : lo ≤ lo1) (hh1 : hi1 ≤ hi) (hl2 : lo ≤ lo2) (hh2 : hi2 ≤ hi) : Fr C W lo hi σ σ2 := by
  refine ⟨h2.tensors.trans h1.tensors, h2.heapLen.trans h1.heapLen,
    fun b hb => (h2.heap b hb).trans (h1.heap b hb), ?_, ?_, fun y hy => h2.tyOK y (h1.tyOK y hy)⟩
  · obtain ⟨blk, blk1, hb, hb1, l1, o1, t1, n1, u1⟩ := h1.outBlk
    obtain ⟨blk1', blk2, hb1', hb2, l2, o2, t2, n2, u2⟩ := h2.outBlk
    rw [hb1] at hb1'; cases hb1'
    refine ⟨blk, blk2, hb, hb2, l2.trans l1, o2.trans o1, t2.trans t1, n2.trans n1, ?_⟩
    intro c hc
    rw [u2 c (by omega), u1 c (by omega)]
  · intro y hy
    rw [h2.vars y (fun h => hy (hs2 y h)), h1.vars y (fun h => hy (hs1 y h))]

theorem Fr.mono {C : Ctx F} {W W' : String → Prop} {lo hi lo' hi' : Nat} {σ σ' : State F}
    (h : Fr C W lo hi σ σ') (hs : ∀ y, W y → W' y) (hl : lo' ≤ lo) (hh : hi ≤ hi') :
    Fr C W' lo' hi' σ σ' := by
  refine ⟨h.tensors, h.heapLen, h.heap, ?_, fun y hy => h.vars y (fun h' => hy (hs y h')), h.tyOK⟩
  obtain ⟨blk, blk', hb, hb', l, o, t, n, u⟩ := h.outBlk
  exact ⟨blk, blk', hb, hb', l, o, t, n, fun c hc => u c (by omega)⟩

/-- cell `c` of the output block holds the float `f` -/
def CellIs (C : Ctx F) (σ : State F) (c : Nat) (f : F) : Prop :=
  ∃ blk, σ.heap[C.ob]? = some blk ∧ blk.cells[c]? = some (some (.flt f))

theorem CellIs.congr {C : Ctx F} {σ σ' : State F} {c : Nat} {f : F} (h : CellIs C σ c f)
    (hh : σ'.heap = σ.heap) : CellIs C σ' c f := by
  obtain ⟨blk, h1, h2⟩ := h; exact ⟨blk, by rw [hh]; exact h1, h2⟩

theorem Fr.cell {C : Ctx F} {W : String → Prop} {lo hi : Nat} {σ σ' : State F} (h : Fr C W lo hi σ σ')
    {c : Nat} {f : F} (hc : c < lo ∨ hi ≤ c) (hf : CellIs C σ c f) : CellIs C σ' c f := by
  obtain ⟨blk, blk', hb, hb', _, _, _, _, u⟩ := h.outBlk
  obtain ⟨blk0, h1, h2⟩ := hf
  rw [hb] at h1; cases h1
  exact ⟨blk', hb', by rw [u c hc]; exact h2⟩

/-! ### the environment -/

/-- **What every level relies on.** `<x>_dim` holds `dimOf x`; `<out>_vals` points to block `ob`, a
live output-owned float block with at least `N` cells; for every tensor occurrence `t` of `e`,
`<t>_vals` points to a live float block `blkOf t.name ≠ ob` whose first `Π dims(t)` cells are
initialised with the floats `cellsOf t.name` (row-major); the scratch variables are undeclared or
declared with the type the nest declares them with. -/
structure Env (C : Ctx F) (σ : State F) : Prop where
  dimVars : ∀ x ∈ idxs C.full, IntVar σ (dimName x) (C.dimOf x)
  out : PtrVar σ (valsName C.outT.name) C.ob
  outBlk : ∃ blk, σ.heap[C.ob]? = some blk ∧ blk.live = true ∧ blk.owner = .output ∧
    blk.ty = .float ∧ C.N ≤ blk.cells.length
  ins : ∀ t ∈ leaves C.e, PtrVar σ (valsName t.name) (C.blkOf t.name) ∧ C.blkOf t.name ≠ C.ob ∧
    ∃ blk, σ.heap[C.blkOf t.name]? = some blk ∧ blk.live = true ∧ blk.ty = .float ∧
      ∀ c, c < prod (t.indexes.map C.dimOf) → blk.cells[c]? = some (some (.flt (C.cellsOf t.name c)))
  typed : ∀ y, Wr C false C.full y → TyOK C σ y

theorem Env.frame {C : Ctx F} {σ σ' : State F} {W : String → Prop} {lo hi : Nat}
    (henv : Env C σ) (hf : Fr C W lo hi σ σ')
    (hd : ∀ a ∈ idxs C.full, ¬ W (dimName a)) (hv : ∀ t ∈ C.ts, ¬ W (valsName t.name)) :
    Env C σ' := by
  refine ⟨fun x hx => (henv.dimVars x hx).congr (hf.vars _ (hd x hx)),
    henv.out.congr (hf.vars _ (hv C.outT (by simp [Ctx.ts]))), ?_, ?_,
    fun y hy => hf.tyOK y (henv.typed y hy)⟩
  · obtain ⟨blk, blk', hb, hb', l, o, t, n, _⟩ := hf.outBlk
    obtain ⟨blk0, hb0, hlive, hown, hty, hlen⟩ := henv.outBlk
    rw [hb] at hb0; cases hb0
    exact ⟨blk', hb', l.trans hlive, o.trans hown, t.trans hty, by rw [n]; exact hlen⟩
  · intro t ht
    obtain ⟨hptr, hne, blk, hb, rest⟩ := henv.ins t ht
    exact ⟨hptr.congr (hf.vars _ (hv t (by simp [Ctx.ts, ht]))), hne, blk,
      by rw [hf.heap _ hne]; exact hb, rest⟩

theorem Env.ob {C : Ctx F} {σ : State F} (h : Env C σ) : ∃ blk, σ.heap[C.ob]? = some blk := by
  obtain ⟨blk, hb, _⟩ := h.outBlk; exact ⟨blk, hb⟩

/-! ### the invariant on index variables and cursors -/

/-- **The state of the nest below the levels `pre`, under the valuation `val`** (`b`: bucket mode):
every index variable of `pre` holds its value (below its dimension); every cursor `p_<t>_<k>` all of
whose layers `0..k` are bound holds the row-major linearisation of the coordinates of those layers;
in bucket mode the bucket pointer points into the output block at `qb * Pb`. -/
structure St (C : Ctx F) (pre : List Level) (val : String → Nat) (b : Bool) (σ : State F) : Prop where
  env : Env C σ
  idx : ∀ y ∈ idxs pre, IntVar σ y (val y) ∧ val y < C.dimOf y
  ptrs : ∀ t ∈ C.ptrTs b, ∀ k, k < t.indexes.length → (∀ a ∈ t.indexes.take (k + 1), a ∈ idxs pre) →
    IntVar σ (layerPointer t.id k) (linIdx C.dimOf val (t.indexes.take (k + 1)))
  bkt : b = true → PtrAt σ C.bn C.ob ((C.qb val * C.Pb : Nat) : Int) ∧
    ∀ a ∈ C.outT.indexes.take C.n0, a ∈ idxs pre

theorem St.frame {C : Ctx F} (S : Static C) {pre rest : List Level} (hfull : C.full = pre ++ rest)
    {val : String → Nat} {b b' : Bool} {σ σ' : State F} {lo hi : Nat}
    (hst : St C pre val b σ) (hf : Fr C (Wr C b' rest) lo hi σ σ') (hb : b = true → b' = true) :
    St C pre val b σ' := by
  refine ⟨hst.env.frame hf (fun a ha => notWr_dim S hfull ha) (fun t ht => notWr_vals S hfull ht),
    fun y hy => ⟨(hst.idx y hy).1.congr (hf.vars _ (notWr_idx S hfull hy)), (hst.idx y hy).2⟩,
    fun t ht k hk hp => (hst.ptrs t ht k hk hp).congr
      (hf.vars _ (notWr_ptr S hfull (C.ptrTs_sub b t ht) hk hp)), ?_⟩
  intro hb1
  obtain ⟨h1, h2⟩ := hst.bkt hb1
  refine ⟨Dense2.ptrAt_congr h1 (hf.vars _ ?_), h2⟩
  rw [hb hb1]
  exact notWr_bn S hfull

/-- the dimensions of a prefix of a tensor's indexes fit -/
theorem Static.take_lt {C : Ctx F} (S : Static C) {t : TensorId} (ht : t ∈ C.ts) (k : Nat) :
    prod ((t.indexes.take k).map C.dimOf) < 2147483648 := by
  have h := S.fits t ht
  have e : t.indexes.map C.dimOf = (t.indexes.take k).map C.dimOf ++ (t.indexes.drop k).map C.dimOf := by
    rw [← List.map_append, List.take_append_drop]
  rw [e] at h
  simpa using fits_prefix_lt h

/-- the value of the cursor of the layer above -/
theorem St.evalPrev {C : Ctx F} (S : Static C) {pre : List Level} {val : String → Nat} {b : Bool}
    {σ : State F} (hst : St C pre val b σ) {t : TensorId} (ht : t ∈ C.ptrTs b) {k : Nat}
    (hk : k ≤ t.indexes.length) (hp : ∀ a ∈ t.indexes.take k, a ∈ idxs pre) :
    evalE σ (prevLayerPointer t.id k : Expr F) = .ok (.int (linIdx C.dimOf val (t.indexes.take k))) ∧
      linIdx C.dimOf val (t.indexes.take k) < prod ((t.indexes.take k).map C.dimOf) ∧
      prod ((t.indexes.take k).map C.dimOf) < 2147483648 := by
  have hlt : linIdx C.dimOf val (t.indexes.take k) < prod ((t.indexes.take k).map C.dimOf) :=
    linIdx_lt (fun a ha => (hst.idx a (hp a ha)).2)
  have h31 := S.take_lt (C.ptrTs_sub b t ht) k
  refine ⟨?_, hlt, h31⟩
  unfold prevLayerPointer
  by_cases hk0 : k = 0
  · subst hk0
    simp only [if_true, List.take_zero, linIdx_nil]
    exact evalE_intLit (by omega) (by omega)
  · simp only [hk0, if_false]
    have := hst.ptrs t ht (k - 1) (by omega) (by rw [show k - 1 + 1 = k by omega]; exact hp)
    rw [show k - 1 + 1 = k by omega] at this
    exact evalE_var_int this (by omega) (by omega)

end TV.DenseTerm
