import TensoraVerif.Lemmas.DenseTermFrags
import TensoraVerif.Lemmas.Dense2Inner

/-!
C01 for all dense single-term contractions, part 7: the two terminals on the machine —
`terminal_app_runs` (`out_vals[p_out] = e`) and `terminal_bkt_runs`
(`bucket[ravel(bucket indexes)] = bucket[…] + e`, the address being the linearisation of ALL output
coordinates).
-/
namespace TV.DenseTerm
open TV.IR TV.Gen TV.Graph TV.Growth
open TV.ToIr (PtrAt OutCell FloatCell writeCell lprod ravelH)
open TV.Dense1 (leaves valueF allFinite RunsI RunsLI)
open TV.DenseN (prod lin Fits Below ptrDecl storeStmt)
set_option linter.unusedSectionVars false
set_option linter.unusedSimpArgs false
set_option linter.unusedVariables false
variable {F : Type} [FloatOps F]

/-! ### the right-hand side -/

/-- a leaf access at the terminal reads the cell the valuation addresses -/
theorem leaf_eval {C : Ctx F} (S : Static C) {val : String → Nat} {b : Bool} {σ : State F}
    (hst : St C C.full val b σ) {t : TensorId} (ht : t ∈ leaves C.e)
    (hf : FloatOps.finite (rho C.dimOf C.cellsOf val t) = true) :
    evalE σ (.idx (.var (valsName t.name)) (prevLayerPointer t.id t.indexes.length)) =
      .ok (.flt (rho C.dimOf C.cellsOf val t)) := by
  have hts : t ∈ C.ts := List.mem_cons_of_mem _ ht
  obtain ⟨ep, hlt, _⟩ := hst.evalPrev S (C.leaves_sub b t ht) (Nat.le_refl _)
    (fun a ha => (S.sub hts).subset (List.mem_of_mem_take ha))
  rw [List.take_length] at ep hlt
  obtain ⟨hptr, _, blk, hb, hlive, hty, hc⟩ := hst.env.ins t ht
  exact DenseN.evalE_loadE hptr ep hb hlive hty (hc _ hlt) hf

/-- the terminal expression evaluates to its float meaning under the valuation -/
theorem rhs_eval (ofRat : Rat → F) {C : Ctx F} (S : Static C) {val : String → Nat} {b : Bool}
    {σ : State F} (hst : St C C.full val b σ)
    (hfin : finF ofRat C.dimOf C.cellsOf C.e val = true) :
    evalE σ (toIrWith ofRat C.e) = .ok (.flt (termF ofRat C.dimOf C.cellsOf C.e val)) := by
  apply Dense2.evalE_rhs ofRat (rho C.dimOf C.cellsOf val) σ C.e _ hfin
  intro t ht
  exact leaf_eval S hst ht (Dense2.allFinite_leaf ofRat _ C.e hfin t ht)

/-! ### append output -/

/-- **the terminal in append mode**: `out_vals[p_<out>_<N-1>] = e` writes the cell addressed by the
output coordinates -/
theorem terminal_app_runs (ofRat : Rat → F) {C : Ctx F} (S : Static C) {val : String → Nat}
    {σ : State F} (hst : St C C.full val false σ) (fuel : Nat)
    (hfin : finF ofRat C.dimOf C.cellsOf C.e val = true) (n : Nat) :
    ∃ σ', RunsI fuel (termSB ofRat C.outT C.e (.app n) []).finalize σ σ' 0 ∧
      Fr C (fun _ => False) (linIdx C.dimOf val (outIdxs C.full))
        (linIdx C.dimOf val (outIdxs C.full) + 1) σ σ' ∧
      CellIs C σ' (linIdx C.dimOf val (outIdxs C.full)) (termF ofRat C.dimOf C.cellsOf C.e val) := by
  obtain ⟨hqQ, _, hN, _⟩ := slab_facts S (pre := C.full) (rest := []) (by simp) hst
  simp only [outDims, List.filter_nil, List.map_nil, prod, Nat.mul_one] at hN
  have hqN : linIdx C.dimOf val (outIdxs C.full) < C.N := by
    rw [← hN]; exact hqQ
  have hout : C.outT ∈ C.ptrTs false := by simp [Ctx.ptrTs, Ctx.ts]
  obtain ⟨ep, _, _⟩ := hst.evalPrev S hout (Nat.le_refl _)
    (fun a ha => (S.sub (by simp [Ctx.ts])).subset (List.mem_of_mem_take ha))
  rw [List.take_length] at ep
  rw [show linIdx C.dimOf val C.outT.indexes = linIdx C.dimOf val (outIdxs C.full) by rw [S.outI]] at ep
  generalize linIdx C.dimOf val (outIdxs C.full) = qo at *
  have hcell : OutCell σ C.ob ((0 : Int) + (qo : Int)) := by
    have := outCell_of_env hst.env hqN
    simpa using this
  have hrun := ToIr.Runs.assign_cell (fuel := fuel) (evalE_var_ptr hst.env.out) ep
    (rhs_eval ofRat S hst hfin) hcell
  have hk : ((0 : Int) + (qo : Int)) = (qo : Int) := by omega
  rw [hk] at hrun hcell
  obtain ⟨hfr, hc, _⟩ := fr_writeCell (C := C) hcell (termF ofRat C.dimOf C.cellsOf C.e val)
    (fun _ => False)
  refine ⟨_, ?_, hfr, hc⟩
  have hr := Dense1.RunsI.block (c := some "*** Computation of expression ***")
    (Dense1.RunsLI.cons (Dense1.RunsI.of_assign hrun) (Dense1.RunsLI.nil _ _))
  simpa [termSB, termStmt, storeStmt, SB.finalize] using hr

/-! ### bucket output -/

theorem ravelH_cast (d v : String → Nat) (l : List String) :
    ravelH (l.map fun a => (d a : Int)) (l.map fun a => (v a : Int)) = (linIdx d v l : Int) := by
  unfold ravelH linIdx
  have : ∀ (l : List String) (q : Nat),
      ((l.map fun a => (d a : Int)).zip (l.map fun a => (v a : Int))).foldl
        (fun acc di => acc * di.1 + di.2) (q : Int) =
      ((l.foldl (fun q a => q * d a + v a) q : Nat) : Int) := by
    intro l
    induction l with
    | nil => intro q; rfl
    | cons a l ih =>
      intro q
      simp only [List.map_cons, List.zip_cons_cons, List.foldl_cons]
      rw [← ih (q * d a + v a)]
      simp
  exact this l 0

theorem lprod_cast (d : String → Nat) (l : List String) :
    lprod (l.map fun a => (d a : Int)) = (prod (l.map d) : Int) := by
  induction l with
  | nil => rfl
  | cons a l ih => simp [lprod, prod, ih]

theorem mem_bucketLayers {outT : TensorId} {n l : Nat} (h : l ∈ bucketLayers outT n) :
    l < outT.modes.length := by
  unfold bucketLayers at h
  obtain ⟨k, hk, rfl⟩ := List.mem_map.1 h
  have := List.mem_range.1 hk
  omega

/-- **the terminal in bucket mode**: `bucket[ravel] = bucket[ravel] + e`; the cell addressed is the
linearisation of all output coordinates, it goes from `w` to `w + e` -/
theorem terminal_bkt_runs (ofRat : Rat → F) {C : Ctx F} (S : Static C) {val : String → Nat}
    {σ : State F} (hst : St C C.full val true σ) (fuel : Nat) {w : F}
    (hw : CellIs C σ (linIdx C.dimOf val (outIdxs C.full)) w)
    (hfin : finF ofRat C.dimOf C.cellsOf C.e val = true) (hwf : FloatOps.finite w = true)
    (hs : FloatOps.finite (FloatOps.add w (termF ofRat C.dimOf C.cellsOf C.e val)) = true) :
    ∃ σ', RunsI fuel (termSB ofRat C.outT C.e (.bkt C.n0) []).finalize σ σ' 0 ∧
      Fr C (fun _ => False) (linIdx C.dimOf val (outIdxs C.full))
        (linIdx C.dimOf val (outIdxs C.full) + 1) σ σ' ∧
      CellIs C σ' (linIdx C.dimOf val (outIdxs C.full))
        (FloatOps.add w (termF ofRat C.dimOf C.cellsOf C.e val)) := by
  obtain ⟨hqQ, _, hN, _⟩ := slab_facts S (pre := C.full) (rest := []) (by simp) hst
  simp only [outDims, List.filter_nil, List.map_nil, prod, Nat.mul_one] at hN
  have hqN : linIdx C.dimOf val (outIdxs C.full) < C.N := by
    rw [← hN]; exact hqQ
  obtain ⟨hbkt, htake⟩ := hst.bkt rfl
  have hsubO : ∀ a ∈ C.outT.indexes, a ∈ idxs C.full := fun a ha => (S.sub (by simp [Ctx.ts])).subset ha
  -- the address
  have hsplit : linIdx C.dimOf val (outIdxs C.full) =
      C.qb val * C.Pb + linIdx C.dimOf val (C.outT.indexes.drop C.n0) := by
    rw [← S.outI]
    conv => lhs; rw [← List.take_append_drop C.n0 C.outT.indexes]
    rw [linIdx_append, lin_split _ _ _ (by simp), ← linIdx_eq_lin]
    rfl
  -- the index expression
  have hvals : ∀ a ∈ idxs C.full, IntVar σ a (val a) ∧ val a < C.dimOf a := hst.idx
  have hPb31 : C.Pb < 2147483648 := by
    have hf := S.fits C.outT (by simp [Ctx.ts])
    have e : C.outT.indexes.map C.dimOf =
        (C.outT.indexes.take C.n0).map C.dimOf ++ (C.outT.indexes.drop C.n0).map C.dimOf := by
      rw [← List.map_append, List.take_append_drop]
    rw [e] at hf
    have hpos : 0 < 1 * prod ((C.outT.indexes.take C.n0).map C.dimOf) := by
      have : linIdx C.dimOf val (C.outT.indexes.take C.n0) <
          prod ((C.outT.indexes.take C.n0).map C.dimOf) :=
        linIdx_lt (fun a ha => (hvals a (htake a ha)).2)
      omega
    exact fits_prod_lt_of_pos (fits_append hf) hpos
  have hlay := bucketLayers_map C.outT C.n0 S.outL
  have hidx := ToIr.evalE_bucketIndex (σ := σ) C.outT (bucketLayers C.outT C.n0)
    (fun l => (C.dimOf (C.outT.indexes.getD l "") : Int))
    (fun l => (val (C.outT.indexes.getD l "") : Int)) (by
      intro l hl
      have hlt : l < C.outT.indexes.length := by rw [← S.outL]; exact mem_bucketLayers hl
      have hmem : C.outT.indexes.getD l "" ∈ idxs C.full := by
        apply hsubO
        rw [List.getD_eq_getElem?_getD, List.getElem?_eq_getElem hlt]
        exact List.getElem_mem hlt
      obtain ⟨h1, h2⟩ := hvals _ hmem
      exact ⟨hst.env.dimVars _ hmem, h1, by omega, by omega⟩) (by
      have : (bucketLayers C.outT C.n0).map (fun l => (C.dimOf (C.outT.indexes.getD l "") : Int)) =
          ((bucketLayers C.outT C.n0).map (fun l => C.outT.indexes.getD l "")).map
            (fun a => (C.dimOf a : Int)) := by rw [List.map_map]; rfl
      rw [this, hlay, lprod_cast]
      unfold Ctx.Pb at hPb31
      omega)
  have hrav : ravelH ((bucketLayers C.outT C.n0).map fun l => (C.dimOf (C.outT.indexes.getD l "") : Int))
      ((bucketLayers C.outT C.n0).map fun l => (val (C.outT.indexes.getD l "") : Int)) =
      (linIdx C.dimOf val (C.outT.indexes.drop C.n0) : Int) := by
    have e1 : (bucketLayers C.outT C.n0).map (fun l => (C.dimOf (C.outT.indexes.getD l "") : Int)) =
        ((bucketLayers C.outT C.n0).map (fun l => C.outT.indexes.getD l "")).map
          (fun a => (C.dimOf a : Int)) := by rw [List.map_map]; rfl
    have e2 : (bucketLayers C.outT C.n0).map (fun l => (val (C.outT.indexes.getD l "") : Int)) =
        ((bucketLayers C.outT C.n0).map (fun l => C.outT.indexes.getD l "")).map
          (fun a => (val a : Int)) := by rw [List.map_map]; rfl
    rw [e1, e2, hlay, ravelH_cast]
  rw [hrav] at hidx
  have hk : ((C.qb val * C.Pb : Nat) : Int) + (linIdx C.dimOf val (C.outT.indexes.drop C.n0) : Int) =
      ((linIdx C.dimOf val (outIdxs C.full) : Nat) : Int) := by
    rw [hsplit]; simp
  generalize linIdx C.dimOf val (outIdxs C.full) = qo at *
  have hcell : OutCell σ C.ob (((C.qb val * C.Pb : Nat) : Int) +
      (linIdx C.dimOf val (C.outT.indexes.drop C.n0) : Int)) := by
    rw [hk]; exact outCell_of_env hst.env hqN
  have hfc : FloatCell σ C.ob (((C.qb val * C.Pb : Nat) : Int) +
      (linIdx C.dimOf val (C.outT.indexes.drop C.n0) : Int)) w := by
    rw [hk]; exact floatCell_of_cellIs hst.env hw
  have hrun := ToIr.Runs.increment_cell (fuel := fuel) (ToIr.evalE_var_ptrAt hbkt) hidx.1
    (rhs_eval ofRat S hst hfin) hcell hfc hwf hs
  rw [hk] at hrun hcell
  obtain ⟨hfr, hc, _⟩ := fr_writeCell (C := C) hcell
    (FloatOps.add w (termF ofRat C.dimOf C.cellsOf C.e val)) (fun _ => False)
  refine ⟨_, ?_, hfr, hc⟩
  have hr := Dense1.RunsI.block (c := some "*** Computation of expression ***")
    (Dense1.RunsLI.cons (Dense1.RunsI.of_assign hrun) (Dense1.RunsLI.nil _ _))
  simpa [termSB, termStmt, accStmt, SB.finalize, Ctx.bn, increment] using hr

end TV.DenseTerm
