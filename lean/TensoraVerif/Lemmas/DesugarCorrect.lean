import TensoraVerif.Lemmas.DesugarSpec

/-!
Correctness of the desugaring pass `desugarE` (`Model/Algebra.lean`) outside the known-defect
signature `productHoistUnsafe`: the desugared tree denotes the sum, over the additive terms of the
expression, of each term summed over those of its own indexes that are still to be contracted.
-/
namespace TV.Alg

/-! ### the pass, node by node -/

/-- contraction indexes of `c` that occur in `e` (`li`/`ri` of the pass) -/
abbrev ownOf (e : SExpr) (c : List String) : List String := (indexesOf e).filter c.contains

/-- indexes hoisted above an `add`/`sub` node -/
abbrev hoistAdd (l r : SExpr) (c : List String) : List String :=
  (((ownOf l c).filter (ownOf r c).contains).filter (inEveryTerm l).contains).filter
    (inEveryTerm r).contains

/-- indexes hoisted above a `mul` node -/
abbrev hoistMul (l r : SExpr) (c : List String) : List String :=
  (ownOf l c).filter (ownOf r c).contains

/-- indexes pushed into the operand `e` when `h` is hoisted -/
abbrev restOf (e : SExpr) (c h : List String) : List String :=
  (ownOf e c).filter fun i => !h.contains i

theorem desugarE_add (l r : SExpr) (c : List String) (n : Nat) :
    (desugarE (.add l r) c n).1 = wrap (hoistAdd l r c)
      (.add (desugarE l (restOf l c (hoistAdd l r c)) n).1
        (desugarE r (restOf r c (hoistAdd l r c))
          (desugarE l (restOf l c (hoistAdd l r c)) n).2).1) := rfl

theorem desugarE_sub (l r : SExpr) (c : List String) (n : Nat) :
    (desugarE (.sub l r) c n).1 = wrap (hoistAdd l r c)
      (.add (desugarE l (restOf l c (hoistAdd l r c)) n).1
        (.mul (.int (-1)) (desugarE r (restOf r c (hoistAdd l r c))
          (desugarE l (restOf l c (hoistAdd l r c)) n).2).1)) := rfl

theorem desugarE_mul (l r : SExpr) (c : List String) (n : Nat) :
    (desugarE (.mul l r) c n).1 = wrap (hoistMul l r c)
      (.mul (desugarE l (restOf l c (hoistMul l r c)) n).1
        (desugarE r (restOf r c (hoistMul l r c))
          (desugarE l (restOf l c (hoistMul l r c)) n).2).1) := rfl

/-- `wrap h e` is `Σ` over the indexes of `h` (innermost first) -/
theorem denoteD_wrap (inputs : Inputs) (sizes : Sizes) (h : List String) (E : DExpr) (env : Env) :
    denoteD inputs sizes (wrap h E) env
      = sumOver sizes h.reverse (denoteD inputs sizes E) env := by
  induction h generalizing E env with
  | nil => rfl
  | cons i is ih =>
    have : wrap (i :: is) E = wrap is (.contract i E) := rfl
    rw [this, ih, List.reverse_cons, sumOver_append]
    rfl

theorem denoteD_add (inputs : Inputs) (sizes : Sizes) (l r : DExpr) (env : Env) :
    denoteD inputs sizes (.add l r) env = denoteD inputs sizes l env + denoteD inputs sizes r env :=
  rfl

theorem denoteD_mul (inputs : Inputs) (sizes : Sizes) (l r : DExpr) (env : Env) :
    denoteD inputs sizes (.mul l r) env = denoteD inputs sizes l env * denoteD inputs sizes r env :=
  rfl

theorem denoteD_int (inputs : Inputs) (sizes : Sizes) (v : Int) (env : Env) :
    denoteD inputs sizes (.int v) env = (v : Rat) := rfl

theorem nodup_reverse {h : List String} (hn : h.Nodup) : h.reverse.Nodup :=
  (List.reverse_perm h).nodup_iff.2 hn

/-! ### per-node safety -/

theorem safe_add {target : List String} {l r : SExpr}
    (h : productHoistUnsafe target (.add l r) = false) :
    productHoistUnsafe target l = false ∧ productHoistUnsafe target r = false := by
  simpa [productHoistUnsafe] using h

theorem safe_sub {target : List String} {l r : SExpr}
    (h : productHoistUnsafe target (.sub l r) = false) :
    productHoistUnsafe target l = false ∧ productHoistUnsafe target r = false := by
  simpa [productHoistUnsafe] using h

theorem safe_mul {target : List String} {l r : SExpr}
    (h : productHoistUnsafe target (.mul l r) = false) :
    (∀ i, i ∈ indexesOf l → i ∈ indexesOf r → i ∉ target → i ∈ inEveryTerm l ∨ i ∈ inEveryTerm r)
      ∧ productHoistUnsafe target l = false ∧ productHoistUnsafe target r = false := by
  simp [productHoistUnsafe] at h
  refine ⟨fun i h1 h2 h3 => ?_, h.1.2, h.2⟩
  by_cases h4 : i ∈ inEveryTerm l
  · exact Or.inl h4
  · exact Or.inr (h.1.1 i h1 h3 h2 h4)

/-! ### index-set bookkeeping -/

theorem mem_filter_contains {X c : List String} {i : String} :
    i ∈ X.filter c.contains ↔ i ∈ X ∧ i ∈ c := by
  simp [List.mem_filter]

theorem mem_filter_not_contains {X h : List String} {i : String} :
    i ∈ X.filter (fun i => !h.contains i) ↔ i ∈ X ∧ i ∉ h := by
  simp [List.mem_filter]

/-- hoisting `h` above a sum: for a term with index list `X` inside an operand with index list `E`,
`h` together with the term's share of the pushed-down indexes is the term's share of `c` -/
theorem perm_hoist_add {X E c h : List String} (hX : X.Nodup) (hh : h.Nodup)
    (hXE : ∀ i ∈ X, i ∈ E) (hhX : ∀ i ∈ h, i ∈ X) (hhc : ∀ i ∈ h, i ∈ c) :
    (h.reverse ++ X.filter ((E.filter c.contains).filter fun i => !h.contains i).contains).Perm
      (X.filter c.contains) := by
  refine (List.perm_ext_iff_of_nodup ?_ (nodup_filter hX)).2 fun i => ?_
  · rw [List.nodup_append]
    refine ⟨nodup_reverse hh, nodup_filter hX, fun a ha b hb hab => ?_⟩
    subst hab
    simp only [List.mem_reverse, mem_filter_contains, mem_filter_not_contains] at ha hb
    exact hb.2.2 ha
  · simp only [List.mem_append, List.mem_reverse, mem_filter_contains, mem_filter_not_contains]
    grind

/-- hoisting the shared indexes `h` above a product of a term with index list `Xa` (left operand,
index list `El`) and a term with index list `Xb` (right operand, `Er`), provided every hoisted
index occurs in one of the two terms -/
theorem perm_hoist_mul {Xa Xb Xab El Er c : List String} (hXa : Xa.Nodup) (hXb : Xb.Nodup)
    (hXab : Xab.Nodup) (hEl : El.Nodup) (hab : ∀ i, i ∈ Xab ↔ i ∈ Xa ∨ i ∈ Xb)
    (ha : ∀ i ∈ Xa, i ∈ El) (hb : ∀ i ∈ Xb, i ∈ Er)
    (hsafe : ∀ i, i ∈ El → i ∈ Er → i ∈ c → i ∈ Xa ∨ i ∈ Xb) :
    let h := (El.filter c.contains).filter (Er.filter c.contains).contains
    (h.reverse ++ (Xa.filter ((El.filter c.contains).filter fun i => !h.contains i).contains
        ++ Xb.filter ((Er.filter c.contains).filter fun i => !h.contains i).contains)).Perm
      (Xab.filter c.contains) := by
  intro h
  have hh : h.Nodup := nodup_filter (nodup_filter hEl)
  have hmem : ∀ i, i ∈ h ↔ i ∈ El ∧ i ∈ Er ∧ i ∈ c := by
    intro i
    simp only [h, mem_filter_contains]
    grind
  refine (List.perm_ext_iff_of_nodup ?_ (nodup_filter hXab)).2 fun i => ?_
  · rw [List.nodup_append]
    refine ⟨nodup_reverse hh, ?_, fun x hx y hy hxy => ?_⟩
    · rw [List.nodup_append]
      refine ⟨nodup_filter hXa, nodup_filter hXb, fun x hx y hy hxy => ?_⟩
      subst hxy
      simp only [mem_filter_contains, mem_filter_not_contains, hmem] at hx hy
      grind
    · subst hxy
      simp only [List.mem_reverse, List.mem_append, mem_filter_contains,
        mem_filter_not_contains] at hx hy
      grind
  · simp only [List.mem_append, List.mem_reverse, mem_filter_contains, mem_filter_not_contains,
      hmem, hab]
    grind

/-! ### merging a hoisted sum with the terms' own sums -/

theorem hoist_terms (inputs : Inputs) (sizes : Sizes) (T : List Term) (h : List String)
    (A C : Term → List String) (env : Env) (hp : ∀ t ∈ T, (h ++ A t).Perm (C t)) :
    sumOver sizes h (fun e => lsum T (fun t => sumOver sizes (A t) (t.val inputs) e)) env
      = lsum T (fun t => sumOver sizes (C t) (t.val inputs) env) := by
  rw [sumOver_lsum]
  refine lsum_congr _ _ _ fun t ht => ?_
  rw [← sumOver_append]
  exact sumOver_perm sizes (hp t ht) _ (Term.val_ext _ _) env

/-- `(Σ_A a) * (Σ_B b) = Σ_{A,B} a*b` when `A` is foreign to `b` and `B` to `a` -/
theorem sumOver_mul_sumOver (inputs : Inputs) (sizes : Sizes) (a b : Term) (A B : List String)
    (hA : ∀ i ∈ A, i ∉ b.indexes) (hB : ∀ i ∈ B, i ∉ a.indexes) (env : Env) :
    sumOver sizes A (a.val inputs) env * sumOver sizes B (b.val inputs) env
      = sumOver sizes (A ++ B) ((a.mul b).val inputs) env := by
  rw [sumOver_append,
    ← sumOver_mul_right sizes b.indexes A _ _ ((b.val_depOn inputs).sumOver sizes B) hA]
  refine sumOver_congr _ _ _ _ (fun e => ?_) _
  rw [← sumOver_mul_left sizes a.indexes B _ _ (a.val_depOn inputs) hB]
  exact sumOver_congr _ _ _ _ (fun e' => (Term.val_mul inputs a b e').symm) _

theorem hoist_mul_terms (inputs : Inputs) (sizes : Sizes) (a b : Term) (h A B C : List String)
    (hA : ∀ i ∈ A, i ∉ b.indexes) (hB : ∀ i ∈ B, i ∉ a.indexes) (hp : (h ++ (A ++ B)).Perm C)
    (env : Env) :
    sumOver sizes h
        (fun e => sumOver sizes A (a.val inputs) e * sumOver sizes B (b.val inputs) e) env
      = sumOver sizes C ((a.mul b).val inputs) env := by
  rw [sumOver_congr _ _ _ _ (sumOver_mul_sumOver inputs sizes a b A B hA hB), ← sumOver_append]
  exact sumOver_perm sizes hp _ (Term.val_ext _ _) env

theorem sumOver_val_neg (inputs : Inputs) (sizes : Sizes) (X : List String) (t : Term) (env : Env) :
    sumOver sizes X (t.neg.val inputs) env
      = ((-1 : Int) : Rat) * sumOver sizes X (t.val inputs) env := by
  rw [← sumOver_const_mul]
  exact sumOver_congr _ _ _ _ (fun e => by rw [Term.val_neg]; grind) _

/-! ### the main lemma -/

/-- the additive terms of `e`, each summed over its own indexes among `c` -/
def termsDen (inputs : Inputs) (sizes : Sizes) (c : List String) (e : SExpr) (env : Env) : Rat :=
  lsum (termsOf e) fun t => sumOver sizes (t.indexes.filter c.contains) (t.val inputs) env

theorem hoist_termsDen (inputs : Inputs) (sizes : Sizes) (e : SExpr) (h c' c : List String)
    (env : Env)
    (hp : ∀ t ∈ termsOf e, (h ++ t.indexes.filter c'.contains).Perm (t.indexes.filter c.contains)) :
    sumOver sizes h (termsDen inputs sizes c' e) env = termsDen inputs sizes c e env :=
  hoist_terms inputs sizes (termsOf e) h (fun t => t.indexes.filter c'.contains)
    (fun t => t.indexes.filter c.contains) env hp

theorem mem_hoistAdd {l r : SExpr} {c : List String} {i : String} :
    i ∈ hoistAdd l r c ↔
      i ∈ indexesOf l ∧ i ∈ indexesOf r ∧ i ∈ c ∧ i ∈ inEveryTerm l ∧ i ∈ inEveryTerm r := by
  simp only [mem_filter_contains]
  grind

theorem mem_hoistMul {l r : SExpr} {c : List String} {i : String} :
    i ∈ hoistMul l r c ↔ i ∈ indexesOf l ∧ i ∈ indexesOf r ∧ i ∈ c := by
  simp only [mem_filter_contains]
  grind

theorem nodup_hoistAdd (l r : SExpr) (c : List String) : (hoistAdd l r c).Nodup :=
  nodup_filter (nodup_filter (nodup_filter (nodup_filter (nodup_indexesOf l))))

theorem nodup_restOf (e : SExpr) (c h : List String) : (restOf e c h).Nodup :=
  nodup_filter (nodup_filter (nodup_indexesOf e))

theorem mem_restOf {e : SExpr} {c h : List String} {i : String} :
    i ∈ restOf e c h ↔ i ∈ indexesOf e ∧ i ∈ c ∧ i ∉ h := by
  simp only [mem_filter_contains, mem_filter_not_contains]
  grind

/-- `hoistAdd` merged with the own sums of the terms of the left operand -/
theorem perm_add_left {l r : SExpr} {c : List String} {t : Term} (ht : t ∈ termsOf l) :
    ((hoistAdd l r c).reverse ++ t.indexes.filter (restOf l c (hoistAdd l r c)).contains).Perm
      (t.indexes.filter c.contains) :=
  perm_hoist_add t.indexes_nodup (nodup_hoistAdd l r c) (fun _ hi => mem_indexesOf_of_term ht hi)
    (fun _ hi => mem_term_of_inEveryTerm (mem_hoistAdd.1 hi).2.2.2.1 ht)
    (fun _ hi => (mem_hoistAdd.1 hi).2.2.1)

theorem perm_add_right {l r : SExpr} {c : List String} {t : Term} (ht : t ∈ termsOf r) :
    ((hoistAdd l r c).reverse ++ t.indexes.filter (restOf r c (hoistAdd l r c)).contains).Perm
      (t.indexes.filter c.contains) :=
  perm_hoist_add t.indexes_nodup (nodup_hoistAdd l r c) (fun _ hi => mem_indexesOf_of_term ht hi)
    (fun _ hi => mem_term_of_inEveryTerm (mem_hoistAdd.1 hi).2.2.2.2 ht)
    (fun _ hi => (mem_hoistAdd.1 hi).2.2.1)

theorem desugarE_correct (inputs : Inputs) (sizes : Sizes) (target : List String) (e : SExpr) :
    ∀ (c : List String) (n : Nat) (env : Env), c.Nodup → (∀ i ∈ c, i ∈ indexesOf e) →
      (∀ i ∈ c, i ∉ target) → productHoistUnsafe target e = false →
      denoteD inputs sizes (desugarE e c n).1 env = termsDen inputs sizes c e env := by
  induction e with
  | int v =>
    intro c n env _ _ _ _
    simp [desugarE, denoteD, termsDen, termsOf, lsum_singleton, Term.indexes, dedup, Term.val]
  | flt v =>
    intro c n env _ _ _ _
    simp [desugarE, denoteD, termsDen, termsOf, lsum_singleton, Term.indexes, dedup, Term.val]
  | tensor name idx =>
    intro c n env hc hsub _ _
    show denoteD inputs sizes (wrap c (.tensor n name idx)) env = _
    rw [denoteD_wrap]
    simp only [termsDen, termsOf, lsum_singleton]
    have hv : denoteD inputs sizes (.tensor n name idx) = Term.val inputs ⟨1, [(name, idx)]⟩ := by
      funext e; simp [denoteD, Term.val, Rat.one_mul]
    rw [hv]
    refine sumOver_of_mem_iff sizes (nodup_reverse hc) (nodup_filter (Term.indexes_nodup _))
      (fun i => ?_) _ (Term.val_ext _ _) env
    have := hsub i
    simp only [indexesOf, mem_dedup] at this
    simp only [List.mem_reverse, mem_filter_contains, Term.mem_indexes, List.mem_singleton,
      exists_eq_left]
    grind
  | add l r ihl ihr =>
    intro c n env hc _ hdis hsafe
    obtain ⟨sl, sr⟩ := safe_add hsafe
    rw [desugarE_add, denoteD_wrap]
    have hL := fun n e => ihl (restOf l c (hoistAdd l r c)) n e (nodup_restOf ..)
      (fun i hi => (mem_restOf.1 hi).1) (fun i hi => hdis i (mem_restOf.1 hi).2.1) sl
    have hR := fun n e => ihr (restOf r c (hoistAdd l r c)) n e (nodup_restOf ..)
      (fun i hi => (mem_restOf.1 hi).1) (fun i hi => hdis i (mem_restOf.1 hi).2.1) sr
    rw [sumOver_congr _ _ _ _ (fun e => by rw [denoteD_add, hL, hR]), sumOver_add]
    rw [hoist_termsDen inputs sizes l _ _ c env (fun t ht => perm_add_left ht),
      hoist_termsDen inputs sizes r _ _ c env (fun t ht => perm_add_right ht)]
    simp only [termsDen, termsOf, lsum_append]
  | sub l r ihl ihr =>
    intro c n env hc _ hdis hsafe
    obtain ⟨sl, sr⟩ := safe_sub hsafe
    rw [desugarE_sub, denoteD_wrap]
    have hL := fun n e => ihl (restOf l c (hoistAdd l r c)) n e (nodup_restOf ..)
      (fun i hi => (mem_restOf.1 hi).1) (fun i hi => hdis i (mem_restOf.1 hi).2.1) sl
    have hR := fun n e => ihr (restOf r c (hoistAdd l r c)) n e (nodup_restOf ..)
      (fun i hi => (mem_restOf.1 hi).1) (fun i hi => hdis i (mem_restOf.1 hi).2.1) sr
    rw [sumOver_congr _ _ _ _ (fun e => by rw [denoteD_add, denoteD_mul, denoteD_int, hL, hR]),
      sumOver_add, sumOver_const_mul]
    rw [hoist_termsDen inputs sizes l _ _ c env (fun t ht => perm_add_left ht),
      hoist_termsDen inputs sizes r _ _ c env (fun t ht => perm_add_right ht)]
    simp only [termsDen, termsOf, lsum_append, lsum_map, Term.indexes_neg, sumOver_val_neg,
      lsum_mul_left]
  | mul l r ihl ihr =>
    intro c n env hc _ hdis hsafe
    obtain ⟨sm, sl, sr⟩ := safe_mul hsafe
    rw [desugarE_mul, denoteD_wrap]
    have hL := fun n e => ihl (restOf l c (hoistMul l r c)) n e (nodup_restOf ..)
      (fun i hi => (mem_restOf.1 hi).1) (fun i hi => hdis i (mem_restOf.1 hi).2.1) sl
    have hR := fun n e => ihr (restOf r c (hoistMul l r c)) n e (nodup_restOf ..)
      (fun i hi => (mem_restOf.1 hi).1) (fun i hi => hdis i (mem_restOf.1 hi).2.1) sr
    rw [sumOver_congr _ _ _ _ (fun e => by rw [denoteD_mul, hL, hR])]
    simp only [termsDen, termsOf, lsum_flatMap, lsum_map]
    rw [sumOver_congr _ _ _ _ (fun e => lsum_mul_lsum _ _ _ _), sumOver_lsum]
    refine lsum_congr _ _ _ fun a ha => ?_
    rw [sumOver_lsum]
    refine lsum_congr _ _ _ fun b hb => ?_
    refine hoist_mul_terms inputs sizes a b _ _ _ _ ?_ ?_ ?_ env
    · intro i hi hib
      have h1 := mem_restOf.1 (mem_filter_contains.1 hi).2
      exact h1.2.2 (mem_hoistMul.2 ⟨h1.1, mem_indexesOf_of_term hb hib, h1.2.1⟩)
    · intro i hi hia
      have h1 := mem_restOf.1 (mem_filter_contains.1 hi).2
      exact h1.2.2 (mem_hoistMul.2 ⟨mem_indexesOf_of_term ha hia, h1.1, h1.2.1⟩)
    · refine perm_hoist_mul a.indexes_nodup b.indexes_nodup (a.mul b).indexes_nodup
        (nodup_indexesOf l) (Term.mem_indexes_mul a b) (fun _ hi => mem_indexesOf_of_term ha hi)
        (fun _ hi => mem_indexesOf_of_term hb hi) fun i h1 h2 h3 => ?_
      rcases sm i h1 h2 (hdis i h3) with h | h
      · exact Or.inl (mem_term_of_inEveryTerm h ha)
      · exact Or.inr (mem_term_of_inEveryTerm h hb)

end TV.Alg
