import TensoraVerif.Lemmas.DesugarTerms

/-!
The specification `denote` as a sum over additive terms, and the behaviour of a single summand
under the term operations (`Term.mul` commutative/associative, `Term.neg`) — the ingredients of the
C01 invariance theorems.
-/
namespace TV.Alg

/-- the summand of `denote` for one additive term: the term summed over its non-target indexes -/
def termDen (inputs : Inputs) (sizes : Sizes) (tidx : List String) (env : Env) (t : Term) : Rat :=
  sumOver sizes (t.indexes.filter fun i => !tidx.contains i) (t.val inputs) env

theorem denote_eq_lsum (a : Assign) (inputs : Inputs) (sizes : Sizes) (coord : List Nat) :
    denote a inputs sizes coord
      = lsum (termsOf a.rhs) (termDen inputs sizes a.tidx (a.tidx.zip coord)) := rfl

theorem termDen_mul_comm (inputs : Inputs) (sizes : Sizes) (tidx : List String) (env : Env)
    (a b : Term) :
    termDen inputs sizes tidx env (a.mul b) = termDen inputs sizes tidx env (b.mul a) := by
  unfold termDen
  have hv : (a.mul b).val inputs = (b.mul a).val inputs := by
    funext e; rw [Term.val_mul, Term.val_mul, Rat.mul_comm]
  rw [hv]
  refine sumOver_of_mem_iff sizes (nodup_filter (Term.indexes_nodup _))
    (nodup_filter (Term.indexes_nodup _)) (fun i => ?_) _ (Term.val_ext _ _) env
  simp only [List.mem_filter, Term.mem_indexes_mul]
  grind

theorem Term.mul_assoc (a b c : Term) : (a.mul b).mul c = a.mul (b.mul c) := by
  simp [Term.mul, Rat.mul_assoc, List.append_assoc]

theorem Term.neg_eq_mul (b : Term) : (⟨((-1 : Int) : Rat), []⟩ : Term).mul b = b.neg := by
  cases b with
  | mk c fs =>
    simp only [Term.mul, Term.neg, List.nil_append, Term.mk.injEq, and_true]
    grind

theorem termDen_neg (inputs : Inputs) (sizes : Sizes) (tidx : List String) (env : Env) (a : Term) :
    termDen inputs sizes tidx env a.neg = -termDen inputs sizes tidx env a := by
  unfold termDen
  rw [Term.indexes_neg]
  have hv : a.neg.val inputs = fun e => (-1 : Rat) * a.val inputs e := by
    funext e; rw [Term.val_neg]; grind
  rw [hv, sumOver_const_mul]
  grind

end TV.Alg
