import TensoraVerif.Model.Algebra

/-!
Algebra of the finite sums used by `Model/Algebra.lean` (for C01):

* `lsum xs F` — the left fold `Σ_{x ∈ xs} F x` in which `denote` and `sumRange` are written;
* `sumRange` (Σ over `0 … n-1`) and `sumOver` (nested Σ over a list of index names): additivity,
  constant factors, exchange of two sums, `sumOver (xs ++ ys) = sumOver xs ∘ sumOver ys`, and
  invariance of `sumOver` under permutation of the index list (Fubini) for integrands that only look
  at the environment through `Env.get`.
-/
namespace TV.Alg

/-! ### sums over lists -/

/-- `Σ_{x ∈ xs} F x`, as the left fold used in `denote` and `sumRange` -/
def lsum {α : Type} (xs : List α) (F : α → Rat) : Rat := xs.foldl (fun acc x => acc + F x) 0

theorem foldl_add_init {α : Type} (xs : List α) (F : α → Rat) (a : Rat) :
    xs.foldl (fun acc x => acc + F x) a = a + lsum xs F := by
  induction xs generalizing a with
  | nil => simp [lsum, Rat.add_zero]
  | cons x xs ih =>
    simp only [lsum, List.foldl_cons]
    rw [ih (a + F x), ih (0 + F x)]
    simp only [lsum]
    grind

@[simp] theorem lsum_nil {α : Type} (F : α → Rat) : lsum [] F = 0 := rfl

theorem lsum_cons {α : Type} (x : α) (xs : List α) (F : α → Rat) :
    lsum (x :: xs) F = F x + lsum xs F := by
  simp only [lsum, List.foldl_cons]
  rw [foldl_add_init]
  simp only [lsum]
  grind

theorem lsum_singleton {α : Type} (x : α) (F : α → Rat) : lsum [x] F = F x := by
  rw [lsum_cons, lsum_nil, Rat.add_zero]

theorem lsum_append {α : Type} (xs ys : List α) (F : α → Rat) :
    lsum (xs ++ ys) F = lsum xs F + lsum ys F := by
  induction xs with
  | nil => simp [Rat.zero_add]
  | cons x xs ih => rw [List.cons_append, lsum_cons, lsum_cons, ih, Rat.add_assoc]

theorem lsum_map {α β : Type} (g : α → β) (xs : List α) (F : β → Rat) :
    lsum (xs.map g) F = lsum xs (fun x => F (g x)) := by
  induction xs with
  | nil => rfl
  | cons x xs ih => rw [List.map_cons, lsum_cons, lsum_cons, ih]

theorem lsum_flatMap {α β : Type} (g : α → List β) (xs : List α) (F : β → Rat) :
    lsum (xs.flatMap g) F = lsum xs (fun x => lsum (g x) F) := by
  induction xs with
  | nil => rfl
  | cons x xs ih => rw [List.flatMap_cons, lsum_append, lsum_cons, ih]

theorem lsum_congr {α : Type} (xs : List α) (F G : α → Rat) (h : ∀ x ∈ xs, F x = G x) :
    lsum xs F = lsum xs G := by
  induction xs with
  | nil => rfl
  | cons x xs ih =>
    rw [lsum_cons, lsum_cons, h x (List.mem_cons_self ..),
      ih fun y hy => h y (List.mem_cons_of_mem _ hy)]

theorem lsum_add {α : Type} (xs : List α) (F G : α → Rat) :
    lsum xs (fun x => F x + G x) = lsum xs F + lsum xs G := by
  induction xs with
  | nil => simp [Rat.add_zero]
  | cons x xs ih => rw [lsum_cons, lsum_cons, lsum_cons, ih]; grind

theorem lsum_mul_left {α : Type} (xs : List α) (c : Rat) (F : α → Rat) :
    lsum xs (fun x => c * F x) = c * lsum xs F := by
  induction xs with
  | nil => simp [Rat.mul_zero]
  | cons x xs ih => rw [lsum_cons, lsum_cons, ih, Rat.mul_add]

theorem lsum_mul_right {α : Type} (xs : List α) (c : Rat) (F : α → Rat) :
    lsum xs (fun x => F x * c) = lsum xs F * c := by
  induction xs with
  | nil => simp [Rat.zero_mul]
  | cons x xs ih => rw [lsum_cons, lsum_cons, ih, Rat.add_mul]

theorem lsum_zero {α : Type} (xs : List α) : lsum xs (fun _ => (0 : Rat)) = 0 := by
  induction xs with
  | nil => rfl
  | cons x xs ih => rw [lsum_cons, ih, Rat.add_zero]

/-- exchange of two finite sums -/
theorem lsum_comm {α β : Type} (xs : List α) (ys : List β) (F : α → β → Rat) :
    lsum xs (fun x => lsum ys (fun y => F x y)) = lsum ys (fun y => lsum xs (fun x => F x y)) := by
  induction xs with
  | nil => simp [lsum_zero]
  | cons x xs ih =>
    simp only [lsum_cons]
    rw [lsum_add, ih]

/-- product of two sums -/
theorem lsum_mul_lsum {α β : Type} (xs : List α) (ys : List β) (F : α → Rat) (G : β → Rat) :
    lsum xs F * lsum ys G = lsum xs (fun x => lsum ys (fun y => F x * G y)) := by
  rw [← lsum_mul_right]
  exact lsum_congr _ _ _ fun x _ => (lsum_mul_left ys (F x) G).symm

/-! ### `sumRange` -/

theorem sumRange_eq_lsum (n : Nat) (f : Nat → Rat) : sumRange n f = lsum (List.range n) f := rfl

theorem sumRange_congr (n : Nat) (f g : Nat → Rat) (h : ∀ v, f v = g v) :
    sumRange n f = sumRange n g := by
  have : f = g := funext h
  rw [this]

theorem sumRange_add (n : Nat) (f g : Nat → Rat) :
    sumRange n (fun v => f v + g v) = sumRange n f + sumRange n g := lsum_add _ _ _

theorem sumRange_mul_left (n : Nat) (c : Rat) (f : Nat → Rat) :
    sumRange n (fun v => c * f v) = c * sumRange n f := lsum_mul_left _ _ _

theorem sumRange_comm (n m : Nat) (F : Nat → Nat → Rat) :
    sumRange n (fun v => sumRange m (fun w => F v w)) =
      sumRange m (fun w => sumRange n (fun v => F v w)) := lsum_comm _ _ _

theorem sumRange_lsum {α : Type} (n : Nat) (ts : List α) (F : α → Nat → Rat) :
    sumRange n (fun v => lsum ts (fun t => F t v)) = lsum ts (fun t => sumRange n (F t)) :=
  lsum_comm _ _ _

/-! ### environments -/

theorem Env.get_set (env : Env) (i : String) (v : Nat) (j : String) :
    (env.set i v).get j = if j = i then v else env.get j := by
  by_cases h : j = i
  · subst h; simp [Env.get, Env.set]
  · have : (i == j) = false := by simpa using fun h' => h h'.symm
    simp [Env.get, Env.set, this, h]

/-- the two environments give the same value to every index in `S` -/
def EnvAgree (S : List String) (e1 e2 : Env) : Prop := ∀ i ∈ S, e1.get i = e2.get i

/-- `f` looks at the environment only through the values of the indexes in `S` -/
def DepOn (S : List String) (f : Env → Rat) : Prop := ∀ e1 e2, EnvAgree S e1 e2 → f e1 = f e2

/-- `f` looks at the environment only through `Env.get` -/
def Ext (f : Env → Rat) : Prop := ∀ e1 e2, (∀ i, e1.get i = e2.get i) → f e1 = f e2

theorem DepOn.ext {S : List String} {f : Env → Rat} (h : DepOn S f) : Ext f :=
  fun e1 e2 h' => h e1 e2 fun i _ => h' i

theorem DepOn.mono {S S' : List String} {f : Env → Rat} (h : DepOn S f) (hs : ∀ i ∈ S, i ∈ S') :
    DepOn S' f := fun e1 e2 h' => h e1 e2 fun i hi => h' i (hs i hi)

theorem EnvAgree.set {S : List String} {e1 e2 : Env} (h : EnvAgree S e1 e2) (i : String) (v : Nat) :
    EnvAgree S (e1.set i v) (e2.set i v) := by
  intro j hj
  rw [Env.get_set, Env.get_set, h j hj]

theorem DepOn.set_of_not_mem {S : List String} {f : Env → Rat} (h : DepOn S f) {i : String}
    (hi : i ∉ S) (env : Env) (v : Nat) : f (env.set i v) = f env := by
  apply h
  intro j hj
  rw [Env.get_set, if_neg]
  rintro rfl
  exact hi hj

theorem DepOn.mul {S T : List String} {f g : Env → Rat} (hf : DepOn S f) (hg : DepOn T g) :
    DepOn (S ++ T) (fun e => f e * g e) := by
  intro e1 e2 h
  show f e1 * g e1 = f e2 * g e2
  rw [hf e1 e2 fun i hi => h i (List.mem_append_left _ hi),
    hg e1 e2 fun i hi => h i (List.mem_append_right _ hi)]

/-! ### `sumOver` -/

@[simp] theorem sumOver_nil (sizes : Sizes) (f : Env → Rat) (env : Env) :
    sumOver sizes [] f env = f env := rfl

theorem sumOver_cons (sizes : Sizes) (i : String) (xs : List String) (f : Env → Rat) (env : Env) :
    sumOver sizes (i :: xs) f env
      = sumRange (sizes i) fun v => sumOver sizes xs f (env.set i v) := rfl

theorem sumOver_congr (sizes : Sizes) (xs : List String) (f g : Env → Rat) (h : ∀ e, f e = g e)
    (env : Env) : sumOver sizes xs f env = sumOver sizes xs g env := by
  have : f = g := funext h
  rw [this]

theorem sumOver_append (sizes : Sizes) (xs ys : List String) (f : Env → Rat) (env : Env) :
    sumOver sizes (xs ++ ys) f env = sumOver sizes xs (sumOver sizes ys f) env := by
  induction xs generalizing env with
  | nil => rfl
  | cons i xs ih =>
    rw [List.cons_append, sumOver_cons, sumOver_cons]
    exact sumRange_congr _ _ _ fun v => ih _

theorem sumOver_add (sizes : Sizes) (xs : List String) (f g : Env → Rat) (env : Env) :
    sumOver sizes xs (fun e => f e + g e) env = sumOver sizes xs f env + sumOver sizes xs g env := by
  induction xs generalizing env with
  | nil => rfl
  | cons i xs ih =>
    simp only [sumOver_cons]
    rw [← sumRange_add]
    exact sumRange_congr _ _ _ fun v => ih _

theorem sumOver_lsum {α : Type} (sizes : Sizes) (xs : List String) (ts : List α)
    (F : α → Env → Rat) (env : Env) :
    sumOver sizes xs (fun e => lsum ts (fun t => F t e)) env
      = lsum ts (fun t => sumOver sizes xs (F t) env) := by
  induction xs generalizing env with
  | nil => rfl
  | cons i xs ih =>
    simp only [sumOver_cons]
    rw [← sumRange_lsum]
    exact sumRange_congr _ _ _ fun v => ih _

/-- a factor that does not depend on the summed indexes can be pulled out -/
theorem sumOver_mul_left (sizes : Sizes) (S xs : List String) (g f : Env → Rat) (hg : DepOn S g)
    (hd : ∀ i ∈ xs, i ∉ S) (env : Env) :
    sumOver sizes xs (fun e => g e * f e) env = g env * sumOver sizes xs f env := by
  induction xs generalizing env with
  | nil => rfl
  | cons i xs ih =>
    simp only [sumOver_cons]
    rw [← sumRange_mul_left]
    refine sumRange_congr _ _ _ fun v => ?_
    rw [ih (fun j hj => hd j (List.mem_cons_of_mem _ hj)),
      hg.set_of_not_mem (hd i (List.mem_cons_self ..))]

theorem sumOver_mul_right (sizes : Sizes) (S xs : List String) (g f : Env → Rat) (hg : DepOn S g)
    (hd : ∀ i ∈ xs, i ∉ S) (env : Env) :
    sumOver sizes xs (fun e => f e * g e) env = sumOver sizes xs f env * g env := by
  rw [Rat.mul_comm, ← sumOver_mul_left sizes S xs g f hg hd]
  exact sumOver_congr _ _ _ _ (fun e => Rat.mul_comm _ _) _

theorem sumOver_const_mul (sizes : Sizes) (xs : List String) (c : Rat) (f : Env → Rat) (env : Env) :
    sumOver sizes xs (fun e => c * f e) env = c * sumOver sizes xs f env :=
  sumOver_mul_left sizes [] xs (fun _ => c) f (fun _ _ _ => rfl) (fun _ _ => List.not_mem_nil) env

theorem DepOn.sumOver {S : List String} {f : Env → Rat} (h : DepOn S f) (sizes : Sizes)
    (xs : List String) : DepOn S (sumOver sizes xs f) := by
  induction xs with
  | nil => exact h
  | cons i xs ih =>
    intro e1 e2 he
    simp only [sumOver_cons]
    exact sumRange_congr _ _ _ fun v => ih _ _ (he.set i v)

theorem Ext.sumOver {f : Env → Rat} (h : Ext f) (sizes : Sizes) (xs : List String) :
    Ext (sumOver sizes xs f) := by
  induction xs with
  | nil => exact h
  | cons i xs ih =>
    intro e1 e2 he
    simp only [sumOver_cons]
    refine sumRange_congr _ _ _ fun v => ih _ _ fun j => ?_
    rw [Env.get_set, Env.get_set, he j]

/-- Fubini: the order in which the indexes are summed is irrelevant -/
theorem sumOver_perm (sizes : Sizes) {xs ys : List String} (hp : xs.Perm ys) (f : Env → Rat)
    (hf : Ext f) (env : Env) : sumOver sizes xs f env = sumOver sizes ys f env := by
  induction hp generalizing env with
  | nil => rfl
  | cons i _ ih =>
    simp only [sumOver_cons]
    exact sumRange_congr _ _ _ fun v => ih _
  | swap i j l =>
    simp only [sumOver_cons]
    by_cases hij : i = j
    · subst hij; rfl
    · rw [sumRange_comm]
      refine sumRange_congr _ _ _ fun v => sumRange_congr _ _ _ fun w => ?_
      apply hf.sumOver sizes l
      intro k
      simp only [Env.get_set]
      by_cases h1 : k = i <;> by_cases h2 : k = j <;> simp_all
  | trans _ _ ih1 ih2 => rw [ih1, ih2]

/-- for duplicate-free index lists only the *set* of summed indexes matters -/
theorem sumOver_of_mem_iff (sizes : Sizes) {xs ys : List String} (hx : xs.Nodup) (hy : ys.Nodup)
    (h : ∀ i, i ∈ xs ↔ i ∈ ys) (f : Env → Rat) (hf : Ext f) (env : Env) :
    sumOver sizes xs f env = sumOver sizes ys f env :=
  sumOver_perm sizes ((List.perm_ext_iff_of_nodup hx hy).2 h) f hf env

end TV.Alg
