import TensoraVerif.Lemmas.DesugarSum

/-!
Facts about `dedup`, additive terms (`Term.val`, `Term.indexes`, `termsOf`) and the index sets
`indexesOf` / `inEveryTerm` of `Model/Algebra.lean` (for C01).
-/
namespace TV.Alg

/-! ### `dedup` -/

private theorem dedup_aux (xs acc : List String) :
    let r := xs.foldl (fun acc x => if acc.contains x then acc else acc ++ [x]) acc
    (acc.Nodup → r.Nodup) ∧ ∀ i, i ∈ r ↔ i ∈ acc ∨ i ∈ xs := by
  induction xs generalizing acc with
  | nil => simp
  | cons x xs ih =>
    simp only [List.foldl_cons]
    by_cases hx : acc.contains x = true
    · rw [if_pos hx]
      have hx' : x ∈ acc := List.contains_iff_mem.1 hx
      refine ⟨(ih acc).1, fun i => ?_⟩
      rw [(ih acc).2 i]
      grind
    · rw [if_neg hx]
      have hx' : x ∉ acc := fun h => hx (List.contains_iff_mem.2 h)
      refine ⟨fun hn => (ih (acc ++ [x])).1 ?_, fun i => ?_⟩
      · rw [List.nodup_append]
        refine ⟨hn, by simp, ?_⟩
        grind
      · rw [(ih (acc ++ [x])).2 i]
        grind

@[simp] theorem mem_dedup (xs : List String) (i : String) : i ∈ dedup xs ↔ i ∈ xs := by
  have := (dedup_aux xs []).2 i
  simpa [dedup] using this

theorem nodup_dedup (xs : List String) : (dedup xs).Nodup :=
  (dedup_aux xs []).1 List.nodup_nil

theorem nodup_filter {p : String → Bool} {xs : List String} (h : xs.Nodup) : (xs.filter p).Nodup :=
  h.sublist List.filter_sublist

/-! ### terms -/

theorem Term.indexes_nodup (t : Term) : t.indexes.Nodup := nodup_dedup _

theorem Term.mem_indexes (t : Term) (i : String) :
    i ∈ t.indexes ↔ ∃ f ∈ t.factors, i ∈ f.2 := by
  simp [Term.indexes, List.mem_flatMap]

theorem Term.mem_indexes_mul (a b : Term) (i : String) :
    i ∈ (a.mul b).indexes ↔ i ∈ a.indexes ∨ i ∈ b.indexes := by
  simp only [Term.mem_indexes, Term.mul, List.mem_append]
  grind

theorem Term.indexes_neg (a : Term) : a.neg.indexes = a.indexes := rfl

private theorem foldl_mul_init (inputs : Inputs) (env : Env) (fs : List (String × List String))
    (c : Rat) :
    fs.foldl (fun acc f => acc * inputs f.1 (f.2.map env.get)) c
      = c * fs.foldl (fun acc f => acc * inputs f.1 (f.2.map env.get)) 1 := by
  induction fs generalizing c with
  | nil => simp [Rat.mul_one]
  | cons f fs ih =>
    simp only [List.foldl_cons]
    rw [ih (c * _), ih (1 * _)]
    grind

theorem Term.val_eq (inputs : Inputs) (t : Term) (env : Env) :
    t.val inputs env
      = t.coef * t.factors.foldl (fun acc f => acc * inputs f.1 (f.2.map env.get)) 1 :=
  foldl_mul_init inputs env t.factors t.coef

theorem Term.val_mul (inputs : Inputs) (a b : Term) (env : Env) :
    (a.mul b).val inputs env = a.val inputs env * b.val inputs env := by
  rw [Term.val_eq, Term.val_eq inputs a, Term.val_eq inputs b]
  simp only [Term.mul, List.foldl_append]
  rw [foldl_mul_init inputs env b.factors]
  grind

theorem Term.val_neg (inputs : Inputs) (a : Term) (env : Env) :
    a.neg.val inputs env = -(a.val inputs env) := by
  rw [Term.val_eq, Term.val_eq inputs a]
  simp only [Term.neg]
  grind

/-- the value of a term depends only on the values of its own indexes -/
theorem Term.val_depOn (inputs : Inputs) (t : Term) : DepOn t.indexes (t.val inputs) := by
  intro e1 e2 h
  have key : ∀ f ∈ t.factors, f.2.map e1.get = f.2.map e2.get := by
    intro f hf
    apply List.map_congr_left
    intro i hi
    exact h i ((Term.mem_indexes t i).2 ⟨f, hf, hi⟩)
  simp only [Term.val]
  generalize t.coef = c
  generalize t.factors = fs at key
  induction fs generalizing c with
  | nil => rfl
  | cons f fs ih =>
    simp only [List.foldl_cons]
    rw [key f (List.mem_cons_self ..)]
    exact ih _ (fun g hg => key g (List.mem_cons_of_mem _ hg))

theorem Term.val_ext (inputs : Inputs) (t : Term) : Ext (t.val inputs) := (t.val_depOn inputs).ext

/-! ### index sets -/

theorem nodup_indexesOf (e : SExpr) : (indexesOf e).Nodup := by
  cases e <;> simp [indexesOf, nodup_dedup]

/-- every index of an additive term of `e` is an index of `e` -/
theorem mem_indexesOf_of_term {e : SExpr} {t : Term} (ht : t ∈ termsOf e) {i : String}
    (hi : i ∈ t.indexes) : i ∈ indexesOf e := by
  induction e generalizing t with
  | int v => simp_all [termsOf, Term.mem_indexes]
  | flt v => simp_all [termsOf, Term.mem_indexes]
  | tensor n idx => simp_all [termsOf, Term.mem_indexes, indexesOf]
  | add l r ihl ihr =>
    simp only [termsOf, List.mem_append] at ht
    simp only [indexesOf, mem_dedup, List.mem_append]
    rcases ht with ht | ht
    · exact Or.inl (ihl ht hi)
    · exact Or.inr (ihr ht hi)
  | sub l r ihl ihr =>
    simp only [termsOf, List.mem_append, List.mem_map] at ht
    simp only [indexesOf, mem_dedup, List.mem_append]
    rcases ht with ht | ⟨t', ht, rfl⟩
    · exact Or.inl (ihl ht hi)
    · exact Or.inr (ihr ht hi)
  | mul l r ihl ihr =>
    simp only [termsOf, List.mem_flatMap, List.mem_map] at ht
    simp only [indexesOf, mem_dedup, List.mem_append]
    obtain ⟨a, ha, b, hb, rfl⟩ := ht
    rcases (Term.mem_indexes_mul a b i).1 hi with h | h
    · exact Or.inl (ihl ha h)
    · exact Or.inr (ihr hb h)

/-- `inEveryTerm` is sound: such an index is mentioned by every additive term -/
theorem mem_term_of_inEveryTerm {e : SExpr} {i : String} (hi : i ∈ inEveryTerm e) {t : Term}
    (ht : t ∈ termsOf e) : i ∈ t.indexes := by
  induction e generalizing t with
  | int v => simp [inEveryTerm] at hi
  | flt v => simp [inEveryTerm] at hi
  | tensor n idx => simp_all [termsOf, Term.mem_indexes, inEveryTerm]
  | add l r ihl ihr =>
    simp only [termsOf, List.mem_append] at ht
    simp only [inEveryTerm, List.mem_filter, List.contains_iff_mem] at hi
    rcases ht with ht | ht
    · exact ihl hi.1 ht
    · exact ihr hi.2 ht
  | sub l r ihl ihr =>
    simp only [termsOf, List.mem_append, List.mem_map] at ht
    simp only [inEveryTerm, List.mem_filter, List.contains_iff_mem] at hi
    rcases ht with ht | ⟨t', ht, rfl⟩
    · exact ihl hi.1 ht
    · exact ihr hi.2 (t := t') ht
  | mul l r ihl ihr =>
    simp only [termsOf, List.mem_flatMap, List.mem_map] at ht
    simp only [inEveryTerm, mem_dedup, List.mem_append] at hi
    obtain ⟨a, ha, b, hb, rfl⟩ := ht
    rw [Term.mem_indexes_mul]
    rcases hi with h | h
    · exact Or.inl (ihl h ha)
    · exact Or.inr (ihr h hb)

end TV.Alg
