import TensoraVerif.Lemmas.DimDeadParts

/-!
C16 for every kernel, part 5: `layersToWrite` (the "Compute dense indexes" pointer arithmetic
`prev * <j>_dim + j` is emitted for DENSE levels only), and the certificate on
`appendDeclarations` / `appendCleanup` (which multiply the dimensions of the dense levels of the
output tensor).
-/
namespace TV.Gen
open TV.IR TV.Graph
variable {F : Type}

/-- the layers whose pointer is computed at a node are dense levels of the tensor of the leaf -/
theorem layersToWrite_mem (leaf : Leaf) (iv : String) (later : List String) :
    ∀ x ∈ layersToWrite leaf iv later, x.tensor = leaf.tensor ∧ x.layer < leaf.tensor.indexes.length ∧
      leaf.tensor.modes.getD x.layer .dense = .dense := by
  unfold layersToWrite
  simp only []
  refine (foldl_inv
    (fun (acc : List String × List Leaf × Bool) => ∀ x ∈ acc.2.1, x.tensor = leaf.tensor ∧
      x.layer < leaf.tensor.indexes.length ∧ leaf.tensor.modes.getD x.layer .dense = .dense)
    _ _ _ (by simp) ?_)
  intro acc l hl hacc
  obtain ⟨needed, out, stop⟩ := acc
  simp only [List.mem_map, List.mem_range] at hl
  obtain ⟨l0, hl0, rfl⟩ := hl
  simp only [] at hacc ⊢
  split
  · exact hacc
  · split
    · exact hacc
    · rename_i hm
      have hm : leaf.tensor.modes.getD (l0 + leaf.layer) .dense = .dense := by simpa using hm
      split
      · intro x hx
        rcases List.mem_append.1 hx with hx | hx
        · exact hacc x hx
        · rw [List.mem_singleton] at hx
          subst hx
          exact ⟨rfl, by simp only []; omega, hm⟩
      · exact hacc

/-- the "Compute dense indexes" declarations of a leaf whose tensor is `tensorFree i` -/
theorem layersToWrite_dead (i : String) (leaf : Leaf) (iv : String) (later : List String)
    (h : tensorFree i leaf.tensor = true) :
    ((layersToWrite leaf iv later).all fun layer =>
      (declAssignE layer.ptr .int
        (plus (times layer.prevPtr (.var (dimName layer.index))) (.var layer.index)) : Stmt F).deadVar
          (dimName i)) = true := by
  rw [List.all_eq_true]
  intro x hx
  obtain ⟨ht, hl, hm⟩ := layersToWrite_mem leaf iv later x hx
  have h1 : x.index ≠ i := by
    unfold Leaf.index; rw [ht]; exact tensorFree_level h _ (Or.inl hl) hm
  have h2 : x.index ≠ dimName i := by
    unfold Leaf.index; rw [ht]; exact tensorFree_index h _
  simp [Expr.mentions, h2, dimName_ne h1]

/-! ### `appendDeclarations` -/

theorem declStep_dead (i : String) (cap : Option Int) (t : TensorId) (k : Kind) (ht : tensorFree i t = true)
    (c : Option String) (n : Nat) (hn : n ≤ t.modes.length) :
    ((List.range n).foldl (declStep (F := F) cap t k) (SB.mk' c, true)).1.dead (dimName i) = true := by
  induction n with
  | zero => simp
  | succ n ih =>
    rw [List.range_succ, List.foldl_append, List.foldl_cons, List.foldl_nil]
    have ih := ih (by omega)
    have hflag := declStep_flag (F := F) cap t k (List.range n) (SB.mk' c, true)
    revert ih hflag
    generalize (List.range n).foldl (declStep (F := F) cap t k) (SB.mk' c, true) = acc
    intro ih hflag
    unfold declStep
    cases hm : t.modes.getD n .dense with
    | dense => exact ih
    | compressed =>
      simp only []
      have hm' : acc.2 = true →
          (mulJoin ((List.range n).map fun j => (Expr.var (dimName (t.indexes.getD j "")) : Expr F))).mentions
            (dimName i) = false := by
        intro h2
        rw [h2] at hflag
        have hall : ∀ j, j < n → t.modes.getD j .dense = .dense := by
          simpa [-List.getD_eq_getElem?_getD] using hflag.symm
        apply mentions_mulJoin
        intro e he
        simp only [List.mem_map, List.mem_range] at he
        obtain ⟨j, hj, rfl⟩ := he
        have := tensorFree_level ht j (Or.inr (by omega)) (hall j hj)
        simpa [-List.getD_eq_getElem?_getD, Expr.mentions] using dimName_ne this
      split
      · cases h2 : acc.2 with
        | true =>
          simp [-List.getD_eq_getElem?_getD, Expr.mentions, Stmt.deadVar, ih, hm' h2]
        | false =>
          simp [-List.getD_eq_getElem?_getD, Expr.mentions, Stmt.deadVar, ih]
      · simp [Expr.mentions, ih]

/-- `appendDeclarations` reads the dimensions of the dense levels above the first compressed level
of the output, and (all-dense assembling kernels) the `dimensions` attribute of the output tensor -/
theorem appendDeclarations_dead (i : String) (cap : Option Int) (t : TensorId) (k : Kind)
    (ht : tensorFree i t = true) (hname : t.name ≠ dimName i) :
    (appendDeclarations cap t k : SB F).dead (dimName i) = true := by
  rw [appendDeclarations_eq]
  have hstep := declStep_dead (F := F) i cap t k ht (some "Output initialization") t.modes.length (Nat.le_refl _)
  split
  · simp only [SB.dead_add, deadVar_declAssignE, hstep, Bool.true_and, Stmt.deadVar, Expr.mentions,
      beq_valsName_dimName, beq_valsCapName_dimName, Bool.not_false, Bool.and_true, Bool.not_eq_true']
    split
    · apply mentions_mulJoin
      intro e he
      simp only [List.mem_map, List.mem_range] at he
      obtain ⟨j, _, rfl⟩ := he
      simp [Expr.mentions, hname]
    · simp
  · exact hstep

/-! ### `appendCleanup` -/

theorem appendCleanup_dead (i : String) (t : TensorId) (k : Kind)
    (ht : tensorFree i t = true) (hname : t.name ≠ dimName i) :
    (appendCleanup t k : SB F).dead (dimName i) = true := by
  unfold appendCleanup
  simp only []
  split
  · simp
  · have hstep := foldl_inv
      (fun (acc : SB F × Bool × Expr F × Expr F) =>
        acc.1.dead (dimName i) = true ∧ acc.2.2.1.mentions (dimName i) = false ∧
          acc.2.2.2.mentions (dimName i) = false)
      (fun (acc : SB F × Bool × Expr F × Expr F) l =>
        let (b, allDense, prevSize, padded) := acc
        match t.modes.getD l .dense with
        | .dense =>
          let d : Expr F := .var (dimName (t.indexes.getD l ""))
          (b, allDense, times prevSize d, times padded d)
        | .compressed =>
          let posArr : Expr F := .var (posName t.name l)
          let b := if !allDense then b.add (.assign posArr (.realloc posArr .int (plus prevSize (.intLit 1)))) else b
          let crdArr : Expr F := .var (crdName t.name l)
          let final : Expr F := .var (layerPointer t.id l)
          let b := b.add (.assign crdArr (.realloc crdArr .int final))
          let b := b.add (.assign (.idx (.idx (.attr (.var t.name) "indices") (.intLit l)) (.intLit 0)) posArr)
          let b := b.add (.assign (.idx (.idx (.attr (.var t.name) "indices") (.intLit l)) (.intLit 1)) crdArr)
          (b, false, final, plus final (.intLit 1)))
      (List.range t.modes.length)
      (SB.mk' (some ("Assembling output tensor " ++ t.name)), true, (.intLit 1 : Expr F), (.intLit 1 : Expr F))
      (by simp [Expr.mentions])
      (by
        intro acc l hl hacc
        obtain ⟨b, allDense, prevSize, padded⟩ := acc
        obtain ⟨h1, h2, h3⟩ := hacc
        simp only [] at h1 h2 h3
        simp only []
        split
        · rename_i hm
          have := tensorFree_level ht l (Or.inr (List.mem_range.1 hl)) hm
          have hd : (dimName (t.indexes.getD l "") == dimName i) = false :=
            beq_eq_false_iff_ne.2 (dimName_ne this)
          simp [-List.getD_eq_getElem?_getD, Expr.mentions, h1, h2, h3, hd]
        · split <;> simp [Expr.mentions, Stmt.deadVar, h1, h2, hname])
    revert hstep
    generalize List.foldl _ _ _ = step
    obtain ⟨b, allDense, prevSize, padded⟩ := step
    rintro ⟨h1, h2, h3⟩
    simp only [] at h1 h2 h3
    simp only []
    split <;> simp [Expr.mentions, Stmt.deadVar, h1, h3, hname]

end TV.Gen
