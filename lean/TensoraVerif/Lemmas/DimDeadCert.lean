import TensoraVerif.Lemmas.DimDeadNames
import TensoraVerif.Lemmas.LoweringCert

/-!
C16 for every kernel, part 2: the certificate `deadVarL x` on the builder `SB`, on the expression
helpers of the lowering pass, and the `simp` normal forms `(<name> == dimName i) = false` of the name
lemmas of part 1.
-/
namespace TV.IR
variable {F : Type}

theorem deadVarL_append (x : String) (xs ys : List (Stmt F)) :
    deadVarL x (xs ++ ys) = (deadVarL x xs && deadVarL x ys) := by
  induction xs with
  | nil => simp [deadVarL]
  | cons a xs ih => simp [deadVarL, ih, Bool.and_assoc]

theorem deadVarL_iff (x : String) (xs : List (Stmt F)) :
    deadVarL x xs = true ↔ ∀ s ∈ xs, s.deadVar x = true := by
  induction xs with
  | nil => simp [deadVarL]
  | cons a xs ih => simp [deadVarL, ih]

theorem deadVarL_flatMap {α : Type} (x : String) (xs : List α) (f : α → List (Stmt F))
    (h : ∀ a ∈ xs, deadVarL x (f a) = true) : deadVarL x (xs.flatMap f) = true := by
  rw [deadVarL_iff]
  intro s hs
  obtain ⟨a, ha, hsa⟩ := List.mem_flatMap.1 hs
  exact (deadVarL_iff x _).1 (h a ha) s hsa

end TV.IR

namespace TV.Gen
open TV.IR TV.Graph
variable {F : Type}

/-! ### names, as `simp` rules -/

@[simp] theorem beq_posName_dimName (t : String) (l : Nat) (i : String) : (posName t l == dimName i) = false :=
  beq_eq_false_iff_ne.2 (posName_ne_dimName t l i)
@[simp] theorem beq_crdName_dimName (t : String) (l : Nat) (i : String) : (crdName t l == dimName i) = false :=
  beq_eq_false_iff_ne.2 (crdName_ne_dimName t l i)
@[simp] theorem beq_valsName_dimName (t : String) (i : String) : (valsName t == dimName i) = false :=
  beq_eq_false_iff_ne.2 (valsName_ne_dimName t i)
@[simp] theorem beq_posCapName_dimName (t : String) (l : Nat) (i : String) : (posCapName t l == dimName i) = false :=
  beq_eq_false_iff_ne.2 (posCapName_ne_dimName t l i)
@[simp] theorem beq_crdCapName_dimName (t : String) (l : Nat) (i : String) : (crdCapName t l == dimName i) = false :=
  beq_eq_false_iff_ne.2 (crdCapName_ne_dimName t l i)
@[simp] theorem beq_valsCapName_dimName (t : String) (i : String) : (valsCapName t == dimName i) = false :=
  beq_eq_false_iff_ne.2 (valsCapName_ne_dimName t i)
@[simp] theorem beq_sparseEndName_dimName (r : String) (l : Nat) (i : String) :
    (sparseEndName r l == dimName i) = false :=
  beq_eq_false_iff_ne.2 (sparseEndName_ne_dimName r l i)
@[simp] theorem beq_layerPointer_dimName (r : String) (l : Nat) (i : String) :
    (layerPointer r l == dimName i) = false :=
  beq_eq_false_iff_ne.2 (layerPointer_ne_dimName r l i)
@[simp] theorem beq_valueFromCrd_dimName (r : String) (l : Nat) (i : String) :
    (valueFromCrd r l == dimName i) = false :=
  beq_eq_false_iff_ne.2 (valueFromCrd_ne_dimName r l i)
@[simp] theorem beq_writtenName_dimName (t : String) (l : Nat) (i : String) :
    (writtenName t l == dimName i) = false :=
  beq_eq_false_iff_ne.2 (writtenName_ne_dimName t l i)
@[simp] theorem beq_ptr_dimName (l : Leaf) (i : String) : (l.ptr == dimName i) = false := by
  simp [Leaf.ptr]
@[simp] theorem beq_empty_dimName (i : String) : (("" : String) == dimName i) = false :=
  beq_eq_false_iff_ne.2 (empty_ne_dimName i)

/-! ### the builder -/

/-- `x` is dead in every line of the builder -/
def SB.dead (x : String) (b : SB F) : Bool := deadVarL x b.lines

@[simp] theorem SB.dead_empty (x : String) : (SB.empty : SB F).dead x = true := by
  simp [SB.dead, SB.empty, deadVarL]

@[simp] theorem SB.dead_mk' (x : String) (c : Option String) : (SB.mk' c : SB F).dead x = true := by
  simp [SB.dead, SB.mk', deadVarL]

@[simp] theorem SB.dead_add (x : String) (b : SB F) (s : Stmt F) :
    (b.add s).dead x = (b.dead x && s.deadVar x) := by
  simp [SB.dead, SB.add, deadVarL_append, deadVarL]

@[simp] theorem SB.dead_append (x : String) (b y : SB F) :
    (b.append y).dead x = (b.dead x && y.dead x) := by
  unfold SB.append
  split <;> simp [SB.dead, deadVarL_append, deadVarL, Stmt.deadVar]

@[simp] theorem SB.dead_finalize (x : String) (b : SB F) : b.finalize.deadVar x = b.dead x := by
  simp [SB.finalize, SB.dead, Stmt.deadVar]

@[simp] theorem SB.dead_branch (x : String) (b : SB F) (c : Expr F) (body : List (Stmt F)) :
    (b.branch c body).dead x = (b.dead x && (!c.mentions x && deadVarL x body)) := by
  simp [SB.branch, Stmt.deadVar, deadVarL]

@[simp] theorem SB.dead_loop (x : String) (b : SB F) (c : Expr F) (body : List (Stmt F)) :
    (b.loop c body).dead x = (b.dead x && (!c.mentions x && deadVarL x body)) := by
  simp [SB.loop, Stmt.deadVar]

theorem SB.dead_lines (x : String) (b : SB F) : deadVarL x b.lines = b.dead x := rfl

theorem SB.dead_foldl {α : Type} (x : String) (f : SB F → α → SB F) (xs : List α) (b0 : SB F)
    (h0 : b0.dead x = true) (hf : ∀ b a, a ∈ xs → b.dead x = true → (f b a).dead x = true) :
    (xs.foldl f b0).dead x = true :=
  foldl_inv (fun b => b.dead x = true) f xs b0 h0 hf

theorem SB.dead_foldl_add {α : Type} (x : String) (f : α → Stmt F) (xs : List α) (b0 : SB F) :
    (xs.foldl (fun b a => b.add (f a)) b0).dead x = (b0.dead x && xs.all fun a => (f a).deadVar x) := by
  induction xs generalizing b0 with
  | nil => simp
  | cons a xs ih => simp [ih, Bool.and_assoc]

theorem SB.dead_foldl_foldl_add {α β : Type} (x : String) (g : α → List β) (f : β → Stmt F)
    (xs : List α) (b0 : SB F) :
    (xs.foldl (fun b a => (g a).foldl (fun b y => b.add (f y)) b) b0).dead x =
      (b0.dead x && xs.all fun a => (g a).all fun y => (f y).deadVar x) := by
  induction xs generalizing b0 with
  | nil => simp
  | cons a xs ih => simp [ih, SB.dead_foldl_add, Bool.and_assoc]

/-! ### expression helpers -/

@[simp] theorem mentions_plus (x : String) (a b : Expr F) :
    (plus a b).mentions x = (a.mentions x || b.mentions x) := by simp [plus, Expr.mentions]

@[simp] theorem mentions_times (x : String) (a b : Expr F) :
    (times a b).mentions x = (a.mentions x || b.mentions x) := by simp [times, Expr.mentions]

@[simp] theorem deadVar_declAssignE (x : String) (n : String) (t : Ty) (e : Expr F) :
    (declAssignE n t e).deadVar x = !e.mentions x := by simp [declAssignE, Stmt.deadVar]

@[simp] theorem deadVar_increment (x : String) (t a : Expr F) :
    (increment t a).deadVar x = (!t.mentions x && !a.mentions x) := by
  cases h : t.mentions x <;> simp [increment, Stmt.deadVar, h]

theorem mentions_joinWith (x : String) (op : BinOp) (init : Expr F) (xs : List (Expr F))
    (hi : init.mentions x = false) (hx : ∀ e ∈ xs, e.mentions x = false) :
    (joinWith op init xs).mentions x = false := by
  unfold joinWith
  exact foldl_inv (fun e => e.mentions x = false) (Expr.bin op) xs init hi
    (fun b a ha hb => by
      show (Expr.bin op b a).mentions x = false
      simp only [Expr.mentions, hb, hx a ha, Bool.or_self])

theorem mentions_mulJoin (x : String) (xs : List (Expr F))
    (hx : ∀ e ∈ xs, e.mentions x = false) : (mulJoin xs).mentions x = false :=
  mentions_joinWith x _ _ xs (by simp [Expr.mentions]) hx

theorem mentions_addJoin (x : String) (xs : List (Expr F))
    (hx : ∀ e ∈ xs, e.mentions x = false) : (addJoin xs).mentions x = false :=
  mentions_joinWith x _ _ xs (by simp [Expr.mentions]) hx

theorem mentions_andJoin (x : String) (xs : List (Expr F))
    (hx : ∀ e ∈ xs, e.mentions x = false) : (andJoin xs).mentions x = false :=
  mentions_joinWith x _ _ xs (by simp [Expr.mentions]) hx

theorem mentions_minJoin (x : String) (xs : List (Expr F))
    (hx : ∀ e ∈ xs, e.mentions x = false) : (minJoin xs).mentions x = false := by
  cases xs with
  | nil => simp [minJoin, Expr.mentions]
  | cons a xs =>
    simp only [minJoin]
    exact foldl_inv (fun e => e.mentions x = false) (Expr.bin .min) xs a (hx a (by simp))
      (fun b c hc hb => by
        show (Expr.bin .min b c).mentions x = false
        simp only [Expr.mentions, hb, hx c (by simp [hc]), Bool.or_self])

theorem deadVar_branchJoin (x : String) (xs : List (Expr F × Stmt F))
    (hx : ∀ p ∈ xs, p.1.mentions x = false ∧ p.2.deadVar x = true) : (branchJoin xs).deadVar x = true := by
  induction xs with
  | nil => simp [branchJoin, Stmt.deadVar, deadVarL]
  | cons p xs ih =>
    obtain ⟨c, s⟩ := p
    have := hx (c, s) (by simp)
    simp only [branchJoin, Stmt.deadVar, Bool.and_eq_true, Bool.not_eq_true']
    exact ⟨⟨this.1, this.2⟩, ih (fun p hp => hx p (by simp [hp]))⟩

@[simp] theorem mentions_prevLayerPointer (ref : String) (l : Nat) (i : String) :
    (prevLayerPointer ref l : Expr F).mentions (dimName i) = false := by
  unfold prevLayerPointer; split <;> simp [Expr.mentions]

@[simp] theorem mentions_prevPtr (l : Leaf) (i : String) :
    (l.prevPtr : Expr F).mentions (dimName i) = false := by simp [Leaf.prevPtr]

@[simp] theorem mentions_defaultArraySize (x : String) (cap : Option Int) :
    (defaultArraySize cap : Expr F).mentions x = false := by
  unfold defaultArraySize; split <;> simp [Expr.mentions]

theorem mentions_ravelIndexes (x : String) (dims idxs : List (Expr F))
    (hd : ∀ e ∈ dims, e.mentions x = false) (hi : ∀ e ∈ idxs, e.mentions x = false) :
    (ravelIndexes dims idxs).mentions x = false := by
  unfold ravelIndexes
  apply mentions_addJoin
  have := foldl_inv
    (fun (acc : List (Expr F) × List (Expr F)) =>
      (∀ e ∈ acc.1, e.mentions x = false) ∧ (∀ e ∈ acc.2, e.mentions x = false))
    (fun (acc : List (Expr F) × List (Expr F)) di =>
      (acc.1 ++ [mulJoin (di.2 :: acc.2)], acc.2 ++ [di.1])) (dims.reverse.zip idxs.reverse) ([], [])
    (by simp)
    (by
      intro b di hdi hb
      obtain ⟨d, i⟩ := di
      have hm := List.of_mem_zip hdi
      have hdc := hd d (by simpa using hm.1)
      have hic := hi i (by simpa using hm.2)
      refine ⟨?_, ?_⟩
      · intro e he
        rcases List.mem_append.1 he with he | he
        · exact hb.1 e he
        · rw [List.mem_singleton] at he
          subst he
          apply mentions_mulJoin
          intro y hy
          rcases List.mem_cons.1 hy with hy | hy
          · exact hy ▸ hic
          · exact hb.2 y hy
      · intro e he
        rcases List.mem_append.1 he with he | he
        · exact hb.2 e he
        · rw [List.mem_singleton] at he
          exact he ▸ hdc)
  intro e he
  exact this.1 e (by simpa using he)

@[simp] theorem mentions_toIrWith (ofRat : Rat → F) (e : IdExpr) (i : String) :
    (toIrWith ofRat e).mentions (dimName i) = false := by
  induction e with
  | int v => simp [toIrWith, Expr.mentions]
  | flt q => simp [toIrWith, Expr.mentions]
  | tensor t => simp [toIrWith, Expr.mentions]
  | add l r ihl ihr => simp [toIrWith, Expr.mentions, ihl, ihr]
  | mul l r ihl ihr => simp [toIrWith, Expr.mentions, ihl, ihr]

end TV.Gen
