import TensoraVerif.Lemmas.DimDeadGraph
import TensoraVerif.Props.C16Graph

/-!
C16 for every kernel, part 8 (D5): from the syntactic condition of the property to part (b) of
`dimFree`. `everyTermHas i` / `storesCompressed i` (`Props/C16Graph.lean`) on every terminal
expression of a graph make every context `(n.context i)` sparse (`context_sparse_of_conditionG`);
`storesCompressed i` is implied by part (a) (`tensorFree i` of every tensor). Hence `dimFreeG i`
follows from its static part `dimFreeS i` (part (a), the name check, and "an output leaf of an
iteration over `i` is compressed") plus "every additive term of every terminal mentions `i`".
-/
namespace TV.Gen
open TV.IR TV.Graph

/-- part (a) implies `storesCompressed` -/
theorem storesCompressed_of_allT (i : String) (e : IdExpr) (h : e.allT (tensorFree i) = true) :
    storesCompressed i e = true := by
  induction e with
  | int v => rfl
  | flt v => rfl
  | tensor t =>
    simp only [IdExpr.allT] at h
    simp only [storesCompressed]
    split
    · rfl
    · rename_i l hl
      have hlt := (List.findIdx?_eq_some_iff_getElem.1 hl).1
      have hget : t.indexes[l] = i := by simpa using (List.findIdx?_eq_some_iff_getElem.1 hl).2.1
      simp only [tensorFree, Bool.and_eq_true, List.all_eq_true, List.mem_range, Bool.or_eq_true, bne_iff_ne,
        beq_iff_eq] at h
      rcases h.1 l (by omega) with h' | h'
      · exact absurd (by simp [List.getD_eq_getElem?_getD, List.getElem?_eq_getElem hlt, hget]) h'
      · simpa using h'
  | add l r ihl ihr =>
    simp only [IdExpr.allT, Bool.and_eq_true] at h
    simp [storesCompressed, ihl h.1, ihr h.2]
  | mul l r ihl ihr =>
    simp only [IdExpr.allT, Bool.and_eq_true] at h
    simp [storesCompressed, ihl h.1, ihr h.2]

mutual
/-- a predicate on every terminal expression of a graph -/
def _root_.TV.Graph.IGraph.termsAll (p : IdExpr → Bool) : IGraph → Bool
  | .terminal e => p e
  | .iter _ _ n => n.termsAll p
  | .sum ts => termsAllL p ts
def termsAllL (p : IdExpr → Bool) : List IGraph → Bool
  | [] => true
  | t :: ts => t.termsAll p && termsAllL p ts
end

mutual
/-- the syntactic condition of C16 on every terminal makes the context of the graph sparse -/
theorem context_sparse_of_conditionG (i : String) (g : IGraph)
    (h1 : g.termsAll (everyTermHas i) = true) (h2 : g.termsAll (storesCompressed i) = true) :
    (g.context i).isSparse = true := by
  cases g with
  | terminal e =>
    simp only [IGraph.termsAll] at h1 h2
    simp only [IGraph.context]
    exact context_sparse_of_condition e i h1 h2
  | iter j o n =>
    simp only [IGraph.termsAll] at h1 h2
    simp only [IGraph.context]
    exact context_sparse_of_conditionG i n h1 h2
  | sum ts =>
    simp only [IGraph.termsAll] at h1 h2
    simp only [IGraph.context]
    exact contextL_sparse_of_conditionG i ts h1 h2
theorem contextL_sparse_of_conditionG (i : String) (ts : List IGraph)
    (h1 : termsAllL (everyTermHas i) ts = true) (h2 : termsAllL (storesCompressed i) ts = true) :
    (contextL i ts).isSparse = true := by
  cases ts with
  | nil => simp [contextL]
  | cons t ts =>
    simp only [termsAllL, Bool.and_eq_true] at h1 h2
    simp only [contextL, Bool.and_eq_true]
    exact ⟨context_sparse_of_conditionG i t h1.1 h2.1, contextL_sparse_of_conditionG i ts h1.2 h2.2⟩
end

mutual
/-- the static part of `dimFreeG`: part (a), the name check, and "the output leaf of an iteration
over `i`, if any, is compressed" — everything except the sparsity of the contexts -/
def _root_.TV.Graph.IGraph.dimFreeS (i : String) : IGraph → Bool
  | .terminal e => e.allT (tensorFree i)
  | .iter j o n =>
    (j != dimName i &&
      (match o with | some l => tensorFree i l.tensor && (j != i || l.mode == .compressed) | none => true)) &&
    n.dimFreeS i
  | .sum ts => dimFreeSL i ts
def dimFreeSL (i : String) : List IGraph → Bool
  | [] => true
  | t :: ts => t.dimFreeS i && dimFreeSL i ts
end

mutual
theorem termsAll_storesCompressed_of_dimFreeS (i : String) (g : IGraph) (h : g.dimFreeS i = true) :
    g.termsAll (storesCompressed i) = true := by
  cases g with
  | terminal e =>
    simp only [IGraph.dimFreeS] at h
    simp only [IGraph.termsAll]
    exact storesCompressed_of_allT i e h
  | iter j o n =>
    simp only [IGraph.dimFreeS, Bool.and_eq_true] at h
    simp only [IGraph.termsAll]
    exact termsAll_storesCompressed_of_dimFreeS i n h.2
  | sum ts =>
    simp only [IGraph.dimFreeS] at h
    simp only [IGraph.termsAll]
    exact termsAllL_storesCompressed_of_dimFreeSL i ts h
theorem termsAllL_storesCompressed_of_dimFreeSL (i : String) (ts : List IGraph) (h : dimFreeSL i ts = true) :
    termsAllL (storesCompressed i) ts = true := by
  cases ts with
  | nil => rfl
  | cons t ts =>
    simp only [dimFreeSL, Bool.and_eq_true] at h
    simp only [termsAllL, Bool.and_eq_true]
    exact ⟨termsAll_storesCompressed_of_dimFreeS i t h.1, termsAllL_storesCompressed_of_dimFreeSL i ts h.2⟩
end

mutual
/-- **D5.** static part + "every additive term of every terminal mentions `i`" ⟹ `dimFreeG i` -/
theorem dimFreeG_of_condition (i : String) (g : IGraph) (hs : g.dimFreeS i = true)
    (h1 : g.termsAll (everyTermHas i) = true) : g.dimFreeG i = true := by
  cases g with
  | terminal e => simpa [IGraph.dimFreeS, IGraph.dimFreeG] using hs
  | iter j o n =>
    have hs' := hs
    simp only [IGraph.dimFreeS, Bool.and_eq_true] at hs'
    simp only [IGraph.termsAll] at h1
    simp only [IGraph.dimFreeG, Bool.and_eq_true, Bool.or_eq_true]
    refine ⟨⟨⟨hs'.1.1, ?_⟩, ?_⟩, dimFreeG_of_condition i n hs'.2 h1⟩
    · cases o with
      | none => rfl
      | some l =>
        have := hs'.1.2
        simp only [Bool.and_eq_true] at this
        exact this.1
    · by_cases hj : j = i
      · right
        subst hj
        simp only [dimIterSparse, nodeContext, Bool.and_eq_true]
        refine ⟨context_sparse_of_conditionG j n h1 (termsAll_storesCompressed_of_dimFreeS j n hs'.2), ?_⟩
        cases o with
        | none => rfl
        | some l =>
          have := hs'.1.2
          simp only [Bool.and_eq_true, Bool.or_eq_true, bne_iff_ne, ne_eq, not_true_eq_false, false_or] at this
          simpa [isSparseOutput] using this.2
      · left; simpa using hj
  | sum ts =>
    simp only [IGraph.dimFreeS] at hs
    simp only [IGraph.termsAll] at h1
    simp only [IGraph.dimFreeG]
    exact dimFreeGL_of_condition i ts hs h1
theorem dimFreeGL_of_condition (i : String) (ts : List IGraph) (hs : dimFreeSL i ts = true)
    (h1 : termsAllL (everyTermHas i) ts = true) : dimFreeGL i ts = true := by
  cases ts with
  | nil => rfl
  | cons t ts =>
    simp only [dimFreeSL, Bool.and_eq_true] at hs
    simp only [termsAllL, Bool.and_eq_true] at h1
    simp only [dimFreeGL, Bool.and_eq_true]
    exact ⟨dimFreeG_of_condition i t hs.1 h1.1, dimFreeGL_of_condition i ts hs.2 h1.2⟩
end

end TV.Gen
