import TensoraVerif.Lemmas.DimDeadGenerate
import TensoraVerif.Lemmas.DimDeadCondition
import TensoraVerif.Props.C08Lowering

/-!
C16 for every kernel: closed examples.

* `addGraph` — sparse vector addition `a(i) = b(i) + c(i)`, all three vectors compressed. It is the
  graph the compiler chooses (`bestAlgorithm`), `dimFree "i"` holds, every kernel kind is generated.
* `denseGraph` — `a(i) = b(i)`, `a` compressed, `b` DENSE: `dimFree "i"` fails, the kernel is
  generated and its loop condition is `i < i_dim`: `i_dim` is read.
-/
namespace TV.Gen.DimDeadEx
open TV.IR TV.Gen TV.Graph

abbrev ofR : Rat → Int := fun r => r.num

def aT : TensorId := ⟨"0_a", "a", ["i"], [.compressed]⟩
def bT : TensorId := ⟨"1_b", "b", ["i"], [.compressed]⟩
def cT : TensorId := ⟨"2_c", "c", ["i"], [.compressed]⟩
def bD : TensorId := ⟨"1_b", "b", ["i"], [.dense]⟩

def fmS : Formats := [("a", [.compressed], [0]), ("b", [.compressed], [0]), ("c", [.compressed], [0])]
def fmD : Formats := [("a", [.compressed], [0]), ("b", [.dense], [0])]

def asgAdd : Alg.DAssign := ⟨"a", ["i"], .add (.tensor 1 "b" ["i"]) (.tensor 2 "c" ["i"])⟩
def asgCopy : Alg.DAssign := ⟨"a", ["i"], .tensor 1 "b" ["i"]⟩

def addGraph : IGraph := .iter "i" (some ⟨aT, 0⟩) (.terminal (.add (.tensor bT) (.tensor cT)))
def denseGraph : IGraph := .iter "i" (some ⟨aT, 0⟩) (.terminal (.tensor bD))

theorem outTensor_add : outTensor asgAdd fmS = aT := by decide
theorem outTensor_copy : outTensor asgCopy fmD = aT := by decide

/-- the graphs are the ones the compiler picks -/
theorem bestAlgorithm_add :
    (match bestAlgorithm asgAdd fmS with | .graph g => some g | _ => none) = some addGraph := by rfl

theorem addGraph_dimFree : dimFree "i" (outTensor asgAdd fmS) addGraph = true := by decide
theorem addGraph_names : namesClear "i" asgAdd fmS = true := by decide

theorem addGraph_ok (k : Kind) : ∃ f, generateIr (F := Int) ofR none asgAdd fmS addGraph k = .ok f :=
  generateIr_ok_of_lowerableX ofR none asgAdd fmS addGraph k (by decide) (by decide)

theorem denseGraph_not_dimFree : dimFree "i" (outTensor asgCopy fmD) denseGraph = false := by decide
theorem denseGraph_names : namesClear "i" asgCopy fmD = true := by decide

theorem subgraphs_dense : generateSubgraphs (.iter "i" (some ⟨aT, 0⟩) (.terminal (.tensor bD))) =
    [.iter "i" (some ⟨aT, 0⟩) (.terminal (.tensor bD))] := by rfl

theorem next_aT (k : Kind) : (Output.append aT 0).next (F := Int) (some 0) k = .ok (.append aT 1, SB.empty) := by
  rfl

theorem lower_terminal_dense (n : Nat) :
    ∃ b, lower (F := Int) ofR (n + 1) (.terminal (.tensor bD)) (.append aT 1) .compute = .ok b := by
  unfold lower
  exact ⟨_, rfl⟩

/-- the lowering of `denseGraph` succeeds and the loop condition reads `i_dim` -/
theorem lower_dense (n : Nat) :
    ∃ b, lower (F := Int) ofR (n + 2) denseGraph (.append aT 0) .compute = .ok b ∧
      b.dead (dimName "i") = false := by
  obtain ⟨bt, hbt⟩ := lower_terminal_dense n
  unfold denseGraph
  unfold lower
  simp only [subgraphs_dense, Option.map, next_aT, List.foldlM_cons, List.foldlM_nil, bind, Except.bind,
    pure, Except.pure, hbt]
  exact ⟨_, rfl, rfl⟩

theorem bestAlgorithm_copy :
    (match bestAlgorithm asgCopy fmD with | .graph g => some g | _ => none) = some denseGraph := by rfl

/-- if the lowering of the graph succeeds, so does `generateIr` -/
theorem generateIr_ok_of_lower {F : Type} (ofRat : Rat → F) (cap : Option Int) (a : Alg.DAssign) (formats : Formats)
    (g : IGraph) (k : Kind) (body : SB F)
    (h : lower ofRat (4 * g.size + 8) g (.append (outTensor a formats) 0) k = .ok body) :
    ∃ f, generateIr ofRat cap a formats g k = .ok f := by
  unfold generateIr
  simp only []
  unfold outTensor at h
  rw [h]
  exact ⟨_, rfl⟩

/-- a mention of `x` in the lowered graph is a mention of `x` in the kernel -/
theorem generateIr_dead_false {F : Type} (ofRat : Rat → F) (cap : Option Int) (a : Alg.DAssign) (formats : Formats)
    (g : IGraph) (k : Kind) (body : SB F) (x : String)
    (hb : lower ofRat (4 * g.size + 8) g (.append (outTensor a formats) 0) k = .ok body)
    (hd : body.dead x = false) :
    ∃ f, generateIr ofRat cap a formats g k = .ok f ∧ f.body.deadVar x = false := by
  obtain ⟨f, hf⟩ := generateIr_ok_of_lower ofRat cap a formats g k body hb
  refine ⟨f, hf, ?_⟩
  obtain ⟨body', hbody, hfb, -⟩ := generateIr_body ofRat cap a formats g k f hf
  rw [hb] at hbody
  cases hbody
  rw [hfb]
  simp [Stmt.deadVar, deadVarL, deadVarL_append, SB.dead_appended, hd]

/-- the `compute` kernel of `a(i) = b(i)` with a dense `b` is generated and reads `i_dim` -/
theorem generateIr_dense :
    ∃ f, generateIr (F := Int) ofR none asgCopy fmD denseGraph .compute = .ok f ∧
      f.body.deadVar (dimName "i") = false := by
  obtain ⟨b, hb, hd⟩ := lower_dense 14
  exact generateIr_dead_false ofR none asgCopy fmD denseGraph .compute b _
    (by rw [outTensor_copy]; exact hb) hd

end TV.Gen.DimDeadEx
