import TensoraVerif.Lemmas.DimDeadLower
import TensoraVerif.Lemmas.LoweringGenerate
import TensoraVerif.Lemmas.LoweringPeep

/-!
C16 for every kernel, part 7: the whole function produced by `generateIr`. The "Extract dimensions"
block DECLARES `<j>_dim := <tensor>->dimensions[d]` (allowed by `deadVar`; the right-hand sides
mention only tensor names), "Unpack tensors" mentions only tensor names, "Output initialization" and
the cleanup multiply the dimensions of the DENSE levels of the output tensor.

Name hygiene (`namesClear`): the tensor names and the two bucket names the pass does not decorate
with a layer number are not the text `<i>_dim`. It follows from `'_' ∉ i` and `'_' ∉` tensor names
(`namesClear_of_no_underscore`): every name the parser accepts is alphanumeric.
-/
namespace TV.Gen
open TV.IR TV.Graph
variable {F : Type}

theorem SB.dead_appended (x : String) (b : SB F) : deadVarL x b.appended = b.dead x := by
  unfold SB.appended
  split <;> simp [deadVarL, Stmt.deadVar, SB.dead]

/-- name hygiene for the index `i`: no tensor name of the problem (those whose `dimensions` are
extracted, those that are unpacked, the output) and neither of `bucket_<out id>`,
`i_bucket_<out id>` is the text `<i>_dim` -/
def namesClear (i : String) (a : Alg.DAssign) (formats : Formats) : Bool :=
  (indexDimensions a).all (fun e => e.2.1 != dimName i) &&
  formats.all (fun e => e.1 != dimName i) &&
  (outTensor a formats).name != dimName i &&
  bucketName (outTensor a formats) [] != dimName i &&
  bucketLoopName (outTensor a formats) [] != dimName i

theorem dimDecls_dead (i : String) (a : Alg.DAssign)
    (h : ∀ e ∈ indexDimensions a, e.2.1 ≠ dimName i) :
    deadVarL (dimName i) (dimDecls a : List (Stmt F)) = true := by
  rw [deadVarL_iff]
  intro s hs
  simp only [dimDecls, List.mem_map] at hs
  obtain ⟨⟨j, name, d⟩, he, rfl⟩ := hs
  simpa [Expr.mentions] using h _ he

theorem unpackDecls_dead (i : String) (formats : Formats) (h : ∀ e ∈ formats, e.1 ≠ dimName i) :
    deadVarL (dimName i) (unpackDecls formats : List (Stmt F)) = true := by
  unfold unpackDecls
  apply deadVarL_flatMap
  rintro ⟨name, modes, o⟩ he
  have hn : name ≠ dimName i := h _ he
  rw [deadVarL_append]
  simp only [Bool.and_eq_true]
  constructor
  · apply deadVarL_flatMap
    intro l _
    split <;> simp [deadVarL, Expr.mentions, hn]
  · simp [deadVarL, Expr.mentions, hn]

/-- **D3 (lemma form).** -/
theorem generateIr_dead (i : String) (ofRat : Rat → F) (cap : Option Int) (a : Alg.DAssign)
    (formats : Formats) (g : IGraph) (k : Kind) (f : Func F)
    (hfree : dimFree i (outTensor a formats) g = true) (hnames : namesClear i a formats = true)
    (h : generateIr ofRat cap a formats g k = .ok f) : f.body.deadVar (dimName i) = true := by
  obtain ⟨body, hbody, hf, -⟩ := generateIr_body ofRat cap a formats g k f h
  simp only [dimFree, Bool.and_eq_true] at hfree
  simp only [namesClear, Bool.and_eq_true, List.all_eq_true, bne_iff_ne] at hnames
  obtain ⟨⟨⟨⟨hn1, hn2⟩, hn3⟩, hn4⟩, hn5⟩ := hnames
  have hout : (Output.append (outTensor a formats) 0).dimOK i := ⟨hfree.1, hn4, hn5⟩
  rw [hf]
  simp only [Stmt.deadVar, deadVarL, deadVarL_append, SB.dead_appended, SB.dead_lines, Bool.and_eq_true]
  exact ⟨dimDecls_dead i a hn1, unpackDecls_dead i formats hn2,
    appendDeclarations_dead i cap _ k hfree.1 hn3,
    ⟨lower_dead i ofRat k _ _ _ _ hout hfree.2 hbody, appendCleanup_dead i _ k hfree.1 hn3⟩,
    by simp [Expr.mentions]⟩

/-! ### names without `'_'` -/

theorem outTensor_name (a : Alg.DAssign) (formats : Formats) :
    (outTensor a formats).name = a.tname ∨ (outTensor a formats).name = "" := by
  unfold outTensor tensorId
  split
  · right; rfl
  · left; rfl

theorem outTensor_id (a : Alg.DAssign) (formats : Formats) :
    (outTensor a formats).id = toString 0 ++ "_" ++ a.tname ∨ (outTensor a formats).id = "" := by
  unfold outTensor tensorId
  split
  · right; rfl
  · left; rfl

/-- with an index name free of `'_'`, `bucket_<id>` is `<i>_dim` only if `i = "bucket"` and `<id>` is
the text `dim` -/
theorem bucket_ne_of_no_underscore (i : String) (pre id : String) (hpre : '_' ∉ pre.toList)
    (hi : '_' ∉ i.toList) (hid : id ≠ "dim") : pre ++ "_" ++ id ≠ dimName i := by
  intro e
  have e' := congrArg String.toList e
  rw [dimName_toList] at e'
  simp only [String.toList_append, lit_underscore, List.append_assoc, List.singleton_append] at e'
  have hd : "_dim".toList = '_' :: "dim".toList := by decide
  rw [hd] at e'
  have h1 := head_unique hpre hi e'
  rw [h1] at e'
  have h2 := List.append_cancel_left e'
  simp only [List.cons.injEq, true_and] at h2
  exact hid (String.toList_inj.1 h2)

theorem namesClear_of_no_underscore (i : String) (a : Alg.DAssign) (formats : Formats)
    (hi : '_' ∉ i.toList)
    (h1 : ∀ e ∈ indexDimensions a, '_' ∉ e.2.1.toList)
    (h2 : ∀ e ∈ formats, '_' ∉ e.1.toList)
    (h3 : '_' ∉ a.tname.toList) :
    namesClear i a formats = true := by
  simp only [namesClear, Bool.and_eq_true, List.all_eq_true, bne_iff_ne]
  have hidne : (outTensor a formats).id ≠ "dim" := by
    rcases outTensor_id a formats with h | h
    · rw [h]
      intro e
      have := congrArg String.toList e
      have hc : '_' ∈ (toString 0 ++ "_" ++ a.tname).toList := by simp [String.toList_append]
      rw [this] at hc
      revert hc; decide
    · rw [h]; decide
  refine ⟨⟨⟨⟨fun e he => ne_dimName_of_no_underscore i (h1 e he),
    fun e he => ne_dimName_of_no_underscore i (h2 e he)⟩, ?_⟩, ?_⟩, ?_⟩
  · rcases outTensor_name a formats with h | h
    · rw [h]; exact ne_dimName_of_no_underscore i h3
    · rw [h]; exact empty_ne_dimName i
  · have := bucket_ne_of_no_underscore i "bucket" (outTensor a formats).id (by decide) hi hidne
    simpa [bucketName, bucketSuffix, String.append_assoc] using this
  · intro e
    have e' := congrArg String.toList e
    rw [dimName_toList] at e'
    have hl : (bucketLoopName (outTensor a formats) []).toList =
        "i".toList ++ '_' :: ("bucket_" ++ (outTensor a formats).id).toList := by
      simp [bucketLoopName, bucketSuffix, String.toList_append]
    have hd : "_dim".toList = '_' :: "dim".toList := by decide
    rw [hl, hd] at e'
    have h1 := head_unique (by decide) hi e'
    rw [h1] at e'
    have h2 := List.append_cancel_left e'
    simp only [List.cons.injEq, true_and] at h2
    have hc : '_' ∈ ("bucket_" ++ (outTensor a formats).id).toList := by simp [String.toList_append]
    rw [h2] at hc
    revert hc; decide

end TV.Gen
