import TensoraVerif.Lemmas.DimDeadCert
import TensoraVerif.Lemmas.LowerableSubgraphs

/-!
C16 for every kernel, part 3: the graph-level condition `dimFree i outT g` and its preservation by
everything the lowering does to graphs before recursing (`IGraph.exhaust`, `generateSubgraphs`,
stepping below an iteration node).

* `tensorFree i t` — every level of `t` whose index is `i` is compressed (levels are counted up to
  `max indexes.length modes.length`, exactly the range in which the pass reads `indexes.getD`), and
  no index name of `t` is itself the text `<i>_dim`.
* `IGraph.dimFreeG i g` — every tensor in a terminal expression and every output leaf is
  `tensorFree i`; no iteration variable is the text `<i>_dim`; every iteration node over `i` is
  lowered as a SPARSE loop (`dimIterSparse`: exactly the `isSparse` of `lower`).
-/
namespace TV.Gen
open TV.IR TV.Graph

/-- every level of `t` whose index is `i` is compressed; no index name of `t` is `<i>_dim` -/
def tensorFree (i : String) (t : TensorId) : Bool :=
  ((List.range (max t.indexes.length t.modes.length)).all fun l =>
      t.indexes.getD l "" != i || t.modes.getD l .dense == .compressed) &&
  t.indexes.all (· != dimName i)

theorem tensorFree_level {i : String} {t : TensorId} (h : tensorFree i t = true) (l : Nat)
    (hl : l < t.indexes.length ∨ l < t.modes.length) (hm : t.modes.getD l .dense = .dense) :
    t.indexes.getD l "" ≠ i := by
  simp only [tensorFree, Bool.and_eq_true, List.all_eq_true, List.mem_range, Bool.or_eq_true, bne_iff_ne,
    beq_iff_eq] at h
  rcases h.1 l (by omega) with h' | h'
  · exact h'
  · rw [hm] at h'; cases h'

theorem tensorFree_index {i : String} {t : TensorId} (h : tensorFree i t = true) (l : Nat) :
    t.indexes.getD l "" ≠ dimName i := by
  simp only [tensorFree, Bool.and_eq_true, List.all_eq_true, bne_iff_ne] at h
  by_cases hl : l < t.indexes.length
  · have : t.indexes.getD l "" ∈ t.indexes := by
      simp [List.getD_eq_getElem?_getD, List.getElem?_eq_getElem hl]
    exact h.2 _ this
  · have : t.indexes.getD l "" = "" := by
      simp [List.getD_eq_getElem?_getD, List.getElem?_eq_none (Nat.le_of_not_lt hl)]
    rw [this]; exact empty_ne_dimName i

/-- a predicate on every tensor occurrence of an identifiable expression -/
def _root_.TV.Graph.IdExpr.allT (p : TensorId → Bool) : IdExpr → Bool
  | .int _ => true
  | .flt _ => true
  | .tensor t => p t
  | .add l r => l.allT p && r.allT p
  | .mul l r => l.allT p && r.allT p

/-- the `isSparse` of `lower` at the node `.iter j o n` -/
def dimIterSparse (j : String) (o : Option Leaf) (n : IGraph) : Bool :=
  (nodeContext (.iter j o n)).isSparse && (o.isNone || isSparseOutput (.iter j o n))

mutual
def _root_.TV.Graph.IGraph.dimFreeG (i : String) : IGraph → Bool
  | .terminal e => e.allT (tensorFree i)
  | .iter j o n =>
    (j != dimName i && (match o with | some l => tensorFree i l.tensor | none => true) &&
      (j != i || dimIterSparse j o n)) && n.dimFreeG i
  | .sum ts => dimFreeGL i ts
def dimFreeGL (i : String) : List IGraph → Bool
  | [] => true
  | t :: ts => t.dimFreeG i && dimFreeGL i ts
end

/-- **D1.** the graph-level condition: the output tensor and the graph are free of the size of `i` -/
def dimFree (i : String) (outT : TensorId) (g : IGraph) : Bool := tensorFree i outT && g.dimFreeG i

theorem dimFreeGL_iff (i : String) (ts : List IGraph) :
    dimFreeGL i ts = true ↔ ∀ t ∈ ts, t.dimFreeG i = true := by
  induction ts with
  | nil => simp [dimFreeGL]
  | cons t ts ih => simp [dimFreeGL, ih]

/-! ### `exhaust` on expressions -/

theorem allT_exhaust (p : TensorId → Bool) (ref : String) (e : IdExpr) (h : e.allT p = true) :
    (Graph.exhaust e ref).allT p = true := by
  induction e with
  | int v => simp [Graph.exhaust, IdExpr.allT]
  | flt v => simp [Graph.exhaust, IdExpr.allT]
  | tensor t =>
    simp only [Graph.exhaust]
    split
    · simp [IdExpr.allT]
    · exact h
  | add l r ihl ihr =>
    simp only [IdExpr.allT, Bool.and_eq_true] at h
    simp only [Graph.exhaust]
    split
    · simp [IdExpr.allT, h.1, h.2]
    · split
      · exact ihr h.2
      · split
        · exact ihl h.1
        · simp [IdExpr.allT, ihl h.1, ihr h.2]
  | mul l r ihl ihr =>
    simp only [IdExpr.allT, Bool.and_eq_true] at h
    simp only [Graph.exhaust]
    split
    · simp [IdExpr.allT, h.1, h.2]
    · split
      · simp [IdExpr.allT]
      · simp [IdExpr.allT, ihl h.1, ihr h.2]

/-- exhausting a tensor keeps a sparse context sparse -/
theorem extractContext_isSparse_exhaust (i ref : String) (e : IdExpr)
    (h : (extractContext e i).isSparse = true) : (extractContext (Graph.exhaust e ref) i).isSparse = true := by
  induction e with
  | int v => simpa [Graph.exhaust] using h
  | flt v => simpa [Graph.exhaust] using h
  | tensor t =>
    simp only [Graph.exhaust]
    split
    · simp [extractContext]
    · exact h
  | add l r ihl ihr =>
    simp only [extractContext, context_add_isSparse, Bool.and_eq_true] at h
    simp only [Graph.exhaust]
    split
    · simp [extractContext, context_add_isSparse, h.1, h.2]
    · split
      · exact ihr h.2
      · split
        · exact ihl h.1
        · simp [extractContext, context_add_isSparse, ihl h.1, ihr h.2]
  | mul l r ihl ihr =>
    simp only [extractContext, context_mul_isSparse, Bool.or_eq_true] at h
    simp only [Graph.exhaust]
    split
    · simp only [extractContext, context_mul_isSparse, Bool.or_eq_true]; exact h
    · split
      · simp [extractContext]
      · simp only [extractContext, context_mul_isSparse, Bool.or_eq_true]
        exact h.imp ihl ihr

theorem allT_denseLeaves (p : TensorId → Bool) (i : String) (e : IdExpr) (h : e.allT p = true) :
    ∀ l ∈ (extractContext e i).denseLeaves, p l.tensor = true := by
  induction e with
  | int v => simp [extractContext]
  | flt v => simp [extractContext]
  | tensor t =>
    simp only [extractContext]
    split
    · simp
    · split
      · simpa [IdExpr.allT] using h
      · simp
  | add l r ihl ihr =>
    simp only [IdExpr.allT, Bool.and_eq_true] at h
    simp only [extractContext, Context.add, List.mem_append]
    rintro x (hx | hx)
    · exact ihl h.1 x hx
    · exact ihr h.2 x hx
  | mul l r ihl ihr =>
    simp only [IdExpr.allT, Bool.and_eq_true] at h
    simp only [extractContext, Context.mul, List.mem_append]
    rintro x (hx | hx)
    · exact ihl h.1 x hx
    · exact ihr h.2 x hx

/-! ### `exhaust` on graphs -/

mutual
theorem context_isSparse_exhaust (i ref : String) (g : IGraph) (h : (g.context i).isSparse = true) :
    ((g.exhaust ref).context i).isSparse = true := by
  cases g with
  | terminal e =>
    simp only [IGraph.exhaust, IGraph.context] at h ⊢
    exact extractContext_isSparse_exhaust i ref e h
  | iter j o n =>
    simp only [IGraph.exhaust, IGraph.context] at h ⊢
    exact context_isSparse_exhaust i ref n h
  | sum ts =>
    simp only [IGraph.context] at h
    have hl := contextL_isSparse_exhaust i ref ts h
    simp only [IGraph.exhaust]
    split
    · simp [IGraph.context, extractContext]
    · rename_i single heq
      rw [heq] at hl
      simpa [contextL] using hl
    · simpa [IGraph.context] using hl
theorem contextL_isSparse_exhaust (i ref : String) (ts : List IGraph) (h : (contextL i ts).isSparse = true) :
    (contextL i (exhaustL ref ts)).isSparse = true := by
  cases ts with
  | nil => simp [exhaustL, contextL]
  | cons t ts =>
    simp only [contextL, Bool.and_eq_true] at h
    simp only [exhaustL, contextL, Bool.and_eq_true]
    exact ⟨context_isSparse_exhaust i ref t h.1, contextL_isSparse_exhaust i ref ts h.2⟩
end

theorem dimIterSparse_exhaust (j : String) (o : Option Leaf) (n : IGraph) (ref : String)
    (h : dimIterSparse j o n = true) : dimIterSparse j o (n.exhaust ref) = true := by
  simp only [dimIterSparse, nodeContext, Bool.and_eq_true] at h ⊢
  refine ⟨context_isSparse_exhaust j ref n h.1, ?_⟩
  cases o with
  | none => simp
  | some l => simpa [isSparseOutput] using h.2

mutual
theorem dimFreeG_exhaust (i ref : String) (g : IGraph) (h : g.dimFreeG i = true) :
    (g.exhaust ref).dimFreeG i = true := by
  cases g with
  | terminal e =>
    simp only [IGraph.exhaust, IGraph.dimFreeG] at h ⊢
    exact allT_exhaust _ ref e h
  | iter j o n =>
    simp only [IGraph.dimFreeG, Bool.and_eq_true, Bool.or_eq_true] at h
    simp only [IGraph.exhaust, IGraph.dimFreeG, Bool.and_eq_true, Bool.or_eq_true]
    exact ⟨⟨h.1.1, h.1.2.imp id (dimIterSparse_exhaust j o n ref)⟩, dimFreeG_exhaust i ref n h.2⟩
  | sum ts =>
    simp only [IGraph.dimFreeG] at h
    have hl := dimFreeGL_exhaustL i ref ts h
    simp only [IGraph.exhaust]
    split
    · simp [IGraph.dimFreeG, IdExpr.allT]
    · rename_i single heq
      rw [heq] at hl
      simpa [dimFreeGL] using hl
    · simpa [IGraph.dimFreeG] using hl
theorem dimFreeGL_exhaustL (i ref : String) (ts : List IGraph) (h : dimFreeGL i ts = true) :
    dimFreeGL i (exhaustL ref ts) = true := by
  cases ts with
  | nil => simp [exhaustL, dimFreeGL]
  | cons t ts =>
    simp only [dimFreeGL, Bool.and_eq_true] at h
    simp only [exhaustL, dimFreeGL, Bool.and_eq_true]
    exact ⟨dimFreeG_exhaust i ref t h.1, dimFreeGL_exhaustL i ref ts h.2⟩
end

/-- every sub-graph enumerated by `generateSubgraphs` inherits the condition -/
theorem dimFreeG_generateSubgraphs (i : String) (g : IGraph) (h : g.dimFreeG i = true) :
    ∀ s ∈ generateSubgraphs g, s.dimFreeG i = true :=
  generateSubgraphs_closed (fun g => g.dimFreeG i = true) (fun g ref hg => dimFreeG_exhaust i ref g hg) g h

/-- the graph `lower` recurses on: below the head iteration node -/
theorem dimFreeG_below (i : String) (ss : IGraph) (h : ss.dimFreeG i = true) :
    (match ss with | .iter _ _ n => n | g => g).dimFreeG i = true := by
  cases ss with
  | iter j o n => simp only [IGraph.dimFreeG, Bool.and_eq_true] at h; exact h.2
  | terminal e => exact h
  | sum ts => exact h

/-! ### the leaves of a context come from the tensors of the graph -/

mutual
theorem dimFreeG_denseLeaves (i j : String) (g : IGraph) (h : g.dimFreeG i = true) :
    ∀ l ∈ (g.context j).denseLeaves, tensorFree i l.tensor = true := by
  cases g with
  | terminal e =>
    simp only [IGraph.dimFreeG] at h
    simp only [IGraph.context]
    exact allT_denseLeaves _ j e h
  | iter j' o n =>
    simp only [IGraph.dimFreeG, Bool.and_eq_true] at h
    simp only [IGraph.context]
    exact dimFreeG_denseLeaves i j n h.2
  | sum ts =>
    simp only [IGraph.dimFreeG] at h
    simp only [IGraph.context]
    exact dimFreeGL_denseLeaves i j ts h
theorem dimFreeGL_denseLeaves (i j : String) (ts : List IGraph) (h : dimFreeGL i ts = true) :
    ∀ l ∈ (contextL j ts).denseLeaves, tensorFree i l.tensor = true := by
  cases ts with
  | nil => simp [contextL]
  | cons t ts =>
    simp only [dimFreeGL, Bool.and_eq_true] at h
    simp only [contextL, List.mem_append]
    rintro l (hl | hl)
    · exact dimFreeG_denseLeaves i j t h.1 l hl
    · exact dimFreeGL_denseLeaves i j ts h.2 l hl
end

theorem dimFreeG_nodeContext_denseLeaves (i : String) (g : IGraph) (h : g.dimFreeG i = true) :
    ∀ l ∈ (nodeContext g).denseLeaves, tensorFree i l.tensor = true := by
  cases g with
  | iter j o n =>
    simp only [IGraph.dimFreeG, Bool.and_eq_true] at h
    simp only [nodeContext]
    exact dimFreeG_denseLeaves i j n h.2
  | terminal e => simp [nodeContext]
  | sum ts => simp [nodeContext]

/-- a sub-node that is not skipped by a sparse loop has a sparse leaf -/
theorem sparseLeaves_ne_nil_of_compressedDims (g : IGraph) (h : (compressedDims g).isEmpty = false) :
    (nodeContext g).sparseLeaves.isEmpty = false := by
  cases hs : (nodeContext g).sparseLeaves with
  | nil => simp [compressedDims, hs, dedupStr] at h
  | cons a as => rfl

end TV.Gen
