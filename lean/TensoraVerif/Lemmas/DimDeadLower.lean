import TensoraVerif.Lemmas.DimDeadAppend
import TensoraVerif.Lemmas.LoweringLower

/-!
C16 for every kernel, part 6: the certificate `deadVar (dimName i)` on the recursive lowering
`lower` / `lowerTerms`. For every fuel, kernel kind, graph satisfying `IGraph.dimFreeG i` and output
object satisfying `Output.dimOK i`, the emitted code never mentions `<i>_dim`.
Induction on the fuel, following `lower_cert` / `lower_sc`; the graph condition is carried through
the two folds over `generateSubgraphs` by `dimFreeG_generateSubgraphs` and `dimFreeG_below`.
-/
namespace TV.Gen
open TV.IR TV.Graph
variable {F : Type}

section
variable (i : String) (ofRat : Rat → F) (k : Kind)

theorem lowerTerms_dead_of (fuel : Nat)
    (hA : ∀ g out b, out.dimOK i → g.dimFreeG i = true → lower ofRat fuel g out k = .ok b →
      b.dead (dimName i) = true) :
    ∀ ts out b0 b, out.dimOK i → dimFreeGL i ts = true → b0.dead (dimName i) = true →
      lowerTerms ofRat fuel ts out k b0 = .ok b → b.dead (dimName i) = true := by
  intro ts
  induction ts with
  | nil =>
    intro out b0 b _ _ h0 h
    rw [lowerTerms.eq_1] at h
    exact pure_ok h ▸ h0
  | cons t ts ih =>
    intro out b0 b ho hg h0 h
    simp only [dimFreeGL, Bool.and_eq_true] at hg
    rw [lowerTerms.eq_2] at h
    obtain ⟨x, hx, h⟩ := bind_ok h
    exact ih out _ b ho hg.2 (by simp [h0, hA _ _ _ ho hg.1 hx]) h

theorem lower_dead_succ (n : Nat)
    (ihA : ∀ g out b, out.dimOK i → g.dimFreeG i = true → lower ofRat n g out k = .ok b →
      b.dead (dimName i) = true)
    (ihB : ∀ ts out b0 b, out.dimOK i → dimFreeGL i ts = true → b0.dead (dimName i) = true →
      lowerTerms ofRat n ts out k b0 = .ok b → b.dead (dimName i) = true) :
    ∀ g out b, out.dimOK i → g.dimFreeG i = true → lower ofRat (n + 1) g out k = .ok b →
      b.dead (dimName i) = true := by
  intro g out b ho hg h
  cases g with
  | terminal e =>
    unfold lower at h
    simp only [] at h
    have hb0 : (if (e != IdExpr.int 0) = true then
        List.foldl (fun (b : SB F) f => b.add (Stmt.assign (Expr.var f) (Expr.boolLit true)))
          (SB.mk' (some "*** Computation of expression ***")) out.writtenFlags
        else SB.mk' (some "*** Computation of expression ***")).dead (dimName i) = true := by
      split
      · apply SB.dead_foldl
        · simp
        · intro b a ha hb
          simp only [Output.writtenFlags, List.mem_filterMap, List.mem_range] at ha
          obtain ⟨l, _, hl⟩ := ha
          split at hl
          · cases hl
            simp [hb, Stmt.deadVar, Expr.mentions]
          · cases hl
      · simp
    split at h
    · obtain ⟨w, hw, h⟩ := bind_ok h
      cases pure_ok h
      rw [SB.dead_append, hb0, writeAssignment_dead i _ _ _ ho (mentions_toIrWith ofRat e i) hw]; rfl
    · cases pure_ok h; exact hb0
  | sum ts =>
    unfold lower at h
    simp only [] at h
    simp only [IGraph.dimFreeG] at hg
    split at h
    · obtain ⟨⟨nx, decls⟩, hnext, h⟩ := bind_ok h
      obtain ⟨hnx, hdecls⟩ := next_dead i _ _ _ _ ho hnext
      exact ihB _ _ _ _ hnx hg (by simp [hdecls]) h
    · cases pure_ok h; simp
  | iter index output next =>
    unfold lower at h
    simp only [] at h
    split at h
    · cases pure_ok h; simp
    obtain ⟨⟨nextOut, decls⟩, hnext, h⟩ := bind_ok h
    obtain ⟨hnx, hdecls⟩ := next_dead i _ _ _ _ ho hnext
    simp only [] at hnx hdecls
    obtain ⟨b2, hfold, h⟩ := bind_ok h
    cases pure_ok h
    -- what the graph condition says at this node
    have hg' := hg
    simp only [IGraph.dimFreeG, Bool.and_eq_true, Bool.or_eq_true, bne_iff_ne] at hg'
    obtain ⟨⟨⟨hidx, hout⟩, hsp⟩, _⟩ := hg'
    have hidx' : (index == dimName i) = false := beq_eq_false_iff_ne.2 hidx
    have hsparse : index = i →
        ((nodeContext (.iter index output next)).isSparse &&
          (output.isNone || isSparseOutput (.iter index output next))) = true := by
      intro hi
      rcases hsp with hsp | hsp
      · exact absurd hi hsp
      · exact hsp
    have houtT : ∀ l, output = some l → tensorFree i l.tensor = true := by
      intro l hl; subst hl; exact hout
    have hb2 : b2.dead (dimName i) = true := by
      refine foldlM_inv (fun b => b.dead (dimName i) = true) _ _ _ _ ?_ ?_ hfold
      · apply SB.dead_foldl
        · split <;> simp [hdecls, Expr.mentions]
        · intro b a _ hb; simp [hb]
      · intro b sub b' hsub hb' hstep
        have hsubg := dimFreeG_generateSubgraphs i _ hg sub hsub
        split at hstep
        · cases pure_ok hstep; exact hb'
        rename_i hskip
        obtain ⟨leaves, hleaves, hstep⟩ := bind_ok hstep
        cases pure_ok hstep
        have hl : ∀ p ∈ leaves, p.1.mentions (dimName i) = false ∧ p.2.deadVar (dimName i) = true := by
          refine foldlM_inv (fun (acc : List (Expr F × Stmt F)) =>
            ∀ p ∈ acc, p.1.mentions (dimName i) = false ∧ p.2.deadVar (dimName i) = true) _ _ _ _ (by simp) ?_ hleaves
          intro acc ss acc' hssm hacc hss
          have hssg := dimFreeG_below i ss (dimFreeG_generateSubgraphs i _ hsubg ss hssm)
          split at hss
          · cases pure_ok hss; exact hacc
          obtain ⟨inner, hinner, hss⟩ := bind_ok hss
          cases pure_ok hss
          have hi := ihA _ _ _ hnx hssg hinner
          intro p hp
          rcases List.mem_append.1 hp with hp | hp
          · exact hacc p hp
          · rw [List.mem_singleton] at hp
            subst hp
            constructor
            · apply mentions_andJoin
              intro e he
              obtain ⟨l, _, rfl⟩ := List.mem_map.1 he
              simp [Expr.mentions, hidx']
            · clear hfold hleaves hacc
              rw [SB.dead_finalize]
              cases output with
              | none => simp [hi, apply_ite (SB.dead (dimName i)), Expr.mentions]
              | some l =>
                have htl := houtT l rfl
                have hcrd := writeCrdAssembly_dead (F := F) l i (tensorFree_index htl _)
                have hpos := writePosAllocation_dead (F := F) l i htl
                simp [hi, SB.dead_lines, Expr.mentions, apply_ite (SB.dead (dimName i)), hcrd, hpos]
        clear hfold hleaves
        simp only [SB.dead_loop, hb', Bool.true_and, Bool.and_eq_true, Bool.not_eq_true']
        constructor
        · -- the loop condition
          split
          · apply mentions_andJoin
            intro e he
            obtain ⟨l, _, rfl⟩ := List.mem_map.1 he
            simp [Expr.mentions]
          · rename_i hempty
            -- a dense condition `index < index_dim`: then `index ≠ i`
            have hne : index ≠ i := by
              intro hi
              have hs := hsparse hi
              rw [hs] at hskip
              have hcd : (compressedDims sub).isEmpty = false := by simpa using hskip
              have := sparseLeaves_ne_nil_of_compressedDims sub hcd
              simp [this] at hempty
            simp [Expr.mentions, hidx', dimName_ne hne]
        · rw [SB.dead_lines]
          have hbj := deadVar_branchJoin (dimName i) leaves hl
          have hmin : ∀ xs : List Leaf,
              (minJoin (xs.map fun l => (Expr.var (valueFromCrd l.tensor.id l.layer) : Expr F))).mentions
                (dimName i) = false :=
            fun xs => mentions_minJoin _ _ (by simp [Expr.mentions])
          have hdl : ∀ leaf ∈ (nodeContext sub).denseLeaves, tensorFree i leaf.tensor = true :=
            dimFreeG_nodeContext_denseLeaves i sub hsubg
          have hlw : ∀ (leaf : Leaf) (later : List String), tensorFree i leaf.tensor = true →
              ∀ y ∈ layersToWrite leaf index later, ¬dimName y.index = dimName i ∧ ¬y.index = dimName i := by
            intro leaf later h y hy
            obtain ⟨ht, hl, hm⟩ := layersToWrite_mem leaf index later y hy
            constructor
            · refine dimName_ne ?_
              unfold Leaf.index; rw [ht]; exact tensorFree_level h _ (Or.inl hl) hm
            · unfold Leaf.index; rw [ht]; exact tensorFree_index h _
          simp [apply_ite (SB.dead (dimName i)), SB.dead_foldl_add, SB.dead_foldl_foldl_add, hbj, hmin,
            Expr.mentions, hidx']
          refine ⟨fun x hx => hlw x _ ?_, fun x hx => hlw x _ (hdl x hx)⟩
          split at hx
          · split at hx
            · rw [List.mem_singleton] at hx
              subst hx
              exact houtT _ rfl
            · cases hx
          · cases hx
    clear hfold
    cases output <;> simp [hb2, apply_ite (SB.dead (dimName i))]

theorem lower_dead :
    ∀ fuel g out b, out.dimOK i → g.dimFreeG i = true → lower ofRat fuel g out k = .ok b →
      b.dead (dimName i) = true := by
  intro fuel
  induction fuel with
  | zero =>
    intro g out b _ _ h
    unfold lower at h
    cases h
  | succ n ih =>
    exact lower_dead_succ i ofRat k n ih (lowerTerms_dead_of i ofRat k n ih)

theorem lowerTerms_dead (fuel : Nat) :
    ∀ ts out b0 b, out.dimOK i → dimFreeGL i ts = true → b0.dead (dimName i) = true →
      lowerTerms ofRat fuel ts out k b0 = .ok b → b.dead (dimName i) = true :=
  lowerTerms_dead_of i ofRat k fuel (lower_dead i ofRat k fuel)

end
end TV.Gen
