import TensoraVerif.Lemmas.GrowthNames
import TensoraVerif.Lemmas.StoreCertNames

/-!
C16 for every kernel, part 1: names. `dimName i = i ++ "_dim"` is injective, and no other variable
name built by the lowering pass from tensor names / ids / layer numbers can be a `<i>_dim`:
they end in `s`, `d`-after-`n`/`r`, `y` or a digit, while a dimension variable ends in `m`.
The only exceptions are the names the pass does not decorate at the end — index variables, tensor
names, and the bucket names of an EMPTY list of layers — which need hypotheses.
-/
namespace TV.Gen
open TV.IR TV.Graph TV.Growth

theorem dimName_toList (i : String) : (dimName i).toList = i.toList ++ "_dim".toList := by
  simp [dimName, String.toList_append]

/-- `dimName` is injective -/
theorem dimName_injective {i j : String} (h : dimName i = dimName j) : i = j := by
  have := congrArg String.toList h
  rw [dimName_toList, dimName_toList] at this
  exact String.toList_inj.1 (List.append_cancel_right this)

theorem dimName_ne {i j : String} (h : j ≠ i) : dimName j ≠ dimName i :=
  fun e => h (dimName_injective e)

theorem dimName_getLast? (i : String) : (dimName i).toList.getLast? = some 'm' := by
  rw [dimName_toList, List.getLast?_append]; rfl

/-- a name whose last character is not `m` is not a dimension variable -/
theorem ne_dimName_of_last {s : String} {c : Char} (i : String) (h : s.toList.getLast? = some c)
    (hc : c ≠ 'm') : s ≠ dimName i := by
  apply ne_of_getLast?_ne
  rw [h, dimName_getLast?]
  intro e; cases e; exact hc rfl

theorem ne_dimName_of_digit {s : String} (i : String)
    (h : ∃ ch, s.toList.getLast? = some ch ∧ ch.isDigit = true) : s ≠ dimName i := by
  obtain ⟨ch, h, hd⟩ := h
  refine ne_dimName_of_last i h ?_
  intro e; subst e; revert hd; decide

theorem empty_ne_dimName (i : String) : "" ≠ dimName i := by
  apply ne_of_getLast?_ne
  rw [dimName_getLast?]; decide

theorem posName_ne_dimName (t : String) (l : Nat) (i : String) : posName t l ≠ dimName i :=
  ne_dimName_of_last (c := 's') i (by simp only [posName, String.toList_append, List.getLast?_append]; rfl)
    (by decide)

theorem crdName_ne_dimName (t : String) (l : Nat) (i : String) : crdName t l ≠ dimName i :=
  ne_dimName_of_last (c := 'd') i (by simp only [crdName, String.toList_append, List.getLast?_append]; rfl)
    (by decide)

theorem valsName_ne_dimName (t : String) (i : String) : valsName t ≠ dimName i :=
  ne_dimName_of_last (c := 's') i (by simp only [valsName, String.toList_append, List.getLast?_append]; rfl)
    (by decide)

theorem posCapName_ne_dimName (t : String) (l : Nat) (i : String) : posCapName t l ≠ dimName i :=
  ne_dimName_of_last (c := 'y') i (by simp only [posCapName, String.toList_append, List.getLast?_append]; rfl)
    (by decide)

theorem crdCapName_ne_dimName (t : String) (l : Nat) (i : String) : crdCapName t l ≠ dimName i :=
  ne_dimName_of_last (c := 'y') i (by simp only [crdCapName, String.toList_append, List.getLast?_append]; rfl)
    (by decide)

theorem valsCapName_ne_dimName (t : String) (i : String) : valsCapName t ≠ dimName i :=
  ne_dimName_of_last (c := 'y') i (by simp only [valsCapName, String.toList_append, List.getLast?_append]; rfl)
    (by decide)

theorem sparseEndName_ne_dimName (ref : String) (l : Nat) (i : String) : sparseEndName ref l ≠ dimName i :=
  ne_dimName_of_last (c := 'd') i
    (by simp only [sparseEndName, String.toList_append, List.getLast?_append]; rfl) (by decide)

theorem layerPointer_ne_dimName (ref : String) (l : Nat) (i : String) : layerPointer ref l ≠ dimName i :=
  ne_dimName_of_digit i (layerPointer_getLast? ref l)

theorem valueFromCrd_ne_dimName (ref : String) (l : Nat) (i : String) : valueFromCrd ref l ≠ dimName i := by
  apply ne_dimName_of_digit
  obtain ⟨ch, h, hd⟩ := getLast?_toString_nat l
  exact ⟨ch, by simp only [valueFromCrd, String.toList_append, List.getLast?_append, h, Option.some_or], hd⟩

theorem writtenName_ne_dimName (t : String) (l : Nat) (i : String) : writtenName t l ≠ dimName i := by
  apply ne_dimName_of_digit
  obtain ⟨ch, h, hd⟩ := getLast?_toString_nat l
  exact ⟨ch, by simp only [writtenName, String.toList_append, List.getLast?_append, h, Option.some_or], hd⟩

/-- the suffix of a bucket name for a non-empty list of layers ends in a digit -/
theorem bucketSuffix_getLast? (layers : List Nat) (h : layers ≠ []) :
    ∃ ch, (bucketSuffix layers).toList.getLast? = some ch ∧ ch.isDigit = true := by
  rcases List.eq_nil_or_concat layers with h' | ⟨xs, l, rfl⟩
  · exact absurd h' h
  · obtain ⟨ch, hc, hd⟩ := getLast?_toString_nat l
    refine ⟨ch, ?_, hd⟩
    simp only [bucketSuffix, String.toList_join, List.concat_eq_append, List.map_append, List.flatMap_append, List.map_cons,
      List.map_nil, List.flatMap_cons, List.flatMap_nil, List.append_nil, String.toList_append,
      List.getLast?_append, hc, Option.some_or]

theorem bucketName_ne_dimName (t : TensorId) (layers : List Nat) (i : String) (h : layers ≠ []) :
    bucketName t layers ≠ dimName i := by
  apply ne_dimName_of_digit
  obtain ⟨ch, hc, hd⟩ := bucketSuffix_getLast? layers h
  exact ⟨ch, by simp only [bucketName, String.toList_append, List.getLast?_append, hc, Option.some_or], hd⟩

theorem bucketLoopName_ne_dimName (t : TensorId) (layers : List Nat) (i : String) (h : layers ≠ []) :
    bucketLoopName t layers ≠ dimName i := by
  apply ne_dimName_of_digit
  obtain ⟨ch, hc, hd⟩ := bucketSuffix_getLast? layers h
  exact ⟨ch, by simp only [bucketLoopName, String.toList_append, List.getLast?_append, hc, Option.some_or], hd⟩

/-! ### names without `'_'` -/

theorem dimName_has_underscore (i : String) : '_' ∈ (dimName i).toList := by
  rw [dimName_toList]; simp

/-- a name without `'_'` (every tensor or index name the parser accepts) is not a dimension variable -/
theorem ne_dimName_of_no_underscore {s : String} (i : String) (h : '_' ∉ s.toList) : s ≠ dimName i :=
  ne_of_underscore h (dimName_has_underscore i)

end TV.Gen
