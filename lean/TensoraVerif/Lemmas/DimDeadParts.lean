import TensoraVerif.Lemmas.DimDeadGraph
import TensoraVerif.Lemmas.LoweringParts

/-!
C16 for every kernel, part 4: the certificate `deadVar (dimName i)` on the non-recursive pieces of the
lowering pass. Each lemma states exactly what it needs: `tensorFree i` of the tensor whose dense
dimensions the piece multiplies, and — for the two names that the pass does not decorate at the end —
that the bucket names of an empty list of layers and the tensor name are not the text `<i>_dim`.
-/
namespace TV.Gen
open TV.IR TV.Graph
variable {F : Type}

theorem mode_dense_of_not_compressed {m : Mode} (h : (m == Mode.compressed) = false) : m = .dense := by
  cases m
  · rfl
  · simp at h

/-! ### bucket names and the output object -/

/-- the two bucket names of an EMPTY list of layers (`bucket_<id>`, `i_bucket_<id>`: a scalar
output, or the tail of an output whose levels are all consumed) are not `<i>_dim` -/
def bucketNamesOK (i : String) (t : TensorId) : Prop :=
  bucketName t [] ≠ dimName i ∧ bucketLoopName t [] ≠ dimName i

theorem bucketNamesOK.all {i : String} {t : TensorId} (h : bucketNamesOK i t) (layers : List Nat) :
    bucketName t layers ≠ dimName i ∧ bucketLoopName t layers ≠ dimName i := by
  cases layers with
  | nil => exact h
  | cons l ls => exact ⟨bucketName_ne_dimName t _ i (by simp), bucketLoopName_ne_dimName t _ i (by simp)⟩

/-- the output object is free of the size of `i`: its tensor is `tensorFree i`, a bucket does not
range over a level of index `i` -/
def Output.dimOK (i : String) : Output → Prop
  | .append t _ => tensorFree i t = true ∧ bucketNamesOK i t
  | .bucket t layers => tensorFree i t = true ∧ bucketNamesOK i t ∧ ∀ l ∈ layers, t.indexes.getD l "" ≠ i

theorem Output.dimOK.tensor {i : String} {o : Output} (h : o.dimOK i) : tensorFree i o.tensor = true := by
  cases o with
  | append t n => exact h.1
  | bucket t ls => exact h.1

/-! ### the sparse writers -/

@[simp] theorem writeSparseInit_dead (leaf : Leaf) (i : String) :
    (writeSparseInit leaf : SB F).dead (dimName i) = true := by
  simp [writeSparseInit, Expr.mentions]

@[simp] theorem writePosAssembly_dead (out : Leaf) (i : String) :
    (writePosAssembly out : SB F).dead (dimName i) = true := by
  simp [writePosAssembly, Expr.mentions, Stmt.deadVar]

theorem writeCrdAssembly_dead (out : Leaf) (i : String) (h : out.index ≠ dimName i) :
    (writeCrdAssembly out : SB F).dead (dimName i) = true := by
  simp [writeCrdAssembly, Expr.mentions, Stmt.deadVar, deadVarL, h]

theorem denseBelow_mem (t : TensorId) (l : Nat) :
    ∀ x ∈ denseBelow t l, ∃ k, k < t.indexes.length ∧ t.modes.getD k .dense = .dense ∧
      x = dimName (t.indexes.getD k "") := by
  unfold denseBelow
  refine (foldl_inv
    (fun (acc : List String × Bool) => ∀ x ∈ acc.1, ∃ k, k < t.indexes.length ∧ t.modes.getD k .dense = .dense ∧
      x = dimName (t.indexes.getD k ""))
    _ _ ([], false) (by simp) ?_)
  intro acc k hk hacc
  simp only [List.mem_map, List.mem_range] at hk
  obtain ⟨k0, hk0, rfl⟩ := hk
  split
  · exact hacc
  · split
    · exact hacc
    · rename_i hm
      intro x hx
      rcases List.mem_append.1 hx with hx | hx
      · exact hacc x hx
      · rw [List.mem_singleton] at hx
        exact ⟨k0 + l + 1, by omega, mode_dense_of_not_compressed (by simpa using hm), hx⟩

theorem denseBelow_ne (i : String) (t : TensorId) (l : Nat) (h : tensorFree i t = true) :
    ∀ x ∈ denseBelow t l, x ≠ dimName i := by
  intro x hx
  obtain ⟨k, hk, hm, rfl⟩ := denseBelow_mem t l x hx
  exact dimName_ne (tensorFree_level h k (Or.inl hk) hm)

theorem writePosAllocation_dead (out : Leaf) (i : String) (h : tensorFree i out.tensor = true) :
    (writePosAllocation out : SB F).dead (dimName i) = true := by
  unfold writePosAllocation
  have hm : (mulJoin ((denseBelow out.tensor out.layer).map .var) : Expr F).mentions (dimName i) = false := by
    apply mentions_mulJoin
    intro e he
    obtain ⟨x, hx, rfl⟩ := List.mem_map.1 he
    simpa [Expr.mentions] using denseBelow_ne i _ _ h x hx
  simp only []
  split <;> simp [Expr.mentions, Stmt.deadVar, deadVarL, hm, apply_ite (Expr.mentions (dimName i))]

/-! ### buckets -/

theorem bucketDims_mentions (i : String) (t : TensorId) (layers : List Nat)
    (h : ∀ l ∈ layers, t.indexes.getD l "" ≠ i) :
    ∀ e ∈ (bucketDims t layers : List (Expr F)), e.mentions (dimName i) = false := by
  intro e he
  simp only [bucketDims, List.mem_map] at he
  obtain ⟨l, hl, rfl⟩ := he
  simpa [-List.getD_eq_getElem?_getD, Expr.mentions] using dimName_ne (h l hl)

theorem bucketDeclarations_dead (i : String) (t : TensorId) (layers : List Nat) (rhs : Expr F)
    (hn : bucketNamesOK i t) (hl : ∀ l ∈ layers, t.indexes.getD l "" ≠ i)
    (h : rhs.mentions (dimName i) = false) : (bucketDeclarations t layers rhs).dead (dimName i) = true := by
  have hm := mentions_mulJoin (dimName i) _ (bucketDims_mentions (F := F) i t layers hl)
  obtain ⟨h1, h2⟩ := hn.all layers
  simp [bucketDeclarations, Expr.mentions, Stmt.deadVar, deadVarL, h, hm, h1, h2]

theorem writeAssignment_dead (i : String) (o : Output) (rhs : Expr F) (b : SB F) (ho : o.dimOK i)
    (hr : rhs.mentions (dimName i) = false) (h : o.writeAssignment rhs = .ok b) :
    b.dead (dimName i) = true := by
  unfold Output.writeAssignment at h
  split at h
  · split at h
    · cases h
    · cases h
      simp [Expr.mentions, Stmt.deadVar, hr]
  · cases h
    rename_i t layers
    obtain ⟨ht, hn, hl⟩ := ho
    have hi := mentions_ravelIndexes (dimName i) (bucketDims (F := F) t layers) _
      (bucketDims_mentions i t layers hl)
      (by
        show ∀ e ∈ (layers.map fun l => (Expr.var (t.indexes.getD l "") : Expr F)), e.mentions (dimName i) = false
        intro e he
        obtain ⟨l, _, rfl⟩ := List.mem_map.1 he
        simpa [-List.getD_eq_getElem?_getD, Expr.mentions] using tensorFree_index ht l)
    simp [-List.getD_eq_getElem?_getD, Expr.mentions, hr, hi, (hn.all layers).1]

theorem next_dead (i : String) (o : Output) (layer : Option Nat) (k : Kind) (r : Output × SB F)
    (ho : o.dimOK i) (h : o.next layer k = .ok r) : r.1.dimOK i ∧ r.2.dead (dimName i) = true := by
  unfold Output.next at h
  split at h
  · cases h; exact ⟨ho, by simp⟩
  · rename_i t n
    obtain ⟨ht, hn⟩ := ho
    split at h
    · cases h; exact ⟨⟨ht, hn⟩, by simp⟩
    · split at h
      · rename_i hd
        cases h
        -- every level from `n` on is dense
        have hdense : ∀ l, n ≤ l → t.modes.getD l .dense = .dense := by
          intro l hl
          by_cases hlt : l < t.modes.length
          · simp only [List.all_eq_true, beq_iff_eq] at hd
            have hmem : t.modes[l] ∈ t.modes.drop n := by
              rw [List.mem_drop_iff_getElem]
              exact ⟨l - n, by omega, by congr 1; omega⟩
            have := hd _ hmem
            simpa [List.getD_eq_getElem?_getD, List.getElem?_eq_getElem hlt] using this
          · simp [List.getD_eq_getElem?_getD, List.getElem?_eq_none (Nat.le_of_not_lt hlt)]
        have hlayers : ∀ l ∈ (List.range (t.modes.length - n)).map (· + n), t.indexes.getD l "" ≠ i := by
          intro l hl
          simp only [List.mem_map, List.mem_range] at hl
          obtain ⟨l0, hl0, rfl⟩ := hl
          exact tensorFree_level ht _ (Or.inr (by omega)) (hdense _ (by omega))
        refine ⟨⟨ht, hn, hlayers⟩, ?_⟩
        simp only []
        split
        · apply bucketDeclarations_dead i _ _ _ hn hlayers
          simp only [mentions_plus, mentions_times, Expr.mentions, beq_valsName_dimName,
            mentions_prevLayerPointer, Bool.false_or]
          refine mentions_mulJoin _ _ (fun e he => ?_)
          simp only [List.mem_map] at he
          obtain ⟨j, hj, rfl⟩ := he
          obtain ⟨l0, hl0, rfl⟩ := List.mem_drop_iff_getElem.1 hj
          have hl0' : n + l0 < t.indexes.length := by omega
          have hne : t.indexes.getD (n + l0) "" ≠ i :=
            tensorFree_level ht _ (Or.inl hl0') (hdense _ (by omega))
          have hget : t.indexes.getD (n + l0) "" = t.indexes[n + l0] := by
            simp [List.getD_eq_getElem?_getD, List.getElem?_eq_getElem hl0']
          rw [hget] at hne
          simpa [Expr.mentions] using dimName_ne hne
        · simp
      · cases h

end TV.Gen
