import TensoraVerif.Lemmas.GrowthAppend
import TensoraVerif.Lemmas.ToIrTerminal

/-!
C03 ("a compressed output level stores a coordinate only if …"), infrastructure, part 1: the
statement list of one lattice branch of an iteration node with a SPARSE output leaf
(`flagBranch`), built from the same helper functions `lower` uses, the state after
`bool written = false;` (`declFalse`), and the names involved.
-/
namespace TV.Flag
open TV.IR TV.Gen TV.Graph TV.Growth TV.ToIr

set_option linter.unusedSectionVars false
variable {F : Type} [FloatOps F]

/-! ### the branch -/

/-- how `SB.append` inlines a builder: one commented block, or the bare lines -/
def innerStmts (inner : SB F) : List (Stmt F) :=
  match inner.comment with
  | some c => [.block inner.lines (some c)]
  | none => inner.lines

/-- the written flag of the output leaf -/
def flagName (l : Leaf) : String := writtenName l.tensor.name l.layer

/-- `[writePosAllocation l]`, assembling kernels only -/
def flagPre (l : Leaf) (k : Kind) : List (Stmt F) :=
  if k.isAssemble then [(writePosAllocation l).finalize] else []

/-- `bool written_<out>_<layer> = false;` -/
def flagDecl (l : Leaf) : Stmt F := declAssignE (flagName l) .bool (.boolLit false)

/-- `[writeCrdAssembly l] (assemble only); p_<out>_<layer>++` -/
def flagThen (l : Leaf) (k : Kind) : List (Stmt F) :=
  (if k.isAssemble then [(writeCrdAssembly l).finalize] else []) ++
    [increment (.var l.ptr) (.intLit 1)]

/-- `if (written) { … }` -/
def flagTail (l : Leaf) (k : Kind) : Stmt F :=
  .branch (.var (flagName l)) (.block (flagThen l k) none) (.block [] none)

/-- the statement list of one lattice branch of a node with sparse output leaf `l` -/
def flagBranchLines (l : Leaf) (k : Kind) (inner : SB F) : List (Stmt F) :=
  flagPre l k ++ flagDecl l :: (innerStmts inner ++ [flagTail l k])

def flagBranch (l : Leaf) (k : Kind) (inner : SB F) : Stmt F :=
  .block (flagBranchLines l k inner) none

/-! ### typed boolean variables -/

/-- `f` is a declared `bool` variable holding `w` -/
def BoolVar (σ : State F) (f : String) (w : Bool) : Prop :=
  ∃ r, lookupVar σ.vars f = some r ∧ r.ty = .bool ∧ r.val = some (.bool w)

theorem BoolVar.of_flagTrue {σ : State F} {f : String} (h : FlagTrue σ f) : BoolVar σ f true := h

theorem BoolVar.flagVar {σ : State F} {f : String} {w : Bool} (h : BoolVar σ f w) : FlagVar σ f := by
  obtain ⟨r, e1, e2, _⟩ := h; exact ⟨r, e1, e2⟩

theorem BoolVar.congr {σ σ' : State F} {f : String} {w : Bool} (h : BoolVar σ f w)
    (e : lookupVar σ'.vars f = lookupVar σ.vars f) : BoolVar σ' f w := by
  obtain ⟨r, h1, h2, h3⟩ := h; exact ⟨r, e.trans h1, h2, h3⟩

theorem BoolVar.unique {σ : State F} {f : String} {v w : Bool} (h : BoolVar σ f v)
    (h' : BoolVar σ f w) : v = w := by
  obtain ⟨r, h1, _, h3⟩ := h
  obtain ⟨r', h1', _, h3'⟩ := h'
  rw [h1] at h1'; cases h1'
  rw [h3] at h3'; cases h3'; rfl

theorem evalE_var_bool {σ : State F} {f : String} {w : Bool} (h : BoolVar σ f w) :
    evalE σ (.var f) = .ok (.bool w) := by
  obtain ⟨r, e1, e2, e3⟩ := h
  simp [evalE, e1, e2, e3, hasTy, chkVal]

/-! ### `bool written = false;` -/

/-- the state after `bool f = false;` (C scoping lets the declaration be executed repeatedly; the
flat machine environment re-initialises the variable) -/
def declFalse (σ : State F) (f : String) : State F :=
  match lookupVar σ.vars f with
  | some _ => { σ with vars := setVarOpt σ.vars f (some (.bool false)) }
  | none => { σ with vars := σ.vars ++ [⟨f, .bool, some (.bool false)⟩] }

theorem declFalse_heap (σ : State F) (f : String) : (declFalse σ f).heap = σ.heap := by
  unfold declFalse; split <;> rfl

theorem declFalse_tensors (σ : State F) (f : String) : (declFalse σ f).tensors = σ.tensors := by
  unfold declFalse; split <;> rfl

theorem declFalse_lookup_other (σ : State F) (f y : String) (h : y ≠ f) :
    lookupVar (declFalse σ f).vars y = lookupVar σ.vars y := by
  unfold declFalse
  split
  · exact lookupVar_setVarOpt_other _ h
  · exact lookupVar_append_other (r := ⟨f, .bool, some (.bool false)⟩) h

theorem declFalse_flag (σ : State F) (f : String)
    (h : lookupVar σ.vars f = none ∨ FlagVar σ f) : BoolVar (declFalse σ f) f false := by
  unfold declFalse
  rcases h with h | ⟨r, e1, e2⟩
  · simp only [h]
    exact ⟨_, lookupVar_append_fresh (r := ⟨f, .bool, some (.bool false)⟩) h, rfl, rfl⟩
  · simp only [e1]
    exact ⟨_, lookupVar_setVarOpt_same _ e1, e2, rfl⟩

/-- `bool f = false;` runs from every state in which `f` is undeclared or a `bool` -/
theorem declFalse_runs {fuel : Nat} {σ : State F} {f : String}
    (h : lookupVar σ.vars f = none ∨ FlagVar σ f) :
    Runs fuel (declAssignE f .bool (.boolLit false)) σ (declFalse σ f) := by
  refine ⟨⟨declFalse σ f, none, 0, 1⟩, ?_, rfl, rfl⟩
  unfold declAssignE declFalse
  rw [exec.eq_4, evalRhs_of_ok (v := .bool false) (by simp [evalE])]
  rcases h with h | ⟨r, e1, e2⟩
  · simp [bind, Except.bind, convTo, declare, h]
  · simp [bind, Except.bind, convTo, declare, e1, e2]

/-! ### names -/

theorem writtenName_ne_crdName (t : String) (l : Nat) (s : String) (m : Nat) :
    writtenName t l ≠ crdName s m := by
  obtain ⟨ch, h, hd⟩ := writtenName_getLast? t l
  apply ne_of_getLast?_ne
  rw [h]
  have : (crdName s m).toList.getLast? = some 'd' := by
    simp only [crdName, String.toList_append, List.getLast?_append]
    rfl
  rw [this]
  intro e; cases e; revert hd; decide

theorem writtenName_ne_crdCapName (t : String) (l : Nat) (s : String) (m : Nat) :
    writtenName t l ≠ crdCapName s m := by
  obtain ⟨ch, h, hd⟩ := writtenName_getLast? t l
  apply ne_of_getLast?_ne
  rw [h]
  have : (crdCapName s m).toList.getLast? = some 'y' := by
    simp only [crdCapName, String.toList_append, List.getLast?_append]
    rfl
  rw [this]
  intro e; cases e; revert hd; decide

theorem writtenName_ne_posName (t : String) (l : Nat) (s : String) (m : Nat) :
    writtenName t l ≠ posName s m := by
  obtain ⟨ch, h, hd⟩ := writtenName_getLast? t l
  apply ne_of_getLast?_ne
  rw [h]
  have : (posName s m).toList.getLast? = some 's' := by
    simp only [posName, String.toList_append, List.getLast?_append]
    rfl
  rw [this]
  intro e; cases e; revert hd; decide

theorem writtenName_ne_posCapName (t : String) (l : Nat) (s : String) (m : Nat) :
    writtenName t l ≠ posCapName s m := by
  obtain ⟨ch, h, hd⟩ := writtenName_getLast? t l
  apply ne_of_getLast?_ne
  rw [h]
  have : (posCapName s m).toList.getLast? = some 'y' := by
    simp only [posCapName, String.toList_append, List.getLast?_append]
    rfl
  rw [this]
  intro e; cases e; revert hd; decide

theorem writtenName_ne_valsCapName (t : String) (l : Nat) (s : String) :
    writtenName t l ≠ valsCapName s := by
  obtain ⟨ch, h, hd⟩ := writtenName_getLast? t l
  apply ne_of_getLast?_ne
  rw [h]
  have : (valsCapName s).toList.getLast? = some 'y' := by
    simp only [valsCapName, String.toList_append, List.getLast?_append]
    rfl
  rw [this]
  intro e; cases e; revert hd; decide

/-- a written flag is never the array or capacity variable `writePosAllocation` grows -/
theorem writtenName_ne_allocArr (t : String) (l : Nat) (out : Leaf) : writtenName t l ≠ allocArr out := by
  unfold allocArr; split
  · exact writtenName_ne_valsName _ _ _
  · exact writtenName_ne_posName _ _ _ _

theorem writtenName_ne_allocCap (t : String) (l : Nat) (out : Leaf) : writtenName t l ≠ allocCap out := by
  unfold allocCap; split
  · exact writtenName_ne_valsCapName _ _ _
  · exact writtenName_ne_posCapName _ _ _ _

/-- the names a flag branch touches besides the flag: the four names of `writeCrdAssembly`; the
flag differs from all of them as soon as the index name contains no `'_'` -/
structure FlagNames (l : Leaf) : Prop where
  distinct : namesDistinct l
  idx : flagName l ≠ l.index

theorem flagName_ne_crd (l : Leaf) : flagName l ≠ crdName l.tensor.name l.layer :=
  writtenName_ne_crdName _ _ _ _
theorem flagName_ne_cap (l : Leaf) : flagName l ≠ crdCapName l.tensor.name l.layer :=
  writtenName_ne_crdCapName _ _ _ _
theorem flagName_ne_ptr (l : Leaf) : flagName l ≠ l.ptr :=
  writtenName_ne_layerPointer _ _ _ _

theorem flagNames_of_index (l : Leaf) (h : '_' ∉ l.index.toList) : FlagNames l :=
  ⟨namesDistinct_of_index l h, (ne_of_underscore h (writtenName_underscore _ _)).symm⟩

end TV.Flag
