import TensoraVerif.Lemmas.FlagPre
import TensoraVerif.Lemmas.FlagGraph
import TensoraVerif.Lemmas.FlagNested
import TensoraVerif.Lemmas.ToIrExamples
import TensoraVerif.Model.FloatLaws

/-!
Concrete leaf, expressions and state over the exact carrier `F := Int` for the non-vacuity examples of
`Props/C03Flags.lean`: `a(i) = b(i) * c(i)`, all three vectors compressed, output arrays of capacity 1
that are full (both growth guards fire).
-/
namespace TV.Flag.Ex
open TV.IR TV.Gen TV.Graph TV.Growth TV.ToIr TV.ToIr.Ex TV.Flag

/-- the output level `a(i)` -/
def la : Leaf := ⟨ta, 0⟩
/-- `b(i) * c(i)` -/
def eMul : IdExpr := .mul (.tensor tb) (.tensor tc)
/-- the graph of `a(i) = b(i) * c(i)` -/
def gMul : IGraph := .iter "i" (some la) (.terminal eMul)

/-- exhausting `c` simplifies `b * 0` to the literal `Integer 0` -/
theorem eMul_exhaust_c : exhaustAll eMul ["c0"] = .int 0 := by decide

/-- `b_vals = [3, 4]` (cursor 1), `c_vals = [5]` (cursor 0); the output has stored one entry: `a_vals = [9]`,
`a_0_crd = [3]`, both of capacity 1, cursor `p_a0_0 = 1`; the loop index `i` holds 7; the flag
`written_a_0` is not declared yet -/
def σF : State Int :=
  ⟨[⟨"b_vals", .ptr .float, some (.ptr 0 0)⟩, ⟨"c_vals", .ptr .float, some (.ptr 1 0)⟩,
    ⟨"p_b0_0", .int, some (.int 1)⟩, ⟨"p_c0_0", .int, some (.int 0)⟩,
    ⟨"a_vals", .ptr .float, some (.ptr 2 0)⟩, ⟨"a_vals_capacity", .int, some (.int 1)⟩,
    ⟨"a_0_crd", .ptr .int, some (.ptr 3 0)⟩, ⟨"a_0_crd_capacity", .int, some (.int 1)⟩,
    ⟨"p_a0_0", .int, some (.int 1)⟩, ⟨"i", .int, some (.int 7)⟩],
   [⟨.float, [some (.flt 3), some (.flt 4)], .input, true⟩,
    ⟨.float, [some (.flt 5)], .input, true⟩,
    ⟨.float, [some (.flt 9)], .output, true⟩,
    ⟨.int, [some (.int 3)], .output, true⟩], []⟩

theorem la_last : la.layer + 1 = la.tensor.indexes.length := rfl
theorem la_mode : la.mode = .compressed := rfl
theorem la_names : FlagNamesAll la := flagNamesAll_of_index la (by decide)
theorem la_idxv : la.index ≠ valsName la.tensor.name ∧ la.index ≠ valsCapName la.tensor.name := by decide

theorem σF_flag : lookupVar σF.vars (flagName la) = none ∨ FlagVar σF (flagName la) := .inl rfl
theorem σF_flags : ∀ g ∈ (Output.append la.tensor la.tensor.indexes.length).writtenFlags,
    g ≠ flagName la → FlagVar σF g := by
  intro g hg hne
  have h : (Output.append la.tensor la.tensor.indexes.length).writtenFlags = [flagName la] := by decide
  rw [h] at hg
  exact absurd (by simpa using hg) hne

theorem σF_vals : ArrInv σF (valsName la.tensor.name) (valsCapName la.tensor.name) .float 2 1 :=
  ⟨⟨_, _, rfl, rfl, rfl⟩, ⟨_, rfl, rfl, rfl⟩, ⟨_, rfl, rfl, rfl, rfl, rfl⟩, by decide, by decide⟩

theorem σF_app : AppInv σF la 3 1 [3] :=
  ⟨⟨⟨_, _, rfl, rfl, rfl⟩, ⟨_, rfl, rfl, rfl⟩, ⟨_, rfl, rfl, rfl, rfl, rfl⟩, by decide, by decide⟩,
    ⟨_, rfl, rfl, rfl⟩, ⟨7, _, rfl, rfl, rfl⟩, by decide,
    ⟨_, rfl, by
      intro j w hj
      match j, hj with
      | 0, hj => simp at hj; subst hj; rfl⟩⟩

theorem σF_idx : IntVar σF la.index 7 := ⟨_, rfl, rfl, rfl⟩

theorem σF_away (e : IdExpr) (he : ∀ s ∈ leaves e, s = tb ∨ s = tc) :
    ∀ s ∈ leaves e, LeafAway σF ρI la.tensor.name 2 s := by
  intro s hs
  rcases he s hs with rfl | rfl
  · exact ⟨by decide, 0, 0, 1, by decide, ⟨_, _, rfl, rfl, rfl⟩,
      evalE_cursor (p := 1) (by simp only [CursorIs, tb]; exact ⟨_, rfl, rfl, rfl⟩) (by decide) (by decide),
      ⟨_, rfl, rfl, rfl, by decide, rfl⟩⟩
  · exact ⟨by decide, 1, 0, 0, by decide, ⟨_, _, rfl, rfl, rfl⟩,
      evalE_cursor (p := 0) (by simp only [CursorIs, tc]; exact ⟨_, rfl, rfl, rfl⟩) (by decide) (by decide),
      ⟨_, rfl, rfl, rfl, by decide, rfl⟩⟩

theorem eMul_leaves : ∀ s ∈ leaves eMul, s = tb ∨ s = tc := by
  intro s hs
  simpa [eMul, leaves] using hs

theorem zero_leaves : ∀ s ∈ leaves (exhaustAll eMul ["c0"]), s = tb ∨ s = tc := by
  rw [eMul_exhaust_c]; intro s hs; cases hs

theorem valueMul : valueF ofRatInt ρI eMul = 20 := by decide

/-- in the lowering of `a(i) = b(i) * c(i)` itself the branch "c exhausted" is not even emitted: the
iteration is sparse and the exhausted node has no compressed dimension left -/
theorem gMul_c_skipped : skipped gMul (gMul.exhaust "c0") = true := by decide

theorem gMul_self_not_skipped : skipped gMul gMul = false := by decide

/-! ### two compressed output levels: `a(i,j)`, format `ss`, `assemble` kernel -/

def ta2 : TensorId := ⟨"a0", "a", ["i", "j"], [.compressed, .compressed]⟩
def l1 : Leaf := ⟨ta2, 0⟩
def l2 : Leaf := ⟨ta2, 1⟩

/-- one entry stored so far at both levels: `a_0_crd = [3]`, `a_1_crd = [5]`, `a_vals = [9]`, all FULL at
capacity 1, cursors 1; `a_1_pos` has room (capacity 4); `i = 4`, `j = 6`; no flag declared yet -/
def σN : State Int :=
  ⟨[⟨"a_1_pos", .ptr .int, some (.ptr 3 0)⟩, ⟨"a_1_pos_capacity", .int, some (.int 4)⟩,
    ⟨"a_vals", .ptr .float, some (.ptr 0 0)⟩, ⟨"a_vals_capacity", .int, some (.int 1)⟩,
    ⟨"a_0_crd", .ptr .int, some (.ptr 1 0)⟩, ⟨"a_0_crd_capacity", .int, some (.int 1)⟩,
    ⟨"a_1_crd", .ptr .int, some (.ptr 2 0)⟩, ⟨"a_1_crd_capacity", .int, some (.int 1)⟩,
    ⟨"p_a0_0", .int, some (.int 1)⟩, ⟨"p_a0_1", .int, some (.int 1)⟩,
    ⟨"i", .int, some (.int 4)⟩, ⟨"j", .int, some (.int 6)⟩],
   [⟨.float, [some (.flt 9)], .output, true⟩,
    ⟨.int, [some (.int 3)], .output, true⟩,
    ⟨.int, [some (.int 5)], .output, true⟩,
    ⟨.int, [some (.int 0), some (.int 1), none, none], .output, true⟩], []⟩

/-- `PRE` of the outer level: `if (p_a0_0 + 1 >= a_1_pos_capacity) …` — there is room, nothing happens -/
theorem σN_pre : RunsL 0 (flagPre l1 .assemble) σN σN := by
  have hd : denseBelow l1.tensor l1.layer = [] := by decide
  simp only [flagPre, Kind.isAssemble, if_true]
  rw [writePosAllocation_shape_nodense l1 hd]
  refine RunsL.cons (Runs.block (RunsL.cons (Runs.branch_false ?_ (Runs.skip ..)) (RunsL.nil ..)))
    (RunsL.nil ..)
  have e1 : evalE σN (plus (.var l1.ptr) (.intLit (allocBonus l1))) = .ok (.int (1 + 1)) :=
    evalE_add (evalE_var_int (σ := σN) (x := l1.ptr) (v := 1) ⟨_, rfl, rfl, rfl⟩ (by decide) (by decide))
      (evalE_intLit (by decide) (by decide)) (by decide) (by decide)
  have e2 : evalE σN (.var (allocCap l1)) = .ok (.int 4) :=
    evalE_var_int (σ := σN) (x := allocCap l1) (v := 4) ⟨_, rfl, rfl, rfl⟩ (by decide) (by decide)
  rw [evalE_ge e1 e2]
  rfl

theorem σN_vals : ArrInv σN (valsName l2.tensor.name) (valsCapName l2.tensor.name) .float 0 1 :=
  ⟨⟨_, _, rfl, rfl, rfl⟩, ⟨_, rfl, rfl, rfl⟩, ⟨_, rfl, rfl, rfl, rfl, rfl⟩, by decide, by decide⟩

theorem σN_app1 : AppInv σN l1 1 1 [3] :=
  ⟨⟨⟨_, _, rfl, rfl, rfl⟩, ⟨_, rfl, rfl, rfl⟩, ⟨_, rfl, rfl, rfl, rfl, rfl⟩, by decide, by decide⟩,
    ⟨_, rfl, rfl, rfl⟩, ⟨4, _, rfl, rfl, rfl⟩, by decide,
    ⟨_, rfl, by
      intro j w hj
      match j, hj with
      | 0, hj => simp at hj; subst hj; rfl⟩⟩

theorem σN_app2 : AppInv σN l2 2 1 [5] :=
  ⟨⟨⟨_, _, rfl, rfl, rfl⟩, ⟨_, rfl, rfl, rfl⟩, ⟨_, rfl, rfl, rfl, rfl, rfl⟩, by decide, by decide⟩,
    ⟨_, rfl, rfl, rfl⟩, ⟨6, _, rfl, rfl, rfl⟩, by decide,
    ⟨_, rfl, by
      intro j w hj
      match j, hj with
      | 0, hj => simp at hj; subst hj; rfl⟩⟩

theorem σN_flags : ∀ g ∈ (Output.append l2.tensor l2.tensor.indexes.length).writtenFlags,
    g ≠ flagName l1 → g ≠ flagName l2 → FlagVar σN g := by
  intro g hg h1 h2
  have h : (Output.append l2.tensor l2.tensor.indexes.length).writtenFlags = [flagName l1, flagName l2] := by
    decide
  rw [h] at hg
  simp only [List.mem_cons, List.not_mem_nil, or_false] at hg
  rcases hg with rfl | rfl
  · exact absurd rfl h1
  · exact absurd rfl h2

end TV.Flag.Ex
