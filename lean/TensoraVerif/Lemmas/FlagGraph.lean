import TensoraVerif.Lemmas.FlagLower
import TensoraVerif.Lemmas.GraphAlg

/-!
C03, infrastructure, part 6: the one-level graph `.iter i (some l) (.terminal e0)`. Every lattice branch
is the node with the terminal expression `exhaustAll e0 refs` for a list `refs` of tensors that are NOT
among the operands co-iterated in that branch; the branch `lower` emits for it is `flagBranch` around the
terminal block of that expression.
-/
namespace TV.Flag
open TV.IR TV.Gen TV.Graph TV.Merge

set_option linter.unusedSectionVars false
variable {F : Type} [FloatOps F]

/-- a sub-graph of the one-level node: the same node over an exhausted expression; the exhausted tensors
are not compressed dimensions of it -/
def IsExhausted (i : String) (o : Option Leaf) (e0 : IdExpr) (g : IGraph) : Prop :=
  ∃ refs, g = .iter i o (.terminal (exhaustAll e0 refs)) ∧ ∀ r ∈ refs, r ∉ compressedDims g

theorem isExhausted_self (i : String) (o : Option Leaf) (e0 : IdExpr) :
    IsExhausted i o e0 (.iter i o (.terminal e0)) := ⟨[], rfl, fun _ h => by cases h⟩

theorem isExhausted_exhaust (i : String) (o : Option Leaf) (e0 : IdExpr) (g : IGraph) (ref : String)
    (h : IsExhausted i o e0 g) : IsExhausted i o e0 (g.exhaust ref) := by
  obtain ⟨refs, rfl, hr⟩ := h
  refine ⟨refs ++ [ref], by simp [IGraph.exhaust, exhaustAll, List.foldl_append], ?_⟩
  intro r hr' hmem
  obtain ⟨h1, h2⟩ := compressedDims_exhaust i o _ ref r hmem
  rcases List.mem_append.1 hr' with h | h
  · exact hr r h h1
  · exact h2 (by simpa using h)

/-- every sub-sub-graph of the one-level node is an exhausted variant of it -/
theorem subgraphs_terminal (i : String) (o : Option Leaf) (e0 : IdExpr) :
    ∀ sub ∈ generateSubgraphs (.iter i o (.terminal e0)), ∀ ss ∈ generateSubgraphs sub,
      IsExhausted i o e0 ss := by
  intro sub hsub ss hss
  have h1 := generateSubgraphs_closed (IsExhausted i o e0) (isExhausted_exhaust i o e0) _
    (isExhausted_self i o e0) sub hsub
  exact generateSubgraphs_closed (IsExhausted i o e0) (isExhausted_exhaust i o e0) _ h1 ss hss

theorem hasSparseLayer_of_mode (l : Leaf) (n : Nat) (hm : l.mode = .compressed) :
    (Output.append l.tensor n).hasSparseLayer = true := by
  have hm' : l.tensor.modes.getD l.layer .dense = .compressed := hm
  simp only [Output.hasSparseLayer, Output.tensor, List.any_eq_true, beq_iff_eq]
  rcases Nat.lt_or_ge l.layer l.tensor.modes.length with h | h
  · refine ⟨l.tensor.modes[l.layer], List.getElem_mem h, ?_⟩
    rw [List.getD_eq_getElem?_getD, List.getElem?_eq_getElem h] at hm'
    simpa using hm'
  · rw [List.getD_eq_getElem?_getD, List.getElem?_eq_none h] at hm'
    cases hm'

theorem next_append_same (t : TensorId) (n : Nat) (k : Kind) :
    ((Output.append t n).next (some n) k : Except GenErr (Output × SB F)) =
      .ok (.append t (n + 1), SB.empty) := by
  simp [Output.next]

/-- **F1 for the one-level graph** `a(…, i) = e0` at the last, compressed, output level: every branch
that is not skipped is `flagBranch l k INNER` with `INNER` the terminal block of `exhaustAll e0 refs`,
where the exhausted tensors `refs` are not among the co-iterated operands of the branch. -/
theorem lower_oneLevel_branches (ofRat : Rat → F) (k : Kind) (n : Nat) (i : String) (l : Leaf)
    (e0 : IdExpr) (b : SB F)
    (hlast : l.layer + 1 = l.tensor.indexes.length) (hmode : l.mode = .compressed)
    (h : lower ofRat (n + 2) (.iter i (some l) (.terminal e0)) (.append l.tensor l.layer) k = .ok b) :
    ∀ sub ∈ generateSubgraphs (.iter i (some l) (.terminal e0)),
      skipped (.iter i (some l) (.terminal e0)) sub = false →
      ∃ s ∈ b.lines, ∃ leaves c bpre bpost,
        s = .loop c (.block (bpre ++ branchJoin leaves :: bpost) none) ∧
        ∀ ss ∈ generateSubgraphs sub, skipped (.iter i (some l) (.terminal e0)) ss = false →
          ∃ refs inner, ss = .iter i (some l) (.terminal (exhaustAll e0 refs)) ∧
            (∀ r ∈ refs, r ∉ compressedDims ss) ∧
            lower ofRat (n + 1) (.terminal (exhaustAll e0 refs))
              (.append l.tensor l.tensor.indexes.length) k = .ok inner ∧
            ((branchCond ss i, flagBranch l k inner) : Expr F × Stmt F) ∈ leaves := by
  have hso : isSparseOutput (.iter i (some l) (.terminal e0)) = true := by
    rw [isSparseOutput_iter, hmode]; rfl
  obtain ⟨nextOut, decls, hnext, hall⟩ := lower_iter_flagBranch_mem ofRat k (n + 1) i l (.terminal e0)
    (.append l.tensor l.layer) b (by simp [hasSparseLayer_of_mode l _ hmode]) hso h
  rw [next_append_same] at hnext
  cases hnext
  intro sub hsub hsk
  obtain ⟨s, hs, leaves, c, bpre, bpost, e, hss⟩ := hall sub hsub hsk
  refine ⟨s, hs, leaves, c, bpre, bpost, e, ?_⟩
  intro ss hss' hsk2
  obtain ⟨inner, hin, hmem⟩ := hss ss hss' hsk2
  obtain ⟨refs, hrefs, hr⟩ := subgraphs_terminal i (some l) e0 sub hsub ss hss'
  refine ⟨refs, inner, hrefs, hr, ?_, hmem⟩
  rw [hrefs, hlast] at hin
  exact hin

end TV.Flag
