import TensoraVerif.Lemmas.FlagBasic
import TensoraVerif.Lemmas.MergeLower

/-!
C03, infrastructure, part 3 (F1): the syntactic link. For an iteration node whose output leaf is
compressed (`isSparseOutput`), every lattice branch `lower` emits — for every sub-node that is not
skipped, for every sub-sub-node that is not skipped, in order — is literally `flagBranch l k INNER`
with `INNER = lower … (subNext ss) nextOut k`, guarded by the coordinate-equality condition of
the sub-sub-node; for all three kernel kinds.
-/
namespace TV.Flag
open TV.IR TV.Gen TV.Graph TV.Merge

set_option linter.unusedSectionVars false
variable {F : Type} [FloatOps F]

/-- `ys` lists, in order, one element per element of `xs`, related by `Q` -/
def FlagPairs {α β : Type} (Q : α → β → Prop) : List α → List β → Prop
  | [], [] => True
  | a :: as, s :: ss => Q a s ∧ FlagPairs Q as ss
  | _, _ => False

theorem flagPairs_mono {α β : Type} {Q R : α → β → Prop} (h : ∀ a b, Q a b → R a b) :
    ∀ (xs : List α) (ys : List β), FlagPairs Q xs ys → FlagPairs R xs ys
  | [], [], _ => trivial
  | _ :: xs, _ :: ys, ⟨h1, h2⟩ => ⟨h _ _ h1, flagPairs_mono h xs ys h2⟩
  | [], _ :: _, h => h.elim
  | _ :: _, [], h => h.elim

theorem flagPairs_length {α β : Type} {Q : α → β → Prop} :
    ∀ (xs : List α) (ys : List β), FlagPairs Q xs ys → xs.length = ys.length
  | [], [], _ => rfl
  | _ :: xs, _ :: ys, ⟨_, h2⟩ => by simp [flagPairs_length xs ys h2]
  | [], _ :: _, h => h.elim
  | _ :: _, [], h => h.elim

/-- the member of `ys` paired with a member of `xs` -/
theorem flagPairs_mem {α β : Type} {Q : α → β → Prop} :
    ∀ (xs : List α) (ys : List β), FlagPairs Q xs ys → ∀ a ∈ xs, ∃ s ∈ ys, Q a s
  | [], [], _, a, ha => by cases ha
  | x :: xs, y :: ys, ⟨h1, h2⟩, a, ha => by
    rcases List.mem_cons.1 ha with rfl | ha
    · exact ⟨y, by simp, h1⟩
    · obtain ⟨s, hs, hq⟩ := flagPairs_mem xs ys h2 a ha
      exact ⟨s, by simp [hs], hq⟩
  | [], _ :: _, h, _, _ => h.elim
  | _ :: _, [], h, _, _ => h.elim

/-- a monadic fold that appends at most one element per step -/
theorem foldlM_snoc_inv {α β ε : Type} (skip : α → Bool) (Q : α → β → Prop)
    (f : List β → α → Except ε (List β)) : ∀ (xs : List α) (a0 a : List β), xs.foldlM f a0 = .ok a →
    (∀ acc x acc', f acc x = .ok acc' →
      (skip x = true ∧ acc' = acc) ∨ (skip x = false ∧ ∃ y, Q x y ∧ acc' = acc ++ [y])) →
    ∃ ys, a = a0 ++ ys ∧ FlagPairs Q (xs.filter fun x => !skip x) ys := by
  intro xs
  induction xs with
  | nil =>
    intro a0 a h _
    rw [List.foldlM_nil] at h
    cases pure_ok h
    exact ⟨[], by simp, trivial⟩
  | cons x xs ih =>
    intro a0 a h hf
    rw [List.foldlM_cons] at h
    obtain ⟨a1, h1, h2⟩ := bind_ok h
    obtain ⟨ys, e, hp⟩ := ih a1 a h2 hf
    rcases hf a0 x a1 h1 with ⟨hs, rfl⟩ | ⟨hs, y, hq, rfl⟩
    · exact ⟨ys, e, by simpa [List.filter_cons, hs] using hp⟩
    · refine ⟨y :: ys, by simpa [List.append_assoc] using e, ?_⟩
      simp only [List.filter_cons, hs, Bool.not_false, if_true]
      exact ⟨hq, hp⟩

/-- the guard of a lattice branch: all coordinates of its sparse leaves equal the loop index -/
def branchCond (ss : IGraph) (i : String) : Expr F :=
  andJoin ((nodeContext ss).sparseLeaves.map fun l =>
    .bin .eq (.var (valueFromCrd l.tensor.id l.layer)) (.var i))

theorem writePosAllocation_comment (l : Leaf) :
    ∃ c, (writePosAllocation (F := F) l).comment = some c := by
  unfold writePosAllocation
  simp only []
  split <;> exact ⟨_, rfl⟩

/-- the builder `lower` assembles for one branch, as a function of `INNER` -/
theorem flagBlk_eq (l : Leaf) (k : Kind) (inner : SB F) :
    SB.finalize (SB.branch
      (SB.append (SB.add (if k.isAssemble = true then SB.append SB.empty (writePosAllocation l) else SB.empty)
        (declAssignE (writtenName l.tensor.name l.layer) .bool (.boolLit false))) inner)
      (.var (writtenName l.tensor.name l.layer))
      (SB.add (if k.isAssemble = true then SB.append SB.empty (writeCrdAssembly l) else SB.empty)
        (increment (.var l.ptr) (.intLit 1))).lines) = flagBranch l k inner := by
  obtain ⟨c, hc⟩ := writePosAllocation_comment (F := F) l
  have hc2 : (writeCrdAssembly (F := F) l).comment = some "crd assembly" := rfl
  unfold flagBranch flagBranchLines flagPre flagDecl flagTail flagThen innerStmts flagName
  cases hk : k.isAssemble <;> cases hi : inner.comment <;>
    simp [SB.finalize, SB.branch, SB.append, SB.add, SB.empty, hc, hc2, hi]

theorem loop_shape_of {W : Expr F} {L : List (Stmt F)} {s : Stmt F} (h : ∃ pre post, L = pre ++ s :: post) :
    ∃ c bpre bpost, Stmt.loop W (.block L none) = .loop c (.block (bpre ++ s :: bpost) none) := by
  obtain ⟨pre, post, rfl⟩ := h
  exact ⟨_, _, _, rfl⟩

set_option maxHeartbeats 1000000 in
/-- **F1.** If `lower` succeeds on an iteration node over `i` whose output leaf `l` is compressed, then
`out.next` succeeded with some `nextOut`, and the emitted lines are `pre ++ loops ++ post` where `loops`
are, in order, one `while` statement per sub-node that is not skipped; the body of the loop of sub-node
`sub` contains the statement `branchJoin leaves` (and when the loop is sparse the loop is EXACTLY the merge
skeleton `mergeLoopL … (denseComputations … ++ [branchJoin leaves])` of `lower_emits_mergeLoop`), and
`leaves` lists, in order, one pair per sub-sub-node `ss` of `sub` that is not skipped: the guard
`branchCond ss i` and the statement `flagBranch l k INNER` with `INNER = lower … (subNext ss) nextOut k`.
All three kernel kinds. -/
theorem lower_iter_flagBranches (ofRat : Rat → F) (k : Kind) (n : Nat) (i : String) (l : Leaf)
    (nx : IGraph) (out : Output) (b : SB F) (hk : (!k.isCompute && !out.hasSparseLayer) = false)
    (hso : isSparseOutput (.iter i (some l) nx) = true)
    (h : lower ofRat (n + 1) (.iter i (some l) nx) out k = .ok b) :
    ∃ nextOut decls, (out.next (some l.layer) k : Except GenErr (Output × SB F)) = .ok (nextOut, decls) ∧
    ∃ pre post loops, b.lines = pre ++ loops ++ post ∧
      PairsWith (fun sub s => ∃ leaves,
          (∃ c bpre bpost, s = .loop c (.block (bpre ++ branchJoin leaves :: bpost) none)) ∧
          (iterSparse (.iter i (some l) nx) = true →
            s = mergeLoopL (nodeContext sub).sparseLeaves i
              (denseComputations (maybeDenseOut (some l) out ++ (nodeContext sub).denseLeaves) i
                (IGraph.iter i (some l) nx).laterIndexes ++ [branchJoin leaves])) ∧
          FlagPairs (fun ss (cs : Expr F × Stmt F) => cs.1 = branchCond ss i ∧
              ∃ inner, lower ofRat n (subNext ss) nextOut k = .ok inner ∧ cs.2 = flagBranch l k inner)
            ((generateSubgraphs sub).filter fun ss => !skipped (.iter i (some l) nx) ss) leaves)
        ((generateSubgraphs (.iter i (some l) nx)).filter fun sub => !skipped (.iter i (some l) nx) sub) loops := by
  unfold lower at h
  simp only [] at h
  split at h
  · rename_i hc; rw [hk] at hc; cases hc
  obtain ⟨⟨nextOut, decls⟩, hnext, h⟩ := bind_ok h
  refine ⟨nextOut, decls, hnext, ?_⟩
  obtain ⟨b2, hfold, h3⟩ := bind_ok h
  clear h
  have key := foldlM_add_inv (fun sub => skipped (.iter i (some l) nx) sub)
    (fun sub s => ∃ leaves,
          (∃ c bpre bpost, s = .loop c (.block (bpre ++ branchJoin leaves :: bpost) none)) ∧
          (iterSparse (.iter i (some l) nx) = true →
            s = mergeLoopL (nodeContext sub).sparseLeaves i
              (denseComputations (maybeDenseOut (some l) out ++ (nodeContext sub).denseLeaves) i
                (IGraph.iter i (some l) nx).laterIndexes ++ [branchJoin leaves])) ∧
          FlagPairs (fun ss (cs : Expr F × Stmt F) => cs.1 = branchCond ss i ∧
              ∃ inner, lower ofRat n (subNext ss) nextOut k = .ok inner ∧ cs.2 = flagBranch l k inner)
            ((generateSubgraphs sub).filter fun ss => !skipped (.iter i (some l) nx) ss) leaves) _ _ _ _ hfold
  obtain ⟨loops, hb2, hpairs⟩ := key (by
    intro bb sub bb' hstep
    simp only [] at hstep
    split at hstep
    · rename_i hc
      exact .inl ⟨by simpa [skipped, iterSparse] using hc, (pure_ok hstep).symm⟩
    · rename_i hc
      obtain ⟨leaves, hleaves, hb'⟩ := bind_ok hstep
      clear hstep
      have hb'' := pure_ok hb'
      clear hb'
      have hsk : skipped (.iter i (some l) nx) sub = false := by
        simpa [skipped, iterSparse] using hc
      refine .inr ⟨hsk, _, ⟨leaves, ?_⟩, hb''.symm⟩
      have inner := foldlM_snoc_inv (fun ss => skipped (.iter i (some l) nx) ss)
        (fun ss (cs : Expr F × Stmt F) => cs.1 = branchCond ss i ∧
              ∃ inner, lower ofRat n (subNext ss) nextOut k = .ok inner ∧ cs.2 = flagBranch l k inner)
        _ _ _ _ hleaves
      obtain ⟨ys, hys, hpairs⟩ := inner (by
        intro acc ss acc' hs
        split at hs
        · rename_i hc2
          exact .inl ⟨by simpa [skipped, iterSparse] using hc2, (pure_ok hs).symm⟩
        · rename_i hc2
          obtain ⟨inn, hinn, hs'⟩ := bind_ok hs
          have := pure_ok hs'
          refine .inr ⟨by simpa [skipped, iterSparse] using hc2, _, ⟨?_, inn, hinn, ?_⟩, this.symm⟩
          · rfl
          · simp only [hso, Bool.and_true]
            exact flagBlk_eq l k inn)
      simp only [List.nil_append] at hys
      subst hys
      refine ⟨?_, ?_, hpairs⟩
      · simp only [TV.Merge.foldl_add_lines, TV.Merge.foldl_foldl_add_lines, SB.add_lines, apply_ite SB.lines,
          List.append_assoc, List.cons_append, List.nil_append]
        apply loop_shape_of
        split
        · exact ⟨_, _, (List.append_assoc _ _ _).symm⟩
        · exact ⟨_, _, (List.append_assoc _ _ _).symm⟩
      · intro hsp
        have hns : (compressedDims sub).isEmpty = false := by
          simpa [skipped, hsp] using hsk
        simp only [iterSparse] at hsp
        have hL : (nodeContext sub).sparseLeaves ≠ [] := by
          intro e
          simp [compressedDims, e, dedupStr] at hns
        have hL' : (nodeContext sub).sparseLeaves.isEmpty = false := by simpa using hL
        simp only [hsp, Bool.not_true]
        simp [mergeLoopL, mergeBodyL, mergeCond, mergeLoads, mergeMin, mergeIncs, denseComputations,
          maybeDenseOut, TV.Merge.foldl_add_lines, TV.Merge.foldl_foldl_add_lines, hL', List.append_assoc]
        first
          | rfl
          | (congr; done)
          | (congr 1; funext a b; cases a <;> cases b <;> simp))
  have hpost : ∃ post, b.lines = b2.lines ++ post := by
    have e := pure_ok h3
    rw [← e]
    split
    · exact ⟨_, rfl⟩
    · exact ⟨[], by simp⟩
  obtain ⟨post, hpost⟩ := hpost
  obtain ⟨pre, hpre⟩ : ∃ pre, b2.lines = pre ++ loops := by rw [hb2]; exact ⟨_, rfl⟩
  exact ⟨pre, post, loops, by rw [hpost, hpre], hpairs⟩

theorem pairsWith_mem {α : Type} {Q : α → Stmt F → Prop} :
    ∀ (xs : List α) (ss : List (Stmt F)), PairsWith Q xs ss → ∀ a ∈ xs, ∃ s ∈ ss, Q a s
  | [], [], _, a, ha => by cases ha
  | x :: xs, y :: ys, ⟨h1, h2⟩, a, ha => by
    rcases List.mem_cons.1 ha with rfl | ha
    · exact ⟨y, by simp, h1⟩
    · obtain ⟨s, hs, hq⟩ := pairsWith_mem xs ys h2 a ha
      exact ⟨s, by simp [hs], hq⟩
  | [], _ :: _, h, _, _ => h.elim
  | _ :: _, [], h, _, _ => h.elim

/-- **F1, membership form.** Every sub-node `sub` that is not skipped has its loop among the emitted lines;
the loop body contains `branchJoin leaves`, and for every sub-sub-node `ss` of `sub` that is not skipped,
`lower` succeeded on the graph below it with some `INNER`, and the pair
`(branchCond ss i, flagBranch l k INNER)` is one of the branches. -/
theorem lower_iter_flagBranch_mem (ofRat : Rat → F) (k : Kind) (n : Nat) (i : String) (l : Leaf)
    (nx : IGraph) (out : Output) (b : SB F) (hk : (!k.isCompute && !out.hasSparseLayer) = false)
    (hso : isSparseOutput (.iter i (some l) nx) = true)
    (h : lower ofRat (n + 1) (.iter i (some l) nx) out k = .ok b) :
    ∃ nextOut decls, (out.next (some l.layer) k : Except GenErr (Output × SB F)) = .ok (nextOut, decls) ∧
      ∀ sub ∈ generateSubgraphs (.iter i (some l) nx), skipped (.iter i (some l) nx) sub = false →
        ∃ s ∈ b.lines, ∃ leaves c bpre bpost,
          s = .loop c (.block (bpre ++ branchJoin leaves :: bpost) none) ∧
          ∀ ss ∈ generateSubgraphs sub, skipped (.iter i (some l) nx) ss = false →
            ∃ inner, lower ofRat n (subNext ss) nextOut k = .ok inner ∧
              ((branchCond ss i, flagBranch l k inner) : Expr F × Stmt F) ∈ leaves := by
  obtain ⟨nextOut, decls, hnext, pre, post, loops, hb, hp⟩ :=
    lower_iter_flagBranches ofRat k n i l nx out b hk hso h
  refine ⟨nextOut, decls, hnext, ?_⟩
  intro sub hsub hsk
  obtain ⟨s, hs, leaves, ⟨c, bpre, bpost, e⟩, _, hfp⟩ := pairsWith_mem _ _ hp sub
    (List.mem_filter.2 ⟨hsub, by simp [hsk]⟩)
  refine ⟨s, by rw [hb]; simp [hs], leaves, c, bpre, bpost, e, ?_⟩
  intro ss hss hsk2
  obtain ⟨⟨c1, s1⟩, hmem, hc1, inner, hin, hs1⟩ := flagPairs_mem _ _ hfp ss
    (List.mem_filter.2 ⟨hss, by simp [hsk2]⟩)
  simp only at hc1 hs1
  subst hc1 hs1
  exact ⟨inner, hin, hmem⟩

theorem isSparseOutput_iter (i : String) (l : Leaf) (nx : IGraph) :
    isSparseOutput (.iter i (some l) nx) = (l.mode == .compressed) := rfl

end TV.Flag
