import TensoraVerif.Lemmas.FlagPre

/-!
C03, infrastructure, part 7 (F4): nested flags. A terminal below TWO compressed output levels raises
both flags; with INNER = one inner `flagBranch` around the terminal block, the outer coordinate is
appended iff the inner terminal was non-zero.
-/
namespace TV.Flag
open TV.IR TV.Gen TV.Graph TV.Growth TV.ToIr TV.Merge

set_option linter.unusedSectionVars false
variable {F : Type} [FloatOps F]

/-! ### names of two levels of the same tensor -/

theorem crdName_layer_ne (t : String) {a b : Nat} (h : a ≠ b) : crdName t a ≠ crdName t b := by
  intro e
  have e' := congrArg String.toList e
  simp only [crdName, String.toList_append, List.append_assoc] at e'
  have e'' := List.append_cancel_right (List.append_cancel_left (List.append_cancel_left e'))
  exact h (toString_nat_inj (String.ext e''))

theorem crdCapName_layer_ne (t : String) {a b : Nat} (h : a ≠ b) : crdCapName t a ≠ crdCapName t b := by
  intro e
  have e' := congrArg String.toList e
  simp only [crdCapName, String.toList_append, List.append_assoc] at e'
  have e'' := List.append_cancel_right (List.append_cancel_left (List.append_cancel_left e'))
  exact h (toString_nat_inj (String.ext e''))

theorem writtenName_layer_ne (t : String) {a b : Nat} (h : a ≠ b) : writtenName t a ≠ writtenName t b := by
  intro e
  exact h (id_layer_inj "written_" e).2

theorem layerPointer_layer_ne (r : String) {a b : Nat} (h : a ≠ b) : layerPointer r a ≠ layerPointer r b := by
  intro e
  exact h (layerPointer_inj e).2

theorem crdName_ne_crdCapName_any (t : String) (a : Nat) (s : String) (b : Nat) :
    crdName t a ≠ crdCapName s b :=
  ne_of_last (crdName_getLast? t a) (flag_crdCapName_getLast? s b) (by decide)

/-- what F4 needs of the names of two levels: the four names of the outer level are not written by the
inner branch, and the four names of the inner level are not written by the outer tail -/
structure CrossNames (l1 l2 : Leaf) : Prop where
  out : ∀ x ∈ [crdName l1.tensor.name l1.layer, crdCapName l1.tensor.name l1.layer, l1.ptr, l1.index],
    x ≠ crdName l2.tensor.name l2.layer ∧ x ≠ crdCapName l2.tensor.name l2.layer ∧ x ≠ l2.ptr ∧
    x ≠ valsName l2.tensor.name ∧ x ≠ valsCapName l2.tensor.name ∧ ∀ s m, x ≠ writtenName s m
  back : ∀ x ∈ [crdName l2.tensor.name l2.layer, crdCapName l2.tensor.name l2.layer, l2.ptr, l2.index],
    x ≠ crdName l1.tensor.name l1.layer ∧ x ≠ crdCapName l1.tensor.name l1.layer ∧ x ≠ l1.ptr
  flags : flagName l1 ≠ flagName l2

/-- two different levels of one tensor, index names without `'_'` -/
theorem crossNames_of (l1 l2 : Leaf) (ht : l1.tensor = l2.tensor) (hl : l1.layer ≠ l2.layer)
    (h1 : '_' ∉ l1.index.toList) (h2 : '_' ∉ l2.index.toList) : CrossNames l1 l2 := by
  have u : ∀ (s : String), '_' ∈ s.toList → l1.index ≠ s ∧ l2.index ≠ s :=
    fun s hs => ⟨ne_of_underscore h1 hs, ne_of_underscore h2 hs⟩
  have ucrd : ∀ t m, '_' ∈ (crdName t m).toList := by intro t m; simp [crdName, String.toList_append]
  have ucap : ∀ t m, '_' ∈ (crdCapName t m).toList := by intro t m; simp [crdCapName, String.toList_append]
  have uptr : ∀ t m, '_' ∈ (layerPointer t m).toList := by intro t m; simp [layerPointer, String.toList_append]
  have uvals : ∀ t, '_' ∈ (valsName t).toList := by intro t; simp [valsName, String.toList_append]
  have uvcap : ∀ t, '_' ∈ (valsCapName t).toList := by intro t; simp [valsCapName, String.toList_append]
  refine ⟨?_, ?_, ?_⟩
  · intro x hx
    simp only [List.mem_cons, List.not_mem_nil, or_false] at hx
    rcases hx with rfl | rfl | rfl | rfl
    · exact ⟨by rw [ht]; exact crdName_layer_ne _ hl, crdName_ne_crdCapName_any _ _ _ _,
        (layerPointer_ne_crdName _ _ _ _).symm, crdName_ne_valsName _ _ _, crdName_ne_valsCapName _ _ _,
        fun s m => (writtenName_ne_crdName _ _ _ _).symm⟩
    · exact ⟨(crdName_ne_crdCapName_any _ _ _ _).symm, by rw [ht]; exact crdCapName_layer_ne _ hl,
        (layerPointer_ne_crdCapName _ _ _ _).symm, crdCapName_ne_valsName _ _ _,
        crdCapName_ne_valsCapName _ _ _, fun s m => (writtenName_ne_crdCapName _ _ _ _).symm⟩
    · exact ⟨layerPointer_ne_crdName _ _ _ _, layerPointer_ne_crdCapName _ _ _ _,
        by unfold Leaf.ptr; rw [ht]; exact layerPointer_layer_ne _ hl,
        layerPointer_ne_valsName _ _ _, layerPointer_ne_valsCapName _ _ _,
        fun s m => (writtenName_ne_layerPointer _ _ _ _).symm⟩
    · exact ⟨(u _ (ucrd _ _)).1, (u _ (ucap _ _)).1, (u _ (uptr _ _)).1, (u _ (uvals _)).1,
        (u _ (uvcap _)).1, fun s m => (u _ (writtenName_underscore s m)).1⟩
  · intro x hx
    simp only [List.mem_cons, List.not_mem_nil, or_false] at hx
    rcases hx with rfl | rfl | rfl | rfl
    · exact ⟨by rw [ht]; exact crdName_layer_ne _ hl.symm, crdName_ne_crdCapName_any _ _ _ _,
        (layerPointer_ne_crdName _ _ _ _).symm⟩
    · exact ⟨(crdName_ne_crdCapName_any _ _ _ _).symm, by rw [ht]; exact crdCapName_layer_ne _ hl.symm,
        (layerPointer_ne_crdCapName _ _ _ _).symm⟩
    · exact ⟨layerPointer_ne_crdName _ _ _ _, layerPointer_ne_crdCapName _ _ _ _,
        by unfold Leaf.ptr; rw [ht]; exact layerPointer_layer_ne _ hl.symm⟩
    · exact ⟨(u _ (ucrd _ _)).2, (u _ (ucap _ _)).2, (u _ (uptr _ _)).2⟩
  · unfold flagName; rw [ht]; exact writtenName_layer_ne _ hl

/-! ### transport along `bool written_1 = false;` -/

theorem leafAway_sameBut {σ σ' : State F} {s : String} {m : Nat} {ρ : String → F} {tn : String}
    {bv : Nat} {t : TensorId} (h : SameBut (writtenName s m) σ σ') (hl : LeafAway σ ρ tn bv t) :
    LeafAway σ' ρ tn bv t := by
  obtain ⟨hn, b, off, p, hb, h1, h2, h3⟩ := hl
  exact ⟨hn, b, off, p, hb, ptrAt_sameBut h (writtenName_ne_valsName _ _ _).symm h1,
    (evalE_cursor_sameBut h ..).trans h2, floatCell_heap (by rw [h.heap]) h3⟩

theorem innerFrame_sameBut {σ σ' : State F} {f : String} (l : Leaf) (b : Nat) (h : SameBut f σ σ')
    (h1 : crdName l.tensor.name l.layer ≠ f) (h2 : crdCapName l.tensor.name l.layer ≠ f)
    (h3 : l.ptr ≠ f) (h4 : l.index ≠ f) : InnerFrame l b σ σ' :=
  ⟨h.vars _ h1, h.vars _ h2, h.vars _ h3, h.vars _ h4, by rw [h.heap]⟩

/-- **F4 in `Runs` form.** -/
theorem flagNested_app (ofRat : Rat → F) (ρ : String → F) (e : IdExpr) (l1 l2 : Leaf) (k : Kind)
    (hk : k.isAssemble = true) (n fuel : Nat) (σ σ0 : State F)
    (b1 : Nat) (c1 i1 : Int) (ws1 : List Int) (b2 : Nat) (c2 i2 : Int) (ws2 : List Int)
    (bv : Nat) (cv : Int)
    (ht : l1.tensor = l2.tensor) (hl : l2.layer = l1.layer + 1)
    (hlast : l2.layer + 1 = l2.tensor.indexes.length)
    (hm1 : l1.mode = .compressed) (hm2 : l2.mode = .compressed)
    (hx1 : '_' ∉ l1.index.toList) (hx2 : '_' ∉ l2.index.toList)
    (hpre : RunsL fuel (flagPre l1 k) σ σ0)
    (hf1 : lookupVar σ0.vars (flagName l1) = none ∨ FlagVar σ0 (flagName l1))
    (hf2 : lookupVar σ0.vars (flagName l2) = none ∨ FlagVar σ0 (flagName l2))
    (hflags : ∀ g ∈ (Output.append l2.tensor l2.tensor.indexes.length).writtenFlags,
      g ≠ flagName l1 → g ≠ flagName l2 → FlagVar σ0 g)
    (hvals : ArrInv σ0 (valsName l2.tensor.name) (valsCapName l2.tensor.name) .float bv cv)
    (happ1 : AppInv σ0 l1 b1 c1 ws1) (hi1 : IntVar σ0 l1.index i1)
    (hi10 : -2147483648 ≤ i1) (hi11 : i1 < 2147483648)
    (hn1 : (ws1.length : Int) + 1 < 2147483648) (hov1 : c1 ≤ ws1.length → 2 * c1 < 2147483648)
    (happ2 : AppInv σ0 l2 b2 c2 ws2) (hi2 : IntVar σ0 l2.index i2)
    (hi20 : -2147483648 ≤ i2) (hi21 : i2 < 2147483648)
    (hn2 : (ws2.length : Int) + 1 < 2147483648) (hov2 : c2 ≤ ws2.length → 2 * c2 < 2147483648)
    (hcv : (ws2.length : Int) ≤ cv) (hovv : cv ≤ ws2.length → 2 * cv < 2147483648)
    (hb12 : b1 ≠ b2)
    (hc : k.isCompute = true → AllFinite ofRat ρ e ∧ ∀ s ∈ leaves e, LeafAway σ0 ρ l2.tensor.name bv s) :
    ∃ inner σ3 b1' c1' b2' c2',
      lower ofRat (n + 1) (.terminal e) (.append l2.tensor l2.tensor.indexes.length) k = .ok inner ∧
      Runs fuel (flagBranch l1 k ⟨none, [flagBranch l2 k inner]⟩) σ σ3 ∧
      AppInv σ3 l1 b1' c1' (if e ≠ .int 0 then ws1 ++ [i1] else ws1) ∧
      AppInv σ3 l2 b2' c2' (if e ≠ .int 0 then ws2 ++ [i2] else ws2) ∧
      σ3.tensors = σ0.tensors := by
  have hne : l1.layer ≠ l2.layer := by omega
  have cn := crossNames_of l1 l2 ht hne hx1 hx2
  have n1 := flagNamesAll_of_index l1 hx1
  have n2 := flagNamesAll_of_index l2 hx2
  have hidxv2 : l2.index ≠ valsName l2.tensor.name ∧ l2.index ≠ valsCapName l2.tensor.name :=
    ⟨ne_of_underscore hx2 (by simp [valsName, String.toList_append]),
     ne_of_underscore hx2 (by simp [valsCapName, String.toList_append])⟩
  -- state after `bool written_1 = false;`
  have hsb : SameBut (flagName l1) σ0 (declFalse σ0 (flagName l1)) := declFalse_sameBut ..
  have hF1 : BoolVar (declFalse σ0 (flagName l1)) (flagName l1) false := declFalse_flag _ _ hf1
  have hf2' : lookupVar (declFalse σ0 (flagName l1)).vars (flagName l2) = none ∨
      FlagVar (declFalse σ0 (flagName l1)) (flagName l2) := by
    have e := hsb.vars (flagName l2) cn.flags.symm
    rcases hf2 with h | ⟨r, e1, e2⟩
    · exact .inl (e.trans h)
    · exact .inr ⟨r, e.trans e1, e2⟩
  have hflags' : ∀ g ∈ (Output.append l2.tensor l2.tensor.indexes.length).writtenFlags,
      g ≠ flagName l2 → FlagVar (declFalse σ0 (flagName l1)) g := by
    intro g hg hne2
    by_cases hg1 : g = flagName l1
    · rw [hg1]; exact hF1.flagVar
    · obtain ⟨r, e1, e2⟩ := hflags g hg hg1 hne2
      exact ⟨r, (hsb.vars g hg1).trans e1, e2⟩
  have fr2 : InnerFrame l2 b2 σ0 (declFalse σ0 (flagName l1)) :=
    innerFrame_sameBut l2 b2 hsb (writtenName_ne_crdName _ _ _ _).symm
      (writtenName_ne_crdCapName _ _ _ _).symm (writtenName_ne_layerPointer _ _ _ _).symm
      (n2.idx _ _).symm
  have hvals' : ArrInv (declFalse σ0 (flagName l1)) (valsName l2.tensor.name)
      (valsCapName l2.tensor.name) .float bv cv :=
    hvals.congr hsb.heap (hsb.vars _ (writtenName_ne_valsName _ _ _).symm)
      (hsb.vars _ (writtenName_ne_valsCapName _ _ _).symm)
  have hc' : k.isCompute = true → AllFinite ofRat ρ e ∧
      ∀ s ∈ leaves e, LeafAway (declFalse σ0 (flagName l1)) ρ l2.tensor.name bv s := by
    intro h
    obtain ⟨h1, h2⟩ := hc h
    exact ⟨h1, fun s hs => leafAway_sameBut hsb (h2 s hs)⟩
  -- the inner branch
  obtain ⟨inner, σ2, b2', c2', bv', cv', hlow, r2, happ2', _, _, _, ht2, hall2, hvars2, hheap2⟩ :=
    flagTerminal_from_start ofRat ρ e l2 k hk n fuel (declFalse σ0 (flagName l1)) b2 c2 i2 ws2 bv cv
      hlast hm2 n2 hidxv2 hf2' hflags' hvals' (appInv_frame happ2 fr2) (hi2.congr fr2.idx) hi20 hi21
      hn2 hov2 hcv hovv hc'
  -- its frame for the outer level
  have hfw := allWritten_activeFlags e (.append l2.tensor l2.tensor.indexes.length)
  have look : ∀ x ∈ [crdName l1.tensor.name l1.layer, crdCapName l1.tensor.name l1.layer, l1.ptr,
      l1.index], lookupVar σ2.vars x = lookupVar σ0.vars x := by
    intro x hx
    obtain ⟨a1, a2, a3, a4, a5, a6⟩ := cn.out x hx
    rw [hvars2 x a1 a2 a3 (a6 _ _) (fun hmem => by
      obtain ⟨s, m, e⟩ := hfw _ hmem
      exact a6 s m e) a4 a5]
    exact hsb.vars x (a6 _ _)
  have hb1v : b1 ≠ bv := by
    intro e
    obtain ⟨blk, e1, _, _, t1, _⟩ := happ1.inv.blk
    obtain ⟨blk', e2, _, _, t2, _⟩ := hvals.blk
    rw [e, e2] at e1; cases e1
    rw [t1] at t2; cases t2
  obtain ⟨blk1, eb1, _⟩ := happ1.inv.blk
  obtain ⟨hb1heap, hb1b2', _⟩ := hheap2 b1 blk1 hb12 hb1v (by rw [hsb.heap]; exact eb1)
  have fr1 : InnerFrame l1 b1 σ0 σ2 :=
    ⟨look _ (by simp), look _ (by simp), look _ (by simp), look _ (by simp), by rw [hb1heap, eb1]⟩
  -- the outer flag
  have hmem1 : flagName l1 ∈ (Output.append l2.tensor l2.tensor.indexes.length).writtenFlags :=
    flagName_mem_writtenFlags l1 _ ht.symm hm1
  have hw : BoolVar σ2 (flagName l1) (decide (e ≠ .int 0)) := by
    by_cases he : e = .int 0
    · simp only [he, ne_eq, not_true_eq_false, decide_false]
      refine hF1.congr ?_
      apply hvars2
      · exact writtenName_ne_crdName _ _ _ _
      · exact writtenName_ne_crdCapName _ _ _ _
      · exact writtenName_ne_layerPointer _ _ _ _
      · exact cn.flags
      · rw [he, activeFlags_zero]; simp
      · exact writtenName_ne_valsName _ _ _
      · exact writtenName_ne_valsCapName _ _ _
    · simp only [ne_eq, he, not_false_eq_true, decide_true]
      exact hall2 he _ hmem1
  -- the outer branch
  obtain ⟨σ3, b1', c1', r, happ3, _, ht3, hheap3, hvars3⟩ := flagBranch_app l1 k hk
    ⟨none, [flagBranch l2 k inner]⟩ fuel σ σ0 σ2 b1 c1 i1 ws1 (decide (e ≠ .int 0)) n1.flagNames hpre hf1
    happ1 hi1 hi10 hi11 hn1 hov1 (RunsL.cons r2 (RunsL.nil ..)) fr1 hw
  -- the inner level survives the outer tail
  obtain ⟨blk2, eb2, _⟩ := happ2'.inv.blk
  have fr3 : InnerFrame l2 b2' σ2 σ3 := by
    have back := cn.back
    refine ⟨?_, ?_, ?_, ?_, ?_⟩
    · obtain ⟨a1, a2, a3⟩ := back (crdName l2.tensor.name l2.layer) (by simp); exact hvars3 _ a1 a2 a3
    · obtain ⟨a1, a2, a3⟩ := back (crdCapName l2.tensor.name l2.layer) (by simp); exact hvars3 _ a1 a2 a3
    · obtain ⟨a1, a2, a3⟩ := back l2.ptr (by simp); exact hvars3 _ a1 a2 a3
    · obtain ⟨a1, a2, a3⟩ := back l2.index (by simp); exact hvars3 _ a1 a2 a3
    · rw [eb2]; exact (hheap3 b2' blk2 hb1b2'.symm eb2).1
  refine ⟨inner, σ3, b1', c1', b2', c2', hlow, r, by simpa using happ3, appInv_frame happ2' fr3, ?_⟩
  rw [ht3, ht2, hsb.tensors]

end TV.Flag
