import TensoraVerif.Lemmas.FlagTerminal
import TensoraVerif.Lemmas.MergeNames
import TensoraVerif.Props.C05Growth

/-!
C03, infrastructure, part 5: the allocation prefix `PRE = [writePosAllocation l]` of a flag branch at
the LAST output level (where it grows the `vals` array), run on the machine from the array invariant of
`vals`; the coordinate invariant `AppInv` and the input leaves survive it.
-/
namespace TV.Flag
open TV.IR TV.Gen TV.Graph TV.Growth TV.ToIr TV.Merge

set_option linter.unusedSectionVars false
variable {F : Type} [FloatOps F]

/-! ### the target of the allocation at the last level -/

theorem denseBelow_last (l : Leaf) (hlast : l.layer + 1 = l.tensor.indexes.length) :
    denseBelow l.tensor l.layer = [] := by
  unfold denseBelow
  rw [← hlast]
  simp

theorem allocIsVals_last (l : Leaf) (hlast : l.layer + 1 = l.tensor.indexes.length) :
    allocIsVals l = true := by
  simp [allocIsVals, allocTarget, denseBelow_last l hlast, hlast]

theorem allocArr_last (l : Leaf) (hlast : l.layer + 1 = l.tensor.indexes.length) :
    allocArr l = valsName l.tensor.name := by simp [allocArr, allocIsVals_last l hlast]
theorem allocCap_last (l : Leaf) (hlast : l.layer + 1 = l.tensor.indexes.length) :
    allocCap l = valsCapName l.tensor.name := by simp [allocCap, allocIsVals_last l hlast]
theorem allocEty_last (l : Leaf) (hlast : l.layer + 1 = l.tensor.indexes.length) :
    allocEty l = .float := by simp [allocEty, allocIsVals_last l hlast]
theorem allocBonus_last (l : Leaf) (hlast : l.layer + 1 = l.tensor.indexes.length) :
    allocBonus l = 0 := by simp [allocBonus, allocIsVals_last l hlast]

/-! ### names -/

theorem flag_valsName_getLast? (t : String) : (valsName t).toList.getLast? = some 's' := by
  simp only [valsName, String.toList_append, List.getLast?_append]; rfl

theorem flag_valsCapName_getLast? (t : String) : (valsCapName t).toList.getLast? = some 'y' := by
  simp only [valsCapName, String.toList_append, List.getLast?_append]; rfl

theorem flag_crdCapName_getLast? (t : String) (l : Nat) : (crdCapName t l).toList.getLast? = some 'y' := by
  simp only [crdCapName, String.toList_append, List.getLast?_append]; rfl

theorem ne_of_last {s t : String} {a b : Char} (hs : s.toList.getLast? = some a)
    (ht : t.toList.getLast? = some b) (h : a ≠ b) : s ≠ t := by
  apply ne_of_getLast?_ne
  rw [hs, ht]
  intro e; cases e; exact h rfl

theorem crdName_ne_valsName (t : String) (l : Nat) (s : String) : crdName t l ≠ valsName s :=
  ne_of_last (crdName_getLast? t l) (flag_valsName_getLast? s) (by decide)
theorem crdName_ne_valsCapName (t : String) (l : Nat) (s : String) : crdName t l ≠ valsCapName s :=
  ne_of_last (crdName_getLast? t l) (flag_valsCapName_getLast? s) (by decide)
theorem crdCapName_ne_valsName (t : String) (l : Nat) (s : String) : crdCapName t l ≠ valsName s :=
  ne_of_last (flag_crdCapName_getLast? t l) (flag_valsName_getLast? s) (by decide)
theorem layerPointer_ne_valsName (r : String) (l : Nat) (s : String) : layerPointer r l ≠ valsName s :=
  ne_of_digit_last (layerPointer_getLast? r l) (flag_valsName_getLast? s) (by decide)
theorem layerPointer_ne_valsCapName (r : String) (l : Nat) (s : String) :
    layerPointer r l ≠ valsCapName s :=
  ne_of_digit_last (layerPointer_getLast? r l) (flag_valsCapName_getLast? s) (by decide)
theorem valsName_ne_valsCapName_any (s t : String) : valsName s ≠ valsCapName t :=
  ne_of_last (flag_valsName_getLast? s) (flag_valsCapName_getLast? t) (by decide)

theorem crdCapName_ne_valsCapName (t : String) (l : Nat) (s : String) :
    crdCapName t l ≠ valsCapName s := by
  intro h
  have h' := congrArg String.toList h
  simp only [crdCapName, valsCapName, String.toList_append] at h'
  have e1 : ("_crd_capacity" : String).toList = "_crd".toList ++ "_capacity".toList := by decide
  have e2 : ("_vals_capacity" : String).toList = "_vals".toList ++ "_capacity".toList := by decide
  rw [e1, e2, ← List.append_assoc, ← List.append_assoc s.toList] at h'
  have h'' := congrArg List.getLast? (List.append_cancel_right h')
  simp only [List.getLast?_append] at h''
  rw [show ("_crd" : String).toList.getLast? = some 'd' from rfl,
    show ("_vals" : String).toList.getLast? = some 's' from rfl] at h''
  simp at h''

theorem valsName_inj {s t : String} (h : valsName s = valsName t) : s = t := by
  have h' := congrArg String.toList h
  simp only [valsName, String.toList_append] at h'
  exact String.ext (List.append_cancel_right h')

/-! ### PRE at the last level -/

/-- `PRE` at the last level of the output: `if (p >= vals_cap) { vals_cap *= 2; vals = realloc(vals) }`.
From the array invariant of `vals` (block `bv`, capacity `cv`) with the cursor `0 ≤ p ≤ cv`, it runs,
and afterwards (`GrowPost`) cell `p` of the array is in bounds. -/
theorem flagPre_last_runs (l : Leaf) (k : Kind) (hk : k.isAssemble = true) (fuel : Nat) (σ : State F)
    (bv : Nat) (cv p : Int)
    (hlast : l.layer + 1 = l.tensor.indexes.length)
    (hinv : ArrInv σ (valsName l.tensor.name) (valsCapName l.tensor.name) .float bv cv)
    (hp : IntVar σ l.ptr p) (hp0 : 0 ≤ p) (hpc : p ≤ cv) (hov : cv ≤ p → 2 * cv < 2147483648) :
    ∃ σ0 bv' cv', RunsL fuel (flagPre l k) σ σ0 ∧
      GrowPost σ σ0 (valsName l.tensor.name) (valsCapName l.tensor.name) .float bv cv bv' cv' ∧
      p < cv' := by
  have hcv := hinv.lt
  have hb := allocBonus_last l hlast
  have hinv' : ArrInv σ (allocArr l) (allocCap l) (allocEty l) bv cv := by
    rw [allocArr_last l hlast, allocCap_last l hlast, allocEty_last l hlast]; exact hinv
  obtain ⟨o, b', c', e, r, g, _, hlt⟩ := writePosAllocation_nodense_safe l fuel σ bv cv p
    (denseBelow_last l hlast) hinv' hp hp0 (by rw [hb]; omega) (by rw [hb]; simpa using hov)
  rw [allocArr_last l hlast, allocCap_last l hlast, allocEty_last l hlast] at g
  rw [hb] at hlt
  refine ⟨o.st, b', c', ?_, g, by have := hlt (by omega); omega⟩
  simp only [flagPre, hk, if_true]
  exact RunsL.cons ⟨o, e, r, rfl⟩ (RunsL.nil ..)

/-! ### what survives the growth of `vals` -/

/-- the coordinate invariant of the leaf survives the growth of the `vals` array -/
theorem appInv_growPost {σ σ0 : State F} {l : Leaf} {b : Nat} {c : Int} {ws : List Int} {s : String}
    {bv bv' : Nat} {cv cv' : Int}
    (hinv : ArrInv σ (valsName s) (valsCapName s) .float bv cv)
    (g : GrowPost σ σ0 (valsName s) (valsCapName s) .float bv cv bv' cv')
    (hidx : l.index ≠ valsName s ∧ l.index ≠ valsCapName s)
    (h : AppInv σ l b c ws) : AppInv σ0 l b c ws := by
  have hb : b ≠ bv := by
    intro e
    obtain ⟨blk, e1, _, _, t1, _⟩ := h.inv.blk
    obtain ⟨blk', e2, _, _, t2, _⟩ := hinv.blk
    rw [e, e2] at e1; cases e1
    rw [t1] at t2; cases t2
  obtain ⟨blk, eb, rest⟩ := h.inv.blk
  have hheap : σ0.heap[b]? = σ.heap[b]? := by rw [eb]; exact g.heap b blk hb eb
  refine ⟨arrInv_frame h.inv hheap (g.vars _ (crdName_ne_valsName _ _ _) (crdName_ne_valsCapName _ _ _))
    (g.vars _ (crdCapName_ne_valsName _ _ _) (crdCapName_ne_valsCapName _ _ _)),
    h.ptr.congr (g.vars _ (layerPointer_ne_valsName _ _ _) (layerPointer_ne_valsCapName _ _ _)),
    let ⟨v0, hv⟩ := h.idx; ⟨v0, hv.congr (g.vars _ hidx.1 hidx.2)⟩, h.le, holds_frame h.holds hheap⟩

/-- an input occurrence that is away from the output's `vals` array: another tensor name, a block
other than `bv`; otherwise E1's hypothesis `LeafOK` -/
def LeafAway (σ : State F) (ρ : String → F) (tname : String) (bv : Nat) (s : TensorId) : Prop :=
  s.name ≠ tname ∧ ∃ b off p, b ≠ bv ∧ PtrAt σ (valsName s.name) b off ∧
    evalE σ (prevLayerPointer s.id s.indexes.length : Expr F) = .ok (.int p) ∧
    FloatCell σ b (off + p) (ρ s.id)

theorem evalE_cursor_growPost {σ σ0 : State F} {t : String} {bv bv' : Nat} {cv cv' : Int}
    (g : GrowPost σ σ0 (valsName t) (valsCapName t) .float bv cv bv' cv') (id : String) (n : Nat) :
    evalE σ0 (prevLayerPointer id n : Expr F) = evalE σ (prevLayerPointer id n) := by
  unfold prevLayerPointer
  split
  · simp [evalE]
  · simp only [evalE, g.vars _ (layerPointer_ne_valsName _ _ _) (layerPointer_ne_valsCapName _ _ _)]

theorem leafOK_growPost {σ σ0 : State F} {ρ : String → F} {t : String} {bv bv' : Nat} {cv cv' : Int}
    {s : TensorId} (g : GrowPost σ σ0 (valsName t) (valsCapName t) .float bv cv bv' cv')
    (h : LeafAway σ ρ t bv s) : LeafOK σ0 ρ s := by
  obtain ⟨hn, b, off, p, hb, ⟨r, ty, e1, e2, e3⟩, h2, blk, e4, rest⟩ := h
  refine ⟨b, off, p, ⟨r, ty, ?_, e2, e3⟩, (evalE_cursor_growPost g ..).trans h2,
    ⟨blk, g.heap b blk hb e4, rest⟩⟩
  rw [g.vars _ (fun e => hn (valsName_inj e)) (valsName_ne_valsCapName_any _ _)]
  exact e1

/-- **F3 from the state before the branch** (assembling kinds, last output level): the array invariant
of `vals` and the coordinate invariant `AppInv` with `|ws| ≤` both capacities are re-established, the
coordinate list grows by `[i]` iff `e ≠ Integer 0`. -/
theorem flagTerminal_from_start (ofRat : Rat → F) (ρ : String → F) (e : IdExpr) (l : Leaf) (k : Kind)
    (hk : k.isAssemble = true) (n fuel : Nat) (σ : State F) (b : Nat) (c i : Int) (ws : List Int)
    (bv : Nat) (cv : Int)
    (hlast : l.layer + 1 = l.tensor.indexes.length) (hmode : l.mode = .compressed)
    (hnames : FlagNamesAll l)
    (hidxv : l.index ≠ valsName l.tensor.name ∧ l.index ≠ valsCapName l.tensor.name)
    (hfl0 : lookupVar σ.vars (flagName l) = none ∨ FlagVar σ (flagName l))
    (hflags : ∀ g ∈ (Output.append l.tensor l.tensor.indexes.length).writtenFlags, g ≠ flagName l →
      FlagVar σ g)
    (hvals : ArrInv σ (valsName l.tensor.name) (valsCapName l.tensor.name) .float bv cv)
    (happ : AppInv σ l b c ws) (hi : IntVar σ l.index i)
    (hi0 : -2147483648 ≤ i) (hi1 : i < 2147483648)
    (hn : (ws.length : Int) + 1 < 2147483648) (hov : c ≤ ws.length → 2 * c < 2147483648)
    (hcv : (ws.length : Int) ≤ cv) (hovv : cv ≤ ws.length → 2 * cv < 2147483648)
    (hc : k.isCompute = true → AllFinite ofRat ρ e ∧ ∀ s ∈ leaves e, LeafAway σ ρ l.tensor.name bv s) :
    ∃ inner σ3 b' c' bv' cv',
      lower ofRat (n + 1) (.terminal e) (.append l.tensor l.tensor.indexes.length) k = .ok inner ∧
      Runs fuel (flagBranch l k inner) σ σ3 ∧
      AppInv σ3 l b' c' (if e ≠ .int 0 then ws ++ [i] else ws) ∧
      ArrInv σ3 (valsName l.tensor.name) (valsCapName l.tensor.name) .float bv' cv' ∧
      (ws.length : Int) < cv' ∧
      (k.isCompute = true → FloatCell σ3 bv' ws.length (valueF ofRat ρ e)) ∧
      σ3.tensors = σ.tensors ∧
      (e ≠ .int 0 → ∀ g ∈ (Output.append l.tensor l.tensor.indexes.length).writtenFlags, FlagTrue σ3 g) ∧
      (∀ x, x ≠ crdName l.tensor.name l.layer → x ≠ crdCapName l.tensor.name l.layer → x ≠ l.ptr →
        x ≠ flagName l → x ∉ activeFlags e (.append l.tensor l.tensor.indexes.length) →
        x ≠ valsName l.tensor.name → x ≠ valsCapName l.tensor.name →
        lookupVar σ3.vars x = lookupVar σ.vars x) ∧
      (∀ j blk, j ≠ b → j ≠ bv → σ.heap[j]? = some blk →
        σ3.heap[j]? = some blk ∧ j ≠ b' ∧ j ≠ bv') := by
  obtain ⟨σ0, bv', cv', rpre, g, hlt⟩ := flagPre_last_runs l k hk fuel σ bv cv ws.length hlast hvals
    happ.ptr (by omega) hcv hovv
  have happ0 := appInv_growPost hvals g hidxv happ
  have hfl0' : lookupVar σ0.vars (flagName l) = none ∨ FlagVar σ0 (flagName l) := by
    have e := g.vars (flagName l) (writtenName_ne_valsName _ _ _) (writtenName_ne_valsCapName _ _ _)
    rcases hfl0 with h | ⟨r, e1, e2⟩
    · exact .inl (e.trans h)
    · exact .inr ⟨r, e.trans e1, e2⟩
  have hflags' : ∀ f ∈ (Output.append l.tensor l.tensor.indexes.length).writtenFlags, f ≠ flagName l →
      FlagVar σ0 f := by
    intro f hf hne
    obtain ⟨r, e1, e2⟩ := hflags f hf hne
    obtain ⟨m, hm⟩ := mem_writtenFlags hf
    refine ⟨r, (g.vars f ?_ ?_).trans e1, e2⟩
    · rw [hm]; exact writtenName_ne_valsName _ _ _
    · rw [hm]; exact writtenName_ne_valsCapName _ _ _
  obtain ⟨blkv, ebv, lv, ov, tv, lenv⟩ := g.inv.blk
  have hbne : bv' ≠ b := by
    intro e
    obtain ⟨blk, e1, _, _, t1, _⟩ := happ0.inv.blk
    rw [← e, ebv] at e1; cases e1
    rw [tv] at t1; cases t1
  have hc0 : k.isCompute = true → ValsReady ofRat ρ e l.tensor σ0 bv' 0 ws.length := by
    intro h
    obtain ⟨hfin, hleaf⟩ := hc h
    exact ⟨fun s hs => leafOK_growPost g (hleaf s hs), hfin, PtrAt.of_ptrVar g.inv.arr,
      ⟨blkv, ebv, lv, ov, tv, by omega, by omega⟩⟩
  obtain ⟨inner, σ3, b', c', hlow, r, happ3, hcell, hall, _, hvars, hheap, hblk, ht⟩ :=
    flagTerminal_app ofRat ρ e l k hk n fuel σ σ0 b c i ws bv' 0 hlast hmode hnames rpre hfl0' hflags'
      happ0 (hi.congr (g.vars _ hidxv.1 hidxv.2)) hi0 hi1 hn hov hc0
  have hfw := allWritten_activeFlags e (.append l.tensor l.tensor.indexes.length)
  have hv1 : lookupVar σ3.vars (valsName l.tensor.name) = lookupVar σ0.vars (valsName l.tensor.name) :=
    hvars _ (crdName_ne_valsName _ _ _).symm (crdCapName_ne_valsName _ _ _).symm
      (layerPointer_ne_valsName _ _ _).symm (writtenName_ne_valsName _ _ _).symm
      (valsName_not_mem hfw _)
  have hv2 : lookupVar σ3.vars (valsCapName l.tensor.name) =
      lookupVar σ0.vars (valsCapName l.tensor.name) :=
    hvars _ (crdName_ne_valsCapName _ _ _).symm (crdCapName_ne_valsCapName _ _ _).symm
      (layerPointer_ne_valsCapName _ _ _).symm (writtenName_ne_valsCapName _ _ _).symm
      (fun hmem => by
        obtain ⟨s, m, e⟩ := hfw _ hmem
        exact writtenName_ne_valsCapName s m _ e.symm)
  obtain ⟨_, blk', e3, t3, o3, l3, len3⟩ := hblk blkv hbne ebv
  refine ⟨inner, σ3, b', c', bv', cv', hlow, r, happ3,
    ⟨g.inv.arr.congr hv1, g.inv.cap.congr hv2,
      ⟨blk', e3, by rw [l3, lv], by rw [o3, ov], by rw [t3, tv], by rw [len3]; exact lenv⟩,
      g.inv.pos, g.inv.lt⟩, hlt, ?_, ht.trans g.tensors, hall, ?_, ?_⟩
  · intro h
    simpa using hcell h
  · intro x h1 h2 h3 h4 h5 h6 h7
    rw [hvars x h1 h2 h3 h4 h5]
    exact g.vars x h6 h7
  · intro j blk hj hjv ej
    have hjl := lt_length_of_getElem? ej
    have hjv' : j ≠ bv' := by
      rcases g.old with ⟨h, _⟩ | ⟨h, _⟩
      · rw [h]; exact hjv
      · omega
    obtain ⟨e3, hne⟩ := hheap j blk hj hjv' (g.heap j blk hjv ej)
    exact ⟨e3, hne, hjv'⟩

end TV.Flag
