import TensoraVerif.Lemmas.FlagBasic

/-!
C03, infrastructure, part 2 (F2): the flag branch on the machine. `flagTail_runs`: the conditional
append `if (written) { crd assembly; p++ }`; `flagBranch_runs`: the whole branch around an
arbitrary INNER; `InnerFrame`: what INNER has to leave alone; `flagBranch_app`: the same in terms
of the list of coordinates stored so far (`AppInv` of `Lemmas/GrowthAppend.lean`).
-/
namespace TV.Flag
open TV.IR TV.Gen TV.Graph TV.Growth TV.ToIr

set_option linter.unusedSectionVars false
variable {F : Type} [FloatOps F]

/-- `p += 1` -/
theorem ptrIncr_runs {fuel : Nat} {σ : State F} {x : String} {p : Int} (hp : IntVar σ x p)
    (h0 : 0 ≤ p) (h1 : p + 1 < 2147483648) :
    Runs fuel (increment (.var x) (.intLit 1)) σ { σ with vars := setVar σ.vars x (.int (p + 1)) } :=
  Runs.assign_int (e := plus (.var x) (.intLit 1)) hp
    (evalE_add (evalE_var_int hp (by omega) (by omega)) (evalE_intLit (by omega) (by omega))
      (by omega) h1)

theorem intVar_setVar_same {σ : State F} {x : String} {p q : Int} (hp : IntVar σ x p) :
    IntVar ({ σ with vars := setVar σ.vars x (.int q) } : State F) x q := by
  obtain ⟨r, e1, e2, _⟩ := hp
  exact ⟨_, lookupVar_setVar_same _ e1, e2, rfl⟩

/-- what the coordinate store needs in the state in which the tail of the branch starts
(assembling kernels): the array invariant of the `crd` array (block `b`, capacity `c`), the
cursor value `p ≤ c`, the index variable holds the int32 `i`, doubling does not overflow when the
array is full, and the four names are distinct -/
structure CrdReady (σ : State F) (l : Leaf) (b : Nat) (c p i : Int) : Prop where
  inv : ArrInv σ (crdName l.tensor.name l.layer) (crdCapName l.tensor.name l.layer) .int b c
  le : p ≤ c
  idx : IntVar σ l.index i
  i0 : -2147483648 ≤ i
  i1 : i < 2147483648
  ov : c ≤ p → 2 * c < 2147483648
  names : namesDistinct l

/-- the final state `σ3` of a flag branch relative to the state `σ2` in which INNER ended, by the
value `w` of the flag: untouched when the flag is down; the cursor incremented (compute kernels);
`crd[p] = i` stored by the guarded append (`StorePost`) and then the cursor incremented
(assembling kernels) -/
@[reducible] def TailPost (l : Leaf) (k : Kind) (b : Nat) (c p i : Int) (σ2 σ3 : State F) (w : Bool) : Prop :=
  (w = false → σ3 = σ2) ∧
  (w = true → k.isAssemble = false →
    σ3 = { σ2 with vars := setVar σ2.vars l.ptr (.int (p + 1)) }) ∧
  (w = true → k.isAssemble = true → ∃ σ' b' c',
    StorePost σ2 σ' (crdName l.tensor.name l.layer) (crdCapName l.tensor.name l.layer) .int
      b c p (.int i) b' c' ∧
    σ3 = { σ' with vars := setVar σ'.vars l.ptr (.int (p + 1)) })

/-- `if (written) { [crd assembly] p++ }` -/
theorem flagTail_runs (l : Leaf) (k : Kind) (fuel : Nat) (σ2 : State F) (b : Nat) (c p i : Int)
    (w : Bool) (hw : BoolVar σ2 (flagName l) w) (hp : IntVar σ2 l.ptr p) (hp0 : 0 ≤ p)
    (hp1 : p + 1 < 2147483648) (hcrd : w = true → k.isAssemble = true → CrdReady σ2 l b c p i) :
    ∃ σ3, Runs fuel (flagTail l k) σ2 σ3 ∧ TailPost l k b c p i σ2 σ3 w ∧
      IntVar σ3 l.ptr (p + if w then 1 else 0) := by
  cases w with
  | false =>
    refine ⟨σ2, Runs.branch_false (evalE_var_bool hw) (Runs.skip ..), ⟨fun _ => rfl, ?_, ?_⟩, ?_⟩
    · intro h; cases h
    · intro h; cases h
    · simpa using hp
  | true =>
    cases hk : k.isAssemble with
    | false =>
      refine ⟨_, Runs.branch_true (evalE_var_bool hw) (Runs.block ?_),
        ⟨fun h => Bool.noConfusion h, fun _ _ => rfl, fun _ h => Bool.noConfusion (hk.symm.trans h)⟩, ?_⟩
      · simp only [flagThen, hk, Bool.false_eq_true, if_false, List.nil_append]
        exact RunsL.cons (ptrIncr_runs hp hp0 hp1) (RunsL.nil ..)
      · simpa using intVar_setVar_same (q := p + 1) hp
    | true =>
      obtain ⟨hinv, hle, hidx, hi0, hi1, hov, hnames⟩ := hcrd rfl hk
      obtain ⟨σ', b', c', r2, sp, hp', _⟩ := crdAssembly_runs l fuel σ2 b c p i hinv hp hp0 hle
        hidx hi0 hi1 hov hnames
      refine ⟨_, Runs.branch_true (evalE_var_bool hw) (Runs.block ?_),
        ⟨fun h => Bool.noConfusion h, fun _ h => Bool.noConfusion (hk.symm.trans h), fun _ _ => ⟨σ', b', c', sp, rfl⟩⟩, ?_⟩
      · simp only [flagThen, hk, if_true, List.singleton_append]
        exact RunsL.cons r2 (RunsL.cons (ptrIncr_runs hp' hp0 hp1) (RunsL.nil ..))
      · simpa using intVar_setVar_same (q := p + 1) hp'

theorem runsL_innerStmts_iff {fuel : Nat} {inner : SB F} {σ σ' : State F}
    (h : Runs fuel inner.finalize σ σ') : RunsL fuel (innerStmts inner) σ σ' := by
  unfold innerStmts
  cases hc : inner.comment with
  | none =>
    obtain ⟨o, e, r, s⟩ := h
    simp only [SB.finalize, hc] at e
    rw [exec.eq_5] at e
    exact ⟨o, e, r, s⟩
  | some c =>
    simp only [SB.finalize, hc] at h
    exact RunsL.cons h (RunsL.nil ..)

/-- **the whole branch, raw form**: `PRE; bool written = false; INNER; if (written) {…}` where the
hypotheses about INNER are a run `σ1 → σ2` from the state after the declaration and the facts the
tail needs at `σ2` -/
theorem flagBranch_runs (l : Leaf) (k : Kind) (inner : SB F) (fuel : Nat) (σ σ0 σ2 : State F)
    (b : Nat) (c p i : Int) (w : Bool)
    (hpre : RunsL fuel (flagPre l k) σ σ0)
    (hfl : lookupVar σ0.vars (flagName l) = none ∨ FlagVar σ0 (flagName l))
    (hin : RunsL fuel (innerStmts inner) (declFalse σ0 (flagName l)) σ2)
    (hw : BoolVar σ2 (flagName l) w) (hp : IntVar σ2 l.ptr p) (hp0 : 0 ≤ p)
    (hp1 : p + 1 < 2147483648) (hcrd : w = true → k.isAssemble = true → CrdReady σ2 l b c p i) :
    ∃ σ3, Runs fuel (flagBranch l k inner) σ σ3 ∧ TailPost l k b c p i σ2 σ3 w ∧
      IntVar σ3 l.ptr (p + if w then 1 else 0) := by
  obtain ⟨σ3, r3, tp, hp3⟩ := flagTail_runs l k fuel σ2 b c p i w hw hp hp0 hp1 hcrd
  refine ⟨σ3, Runs.block ?_, tp, hp3⟩
  unfold flagBranchLines
  exact RunsL.append hpre (RunsL.cons (declFalse_runs hfl)
    (RunsL.append hin (RunsL.cons r3 (RunsL.nil ..))))

/-! ### INNER as a frame -/

/-- what INNER (run from the state after `bool written = false;`, reached from `σ0`) has to
leave alone for the tail to work: the four variables of the coordinate store and the `crd` block -/
structure InnerFrame (l : Leaf) (b : Nat) (σ0 σ2 : State F) : Prop where
  crd : lookupVar σ2.vars (crdName l.tensor.name l.layer) = lookupVar σ0.vars (crdName l.tensor.name l.layer)
  cap : lookupVar σ2.vars (crdCapName l.tensor.name l.layer) =
    lookupVar σ0.vars (crdCapName l.tensor.name l.layer)
  ptr : lookupVar σ2.vars l.ptr = lookupVar σ0.vars l.ptr
  idx : lookupVar σ2.vars l.index = lookupVar σ0.vars l.index
  blk : σ2.heap[b]? = σ0.heap[b]?

theorem arrInv_frame {σ σ' : State F} {arr cap : String} {ety : ElemTy} {b : Nat} {c : Int}
    (h : ArrInv σ arr cap ety b c) (hh : σ'.heap[b]? = σ.heap[b]?)
    (ha : lookupVar σ'.vars arr = lookupVar σ.vars arr)
    (hc : lookupVar σ'.vars cap = lookupVar σ.vars cap) : ArrInv σ' arr cap ety b c := by
  obtain ⟨blk, e, r⟩ := h.blk
  exact ⟨h.arr.congr ha, h.cap.congr hc, ⟨blk, by rw [hh]; exact e, r⟩, h.pos, h.lt⟩

theorem crdReady_frame {l : Leaf} {b : Nat} {c p i : Int} {σ0 σ2 : State F}
    (h : CrdReady σ0 l b c p i) (f : InnerFrame l b σ0 σ2) : CrdReady σ2 l b c p i :=
  ⟨arrInv_frame h.inv f.blk f.crd f.cap, h.le, h.idx.congr f.idx, h.i0, h.i1, h.ov, h.names⟩

theorem holds_frame {σ σ' : State F} {b : Nat} {ws : List Int} (h : Holds σ b ws)
    (hh : σ'.heap[b]? = σ.heap[b]?) : Holds σ' b ws := by
  obtain ⟨blk, e, r⟩ := h
  exact ⟨blk, by rw [hh]; exact e, r⟩

theorem appInv_frame {l : Leaf} {b : Nat} {c : Int} {ws : List Int} {σ0 σ2 : State F}
    (h : AppInv σ0 l b c ws) (f : InnerFrame l b σ0 σ2) : AppInv σ2 l b c ws :=
  ⟨arrInv_frame h.inv f.blk f.crd f.cap, h.ptr.congr f.ptr,
    let ⟨v0, hv⟩ := h.idx; ⟨v0, hv.congr f.idx⟩, h.le, holds_frame h.holds f.blk⟩

/-- **the whole branch in terms of the stored coordinates** (assembling kernels): if before the
branch (after `PRE`) the `crd` array holds the coordinates `ws` appended so far (`AppInv`: array
invariant, cursor `= |ws| ≤` capacity, cells `0 … |ws|` are `ws`), and INNER respects the frame and
ends with the flag holding `w`, then after the branch the array holds `ws ++ [i]` if `w`, and `ws`
otherwise — with the cursor again `=` the number of stored coordinates. When `w = false` the branch
ends exactly in the state INNER ended in. -/
theorem flagBranch_app (l : Leaf) (k : Kind) (hk : k.isAssemble = true) (inner : SB F) (fuel : Nat)
    (σ σ0 σ2 : State F) (b : Nat) (c i : Int) (ws : List Int) (w : Bool)
    (hnames : FlagNames l)
    (hpre : RunsL fuel (flagPre l k) σ σ0)
    (hfl : lookupVar σ0.vars (flagName l) = none ∨ FlagVar σ0 (flagName l))
    (happ : AppInv σ0 l b c ws) (hi : IntVar σ0 l.index i)
    (hi0 : -2147483648 ≤ i) (hi1 : i < 2147483648)
    (hn : (ws.length : Int) + 1 < 2147483648) (hov : c ≤ ws.length → 2 * c < 2147483648)
    (hin : RunsL fuel (innerStmts inner) (declFalse σ0 (flagName l)) σ2)
    (hfr : InnerFrame l b σ0 σ2) (hw : BoolVar σ2 (flagName l) w) :
    ∃ σ3 b' c', Runs fuel (flagBranch l k inner) σ σ3 ∧
      AppInv σ3 l b' c' (if w then ws ++ [i] else ws) ∧
      (w = false → σ3 = σ2) ∧ σ3.tensors = σ2.tensors ∧
      (∀ j blk, j ≠ b → σ2.heap[j]? = some blk → σ3.heap[j]? = some blk ∧ j ≠ b') ∧
      (∀ x, x ≠ crdName l.tensor.name l.layer → x ≠ crdCapName l.tensor.name l.layer → x ≠ l.ptr →
        lookupVar σ3.vars x = lookupVar σ2.vars x) := by
  have hnames' := hnames.distinct
  simp only [namesDistinct, List.pairwise_cons, List.mem_cons, List.not_mem_nil, or_false,
    forall_eq_or_imp, forall_eq, List.Pairwise.nil, and_true, false_imp_iff, implies_true] at hnames'
  obtain ⟨⟨n1, n2, n3⟩, ⟨n4, n5⟩, n6⟩ := hnames'
  have happ2 := appInv_frame happ hfr
  have hi2 : IntVar σ2 l.index i := hi.congr hfr.idx
  have hready : CrdReady σ2 l b c ws.length i :=
    ⟨happ2.inv, happ2.le, hi2, hi0, hi1, hov, hnames.distinct⟩
  obtain ⟨σ3, r, tp, hp3⟩ := flagBranch_runs l k inner fuel σ σ0 σ2 b c ws.length i w hpre hfl hin
    hw happ2.ptr (by omega) hn (fun _ _ => hready)
  cases w with
  | false =>
    have e := tp.1 rfl
    exact ⟨σ2, b, c, e ▸ r, by simpa using happ2, fun _ => rfl, rfl, fun j blk hj e => ⟨e, hj⟩,
      fun _ _ _ _ => rfl⟩
  | true =>
    obtain ⟨σ', b', c', sp, e⟩ := tp.2.2 rfl hk
    subst e
    obtain ⟨blk, hb, hcells⟩ := happ2.holds
    refine ⟨_, b', c', r, ?_, fun h => Bool.noConfusion h, sp.tensors, ?_, ?_⟩
    · simp only [if_true]
      refine ⟨sp.inv.congr rfl (lookupVar_setVar_other _ n2) (lookupVar_setVar_other _ n4),
        ?_, ⟨i, ?_⟩, ?_, ?_⟩
      · simpa using hp3
      · exact (hi2.congr (sp.vars _ (Ne.symm n3) (Ne.symm n5))).congr
          (lookupVar_setVar_other _ (Ne.symm n6))
      · have := sp.bound
        simp only [List.length_append, List.length_cons, List.length_nil]
        omega
      · obtain ⟨blk2, hb2, hcell⟩ := sp.cell
        refine ⟨blk2, hb2, ?_⟩
        intro j v hj
        have hlen : (blk.cells.length : Int) = c := by
          obtain ⟨blk0, e0, _, _, _, hl⟩ := happ2.inv.blk
          rw [hb] at e0; cases e0; exact hl
        have hle := happ2.le
        rcases Nat.lt_or_ge j ws.length with hlt | hge
        · rw [List.getElem?_append_left hlt] at hj
          have := sp.cells blk blk2 hb hb2 j (by omega) (by simp; omega)
          rw [this]; exact hcells j v hj
        · have hjlen : j < (ws ++ [i]).length := by
            rcases Nat.lt_or_ge j (ws ++ [i]).length with h | h
            · exact h
            · rw [List.getElem?_eq_none h] at hj; cases hj
          simp only [List.length_append, List.length_cons, List.length_nil] at hjlen
          have hjeq : j = ws.length := by omega
          subst hjeq
          rw [List.getElem?_append_right (Nat.le_refl _)] at hj
          simp at hj
          subst hj
          simpa using hcell
    · intro j blk' hj e
      refine ⟨sp.heap j blk' hj e, ?_⟩
      have := lt_length_of_getElem? e
      rcases sp.old with h | ⟨h, _⟩
      · omega
      · omega
    · intro x h1 h2 h3
      show lookupVar (setVar σ'.vars l.ptr _) x = _
      rw [lookupVar_setVar_other _ h3]
      exact sp.vars x h1 h2

end TV.Flag
